"""Shared machinery of the checks: Coq literals, case files evaluated by vm_compute, make/prove step,
evidence and replay writers.  Run with /venv/bin/python, PYTHONPATH=<repo>."""
import json, math, os, re, subprocess, sys, time, hashlib, random
from concurrent.futures import ThreadPoolExecutor

VERIF = os.path.dirname(os.path.dirname(os.path.abspath(__file__)))
COQ = os.path.join(VERIF, "coq")
BUILD = os.path.join(VERIF, "build")
REPO = os.environ.get("VERIF_REPO", "/repo")
COQC_TIMEOUT = 600


def hexf(x):
    """binary64 -> Coq PrimFloat literal (bit exact)"""
    x = float(x)
    if math.isnan(x):
        return "nan"
    if math.isinf(x):
        return "infinity" if x > 0 else "neg_infinity"
    h = x.hex()
    if h.startswith("-"):
        return "(-%s)" % h[1:]
    return h


def flist(xs):
    return "[" + "; ".join(hexf(x) for x in xs) + "]"


def flist2(rows):
    return "[" + ";\n ".join(flist(r) for r in rows) + "]"


def zlist(xs):
    return "[" + "; ".join("(%d)" % int(x) for x in xs) + "]%Z"


def blist(xs):
    return "[" + "; ".join("true" if x else "false" for x in xs) + "]"


def run(cmd, timeout=COQC_TIMEOUT, cwd=None, env=None):
    t0 = time.time()
    try:
        p = subprocess.run(cmd, cwd=cwd, env=env, stdout=subprocess.PIPE, stderr=subprocess.STDOUT,
                           timeout=timeout, text=True, shell=isinstance(cmd, str))
        return p.returncode, p.stdout, time.time() - t0
    except subprocess.TimeoutExpired as ex:
        out = ex.stdout if isinstance(ex.stdout, str) else (ex.stdout or b"").decode("utf8", "replace")
        return 124, (out or "") + "\nTIMEOUT after %ss" % timeout, time.time() - t0


# ------------------------------------------------------------------ translator / make ----
def sync_generated():
    """regenerate coq/gen from the repository's current sources (Tie T)"""
    sys.path.insert(0, os.path.join(VERIF, "translate"))
    import py2coq
    st = py2coq.main(REPO, os.path.join(COQ, "gen"))
    try:
        import effects
    except ImportError:
        effects = None
    if effects is not None:
        st.update(effects.main(REPO, os.path.join(COQ, "gen")))
    return st


def ensure_makefile():
    files = []
    for d in ("base", "gen", "model", "proofs", "props"):
        dd = os.path.join(COQ, d)
        if os.path.isdir(dd):
            files += sorted(os.path.join(d, f) for f in os.listdir(dd) if f.endswith(".v"))
    text = "-Q . AOV\n-arg -w -arg -inexact-float,-deprecated,-notation-overridden\n" + "\n".join(files) + "\n"
    p = os.path.join(COQ, "_CoqProject")
    old = open(p).read() if os.path.exists(p) else None
    if old != text or not os.path.exists(os.path.join(COQ, "Makefile")):
        open(p, "w").write(text)
        run(["coq_makefile", "-f", "_CoqProject", "-o", "Makefile"], cwd=COQ)


def make(targets, timeout=1500, jobs=16):
    ensure_makefile()
    return run(["make", "-j%d" % jobs] + list(targets), cwd=COQ, timeout=timeout)


def lint():
    """forbidden vernacular anywhere in the development (comments are stripped first)"""
    bad = []
    always = re.compile(r"\b(Admitted|admit|Axiom|Axioms|Parameter|Parameters|Conjecture|Conjectures)\b"
                        r"|Admit Obligations|Unset Guard|Guard Checking|Positivity Checking|Universe Checking"
                        r"|bypass_check|type-in-type|impredicative-set")
    toplevel = re.compile(r"^\s*(Variable|Variables|Hypothesis|Hypotheses|Context)\b")
    for d in ("base", "gen", "model", "proofs", "props"):
        dd = os.path.join(COQ, d)
        if not os.path.isdir(dd):
            continue
        for f in sorted(os.listdir(dd)):
            if not f.endswith(".v"):
                continue
            txt = strip_comments(open(os.path.join(dd, f)).read())
            depth = 0
            for ln, line in enumerate(txt.split("\n"), 1):
                s = line.strip()
                if re.match(r"^Section\b", s):
                    depth += 1
                elif re.match(r"^End\b", s) and depth > 0:
                    depth -= 1
                if always.search(line) or (depth == 0 and toplevel.match(line)):
                    bad.append("%s/%s:%d: %s" % (d, f, ln, s[:80]))
    return bad


def strip_comments(txt):
    out, depth, i = [], 0, 0
    while i < len(txt):
        if txt.startswith("(*", i):
            depth += 1
            i += 2
        elif txt.startswith("*)", i) and depth:
            depth -= 1
            i += 2
        else:
            if not depth:
                out.append(txt[i])
            elif txt[i] == "\n":
                out.append("\n")
            i += 1
    return "".join(out)


def prove(pid):
    """build props/<pid>.vo (and everything it depends on) from the current generated sources"""
    props = os.path.join(COQ, "props", pid + ".v")
    thms = re.findall(r"^\s*(?:Theorem|Example)\s+(\w+)", strip_comments(open(props).read()), re.M)
    rc, out, wall = make(["props/%s.vo" % pid])
    res = {"obligations": len(thms), "theorems": thms, "ok": rc == 0, "wall_s": round(wall, 1),
           "axioms": [], "log_tail": ""}
    if rc != 0:
        res["log_tail"] = out[-3000:]
        # which theorem/lemma no longer checks
        m = re.search(r'File "([^"]+)", line (\d+)', out)
        res["failed_at"] = "%s:%s" % (m.group(1), m.group(2)) if m else "unknown"
        m2 = re.search(r"\(in proof (\w+)\)", out)
        if m2:
            res["failed_at"] += " (in proof %s)" % m2.group(1)
        res["discharged"] = 0
    else:
        res["discharged"] = len(thms)
        # Print Assumptions output is produced only when the file is actually compiled; keep a
        # copy beside the .vo so that later runs can still report it
        apath = os.path.join(BUILD, "assumptions_%s.txt" % pid)
        if "Axioms:" in out or "Closed under the global context" in out:
            os.makedirs(BUILD, exist_ok=True)
            open(apath, "w").write(out)
        elif not os.path.exists(apath) or os.path.getmtime(apath) < os.path.getmtime(props):
            rc2, out2, _ = run(["coqc", "-Q", ".", "AOV", "-w", "-inexact-float,-deprecated,-notation-overridden",
                                "props/%s.v" % pid], cwd=COQ)
            os.makedirs(BUILD, exist_ok=True)
            open(apath, "w").write(out2)
        txt = open(apath).read()
        ax = set(re.findall(r"^([A-Za-z_][\w.]*)\s*:", txt, re.M))
        ax = sorted(a for a in ax if "." in a)
        prim = [a for a in ax if a.startswith(("PrimInt63.", "Uint63.", "PrimFloat.", "FloatAxioms."))]
        res["axioms"] = [a for a in ax if a not in prim]
        if prim:
            res["axioms"].append("%d primitive-integer/float constants and their stdlib specification axioms (Uint63.*_spec, PrimInt63.*; brought in by Coq-Interval's computations)" % len(prim))
        res["closed"] = txt.count("Closed under the global context")
    bad = lint()
    res["lint"] = bad
    if bad:
        res["ok"] = False
        res["failed_at"] = "lint: " + "; ".join(bad[:3])
    return res


# ------------------------------------------------------------------ case files ---------
CASE_HEADER = """From Coq Require Import ZArith Bool List Uint63 PrimFloat FloatOps String.
Require Import AOV.base.Num AOV.base.FloatFun AOV.base.NumF %s.
Import ListNotations.
Local Open Scope float_scope.
Fixpoint false_idx (n : nat) (l : list bool) : list nat :=
  match l with [] => [] | b :: r => if b then false_idx (S n) r else n :: false_idx (S n) r end.
"""


def run_cases(pid, imports, prelude, cases, per_file=300, tag="c", timeout=COQC_TIMEOUT):
    """cases: list of Coq boolean expressions (True = model agrees with the implementation).
    Returns (n_evaluated, failing_global_indices, errors)."""
    d = os.path.join(BUILD, "cases", pid)
    os.makedirs(d, exist_ok=True)
    for f in os.listdir(d):
        if f.startswith(tag + "_"):
            os.remove(os.path.join(d, f))
    chunks = [cases[i:i + per_file] for i in range(0, len(cases), per_file)] or []
    jobs = []
    for k, ch in enumerate(chunks):
        path = os.path.join(d, "%s_%d.v" % (tag, k))
        with open(path, "w") as f:
            f.write(CASE_HEADER % " ".join(imports))
            f.write(prelude + "\n")
            f.write("Definition cases : list bool := [\n " + ";\n ".join(ch) + "\n].\n")
            f.write("Eval vm_compute in (List.length cases, false_idx 0 cases).\n")
        jobs.append((k, path))

    def one(job):
        k, path = job
        rc, out, wall = run("ulimit -s unlimited 2>/dev/null; coqc -Q %s AOV -w -inexact-float,-deprecated,-notation-overridden %s"
                            % (COQ, path), timeout=timeout, cwd=d)
        return k, rc, out

    failing, errors, n = [], [], 0
    with ThreadPoolExecutor(max_workers=16) as ex:
        for k, rc, out in ex.map(one, jobs):
            m = re.search(r"=\s*\((\d+)(?:%nat)?,\s*(\[[^\]]*\]|nil)(?:%nat|%list)?\)", out.replace("\n", " "))
            if rc != 0 or not m:
                errors.append("case file %s_%d.v: rc=%s %s" % (tag, k, rc, out[-600:]))
                continue
            n += int(m.group(1))
            idx = re.findall(r"\d+", m.group(2)) if m.group(2) != "nil" else []
            failing += [k * per_file + int(i) for i in idx]
    return n, sorted(failing), errors


# ------------------------------------------------------------------ evidence / replay ---
def write_evidence(pid, tier, seed, coverage, assumptions, wall_s, violations):
    os.makedirs(os.path.join(VERIF, "evidence"), exist_ok=True)
    ev = {"property_id": pid, "tier": tier, "seed": int(seed), "level": "proof",
          "coverage": coverage, "assumptions": assumptions, "wall_s": round(wall_s, 2),
          "violations": int(violations)}
    with open(os.path.join(VERIF, "evidence", pid + ".json"), "w") as f:
        json.dump(ev, f, indent=1, default=jsonable)
    return ev


def jsonable(o):
    try:
        import numpy
        if isinstance(o, numpy.ndarray):
            return o.tolist()
        if isinstance(o, (numpy.floating,)):
            return float(o)
        if isinstance(o, (numpy.integer,)):
            return int(o)
        if isinstance(o, (numpy.bool_,)):
            return bool(o)
        if isinstance(o, complex) or isinstance(o, numpy.complexfloating):
            return [float(o.real), float(o.imag)]
    except ImportError:
        pass
    return repr(o)


def write_replay(pid, payload):
    d = os.path.join(VERIF, "replays")
    os.makedirs(d, exist_ok=True)
    h = hashlib.sha1(json.dumps(payload, sort_keys=True, default=jsonable).encode()).hexdigest()[:10]
    path = os.path.join(d, "%s-%s.json" % (pid, h))
    with open(path, "w") as f:
        json.dump(payload, f, indent=1, default=jsonable)
    return path


def load_known(pid):
    p = os.path.join(VERIF, "known_findings.json")
    if not os.path.exists(p):
        return []
    return [e for e in json.load(open(p)).get("findings", []) if e.get("property") == pid]


class Rng(random.Random):
    """single PRNG for every random choice of a check (replayable from VERIF_SEED)"""
    def loguniform(self, lo, hi):
        return math.exp(self.uniform(math.log(lo), math.log(hi)))

    def nprng(self):
        import numpy
        return numpy.random.default_rng(self.getrandbits(63))


# ------------------------------------------------------------------ concurrency ---
def threads_equal(calls, workers=8, repeats=3):
    """calls: list of zero-argument callables returning arrays / tuples of arrays.  Runs them one after the other (reference),
    then all of them at once from a thread pool (a barrier lines the threads up), `repeats` times; returns the number of
    concurrent results that differ bitwise from the sequential reference.  Library code that keeps module-level scratch
    buffers or other shared state shows up here; pure functions of their arguments give 0."""
    import threading, numpy
    from concurrent.futures import ThreadPoolExecutor

    def norm(r):
        if isinstance(r, (tuple, list)):
            return tuple(norm(x) for x in r)
        a = numpy.asarray(r)
        return (a.shape, a.dtype.str, a.tobytes())
    ref = [norm(c()) for c in calls]
    bad = 0
    n = len(calls)
    for _ in range(repeats):
        barrier = threading.Barrier(min(n, workers))
        def run(i):
            try:
                barrier.wait(timeout=5)
            except Exception:
                pass
            try:
                return norm(calls[i]())
            except Exception as ex:
                return ("raised", type(ex).__name__)
        with ThreadPoolExecutor(max_workers=min(n, workers)) as ex:
            got = list(ex.map(run, range(n)))
        bad += sum(1 for a, b in zip(got, ref) if a != b)
    return bad
