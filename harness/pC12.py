"""C12 -- Zernike indexing, modes, normalisations and gradient matrices."""
import math, warnings
import numpy
from common import hexf, flist, flist2, run_cases
from aotools.functions import zernike as zk
from aotools.functions import pupil

PID = "C12"
RULE = ("zernIndex: every Noll index 1..20000 (thorough 200000) plus indices around triangular numbers up to 2^44 (float sqrt vs integer sqrt), compared "
        "exactly with the Coq integer model; zernikeRadialFunc / zernike_noll / zernikeArray (noll, p2v, rms; list and count) / phaseFromZernikes on "
        "grids N in {4,5,8,9,12} with rotations {0, 0.3}, compared pixel-wise with the Coq model at binary64 (1e-10); makegammas(1..6) entrywise against "
        "the model's (sign, sqrt2-flag, radicand) tables (binary32: 1e-6); non-trivial = mode not identically zero; distinct = distinct (function, arguments)")
TRUSTED = ["model coq/model/Zernike.v hand-written", "software sqrt/sin/cos/atan2/pow of FloatFun.v (model execution only)"]
ASSUMPTIONS = ["orthonormality is proved for the continuous disc (exact integration); 'Gram matrix tends to the identity as the grid is refined' is only tested numerically",
               "p2v normalisation needs max != min (true for every mode on a grid with a pixel outside the pupil)"]
IMPORTS = ["AOV.model.Pupil", "AOV.model.Zernike"]
PRELUDE = """Definition F := FOps [].
Definition okm (tol sc : float) (a e : list (list float)) := all_close2 tol sc a e.
Definition okl (tol sc : float) (a e : list float) := all_close tol sc a e.
Fixpoint eqz (a b : list (Z * Z)) : bool := match a, b with [], [] => true | (x,y) :: r, (u,v) :: s => (x =? u)%Z && (y =? v)%Z && eqz r s | _, _ => false end.
Definition gval (e : gentry) : float := fZ (g_sign e) * (if g_two e then sqrt 2 else 1) * sqrt (fZ (g_prod e)).
Definition gmat (f : list (Z * Z) -> nat -> nat -> gentry) (nzrad : nat) : list (list float) :=
  let nm := gam_nm nzrad in map (fun i => map (fun j => gval (f nm i j)) (seq 0 (List.length nm))) (seq 0 (List.length nm)).
"""


def zl(pairs):
    return "[" + "; ".join("(%d, %d)" % (int(a), int(b)) for a, b in pairs) + "]%Z"


def correspond(ctx):
    rng, tier = ctx["rng"], ctx["tier"]
    npr = rng.nprng()
    cases, meta = [], []
    top = 20000 if tier == "quick" else 200000
    blk = 5000
    for a in range(1, top + 1, blk):
        js = list(range(a, min(top, a + blk - 1) + 1))
        exp = [zk.zernIndex(j) for j in js]
        cases.append("eqz (map zern_index (map Z.of_nat (seq %d %d))) %s" % (a, len(js), zl(exp)))
        meta.append({"fn": "zernIndex", "range": [a, js[-1]], "nontrivial": True})
    stress = []
    for e in range(8, 45, 2):
        n = 2 ** (e // 2) + rng.randint(0, 1000)
        t = n * (n + 1) // 2
        stress += [t - 1, t, t + 1, t + 2, t + n, t + n + 1]
    stress = [j for j in stress if j >= 1]
    exp = [zk.zernIndex(j) for j in stress]
    cases.append("eqz (map zern_index %s) %s" % ("[" + "; ".join(str(j) for j in stress) + "]%Z", zl(exp)))
    meta.append({"fn": "zernIndex/near triangular numbers", "max_j": max(stress), "nontrivial": True})
    for N in ([4, 5, 8, 9] if tier == "quick" else [4, 5, 8, 9, 12, 16]):
        for rot in (0, 0.3):
            for j in ([1, 2, 3, 4, 6, 7, 11, 13, 21] if tier == "quick" else list(range(1, 29))):
                out = zk.zernike_noll(j, N, rot)
                cases.append("okm %s %s (zernike_noll F %d %d %s) %s" % (hexf(1e-10), hexf(float(numpy.abs(out).max())), j, N, hexf(rot), flist2(out)))
                meta.append({"fn": "zernike_noll", "j": j, "N": N, "rot": rot, "nontrivial": bool(numpy.abs(out).max() > 0)})
        n, m = rng.choice([(2, 0), (3, 1), (4, 2), (5, 3), (6, 0), (7, 1)])
        r = npr.uniform(0, 1.2, size=6)
        out = zk.zernikeRadialFunc(n, m, r)
        cases.append("okl %s %s (map (radial F %d %d) %s) %s" % (hexf(1e-10), hexf(float(numpy.abs(out).max())), n, m, flist(r), flist(out)))
        meta.append({"fn": "zernikeRadialFunc", "n": n, "m": m, "nontrivial": True})
        # high radial orders (n >= 21: the factorials no longer fit 64-bit integers); the tolerance is the cancellation bound
        n, m = rng.choice([(21, 1), (22, 2), (23, 3), (24, 0), (25, 5), (26, 4), (21, 21), (28, 2)])
        r = npr.uniform(0, 1.0, size=5)
        out = zk.zernikeRadialFunc(n, m, r)
        cases.append("okl %s %s (map (radial F %d %d) %s) %s" % (hexf(4e-15), hexf(radial_exact(n, m, 1)[1]), n, m, flist(r), flist(out)))
        meta.append({"fn": "zernikeRadialFunc/high order", "n": n, "m": m, "nontrivial": True})
        # normalisations and list/count dispatch
        J = rng.randint(3, 8)
        for norm, code in (("p2v", 1), ("rms", 2)):
            Zs = zk.zernikeArray(J, N, norm=norm)
            jj = rng.randint(2, J)
            cases.append("okm %s %s (nth %d (zernike_array_count F %d %d %d 0) []) %s" % (hexf(1e-10), hexf(float(numpy.abs(Zs[jj - 1]).max())), jj - 1, J, N, code, flist2(Zs[jj - 1])))
            meta.append({"fn": "zernikeArray/" + norm, "J": J, "N": N, "j": jj, "nontrivial": True})
        lst = [rng.randint(1, 15) for _ in range(3)]
        nrm, code = rng.choice([("noll", 0), ("p2v", 1), ("rms", 2)])
        Zl = zk.zernikeArray(lst, N, norm=nrm, rot=rot)
        cases.append("okm %s %s (nth 1 (zernike_array_list F [%s]%%Z %d %d %s) []) %s" % (hexf(1e-10), hexf(float(numpy.abs(Zl[1]).max())), "; ".join(str(x) for x in lst), N, code, hexf(rot), flist2(Zl[1])))
        meta.append({"fn": "zernikeArray/list", "list": lst, "N": N, "norm": nrm, "rot": rot, "nontrivial": True})
        co = [rng.uniform(-2, 2) for _ in range(rng.randint(1, 6))]
        ph = zk.phaseFromZernikes(co, N)
        cases.append("okm %s %s (phase_from_zernikes F %s %d 0) %s" % (hexf(1e-10), hexf(float(numpy.abs(ph).max())), flist(co), N, flist2(ph)))
        meta.append({"fn": "phaseFromZernikes", "ncoef": len(co), "N": N, "nontrivial": True})
    for nz in range(1, 7 if tier == "quick" else 9):
        gx, gy = zk.makegammas(nz)
        cases.append("okm %s 1 (gmat gamx_entry %d) %s && okm %s 1 (gmat gamy_entry %d) %s" % (hexf(1e-6), nz, flist2(gx.astype(float)), hexf(1e-6), nz, flist2(gy.astype(float))))
        meta.append({"fn": "makegammas", "nzrad": nz, "size": int(gx.shape[0]), "nontrivial": True})
    nev, failing, errors = run_cases(PID, IMPORTS, PRELUDE, cases, per_file=8)
    hist = {}
    for m in meta:
        hist[m["fn"].split("/")[0]] = hist.get(m["fn"].split("/")[0], 0) + 1
    div = [dict(meta[i], what="model != implementation") for i in failing]
    return {"cases": nev, "nontrivial": sum(1 for m in meta if m["nontrivial"]), "divergences": div, "errors": errors,
            "samples": [meta[0], meta[len(meta) // 2], meta[-1]], "hist": hist}


def noll_of(n, m):
    base = n * (n + 1) // 2
    if m == 0:
        return base + 1
    j0 = base + abs(m)
    return j0 if ((j0 % 2 == 0) == (m > 0)) else j0 + 1


def radial_exact(n, m, r):
    """(R_n^m(r), sum of |terms|) in exact rational arithmetic (r an int or a Fraction)"""
    from fractions import Fraction
    f = math.factorial
    tot, mag = Fraction(0), Fraction(0)
    for k in range((n - m) // 2 + 1):
        c = Fraction((-1) ** k * f(n - k), f(k) * f((n + m) // 2 - k) * f((n - m) // 2 - k)) * Fraction(r) ** (n - 2 * k)
        tot += c; mag += abs(c)
    return float(tot), float(mag)


def property_checks(inp):
    out = []
    A = out.append
    npr = numpy.random.default_rng(inp["data_seed"])
    # the radial polynomial against exact rational arithmetic at rational radii, every order up to 30 (tolerance = cancellation bound)
    from fractions import Fraction
    worst_r = 0.0
    for n_, m_ in [(inp["n"], inp["m_abs"]), (21 + inp["n"] % 10, (21 + inp["n"] % 10) % 2 + 2 * (inp["m_abs"] % 4))]:
        for rq in (Fraction(1), Fraction(1, 2), Fraction(7, 8), Fraction(inp["j0"] % 97, 97)):
            ex, mag = radial_exact(n_, m_, rq)
            got = float(numpy.asarray(zk.zernikeRadialFunc(n_, m_, numpy.array([float(rq)])))[0])
            worst_r = max(worst_r, abs(got - ex) / (4e-15 * mag + 1e-300))
    A(("radial polynomial = exact rational value within the cancellation bound (orders up to 30, incl. n >= 21)", worst_r, 1.0))
    # indexing
    bad = 0
    prev = None
    for j in range(inp["j0"], inp["j0"] + 400):
        n, m = zk.zernIndex(j)
        ok = n >= 0 and abs(m) <= n and (n - abs(m)) % 2 == 0 and noll_of(n, m) == j and ((m > 0) == (j % 2 == 0) or m == 0) and ((m < 0) == (j % 2 == 1) or m == 0)
        if prev is not None and (n, abs(m)) < prev:
            ok = False
        prev = (n, abs(m))
        bad += (not ok)
    A(("Noll index is a bijection ordered by n then |m| with the cos/sin parity", float(bad), 0.0))
    n = inp["n"]; m = inp["m_abs"] * inp["sgn"]
    A(("every (n, m) has a Noll index mapping back to it", 0.0 if tuple(zk.zernIndex(noll_of(n, m))) == (n, m) else 1.0, 0.0))
    N = inp["N"]
    J = inp["J"]
    Zs = zk.zernikeArray(J, N)
    mask = pupil.circle(N / 2., N)
    A(("modes vanish outside the inscribed pupil", float(numpy.abs(Zs * (1 - mask)).max()), 0.0))
    # Gram matrix -> identity with resolution
    def gram_err(n_):
        Z = zk.zernikeArray(10, n_); mk = pupil.circle(n_ / 2., n_)
        Gm = numpy.einsum("iyx,jyx->ij", Z, Z) / mk.sum()
        return float(numpy.abs(Gm - numpy.eye(10)).max())
    e64, e256 = gram_err(64), gram_err(256)
    A(("Gram matrix tends to the identity as the grid is refined", e256 - 0.6 * e64, 0.0))
    A(("Gram matrix close to the identity at N=256", e256, 0.03))
    Zr = zk.zernikeArray(J, N, norm="rms")
    rms = numpy.sqrt((Zr ** 2).sum(axis=(1, 2)) / mask.sum())
    A(("unit RMS under the rms normalisation", float(numpy.abs(rms - 1).max()), 1e-12))
    Zp = zk.zernikeArray(J, N, norm="p2v")
    A(("unit peak-to-valley under the p2v normalisation", float(numpy.abs((Zp.max(axis=(1, 2)) - Zp.min(axis=(1, 2))) - 1).max()), 1e-12))
    lst = inp["lst"]
    for norm in ("noll", "rms", "p2v"):
        full = zk.zernikeArray(max(lst), N, norm=norm, rot=inp["rot"])
        part = zk.zernikeArray(lst, N, norm=norm, rot=inp["rot"])
        A(("array from an index list = slices of the array from a count (%s)" % norm, float(numpy.abs(part - full[numpy.array(lst) - 1]).max()), 0.0))
    # rotation: the cos/sin partners of one (n, |m|) rotate together, as the 2 x 2 rotation of the unrotated pair; m = 0 is unchanged
    nr_, mr_ = inp["n"], inp["m_abs"]
    for rot_ in (0.3, 1.1, -0.7):
        if mr_ > 0:
            c0, s0 = zk.zernike_nm(nr_, mr_, N), zk.zernike_nm(nr_, -mr_, N)
            cr, sr = zk.zernike_nm(nr_, mr_, N, rot_), zk.zernike_nm(nr_, -mr_, N, rot_)
            sc_r = max(float(numpy.abs(c0).max()), float(numpy.abs(s0).max()), 1e-300)
            A(("rotated cos/sin pair = rotation of the unrotated pair (rot %g)" % rot_,
               float(max(numpy.abs(cr - (math.cos(rot_) * c0 - math.sin(rot_) * s0)).max(), numpy.abs(sr - (math.sin(rot_) * c0 + math.cos(rot_) * s0)).max()) / sc_r), 1e-9))
        else:
            A(("m = 0 modes do not depend on the rotation (rot %g)" % rot_, float(numpy.abs(zk.zernike_nm(nr_, 0, N, rot_) - zk.zernike_nm(nr_, 0, N)).max()), 1e-12))
    # the array functions pass the rotation on: each plane of zernikeArray(..., rot) is the single rotated mode, and the phase
    # built from coefficients is the combination of the rotated modes
    for rot_ in (0.3, -0.9):
        Zr_ = zk.zernikeArray(J, N, rot=rot_)
        single = numpy.array([zk.zernike_nm(*zk.zernIndex(j_ + 1), N, rot_) for j_ in range(J)])
        A(("zernikeArray(count, rot) = the rotated single modes (rot %g)" % rot_, float(numpy.abs(Zr_ - single).max()), 0.0))
        Zl_ = zk.zernikeArray(lst, N, rot=rot_)
        A(("zernikeArray(list, rot) = the rotated single modes (rot %g)" % rot_, float(numpy.abs(Zl_ - numpy.array([zk.zernike_nm(*zk.zernIndex(j_), N, rot_) for j_ in lst])).max()), 0.0))
        A(("zernike_noll(j, N, rot) = zernike_nm(n, m, N, rot), rotation given positionally or by keyword (rot %g)" % rot_,
           float(max(numpy.abs(zk.zernike_noll(j_, N, rot_) - zk.zernike_nm(*zk.zernIndex(j_), N, rot_)).max() + numpy.abs(zk.zernike_noll(j_, N, rot=rot_) - zk.zernike_nm(*zk.zernIndex(j_), N, rot=rot_)).max() for j_ in lst)), 0.0))
    # Noll indices held in NumPy integer types (unsigned ones included) are the same indices; a count given as a 0-d array is a count
    bad_u = 0
    with warnings.catch_warnings():
        warnings.simplefilter("ignore")
        g8, w8 = zk.zernIndex(numpy.uint8(100)), zk.zernIndex(100)
    A(("zernIndex of a numpy.uint8 index above 32 = zernIndex of the equal Python int", 0.0 if (int(g8[0]), int(g8[1])) == (int(w8[0]), int(w8[1])) else 1.0, 0.0))
    for dt_ in (numpy.uint8, numpy.uint16, numpy.uint32, numpy.uint64, numpy.int16, numpy.int64):
        for j_ in (2, 3, 7, 8, 13, 29, 100):
            if dt_ is numpy.uint8 and j_ > 32:
                continue
            got_ = zk.zernIndex(dt_(j_)); want_ = zk.zernIndex(int(j_))
            bad_u += 0 if (int(got_[0]) == int(want_[0]) and int(got_[1]) == int(want_[1])) else 1
    A(("zernIndex of a NumPy integer (signed or unsigned) = zernIndex of the equal Python int", float(bad_u), 0.0))
    arr_u = zk.zernikeArray(numpy.arange(1, J + 1, dtype=numpy.uint16), N)
    A(("zernikeArray of an unsigned index array = zernikeArray of the count", float(numpy.abs(arr_u - Zs).max()) if arr_u.shape == Zs.shape else float("inf"), 0.0))
    cnt0 = zk.zernikeArray(numpy.array(J), N)
    A(("zernikeArray of a count given as a 0-d array = zernikeArray of the count", float(numpy.abs(cnt0 - Zs).max()) if cnt0.shape == Zs.shape else float("inf"), 0.0))
    # index lists of any length (one index included), given as list, tuple or array: always the listed modes, never a count
    one = int(lst[-1])
    for form, arg in (("list", [one]), ("tuple", (one,)), ("array", numpy.array([one]))):
        got1 = zk.zernikeArray(arg, N)
        A(("zernikeArray of a one-element index %s = that single mode" % form,
           float(numpy.abs(got1 - zk.zernike_noll(one, N)[None]).max()) if got1.shape == (1, N, N) else float("inf"), 0.0))
    # coefficient vectors with zero entries anywhere (leading, inner, trailing): the k-th coefficient multiplies the k-th mode
    cz = npr.normal(size=J); cz[0] = 0.0
    if J >= 3:
        cz[J // 2] = 0.0
    cz2 = cz.copy(); cz2[-1] = 0.0
    for cvec in (cz, cz2, numpy.concatenate([[0.0, 0.0], npr.normal(size=max(J - 2, 1))])):
        Zc = zk.zernikeArray(len(cvec), N)
        A(("phase from coefficients with zero entries is still the combination of the modes at their own indices",
           float(numpy.abs(zk.phaseFromZernikes(list(cvec), N) - numpy.tensordot(cvec, Zc, axes=1)).max()), 1e-12))
    co = npr.normal(size=J)
    A(("phase from coefficients is the linear combination", float(numpy.abs(zk.phaseFromZernikes(list(co), N) - numpy.tensordot(co, Zs, axes=1)).max()), 1e-12))
    # gamma matrices vs actual gradients (analytic modes on a fine grid, central differences in the interior)
    nz = inp["nzrad"]
    gx, gy = zk.makegammas(nz)
    K = gx.shape[0]
    M = 200
    Z = zk.zernikeArray(K, M)
    h = 2.0 / M                      # pixel pitch in unit-radius coordinates
    dZx = (Z[:, :, 2:] - Z[:, :, :-2]) / (2 * h); dZy = (Z[:, 2:, :] - Z[:, :-2, :]) / (2 * h)
    inner = pupil.circle(M / 2. * 0.9, M)
    ex = numpy.abs((dZx - numpy.tensordot(gx, Z, axes=1)[:, :, 1:-1]) * inner[None, :, 1:-1]).max()
    ey = numpy.abs((dZy - numpy.tensordot(gy, Z, axes=1)[:, 1:-1, :]) * inner[None, 1:-1, :]).max()
    scale = float(numpy.abs(dZx * inner[None, :, 1:-1]).max())
    A(("gamma matrices reproduce the x gradients of every mode (nzrad %d)" % nz, float(ex / scale), 2e-3))
    A(("gamma matrices reproduce the y gradients of every mode (nzrad %d)" % nz, float(ey / scale), 2e-3))
    return out


def gen_input(rng):
    n = rng.randint(0, 30); ma = rng.choice([k for k in range(0, n + 1) if (n - k) % 2 == 0])
    J = rng.randint(2, 15)
    return {"j0": rng.randint(1, 10 ** rng.randint(1, 9)), "n": n, "m_abs": ma, "sgn": rng.choice([1, -1]), "N": rng.randint(4, 40), "J": J,
            "lst": sorted({rng.randint(1, 21) for _ in range(4)}), "rot": rng.choice([0, 0.3, 1.1]), "nzrad": rng.randint(1, 5), "data_seed": rng.getrandbits(32)}


def falsify(ctx, deep=False):
    rng = ctx["rng"]
    n = 30 if deep else 6
    viols, worst = [], {}
    for _ in range(n):
        inp = gen_input(rng)
        try:
            res = property_checks(inp)
        except Exception as ex:
            res = [("raised %s: %s" % (type(ex).__name__, str(ex)[:80]), float("inf"), 0.0)]
        for clause, err, tol in res:
            worst[clause] = max(worst.get(clause, -1e300), err if math.isfinite(err) else 1e300)
            if not (err <= tol):
                viols.append({"clause": clause, "error": err, "tolerance": tol, "input": inp})
    seen, keep = set(), []
    for v in viols:
        if v["clause"] not in seen:
            seen.add(v["clause"]); keep.append(v)
    return keep, {"evaluations": n, "max_error_per_clause": worst}


def replay(payload):
    v = payload.get("violation")
    if not v:
        print("replay file names a proof/correspondence failure, no input:", payload.get("proof", {}).get("failed_at"))
        return False
    bad = [(c, e, t) for c, e, t in property_checks(v["input"]) if not (e <= t)]
    for c, e, t in bad:
        print("  clause %r: error %g > %g" % (c, e, t))
    return not bad


def classify(v, known):
    return known["id"] == "C12-zernindex-uint8-overflow" and v["clause"] == "zernIndex of a numpy.uint8 index above 32 = zernIndex of the equal Python int"


def replay_known(known):
    if known["id"] == "C12-zernindex-uint8-overflow":
        with warnings.catch_warnings():
            warnings.simplefilter("ignore")
            g = zk.zernIndex(numpy.uint8(100))
        return (int(g[0]), int(g[1])) != (13, 9)
    return None
