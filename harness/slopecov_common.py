"""shared by C01/C02/C03: configuration generator, Coq rendering, oracle recording, controlled Pool, spec."""
import math, warnings, itertools
import numpy
import scipy.special
from common import hexf, flist, flist2
from aotools.turbulence import slopecovariance as sc

IMPORTS = ["AOV.base.Cplx", "AOV.model.Mat", "AOV.model.SlopeCov"]


class KvRecorder:
    def __init__(self):
        self.entries = {}
    def __enter__(self):
        self.og, self.ok = scipy.special.gamma, scipy.special.kv
        def g(x):
            v = self.og(x)
            for a, b in zip(numpy.ravel(numpy.asarray(x, dtype=float)), numpy.ravel(numpy.asarray(v, dtype=float))):
                self.entries[(-1.0, float(a))] = float(b)
            return v
        def k(nu, x):
            v = self.ok(nu, x)
            for a, b in zip(numpy.ravel(numpy.asarray(x, dtype=float)), numpy.ravel(numpy.asarray(v, dtype=float))):
                self.entries[(float(nu), float(a))] = float(b)
            return v
        scipy.special.gamma, scipy.special.kv = g, k
        return self
    def __exit__(self, *a):
        scipy.special.gamma, scipy.special.kv = self.og, self.ok
    def table(self):
        return "[" + "; ".join("(%s, %s, %s)" % (hexf(a), hexf(b), hexf(c)) for (a, b), c in self.entries.items()) + "]"


class FakePool:
    """in-process stand-in for multiprocessing.Pool honouring only the documented contracts; tasks are
    executed in an adversarial order (`order_fn(n)` -> permutation); unordered iterators yield in that order"""
    order_fn = staticmethod(lambda n: list(range(n)))
    log = []
    def __init__(self, processes=None, *a, **k):
        self.processes = processes
    def _run(self, f, args):
        args = list(args)
        order = list(FakePool.order_fn(len(args)))
        FakePool.log.append(order)
        res = {}
        for k in order:
            res[k] = f(args[k])
        return args, order, res
    def map(self, f, args, chunksize=None):
        args, order, res = self._run(f, args)
        return [res[k] for k in range(len(args))]
    def imap(self, f, args, chunksize=1):
        return iter(self.map(f, args))
    def imap_unordered(self, f, args, chunksize=1):
        args, order, res = self._run(f, args)
        return iter([res[k] for k in order])
    def starmap(self, f, args, chunksize=None):
        return self.map(lambda a: f(*a), args)
    def apply_async(self, f, args=(), kwds=None, callback=None):
        class R:
            def __init__(s, v): s.v = v
            def get(s, timeout=None): return s.v
            def wait(s, timeout=None): pass
            def ready(s): return True
        v = f(*args, **(kwds or {}))
        if callback: callback(v)
        return R(v)
    def map_async(self, f, args, chunksize=None, callback=None):
        class R:
            def __init__(s, v): s.v = v
            def get(s, timeout=None): return s.v
        return R(self.map(f, args))
    def close(self): pass
    def join(self): pass
    def terminate(self): pass
    def __enter__(self): return self
    def __exit__(self, *a): pass


class Controlled:
    """context: substitute the Pool used by slopecovariance and capture mirror input/output"""
    def __init__(self, order_fn=None):
        self.order_fn = order_fn
    def __enter__(self):
        self.real_pool = sc.multiprocessing.Pool
        self.real_mirror = sc.mirror_covariance_matrix
        self.pre, self.post = [], []
        FakePool.order_fn = staticmethod(self.order_fn or (lambda n: list(range(n))))
        FakePool.log = []
        sc.multiprocessing.Pool = FakePool
        def mir(m, *a, **k):
            self.pre.append(numpy.array(m, copy=True))
            out = self.real_mirror(m, *a, **k)
            self.post.append(numpy.array(out, copy=True))
            return out
        sc.mirror_covariance_matrix = mir
        return self
    def __exit__(self, *a):
        sc.multiprocessing.Pool = self.real_pool
        sc.mirror_covariance_matrix = self.real_mirror


MASKS = {
    "full2": [[1, 1], [1, 1]], "full3": [[1, 1, 1], [1, 1, 1], [1, 1, 1]], "one": [[1]],
    "disc3": [[0, 1, 0], [1, 1, 1], [0, 1, 0]], "corner2": [[1, 1], [1, 0]], "L3": [[1, 0, 0], [1, 1, 0], [1, 1, 1]],
    "row2": [[1, 1]], "diag2": [[1, 0], [0, 1]], "ring3": [[1, 1, 1], [1, 0, 1], [1, 1, 1]], "asym3": [[0, 1, 1], [0, 1, 0], [1, 0, 0]],
    "disc4": [[0, 1, 1, 0], [1, 1, 1, 1], [1, 1, 1, 1], [0, 1, 1, 0]],
}
SYMMETRIC = {"full2", "full3", "one", "disc3", "row2", "diag2", "ring3", "disc4"}


def gen_config(rng, size="small", uniform=None):
    """uniform=True: identical sub-aperture sizes, altitudes, directions, point-symmetric masks (the guard of C01_entry)"""
    if uniform is None:
        uniform = rng.random() < 0.4
    nw = rng.choice([1, 2, 2, 3]) if size == "small" else rng.choice([1, 2, 3, 4])
    names = [k for k in MASKS if (size != "small" or k != "disc4")]
    if uniform:
        mname = rng.choice(sorted(SYMMETRIC & set(names)))
        mk = [mname] * nw
        d = [rng.choice([0.5, 1.0, rng.uniform(0.2, 2)])] * nw
        alt = [rng.choice([0.0, 90000.0, 20000.0])] * nw
        gs = [[rng.uniform(-30, 30), rng.uniform(-30, 30)]] * nw
    else:
        mk = [rng.choice(names) for _ in range(nw)]
        d = [rng.choice([0.5, 1.0, rng.uniform(0.2, 2)]) for _ in range(nw)]
        alt = [rng.choice([0.0, 0.0, 90000.0, rng.uniform(15000, 90000)]) for _ in range(nw)]
        gs = [[rng.choice([0.0, rng.uniform(-60, 60)]), rng.choice([0.0, rng.uniform(-60, 60)])] for _ in range(nw)]
    nl = rng.choice([1, 1, 2, 3]) if size == "small" else rng.randint(1, 4)
    # layer heights: ground, anywhere up to 12 km, and sometimes up to 25 km (above a low Rayleigh beacon: the cone factor is <= 0 there)
    layers = [{"h": rng.choice([0.0, rng.uniform(0, 12000), rng.uniform(0, 12000), rng.uniform(12000, 25000)]), "r0": rng.uniform(0.05, 1.0), "L0": rng.choice([rng.uniform(5, 100), rng.uniform(5, 100), rng.uniform(5, 100), rng.uniform(1, 5), rng.loguniform(1e3, 1e5)])} for _ in range(nl)]   # incl. outer scales below the pupil size and near-Kolmogorov ones (km and more)
    # a layer within 5 % of a beacon's altitude has a cone factor |1 - h/alt| < 0.05: every entry then scales with the inverse
    # square of a nearly cancelled difference and is decided by the rounding of the inputs, not by the code -- keep clear of it
    for l in layers:
        for a_ in alt:
            if a_ > 0 and abs(1.0 - l["h"] / a_) < 0.05:
                l["h"] = a_ * (1.06 + 0.2 * rng.random()) if l["h"] >= a_ else a_ * (0.94 - 0.2 * rng.random())
    maxn = max(max(len(MASKS[m]), len(MASKS[m][0])) for m in mk)
    D = maxn * max(d)
    wvl = [rng.choice([500e-9, rng.uniform(4e-7, 2e-6)]) for _ in range(nw)]
    if uniform and rng.random() < 0.7:
        wvl = [wvl[0]] * nw
    return {"masks": mk, "d": d, "alt": alt, "gs": gs, "wvl": wvl, "D": D, "layers": layers, "uniform": bool(uniform),
            "pad_layers": rng.choice([0, 0, 0, 1, 2])}


def is_guarded(cfg):
    return (len(set(cfg["masks"])) == 1 and cfg["masks"][0] in SYMMETRIC and len(set(cfg["d"])) == 1
            and len(set(cfg["alt"])) == 1 and len({tuple(g) for g in cfg["gs"]}) == 1)


def build(cfg, threads=1):
    nw = len(cfg["masks"])
    masks = [numpy.array(MASKS[m], dtype=float) for m in cfg["masks"]]
    # "pad_layers": the layer profile arrays may be longer than n_layers (only the first n_layers layers count)
    pad = [{"h": 7000.0 + 900.0 * q, "r0": 0.31, "L0": 21.0} for q in range(int(cfg.get("pad_layers", 0)))]
    prof = list(cfg["layers"]) + pad
    # how the caller happens to hold the parameters: float64 arrays (default), float32 arrays, or plain Python lists
    kind = cfg.get("param_kind")
    if kind == "float32":
        arr = lambda x: numpy.array(x, dtype=numpy.float32)
    elif kind == "list":
        arr = lambda x: [([float(v) for v in y] if isinstance(y, (list, tuple)) else float(y)) for y in x]
    else:
        arr = lambda x: numpy.array(x, dtype=float)
    gs_ = numpy.array(cfg["gs"], dtype=float) if kind != "float32" else numpy.array(cfg["gs"], dtype=numpy.float32)
    return sc.CovarianceMatrix(nw, masks, cfg["D"], arr(cfg["d"]), arr(cfg["alt"]),
                               gs_, arr(cfg["wvl"]), len(cfg["layers"]),
                               arr([l["h"] for l in prof]), arr([l["r0"] for l in prof]),
                               arr([l["L0"] for l in prof]), threads=threads)


REUSE_ATTRS = ["subap_diameters", "wfs_wavelengths", "telescope_diameter", "gs_altitudes", "gs_positions", "layer_altitudes", "layer_r0s", "layer_L0s"]


def perturbed(cfg, rng):
    """another configuration of the same system (same masks and layer count): re-pointed guide stars, other layer heights,
    strengths and outer scales, other sub-aperture size / telescope diameter, other wavelengths"""
    c = dict(cfg)
    f = rng.uniform(0.7, 1.4)
    c["d"] = [d * f for d in cfg["d"]]; c["D"] = cfg["D"] * f
    c["gs"] = [[g[0] + rng.uniform(-15, 15), g[1] + rng.uniform(-15, 15)] for g in cfg["gs"]]
    c["wvl"] = [w * rng.uniform(0.8, 1.3) for w in cfg["wvl"]]
    c["layers"] = [{"h": l["h"] * rng.uniform(0.6, 1.5) + rng.choice([0.0, 800.0]), "r0": l["r0"] * rng.uniform(0.6, 1.5), "L0": l["L0"] * rng.uniform(0.7, 1.4)} for l in cfg["layers"]]
    if rng.random() < 0.5 and any(a != 0 for a in cfg["alt"]):
        c["alt"] = [a * 1.2 for a in cfg["alt"]]
    return c


def reuse_error(cfgA, cfgB, threads=(1, 1), how="replace"):
    """an object built for cfgA, computed, then given cfgB's parameters through its public attributes (replaced by new arrays,
    or written element-wise into the arrays it holds) and computed again, must give exactly what a fresh object for cfgB gives.
    Returns (max abs difference / scale, matrix of the re-used object)"""
    with warnings.catch_warnings():
        warnings.simplefilter("ignore")
        cm = build(cfgA, threads[0]); cm.make_covariance_matrix()
        fresh = build(cfgB, threads[1])
        for a in REUSE_ATTRS:
            v = getattr(fresh, a)
            if how == "inplace" and isinstance(getattr(cm, a), numpy.ndarray) and getattr(cm, a).shape == numpy.shape(v):
                getattr(cm, a)[...] = v
            else:
                setattr(cm, a, numpy.array(v, copy=True) if isinstance(v, numpy.ndarray) else v)
        cm.threads = threads[1]
        M2 = numpy.array(cm.make_covariance_matrix(), dtype=float, copy=True)
        Mf = numpy.array(fresh.make_covariance_matrix(), dtype=float, copy=True)
    if M2.shape != Mf.shape:
        return float("inf"), M2
    same = numpy.array_equal(M2, Mf, equal_nan=True)
    sc_ = float(numpy.nanmax(numpy.abs(Mf))) if numpy.isfinite(Mf).any() else 1.0
    return (0.0 if same else float(numpy.nanmax(numpy.abs(M2 - Mf)) / max(sc_, 1e-300) + 1e-30)), M2


def coq_cfg(cfg):
    ws = []
    for m, d, a, g, w in zip(cfg["masks"], cfg["d"], cfg["alt"], cfg["gs"], cfg["wvl"]):
        mk = "[" + "; ".join("[" + "; ".join("true" if v else "false" for v in row) + "]" for row in MASKS[m]) + "]"
        ws.append("(Build_wfs %s %s %s %s %s %s)" % (mk, hexf(d), hexf(a), hexf(g[0]), hexf(g[1]), hexf(w)))
    ls = ["(Build_layer %s %s %s)" % (hexf(l["h"]), hexf(l["r0"]), hexf(l["L0"])) for l in cfg["layers"]]
    return hexf(cfg["D"]), "[" + "; ".join(ws) + "]", "[" + "; ".join(ls) + "]"


# ---------------------------------------------------------------- independent specification
def D_vk(r, r0, L0):
    r = numpy.asarray(r, dtype=float)
    with warnings.catch_warnings():
        warnings.simplefilter("ignore")
        x = 2 * numpy.pi * r / L0
        c = 2 ** (1. / 6) * x ** (5. / 6) * scipy.special.kv(5. / 6, x) / scipy.special.gamma(5. / 6)
        out = 0.17253 * (L0 / r0) ** (5. / 3) * (1 - c)
    return numpy.where(r == 0, 0.0, out)


def spec_matrix(cfg):
    """covariance of the finite-difference slopes of a von Karman phase at the geometrically projected sub-aperture
    positions (true centres (idx + 1/2) d - D/2), per the property statement"""
    nw = len(cfg["masks"])
    pos, dia, owner = [], [], []
    n_sub = []
    M = None
    for l in cfg["layers"]:
        P, Dm = [], []
        for w in range(nw):
            mask = numpy.array(MASKS[cfg["masks"][w]])
            idx = numpy.array(numpy.where(mask == 1)).T.astype(float)
            c = (idx + 0.5) * cfg["d"][w] - cfg["D"] / 2.0
            scale = 1.0 if cfg["alt"][w] == 0 else (1 - l["h"] / cfg["alt"][w])
            c = c * scale + numpy.array(cfg["gs"][w]) * numpy.pi / 180 / 3600 * l["h"]
            P.append(c); Dm.append(cfg["d"][w] * scale)
        n_sub = [len(p) for p in P]
        tot = 2 * sum(n_sub)
        if M is None:
            M = numpy.zeros((tot, tot))
        off = numpy.concatenate([[0], 2 * numpy.cumsum(n_sub)])
        def ends(w, axis):
            e = numpy.zeros(2); e[axis] = Dm[w] / 2.0
            return P[w] + e, P[w] - e
        for wi in range(nw):
            for wj in range(nw):
                for ai in range(2):
                    for aj in range(2):
                        Ap, Am = ends(wi, ai); Bp, Bm = ends(wj, aj)
                        def dist(X, Y):
                            return numpy.sqrt(((X[:, None, :] - Y[None, :, :]) ** 2).sum(-1))
                        blk = 0.5 * (D_vk(dist(Ap, Bm), l["r0"], l["L0"]) + D_vk(dist(Am, Bp), l["r0"], l["L0"])
                                     - D_vk(dist(Ap, Bp), l["r0"], l["L0"]) - D_vk(dist(Am, Bm), l["r0"], l["L0"]))
                        blk = blk * cfg["wvl"][wi] * cfg["wvl"][wj] / (4 * numpy.pi ** 2 * Dm[wi] * Dm[wj])
                        r0_, c0_ = off[wi] + ai * n_sub[wi], off[wj] + aj * n_sub[wj]
                        M[r0_:r0_ + n_sub[wi], c0_:c0_ + n_sub[wj]] += blk
    return M
