"""shared by C04/C05/C06: generator injection, recorders, independent von Karman covariance"""
import math, warnings
import numpy
import scipy.special
from scipy import linalg as sla
from common import hexf, flist, flist2
from aotools.turbulence import infinitephasescreen as ips, turb

IMPORTS = ["AOV.base.Cplx", "AOV.model.Mat", "AOV.model.InfScreen"]


class ScriptedGenerator(numpy.random.Generator):
    """a numpy Generator whose .normal(0, 1, size=n) calls of length `row_len` are served from a queue of chosen
    innovation vectors (then recorded); every other draw is delegated to the real bit generator"""
    def __init__(self, seed=0):
        super().__init__(numpy.random.PCG64(seed))
        self.queue = []
        self.served = []
        self.row_len = None
    def normal(self, loc=0.0, scale=1.0, size=None):
        if self.row_len is not None and size == self.row_len and loc == 0 and scale == 1:
            v = numpy.array(self.queue.pop(0), dtype=float) if self.queue else super().normal(loc, scale, size)
            self.served.append(v.copy())
            return v
        return super().normal(loc, scale, size)


class Recorders:
    """wraps turb.kv/gamma, linalg.cho_solve (as used by infinitephasescreen) and numpy.linalg.svd"""
    def __enter__(self):
        self.kv_entries = {}
        self.cho, self.svd = [], []
        self._tg, self._tk = turb.gamma, turb.kv
        self._cs, self._svd = ips.linalg.cho_solve, numpy.linalg.svd
        def g(x):
            v = self._tg(x)
            for a, b in zip(numpy.ravel(numpy.asarray(x, dtype=float)), numpy.ravel(numpy.asarray(v, dtype=float))):
                self.kv_entries[(-1.0, float(a))] = float(b)
            return v
        def k(nu, x):
            v = self._tk(nu, x)
            for a, b in zip(numpy.ravel(numpy.asarray(x, dtype=float)), numpy.ravel(numpy.asarray(v, dtype=float))):
                self.kv_entries[(float(nu), float(a))] = float(b)
            return v
        def cs(cf, b, *a, **kw):
            out = self._cs(cf, b, *a, **kw)
            self.cho.append(numpy.array(out, copy=True))
            return out
        def svd(a, *args, **kw):
            out = self._svd(a, *args, **kw)
            self.svd.append((numpy.array(a, copy=True), numpy.array(out[0], copy=True), numpy.array(out[1], copy=True)))
            return out
        turb.gamma, turb.kv = g, k
        ips.linalg.cho_solve = cs
        numpy.linalg.svd = svd
        return self
    def __exit__(self, *a):
        turb.gamma, turb.kv = self._tg, self._tk
        ips.linalg.cho_solve = self._cs
        numpy.linalg.svd = self._svd
    def table(self):
        return "[" + "; ".join("(%s, %s, %s)" % (hexf(a), hexf(b), hexf(c)) for (a, b), c in self.kv_entries.items()) + "]"


def make_screen(kind, nx, ps, r0, L0, extra, gen=None):
    with warnings.catch_warnings():
        warnings.simplefilter("ignore")
        if kind == "vk":
            return ips.PhaseScreenVonKarman(nx, ps, r0, L0, random_seed=gen, n_columns=extra)
        return ips.PhaseScreenKolmogorov(nx, ps, r0, L0, random_seed=gen, stencil_length_factor=extra)


def factorisable(s):
    """the stencil covariance the screen holds admits the Cholesky factorisation by which its A matrix is defined"""
    import scipy.linalg
    try:
        scipy.linalg.cho_factor(numpy.asarray(s.cov_mat_zz))
        return True
    except Exception:
        return False


def gen_params(rng, small=True):
    kind = rng.choice(["vk", "fried"])
    if kind == "vk":
        nx = rng.randint(3, 10 if small else 24); extra = rng.randint(1, 3)
    else:
        nx = rng.choice([3, 4, 5, 6, 7, 9] if small else [3, 5, 6, 9, 11, 17, 20]); extra = rng.randint(1, 3 if small else 4)
    # pixel scale: mostly floats; sometimes a Python int (1 or 2 m per pixel: coarse but legal, and integer arithmetic must not truncate anything)
    ps = rng.loguniform(0.05, 0.5) if rng.random() < 0.8 else rng.choice([1, 2])
    r0 = rng.uniform(0.08, 0.5) if not isinstance(ps, int) else rng.uniform(0.5, 2.0)
    L0 = rng.uniform(5, 100)
    if rng.random() < 0.1:
        # microscopic length unit (tens of microns per pixel, r0 and L0 in proportion): nothing may depend on the absolute unit
        ps = rng.loguniform(1e-5, 1e-4); r0 = ps * rng.uniform(1.0, 5.0); L0 = ps * rng.uniform(50, 1000)
    return {"kind": kind, "nx": nx, "ps": ps, "r0": r0, "L0": L0, "extra": extra}


def vk_cov(r, r0, L0):
    """phase covariance of the von Karman model in double precision (independent of aotools.turb)"""
    r = numpy.asarray(r, dtype=float)
    A = (L0 / r0) ** (5. / 3)
    B1 = (2 ** (-5. / 6)) * scipy.special.gamma(11. / 6) / (numpy.pi ** (8. / 3))
    B2 = ((24. / 5) * scipy.special.gamma(6. / 5)) ** (5. / 6)
    x = 2 * numpy.pi * numpy.maximum(r, 1e-30) / L0
    with warnings.catch_warnings():
        warnings.simplefilter("ignore")
        C = x ** (5. / 6) * scipy.special.kv(5. / 6, x)
    C0 = 2 ** (-1. / 6) * scipy.special.gamma(5. / 6)
    return A * B1 * B2 * numpy.where(r < 1e-25, C0, C)


def true_blocks(s):
    """theoretical covariance blocks at the true pixel separations of this screen's stencil and new row"""
    st = numpy.array(s.stencil_coords, dtype=float) * s.pixel_scale
    X = numpy.stack([-numpy.ones(s.nx_size), numpy.arange(s.nx_size)], axis=1) * s.pixel_scale
    P = numpy.concatenate([st, X], axis=0)
    d = numpy.sqrt(((P[:, None, :] - P[None, :, :]) ** 2).sum(-1))
    C = vk_cov(d, float(s.r0), float(s.L0))
    n = len(st)
    return C[:n, :n], C[n:, n:], C[:n, n:], C[n:, :n]
