"""C04 -- infinite phase screen rows follow the exact conditional von Karman law."""
import math, warnings
import numpy
import infscreen_common as ic
from common import hexf, flist, flist2, run_cases
from aotools.turbulence import infinitephasescreen as ips

PID = "C04"
RULE = ("both screen variants; nx in 3..10 (thorough ..24, Fried incl. sizes that are not 2^n+1), n_columns 1..3 / stencil_length_factor 1..3(4), "
        "pixel scales 0.05-0.5 m, r0 0.08-0.5 m, L0 5-100 m (constructions rejected by Cholesky are skipped and counted). Stage-by-stage "
        "correspondence with the Coq model: stencil coordinates (exact), separations (1e-12), covariance matrix (binary32 cast: 2e-4 of the "
        "variance, kv/gamma from a recorded table), A from the recorded Cholesky inverse, B from the recorded SVD (1e-9), and new rows for "
        "injected innovation vectors incl. 0 and unit vectors (1e-9). non-trivial = stencil of more than one row / non-zero output; distinct = "
        "distinct (variant, parameters, stage)")
TRUSTED = ["LAPACK: cho_factor/cho_solve return the inverse of Cov_zz, svd of the symmetric PSD matrix returns u, W with u diag(W) u^T = M, W >= 0 (hypotheses of C04_A / C04_joint; tested numerically)",
           "scipy kv/gamma oracles; the joint von Karman covariance matrix is PSD and Cov_zz SPD (Bochner; not proved)",
           "numpy.random.Generator subclass passes through default_rng unchanged (used to inject innovation vectors)"]
ASSUMPTIONS = ["real-number reading; phase_covariance's binary32 cast bounded by a 2e-4 tolerance"]
PRELUDE = """Definition okm (tol sc : float) (a e : list (list float)) := all_close2 tol sc a e.
Definition okl (tol sc : float) (a e : list float) := all_close tol sc a e.
Fixpoint eqp (a b : list (nat * nat)) : bool := match a, b with [], [] => true | (x,y) :: r, (u,v) :: s => Nat.eqb x u && Nat.eqb y v && eqp r s | _, _ => false end.
"""


def plist(c):
    return "[" + "; ".join("(%d, %d)" % (int(a), int(b)) for a, b in c) + "]%nat"


def correspond(ctx):
    rng, tier = ctx["rng"], ctx["tier"]
    n = 8 if tier == "quick" else 160
    cases, meta = [], []
    rejected = 0
    type_div = []
    for k in range(n):
        p = ic.gen_params(rng, small=(tier == "quick" or k % 3 != 0))
        if k == 0:
            p.update({"kind": "fried", "nx": 6, "extra": 2, "ps": 1, "r0": 1.0, "L0": 30.0})      # integer pixel scale (metres per pixel)
        if k == 1:
            p.update({"kind": "vk", "nx": 6, "extra": 2, "ps": 2, "r0": 1.5, "L0": 25.0})
        if k == 2:
            p.update({"kind": "vk", "nx": 5, "extra": 2, "ps": 3.14159e-5, "r0": 9.3e-5, "L0": 6.1e-3})     # 31 micron pixels
        gen = ic.ScriptedGenerator(rng.getrandbits(30))
        try:
            with ic.Recorders() as rec:
                s = ic.make_screen(p["kind"], p["nx"], p["ps"], p["r0"], p["L0"], p["extra"], gen)
        except Exception as ex:
            rejected += 1
            if isinstance(p["ps"], int):
                # "construction succeeds" must not depend on the numeric type of the pixel scale
                try:
                    ic.make_screen(p["kind"], p["nx"], float(p["ps"]), p["r0"], p["L0"], p["extra"], ic.ScriptedGenerator(1))
                    type_div.append(dict(p, stage="construction", what="construction fails for an integer pixel_scale but succeeds for the equal float: %s" % type(ex).__name__))
                except Exception:
                    pass
            continue
        nx, ns = s.nx_size, s.n_stencils
        st_coq = ("vk_stencil %d %d" % (nx, p["extra"])) if p["kind"] == "vk" else ("fried_stencil F %d %d" % (nx, p["extra"]))
        def add(stage, expr, nontriv=True):
            cases.append(expr); meta.append(dict(p, stage=stage, nx_size=nx, n_stencils=ns, nontrivial=bool(nontriv)))
        add("stencil", "eqp (%s) %s" % (st_coq, plist(s.stencil_coords)), ns > nx)
        if p["kind"] == "fried":
            add("allowed_size", "Nat.eqb (find_allowed_size %d) %d" % (p["nx"], nx), p["nx"] != nx)
        pts = "(all_positions F %s %d %s)" % (plist(s.stencil_coords), nx, hexf(s.pixel_scale))
        add("separations", "okm %s %s (separations F %s) %s" % (hexf(1e-12), hexf(float(s.seperations.max())), pts, flist2(s.seperations)))
        var = float(numpy.max(numpy.abs(s.cov_mat)))
        if ns + nx <= 40:
            add("cov_mat", "okm %s %s (cov_mat (FOpsK %s %s) %s %s %s) %s" % (hexf(2e-4), hexf(var), hexf(1e-3), rec.table(), pts, hexf(float(s.r0)), hexf(float(s.L0)),
                                                                            flist2(numpy.asarray(s.cov_mat, dtype=float))))
        Cm = flist2(numpy.asarray(s.cov_mat, dtype=float))
        add("blocks", "okm 0 0 (cov_xz %s %d) %s && okm 0 0 (cov_zz %s %d) %s && okm 0 0 (cov_zx %s %d) %s && okm 0 0 (cov_xx %s %d) %s"
            % (Cm, ns, flist2(s.cov_mat_xz), Cm, ns, flist2(s.cov_mat_zz), Cm, ns, flist2(s.cov_mat_zx), Cm, ns, flist2(s.cov_mat_xx)))
        if len(rec.cho) == 1:
            add("A_mat", "okm %s %s (A_mat F %s %s) %s" % (hexf(1e-9), hexf(float(numpy.abs(s.A_mat).max())), flist2(s.cov_mat_xz), flist2(rec.cho[0]), flist2(s.A_mat)))
        else:
            add("A_mat", "false")
        if len(rec.svd) >= 1:
            Min, u, W = rec.svd[-1]
            add("BBt", "okm %s %s (BBt F %s %s %s) %s" % (hexf(1e-9), hexf(float(numpy.abs(s.cov_mat_xx).max())), flist2(s.cov_mat_xx), flist2(s.A_mat), flist2(s.cov_mat_zx), flist2(Min)))
            add("B_mat", "okm %s %s (B_mat F %s %s) %s" % (hexf(1e-9), hexf(float(numpy.abs(s.B_mat).max())), flist2(u), flist(W), flist2(s.B_mat)))
        else:
            add("B_mat", "false")
        # new rows with injected innovation vectors
        gen.row_len = nx
        for t in range(3):
            kindb = ["zero", "unit", "random"][t]
            b = numpy.zeros(nx)
            if kindb == "unit":
                b[rng.randrange(nx)] = 1.0
            elif kindb == "random":
                b = numpy.array([rng.gauss(0, 1) for _ in range(nx)])
            gen.queue.append(b)
            scr = numpy.array(s._scrn, copy=True)
            s.add_row()
            row = numpy.array(s._scrn[0], copy=True)
            sca = float(numpy.abs(scr).max())
            if p["kind"] == "vk":
                expr = "okl %s %s (new_row_vk F %s %s (stencil_data F %s %s) %s) %s" % (hexf(1e-9), hexf(sca), flist2(s.A_mat), flist2(s.B_mat), flist2(scr), plist(s.stencil_coords), flist(b), flist(row))
            else:
                expr = "okl %s %s (new_row_fried F %s %s (stencil_data F %s %s) %s %s) %s" % (hexf(1e-9), hexf(sca), flist2(s.A_mat), flist2(s.B_mat), flist2(scr), plist(s.stencil_coords), hexf(scr[1, 1]), flist(b), flist(row))
            add("new_row/" + kindb, expr)
    nev, failing, errors = run_cases(PID, ic.IMPORTS, "Definition F := FOps [].\n" + PRELUDE, cases, per_file=4, timeout=900)
    hist = {"rejected_constructions": rejected}
    for m in meta:
        key = "%s/%s" % (m["kind"], m["stage"])
        hist[key] = hist.get(key, 0) + 1
    div = [dict(meta[i], what="model != implementation at this stage") for i in failing] + type_div
    return {"cases": nev, "nontrivial": sum(1 for m in meta if m["nontrivial"]), "divergences": div, "errors": errors,
            "samples": [meta[0], meta[len(meta) // 2], meta[-1]], "hist": hist}


def rel(a, b):
    return float(numpy.max(numpy.abs(numpy.asarray(a) - numpy.asarray(b))) / max(float(numpy.max(numpy.abs(b))), 1e-300))


def checks_for_screen(s, p, A, tag):
    nx = s.nx_size
    # the conditional law X | Z needs Cov_zz positive definite: where its factorisation fails there is no exact A and B, and the
    # screen must not be built on a substitute (pseudo-inverse, regularisation) that silently breaks the two identities
    A(("a screen is only built when its stencil covariance admits the factorisation that defines A%s" % tag, 0.0 if ic.factorisable(s) else 1.0, 0.0))
    Czz, Cxx, Czx, Cxz = ic.true_blocks(s)
    var = Cxx.max()
    cond = numpy.linalg.cond(Czz)
    tolA = 3e-7 * cond + 1e-5          # binary32 covariance entries amplified by the conditioning of Cov_zz
    A(("A Cov_zz = Cov_xz%s" % tag, rel(s.A_mat @ Czz, Cxz), tolA))
    # the same two identities on the covariance blocks the screen itself holds (binary32 values, float64 algebra): here the
    # only error is that of the float64 factorisations, far below any change of the matrices that are inverted / factorised
    oz, ox, ozx, oxz = [numpy.asarray(m_, dtype=float) for m_ in (s.cov_mat_zz, s.cov_mat_xx, s.cov_mat_zx, s.cov_mat_xz)]
    co = numpy.linalg.cond(oz)
    tolO = 1e-12 * co + 1e-9
    # ... and those blocks are the theoretical covariance at the TRUE pixel separations (binary32 storage: 6e-8 relative)
    A(("the screen's covariance blocks are the von Karman covariance at the true separations%s" % tag,
       float(max(numpy.abs(oz - Czz).max(), numpy.abs(ox - Cxx).max(), numpy.abs(oxz - Cxz).max(), numpy.abs(ozx - Czx).max()) / var), 2e-6))
    A(("A Cov_zz = Cov_xz on the screen's own blocks%s" % tag, rel(s.A_mat @ oz, oxz), tolO))
    A(("A Cov_zz A^T + B B^T = Cov_xx on the screen's own blocks%s" % tag,
       float(numpy.max(numpy.abs(s.A_mat @ oz @ s.A_mat.T + s.B_mat @ s.B_mat.T - ox)) / float(ox.max())), tolO))
    A(("A Cov_zz A^T + B B^T = Cov_xx%s" % tag, float(numpy.max(numpy.abs(s.A_mat @ Czz @ s.A_mat.T + s.B_mat @ s.B_mat.T - Cxx)) / var), tolA))
    # affine in (Z, b), through the public interface with an injected generator
    gen = s._R
    gen.row_len = nx
    rngl = numpy.random.default_rng(p["data_seed"])
    base = rngl.normal(size=s._scrn.shape) * 3
    def row_for(scrn, b):
        s._scrn = numpy.array(scrn, copy=True)
        gen.queue.append(numpy.array(b, dtype=float))
        s.add_row()
        return numpy.array(s._scrn[0], copy=True)
    b1, b2 = rngl.normal(size=nx), rngl.normal(size=nx)
    z0 = numpy.zeros_like(base)
    r_00 = row_for(z0, numpy.zeros(nx))
    A(("zero stencil and zero innovation give a zero row%s" % tag, float(numpy.abs(r_00).max()), 0.0))
    r1 = row_for(base, b1)
    rZ = row_for(base, numpy.zeros(nx)); rb = row_for(z0, b1)
    A(("row = A Z + B b (superposition)%s" % tag, rel(rZ + rb, r1), 1e-9))
    A(("row(b) = B b%s" % tag, rel(rb, s.B_mat @ b1), 1e-9))
    # only the stencil pixels matter
    pert = numpy.array(base, copy=True)
    mask = numpy.ones(base.shape, dtype=bool)
    mask[s.stencil_coords[:, 0], s.stencil_coords[:, 1]] = False
    if p["kind"] == "fried":
        mask[1, 1] = False
    pert[mask] += rngl.normal(size=int(mask.sum())) * 5
    A(("row depends on the stencil pixels only%s" % tag, rel(row_for(pert, b1), r1), 0.0))
    if p["kind"] == "fried":
        c = p["shift"]
        A(("Fried: screen + c gives row + c%s" % tag, rel(row_for(base + c, b1), r1 + c), 1e-9))
        A(("Fried allowed size%s" % tag, 0.0 if (nx == 2 ** int(round(math.log2(nx - 1))) + 1 and nx >= p["nx"] and (nx == 2 or (nx - 1) // 2 + 1 < p["nx"])) else 1.0, 0.0))


def long_history_checks(p, A):
    """a natural history through the public interface only: the harness keeps its own copy of the whole screen (initial state
    read once, afterwards only the newest row is read) and predicts every new row as A Z + B b from THAT history"""
    gen = ic.ScriptedGenerator(p["data_seed"] + 77)
    s = ic.make_screen(p["kind"], p["nx"], p["ps"], p["r0"], p["L0"], p["extra"], gen)
    gen.row_len = s.nx_size
    hist = numpy.array(s._scrn, copy=True)
    worst, first_bad = 0.0, None
    for t in range(int(p["long_history"])):
        nserved = len(gen.served)
        s.add_row()
        if len(gen.served) != nserved + 1:
            A(("one innovation vector is drawn per added row (long history)", 1.0, 0.0)); return
        Z = hist[(s.stencil_coords[:, 0], s.stencil_coords[:, 1])]
        ref = hist[1, 1] if p["kind"] == "fried" else 0.0
        want = s.A_mat.dot(Z - ref) + s.B_mat.dot(gen.served[-1]) + ref
        got = numpy.array(s._scrn[0], copy=True)
        e = float(numpy.abs(got - want).max() / max(float(numpy.abs(want).max()), 1e-300))
        if e > 1e-9 and first_bad is None:
            first_bad = t + 1
        worst = max(worst, e)
        hist = numpy.vstack([got[None, :], hist[:-1]])
        if not numpy.array_equal(numpy.asarray(s.scrn), hist[:s.requested_nx_size, :s.requested_nx_size]):
            worst = max(worst, 1.0); first_bad = first_bad or t + 1
    A(("over a history of %d rows every new row is A Z + B b of the true history and the exposed screen is that history%s"
       % (p["long_history"], "" if first_bad is None else " (first failure at step %d)" % first_bad), worst, 1e-9))


def copy_and_thread_checks(p, A):
    """(1) a deep-copied / pickled-and-restored screen still makes its rows as A Z + B b of ITS OWN stencil and a FRESH innovation;
    (2) screens of the same size extruded at the same time from a thread pool give the rows they give one after the other"""
    import copy as _copy, pickle as _pickle
    s0 = ic.make_screen(p["kind"], p["nx"], p["ps"], p["r0"], p["L0"], p["extra"], ic.ScriptedGenerator(p["data_seed"] + 5))
    s0.add_row()
    for cname, mk in (("deepcopy", lambda: _copy.deepcopy(s0)), ("pickle", lambda: _pickle.loads(_pickle.dumps(s0)))):
        try:
            c_ = mk()
        except Exception as ex:
            A(("a %s of a screen can be made (%s)" % (cname, type(ex).__name__), 1.0, 0.0)); continue
        g_ = ic.ScriptedGenerator(p["data_seed"] + 9); g_.row_len = c_.nx_size
        c_._R = g_
        worst = 0.0
        for t in range(3):
            before = numpy.array(c_._scrn, copy=True)
            c_.add_row()
            if not g_.served:
                worst = 1.0; break
            Z = before[(c_.stencil_coords[:, 0], c_.stencil_coords[:, 1])]
            ref = before[1, 1] if p["kind"] == "fried" else 0.0
            want = c_.A_mat.dot(Z - ref) + c_.B_mat.dot(g_.served[-1]) + ref
            worst = max(worst, float(numpy.abs(c_._scrn[0] - want).max() / max(float(numpy.abs(want).max()), 1e-300)))
        A(("rows of a %s of a screen are A Z + B b of its own stencil and a fresh innovation" % cname, worst, 1e-9))
    import common
    screens = [ic.make_screen(p["kind"], p["nx"], p["ps"], p["r0"] * (1 + 0.1 * k), p["L0"], p["extra"], 100 + k) for k in range(6)]
    def rows_of(k):
        def f():
            sk = _copy.deepcopy(screens[k])
            return numpy.array([numpy.array(sk.add_row(), copy=True) for _ in range(6)])
        return f
    A(("same-size screens extruded at the same time from a thread pool give the rows they give one after the other",
       float(common.threads_equal([rows_of(k) for k in range(6)], workers=6, repeats=3)), 0.0))


def property_checks(p):
    out = []
    A = out.append
    if p.get("copies_and_threads"):
        copy_and_thread_checks(p, A)
        return out
    if p.get("long_history"):
        long_history_checks(p, A)
        return out
    # the same geometry with other r0 / pixel scale first (hidden state between instances must not matter)
    for i, (r0f, psf) in enumerate([(1.0, 1.0)] + ([(2.0, 1.0), (1.0, 1.5)] if p.get("family") else [])):
        gen = ic.ScriptedGenerator(p["data_seed"] + i)
        try:
            s = ic.make_screen(p["kind"], p["nx"], (p["ps"] if psf == 1.0 else p["ps"] * psf), p["r0"] * r0f, p["L0"], p["extra"], gen)
        except Exception as ex:
            if isinstance(p["ps"], int) and psf == 1.0:
                try:
                    ic.make_screen(p["kind"], p["nx"], float(p["ps"]), p["r0"] * r0f, p["L0"], p["extra"], ic.ScriptedGenerator(1))
                    A(("construction succeeds for an integer pixel scale whenever it does for the equal float", 1.0, 0.0))
                except Exception:
                    pass
            continue
        checks_for_screen(s, p, A, "" if i == 0 else " (after a sibling screen)")
    return out


def falsify(ctx, deep=False):
    rng = ctx["rng"]
    n = 40 if deep else 8
    viols, worst = [], {}
    cases = []
    for k in range(n):
        p = ic.gen_params(rng, small=not (deep and k % 4 == 0))
        p["family"] = (k % 2 == 0)
        cases.append(p)
    # inputs every run includes besides the random ones (none replaces a random draw)
    cases.append({"kind": "fried", "nx": 128, "extra": 4, "ps": 0.1, "r0": 0.15, "L0": 30.0, "family": False})
    cases.append({"kind": "fried", "nx": 6, "extra": 2, "ps": 1, "r0": 1.0, "L0": 30.0, "family": True})       # integer pixel scale
    cases.append({"kind": "vk", "nx": 6, "extra": 2, "ps": 2, "r0": 1.5, "L0": 25.0, "family": False})
    cases.append({"kind": "fried", "nx": 5, "extra": 2, "ps": 3.14159e-5, "r0": 9.3e-5, "L0": 6.1e-3, "family": False})
    # screens taller than 64 rows over histories longer than 64 steps (buffers, windows and chunked updates show here)
    cases.append({"kind": "vk", "nx": rng.choice([70, 80, 97]), "extra": rng.choice([1, 2]), "ps": 0.1, "r0": 0.2, "L0": 25.0, "family": False, "long_history": rng.randint(70, 140)})
    # a Fried screen over a history longer than its working length (the reference-pixel term at every step)
    cases.append({"kind": "fried", "nx": rng.choice([5, 9]), "extra": rng.choice([1, 2]), "ps": 0.1, "r0": 0.2, "L0": 25.0, "family": False, "long_history": rng.randint(40, 80)})
    if deep:
        cases.append({"kind": "fried", "nx": rng.choice([40, 65]), "extra": 1, "ps": 0.1, "r0": 0.2, "L0": 25.0, "family": False, "long_history": rng.randint(70, 100)})
    # sampling so fine against the outer scale that the stencil covariance is numerically singular (the library refuses these)
    cases.append({"kind": rng.choice(["vk", "fried"]), "nx": rng.choice([8, 16]), "extra": 2, "ps": rng.choice([0.01, 1e-4]), "r0": 0.2, "L0": rng.choice([1e3, 1e4]), "family": False})
    # copies of screens (deepcopy, pickle) and screens used from a thread pool
    cases.append({"kind": "vk", "nx": 8, "extra": 2, "ps": 0.1, "r0": 0.2, "L0": 25.0, "family": False, "copies_and_threads": True})
    cases.append({"kind": "fried", "nx": rng.choice([6, 9]), "extra": 1, "ps": 0.1, "r0": 0.2, "L0": 25.0, "family": False, "copies_and_threads": True})
    # the screen is wider than the outer scale (separations beyond L0 inside the stencil)
    cases.append({"kind": rng.choice(["vk", "fried"]), "nx": rng.choice([9, 17]), "extra": 2, "ps": rng.uniform(0.5, 1.5), "r0": 0.3, "L0": rng.uniform(2.0, 6.0), "family": False})
    for p in cases:
        p["data_seed"] = rng.getrandbits(30); p["shift"] = rng.uniform(-50, 50)
        try:
            res = property_checks(p)
        except Exception as ex:
            res = [("raised %s: %s" % (type(ex).__name__, str(ex)[:80]), float("inf"), 0.0)]
        for clause, err, tol in res:
            key = clause
            worst[key] = max(worst.get(key, -1e300), (err / tol if tol > 0 else (0.0 if err == 0 else 1e300)) if math.isfinite(err) else 1e300)
            if not (err <= tol):
                viols.append({"clause": clause, "error": err, "tolerance": tol, "input": p})
    seen, keep = set(), []
    for v in viols:
        if v["clause"] not in seen:
            seen.add(v["clause"]); keep.append(v)
    return keep, {"evaluations": len(cases), "max_error_over_tolerance_per_clause": worst}


def replay(payload):
    v = payload.get("violation")
    if not v:
        print("replay file names a proof/correspondence failure, no input:", payload.get("proof", {}).get("failed_at"))
        return False
    bad = [(c, e, t) for c, e, t in property_checks(v["input"]) if not (e <= t)]
    for c, e, t in bad:
        print("  clause %r: error %g > %g" % (c, e, t))
    return not bad


def classify(v, known):
    return False


def replay_known(known):
    return None
