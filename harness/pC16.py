"""C16 -- binning, zooming and radial reductions preserve image content."""
import math, warnings
import numpy
from common import hexf, flist, flist2, run_cases
from aotools import interpolation as itp
from aotools.image_processing import psf
from aotools.functions import pupil

PID = "C16"
RULE = ("binning: images and stacks with shapes divisible by n, n in 1..5, integer-valued and random float data (compared bit-exactly: the model "
        "keeps the accumulation order); zoom_rbs: square arrays 4..10, target sizes equal / node-containing / arbitrary, orders 1,3,5, real and "
        "complex, with every spline evaluation recorded and served to the model (coordinate and axis handling compared exactly); azimuthal average "
        "and encircled-energy curve: non-negative images of even and odd size 4..14 (1e-12); non-trivial = non-constant output; distinct = "
        "distinct (function, data)")
TRUSTED = ["scipy RectBivariateSpline(s=0) is an oracle: interpolates its nodes, is linear in the data, reproduces polynomials of degree <= k "
           "(contract; tested numerically)", 
           "model coq/model/Interp.v hand-written; circle from model/Pupil.v (C14)"]
ASSUMPTIONS = ["`zoom` (interp2d) is unusable with the installed SciPy (known finding); zoom clauses are checked on zoom_rbs"]
IMPORTS = ["AOV.base.Cplx", "AOV.model.Pupil", "AOV.model.Interp"]
PRELUDE = """Definition F := FOps [].
Fixpoint eql (a b : list float) : bool := match a, b with [] , [] => true | x :: r, y :: s => (x =? y) && eql r s | _, _ => false end.
Fixpoint eqm (a b : list (list float)) : bool := match a, b with [], [] => true | x :: r, y :: s => eql x y && eqm r s | _, _ => false end.
Definition okl (tol sc : float) (a e : list float) := all_close tol sc a e.
Fixpoint lookup3 (t : list (float * float * float)) (x y : float) : float :=
  match t with [] => nan | (a, b, v) :: r => if (a =? x) && (b =? y) then v else lookup3 r x y end.
"""


def correspond(ctx):
    rng, tier = ctx["rng"], ctx["tier"]
    npr = rng.nprng()
    n = 40 if tier == "quick" else 1500
    cases, meta = [], []
    for k in range(n):
        nb = rng.randint(1, 5); R, C = nb * rng.randint(1, 5), nb * rng.randint(1, 5)
        kind = rng.choice(["int", "float"])
        stack = rng.choice([None, None, 1, 3])
        shape = ((stack,) if stack else ()) + (R, C)
        d = npr.integers(-9, 10, size=shape).astype(float) if kind == "int" else npr.normal(size=shape)
        out = itp.binImgs(d, nb if rng.random() < 0.7 else float(nb))
        frames = d.reshape((-1, R, C)); outs = numpy.asarray(out).reshape((-1, R // nb, C // nb))
        for f, o in zip(frames, outs):
            cases.append("eqm (bin2d F %s %d) %s" % (flist2(f), nb, flist2(o)))
            meta.append({"fn": "binImgs", "shape": list(shape), "n": nb, "kind": kind, "nontrivial": bool(numpy.ptp(o) > 0) if o.size else False})
    for k in range(n // 2):
        N = rng.randint(4, 10)
        order = rng.choice([1, 3, 5])
        if N <= order:
            N = order + 2
        mode = rng.choice(["same", "nodes", "free"])
        new = N if mode == "same" else ((rng.randint(1, 3) * (N - 1) + 1) if mode == "nodes" else rng.randint(2, 2 * N))
        cplx = rng.random() < 0.3
        a = npr.normal(size=(N, N)) + (1j * npr.normal(size=(N, N)) if cplx else 0)
        rec = []
        real_rbs = itp.RectBivariateSpline
        class Rec(object):
            def __init__(self, x, y, z, *args, **kw):
                self.obj = real_rbs(x, y, z, *args, **kw); self.z = numpy.array(z, copy=True); self.kw = kw
                self.xy = (numpy.array(x), numpy.array(y))
            def __call__(self, xs, ys, *a, **k):
                o = self.obj(xs, ys, *a, **k)
                rec.append((self, numpy.array(xs), numpy.array(ys), numpy.array(o)))
                return o
        itp.RectBivariateSpline = Rec
        try:
            out = itp.zoom_rbs(a, (new, new) if rng.random() < 0.5 else (new, new), order)
        finally:
            itp.RectBivariateSpline = real_rbs
        parts = [("real", a.real, numpy.real(out))] + ([("imag", a.imag, numpy.imag(out))] if cplx else [])
        ok_struct = (len(rec) == len(parts)) and all(r[0].kw.get("kx") == order and r[0].kw.get("ky") == order for r in rec) \
            and all(numpy.array_equal(r[0].xy[0], numpy.arange(N)) and numpy.array_equal(r[0].xy[1], numpy.arange(N)) for r in rec)
        for idx, (nm, src, o) in enumerate(parts):
            if not ok_struct or not numpy.array_equal(rec[idx][0].z, src):
                cases.append("false"); meta.append({"fn": "zoom_rbs", "what": "spline built on unexpected data/order", "nontrivial": True}); continue
            _, xs, ys, vals = rec[idx]
            tbl = "[" + "; ".join("(%s, %s, %s)" % (hexf(x), hexf(y), hexf(vals[i, j])) for i, x in enumerate(xs) for j, y in enumerate(ys)) + "]"
            cases.append("eqm (zoom_rbs F (fun _ _ x y => lookup3 %s x y) %s %d %d %d) %s" % (tbl, flist2(src), new, new, order, flist2(o)))
            meta.append({"fn": "zoom_rbs", "N": N, "new": new, "order": order, "part": nm, "mode": mode, "nontrivial": True})
    for k in range(n // 2):
        N = rng.randint(4, 14)
        d = numpy.abs(npr.normal(size=(N, N))) if rng.random() < 0.7 else npr.integers(0, 9, size=(N, N)).astype(float)
        out = psf.azimuthal_average(d)
        cases.append("okl %s %s (azimuthal_average F %s) %s" % (hexf(1e-12), hexf(float(numpy.abs(d).max())), flist2(d), flist(out)))
        meta.append({"fn": "azimuthal_average", "N": N, "nontrivial": bool(numpy.ptp(out) > 0) if len(out) > 1 else False})
        if N % 2 == 0 and N >= 4:
            dim = N // 2
            rads = numpy.linspace(0, dim ** (1. / 1.9), 20) ** 1.9
            xs, ee = psf.encircled_energy(d, eeDiameter=False)
            # compare the underlying curve: recompute what the implementation builds before interpolation
            pts = []
            for r in rads:
                pup = pupil.circle(r, N, circle_centre=(dim, dim), origin="corner")
                pts.append((math.sqrt(pup.sum() * 4 / math.pi), float((pup * d).sum() / d.sum())))
            # the implementation's interpolated output must pass through these points' envelope: checked in the falsifier;
            # here the model's curve against the same construction through the real circle()
            exp = [v for pt in pts for v in pt]
            cases.append("okl %s 1 (flat_map (fun q => [fst q; snd q]) (ee_curve F %s %s %s %s)) %s"
                         % (hexf(1e-12), flist2(d), hexf(float(dim)), hexf(float(dim)), flist(rads), flist(exp)))
            meta.append({"fn": "encircled_energy curve", "N": N, "nontrivial": True})
            # what the function actually returns: the curve resampled by numpy.interp on linspace(0, dim, 4 dim) ...
            exp2 = [v for pair in zip(xs, ee) for v in pair]
            cases.append("okl %s 1 (flat_map (fun q => [fst q; snd q]) (ee_interp F %s %s %s %s)) %s"
                         % (hexf(1e-11), flist2(d), hexf(float(dim)), hexf(float(dim)), flist(rads), flist(exp2)))
            meta.append({"fn": "encircled_energy returned curve", "N": N, "nontrivial": True})
            # ... and the diameter at which it is closest to the requested fraction (skipped on a numerical tie of the two best samples)
            fr = rng.uniform(0.1, 0.9)
            gap = numpy.sort(numpy.abs(ee - fr))
            if gap[1] - gap[0] > 1e-9:
                dia = psf.encircled_energy(d, fraction=fr)
                cases.append("okl %s 1 [ee_diameter F %s %s %s %s %s] [%s]"
                             % (hexf(1e-12), flist2(d), hexf(float(dim)), hexf(float(dim)), flist(rads), hexf(fr), hexf(float(dia))))
                meta.append({"fn": "encircled_energy diameter", "N": N, "fraction": fr, "nontrivial": True})
    nev, failing, errors = run_cases(PID, IMPORTS, PRELUDE, cases, per_file=30)
    hist = {}
    for m in meta:
        key = m["fn"] + ("/" + str(m.get("kind") or m.get("mode") or ""))
        hist[key] = hist.get(key, 0) + 1
    div = [dict(meta[i], what="model != implementation") for i in failing]
    return {"cases": nev, "nontrivial": sum(1 for m in meta if m["nontrivial"]), "divergences": div, "errors": errors,
            "samples": [meta[0], meta[len(meta) // 2], meta[-1]], "hist": hist}


def property_checks(inp):
    npr = numpy.random.default_rng(inp["data_seed"])
    out = []
    A = out.append
    nb, r, c = inp["n"], inp["r"], inp["c"]
    img = npr.integers(0, 50, size=(r * nb, c * nb)).astype(float)
    orig = img.copy()
    b = itp.binImgs(img, nb)
    want = img.reshape(r, nb, c, nb).sum(axis=(1, 3))
    A(("bin = n x n block sums", float(numpy.abs(b - want).max()) if b.shape == want.shape else float("inf"), 0.0))
    A(("bin preserves total flux", abs(float(b.sum() - orig.sum())), 0.0))
    A(("bin leaves its argument untouched", float(numpy.abs(img - orig).max()), 0.0))
    b2 = itp.binImgs(img, nb)
    A(("bin twice gives the same result", float(numpy.abs(b2 - b).max()), 0.0))
    st = npr.integers(0, 50, size=(3, r * nb, c * nb)).astype(float)
    # the layout of the image in memory is not part of the image: crops of a larger frame, transposed / column-major images,
    # every-other-pixel views and per-frame crops of a cube bin like their contiguous copies
    bigf = npr.integers(0, 50, size=(r * nb + 3, c * nb + 5)).astype(float)
    crop = bigf[2:2 + r * nb, 1:1 + c * nb]
    views = [("crop of a larger frame", crop), ("transposed image", npr.integers(0, 50, size=(c * nb, r * nb)).astype(float).T),
             ("column-major image", numpy.asfortranarray(img)), ("every-other-pixel view", npr.integers(0, 50, size=(2 * r * nb, 2 * c * nb)).astype(float)[::2, ::2])]
    worst_l = 0.0
    for nm_, v_ in views:
        got_ = itp.binImgs(v_, nb); want_ = numpy.ascontiguousarray(v_).reshape(r, nb, c, nb).sum(axis=(1, 3))
        worst_l = max(worst_l, float(numpy.abs(got_ - want_).max()) if got_.shape == want_.shape else float("inf"))
    cube = npr.integers(0, 50, size=(3, r * nb + 2, c * nb + 2)).astype(float)[:, 1:-1, 1:-1]
    gotc = itp.binImgs(cube, nb); wantc_ = numpy.ascontiguousarray(cube).reshape(3, r, nb, c, nb).sum(axis=(2, 4))
    worst_l = max(worst_l, float(numpy.abs(gotc - wantc_).max()) if gotc.shape == wantc_.shape else float("inf"))
    A(("bin of a non-contiguous image (crop, transpose, column-major, strided view, cropped cube) = n x n block sums", worst_l, 0.0))
    bs = itp.binImgs(st, nb)
    A(("bin of a stack = per frame", float(numpy.abs(bs - numpy.array([itp.binImgs(f.copy(), nb) for f in st])).max()), 0.0))
    # zoom_rbs
    N, order = inp["N"], inp["order"]
    a = npr.normal(size=(N, N))
    z = itp.zoom_rbs(a, (N, N), order)
    A(("zoom to the same size returns the input (order %d)" % order, float(numpy.abs(z - a).max()), 1e-10))
    kf = inp["kf"]; new = kf * (N - 1) + 1
    z = itp.zoom_rbs(a, (new, new), order)
    A(("zoom passes through the original samples (order %d)" % order, float(numpy.abs(z[::kf, ::kf] - a).max()), 1e-10))
    # polynomial exactness up to the spline order
    i = numpy.arange(N, dtype=float)
    px, py = inp["px"] % (order + 1), inp["py"] % (order + 1)
    P = (i[:, None] / N) ** px * (i[None, :] / N) ** py + 0.3 * (i[:, None] / N) ** py
    new2 = inp["new2"]
    zc = numpy.linspace(0, N - 1, new2)
    # result[j, i] = f(coordsY[j], coordsX[i]) with f the spline of the array indexed [axis0, axis1]
    want = (zc[:, None] / N) ** px * (zc[None, :] / N) ** py + 0.3 * (zc[:, None] / N) ** py
    A(("zoom exact for polynomials up to the order (order %d)" % order, float(numpy.abs(itp.zoom_rbs(P, (new2, new2), order) - want).max()), 1e-9))
    # ... also for polynomials with an extremum strictly between grid nodes (a paraboloid about a non-integer vertex): the
    # spline may exceed the range of the samples there, and must
    if order >= 2:
        vx, vy = inp.get("vertex", [N / 2.0 - 0.37, N / 2.0 + 0.21])
        Pq = ((i[:, None] - vx) / N) ** 2 + 0.7 * ((i[None, :] - vy) / N) ** 2 - 0.05
        wq = ((zc[:, None] - vx) / N) ** 2 + 0.7 * ((zc[None, :] - vy) / N) ** 2 - 0.05
        A(("zoom exact for a paraboloid with its vertex between grid nodes (order %d)" % order, float(numpy.abs(itp.zoom_rbs(Pq, (new2, new2), order) - wq).max()), 1e-9))
        zq = itp.zoom_rbs(Pq + 1j * Pq[::-1], (new2, new2), order)
        A(("zoom of a complex paraboloid = zoom(real) + i zoom(imag) (order %d)" % order, float(numpy.abs(zq - (wq + 1j * wq[::-1])).max()), 1e-9))
    ac = a + 1j * npr.normal(size=(N, N))
    zcx = itp.zoom_rbs(ac, (new2, new2), order)
    A(("zoom of complex = zoom(real) + i zoom(imag) (order %d)" % order,
       float(numpy.abs(zcx - (itp.zoom_rbs(ac.real.copy(), (new2, new2), order) + 1j * itp.zoom_rbs(ac.imag.copy(), (new2, new2), order))).max()), 1e-12))
    A(("zoom accepts an integer size", _int_size_ok(a, new2, order), 0.0))
    A(("zoom (interp2d entry point) works", _zoom_ok(a, new2), 0.0))
    # radial reductions
    M = inp["M"]
    d = numpy.abs(npr.normal(size=(M, M))) + 0.01
    cst = inp["cst"]
    A(("azimuthal average of a constant image", float(numpy.abs(psf.azimuthal_average(numpy.full((M, M), cst)) - cst).max() / cst), 1e-12))
    av = psf.azimuthal_average(d)
    A(("azimuthal average within [min, max]", float(max(av.max() - d.max(), d.min() - av.min())), 1e-12))
    # images need not be positive (background-subtracted frames, log-scaled PSFs, phase maps): the average is linear
    for nm_, dn_ in (("negative constant", numpy.full((M, M), -cst)), ("sign-changing image", d - d.mean()), ("negated image", -d), ("log-scaled image", numpy.log10(d))):
        avn = psf.azimuthal_average(dn_)
        A(("azimuthal average of a %s within [min, max]" % nm_, float(max(avn.max() - dn_.max(), dn_.min() - avn.min())), 1e-12))
    A(("azimuthal average is linear: avg(a - mean) = avg(a) - mean, avg(-a) = -avg(a)",
       float(max(numpy.abs(psf.azimuthal_average(d - d.mean()) - (av - d.mean())).max(), numpy.abs(psf.azimuthal_average(-d) + av).max())), 1e-12))
    if M % 2 == 0:
        xs, ee = psf.encircled_energy(d, eeDiameter=False)
        A(("encircled energy starts at 0", abs(float(ee[0])), 0.0))
        A(("encircled energy never decreases", float(max(0.0, (-numpy.diff(ee)).max())), 1e-12))
        A(("encircled energy within [0, 1]", float(max(ee.max() - 1, -ee.min())), 1e-12))
        fr = inp["fraction"]
        dia = psf.encircled_energy(d, fraction=fr)
        A(("reported diameter is where the curve is closest to the fraction", abs(float(xs[numpy.argmin(numpy.abs(ee - fr))]) - dia), 0.0))
        # the image is the caller's: unchanged afterwards, read-only images are accepted, and analysing one view of a frame does not
        # change what another view of the same frame gives
        dcopy = d.copy(); xs_a, ee_a = psf.encircled_energy(dcopy, eeDiameter=False)
        dro = d.copy(); dro.setflags(write=False)
        try:
            xs_r, ee_r = psf.encircled_energy(dro, eeDiameter=False); ro_ok = numpy.array_equal(ee_r, ee_a)
        except Exception:
            ro_ok = False
        frame2 = numpy.zeros((M + 2, M + 2)); frame2[1:-1, 1:-1] = d
        va, vb = frame2[1:-1, 1:-1], frame2[:M, :M]
        eb0 = psf.encircled_energy(vb.copy(), eeDiameter=False)[1] if vb.sum() > 0 else None
        psf.encircled_energy(va, eeDiameter=False)
        eb1 = psf.encircled_energy(vb, eeDiameter=False)[1] if vb.sum() > 0 else None
        A(("encircled_energy leaves the image untouched, accepts a read-only image, and views of one frame do not influence each other",
           0.0 if (numpy.array_equal(dcopy, d) and ro_ok and (eb0 is None or numpy.array_equal(eb0, eb1))) else 1.0, 0.0))
        # a compact image: exactly zero outside a centred disc (a masked PSF core), all energy enclosed well before the last aperture
        for compact in (False, True):
            dd__ = d * pupil.circle(max(1.0, M / 2 * inp.get("support", 0.5)), M) if compact else d
            if dd__.sum() > 0:
                ee_variants(dd__, M, fr, inp, A, " (image zero outside a disc)" if compact else "")
    # narrow dtypes: the same sample values give the same zoom (single-precision complex keeps its imaginary part)
    a32 = npr.normal(size=(N, N)).astype(numpy.float32); b32 = npr.normal(size=(N, N)).astype(numpy.float32)
    c64 = (a32 + 1j * b32).astype(numpy.complex64)
    wantc = itp.zoom_rbs(a32.astype(float), (new2, new2), order) + 1j * itp.zoom_rbs(b32.astype(float), (new2, new2), order)
    with warnings.catch_warnings():
        warnings.simplefilter("ignore")
        A(("zoom of complex64 = zoom(real) + i zoom(imag) of the same values (order %d)" % order, float(numpy.abs(itp.zoom_rbs(c64, (new2, new2), order) - wantc).max()), 1e-5))
        A(("zoom of float32 / integer data = zoom of the same values as float64 (order %d)" % order,
           float(max(numpy.abs(itp.zoom_rbs(a32, (new2, new2), order) - wantc.real).max(),
                     numpy.abs(itp.zoom_rbs(img[:N, :N].astype(numpy.int32) if img.shape[0] >= N and img.shape[1] >= N else a32, (new2, new2), order)
                               - itp.zoom_rbs(img[:N, :N].copy() if img.shape[0] >= N and img.shape[1] >= N else a32.astype(float), (new2, new2), order)).max())), 1e-5))
    return out


def ee_variants(d, M, fr, inp, A, suffix):
    """optional centre: on a pixel centre (half-integer corner coordinates), on a pixel corner, anywhere"""
    if True:
        hc = M // 2
        for cname, cen_ in (("pixel centre", (hc + 0.5 + inp.get("coff", [0, 0])[0], hc + 0.5 + inp.get("coff", [0, 0])[1])),
                            ("pixel corner", (hc + inp.get("coff", [0, 0])[0], hc + inp.get("coff", [0, 0])[1])),
                            ("generic point", (hc + inp.get("cgen", [0.3, -0.2])[0], hc + inp.get("cgen", [0.3, -0.2])[1]))):
            xs2, ee2 = psf.encircled_energy(d, center=cen_, eeDiameter=False)
            A(("encircled energy about a %s starts at 0, never decreases, stays within [0, 1]%s" % (cname, suffix),
               float(max(abs(ee2[0]), (-numpy.diff(ee2)).max(), ee2.max() - 1, -ee2.min())), 1e-12))
            # the curve against its definition, with an indicator written here: energy inside the circle of radius r about the
            # centre, against the diameter of the disc of the same area as the enclosed pixels
            dim_ = M // 2
            rad_ = numpy.linspace(0, dim_ ** (1. / 1.9), 20) ** 1.9
            jj_ = numpy.arange(2 * dim_) + 0.5
            XX_, YY_ = numpy.meshgrid(jj_, jj_)
            dsub = d[:2 * dim_, :2 * dim_]
            dd_, ee_ = [0.0], [0.0]
            for r_ in rad_:
                ins = ((XX_ - cen_[0]) ** 2 + (YY_ - cen_[1]) ** 2) <= r_ * r_
                dd_.append(math.sqrt(ins.sum() * 4 / math.pi)); ee_.append(float((dsub * ins).sum()))
            ref_curve = numpy.interp(numpy.linspace(0, dim_, int(4 * dim_)), numpy.array(dd_), numpy.array(ee_) / d.sum())
            A(("encircled energy about a %s = energy inside the circle / total, against the equivalent diameter%s" % (cname, suffix),
               float(numpy.abs(ee2 - ref_curve).max()) if ee2.shape == ref_curve.shape else float("inf"), 1e-12))
            dia2 = psf.encircled_energy(d, fraction=fr, center=cen_)
            A(("reported diameter about a %s is where the curve is closest to the fraction%s" % (cname, suffix), abs(float(xs2[numpy.argmin(numpy.abs(ee2 - fr))]) - dia2), 0.0))


def _int_size_ok(a, n, order):
    try:
        return 0.0 if itp.zoom_rbs(a, n, order).shape == (n, n) else 1.0
    except Exception:
        return 1.0


def _zoom_ok(a, n):
    try:
        return 0.0 if itp.zoom(a, n).shape == (n, n) else 1.0
    except Exception:
        return 1.0


def gen_input(rng):
    order = rng.choice([1, 3, 5])
    return {"n": rng.randint(1, 6), "r": rng.randint(1, 6), "c": rng.randint(1, 6), "N": rng.randint(order + 2, 12), "order": order,
            "kf": rng.randint(1, 3), "px": rng.randint(0, 5), "py": rng.randint(0, 5), "new2": rng.randint(3, 20), "M": rng.randint(4, 20),
            "cst": rng.uniform(0.1, 9), "fraction": rng.uniform(0.05, 0.95), "coff": [rng.randint(-1, 1), rng.randint(-1, 1)],
            "cgen": [rng.uniform(-1.5, 1.5), rng.uniform(-1.5, 1.5)], "vertex": [rng.uniform(1.2, 3.8), rng.uniform(1.2, 3.8)], "support": rng.uniform(0.25, 0.8), "data_seed": rng.getrandbits(32)}


def falsify(ctx, deep=False):
    rng = ctx["rng"]
    n = 200 if deep else 40
    viols, worst = [], {}
    for _ in range(n):
        inp = gen_input(rng)
        try:
            res = property_checks(inp)
        except Exception as ex:
            res = [("raised %s: %s" % (type(ex).__name__, str(ex)[:80]), float("inf"), 0.0)]
        for clause, err, tol in res:
            worst[clause] = max(worst.get(clause, -1e300), err if math.isfinite(err) else 1e300)
            if not (err <= tol):
                viols.append({"clause": clause, "error": err, "tolerance": tol, "input": inp})
    seen, keep = set(), []
    for v in viols:
        if v["clause"] not in seen:
            seen.add(v["clause"]); keep.append(v)
    return keep, {"evaluations": n, "max_error_per_clause": worst}


def replay(payload):
    v = payload.get("violation")
    if not v:
        print("replay file names a proof/correspondence failure, no input:", payload.get("proof", {}).get("failed_at"))
        return False
    bad = [(c, e, t) for c, e, t in property_checks(v["input"]) if not (e <= t)]
    for c, e, t in bad:
        print("  clause %r: error %g > %g" % (c, e, t))
    return not bad


def classify(v, known):
    return ((known["id"] == "C16-zoom-interp2d-removed" and v["clause"] == "zoom (interp2d entry point) works")
            or (known["id"] == "C16-zoom_rbs-int-size" and v["clause"] == "zoom accepts an integer size"))


def replay_known(known):
    a = numpy.arange(16.0).reshape(4, 4)
    if known["id"] == "C16-zoom-interp2d-removed":
        return _zoom_ok(a, 6) != 0.0
    if known["id"] == "C16-zoom_rbs-int-size":
        return _int_size_ok(a, 6, 3) != 0.0
    return None
