"""C01 -- slope covariance matrix equals the true covariance of the WFS slopes."""
import math, warnings
import numpy
import slopecov_common as scc
from common import hexf, flist, flist2, run_cases
from aotools.turbulence import slopecovariance as sc

PID = "C01"
RULE = ("1-3 (thorough: 1-4) wavefront sensors with masks from {1x1, 2x2, 3x3 full, disc, ring, row, diagonal, corner-cut, L-shaped, asymmetric} "
        "(point-symmetric and not), equal and mixed sub-aperture sizes, NGS and LGS altitudes mixed, guide-star offsets up to 60 arcsec, 1-3 layers "
        "(h in [0,12 km], r0, L0 random), equal and unequal wavelengths. For each configuration the float32 matrix assembled by the sequential "
        "path (captured before mirroring) is compared entrywise with the Coq model run at binary64 with binary32 stores (1e-6 of max|M|), every "
        "scipy kv/gamma value being served from a table recorded during the run, and mirror_covariance_matrix is compared bit-exactly. "
        "non-trivial = at least two sub-apertures and a non-zero matrix; distinct = distinct configurations")
TRUSTED = ["model coq/model/SlopeCov.v hand-written; compute_covariance_xx/yy/xy and structure_function_vk are the definitions regenerated from source",
           "scipy.special.kv/gamma values are oracles recorded from the run (fail-closed table)",
           "numpy.where enumerates row-major; a float32 '+=' of a float64 product rounds once to binary32",
           "software pow/exp/ln of FloatFun.v (model execution only)"]
ASSUMPTIONS = ["probability is read through second-moment algebra: the reference ('spec') is the polarisation formula of finite-difference slopes with the "
               "von Karman structure function; it is evaluated numerically by the falsifier (harness/slopecov_common.spec_matrix)",
               "entry-wise equality with the spec is only claimed for configurations inside the guard (identical point-symmetric sensors); outside it the "
               "known findings C01-* apply"]
PRELUDE = """Definition okm (tol sc : float) (a e : list (list float)) := all_close2 tol sc a e.
Fixpoint eql (a b : list float) : bool := match a, b with [] , [] => true | x :: r, y :: s => ((x =? y) || (is_nan x && is_nan y)) && eql r s | _, _ => false end.
Fixpoint eqm (a b : list (list float)) : bool := match a, b with [], [] => true | x :: r, y :: s => eql x y && eqm r s | _, _ => false end.
"""


def correspond(ctx):
    rng, tier = ctx["rng"], ctx["tier"]
    n = 14 if tier == "quick" else 240
    cases, meta = [], []
    for k in range(n):
        cfg = scc.gen_config(rng, "small" if tier == "quick" or k % 3 else "large")
        with warnings.catch_warnings():
            warnings.simplefilter("ignore")
            with scc.KvRecorder() as rec, scc.Controlled() as ctl:
                cm = scc.build(cfg, threads=1)
                out = cm.make_covariance_matrix()
        pre, post = ctl.pre[0], ctl.post[0]
        D, ws, ls = scc.coq_cfg(cfg)
        sca = float(numpy.max(numpy.abs(pre)))
        cases.append("okm %s %s (assemble_seq (FOps %s) %s %s %s) %s" % (hexf(1e-6), hexf(sca), rec.table(), D, ws, ls, flist2(pre.astype(float))))
        meta.append({"what_compared": "assembled matrix before mirroring", "config": cfg, "shape": list(pre.shape), "guarded": scc.is_guarded(cfg),
                     "nontrivial": bool(pre.shape[0] >= 4 and sca > 0)})
        cases.append("eqm (mirror (FOps []) %s) %s" % (flist2(pre.astype(float)), flist2(post.astype(float))))
        meta.append({"what_compared": "mirror_covariance_matrix (bit exact)", "config": cfg, "shape": list(pre.shape), "guarded": scc.is_guarded(cfg),
                     "nontrivial": bool(pre.shape[0] >= 4 and sca > 0)})
    nev, failing, errors = run_cases(PID, scc.IMPORTS, PRELUDE, cases, per_file=2, timeout=900)
    hist = {}
    for m in meta[::2]:
        c = m["config"]
        key = "wfs=%d layers=%d %s" % (len(c["masks"]), len(c["layers"]), "guarded" if m["guarded"] else
                                       "/".join(t for t, b in (("asym-mask", any(x not in scc.SYMMETRIC for x in c["masks"])), ("mixed-d", len(set(c["d"])) > 1),
                                                               ("mixed-alt", len(set(c["alt"])) > 1), ("off-axis", len({tuple(g) for g in c["gs"]}) > 1)) if b) or "other")
        hist[key] = hist.get(key, 0) + 1
    div = [dict(meta[i], what="model != implementation") for i in failing]
    return {"cases": nev, "nontrivial": sum(1 for m in meta if m["nontrivial"]), "divergences": div, "errors": errors,
            "samples": [meta[0], meta[-1]], "hist": hist}


# ------------------------------------------------------------------------------------------
def make(cfg, threads=1):
    with warnings.catch_warnings():
        warnings.simplefilter("ignore")
        return scc.build(cfg, threads).make_covariance_matrix().astype(float)


def property_checks(cfg):
    out = []
    A = out.append
    M = make(cfg)
    guarded = scc.is_guarded(cfg)
    tag = "guarded" if guarded else "outside-guard"
    finite = bool(numpy.all(numpy.isfinite(M)))
    sc_ = float(numpy.max(numpy.abs(M[numpy.isfinite(M)]))) if numpy.isfinite(M).any() else 1.0
    S = scc.spec_matrix(cfg)
    A(("entries = covariance of the finite-difference slopes/%s" % tag, float(numpy.max(numpy.abs(M - S)) / numpy.max(numpy.abs(S))) if finite else float("inf"),
       6e-6 if cfg.get("param_kind") == "float32" else 2e-6))      # float32 parameters: the coefficient 0.17253 (L0/r0)^(5/3) is itself formed in binary32 (worst seen 6e-7)
    A(("symmetric", float(numpy.max(numpy.abs(M - M.T)) / sc_) if finite else (0.0 if numpy.array_equal(numpy.isnan(M), numpy.isnan(M.T)) else 1.0), 0.0))
    if finite:
        ev = numpy.linalg.eigvalsh((M + M.T) / 2)
        A(("positive semi-definite up to float32/%s" % tag, float(-ev.min() / max(ev.max(), 1e-300)), 2e-5))
    # ordering: all x slopes then all y slopes per sensor  <=> block layout of the spec (checked by the entry clause);
    # structural laws (hold for every configuration)
    if len(cfg["layers"]) >= 2 and finite:
        parts = []
        for l in cfg["layers"]:
            c1 = dict(cfg); c1["layers"] = [l]
            parts.append(make(c1))
        if all(numpy.all(numpy.isfinite(p)) for p in parts):
            A(("additive over layers/%s" % tag, float(numpy.max(numpy.abs(M - sum(parts))) / sc_), 3e-6))
    # the own (auto) block of every sensor is the covariance of that sensor's slopes: it cannot depend on which other
    # sensors are in the system nor on the order they are listed in
    if len(cfg["masks"]) >= 2 and finite:
        ns = [int(numpy.array(scc.MASKS[m]).sum()) for m in cfg["masks"]]
        off = numpy.concatenate([[0], 2 * numpy.cumsum(ns)])
        worst_own = 0.0
        for w_ in range(len(ns)):
            c1 = {k_: ([cfg[k_][w_]] if k_ in ("masks", "d", "alt", "gs", "wvl") else cfg[k_]) for k_ in cfg}
            M1 = make(c1)
            blk = M[off[w_]:off[w_ + 1], off[w_]:off[w_ + 1]]
            if numpy.all(numpy.isfinite(M1)) and numpy.all(numpy.isfinite(blk)):
                worst_own = max(worst_own, float(numpy.max(numpy.abs(blk - M1)) / max(float(numpy.max(numpy.abs(M1))), 1e-300)))
        A(("a sensor's own block does not depend on the other sensors or their order", worst_own, 3e-6))
    # the same matrix whatever the number of worker processes (in-process pool honouring only the map contract)
    if finite:
        for t_ in (2, 3):
            with scc.Controlled(lambda n: list(range(n))[::-1]):
                Mt = make(cfg, threads=t_)
            A(("the matrix does not depend on the number of threads (%d)" % t_, 0.0 if numpy.array_equal(Mt, M) else float(numpy.max(numpy.abs(Mt - M)) / sc_ + 1e-30), 0.0))
    # the same object asked twice gives the same matrix twice (guide-star positions and the other parameters are held as arrays:
    # nothing may be rescaled or shifted in place between two builds); masks given in column-major memory order are the same masks
    if finite:
        with warnings.catch_warnings():
            warnings.simplefilter("ignore")
            cm2 = scc.build(cfg, 1)
            b1 = numpy.array(cm2.make_covariance_matrix(), copy=True); b2 = numpy.array(cm2.make_covariance_matrix(), copy=True)
            A(("a second build on the same object returns the same matrix", 0.0 if numpy.array_equal(b1, b2, equal_nan=True) else 1.0, 0.0))
            cmf = scc.build(cfg, 1)
            cmf.pupil_masks = [numpy.asfortranarray(m_) for m_ in cmf.pupil_masks]
            cmt = scc.build(cfg, 1)
            cmt.pupil_masks = [numpy.ascontiguousarray(numpy.asarray(m_).T).T for m_ in cmt.pupil_masks]      # transposed views of transposed copies: same values, other strides
            bf, bt = numpy.array(cmf.make_covariance_matrix(), copy=True), numpy.array(cmt.make_covariance_matrix(), copy=True)
            A(("masks held in column-major order / as transposed views give the same matrix", 0.0 if (numpy.array_equal(bf, b1, equal_nan=True) and numpy.array_equal(bt, b1, equal_nan=True)) else 1.0, 0.0))
    # the object re-used for a second computation: parameters changed through the public attributes (new arrays, or written
    # into the arrays the object holds) and the matrix rebuilt -- it must be the matrix of the current parameters
    if finite:
        import common
        cfgB = scc.perturbed(cfg, common.Rng(int(abs(cfg.get("s", 1.7)) * 1e6) % (2 ** 30)))
        for how in ("replace", "inplace"):
            e_, _ = scc.reuse_error(cfg, cfgB, how=how)
            A(("an object re-used after its parameters were changed (%s) gives the matrix of a fresh object" % how, e_, 0.0))
    s = cfg.get("s", 1.7)
    c2 = dict(cfg); c2["layers"] = [dict(l, r0=l["r0"] * s) for l in cfg["layers"]]
    M2 = make(c2)
    if finite and numpy.all(numpy.isfinite(M2)):
        A(("scales as r0^(-5/3)/%s" % tag, float(numpy.max(numpy.abs(M2 - s ** (-5. / 3) * M)) / sc_), 3e-6))
    c3 = dict(cfg); c3["wvl"] = [w * s for w in cfg["wvl"]]
    M3 = make(c3)
    if finite and numpy.all(numpy.isfinite(M3)):
        A(("scales as the product of the wavelengths/%s" % tag, float(numpy.max(numpy.abs(M3 - s * s * M)) / (s * s * sc_)), 3e-6))
    if len(cfg["wvl"]) >= 2 and finite:
        c4 = dict(cfg); c4["wvl"] = [cfg["wvl"][0] * s] + list(cfg["wvl"][1:])
        M4 = make(c4)
        n0 = int(numpy.array(scc.MASKS[cfg["masks"][0]]).sum())
        f = numpy.ones(M.shape[0]); f[:2 * n0] = s
        if numpy.all(numpy.isfinite(M4)):
            A(("bilinear in the two sensors' wavelengths/%s" % tag, float(numpy.max(numpy.abs(M4 - M * f[:, None] * f[None, :])) / (s * s * sc_)), 3e-6))
    return out


def falsify(ctx, deep=False):
    rng = ctx["rng"]
    n = 60 if deep else 10
    viols, worst = [], {}
    for k in range(n):
        cfg = scc.gen_config(rng, "small" if k % 4 else "large", uniform=(k % 2 == 0))
        cfg["s"] = rng.uniform(0.5, 2.5)
        cfg["param_kind"] = rng.choice([None, None, "list", "list", "float32"])       # how the caller holds the parameters
        try:
            res = property_checks(cfg)
        except Exception as ex:
            res = [("raised %s: %s" % (type(ex).__name__, str(ex)[:80]), float("inf"), 0.0)]
        for clause, err, tol in res:
            worst[clause] = max(worst.get(clause, -1e300), err if math.isfinite(err) else 1e300)
            if not (err <= tol):
                viols.append({"clause": clause, "error": err, "tolerance": tol, "input": cfg})
    seen, keep = set(), []
    for v in viols:
        if v["clause"] not in seen:
            seen.add(v["clause"]); keep.append(v)
    return keep, {"evaluations": n, "max_error_per_clause": worst}


def replay(payload):
    v = payload.get("violation")
    if not v:
        print("replay file names a proof/correspondence failure, no input:", payload.get("proof", {}).get("failed_at"))
        return False
    bad = [(c, e, t) for c, e, t in property_checks(v["input"]) if not (e <= t)]
    for c, e, t in bad:
        print("  clause %r: error %g > %g" % (c, e, t))
    return not bad


WITNESS = {
 "C01-xy-block-flipped": {"masks": ["corner2"], "d": [1.0], "alt": [0.0], "gs": [[0.0, 0.0]], "wvl": [5e-7], "D": 2.0,
                          "layers": [{"h": 0.0, "r0": 0.2, "L0": 25.0}], "uniform": False},
 "C01-mixed-diameters": {"masks": ["full2", "full2"], "d": [1.0, 0.5], "alt": [0.0, 0.0], "gs": [[0.0, 0.0], [0.0, 0.0]], "wvl": [5e-7, 5e-7], "D": 2.0,
                         "layers": [{"h": 0.0, "r0": 0.2, "L0": 25.0}], "uniform": False},
 "C01-off-axis-pair": {"masks": ["full2", "full2"], "d": [1.0, 1.0], "alt": [0.0, 0.0], "gs": [[0.0, 0.0], [40.0, -25.0]], "wvl": [5e-7, 5e-7], "D": 2.0,
                       "layers": [{"h": 5000.0, "r0": 0.2, "L0": 25.0}], "uniform": False},
}


def classify(v, known):
    """all three open findings live outside the guard (not all sensors identical and point-symmetric)"""
    c = v["clause"]
    if not c.endswith("/outside-guard"):
        return False
    cfg = v["input"]
    asym = any(m not in scc.SYMMETRIC for m in cfg["masks"])
    mixed = len(set(cfg["d"])) > 1 or len(set(cfg["alt"])) > 1 or len(set(cfg["masks"])) > 1
    offax = len({tuple(g) for g in cfg["gs"]}) > 1
    entry = c.startswith(("entries =", "positive semi-definite"))
    # OR-garbage (two different float32 patterns on a diagonal block) needs a non point-symmetric mask and breaks every clause;
    # the other two findings only affect the entry values (and hence possibly PSD)
    return ((known["id"] == "C01-xy-block-flipped" and asym) or (entry and known["id"] == "C01-mixed-diameters" and mixed)
            or (entry and known["id"] == "C01-off-axis-pair" and offax))


def replay_known(known):
    cfg = WITNESS.get(known["id"])
    if cfg is None:
        return None
    res = dict((c, (e, t)) for c, e, t in property_checks(cfg))
    e, t = res["entries = covariance of the finite-difference slopes/outside-guard"]
    return not (e <= t)
