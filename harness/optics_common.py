"""shared by C10 and C11: correspondence of the four propagators with coq/model/Optics.v"""
import math
import numpy
from common import hexf, flist, run_cases
from aotools import opticalpropagation as op

IMPORTS = ["AOV.base.Cplx", "AOV.model.Fourier", "AOV.model.Optics"]
PRELUDE = """Definition F := FOps [].
Definition cflat (l : list (float * float)) : list float := flat_map (fun z => [fst z; snd z]) l.
Definition cflat2 (m : list (list (float * float))) : list float := flat_map cflat m.
Definition okm (sc : float) (a : list (list (float*float))) (e : list float) := all_close 0x1.5798ee2308c3ap-27 sc (cflat2 a) e.
"""   # tolerance 1e-8 of max|out|


def cm(m):
    return "[" + ";\n  ".join("[" + "; ".join("(%s, %s)" % (hexf(z.real), hexf(z.imag)) for z in r) + "]" for r in m) + "]"


def ef(a):
    a = numpy.asarray(a, dtype=complex).ravel()
    out = []
    for z in a:
        out += [z.real, z.imag]
    return flist(out)


def rand_field(npr, N):
    return npr.normal(size=(N, N)) + 1j * npr.normal(size=(N, N))


def gen_spacing(rng, wvl):
    """input sampling: usually many wavelengths per pixel, sometimes comparable to or finer than the wavelength"""
    u = rng.random()
    if u < 0.7:
        return rng.loguniform(1e-4, 1e-2)
    if u < 0.85:
        return wvl * rng.uniform(0.2, 0.9)
    return wvl * rng.uniform(1.0, 5.0)


def gen_mag(rng):
    """magnification: exactly 1, generic, or within a fraction of a percent of 1"""
    u = rng.random()
    if u < 0.35:
        return 1.0
    if u < 0.8:
        return rng.uniform(0.3, 3.0)
    return 1.0 + rng.choice([-1, 1]) * rng.loguniform(1e-6, 5e-3)


def gen_cases(rng, tier, pid):
    npr = rng.nprng()
    sizes = [2, 4, 6, 8] if tier == "quick" else [2, 4, 6, 8, 10, 12]
    reps = 3 if tier == "quick" else 20
    cases, meta = [], []
    def add(name, expr, out, info):
        sc = float(numpy.max(numpy.abs(out)))
        cases.append(expr % hexf(sc))
        meta.append(dict(info, fn=name, max_abs=sc, finite=bool(numpy.all(numpy.isfinite(out)))))
    for N in sizes:
        for _ in range(reps):
            U = rand_field(npr, N)
            wvl = rng.uniform(0.4e-6, 2e-6)
            d1 = gen_spacing(rng, wvl)
            mag = gen_mag(rng)
            d2 = d1 * mag
            z = rng.choice([-1, 1]) * rng.loguniform(0.05, 50.0) * (N * d1 * d1 / wvl)   # Fresnel numbers around 1
            out = op.angularSpectrum(U, wvl, d1, d2, z)
            add("angularSpectrum", "okm %%s (angularSpectrum F %s %s %s %s %s) %s" % (cm(U), hexf(wvl), hexf(d1), hexf(d2), hexf(z), ef(out)),
                out, {"N": N, "wvl": wvl, "d1": d1, "d2": d2, "z": z, "mag": mag})
            out = op.oneStepFresnel(U, wvl, d1, z)
            add("oneStepFresnel", "okm %%s (oneStepFresnel F %s %s %s %s) %s" % (cm(U), hexf(wvl), hexf(d1), hexf(z), ef(out)),
                out, {"N": N, "wvl": wvl, "d1": d1, "z": z})
            out = op.twoStepFresnel(U, wvl, d1, d2, z)
            add("twoStepFresnel", "okm %%s (twoStepFresnel F %s %s %s %s %s) %s" % (cm(U), hexf(wvl), hexf(d1), hexf(d2), hexf(z), ef(out)),
                out, {"N": N, "wvl": wvl, "d1": d1, "d2": d2, "z": z, "mag": mag})
            f = rng.choice([-1, 1]) * rng.loguniform(0.1, 30.0)
            out = op.lensAgainst(U, wvl, d1, f)
            add("lensAgainst", "okm %%s (lensAgainst F %s %s %s %s) %s" % (cm(U), hexf(wvl), hexf(d1), hexf(f), ef(out)),
                out, {"N": N, "wvl": wvl, "d1": d1, "f": f})
        # z = 0 short circuit
        U = rand_field(npr, N)
        out = op.angularSpectrum(U, 1e-6, 1e-3, 2e-3, 0)
        add("angularSpectrum", "okm %%s (angularSpectrum F %s %s %s %s %s) %s" % (cm(U), hexf(1e-6), hexf(1e-3), hexf(2e-3), hexf(0.0), ef(out)),
            out, {"N": N, "z": 0.0})
    nev, failing, errors = run_cases(pid, IMPORTS, PRELUDE, cases, per_file=25, tag="opt")
    hist = {}
    for m in meta:
        key = "%s/N=%d/%s" % (m["fn"], m["N"], "mag1" if m.get("mag", 0) == 1.0 else ("z<0" if m.get("z", m.get("f", 1)) < 0 else "z>0"))
        hist[key] = hist.get(key, 0) + 1
    nontriv = sum(1 for m in meta if m["max_abs"] > 0 and m["finite"])
    div = [dict(meta[i], what="model (pixel-wise propagator as written) != implementation") for i in failing]
    return {"cases": nev, "nontrivial": nontriv, "divergences": div, "errors": errors,
            "samples": [meta[0], meta[len(meta) // 2], meta[-1]], "hist": hist}


def power(U, d):
    return float((numpy.abs(U) ** 2).sum() * d * d)


def relerr(a, b):
    a, b = numpy.asarray(a), numpy.asarray(b)
    if a.shape != b.shape or not (numpy.all(numpy.isfinite(a)) and numpy.all(numpy.isfinite(b))):
        return float("inf")
    sc = max(float(numpy.max(numpy.abs(b))), 1e-300)
    return float(numpy.max(numpy.abs(a - b)) / sc)
