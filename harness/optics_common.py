"""shared by C10 and C11: correspondence of the four propagators with coq/model/Optics.v"""
import math
import numpy
from common import hexf, flist, run_cases
from aotools import opticalpropagation as op

IMPORTS = ["AOV.base.Cplx", "AOV.model.Fourier", "AOV.model.Optics"]
PRELUDE = """Definition F := FOps [].
Definition cflat (l : list (float * float)) : list float := flat_map (fun z => [fst z; snd z]) l.
Definition cflat2 (m : list (list (float * float))) : list float := flat_map cflat m.
Definition okm (sc : float) (a : list (list (float*float))) (e : list float) := all_close 0x1.5798ee2308c3ap-27 sc (cflat2 a) e.
"""   # tolerance 1e-8 of max|out|


def cm(m):
    return "[" + ";\n  ".join("[" + "; ".join("(%s, %s)" % (hexf(z.real), hexf(z.imag)) for z in r) + "]" for r in m) + "]"


def ef(a):
    a = numpy.asarray(a, dtype=complex).ravel()
    out = []
    for z in a:
        out += [z.real, z.imag]
    return flist(out)


def rand_field(npr, N):
    return npr.normal(size=(N, N)) + 1j * npr.normal(size=(N, N))


def gen_spacing(rng, wvl):
    """input sampling: usually many wavelengths per pixel, sometimes comparable to or finer than the wavelength"""
    u = rng.random()
    if u < 0.7:
        return rng.loguniform(1e-4, 1e-2)
    if u < 0.85:
        return wvl * rng.uniform(0.2, 0.9)
    return wvl * rng.uniform(1.0, 5.0)


def gen_mag(rng):
    """magnification: exactly 1, generic, or within a fraction of a percent of 1"""
    u = rng.random()
    if u < 0.35:
        return 1.0
    if u < 0.8:
        return rng.uniform(0.3, 3.0)
    return 1.0 + rng.choice([-1, 1]) * rng.loguniform(1e-4, 5e-3)


def max_phase(fn, N, wvl, d1, d2=None, z=None, f=None):
    """largest argument of the complex exponentials the propagator evaluates: an argument of size phi carries an
    absolute rounding error ~ phi * 2^-52 in BOTH the implementation and the model (different cos/sin routines), so the
    comparison tolerance has to grow with it when the sampling approaches the wavelength or the magnification approaches 1"""
    k = 2 * math.pi / wvl
    h = N / 2.0
    if fn == "angularSpectrum":
        mag = d2 / d1
        return max(k / 2 * abs(1 - mag) / abs(z) * 2 * (h * d1) ** 2, math.pi ** 2 * 2 * abs(z) / (mag * k) * 2 * (h / (N * d1)) ** 2,
                   k / 2 * abs(mag - 1) / (mag * abs(z)) * 2 * (h * d2) ** 2)
    if fn == "oneStepFresnel":
        dd = wvl * abs(z) / (N * d1)
        return k / (2 * abs(z)) * 2 * max((h * d1) ** 2, (h * dd) ** 2)
    if fn == "twoStepFresnel":
        m = d2 / d1
        Dz1 = z / 2.0 if m == 1 else z / (1 - m)
        Dz2 = z - Dz1
        d1a = wvl * abs(Dz1) / (N * d1)
        return max(k / (2 * abs(Dz1)) * 2 * max((h * d1) ** 2, (h * d1a) ** 2), k / (2 * abs(Dz2)) * 2 * max((h * d1a) ** 2, (h * d2) ** 2))
    if fn == "lensAgainst":
        return k / (2 * abs(f)) * 2 * (wvl * abs(f) / (2 * d1)) ** 2
    return 0.0


def phase_tol(phi):
    return 1e-8 + 2e-14 * phi


def gen_cases(rng, tier, pid):
    npr = rng.nprng()
    sizes = [2, 4, 6, 8] if tier == "quick" else [2, 4, 6, 8, 10, 12]
    reps = 3 if tier == "quick" else 20
    cases, meta = [], []
    def add(name, expr, out, info):
        sc = float(numpy.max(numpy.abs(out)))
        phi = max_phase(name, info["N"], info.get("wvl", 1e-6), info.get("d1", 1e-3), info.get("d2"), info.get("z"), info.get("f")) if info.get("z", 1) != 0 else 0.0
        # okm compares with 1e-8 * scale: widen the scale by the phase-dependent factor
        cases.append(expr % hexf(sc * phase_tol(phi) / 1e-8))
        meta.append(dict(info, fn=name, max_abs=sc, max_phase=phi, finite=bool(numpy.all(numpy.isfinite(out)))))
    for N in sizes:
        for _ in range(reps):
            U = rand_field(npr, N)
            wvl = rng.uniform(0.4e-6, 2e-6)
            d1 = gen_spacing(rng, wvl)
            mag = gen_mag(rng)
            d2 = d1 * mag
            z = rng.choice([-1, 1]) * rng.loguniform(0.05, 50.0) * (N * d1 * d1 / wvl)   # Fresnel numbers around 1
            out = op.angularSpectrum(U, wvl, d1, d2, z)
            add("angularSpectrum", "okm %%s (angularSpectrum F %s %s %s %s %s) %s" % (cm(U), hexf(wvl), hexf(d1), hexf(d2), hexf(z), ef(out)),
                out, {"N": N, "wvl": wvl, "d1": d1, "d2": d2, "z": z, "mag": mag})
            out = op.oneStepFresnel(U, wvl, d1, z)
            add("oneStepFresnel", "okm %%s (oneStepFresnel F %s %s %s %s) %s" % (cm(U), hexf(wvl), hexf(d1), hexf(z), ef(out)),
                out, {"N": N, "wvl": wvl, "d1": d1, "z": z})
            out = op.twoStepFresnel(U, wvl, d1, d2, z)
            add("twoStepFresnel", "okm %%s (twoStepFresnel F %s %s %s %s %s) %s" % (cm(U), hexf(wvl), hexf(d1), hexf(d2), hexf(z), ef(out)),
                out, {"N": N, "wvl": wvl, "d1": d1, "d2": d2, "z": z, "mag": mag})
            f = rng.choice([-1, 1]) * rng.loguniform(0.1, 30.0)
            out = op.lensAgainst(U, wvl, d1, f)
            add("lensAgainst", "okm %%s (lensAgainst F %s %s %s %s) %s" % (cm(U), hexf(wvl), hexf(d1), hexf(f), ef(out)),
                out, {"N": N, "wvl": wvl, "d1": d1, "f": f})
        # z = 0 short circuit
        U = rand_field(npr, N)
        out = op.angularSpectrum(U, 1e-6, 1e-3, 2e-3, 0)
        add("angularSpectrum", "okm %%s (angularSpectrum F %s %s %s %s %s) %s" % (cm(U), hexf(1e-6), hexf(1e-3), hexf(2e-3), hexf(0.0), ef(out)),
            out, {"N": N, "z": 0.0})
    nev, failing, errors = run_cases(pid, IMPORTS, PRELUDE, cases, per_file=25, tag="opt")
    hist = {}
    for m in meta:
        key = "%s/N=%d/%s" % (m["fn"], m["N"], "mag1" if m.get("mag", 0) == 1.0 else ("z<0" if m.get("z", m.get("f", 1)) < 0 else "z>0"))
        hist[key] = hist.get(key, 0) + 1
    nontriv = sum(1 for m in meta if m["max_abs"] > 0 and m["finite"])
    div = [dict(meta[i], what="model (pixel-wise propagator as written) != implementation") for i in failing]
    return {"cases": nev, "nontrivial": nontriv, "divergences": div, "errors": errors,
            "samples": [meta[0], meta[len(meta) // 2], meta[-1]], "hist": hist}


def power(U, d):
    return float((numpy.abs(U) ** 2).sum() * d * d)


def relerr(a, b):
    a, b = numpy.asarray(a), numpy.asarray(b)
    if a.shape != b.shape or not (numpy.all(numpy.isfinite(a)) and numpy.all(numpy.isfinite(b))):
        return float("inf")
    sc = max(float(numpy.max(numpy.abs(b))), 1e-300)
    return float(numpy.max(numpy.abs(a - b)) / sc)
