"""C03 -- covariance construction is independent of process count and scheduling; no state between builds."""
import math, warnings, time
import numpy
import slopecov_common as scc
from common import hexf, flist2, run_cases
from aotools.turbulence import slopecovariance as sc

PID = "C03"
RULE = ("slope-covariance configurations as in C01 (1-3 sensors, 1-3 layers, all mask kinds); the multi-process path is run under a controlled "
        "Pool that honours only the documented contracts and executes the tasks in adversarial orders (reversed, rotated, random permutations); "
        "correspondence: the matrix assembled by the mp path (captured before mirroring) against the Coq model (1e-6 of max|M|); falsifier: "
        "bitwise comparison of mp builds (thread counts 2,3,5, every schedule) with the single-process build, histories of rebuilds on one object "
        "with the thread count toggled, and (thorough) real process pools with injected delays; non-trivial = at least two tasks per layer; "
        "distinct = distinct (configuration, schedule)")
TRUSTED = ["multiprocessing.Pool.map returns results in submission order (contract; the controlled pool implements it, real pools are exercised in the thorough tier)",
           "model coq/model/SlopeCov.v (assemble_mp / pool_map) hand-written, tied by correspondence"]
ASSUMPTIONS = ["OS scheduling is covered only through the map contract", "Pool objects are never closed by the code: a resource leak over long rebuild histories is reported (descriptor count), not decided"]
PRELUDE = "Definition okm (tol sc : float) (a e : list (list float)) := all_close2 tol sc a e.\n"


_REAL_MPWRAP = sc.wfs_covariance_mpwrap


def _slow_mpwrap(args):
    """module-level (picklable) wrapper injecting a task-dependent delay before the real work"""
    time.sleep((int(abs(float(args[4])) * 1e6) % 7) * 0.003)
    return _REAL_MPWRAP(args)


def bits_equal(a, b):
    a = numpy.ascontiguousarray(a, dtype=numpy.float32); b = numpy.ascontiguousarray(b, dtype=numpy.float32)
    return a.shape == b.shape and numpy.array_equal(a.view(numpy.int32), b.view(numpy.int32))


def orders(rng):
    def reversed_(n): return list(range(n))[::-1]
    def rotated(n): return [(k + 1) % n for k in range(n)] if n else []
    def rand(n):
        p = list(range(n)); rng.shuffle(p); return p
    return [("reversed", reversed_), ("rotated", rotated), ("random", rand)]


def correspond(ctx):
    rng, tier = ctx["rng"], ctx["tier"]
    n = 8 if tier == "quick" else 200
    cases, meta = [], []
    for k in range(n):
        cfg = scc.gen_config(rng, "small")
        name, fn = rng.choice(orders(rng))
        with warnings.catch_warnings():
            warnings.simplefilter("ignore")
            with scc.KvRecorder() as rec, scc.Controlled(fn) as ctl:
                cm = scc.build(cfg, threads=rng.choice([2, 3, 5]))
                cm.make_covariance_matrix()
                log = list(scc.FakePool.log)
        pre = ctl.pre[0]
        D, ws, ls = scc.coq_cfg(cfg)
        scheds = "[" + "; ".join("[" + "; ".join(str(i) for i in s) + "]%nat" for s in log) + "]"
        sca = float(numpy.max(numpy.abs(pre)))
        cases.append("okm %s %s (assemble_mp (FOps %s) %s %s %s %s) %s" % (hexf(1e-6), hexf(sca), rec.table(), D, ws, ls, scheds, flist2(pre.astype(float))))
        ntasks = len(cfg["masks"]) * (len(cfg["masks"]) + 1) // 2
        meta.append({"config": cfg, "schedule_kind": name, "schedules": log, "tasks_per_layer": ntasks, "nontrivial": ntasks >= 2})
    nev, failing, errors = run_cases(PID, scc.IMPORTS, PRELUDE, cases, per_file=1, timeout=900)
    hist = {}
    for m in meta:
        key = "%s tasks=%d layers=%d" % (m["schedule_kind"], m["tasks_per_layer"], len(m["config"]["layers"]))
        hist[key] = hist.get(key, 0) + 1
    div = [dict(meta[i], what="model (assemble_mp with the observed schedules) != implementation") for i in failing]
    return {"cases": nev, "nontrivial": sum(1 for m in meta if m["nontrivial"]), "divergences": div, "errors": errors,
            "samples": [meta[0], meta[-1]], "hist": hist}


def property_checks(inp, rng_orders=None):
    import random
    cfg = inp["config"]
    out = []
    A = out.append
    rr = random.Random(inp["order_seed"])
    def rand(n):
        p = list(range(n)); rr.shuffle(p); return p
    with warnings.catch_warnings():
        warnings.simplefilter("ignore")
        ref = scc.build(cfg, 1).make_covariance_matrix()
        for name, fn in (("reversed", lambda n: list(range(n))[::-1]), ("random", rand)):
            for t in inp["threads"]:
                with scc.Controlled(fn):
                    got = scc.build(cfg, t).make_covariance_matrix()
                A(("mp(%d threads, %s completion order) bit-identical to single process" % (t, name), 0.0 if bits_equal(got, ref) else 1.0, 0.0))
        # the parameters held as float32 arrays or as plain Python lists: the worker processes must compute what the single
        # process computes (the task tuples are pickled; nothing may be converted on the way)
        for kind in ("float32", "list"):
            ck = dict(cfg, param_kind=kind)
            try:
                refk = scc.build(ck, 1).make_covariance_matrix()
            except Exception:
                continue
            with scc.Controlled(rand):
                gotk = scc.build(ck, inp["threads"][0]).make_covariance_matrix()
            A(("mp bit-identical to single process when the parameters are %s" % ("float32 arrays" if kind == "float32" else "Python lists"),
               0.0 if bits_equal(gotk, refk) else 1.0, 0.0))
        # an object re-used with other parameters, rebuilt with another thread count = a fresh object
        import common
        cfgB = scc.perturbed(cfg, common.Rng(inp["order_seed"]))
        with scc.Controlled(rand):
            e_, _ = scc.reuse_error(cfg, cfgB, threads=(inp["threads"][0], 1), how="inplace")
            A(("an object re-used after its parameters were changed gives the matrix of a fresh object (threads %d then 1)" % inp["threads"][0], e_, 0.0))
            e_, _ = scc.reuse_error(cfg, cfgB, threads=(1, inp["threads"][1]), how="replace")
            A(("an object re-used after its parameters were changed gives the matrix of a fresh object (threads 1 then %d)" % inp["threads"][1], e_, 0.0))
        # history on ONE object
        with scc.Controlled(rand):
            obj = scc.build(cfg, 1)
            bad = 0
            trace = []
            for op in inp["history"]:
                if op[0] == "threads":
                    obj.threads = op[1]; trace.append(op)
                elif op[0] == "build":
                    got = obj.make_covariance_matrix(); trace.append(("build", obj.threads))
                    if not bits_equal(got, ref):
                        bad += 1
                else:
                    if hasattr(obj, "covariance_matrix"):
                        try:
                            obj.make_tomographic_reconstructor(svd_conditioning=1e-3)
                        except Exception:
                            pass
                    trace.append(op)
            A(("every rebuild in a history returns the same matrix", float(bad), 0.0))
        if inp.get("real_pool"):
            real = sc.wfs_covariance_mpwrap
            sc.wfs_covariance_mpwrap = _slow_mpwrap
            try:
                for t in (2, 4):
                    got = scc.build(cfg, t).make_covariance_matrix()
                    A(("real pool with %d processes and injected delays bit-identical" % t, 0.0 if bits_equal(got, ref) else 1.0, 0.0))
            finally:
                sc.wfs_covariance_mpwrap = real
    return out


def gen_input(rng, real_pool=False):
    hist = []
    for _ in range(rng.randint(3, 9)):
        r = rng.random()
        if r < 0.4:
            hist.append(["threads", rng.choice([1, 2, 3, 1, 4])])
        elif r < 0.85:
            hist.append(["build"])
        else:
            hist.append(["recon"])
    hist.append(["build"])
    cfg = scc.gen_config(rng, "small")
    if rng.random() < 0.35 and len(cfg["masks"]) >= 2:
        # a low (Rayleigh) beacon that is not the last sensor, and a layer above it: the cone factor of that sensor is <= 0 there
        w_ = rng.randint(0, len(cfg["masks"]) - 2)
        cfg["alt"] = list(cfg["alt"]); cfg["alt"][w_] = rng.uniform(8000, 16000)
        cfg["layers"] = list(cfg["layers"]) + [{"h": cfg["alt"][w_] * rng.uniform(1.06, 1.6), "r0": rng.uniform(0.1, 0.8), "L0": rng.uniform(10, 60)}]
        if rng.random() < 0.5:
            cfg["layers"].append({"h": rng.uniform(0, 6000), "r0": rng.uniform(0.1, 0.8), "L0": rng.uniform(10, 60)})
        cfg["uniform"] = False
    return {"config": cfg, "threads": [2, rng.choice([3, 5, 7])], "order_seed": rng.getrandbits(30),
            "history": hist, "real_pool": real_pool}


def falsify(ctx, deep=False):
    rng = ctx["rng"]
    n = 40 if deep else 8
    viols, worst = [], {}
    for k in range(n):
        inp = gen_input(rng, real_pool=(deep and k % 10 == 0))
        try:
            res = property_checks(inp)
        except Exception as ex:
            res = [("raised %s: %s" % (type(ex).__name__, str(ex)[:80]), float("inf"), 0.0)]
        for clause, err, tol in res:
            worst[clause] = max(worst.get(clause, -1e300), err if math.isfinite(err) else 1e300)
            if not (err <= tol):
                viols.append({"clause": clause, "error": err, "tolerance": tol, "input": inp})
    seen, keep = set(), []
    for v in viols:
        if v["clause"] not in seen:
            seen.add(v["clause"]); keep.append(v)
    return keep, {"evaluations": n, "max_error_per_clause": worst}


def replay(payload):
    v = payload.get("violation")
    if not v:
        print("replay file names a proof/correspondence failure, no input:", payload.get("proof", {}).get("failed_at"))
        return False
    bad = [(c, e, t) for c, e, t in property_checks(v["input"]) if not (e <= t)]
    for c, e, t in bad:
        print("  clause %r: error %g > %g" % (c, e, t))
    return not bad


def classify(v, known):
    return False


def replay_known(known):
    return None
