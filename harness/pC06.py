"""C06 -- seeded screens are reproducible and instances are isolated."""
import math, pickle, random, warnings, copy
import numpy
import common
import recipes as rc
from aotools.turbulence import phasescreen as ps, infinitephasescreen as ips

PID = "C06"
RULE = ("histories over up to three seeded objects (construct, add_row, make_initial_screen again, read), seeded FFT calls and global-generator operations, executed on the implementation and on the Coq state machine (symbolic generator, vm_compute): the partition of all outputs into bit-identical classes must be the model's; further: random interleavings of operations on several screen objects (FFT screen, sub-harmonic screen, infinite von Karman and Fried screens with "
        "add_row / read / repr) with changes of NumPy's and Python's global random state, global draws, unrelated aotools calls and operations on "
        "other instances; the outputs of a target (same seed and parameters) are compared BITWISE with an isolated reproduction; seeds include 0, "
        "numpy integers and large values; the global generator state is compared before/after every aotools call; non-trivial = history with at "
        "least three interleaved foreign operations; distinct = distinct (target, history)")
TRUSTED = ["model coq/model/SeededObjs.v hand-written (generator discipline); tied by the history correspondence", "translate/effects_fp.py footprint table (no global state in the screen modules) -- confirmed dynamically here",
           "numpy.random.Generator is a deterministic state machine private to the object; PCG64 streams of different seeds differ (contract)"]
ASSUMPTIONS = ["'different seeds differ' and 'unseeded calls differ' rest on PCG64 / OS entropy: observed, not proved"]
SEEDS = [0, 1, 5, 12345, 2 ** 31 - 1, 2 ** 40 + 3, "np0", "np7"]


def mkseed(s):
    if s == "np0":
        return numpy.int64(0)
    if s == "np7":
        return numpy.uint32(7)
    return s


def target_ops(rng):
    kind = rng.choice(["ft", "sh", "vk", "fried"])
    seed = rng.choice(SEEDS)
    par = {"r0": rng.uniform(0.1, 0.4), "L0": rng.uniform(10, 60), "ps": rng.uniform(0.05, 0.3)}
    nrows = rng.randint(1, 6)
    return {"kind": kind, "seed": seed, "par": par, "nrows": nrows, "N": rng.choice([6, 8, 9])}


def run_target(t, foreign=None, rng=None):
    """returns the list of arrays the target produces; `foreign(step)` is called between its operations"""
    outs = []
    def gap(k):
        if foreign:
            foreign(k)
    with warnings.catch_warnings():
        warnings.simplefilter("ignore")
        gap(0)
        p = t["par"]; N = t["N"]; seed = mkseed(t["seed"])
        if t["kind"] == "ft":
            outs.append(ps.ft_phase_screen(p["r0"], N if N % 2 == 0 else N + 1, p["ps"], p["L0"], 0.01, seed=seed)); gap(1)
            outs.append(ps.ft_phase_screen(p["r0"], N if N % 2 == 0 else N + 1, p["ps"], p["L0"], 0.01, seed=seed))
        elif t["kind"] == "sh":
            outs.append(ps.ft_sh_phase_screen(p["r0"], N if N % 2 == 0 else N + 1, p["ps"], p["L0"], 0.01, seed=seed)); gap(1)
        else:
            s = (ips.PhaseScreenVonKarman(N, p["ps"], p["r0"], p["L0"], random_seed=seed) if t["kind"] == "vk"
                 else ips.PhaseScreenKolmogorov(N, p["ps"], p["r0"], p["L0"], random_seed=seed, stencil_length_factor=2))
            outs.append(numpy.array(s.scrn, copy=True)); gap(1)
            for k in range(t["nrows"]):
                s.add_row(); outs.append(numpy.array(s.scrn, copy=True)); gap(2 + k)
                _ = s.scrn; _ = repr(s)
                if t.get("touch"):
                    # other library calls applied to the LIVE screen (the array .scrn hands out) between two rows
                    live_screen_calls(s.scrn, k)
            if t.get("reinit"):
                # the public make_initial_screen() called again on the same object: same seed and parameters, so the same
                # initial screen and the same following rows
                s.make_initial_screen(); outs.append(numpy.array(s.scrn, copy=True)); gap(50)
                for k in range(t["nrows"]):
                    s.add_row(); outs.append(numpy.array(s.scrn, copy=True)); gap(51 + k)
    return outs


def live_screen_calls(a, k):
    import aotools
    from aotools.turbulence import slopecovariance as sc_, temporal_ps as tp_
    from aotools.image_processing import centroiders as cen_, psf as psf_, contrast as con_
    from aotools import interpolation as itp_
    calls = [lambda: sc_.calculate_structure_function(a), lambda: sc_.calculate_structure_function(a, nbOfPoint=3, step=2),
             lambda: cen_.centre_of_gravity(a), lambda: cen_.centre_of_gravity(a, threshold=0.3), lambda: cen_.brightest_pixel(a, 0.4),
             lambda: cen_.correlation_centroid(a, a), lambda: con_.rms_contrast(a), lambda: con_.image_contrast(a),
             lambda: aotools.ft2(a, 0.1), lambda: aotools.ift2(a, 0.1), lambda: psf_.azimuthal_average(a),
             lambda: itp_.zoom_rbs(a, (a.shape[0] + 3, a.shape[1] + 3)), lambda: tp_.calc_slope_temporalps(a),
             lambda: sc_.structure_function_vk(numpy.abs(a), 0.2, 20.0), lambda: aotools.phase_covariance(numpy.abs(a) + 0.1, 0.2, 20.0)]
    import contextlib, io
    with contextlib.redirect_stdout(io.StringIO()):
        for j in range(4):
            try:
                calls[(3 * k + 5 * j) % len(calls)]()
            except Exception:
                pass


class Foreign:
    """interleaved operations: other screens (same and different seeds), global generator changes and draws, unrelated calls"""
    def __init__(self, rng):
        self.rng = rng
        self.others = []
        self.log = []
        self.recs = [r for r in rc.recipes(common.Rng(rng.getrandbits(30))) if "optimal_grouping" not in r[0]]
        self.rng_changes = 0
    def __call__(self, step):
        import contextlib, io
        with warnings.catch_warnings(), contextlib.redirect_stdout(io.StringIO()):
            warnings.simplefilter("ignore")
            for _ in range(self.rng.randint(0, 4)):
                op = self.rng.choice(["gseed", "gdraw", "pyrand", "other_new", "other_row", "lib", "ft_other"])
                self.log.append(op)
                if op == "gseed":
                    numpy.random.seed(self.rng.getrandbits(31))
                elif op == "gdraw":
                    numpy.random.normal(size=self.rng.randint(1, 50)); numpy.random.rand()
                elif op == "pyrand":
                    random.seed(self.rng.getrandbits(20)); random.random()
                elif op == "other_new":
                    sd = self.rng.choice(SEEDS + [None])
                    cls = self.rng.choice([ips.PhaseScreenVonKarman, ips.PhaseScreenKolmogorov])
                    self.others.append(cls(self.rng.choice([6, 8, 9]), self.rng.uniform(0.05, 0.3), self.rng.uniform(0.1, 0.4), self.rng.uniform(10, 60), random_seed=None if sd is None else mkseed(sd)))
                elif op == "other_row" and self.others:
                    self.rng.choice(self.others).add_row()
                elif op == "lib":
                    name, f, a, k = self.rng.choice(self.recs)
                    st = pickle.dumps(numpy.random.get_state())
                    try:
                        f(*[x.copy() if isinstance(x, numpy.ndarray) else x for x in a], **k)
                    except Exception:
                        pass
                    if pickle.dumps(numpy.random.get_state()) != st:
                        self.rng_changes += 1
                elif op == "ft_other":
                    ps.ft_phase_screen(0.2, 8, 0.1, 30., 0.01, seed=self.rng.choice([None, 3, 0]))


def bits_same(a, b):
    return len(a) == len(b) and all(x.shape == y.shape and x.tobytes() == y.tobytes() for x, y in zip(a, b))


IMPORTS = ["AOV.model.SeededObjs"]
PRELUDE = """Definition sv_eqb (a b : SV) : bool := Z.eqb (fst (fst a)) (fst (fst b)) && Nat.eqb (snd (fst a)) (snd (fst b)) && Nat.eqb (snd a) (snd b).
Fixpoint lsv_eqb (a b : list SV) : bool := match a, b with [], [] => true | x :: r, y :: s => sv_eqb x y && lsv_eqb r s | _, _ => false end.
Definition ss_eqb (a b : SS) : bool := Nat.eqb (fst (fst a)) (fst (fst b)) && Nat.eqb (snd (fst a)) (snd (fst b)) && lsv_eqb (snd a) (snd b).
Definition okey_eqb (a b : option SS) : bool := match a, b with Some x, Some y => ss_eqb x y | None, None => true | _, _ => false end.
Fixpoint first_idx (k : option SS) (l : list (option SS)) (i : nat) : nat := match l with [] => i | x :: r => if okey_eqb k x then i else first_idx k r (S i) end.
Definition classes (l : list (option SS)) : list nat := map (fun k => first_idx k l 0) l.
Fixpoint nl_eqb (a b : list nat) : bool := match a, b with [], [] => true | x :: r, y :: s => Nat.eqb x y && nl_eqb r s | _, _ => false end.
Definition one (_ : nat) : nat := 1.
Definition hist_ok (ops : list (op nat)) (cls : list nat) : bool := nl_eqb (classes (s_run one one one ops)) cls.
"""
HPARS = [{"kind": "vk", "N": 8, "ps": 0.1, "r0": 0.2, "L0": 20.0}, {"kind": "vk", "N": 8, "ps": 0.1, "r0": 0.3, "L0": 20.0},
         {"kind": "fried", "N": 8, "ps": 0.1, "r0": 0.2, "L0": 20.0}, {"kind": "vk", "N": 9, "ps": 0.2, "r0": 0.2, "L0": 35.0},
         {"kind": "ft", "N": 8, "ps": 0.1, "r0": 0.2, "L0": 20.0}, {"kind": "sh", "N": 8, "ps": 0.1, "r0": 0.2, "L0": 20.0},
         {"kind": "ft", "N": 6, "ps": 0.3, "r0": 0.1, "L0": 50.0}]
HSEEDS = [0, 1, 5, 12345, 2 ** 40 + 3, "np0", "np7"]


def gen_history(rng, nops):
    """a random history over up to three object ids, seeded FFT calls and the global generator (model op list)"""
    ops, alive = [], []
    for _ in range(nops):
        kind = rng.choice(["new", "add", "add", "add", "reinit", "read", "ft", "gseed", "gdraw"])
        if kind == "new" or (kind in ("add", "reinit", "read") and not alive):
            i = rng.randint(0, 2); ops.append(["New", i, rng.choice([0, 1, 2, 3]), rng.choice(HSEEDS)])
            if i not in alive:
                alive.append(i)
        elif kind == "add":
            ops.append(["AddRow", rng.choice(alive)])
        elif kind == "reinit":
            ops.append(["Reinit", rng.choice(alive)])
        elif kind == "read":
            ops.append(["Read", rng.choice(alive)])
        elif kind == "ft":
            ops.append(["Ft", rng.choice([4, 5, 6]), rng.choice(HSEEDS)])
        elif kind == "gseed":
            ops.append(["GSeed", rng.randint(0, 1000)])
        else:
            ops.append(["GDraw", rng.randint(1, 20)])
    return ops


def seed_z(s):
    return 0 if s == "np0" else (7 if s == "np7" else int(s))


def run_history(ops):
    """executes the history on the implementation; returns one bytes value (or None) per operation"""
    objs, outs = {}, []
    with warnings.catch_warnings():
        warnings.simplefilter("ignore")
        for o in ops:
            if o[0] == "New":
                p = HPARS[o[2]]
                cls = ips.PhaseScreenVonKarman if p["kind"] == "vk" else ips.PhaseScreenKolmogorov
                kw = {} if p["kind"] == "vk" else {"stencil_length_factor": 2}
                objs[o[1]] = cls(p["N"], p["ps"], p["r0"], p["L0"], random_seed=mkseed(o[3]), **kw)
                outs.append(numpy.array(objs[o[1]].scrn, copy=True).tobytes())
            elif o[0] == "AddRow":
                objs[o[1]].add_row(); outs.append(numpy.array(objs[o[1]].scrn, copy=True).tobytes())
            elif o[0] == "Reinit":
                objs[o[1]].make_initial_screen(); outs.append(numpy.array(objs[o[1]].scrn, copy=True).tobytes())
            elif o[0] == "Read":
                _ = repr(objs[o[1]]); outs.append(numpy.array(objs[o[1]].scrn, copy=True).tobytes())
            elif o[0] == "Ft":
                p = HPARS[o[1]]
                f = ps.ft_phase_screen if p["kind"] == "ft" else ps.ft_sh_phase_screen
                outs.append(numpy.asarray(f(p["r0"], p["N"], p["ps"], p["L0"], 0.01, seed=mkseed(o[2]))).tobytes())
            elif o[0] == "GSeed":
                numpy.random.seed(o[1]); outs.append(None)
            else:
                numpy.random.normal(size=o[1]); numpy.random.rand(); outs.append(None)
    return outs


def classes_of(outs):
    cls = []
    for i, x in enumerate(outs):
        cls.append(next(j for j in range(i + 1) if outs[j] == x))
    return cls


def coq_ops(ops):
    def one(o):
        if o[0] == "New":
            return "New %d %d (%d)%%Z" % (o[1], o[2], seed_z(o[3]))
        if o[0] == "Ft":
            return "Ft %d (%d)%%Z" % (o[1], seed_z(o[2]))
        if o[0] == "GSeed":
            return "GSeed (%d)%%Z" % o[1]
        return "%s %d" % (o[0], o[1])
    return "([" + "; ".join(one(o) for o in ops) + "])%nat"


def history_cases(rng, n, nops):
    cases, meta = [], []
    for _ in range(n):
        ops = gen_history(rng, rng.randint(4, nops))
        cls = classes_of(run_history(ops))
        cases.append("hist_ok %s ([%s])%%nat" % (coq_ops(ops), "; ".join(str(c) for c in cls)))
        nout = sum(1 for o in ops if o[0] not in ("GSeed", "GDraw"))
        meta.append({"history": ops, "classes": cls, "nontrivial": len(set(c for c, o in zip(cls, ops) if o[0] not in ("GSeed", "GDraw"))) < nout})
    return cases, meta


def correspond(ctx):
    """dynamic confirmation of the footprint table for the screen modules: no aotools screen operation changes the global generators"""
    rng = ctx["rng"]
    n = 12 if ctx["tier"] == "quick" else 240
    st = common.sync_generated()
    ents = [e for e in st.get("Gen_effects", {}).get("entries", []) if e["module"] in ("aotools.turbulence.phasescreen", "aotools.turbulence.infinitephasescreen")]
    div, meta = [], []
    for e in ents:
        if e["global_rng"] or e["globals"]:
            div.append({"function": e["module"] + "." + e["function"], "what": "footprint table: screen code touches process-global state", "notes": e["notes"][:3]})
    for k in range(n):
        t = target_ops(rng)
        st_np = pickle.dumps(numpy.random.get_state()); st_py = random.getstate()
        numpy.random.seed(k); random.seed(k)
        s1 = pickle.dumps(numpy.random.get_state()); s2 = random.getstate()
        run_target(t)
        changed = pickle.dumps(numpy.random.get_state()) != s1 or random.getstate() != s2
        meta.append({"target": t, "global_state_changed": changed, "nontrivial": True})
        if changed:
            div.append({"target": t, "what": "a screen operation changed NumPy's / Python's global generator state although the table says it does not"})
    # histories against the state-machine model (coq/model/SeededObjs.v, run symbolically by vm_compute): the partition of the
    # outputs into bit-identical classes must be the partition the model computes (same object history <=> same output)
    hc, hm = history_cases(rng, 40 if ctx["tier"] == "quick" else 600, 14 if ctx["tier"] == "quick" else 30)
    nev, failing, errors = common.run_cases(PID, IMPORTS, PRELUDE, hc, per_file=100)
    for i in failing:
        div.append({"what": "history: the implementation's outputs are not partitioned as the model says (same seed and own history <=> bit-identical)",
                    "history": hm[i]["history"], "implementation_classes": hm[i]["classes"]})
    return {"cases": len(meta) + len(ents) + nev, "nontrivial": len(meta) + sum(1 for m in hm if m["nontrivial"]), "divergences": div, "errors": errors,
            "samples": [meta[0], meta[-1], hm[0]], "hist": {"table_entries_checked": len(ents), "dynamic_targets": len(meta), "model_histories": len(hm),
                                                            "history_ops": sum(len(m["history"]) for m in hm)}}


def isolated_reference(t):
    """the target's outputs computed in a fresh interpreter (no other screen has ever been created there)"""
    import subprocess, sys, json, os, base64
    code = ("import sys, json, pickle, base64; sys.path.insert(0, %r); sys.path.insert(0, %r); import pC06; "
            "t = json.loads(sys.argv[1]); sys.stdout.write(base64.b64encode(pickle.dumps(pC06.run_target(t))).decode())"
            % (os.path.dirname(os.path.abspath(__file__)), common.REPO))
    p = subprocess.run([sys.executable, "-c", code, json.dumps(t)], capture_output=True, text=True, timeout=300,
                       env=dict(os.environ, PYTHONHASHSEED="0"))
    if p.returncode != 0:
        raise RuntimeError("reference subprocess failed: " + p.stderr[-300:])
    return pickle.loads(base64.b64decode(p.stdout.strip().split()[-1]))


def property_checks(inp):
    import random as pyr
    out = []
    A = out.append
    t = inp["target"]
    if inp.get("fresh_process_reference") and t["kind"] in ("vk", "fried"):
        # a sibling (same class, size, pixel scale, L0; other r0) is created FIRST in this process; the target must still
        # produce what it produces in a fresh interpreter
        t2 = copy.deepcopy(t); t2["par"]["r0"] *= 1.7; t2["seed"] = 99
        run_target(t2)
        here = run_target(t)
        A(("same as in a fresh process although a sibling screen (other r0) was created first (%s target)" % t["kind"],
           0.0 if bits_same(isolated_reference(t), here) else 1.0, 0.0))
    ref = run_target(t)
    again = run_target(t)
    A(("same seed and parameters give bit-identical screens and rows", 0.0 if bits_same(ref, again) else 1.0, 0.0))
    f = Foreign(common.Rng(inp["foreign_seed"]))
    inter = run_target(t, foreign=f)
    A(("bit-identical whatever is interleaved (%s target)" % t["kind"], 0.0 if bits_same(ref, inter) else 1.0, 0.0))
    A(("unrelated aotools calls leave the global generator alone", float(f.rng_changes), 0.0))
    # fresh-process-like order: another screen of the same class and geometry but other r0 / pixel scale created first
    for what, fr0, fps in (("r0", 1.7, 1.0), ("pixel scale", 1.0, 1.3), ("r0 and pixel scale", 0.6, 0.8)):
        t2 = copy.deepcopy(t); t2["par"]["r0"] *= fr0; t2["par"]["ps"] *= fps; t2["seed"] = 99
        run_target(t2)
        A(("independent of an instance with another %s created before (%s target)" % (what, t["kind"]), 0.0 if bits_same(ref, run_target(t)) else 1.0, 0.0))
    if t["kind"] in ("vk", "fried"):
        t4 = copy.deepcopy(t); t4["reinit"] = True
        both = run_target(t4, foreign=Foreign(common.Rng(inp["foreign_seed"] + 1)))
        h = len(both) // 2
        A(("make_initial_screen() called again on a seeded object re-makes the same initial screen and the same rows (%s target)" % t["kind"],
           0.0 if (bits_same(both[:h], both[h:]) and bits_same(both[:h], ref)) else 1.0, 0.0))
    if t["kind"] in ("vk", "fried"):
        t5 = copy.deepcopy(t); t5["touch"] = True
        A(("rows do not depend on library calls made on the live screen array between them (%s target)" % t["kind"], 0.0 if bits_same(run_target(t5), ref) else 1.0, 0.0))
    if t["kind"] in ("vk", "fried"):
        # a deep copy (and a pickled-and-restored copy) of a seeded screen is a screen of its own: the copy and the original each
        # continue with the rows a fresh screen with that seed and history gives, whatever the other one does in between
        import copy as _copy
        with warnings.catch_warnings():
            warnings.simplefilter("ignore")
            p_, N_ = t["par"], t["N"]
            def fresh():
                return (ips.PhaseScreenVonKarman(N_, p_["ps"], p_["r0"], p_["L0"], random_seed=mkseed(t["seed"])) if t["kind"] == "vk"
                        else ips.PhaseScreenKolmogorov(N_, p_["ps"], p_["r0"], p_["L0"], random_seed=mkseed(t["seed"]), stencil_length_factor=2))
            ref_s = fresh(); ref_rows = [numpy.array(ref_s.add_row(), copy=True) for _ in range(5)]
            bad_c = 0
            for cname, mk in (("deepcopy", _copy.deepcopy), ("pickle", lambda o: pickle.loads(pickle.dumps(o)))):
                o_ = fresh(); o_.add_row()
                c_ = mk(o_)
                got_o, got_c = [], []
                for k in range(4):                      # interleaved: original, copy, original, copy ...
                    got_o.append(numpy.array(o_.add_row(), copy=True)); got_c.append(numpy.array(c_.add_row(), copy=True))
                bad_c += 0 if (bits_same(got_o, ref_rows[1:]) and bits_same(got_c, ref_rows[1:])) else 1
        A(("a deep-copied / pickled screen and its original each continue with the rows of a fresh screen of that seed (%s target)" % t["kind"], float(bad_c), 0.0))
    # different seeds differ, unseeded calls differ
    t3 = copy.deepcopy(t); t3["seed"] = 424242 if t["seed"] != 424242 else 7
    other = run_target(t3)
    A(("different seeds give different screens", 0.0 if not bits_same(ref[:1], other[:1]) else 1.0, 0.0))
    # ... also large seeds that differ only in their low bits (nanosecond time stamps, 64- and 128-bit entropy values)
    same_big = 0
    for sa, sb in ((2 ** 53 + 1, 2 ** 53 + 2), (1759400000123456789, 1759400000123456790), (2 ** 64 + 5, 2 ** 64 + 6), (2 ** 127 + 1, 2 ** 127 + 3)):
        ta, tb = copy.deepcopy(t), copy.deepcopy(t)
        ta["seed"], tb["seed"] = sa, sb; ta["nrows"] = tb["nrows"] = 1
        same_big += int(bits_same(run_target(ta)[:1], run_target(tb)[:1]))
    A(("large seeds differing only in the low bits give different screens (%s target)" % t["kind"], float(same_big), 0.0))
    with warnings.catch_warnings():
        warnings.simplefilter("ignore")
        u1 = ps.ft_phase_screen(0.2, 8, 0.1, 30., 0.01); u2 = ps.ft_phase_screen(0.2, 8, 0.1, 30., 0.01)
        v1 = ps.ft_sh_phase_screen(0.2, 8, 0.1, 30., 0.01); v2 = ps.ft_sh_phase_screen(0.2, 8, 0.1, 30., 0.01)
    A(("unseeded calls differ from each other", 0.0 if (not numpy.array_equal(u1, u2) and not numpy.array_equal(v1, v2)) else 1.0, 0.0))
    # unseeded calls take their entropy from the OS: they neither advance NumPy's global generator nor follow it
    def unseeded_all():
        o = [ps.ft_phase_screen(0.2, 8, 0.1, 30., 0.01), ps.ft_sh_phase_screen(0.2, 8, 0.1, 30., 0.01)]
        for cls, kw in ((ips.PhaseScreenVonKarman, {}), (ips.PhaseScreenKolmogorov, {"stencil_length_factor": 2})):
            s_ = cls(8, 0.1, 0.2, 20., **kw); o.append(numpy.array(s_.scrn, copy=True)); s_.add_row(); o.append(numpy.array(s_.scrn, copy=True))
        return o
    with warnings.catch_warnings():
        warnings.simplefilter("ignore")
        numpy.random.seed(inp["foreign_seed"] % 1000); random.seed(3)
        st0 = pickle.dumps(numpy.random.get_state()); sp0 = random.getstate()
        w1 = unseeded_all()
        moved = pickle.dumps(numpy.random.get_state()) != st0 or random.getstate() != sp0
        numpy.random.seed(inp["foreign_seed"] % 1000); random.seed(3)
        w2 = unseeded_all()
    A(("unseeded calls leave NumPy's and Python's global generators where they were", 1.0 if moved else 0.0, 0.0))
    A(("unseeded calls differ even when the global generator is re-seeded identically before them",
       float(sum(1 for x, y in zip(w1, w2) if numpy.array_equal(x, y))), 0.0))
    return out


def falsify(ctx, deep=False):
    rng = ctx["rng"]
    n = 60 if deep else 12
    viols, worst = [], {}
    inputs = []
    # boundary seeds for every kind of screen, always
    for kind in ("ft", "sh", "vk", "fried"):
        for sd in (0, "np0"):
            t = target_ops(rng); t["kind"] = kind; t["seed"] = sd
            inputs.append({"target": t, "foreign_seed": rng.getrandbits(30)})
    for _ in range(n):
        inputs.append({"target": target_ops(rng), "foreign_seed": rng.getrandbits(30)})
    for kind in ("vk", "fried"):
        t = target_ops(rng); t["kind"] = kind
        inputs.insert(0, {"target": t, "foreign_seed": rng.getrandbits(30), "fresh_process_reference": True})
    for inp in inputs:
        try:
            res = property_checks(inp)
        except Exception as ex:
            res = [("raised %s: %s" % (type(ex).__name__, str(ex)[:80]), float("inf"), 0.0)]
        for clause, err, tol in res:
            worst[clause] = max(worst.get(clause, -1e300), err if math.isfinite(err) else 1e300)
            if not (err <= tol):
                viols.append({"clause": clause, "error": err, "tolerance": tol, "input": inp})
    seen, keep = set(), []
    for v in viols:
        if v["clause"] not in seen:
            seen.add(v["clause"]); keep.append(v)
    return keep, {"evaluations": n, "max_error_per_clause": worst}


def replay(payload):
    v = payload.get("violation")
    if not v:
        print("replay file names a proof/correspondence failure, no input:", payload.get("proof", {}).get("failed_at"))
        return False
    bad = [(c, e, t) for c, e, t in property_checks(v["input"]) if not (e <= t)]
    for c, e, t in bad:
        print("  clause %r violated" % c)
    return not bad


def classify(v, known):
    return False


def replay_known(known):
    return None
