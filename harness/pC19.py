"""C19 -- empirical estimators implement their definitions."""
import math, warnings
import numpy
from common import hexf, flist, flist2, run_cases
from aotools.turbulence import slopecovariance as sc, temporal_ps as tp

PID = "C19"
RULE = ("structure function: 2-D arrays 4..24 rows x 4..24 columns (ramps, sinusoids, random, integer-valued), steps 1..4, nbOfPoint default and "
        "explicit; temporal spectrum: slope arrays with 0-2 leading axes, 4..32 frames (odd and even), 1..6 centroids, sinusoids at exact bins "
        "and random data, frame rates 1..2000 Hz; every output sample compared with the Coq model at binary64 (1e-9 of max|out|); non-trivial = "
        "output not constant; distinct = distinct data")
TRUSTED = ["model coq/model/Estim.v hand-written; numpy.fft.fft along the frame axis = explicit DFT of every column (compared, not assumed)",
           "software sin/cos of FloatFun.v (model execution only)"]
ASSUMPTIONS = ["real-number reading; 'follows the analytic structure function on generated screens' and 'peaks at the bin of a sinusoid' are only tested numerically"]
IMPORTS = ["AOV.base.Cplx", "AOV.model.Estim"]
PRELUDE = """Definition F := FOps [].
Definition okl (sc : float) (a e : list float) := all_close 0x1.12e0be826d695p-30 sc a e.
"""


def correspond(ctx):
    rng, tier = ctx["rng"], ctx["tier"]
    npr = rng.nprng()
    n = 40 if tier == "quick" else 1600
    cases, meta = [], []
    for _ in range(n):
        R, C = rng.randint(4, 24), rng.randint(4, 24)
        if rng.random() < 0.5:
            C = R
        kind = rng.choice(["random", "ramp", "int", "sin"])
        if kind == "random":
            ph = npr.normal(size=(R, C))
        elif kind == "ramp":
            ph = rng.uniform(-3, 3) * numpy.arange(R)[:, None] + npr.normal(size=(1, C))
        elif kind == "int":
            ph = npr.integers(-5, 6, size=(R, C)).astype(float)
        else:
            ph = numpy.sin(2 * numpy.pi * rng.randint(1, 3) * numpy.arange(R) / R)[:, None] * numpy.ones((1, C))
        step = rng.choice([None, 1, 1, 2, 3, 4])
        nb = rng.choice([None, None, rng.randint(1, 8)])
        st = 1 if step is None else step
        if rng.random() < 0.25:
            # wide array with an explicit number of points: the largest requested lag is rows-1 (or the last multiple of step below it)
            R = rng.randint(2, 9); nb = (R - 1) // st + 1; C = st * (nb + 1) + rng.randint(0, 4)
            ph = npr.normal(size=(R, C)); kind = "wide, lags up to rows-1"
        nbv = C / 4 if nb is None else nb
        xm = int(min(nbv, C / st - 1))
        if xm < 0 or (xm - 1) * st >= R:
            continue            # numpy.empty(negative) raises / empty slices: outside the domain (lags must fit the array)
        with warnings.catch_warnings():
            warnings.simplefilter("ignore")
            out = sc.calculate_structure_function(ph, nbOfPoint=nb, step=step)
        sca = float(numpy.max(numpy.abs(out))) if out.size else 0.0
        cases.append("okl %s (calc_sf F %s %s %d) %s" % (hexf(sca), flist2(ph), hexf(float(nbv)), st, flist(out)))
        meta.append({"fn": "calculate_structure_function", "shape": [R, C], "step": step, "nbOfPoint": nb, "kind": kind, "xm": xm,
                     "nontrivial": bool(out.size > 1 and numpy.ptp(out) > 0)})
    for _ in range(n):
        nfr, nc = rng.randint(4, 20 if tier == "quick" else 32), rng.randint(1, 6)
        lead = rng.choice([(), (), (2,), (2, 2)])
        kind = rng.choice(["random", "sin"])
        if kind == "random":
            d = npr.normal(size=lead + (nfr, nc))
        else:
            kbin = rng.randint(1, max(1, nfr // 2 - 1))
            d = numpy.sin(2 * numpy.pi * kbin * numpy.arange(nfr) / nfr + rng.uniform(0, 6))[:, None] * npr.uniform(0.5, 2, size=lead + (1, nc))
        m, e = tp.calc_slope_temporalps(d)
        d2 = d.reshape((-1, nfr, nc)); m2 = numpy.asarray(m).reshape((-1, nfr // 2)); e2 = numpy.asarray(e).reshape((-1, nfr // 2))
        for dd, mm, ee in zip(d2, m2, e2):
            sca = float(numpy.max(numpy.abs(mm))) if mm.size else 0.0
            cases.append("okl %s (mean_tps F %s) %s" % (hexf(sca), flist2(dd), flist(mm)))
            meta.append({"fn": "calc_slope_temporalps.mean", "frames": nfr, "centroids": nc, "lead": list(lead), "kind": kind,
                         "nontrivial": bool(mm.size > 1 and numpy.ptp(mm) > 0)})
            cases.append("okl %s (tps_err F %s) %s" % (hexf(sca), flist2(dd), flist(ee)))
            meta.append({"fn": "calc_slope_temporalps.err", "frames": nfr, "centroids": nc, "lead": list(lead), "kind": kind,
                         "nontrivial": bool(ee.size > 1 and numpy.ptp(ee) > 0)})
        rate = rng.loguniform(1, 2000)
        ax = tp.get_tps_time_axis(rate, nfr)
        cases.append("okl %s (tps_axis F %s %d) %s" % (hexf(rate), hexf(rate), nfr, flist(ax)))
        meta.append({"fn": "get_tps_time_axis", "frames": nfr, "rate": rate, "nontrivial": bool(len(ax) > 1)})
    nev, failing, errors = run_cases(PID, IMPORTS, PRELUDE, cases, per_file=40)
    hist = {}
    for m in meta:
        key = m["fn"] + "/" + str(m.get("kind", ""))
        hist[key] = hist.get(key, 0) + 1
    div = [dict(meta[i], what="model != implementation") for i in failing]
    return {"cases": nev, "nontrivial": sum(1 for m in meta if m["nontrivial"]), "divergences": div, "errors": errors,
            "samples": [meta[0], meta[len(meta) // 2], meta[-1]], "hist": hist}


def property_checks(inp):
    npr = numpy.random.default_rng(inp["data_seed"])
    out = []
    A = out.append
    R, C, step = inp["R"], inp["C"], inp["step"]
    ph = npr.normal(size=(R, C))
    xm = int(min(C / 4, C / step - 1))
    if xm >= 1 and (xm - 1) * step < R:
        sf = sc.calculate_structure_function(ph, step=step)
        want = numpy.array([0.0] + [numpy.mean((ph[:-j * step] - ph[j * step:]) ** 2) for j in range(1, xm)])
        A(("sf = mean squared lag difference, 0 at lag 0 (step %d)" % step, float(numpy.max(numpy.abs(sf - want))) if sf.shape == want.shape else float("inf"), 1e-12))
        a = inp["a"]
        ramp = a * numpy.arange(R)[:, None] + npr.normal(size=(1, C))
        sfr = sc.calculate_structure_function(ramp, step=step)
        wr = numpy.array([a * a * (j * step) ** 2 for j in range(xm)])
        A(("sf exact on a ramp (step %d)" % step, float(numpy.max(numpy.abs(sfr - wr) / (1e-300 + numpy.maximum(1, wr)))), 1e-9))
        s = inp["s"]
        A(("sf quadratic in amplitude", float(numpy.max(numpy.abs(sc.calculate_structure_function(s * ph, step=step) - s * s * sf)) / (1e-300 + s * s * numpy.max(sf))) if numpy.max(sf) > 0 else 0.0, 1e-9))
        # sf must not depend on what was computed before (no stale memory at lag 0)
        junk = numpy.full(xm, 7.0); del junk
        A(("sf[0] == 0", abs(float(sc.calculate_structure_function(ph, step=step)[0])), 0.0))
    # explicit number of points on a wide array: every lag up to rows-1 (one overlapping pair of rows) is requested and defined
    R2 = inp.get("R2", 5); jmax = (R2 - 1) // step; nb = jmax + 1
    C2 = step * (nb + 1) + inp.get("Cextra", 2)
    wide = npr.normal(size=(R2, C2))
    sfw = sc.calculate_structure_function(wide, nbOfPoint=nb, step=step)
    wantw = numpy.array([0.0] + [numpy.mean((wide[:-j * step] - wide[j * step:]) ** 2) for j in range(1, nb)])
    A(("sf with an explicit number of points = mean squared lag difference at every lag up to rows-1 (step %d)" % step,
       float(numpy.max(numpy.abs(sfw - wantw))) if sfw.shape == wantw.shape else float("inf"), 1e-12))
    # temporal power spectrum
    nfr, nc = inp["nfr"], inp["nc"]; lead = tuple(inp["lead"])
    d = npr.normal(size=lead + (nfr, nc))
    m, e = tp.calc_slope_temporalps(d)
    X = numpy.fft.fft(d, axis=-2)
    P = numpy.abs(X) ** 2
    A(("tps = mean |FFT|^2 over centroids", float(numpy.max(numpy.abs(m - P[..., :nfr // 2, :].mean(-1))) / numpy.max(P)), 1e-12))
    A(("tps_err = std/sqrt(n)", float(numpy.max(numpy.abs(e - P[..., :nfr // 2, :].std(-1) / numpy.sqrt(nc))) / numpy.max(P)), 1e-12))
    # phase maps in detector counts (int16 / int32) give the values of the same numbers as floats (no sum may wrap)
    for dt_, amp_ in ((numpy.int32, 3000), (numpy.int16, 150)):
        pi_ = npr.integers(-amp_, amp_ + 1, size=(48, 40)).astype(dt_)
        A(("structure function of an %s phase map = that of the same values as float64" % numpy.dtype(dt_).name,
           float(numpy.max(numpy.abs(sc.calculate_structure_function(pi_, step=1) - sc.calculate_structure_function(pi_.astype(float), step=1)))
                 / numpy.max(sc.calculate_structure_function(pi_.astype(float), step=1))), 1e-12))
    # complex slope data (x + i y packed): left untouched, read-only accepted, a second call gives the same spectrum
    zc = npr.normal(size=(16, 5)) + 1j * npr.normal(size=(16, 5)); zk_ = zc.copy()
    m_a, _ = tp.calc_slope_temporalps(zc); m_b, _ = tp.calc_slope_temporalps(zc)
    zro = zk_.copy(); zro.setflags(write=False)
    try:
        m_r, _ = tp.calc_slope_temporalps(zro); ro_ok = numpy.array_equal(m_r, m_a)
    except Exception:
        ro_ok = False
    Pz = numpy.abs(numpy.fft.fft(zk_, axis=0)) ** 2
    A(("temporal spectrum of complex slopes: data untouched, read-only accepted, second call equal, = mean |FFT|^2",
       (0.0 if (numpy.array_equal(zc, zk_) and ro_ok and numpy.array_equal(m_a, m_b)) else 1.0) + float(numpy.max(numpy.abs(m_a - Pz[:8].mean(-1))) / numpy.max(Pz)), 1e-12))
    # a full-size sensor: hundreds of sub-apertures of very unequal power (the mean is over ALL of them, each weighing the same)
    ncb = inp.get("nc_big", 300)
    db = npr.normal(size=(16, ncb)) * (10.0 ** npr.uniform(-2, 2, size=ncb))[None, :]
    mb, eb = tp.calc_slope_temporalps(db)
    Pb = numpy.abs(numpy.fft.fft(db, axis=0)) ** 2
    A(("tps = mean |FFT|^2 over %s sub-apertures of unequal power" % ("> 256" if ncb > 256 else "many"), float(numpy.max(numpy.abs(mb - Pb[:8].mean(-1))) / numpy.max(Pb[:8].mean(-1))), 1e-12))
    A(("tps_err = std/sqrt(n) over many sub-apertures", float(numpy.max(numpy.abs(eb - Pb[:8].std(-1) / numpy.sqrt(ncb))) / numpy.max(Pb[:8].std(-1))), 1e-12))
    s = inp["s"]
    m2, _ = tp.calc_slope_temporalps(s * d)
    A(("tps quadratic in amplitude", float(numpy.max(numpy.abs(m2 - s * s * m)) / (s * s * numpy.max(m))), 1e-9))
    # Parseval for real data, even n: sum_t x^2 = (1/n) [P0 + 2 sum_{0<k<n/2} P_k + P_{n/2}]; tps holds k < n/2
    if nfr % 2 == 0:
        lhs = (d ** 2).sum(-2).mean(-1)
        Pn2 = (numpy.abs(X[..., nfr // 2, :]) ** 2).mean(-1)
        rhs = (m[..., 0] + 2 * m[..., 1:].sum(-1) + Pn2) / nfr
        A(("Parseval", float(numpy.max(numpy.abs(lhs - rhs) / lhs)), 1e-9))
    kbin = inp["kbin"] % max(1, nfr // 2 - 1) + 1 if nfr >= 6 else None
    if kbin is not None and kbin < nfr // 2:
        sig = numpy.sin(2 * numpy.pi * kbin * numpy.arange(nfr) / nfr + 0.3)[:, None] * numpy.ones((1, nc))
        ms, _ = tp.calc_slope_temporalps(sig)
        A(("peak at the sinusoid's bin", 0.0 if int(numpy.argmax(ms)) == kbin else 1.0, 0.0))
        rate = inp["rate"]
        ax = tp.get_tps_time_axis(rate, nfr)
        A(("peak frequency = k*rate/n", abs(ax[int(numpy.argmax(ms))] - kbin * rate / nfr) / rate, 1e-12))
    rate = inp["rate"]
    ax = tp.get_tps_time_axis(rate, nfr)
    A(("axis = k*rate/n, n/2 entries/%s" % ("odd" if nfr % 2 else "even"),
       float(numpy.max(numpy.abs(ax - numpy.arange(nfr // 2) * rate / nfr)) / rate) if len(ax) == nfr // 2 else float("inf"), 1e-12))
    return out


def screens_follow_analytic(base):
    """'applied to generated screens it follows the analytic structure function': the estimator averaged over 60 seeded
    sub-harmonic screens (both axes) against structure_function_vk, outer scales larger than the 6.4 m screen; on the unchanged
    tree the ratio stays within 0.88 .. 1.06 at every lag up to a quarter of the screen"""
    from aotools.turbulence import phasescreen as ps_
    out = []
    N, delta, r0, l0, n = 64, 0.1, 0.15, 0.01, 60
    with warnings.catch_warnings():
        warnings.simplefilter("ignore")
        for L0 in (25.0, 100.0):
            acc = 0
            for k in range(n):
                scr = ps_.ft_sh_phase_screen(r0, N, delta, L0, l0, seed=base + k)
                acc = acc + sc.calculate_structure_function(scr) + sc.calculate_structure_function(scr.T.copy())
            sf = acc / (2 * n)
            an = sc.structure_function_vk(numpy.arange(1, len(sf)) * delta, r0, L0)
            ratio = sf[1:] / an
            out.append(("estimator on generated screens follows the analytic structure function (L0 = %g m, 60 screens)" % L0,
                        float(max(ratio.max() - 1.0, 1.0 - ratio.min())), 0.2))
    return out


def gen_input(rng):
    return {"R": rng.randint(6, 40), "C": rng.randint(8, 40), "step": rng.randint(1, 4), "a": rng.uniform(-3, 3), "s": rng.uniform(0.3, 4),
            "nfr": rng.randint(4, 64), "nc": rng.randint(1, 8), "lead": list(rng.choice([(), (2,), (2, 3)])), "kbin": rng.randint(0, 30),
            "rate": rng.loguniform(1, 2000), "R2": rng.randint(2, 12), "nc_big": rng.choice([257, 300, 700, 130, 512, 1000]), "Cextra": rng.randint(0, 6), "data_seed": rng.getrandbits(32)}


def falsify(ctx, deep=False):
    rng = ctx["rng"]
    n = 300 if deep else 50
    viols, worst = [], {}
    for _ in range(n):
        inp = gen_input(rng)
        try:
            res = property_checks(inp)
        except Exception as ex:
            res = [("raised %s: %s" % (type(ex).__name__, str(ex)[:60]), float("inf"), 0.0)]
        for clause, err, tol in res:
            worst[clause] = max(worst.get(clause, -1e300), err if math.isfinite(err) else 1e300)
            if not (err <= tol):
                viols.append({"clause": clause, "error": err, "tolerance": tol, "input": inp})
    base = 0 if not deep else rng.randint(0, 10 ** 6)
    try:
        res = screens_follow_analytic(base)
    except Exception as ex:
        res = [("raised %s: %s" % (type(ex).__name__, str(ex)[:80]), float("inf"), 0.0)]
    for clause, err, tol in res:
        worst[clause] = max(worst.get(clause, -1e300), err if math.isfinite(err) else 1e300)
        if not (err <= tol):
            viols.append({"clause": clause, "error": err, "tolerance": tol, "input": {"screens_base_seed": base}})
    seen, keep = set(), []
    for v in viols:
        if v["clause"] not in seen:
            seen.add(v["clause"]); keep.append(v)
    return keep, {"evaluations": n, "max_error_per_clause": worst}


def replay(payload):
    v = payload.get("violation")
    if not v:
        print("replay file names a proof/correspondence failure, no input:", payload.get("proof", {}).get("failed_at"))
        return False
    bad = [(c, e, t) for c, e, t in (screens_follow_analytic(v["input"]["screens_base_seed"]) if "screens_base_seed" in v["input"] else property_checks(v["input"])) if not (e <= t)]
    for c, e, t in bad:
        print("  clause %r: error %g > %g" % (c, e, t))
    return not bad


def classify(v, known):
    if known["id"] == "C19-sf-int16-overflow":
        return v["clause"] == "structure function of an int16 phase map = that of the same values as float64"
    return False


def replay_known(known):
    if known["id"] == "C19-sf-int16-overflow":
        a = numpy.array([[0] * 4, [300] * 4, [0] * 4, [300] * 4], dtype=numpy.int16)
        with warnings.catch_warnings():
            warnings.simplefilter("ignore")
            got = sc.calculate_structure_function(a, nbOfPoint=2, step=1)
        return abs(float(got[1]) - 90000.0) > 1e-6
    return None
