"""C10 -- optical propagators are linear and conserve power."""
import math
import numpy
import optics_common as oc
from aotools import opticalpropagation as op

PID = "C10"
RULE = ("random complex fields on N x N grids, N in {2,4,6,8}(+10,12 thorough), wavelengths 0.4-2 um, spacings 0.1-10 mm, magnifications "
        "0.3-3 and exactly 1, distances of both signs around Fresnel number 1, focal lengths of both signs; every output pixel of the four "
        "propagators compared with the Coq model at binary64 (1e-8 of max|out|); non-trivial = finite non-zero output")
TRUSTED = ["model coq/model/Optics.v hand-written; numpy.exp(1j t) = (cos t, sin t); fouriertransform.ft2/ift2 as in model/Fourier.v (C09)",
           "software sin/cos of coq/base/FloatFun.v (execution of the model only)"]
ASSUMPTIONS = ["complex-number reading (rounding not verified)", "linearity is checked by correspondence and by the falsifier, the Coq theorems cover power conservation"]


def correspond(ctx):
    return oc.gen_cases(ctx["rng"], ctx["tier"], PID)


def property_checks(inp):
    npr = numpy.random.default_rng(inp["data_seed"])
    N, wvl, d1, mag, z, f = inp["N"], inp["wvl"], inp["d1"], inp["mag"], inp["z"], inp["f"]
    d2 = d1 * mag
    U = oc.rand_field(npr, N); V = oc.rand_field(npr, N)
    U0, V0 = U.copy(), V.copy()
    a, b = complex(*inp["a"]), complex(*inp["b"])
    out = []
    A = out.append
    P0 = oc.power(U, d1)
    tagm = "mag=1" if mag == 1.0 else "mag!=1"
    o = op.angularSpectrum(U, wvl, d1, d2, z)
    A(("power angularSpectrum/%s" % tagm, abs(oc.power(o, d2) / P0 - 1), 1e-9))
    A(("linear angularSpectrum", oc.relerr(op.angularSpectrum(a * U + b * V, wvl, d1, d2, z), a * o + b * op.angularSpectrum(V, wvl, d1, d2, z)), 1e-9))
    o = op.oneStepFresnel(U, wvl, d1, z)
    A(("power oneStepFresnel", abs(oc.power(o, wvl * abs(z) / (N * d1)) / P0 - 1), 1e-9))
    A(("linear oneStepFresnel", oc.relerr(op.oneStepFresnel(a * U + b * V, wvl, d1, z), a * o + b * op.oneStepFresnel(V, wvl, d1, z)), 1e-9))
    o = op.twoStepFresnel(U, wvl, d1, d2, z)
    A(("power twoStepFresnel/%s/pyfloat" % tagm, abs(oc.power(o, d2) / P0 - 1), 1e-9))
    A(("linear twoStepFresnel", oc.relerr(op.twoStepFresnel(a * U + b * V, wvl, d1, d2, z), a * o + b * op.twoStepFresnel(V, wvl, d1, d2, z)), 1e-9))
    with numpy.errstate(all="ignore"):
        o = op.twoStepFresnel(U, numpy.float64(wvl), numpy.float64(d1), numpy.float64(d2), numpy.float64(z))
    pw = oc.power(o, d2) / P0 if numpy.all(numpy.isfinite(o)) else float("inf")
    A(("power twoStepFresnel/%s/npfloat" % tagm, abs(pw - 1), 1e-9))
    o = op.lensAgainst(U, wvl, d1, f)
    A(("power lensAgainst", abs(oc.power(o, wvl * abs(f) / (N * d1)) / P0 - 1), 1e-9))
    A(("linear lensAgainst", oc.relerr(op.lensAgainst(a * U + b * V, wvl, d1, f), a * o + b * op.lensAgainst(V, wvl, d1, f)), 1e-9))
    # the field given with a real dtype (float64 / float32 / integer aperture mask) is the same field
    Ur = numpy.round(U.real * 3)
    for nm_, Ux in (("float64", Ur.astype(numpy.float64)), ("float32", Ur.astype(numpy.float32)), ("int64", Ur.astype(numpy.int64))):
        for pn, f_, args_ in (("angularSpectrum", op.angularSpectrum, (wvl, d1, d2, z)), ("oneStepFresnel", op.oneStepFresnel, (wvl, d1, z)),
                              ("twoStepFresnel", op.twoStepFresnel, (wvl, d1, d2, z)), ("lensAgainst", op.lensAgainst, (wvl, d1, f))):
            A(("%s of a %s field = that of the same field as complex" % (pn, nm_), oc.relerr(f_(Ux, *args_), f_(Ur.astype(complex), *args_)), 1e-6 if nm_ == "float32" else 1e-12))
    # a very short (but non-zero) distance is still a propagation: power conserved with the output spacing
    zt = inp.get("ztiny", 1e-9)
    o = op.angularSpectrum(U, wvl, d1, d2, zt)
    A(("power angularSpectrum/tiny z/%s" % tagm, abs(oc.power(o, d2) / P0 - 1), 1e-9))
    # repeated call with the same geometry returns the same field (power must not drift)
    o1 = op.angularSpectrum(U, wvl, d1, d2, z); o2 = op.angularSpectrum(U, wvl, d1, d2, z)
    A(("angularSpectrum repeatable", oc.relerr(o2, o1), 0.0))
    # the caller's fields are still the fields that were passed in (power balance and linearity are statements about them)
    A(("every propagator leaves the input field untouched", 0.0 if (numpy.array_equal(U, U0) and numpy.array_equal(V, V0)) else 1.0, 0.0))
    for pn, f_, args_ in (("angularSpectrum", op.angularSpectrum, (wvl, d1, d2, z)), ("oneStepFresnel", op.oneStepFresnel, (wvl, d1, z)),
                          ("twoStepFresnel", op.twoStepFresnel, (wvl, d1, d2, z)), ("lensAgainst", op.lensAgainst, (wvl, d1, f))):
        W = U0.copy(); r1 = f_(W, *args_); same_in = numpy.array_equal(W, U0); r2 = f_(W, *args_)
        A(("%s: input untouched and a second call on the same field gives the same result" % pn, 0.0 if (same_in and numpy.array_equal(r1, r2, equal_nan=True)) else 1.0, 0.0))
    return out


def gen_input(rng):
    # grid sizes: small and round ones, any size up to 80, and the FFT-unfriendly even sizes (2 x prime > 11)
    N = rng.choice([rng.choice([2, 4, 6, 8, 16, 32]), rng.choice([2, 4, 6, 8, 16, 32]), rng.randint(2, 80), rng.choice([26, 34, 38, 46, 58, 62, 74])])
    wvl = rng.uniform(0.4e-6, 2e-6); d1 = oc.gen_spacing(rng, wvl)
    return {"N": N, "wvl": wvl, "d1": d1, "mag": rng.choice([1.0, oc.gen_mag(rng), oc.gen_mag(rng), 2.0, 0.5]),
            "z": rng.choice([-1, 1]) * rng.loguniform(0.05, 50.0) * (N * d1 * d1 / wvl),
            "f": rng.choice([-1, 1]) * rng.loguniform(0.1, 30.0), "data_seed": rng.getrandbits(32),
            "a": [rng.uniform(-2, 2), rng.uniform(-2, 2)], "b": [rng.uniform(-2, 2), rng.uniform(-2, 2)],
            "ztiny": rng.choice([-1, 1]) * rng.loguniform(1e-12, 1e-8)}


def falsify(ctx, deep=False):
    rng = ctx["rng"]
    n = 150 if deep else 30
    viols, worst = [], {}
    for _ in range(n):
        inp = gen_input(rng)
        try:
            res = property_checks(inp)
        except Exception as ex:
            res = [("propagator raised %s" % type(ex).__name__, float("inf"), 0.0)]
        for clause, err, tol in res:
            worst[clause] = max(worst.get(clause, -1e300), err if math.isfinite(err) else 1e300)
            if not (err <= tol):
                viols.append({"clause": clause, "error": err, "tolerance": tol, "input": inp})
    # propagations of same-shape fields done at the same time from a thread pool are the propagations done one after the other
    import common as _common
    npr_ = numpy.random.default_rng(rng.getrandbits(32))
    fields = [oc.rand_field(npr_, 32) for _ in range(8)]
    def _mkc(k):
        U_ = fields[k]
        fns = [lambda: op.angularSpectrum(U_, 1e-6, 1e-3, 2e-3, 4.0 + k), lambda: op.oneStepFresnel(U_, 1e-6, 1e-3, 3.0 + k),
               lambda: op.twoStepFresnel(U_, 1e-6, 1e-3, 1.5e-3, 2.0 + k), lambda: op.lensAgainst(U_, 1e-6, 1e-3, 1.0 + k)]
        return fns[k % 4]
    nbad = _common.threads_equal([_mkc(k) for k in range(8)], workers=8, repeats=4)
    worst["concurrent propagations from a thread pool give the sequential results"] = float(nbad)
    if nbad:
        viols.append({"clause": "concurrent propagations from a thread pool give the sequential results", "error": float(nbad), "tolerance": 0.0, "input": {"threads": True}})
    seen, keep = set(), []
    for v in viols:
        if v["clause"] not in seen:
            seen.add(v["clause"]); keep.append(v)
    return keep, {"evaluations": n, "max_error_per_clause": worst}


def replay(payload):
    v = payload.get("violation")
    if not v:
        print("replay file names a proof/correspondence failure, no input:", payload.get("proof", {}).get("failed_at"))
        return False
    if v["input"].get("threads"):
        print("  thread-pool clause: re-run ./check C10"); return False
    bad = [(c, e, t) for c, e, t in property_checks(v["input"]) if not (e <= t) and c == v["clause"]]
    for c, e, t in bad:
        print("  clause %r: error %g > %g" % (c, e, t))
    return not bad


def classify(v, known):
    return known["id"] == "C10-twostep-npfloat-unit-mag" and v["clause"] == "power twoStepFresnel/mag=1/npfloat"


def replay_known(known):
    if known["id"] == "C10-twostep-npfloat-unit-mag":
        U = numpy.ones((4, 4), dtype=complex)
        with numpy.errstate(all="ignore"):
            o = op.twoStepFresnel(U, numpy.float64(1e-6), numpy.float64(1e-3), numpy.float64(1e-3), numpy.float64(10.))
        return not numpy.all(numpy.isfinite(o))
    return None
