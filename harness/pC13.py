"""C13 -- Karhunen-Loeve modes: orthonormal, piston-free, diagonalise the Kolmogorov covariance; Cartesian rendering."""
import math, warnings, io, contextlib
import numpy
from common import hexf, flist, flist2, run_cases
from aotools.functions import karhunenLoeve as kl

PID = "C13"
RULE = ("every stage of gkl_basis / make_kl against the Coq model at binary64, with the Python intermediate values as inputs of the next stage: "
        "gkl_radii (1e-13), gkl_kernel planes by the model's O(n^2) DFT of the sampled structure function (1e-10 of the order-0 plane), piston_orth (1e-14), "
        "the matrices handed to numpy.linalg.eigh for order 0 and orders >= 1 (recorded by wrapping eigh; 1e-12), the stopping rule, the selection / "
        "cos-sin pairing / sorting bookkeeping from the recorded numpy.argsort result (oord, evals exactly), the radial functions stored in rabas "
        "(1e-12), gkl_azimuthal (1e-12), gkl_sfi (exact), the pupil indicator (exact) and the bilinear pol2car rendering of make_kl for even and odd "
        "dim, masked and unmasked (1e-10); every configuration is run twice in one process (history) and gkl_kernel is called again in between; "
        "non-trivial = output not identically zero; distinct = distinct (stage, ri, nr, nfunc, dim)")
TRUSTED = ["model coq/model/KL.v hand-written; stf_kolmogorov generated from source (gen/Gen_kl.v)",
           "numpy.linalg.eigh and numpy.argsort results are inputs of the model (LAPACK / NumPy contract: orthonormal eigenvectors, ascending eigenvalues, sorting permutation)",
           "software sqrt/cos/sin/atan2/pow of FloatFun.v (model execution only)"]
ASSUMPTIONS = ["orthonormality / diagonalisation are proved from the eigh contract (V^T V = I, M V = V diag(w)) on the native polar grid; positivity of the variances and 'tip/tilt first' depend on the spectrum of the Kolmogorov kernel and are only tested numerically",
               "the Cartesian rendering is proved to be a convex combination of the four neighbouring polar samples (bilinear), zero outside the annulus when masked; 'within the resampling error' is tested numerically against the polar function at the pixel's (r, theta)",
               "von Karman structure function option (stf='vk') is outside the property (Kolmogorov covariance)"]
IMPORTS = ["AOV.model.Mat", "AOV.model.KL"]
PRELUDE = """Definition F := FOps [].
Definition okm (tol sc : float) (a e : list (list float)) := all_close2 tol sc a e.
Definition okl (tol sc : float) (a e : list float) := all_close tol sc a e.
Fixpoint eqn (a b : list nat) : bool := match a, b with [], [] => true | x :: r, y :: s => Nat.eqb x y && eqn r s | _, _ => false end.
Fixpoint eqb_l (a b : list bool) : bool := match a, b with [] , [] => true | x :: r, y :: s => Bool.eqb x y && eqb_l r s | _, _ => false end.
Definition cols (m : list (list float)) (oi : list nat) (kers : list (list (list float))) (nr : nat) : list (list float) :=
  map (fun i => rabas_col F kers nr oi i) (seq 0 (List.length oi)).
"""


def nl(xs):
    return "[" + "; ".join(str(int(x)) for x in xs) + "]%nat"


def bl(xs):
    return "[" + "; ".join("true" if x else "false" for x in xs) + "]"


class Recorder:
    """wrap numpy.linalg.eigh and numpy.argsort while gkl_fcom runs"""
    def __enter__(self):
        self.eigh, self.sorts = [], []
        self._e, self._a = numpy.linalg.eigh, numpy.argsort
        def eigh(a, *k, **kw):
            a0 = numpy.array(a, copy=True)
            w, v = self._e(a, *k, **kw)
            self.eigh.append((a0, numpy.array(w, copy=True), numpy.array(v, copy=True)))
            return w, v
        def argsort(a, *k, **kw):
            r = self._a(a, *k, **kw)
            self.sorts.append((numpy.array(a, copy=True), numpy.array(r, copy=True)))
            return r
        numpy.linalg.eigh, numpy.argsort = eigh, argsort
        return self
    def __exit__(self, *a):
        numpy.linalg.eigh, numpy.argsort = self._e, self._a


def quiet(f, *a, **k):
    with contextlib.redirect_stdout(io.StringIO()), warnings.catch_warnings():
        warnings.simplefilter("ignore")
        return f(*a, **k)


def basis_cases(ri, nr, nfunc, npp, cases, meta, tagx=""):
    """one recorded gkl_basis run -> cases for every stage"""
    def add(c, **m):
        cases.append(c); m.update({"ri": ri, "nr": nr, "nfunc": nfunc, "history": tagx}); meta.append(m)
    with Recorder() as rec:
        bas = quiet(kl.gkl_basis, ri, nr, npp, nfunc)
    rad = bas["radp"]
    add("okl %s 1 (gkl_radii F %s %d) %s" % (hexf(1e-13), hexf(ri), nr, flist(rad)), fn="gkl_radii", nontrivial=True)
    kern = quiet(kl.gkl_kernel, ri, nr, rad)
    sc0 = float(numpy.abs(kern[:, :, 0]).max())
    nus = len(rec.eigh) - 1
    for p in sorted({0, 1, min(2, nus), nus}):
        add("okm %s %s (kernel_order F %s %d %s %d) %s" % (hexf(1e-10), hexf(sc0), hexf(ri), nr, flist(rad), p, flist2(kern[:, :, p])),
            fn="gkl_kernel", order=p, nontrivial=bool(numpy.abs(kern[:, :, p]).max() > 0))
    # matrices handed to eigh
    a0, w0, v0 = rec.eigh[0]
    add("okm %s %s (order0_matrix F %s %d %s) %s" % (hexf(1e-12), hexf(float(numpy.abs(a0).max())), hexf(ri), nr, flist2(kern[:, :, 0]), flist2(a0)),
        fn="gkl_fcom/order-0 matrix", nontrivial=True)
    for p in range(1, nus + 1):
        ap = rec.eigh[p][0]
        add("okm %s %s (orderp_matrix F %s %d %s) %s" % (hexf(1e-15), hexf(float(numpy.abs(ap).max())), hexf(ri), nr, flist2(kern[:, :, p]), flist2(ap)),
            fn="gkl_fcom/order-p matrix", order=p, nontrivial=True)
    evs = [list(w0) + [0.0]] + [list(rec.eigh[p][1]) for p in range(1, nus + 1)]
    evl = "[" + "; ".join(flist(e) for e in evs) + "]"
    stops = [False] * (nus - 1) + [True]
    add("eqb_l (map (fun nxt => stop_after F %s nxt %d) (seq 1 %d)) %s" % (evl, nfunc, nus, bl(stops)), fn="gkl_fcom/stopping rule", nus=nus, nontrivial=True)
    srt = [s for s in rec.sorts if s[0].shape == (nr * nus,)][-1][1]
    flat = [x for e in evs[:nus] for x in e]
    oi = "(oind %d %d %s)" % (nr, nfunc, nl(srt))
    add("eqn (oord %d %s) %s" % (nr, oi, nl(bas["ord"])), fn="gkl_fcom/azimuthal order of each function", nontrivial=True)
    add("okl 0 1 (evals_out F %s %s) %s" % (flist(flat), oi, flist(bas["evals"])), fn="gkl_fcom/variances", nontrivial=True)
    kers = "[radial0 F %d %s" % (nr, flist2(v0)) + "".join("; radialp F %d %s" % (nr, flist2(rec.eigh[p][2])) for p in range(1, nus)) + "]"
    add("okm %s %s (map (fun i => rabas_col F %s %d %s i) (seq 0 %d)) %s" % (hexf(1e-12), hexf(float(numpy.abs(bas["rabas"]).max())), kers, nr, oi, nfunc, flist2(bas["rabas"].T)),
        fn="gkl_fcom/radial functions", nontrivial=True)
    az = bas["azbas"]
    add("okm %s 1 (azimuthal F %d %d) %s" % (hexf(1e-12), int(bas["nord"]), int(bas["np"]), flist2(az)), fn="gkl_azimuthal", nord=int(bas["nord"]), npp=int(bas["np"]), nontrivial=True)
    i = nfunc - 1
    sf = kl.gkl_sfi(bas, i)
    add("okm 0 1 (sfi F %s %s) %s" % (flist(bas["rabas"][:, i]), flist(az[int(bas["ord"][i])]), flist2(sf)), fn="gkl_sfi", i=i, nontrivial=bool(numpy.abs(sf).max() > 0))
    return bas


def correspond(ctx):
    rng, tier = ctx["rng"], ctx["tier"]
    cases, meta = [], []
    for nr in range(1, 9 if tier == "quick" else 14):
        cases.append("okm %s 1 (piston_orth F %d) %s" % (hexf(1e-14), nr, flist2(kl.piston_orth(nr))))
        meta.append({"fn": "piston_orth", "nr": nr, "nontrivial": True})
    confs = [(0.25, 5, 7), (rng.uniform(0.05, 0.6), 4, 4), (rng.uniform(0.05, 0.9), 6, rng.randint(3, 12))]
    if tier != "quick":
        confs += [(rng.uniform(0.02, 0.95), rng.randint(4, 8), rng.randint(2, 16)) for _ in range(10)]
    for ri, nr, nfunc in confs:
        basis_cases(ri, nr, nfunc, None, cases, meta, "first generation")
        # history: a second basis for the same telescope (same ri, nr) in the same process
        basis_cases(ri, nr, max(2, nfunc - 2), None, cases, meta, "second generation, same (ri, nr)")
    # Cartesian rendering
    dims = [6, 7, 9] if tier == "quick" else [6, 7, 9, 10, 13]
    for dim in dims:
        ri, nr, nmax = rng.uniform(0.1, 0.6), 4, 5
        for mask in (True, False):
            klc, var, pup, pb = quiet(kl.make_kl, nmax, dim, ri=ri, nr=nr, mask=mask)
            npp = int(pb["np"])
            cases.append("okm 0 1 (pupil F %d %s) %s" % (dim, hexf(ri), flist2(pup)))
            meta.append({"fn": "make_kl/pupil", "dim": dim, "ri": ri, "nontrivial": bool(pup.sum() > 0)})
            for i in (0, nmax - 1):
                pol = kl.gkl_sfi(pb, i)
                cases.append("okm %s %s (kl_image F %s %s %d %d %d %s) %s" % (hexf(1e-10), hexf(float(numpy.abs(pol).max())), flist2(pol), hexf(ri), nr, npp, dim,
                                                                               "true" if mask else "false", flist2(klc[i])))
                meta.append({"fn": "make_kl/pol2car", "dim": dim, "ri": ri, "mask": mask, "i": i, "nontrivial": bool(numpy.abs(klc[i]).max() > 0)})
    nev, failing, errors = run_cases(PID, IMPORTS, PRELUDE, cases, per_file=4, timeout=900)
    hist = {}
    for m in meta:
        hist[m["fn"].split("/")[0]] = hist.get(m["fn"].split("/")[0], 0) + 1
    div = [dict(meta[i], what="model != implementation") for i in failing]
    return {"cases": nev, "nontrivial": sum(1 for m in meta if m["nontrivial"]), "divergences": div, "errors": errors,
            "samples": [meta[0], meta[len(meta) // 2], meta[-1]], "hist": hist}


# ------------------------------------------------------------------ property, stated directly ---
def polar_checks(bas, label, A):
    nr, npp, nf = bas["nr"], bas["np"], bas["nfunc"]
    Fm = numpy.array([kl.gkl_sfi(bas, i) for i in range(nf)])
    G = numpy.einsum("ikt,jkt->ij", Fm, Fm) / (nr * npp)
    A(("orthonormal over the pupil on the polar grid (%s)" % label, float(numpy.abs(G - numpy.eye(nf)).max()), 1e-10))
    A(("zero mean over the pupil (%s)" % label, float(numpy.abs(Fm.mean(axis=(1, 2))).max()), 1e-10))
    ev = numpy.asarray(bas["evals"], dtype=float)
    A(("variances positive (%s)" % label, float(max(0.0, -ev.min())) if ev.min() > 0 else 1.0, 0.0))
    A(("variances in non-increasing order (%s)" % label, float(max(0.0, numpy.diff(ev).max())) if nf > 1 else 0.0, 0.0))
    if nf >= 2:
        o = sorted(int(x) for x in bas["ord"][:2])
        A(("tip and tilt first (%s)" % label, 0.0 if o == [1, 2] else 1.0, 0.0))
        A(("tip and tilt have equal variance (%s)" % label, float(abs(ev[0] - ev[1]) / ev[0]), 1e-12))
    rad = bas["radp"]; th = numpy.arange(npp) * 2 * numpy.pi / npp
    x = (rad[:, None] * numpy.cos(th)[None, :]).ravel(); y = (rad[:, None] * numpy.sin(th)[None, :]).ravel()
    d = numpy.hypot(x[:, None] - x[None, :], y[:, None] - y[None, :])
    D = 6.8839 * (d / 2.0) ** (5. / 3.)
    Ff = Fm.reshape(nf, -1)
    C = -0.5 * Ff @ D @ Ff.T / float(nr * npp) ** 2
    A(("-1/2 <K_i D K_j> = diag(variances) (%s)" % label, float(numpy.abs(C - numpy.diag(ev)).max() / ev.max()), 1e-8 if npp == 5 * nr else 2e-3))


def cart_checks(inp, A):
    ri, nr, nmax, dim = inp["ri"], inp["nr_c"], inp["nmax_c"], inp["dim"]
    klm, var, pup, pb = quiet(kl.make_kl, nmax, dim, ri=ri, nr=nr, mask=True)
    klu = quiet(kl.make_kl, nmax, dim, ri=ri, nr=nr, mask=False)[0]
    c = (numpy.arange(dim) - (dim - 1) / 2.0) / (dim / 2.0)
    X, Y = numpy.meshgrid(c, c)
    R2 = X ** 2 + Y ** 2
    ind = ((R2 >= ri ** 2) & (R2 <= 1.0)).astype(float)
    edge = (numpy.abs(R2 - ri ** 2) < 1e-12) | (numpy.abs(R2 - 1) < 1e-12)
    A(("returned pupil is the annulus indicator", float(numpy.abs((pup - ind) * (~edge)).max()), 0.0))
    A(("masked rendering is zero outside the annulus", float(numpy.abs(klm * (1 - ind)[None] * (~edge)[None]).max()), 0.0))
    A(("masked rendering = unmasked rendering inside the annulus", float(numpy.abs((klm - klu) * ind[None]).max()), 0.0))
    # "masked" asked for with another truthy spelling (numpy bool from a comparison, int 1) is still "masked"; falsy = unmasked
    for nm, mv in (("numpy.True_", numpy.bool_(True)), ("1", 1), ("numpy.any(...)", numpy.any(numpy.array([ri >= 0])))):
        klt = quiet(kl.make_kl, nmax, dim, ri=ri, nr=nr, mask=mv)[0]
        A(("mask=%s renders exactly like mask=True" % nm, float(numpy.abs(klt - klm).max()), 0.0))
    A(("returned variances are those of the polar basis", float(numpy.abs(numpy.asarray(var) - numpy.asarray(pb["evals"])).max()), 0.0))
    # polar function at each pixel's (r, theta): radial function interpolated linearly in r^2, exact azimuthal factor
    npp = pb["np"]
    r2grid = ri ** 2 + numpy.arange(nr) / nr * (1 - ri ** 2)          # the grid pol2car assumes (radii)
    TH = numpy.arctan2(Y, X)
    inner = (R2 >= r2grid[1]) & (R2 <= r2grid[-2])
    worst = 0.0
    for i in range(nmax):
        o = int(pb["ord"][i])
        rf = numpy.interp(R2, r2grid, pb["rabas"][:, i])
        azf = 1.0 if o == 0 else (numpy.cos((o // 2 + 1) * TH) if o % 2 == 1 else numpy.sin((o // 2) * TH))
        ref = rf * azf
        worst = max(worst, float(numpy.abs((klu[i] - ref) * inner).max() / numpy.abs(pb["rabas"][:, i]).max()))
    A(("rendering follows the polar function at each pixel's (r, theta) within the resampling error", worst, inp["resample_tol"]))


def property_checks(inp):
    out = []
    A = out.append
    ri, nr = inp["ri"], inp["nr"]
    bas1 = quiet(kl.gkl_basis, ri, nr, None, inp["nfunc"])
    polar_checks(bas1, "first basis", A)
    bas2 = quiet(kl.gkl_basis, ri, nr, None, inp["nfunc2"])
    polar_checks(bas2, "second basis for the same pupil", A)
    m = min(inp["nfunc"], inp["nfunc2"])
    A(("a basis does not depend on what was generated before", float(numpy.abs(numpy.asarray(bas1["evals"][:m]) - numpy.asarray(bas2["evals"][:m])).max()), 1e-13))
    bas3 = quiet(kl.gkl_basis, ri, nr, int(2 * numpy.pi * nr), inp["nfunc"])
    polar_checks(bas3, "azimuthal sampling of make_kl", A)
    cart_checks(inp, A)
    # a kernel computed once and used for several bases (other mode counts) is still that kernel, and each basis is what it
    # is when computed from a fresh kernel
    rad_ = quiet(kl.gkl_radii, ri, nr)
    kern = quiet(kl.gkl_kernel, ri, nr, rad_)
    k0 = numpy.array(kern, copy=True)
    r1_ = quiet(kl.gkl_fcom, ri, kern, inp["nfunc"]); e1, v1 = r1_[0], r1_[4]
    r2_ = quiet(kl.gkl_fcom, ri, kern, inp["nfunc2"]); e2, v2 = r2_[0], r2_[4]
    r3_ = quiet(kl.gkl_fcom, ri, k0.copy(), inp["nfunc2"]); e3, v3 = r3_[0], r3_[4]
    A(("gkl_fcom leaves the kernel it is given untouched", 0.0 if numpy.array_equal(kern, k0) else 1.0, 0.0))
    A(("a second basis from the same kernel = the basis from a fresh kernel", float(max(numpy.abs(numpy.asarray(e2) - numpy.asarray(e3)).max(), numpy.abs(numpy.asarray(v2) - numpy.asarray(v3)).max())), 0.0))
    return out


def gen_input(rng):
    nr = rng.randint(6, 14)
    nf = rng.randint(2, 3 * nr)
    return {"ri": rng.uniform(0.02, 0.9), "nr": nr, "nfunc": nf, "nfunc2": max(2, nf + rng.choice([-3, -1, 2, 5])),
            "nr_c": 40, "nmax_c": rng.randint(3, 12), "dim": rng.choice([16, 21, 24, 33, 40, 47]), "resample_tol": 0.03}


def falsify(ctx, deep=False):
    rng = ctx["rng"]
    n = 12 if deep else 3
    viols, worst = [], {}
    for k in range(n):
        inp = gen_input(rng)
        if k == 0:
            inp["dim"] = 21
        if k == 1:
            inp["dim"] = 24
        try:
            res = property_checks(inp)
        except Exception as ex:
            res = [("raised %s: %s" % (type(ex).__name__, str(ex)[:80]), float("inf"), 0.0)]
        for clause, err, tol in res:
            worst[clause] = max(worst.get(clause, -1e300), err if math.isfinite(err) else 1e300)
            if not (err <= tol):
                viols.append({"clause": clause, "error": err, "tolerance": tol, "input": inp})
    seen, keep = set(), []
    for v in viols:
        if v["clause"] not in seen:
            seen.add(v["clause"]); keep.append(v)
    return keep, {"evaluations": n, "max_error_per_clause": worst}


def replay(payload):
    v = payload.get("violation")
    if not v:
        print("replay file names a proof/correspondence failure, no input:", payload.get("proof", {}).get("failed_at"))
        return False
    bad = [(c, e, t) for c, e, t in property_checks(v["input"]) if not (e <= t)]
    for c, e, t in bad:
        print("  clause %r: error %g > %g" % (c, e, t))
    return not bad


def classify(v, known):
    return False


def replay_known(known):
    return None
