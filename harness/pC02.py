"""C02 -- tomographic reconstructor is the minimum-variance linear estimator."""
import math, warnings
import numpy
import slopecov_common as scc
from common import hexf, flist2, run_cases
from aotools.turbulence import slopecovariance as sc

PID = "C02"
RULE = ("symmetric PSD matrices G G^T (full rank, rank-deficient, with unequal diagonal scales), 1-4 on-axis sub-apertures, conditioning values "
        "{0, 1e-12, 1e-3, 0.3}; plus matrices produced by the covariance builder for guarded configurations; the model (slicing + dot with the "
        "recorded numpy.linalg.pinv result) is compared with create_tomographic_covariance_reconstructor / make_tomographic_reconstructor at "
        "1e-9 of max|R|; non-trivial = off-axis block larger than 1x1 and R non-zero; distinct = distinct (matrix, n, rcond)")
TRUSTED = ["numpy.linalg.pinv is an oracle (recorded); its Penrose identities / truncated-SVD behaviour are hypotheses of the theorems and are tested by the falsifier",
           "model coq/model/Tomo.v hand-written"]
ASSUMPTIONS = ["real-number reading; 'equality holds to rounding' is tested numerically with condition-number-scaled tolerances",
               "end-to-end statements through the covariance builder inherit the guard and known findings of C01"]
IMPORTS = ["AOV.base.Cplx", "AOV.model.Mat", "AOV.model.Tomo"]
PRELUDE = "Definition okm (tol sc : float) (a e : list (list float)) := all_close2 tol sc a e.\n"


class PinvRec:
    def __enter__(self):
        self.real = numpy.linalg.pinv
        self.calls = []
        def p(a, rcond=None, *args, **kw):
            out = self.real(a, rcond, *args, **kw) if rcond is not None else self.real(a, *args, **kw)
            self.calls.append((numpy.array(a, dtype=float, copy=True), rcond, numpy.array(out, dtype=float, copy=True)))
            return out
        numpy.linalg.pinv = p
        return self
    def __exit__(self, *a):
        numpy.linalg.pinv = self.real


def rand_psd(rng, npr, m, kind):
    if kind == "full":
        g = npr.normal(size=(m, m + 2))
    elif kind == "deficient":
        g = npr.normal(size=(m, max(1, m - 2)))
    else:
        g = npr.normal(size=(m, m + 2)) * (10 ** npr.uniform(-1.5, 1.5, size=(m, 1)))
    return g @ g.T


def correspond(ctx):
    rng, tier = ctx["rng"], ctx["tier"]
    npr = rng.nprng()
    n = 40 if tier == "quick" else 1500
    cases, meta = [], []
    for k in range(n):
        non = rng.randint(1, 4); b = rng.randint(1, 8)
        kind = rng.choice(["full", "deficient", "scaled"])
        C = rand_psd(rng, npr, 2 * non + b, kind)
        rc = rng.choice([0, 1e-12, 1e-3, 0.3])
        with PinvRec() as rec:
            R = sc.create_tomographic_covariance_reconstructor(C, non, rc) if rng.random() < 0.8 else sc.create_tomographic_covariance_reconstructor(C, non)
        if len(rec.calls) != 1:
            cases.append("false"); meta.append({"what": "pinv called %d times" % len(rec.calls), "nontrivial": True}); continue
        Kin, rcond_used, Kp = rec.calls[0]
        sca = float(numpy.max(numpy.abs(R)))
        # the model receives pinv as a function; the harness also checks that pinv was applied to C[2n:,2n:] with the requested rcond
        ok_arg = numpy.array_equal(Kin, C[2 * non:, 2 * non:]) 
        cases.append("%s && okm %s %s (tomo_recon (FOps []) (fun _ => %s) %s %d) %s"
                     % ("true" if ok_arg else "false", hexf(1e-9), hexf(sca), flist2(Kp), flist2(C), non, flist2(R)))
        meta.append({"n_onaxis": non, "b": b, "kind": kind, "rcond": rc, "nontrivial": bool(b > 1 and sca > 0)})
    # the method on the object: stored (float32) matrix and n_subaps[0]
    for k in range(4 if tier == "quick" else 60):
        cfg = scc.gen_config(rng, "small", uniform=True)
        if len(cfg["masks"]) < 2:
            continue
        with warnings.catch_warnings():
            warnings.simplefilter("ignore")
            cm = scc.build(cfg, 1); M = cm.make_covariance_matrix()
            rc = rng.choice([1e-6, 1e-3])
            with PinvRec() as rec:
                R = cm.make_tomographic_reconstructor(svd_conditioning=rc)
        Kin, rcond_used, Kp = rec.calls[0]
        non = int(numpy.array(scc.MASKS[cfg["masks"][0]]).sum())
        sca = float(numpy.max(numpy.abs(R)))
        cases.append("okm %s %s (make_tomographic_reconstructor (FOps []) (fun _ => %s) %s [%d%%nat]) %s"
                     % (hexf(1e-5), hexf(sca), flist2(Kp), flist2(M.astype(float)), non, flist2(numpy.asarray(R, dtype=float))))
        meta.append({"method": "make_tomographic_reconstructor", "config": cfg, "rcond": rc, "nontrivial": True})
    nev, failing, errors = run_cases(PID, IMPORTS, PRELUDE, cases, per_file=6)
    hist = {}
    for m in meta:
        key = "%s rcond=%s" % (m.get("kind", m.get("method", "?")), m.get("rcond"))
        hist[key] = hist.get(key, 0) + 1
    div = [dict(meta[i], what="model != implementation") for i in failing]
    return {"cases": nev, "nontrivial": sum(1 for m in meta if m["nontrivial"]), "divergences": div, "errors": errors,
            "samples": [meta[0], meta[-1]], "hist": hist}


def property_checks(inp):
    npr = numpy.random.default_rng(inp["data_seed"])
    import random
    rng = random.Random(inp["data_seed"])
    out = []
    A = out.append
    non, b, kind, rc = inp["non"], inp["b"], inp["kind"], inp["rcond"]
    C = rand_psd(rng, npr, 2 * non + b, kind)
    Con, K = C[:2 * non, 2 * non:], C[2 * non:, 2 * non:]
    R = sc.create_tomographic_covariance_reconstructor(C, non, rc)
    # retained singular subspace of K at this conditioning
    w, V = numpy.linalg.eigh(K)
    keep = w > rc * w.max()
    margin = numpy.min(numpy.abs(w / w.max() - rc)) if rc > 0 else 1.0
    P = V[:, keep] @ V[:, keep].T
    scale = numpy.abs(Con).max() * max(1.0, 1.0)
    cond = w.max() / max(w[keep].min(), 1e-300) if keep.any() else 1.0
    if margin > 1e-6 and cond < 1e10:
        A(("normal equations on the retained subspace (rcond=%g)" % rc, float(numpy.abs(R @ K @ P - Con @ P).max() / scale), 1e-12 * cond + 1e-13))
    if rc == 0 and kind != "deficient" and cond < 1e8:
        A(("R K = C_on,off (zero conditioning, well conditioned)", float(numpy.abs(R @ K - Con).max() / scale), 1e-12 * cond + 1e-13))
        # minimum variance: any perturbation increases the residual variance row by row
        for t in range(3):
            dR = npr.normal(size=R.shape) * 10 ** npr.uniform(-3, 0)
            def q(Rm):
                return numpy.array([C[i, i] - 2 * Rm[i] @ Con[i] + Rm[i] @ K @ Rm[i] for i in range(2 * non)])
            A(("no other linear map has a smaller residual variance", float(numpy.max((q(R) - q(R + dR)) / numpy.maximum(numpy.diag(C)[:2 * non], 1e-300))), 1e-12 * cond + 1e-13))
    # the covariance matrix may be handed over in any numeric dtype (integer counts, float32): same reconstructor
    if rc == 0 and kind != "deficient" and cond < 1e6:
        Ci = numpy.round(C / numpy.abs(C).max() * 4096).astype(numpy.int64)
        Ki, Coni = Ci[2 * non:, 2 * non:].astype(float), Ci[:2 * non, 2 * non:].astype(float)
        ci = numpy.linalg.cond(Ki)
        if ci < 1e6:
            Ri = numpy.asarray(sc.create_tomographic_covariance_reconstructor(Ci, non, 0), dtype=float)
            A(("R K = C_on,off for an integer-typed covariance matrix", float(numpy.abs(Ri @ Ki - Coni).max() / max(numpy.abs(Coni).max(), 1e-300)), 1e-12 * ci + 1e-12))
            C32 = C.astype(numpy.float32)
            R32 = numpy.asarray(sc.create_tomographic_covariance_reconstructor(C32, non, 0), dtype=float)
            K32, Con32 = C32[2 * non:, 2 * non:].astype(float), C32[:2 * non, 2 * non:].astype(float)
            A(("R K = C_on,off for a float32 covariance matrix", float(numpy.abs(R32 @ K32 - Con32).max() / scale), 1e-5 * cond + 1e-5))
    # duplicated sensor: on-axis slopes are copies of off-axis slopes k..k+2n
    if b >= 2 * non and kind != "deficient" and rc == 0:
        G = npr.normal(size=(b, b + 2))
        Koff = G @ G.T
        k0 = inp["dup_at"] % (b - 2 * non + 1)
        E = numpy.zeros((2 * non, b)); E[numpy.arange(2 * non), k0 + numpy.arange(2 * non)] = 1
        Cd = numpy.block([[E @ Koff @ E.T, E @ Koff], [Koff @ E.T, Koff]])
        Rd = sc.create_tomographic_covariance_reconstructor(Cd, non, 0)
        cd = numpy.linalg.cond(Koff)
        if cd < 1e8:
            A(("duplicated sensor is reproduced, zero weight elsewhere", float(numpy.abs(Rd - E).max()), 1e-12 * cd + 1e-13))
    # duplicated sensor, end to end through the covariance builder: the on-axis sensor equals the first off-axis sensor
    # (same direction, mask, wavelength, size); the other off-axis sensors have other point-symmetric masks (unequal
    # sub-aperture counts, in any order) -- inside C01's guard for the cross blocks
    if inp.get("dup_cfg"):
        cfg = inp["dup_cfg"]
        with warnings.catch_warnings():
            warnings.simplefilter("ignore")
            cm = scc.build(cfg, 1)
            M = numpy.asarray(cm.make_covariance_matrix(), dtype=float)
        n0 = int(numpy.array(scc.MASKS[cfg["masks"][0]]).sum())
        Kb = M[2 * n0:, 2 * n0:]
        cb = numpy.linalg.cond(Kb)
        # what the reconstructor is built from must be the slopes' covariance: the x-x and y-y blocks of every sensor pair
        # (the blocks no open finding of C01 touches for equal sub-aperture sizes and point-symmetric masks) against the
        # independent finite-difference von Karman reference -- a misplaced or wrongly assembled block cannot hide behind
        # the conditioning guard below
        Sp = scc.spec_matrix(cfg)
        ns_ = [int(numpy.array(scc.MASKS[m]).sum()) for m in cfg["masks"]]
        off_ = numpy.concatenate([[0], 2 * numpy.cumsum(ns_)])
        sel = numpy.zeros(M.shape, dtype=bool)
        for i_ in range(len(ns_)):
            for j_ in range(len(ns_)):
                sel[off_[i_]:off_[i_] + ns_[i_], off_[j_]:off_[j_] + ns_[j_]] = True
                sel[off_[i_] + ns_[i_]:off_[i_] + 2 * ns_[i_], off_[j_] + ns_[j_]:off_[j_] + 2 * ns_[j_]] = True
        A(("x-x and y-y blocks of the matrix the reconstructor is built from = covariance of the slopes (every sensor pair)",
           float(numpy.abs((M - Sp)[sel]).max() / numpy.abs(Sp).max()) if M.shape == Sp.shape else float("inf"), 3e-6))
        if cb < 1e5:      # the matrix is stored in binary32: only well-conditioned geometries decide the clause
            Rb = sc.create_tomographic_covariance_reconstructor(M, n0, 0)
            Eb = numpy.zeros_like(Rb); Eb[numpy.arange(2 * n0), numpy.arange(2 * n0)] = 1
            A(("duplicated sensor is reproduced end to end through the covariance builder", float(numpy.abs(Rb - Eb).max()), 1e-6 * cb + 1e-6))
            # ... also when the matrix is built by worker processes (in-process pool honouring only the map contract)
            with warnings.catch_warnings():
                warnings.simplefilter("ignore")
                with scc.Controlled(lambda n: list(range(n))[::-1]):
                    M2 = numpy.asarray(scc.build(cfg, 2).make_covariance_matrix(), dtype=float)
            R2 = sc.create_tomographic_covariance_reconstructor(M2, n0, 0)
            A(("duplicated sensor is reproduced end to end (matrix built with 2 threads)", float(numpy.abs(R2 - Eb).max()), 1e-6 * cb + 1e-6))
    # history on an object: the reconstructor always comes from the CURRENT matrix
    if inp.get("object_history"):
        cfg = inp["object_history"]
        with warnings.catch_warnings():
            warnings.simplefilter("ignore")
            cm = scc.build(cfg, 1)
            cm.make_covariance_matrix(); cm.make_tomographic_reconstructor(svd_conditioning=1e-3)
            cm.layer_r0s = numpy.array(cm.layer_r0s) * 0.5
            cm.gs_positions = numpy.array(cm.gs_positions) + 7.0
            M2 = cm.make_covariance_matrix()
            R2 = cm.make_tomographic_reconstructor(svd_conditioning=1e-3)
            n0 = int(cm.n_subaps[0])
            want = sc.create_tomographic_covariance_reconstructor(M2, n0, 1e-3)
        A(("reconstructor follows the rebuilt matrix", float(numpy.abs(numpy.asarray(R2) - want).max() / max(numpy.abs(want).max(), 1e-300)), 0.0))
        # ... and the rebuilt matrix is that of the CURRENT parameters (guide stars re-pointed, profile changed): the
        # reconstructor of a re-used object equals the reconstructor of a fresh object with those parameters
        import common
        cfgB = scc.perturbed(cfg, common.Rng(inp["data_seed"] % (2 ** 30)))
        with warnings.catch_warnings():
            warnings.simplefilter("ignore")
            cmA = scc.build(cfg, 1); cmA.make_covariance_matrix(); cmA.make_tomographic_reconstructor(svd_conditioning=1e-3)
            fresh = scc.build(cfgB, 1)
            for a_ in scc.REUSE_ATTRS:
                v_ = getattr(fresh, a_)
                if isinstance(getattr(cmA, a_), numpy.ndarray) and getattr(cmA, a_).shape == numpy.shape(v_) and inp["data_seed"] % 2:
                    getattr(cmA, a_)[...] = v_
                else:
                    setattr(cmA, a_, numpy.array(v_, copy=True) if isinstance(v_, numpy.ndarray) else v_)
            cmA.make_covariance_matrix(); Rre = numpy.asarray(cmA.make_tomographic_reconstructor(svd_conditioning=1e-3))
            fresh.make_covariance_matrix(); Rfr = numpy.asarray(fresh.make_tomographic_reconstructor(svd_conditioning=1e-3))
        A(("reconstructor of a re-used, re-pointed object = reconstructor of a fresh object with the current parameters",
           0.0 if numpy.array_equal(Rre, Rfr, equal_nan=True) else float(numpy.nanmax(numpy.abs(Rre - Rfr)) / max(float(numpy.nanmax(numpy.abs(Rfr))), 1e-300) + 1e-30), 0.0))
    # the number of on-axis sub-apertures given as a 0-d integer array (a value loaded from a file) and re-used for several calls;
    # and the on-axis auto-covariance block, which the normal equations never use, filled with huge / non-finite numbers
    try:
        g_ = numpy.random.default_rng(inp["data_seed"])
        n_on, n_off = 2, 5
        Bm = g_.normal(size=(2 * (n_on + n_off), 30)); Cm = (Bm @ Bm.T).astype(numpy.float32)
        k0 = numpy.array(n_on)
        R_a = sc.create_tomographic_covariance_reconstructor(Cm.copy(), k0, 1e-6)
        R_b = sc.create_tomographic_covariance_reconstructor(Cm.copy(), k0, 1e-6)
        R_c = sc.create_tomographic_covariance_reconstructor(Cm.copy(), n_on, 1e-6)
        ok_ = int(k0) == n_on and R_a.shape == R_c.shape and R_b.shape == R_c.shape and numpy.array_equal(R_a, R_c) and numpy.array_equal(R_b, R_c)
        A(("an index given as a 0-d integer array is not changed and gives the same reconstructor on every call", 0.0 if ok_ else 1.0, 0.0))
        worst_on = 0.0
        for fill in (1e30, numpy.inf, numpy.nan):
            C2 = Cm.astype(float).copy(); C2[:2 * n_on, :2 * n_on] = fill
            with warnings.catch_warnings():
                warnings.simplefilter("ignore")
                try:
                    R2_ = sc.create_tomographic_covariance_reconstructor(C2, n_on, 1e-6)
                    worst_on = max(worst_on, float(numpy.nanmax(numpy.abs(R2_ - sc.create_tomographic_covariance_reconstructor(Cm.astype(float), n_on, 1e-6)))) if numpy.all(numpy.isfinite(R2_)) else float("inf"))
                except Exception:
                    worst_on = float("inf")
        A(("the reconstructor does not depend on the on-axis auto-covariance block (huge, infinite or NaN entries there)", worst_on, 1e-9))
    except Exception as ex:
        A(("raised %s in the index / on-axis-block clauses" % type(ex).__name__, float("inf"), 0.0))
    return out


SYM_MASKS = ["full2", "full3", "disc3", "ring3", "row2", "diag2", "disc4"]


def gen_dup_cfg(rng):
    a = rng.choice(SYM_MASKS)
    others = [rng.choice(SYM_MASKS) for _ in range(rng.randint(1, 2))]
    mk = [a, a] + others
    d = rng.choice([0.5, 1.0]); nw = len(mk)
    g0 = [rng.uniform(-20, 20), rng.uniform(-20, 20)]
    gs = [g0, g0] + [[rng.uniform(-40, 40), rng.uniform(-40, 40)] for _ in others]
    maxn = max(max(len(scc.MASKS[m]), len(scc.MASKS[m][0])) for m in mk)
    return {"masks": mk, "d": [d] * nw, "alt": [0.0] * nw, "gs": gs, "wvl": [500e-9] * nw, "D": maxn * d,
            "layers": [{"h": rng.uniform(2000, 12000), "r0": rng.uniform(0.1, 0.5), "L0": rng.uniform(10, 50)} for _ in range(rng.randint(1, 2))], "uniform": False}


def gen_input(rng):
    cfg = scc.gen_config(rng, "small", uniform=True)
    return {"non": rng.randint(1, 4), "b": rng.randint(2, 10), "kind": rng.choice(["full", "deficient", "scaled", "scaled"]),
            "rcond": rng.choice([0, 0, 1e-12, 1e-3, 0.3]), "data_seed": rng.getrandbits(32), "dup_at": rng.randint(0, 9),
            "object_history": cfg if (len(cfg["masks"]) >= 2 and rng.random() < 0.4) else None,
            "dup_cfg": gen_dup_cfg(rng) if rng.random() < 0.25 else None}


def falsify(ctx, deep=False):
    rng = ctx["rng"]
    n = 300 if deep else 60
    viols, worst = [], {}
    for _ in range(n):
        inp = gen_input(rng)
        try:
            res = property_checks(inp)
        except Exception as ex:
            res = [("raised %s: %s" % (type(ex).__name__, str(ex)[:80]), float("inf"), 0.0)]
        for clause, err, tol in res:
            key = clause.split(" (rcond")[0]
            worst[key] = max(worst.get(key, -1e300), (err / tol if tol > 0 else (0.0 if err == 0 else 1e300)) if math.isfinite(err) else 1e300)
            if not (err <= tol):
                viols.append({"clause": clause, "error": err, "tolerance": tol, "input": inp})
    seen, keep = set(), []
    for v in viols:
        if v["clause"] not in seen:
            seen.add(v["clause"]); keep.append(v)
    return keep, {"evaluations": n, "max_error_over_tolerance_per_clause": worst}


def replay(payload):
    v = payload.get("violation")
    if not v:
        print("replay file names a proof/correspondence failure, no input:", payload.get("proof", {}).get("failed_at"))
        return False
    bad = [(c, e, t) for c, e, t in property_checks(v["input"]) if not (e <= t)]
    for c, e, t in bad:
        print("  clause %r: error %g > %g" % (c, e, t))
    return not bad


def classify(v, known):
    return False


def replay_known(known):
    return None
