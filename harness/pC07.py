"""C07 -- FFT phase screens have exactly the discretised von Karman statistics."""
import math, warnings
import numpy
import scipy.special
from common import hexf, flist, flist2, run_cases
from aotools.turbulence import phasescreen as ps

PID = "C07"
RULE = ("even N in {2,4,6,8} (thorough ..12), pixel sizes 0.01-150 m (incl. screens wider than 1 km), r0 0.05-0.5, L0 5-100, l0 1e-3-0.1; the "
        "Gaussian draws are injected through a numpy Generator subclass (unit draws = columns of the linear map, and random draws); every pixel "
        "of ft_phase_screen and ft_sh_phase_screen is compared with the Coq model at binary64 (1e-9 of max|screen|); non-trivial = non-zero "
        "screen; distinct = distinct (parameters, draws)")
TRUSTED = ["numpy Generator subclass passes through default_rng unchanged; draw order: N x N real parts, N x N imaginary parts, then per "
           "sub-harmonic grid 3 x 3 real, 3 x 3 imaginary", "model coq/model/FtScreen.v hand-written; numpy.fft.ifft2 compared with the explicit sums",
           "software exp/pow/sin/cos of FloatFun.v (model execution only)"]
ASSUMPTIONS = ["ensemble statements are read through second-moment algebra: unit-variance independent draws g, screen = W g, covariance = W W^T",
               "'approaches the analytic structure function as the grid is refined' and 'closer at large separations' are only tested numerically"]
IMPORTS = ["AOV.base.Cplx", "AOV.model.Fourier", "AOV.model.FtScreen"]
PRELUDE = """Definition F := FOps [].
Definition okm (tol sc : float) (a e : list (list float)) := all_close2 tol sc a e.
"""


class QueueGenerator(numpy.random.Generator):
    def __init__(self, seed=0):
        super().__init__(numpy.random.PCG64(seed))
        self.queue = []
    def normal(self, loc=0.0, scale=1.0, size=None):
        if self.queue:
            return numpy.array(self.queue.pop(0), dtype=float)
        return super().normal(loc, scale, size)


def hi(par, a, b):
    g = QueueGenerator(); g.queue = [a, b]
    return ps.ft_phase_screen(par["r0"], par["N"], par["delta"], par["L0"], par["l0"], seed=g)


def sh(par, a, b, los):
    g = QueueGenerator(); g.queue = [a, b] + list(los)
    return ps.ft_sh_phase_screen(par["r0"], par["N"], par["delta"], par["L0"], par["l0"], seed=g)


def gen_par(rng, nmax=8):
    return {"N": rng.choice([n for n in (2, 4, 6, 8, 10, 12) if n <= nmax]), "delta": rng.choice([rng.loguniform(0.01, 1.0), rng.loguniform(0.01, 1.0), 150.0]),
            "r0": rng.uniform(0.05, 0.5), "L0": rng.uniform(5, 100), "l0": rng.loguniform(1e-3, 0.1)}


def coq_draws(los):
    return "[" + "; ".join("(%s, %s)" % (flist2(los[2 * p]), flist2(los[2 * p + 1])) for p in range(3)) + "]"


def correspond(ctx):
    rng, tier = ctx["rng"], ctx["tier"]
    npr = rng.nprng()
    n = 10 if tier == "quick" else 240
    cases, meta = [], []
    for k in range(n):
        par = gen_par(rng, 8 if tier == "quick" else 12)
        N = par["N"]
        for kind in ("unit-a", "unit-b", "random"):
            a = numpy.zeros((N, N)); b = numpy.zeros((N, N))
            if kind == "unit-a":
                a[rng.randrange(N), rng.randrange(N)] = 1.0
            elif kind == "unit-b":
                b[rng.randrange(N), rng.randrange(N)] = 1.0
            else:
                a = npr.normal(size=(N, N)); b = npr.normal(size=(N, N))
            out = hi(par, a, b)
            args = "%s %s %s %d %s" % (hexf(par["r0"]), hexf(par["L0"]), hexf(par["l0"]), N, hexf(par["delta"]))
            dfq = 1.0 / (N * par["delta"]); kk = numpy.arange(N) - N // 2
            amp = float(numpy.sqrt(numpy.max(psd_ref(par, *numpy.meshgrid(kk * dfq, kk * dfq)) * dfq ** 2)))   # typical column amplitude
            cases.append("okm %s %s (ft_phase_screen F %s %s %s) %s" % (hexf(1e-9), hexf(max(float(numpy.abs(out).max()), amp)), args, flist2(a), flist2(b), flist2(out)))
            meta.append(dict(par, fn="ft_phase_screen", draws=kind, nontrivial=bool(numpy.abs(out).max() > 0)))
        if N <= 6:
            los = [npr.normal(size=(3, 3)) if rng.random() < 0.7 else numpy.eye(3)[rng.randrange(3)][:, None] * numpy.eye(3)[rng.randrange(3)][None, :] for _ in range(6)]
            a = npr.normal(size=(N, N)) * rng.choice([0, 1]); b = npr.normal(size=(N, N)) * rng.choice([0, 1])
            out = sh(par, a, b, los)
            cases.append("okm %s %s (ft_sh_phase_screen F %s %s %s %s) %s" % (hexf(1e-9), hexf(max(float(numpy.abs(out).max()), amp)), args, flist2(a), flist2(b), coq_draws(los), flist2(out)))
            meta.append(dict(par, fn="ft_sh_phase_screen", nontrivial=bool(numpy.abs(out).max() > 0)))
    nev, failing, errors = run_cases(PID, IMPORTS, PRELUDE, cases, per_file=3, timeout=900)
    hist = {}
    for m in meta:
        key = "%s N=%d%s" % (m["fn"], m["N"], " wide" if m["delta"] >= 100 else "")
        hist[key] = hist.get(key, 0) + 1
    div = [dict(meta[i], what="model != implementation") for i in failing]
    return {"cases": nev, "nontrivial": sum(1 for m in meta if m["nontrivial"]), "divergences": div, "errors": errors,
            "samples": [meta[0], meta[-1]], "hist": hist}


# ------------------------------------------------------------------------------------------
def psd_ref(par, fx, fy):
    f = numpy.sqrt(fx ** 2 + fy ** 2)
    fm = 5.92 / par["l0"] / (2 * numpy.pi)
    return 0.023 * par["r0"] ** (-5. / 3) * numpy.exp(-(f / fm) ** 2) / (f ** 2 + 1.0 / par["L0"] ** 2) ** (11. / 6)


def W_hi(par):
    N = par["N"]
    cols = []
    Z = numpy.zeros((N, N))
    for part in range(2):
        for k in range(N * N):
            e = numpy.zeros(N * N); e[k] = 1.0; e = e.reshape(N, N)
            cols.append((hi(par, e, Z) if part == 0 else hi(par, Z, e)).ravel())
    return numpy.array(cols).T


def W_lo(par):
    N = par["N"]
    Z = numpy.zeros((N, N))
    cols = []
    for q in range(6):
        for k in range(9):
            los = [numpy.zeros((3, 3)) for _ in range(6)]
            e = numpy.zeros(9); e[k] = 1.0; los[q] = e.reshape(3, 3)
            cols.append(sh(par, Z, Z, los).ravel())
    return numpy.array(cols).T


def D_of(C):
    d = numpy.diag(C)
    return d[:, None] + d[None, :] - 2 * C


def D_vk(r, r0, L0):
    x = 2 * numpy.pi * numpy.maximum(r, 1e-30) / L0
    c = 2 ** (1. / 6) * x ** (5. / 6) * scipy.special.kv(5. / 6, x) / scipy.special.gamma(5. / 6)
    return numpy.where(r < 1e-25, 0.0, 0.17253 * (L0 / r0) ** (5. / 3) * (1 - c))


def property_checks(par):
    out = []
    A = out.append
    npr = numpy.random.default_rng(par["data_seed"])
    N = par["N"]
    with warnings.catch_warnings():
        warnings.simplefilter("ignore")
        W = W_hi(par)
        a1, b1, a2, b2 = (npr.normal(size=(N, N)) for _ in range(4))
        al, be = par["alpha"], par["beta"]
        s1 = hi(par, a1, b1)
        sc_ = float(numpy.abs(s1).max())
        A(("screen is a linear function of its draws", float(numpy.abs(hi(par, al * a1 + be * a2, al * b1 + be * b2) - (al * s1 + be * hi(par, a2, b2))).max() / sc_), 1e-9))
        A(("screen = W g", float(numpy.abs(W @ numpy.concatenate([a1.ravel(), b1.ravel()]) - s1.ravel()).max() / sc_), 1e-9))
        # exact ensemble covariance = inverse DFT sum of the sampled spectrum, zero frequency removed
        C = W @ W.T
        df = 1.0 / (N * par["delta"])
        k = numpy.arange(N) - N // 2
        KX, KY = numpy.meshgrid(k, k)
        P = psd_ref(par, KX * df, KY * df); P[N // 2, N // 2] = 0
        idx = numpy.arange(N)
        X, Y = numpy.meshgrid(idx, idx)       # pixel (row=Y, col=X)
        xs, ys = X.ravel(), Y.ravel()
        dx = xs[:, None] - xs[None, :]; dy = ys[:, None] - ys[None, :]
        Cref = numpy.zeros((N * N, N * N))
        for i in range(N):
            for j in range(N):
                if P[i, j]:
                    Cref += P[i, j] * df ** 2 * numpy.cos(2 * numpy.pi * (KX[i, j] * dx + KY[i, j] * dy) / N)
        A(("covariance = inverse DFT sum of the modified von Karman spectrum (DC removed)", float(numpy.abs(C - Cref).max() / Cref.max()), 1e-9))
        A(("position-independent variance", float(numpy.ptp(numpy.diag(C)) / numpy.diag(C).max()), 1e-9))
        A(("zero spatial mean of every realisation", float(numpy.abs(s1.mean()) / sc_), 1e-9))
        s = par["s"]
        par2 = dict(par, r0=par["r0"] * s)
        A(("amplitude scales as r0^(-5/6) for fixed draws", float(numpy.abs(hi(par2, a1, b1) - s ** (-5. / 6) * s1).max() / sc_), 1e-9))
        # same grid, another inner scale right afterwards (hidden state would show)
        par3 = dict(par, l0=par["l0"] * 7.0)
        W3 = W_hi(par3)
        P3 = psd_ref(par3, KX * df, KY * df); P3[N // 2, N // 2] = 0
        A(("variance follows the inner scale of the current call", abs(float(numpy.trace(W3 @ W3.T) / (N * N) / ((P3 * df ** 2).sum()) - 1)), 1e-9))
        # sub-harmonics add low-frequency power
        if N <= 8:
            Wl = W_lo(par)
            Dh, Dl = D_of(C), D_of(Wl @ Wl.T)
            Wt = numpy.concatenate([W, Wl], axis=1)
            A(("sub-harmonic screen = high-frequency screen + low-frequency part (independent draws)",
               float(numpy.abs(D_of(Wt @ Wt.T) - (Dh + Dl)).max() / Dh.max()), 1e-9))
            A(("no structure-function value decreases (Generator seed)", float(max(0.0, (-Dl).max()) / Dh.max()), 1e-12))
            # an integer seed must give independent high- and low-frequency draws: the sub-harmonic coefficients come from
            # the continuation of the one stream (a, b, then six 3 x 3 blocks), never from a second copy of it
            sd = par["data_seed"] % 1000
            g = numpy.random.default_rng(sd)
            a_ = g.normal(size=(N, N)); b_ = g.normal(size=(N, N)); los_ = [g.normal(size=(3, 3)) for _ in range(6)]
            got = ps.ft_sh_phase_screen(par["r0"], N, par["delta"], par["L0"], par["l0"], seed=sd)
            want = sh(par, a_, b_, los_)
            A(("integer seed: sub-harmonic draws are independent of the high-frequency draws", float(numpy.abs(got - want).max() / max(numpy.abs(want).max(), 1e-300)), 1e-12))
            r = numpy.sqrt(dx ** 2 + dy ** 2) * par["delta"]
            far = r >= 0.45 * N * par["delta"]
            if par["delta"] < 10 and far.any() and par["L0"] < 1e4:
                Dv = D_vk(r, par["r0"], par["L0"])
                A(("sub-harmonics closer to the analytic curve at large separations", float(numpy.mean(numpy.abs((Dh + Dl)[far] - Dv[far])) - numpy.mean(numpy.abs(Dh[far] - Dv[far]))) / Dv[far].mean(), 0.0))
    return out


def big_grid_checks(par, nsel=12):
    """grid sizes beyond the small exhaustive ones (incl. sizes whose FFT is 'slow': 26, 34, 38, 46): rows of the exact
    ensemble covariance for a few pixels against the inverse DFT sum on the screen's OWN grid; zero mean; constant variance"""
    out = []
    N = par["N"]
    npr = numpy.random.default_rng(par["data_seed"])
    with warnings.catch_warnings():
        warnings.simplefilter("ignore")
        W = W_hi(par)
        if W.shape != (N * N, 2 * N * N):
            return [("screen of size N x N, linear in 2 N^2 draws (N = %d)" % N, float("inf"), 0.0)]
        df = 1.0 / (N * par["delta"])
        k = numpy.arange(N) - N // 2
        KX, KY = numpy.meshgrid(k, k)
        P = psd_ref(par, KX * df, KY * df); P[N // 2, N // 2] = 0
        idx = numpy.arange(N)
        X, Y = numpy.meshgrid(idx, idx)
        xs, ys = X.ravel(), Y.ravel()
        sel = npr.choice(N * N, size=nsel, replace=False)
        Csub = W[sel] @ W.T
        dx = xs[sel][:, None] - xs[None, :]; dy = ys[sel][:, None] - ys[None, :]
        Cref = numpy.zeros((nsel, N * N))
        for i in range(N):
            for j in range(N):
                if P[i, j]:
                    Cref += P[i, j] * df ** 2 * numpy.cos(2 * numpy.pi * (KX[i, j] * dx + KY[i, j] * dy) / N)
        var = (W ** 2).sum(axis=1)
        a1, b1 = npr.normal(size=(N, N)), npr.normal(size=(N, N))
        s1 = hi(par, a1, b1)
    out.append(("covariance rows = inverse DFT sum of the spectrum on the screen's own grid (N = %d)" % N, float(numpy.abs(Csub - Cref).max() / Cref.max()), 1e-9))
    out.append(("position-independent variance (N = %d)" % N, float(numpy.ptp(var) / var.max()), 1e-9))
    out.append(("zero spatial mean of every realisation (N = %d)" % N, float(abs(s1.mean()) / numpy.abs(s1).max()), 1e-9))
    return out


def large_grid_checks(par):
    """N = 1024: no covariance matrix fits, but exactness does not need one -- linearity in the draws, the r0 law and the
    amplitude of a single unit draw (sqrt(PSD) * del_f at its frequency) hold to rounding of binary64"""
    out = []
    N = par["N"]
    npr = numpy.random.default_rng(par["data_seed"])
    with warnings.catch_warnings():
        warnings.simplefilter("ignore")
        a1, b1, a2, b2 = (npr.normal(size=(N, N)) for _ in range(4))
        al, be, s = par["alpha"], par["beta"], par["s"]
        s1, s2 = hi(par, a1, b1), hi(par, a2, b2)
        sc_ = float(numpy.abs(s1).max())
        out.append(("screen is a linear function of its draws (N = %d)" % N, float(numpy.abs(hi(par, al * a1 + be * a2, al * b1 + be * b2) - (al * s1 + be * s2)).max() / sc_), 1e-11))
        out.append(("amplitude scales as r0^(-5/6) for fixed draws (N = %d)" % N, float(numpy.abs(hi(dict(par, r0=par["r0"] * s), a1, b1) - s ** (-5. / 6) * s1).max() / sc_), 1e-11))
        ky, kx = N // 2 + 3, N // 2 - 7
        e = numpy.zeros((N, N)); e[ky, kx] = 1.0
        df = 1.0 / (N * par["delta"])
        amp = math.sqrt(float(psd_ref(par, numpy.array((kx - N // 2) * df), numpy.array((ky - N // 2) * df)))) * df
        su = hi(par, e, numpy.zeros((N, N)))
        out.append(("a single unit draw gives a wave of amplitude sqrt(PSD) del_f (N = %d)" % N, abs(float(numpy.abs(su).max()) / amp - 1), 1e-9))
        out.append(("zero spatial mean of every realisation (N = %d)" % N, float(abs(s1.mean()) / sc_), 1e-9))
    return out


def grid_refinement_check():
    """structure function of the FFT screen approaches the analytic one at small separations as the grid grows"""
    errs = []
    for N in (8, 16, 32):
        par = {"N": N, "delta": 0.1, "r0": 0.15, "L0": 20.0, "l0": 0.001, "data_seed": 1}
        W = W_hi(par); C = W @ W.T
        D2 = C[0, 0] + C[2, 2] - 2 * C[0, 2]          # pixels (0,0) and (0,2): separation 2 delta
        errs.append(abs(D2 / float(D_vk(numpy.array(0.2), 0.15, 20.0)) - 1))
    return errs


def gen_input(rng):
    p = gen_par(rng, 8)
    p.update({"alpha": rng.uniform(-2, 2), "beta": rng.uniform(-2, 2), "s": rng.uniform(0.3, 3), "data_seed": rng.getrandbits(32)})
    return p


def falsify(ctx, deep=False):
    rng = ctx["rng"]
    n = 30 if deep else 6
    viols, worst = [], {}
    for i_ in range(n + 3):
        inp = gen_input(rng)
        i = i_ - n if i_ >= n else -1          # the three forced inputs come after (not instead of) the random ones
        if i == 0:
            inp.update({"N": 8, "delta": 150.0})
        if i in (1, 2):
            # the Kolmogorov limit asked for in the usual way: an infinite (or astronomically large) outer scale, for which
            # 1/L0^2 vanishes and the zero-frequency sample of the spectrum is infinite before it is removed
            inp.update({"L0": float("inf") if i == 1 else 1e120})
            if i == 1:
                inp["delta"] = rng.loguniform(0.02, 0.5)
            inp["l0"] = inp["delta"] * rng.uniform(0.5, 3.0) if inp["delta"] < 10 else inp["l0"]     # inner scale resolved by the grid: the exp(-(f/fm)^2) factor matters
        try:
            res = property_checks(inp)
        except Exception as ex:
            res = [("raised %s: %s" % (type(ex).__name__, str(ex)[:80]), float("inf"), 0.0)]
        for clause, err, tol in res:
            worst[clause] = max(worst.get(clause, -1e300), err if math.isfinite(err) else 1e300)
            if not (err <= tol):
                viols.append({"clause": clause, "error": err, "tolerance": tol, "input": inp})
    # two larger grids per run
    for sizes in ([26, 34, 38, 46], [14, 18, 20, 22, 24, 28, 30, 32, 36, 40]):      # FFT-unfriendly sizes (2 x prime > 11), then the rest
        inp = gen_input(rng)
        inp.update({"N": rng.choice(sizes), "delta": rng.loguniform(0.02, 0.5), "big_grid": True})
        try:
            res = big_grid_checks(inp)
        except Exception as ex:
            res = [("raised %s: %s" % (type(ex).__name__, str(ex)[:80]), float("inf"), 0.0)]
        for clause, err, tol in res:
            worst[clause] = max(worst.get(clause, -1e300), err if math.isfinite(err) else 1e300)
            if not (err <= tol):
                viols.append({"clause": clause, "error": err, "tolerance": tol, "input": inp})
    # screens generated at the same time from a thread pool (same and different sizes) are the screens generated one after the other
    import common as _common
    def _mk(kind, N_, sd):
        def f():
            with warnings.catch_warnings():
                warnings.simplefilter("ignore")
                return (ps.ft_sh_phase_screen if kind == "sh" else ps.ft_phase_screen)(0.15, N_, 0.1, 30.0, 0.01, seed=numpy.random.default_rng(sd))
        return f
    calls_ = [_mk("sh", 64, 11 + k) for k in range(5)] + [_mk("ft", 64, 40 + k) for k in range(2)] + [_mk("sh", 32, 90)]
    nbad = _common.threads_equal(calls_, workers=8, repeats=3)
    worst["concurrent calls from a thread pool give the sequential screens"] = float(nbad)
    if nbad:
        viols.append({"clause": "concurrent calls from a thread pool give the sequential screens", "error": float(nbad), "tolerance": 0.0, "input": {"threads": True}})
    inp = gen_input(rng)
    inp.update({"N": 1024, "delta": rng.loguniform(0.005, 0.05), "large_grid": True})
    try:
        res = large_grid_checks(inp)
    except Exception as ex:
        res = [("raised %s: %s" % (type(ex).__name__, str(ex)[:80]), float("inf"), 0.0)]
    for clause, err, tol in res:
        worst[clause] = max(worst.get(clause, -1e300), err if math.isfinite(err) else 1e300)
        if not (err <= tol):
            viols.append({"clause": clause, "error": err, "tolerance": tol, "input": inp})
    if deep:
        e = grid_refinement_check()
        worst["structure function error at 2 pixels for N=8,16,32"] = e[-1]
        if not (e[2] < e[1] < e[0]):
            viols.append({"clause": "structure function approaches the analytic one as the grid is refined", "error": e[2], "tolerance": e[1], "input": {"errors": e}})
    seen, keep = set(), []
    for v in viols:
        if v["clause"] not in seen:
            seen.add(v["clause"]); keep.append(v)
    return keep, {"evaluations": n + 3, "max_error_per_clause": worst}


def replay(payload):
    v = payload.get("violation")
    if not v:
        print("replay file names a proof/correspondence failure, no input:", payload.get("proof", {}).get("failed_at"))
        return False
    if v["input"].get("threads"):
        print("  thread-pool clause: re-run ./check C07"); return False
    if "errors" in v["input"]:
        e = grid_refinement_check(); print("  errors", e); return e[2] < e[1] < e[0]
    bad = [(c, e, t) for c, e, t in (big_grid_checks(v["input"]) if v["input"].get("big_grid") else (large_grid_checks(v["input"]) if v["input"].get("large_grid") else property_checks(v["input"]))) if not (e <= t)]
    for c, e, t in bad:
        print("  clause %r: error %g > %g" % (c, e, t))
    return not bad


def classify(v, known):
    return False


def replay_known(known):
    return None
