"""C17 -- conversions are mutually inverse and scale right."""
import math, itertools
import numpy
import warnings
from common import hexf, flist, run_cases
import aotools
from aotools.turbulence import atmos_conversions as ac
from aotools.astronomy import _astronomy as astro

PID = "C17"
RULE = ("random positive arguments (log-uniform over the physical ranges), all twelve bands, profile stacks of "
        "rank 1-3 with every integration axis; a case is one (function, argument tuple) whose implementation "
        "output is finite and non-zero; distinct = distinct argument tuples; the generated Coq definition is "
        "evaluated at binary64 by vm_compute and compared with the implementation at 1e-9 relative")
TRUSTED = ["software exp/ln/pow of coq/base/FloatFun.v (execution of the model only)",
           "NumPy .sum(axis)/broadcasting semantics are observed through the correspondence cases, not modelled",
           "interval tactic (Coq-Interval) for |kappa/0.314 - 1| <= 3e-3"]
ASSUMPTIONS = ["real-number reading of binary64 arithmetic (rounding not verified; bounded by the 1e-9 correspondence tolerance)",
               "height/wind arrays are given with a shape that broadcasts against the Cn2 array (a 1-D vector with axis != -1 is outside the domain)"]
TOL = "0x1.12e0be826d695p-30"   # 1e-9
IMPORTS = ["AOV.gen.Gen_atmos", "AOV.gen.Gen_astro"]
BANDS = ['U', 'B', 'V', 'R', 'I', 'J', 'H', 'K', 'g', 'r', 'i', 'z']


def band_entry(b):
    return "(snd (nth %d (FLUX_DICTIONARY (FOps [])) (\"\"%%string, (zero, zero, zero))))" % BANDS.index(b)


def _case(expr, expected):
    return "fclose %s zero (%s) %s" % (TOL, expr, hexf(expected))


def gen_scalar_cases(rng, n):
    cases, meta = [], []
    def add(fn, args, coq_args, out):
        cases.append(_case("%s (FOps []) %s" % (fn, " ".join(coq_args)), out))
        meta.append({"fn": fn, "args": args, "impl": float(out)})
    for _ in range(n):
        cn2 = rng.loguniform(1e-15, 1e-11); lam = rng.loguniform(3e-7, 3e-6)
        r0 = rng.loguniform(0.02, 2.0); seeing = rng.loguniform(0.1, 5.0)
        w = rng.loguniform(3e-7, 3e-6); d = rng.loguniform(0.05, 2.0)
        add("cn2_to_r0", [cn2, lam], [hexf(cn2), hexf(lam)], ac.cn2_to_r0(cn2, lam))
        add("r0_to_cn2", [r0, lam], [hexf(r0), hexf(lam)], ac.r0_to_cn2(r0, lam))
        add("r0_to_seeing", [r0, lam], [hexf(r0), hexf(lam)], ac.r0_to_seeing(r0, lam))
        add("seeing_to_r0", [seeing, lam], [hexf(seeing), hexf(lam)], ac.seeing_to_r0(seeing, lam))
        add("cn2_to_seeing", [cn2, lam], [hexf(cn2), hexf(lam)], ac.cn2_to_seeing(cn2, lam))
        add("seeing_to_cn2", [seeing, lam], [hexf(seeing), hexf(lam)], ac.seeing_to_cn2(seeing, lam))
        add("slope_variance_from_r0", [r0, w, d], [hexf(r0), hexf(w), hexf(d)], ac.slope_variance_from_r0(r0, w, d))
        # default wavelength argument (500 nm)
        add("cn2_to_r0", [cn2, "default"], [hexf(cn2), hexf(500.E-9)], ac.cn2_to_r0(cn2))
        add("r0_to_seeing", [r0, "default"], [hexf(r0), hexf(500.E-9)], ac.r0_to_seeing(r0))
        b = rng.choice(BANDS); mag = rng.uniform(-2, 22); flux = rng.loguniform(1e-2, 1e12)
        add("magnitude_to_flux", [mag, b], [hexf(mag), band_entry(b)], astro.magnitude_to_flux(mag, b))
        add("flux_to_magnitude", [flux, b], [hexf(flux), band_entry(b)], astro.flux_to_magnitude(flux, b))
        n_m = rng.randint(2, 5)
        mask = [[float(rng.random() < 0.7) for _ in range(n_m)] for _ in range(n_m)]
        ps = rng.loguniform(0.01, 1.0); t = rng.loguniform(1e-3, 10); wb = rng.uniform(50, 400)
        mflat = [x for row in mask for x in row]
        add("photons_per_band", [mag, mask, ps, t, b], [hexf(mag), flist(mflat), hexf(ps), hexf(t), band_entry(b)],
            astro.photons_per_band(mag, numpy.array(mask), ps, t, b))
        add("photons_per_mag", [mag, mask, ps, wb, t], [hexf(mag), flist(mflat), hexf(ps), hexf(wb), hexf(t)],
            astro.photons_per_mag(mag, numpy.array(mask), ps, wb, t))
        # r0_from_slopes: implementation on raw slopes, model on their variances (NumPy .var observed)
        nsub, nfr = rng.randint(1, 4), rng.randint(4, 12)
        npr = rng.nprng()
        slopes = npr.normal(0, rng.loguniform(1e-7, 1e-5), size=(2, nsub, nfr))
        var = slopes.var(axis=-1).ravel()
        add("r0_from_slopes", [slopes.tolist(), w, d], [flist(var), hexf(w), hexf(d)], ac.r0_from_slopes(slopes, w, d))
    return cases, meta


def gen_profile_cases(rng, n):
    """stacked profiles, any rank and any axis: each output element against the model on the profile slice"""
    cases, meta = [], []
    npr = rng.nprng()
    for _ in range(n):
        rank = rng.choice([1, 1, 2, 2, 3])
        shape = tuple(rng.randint(1, 4) for _ in range(rank))
        axis = rng.randrange(-rank, rank)
        cn2 = 10 ** npr.uniform(-16, -12, size=shape)
        lam = rng.loguniform(3e-7, 3e-6)
        kind = rng.choice(["full", "full", "bcast"])
        ax = axis % rank
        if kind == "full":
            aux = 10 ** npr.uniform(0.5, 4.3, size=shape)
        else:  # broadcastable: extent only along the integration axis
            bs = [1] * rank; bs[ax] = shape[ax]
            aux = 10 ** npr.uniform(0.5, 4.3, size=tuple(bs))
        use_default_axis = (axis == -1 and rng.random() < 0.5)
        for fn, f in (("coherenceTime", ac.coherenceTime), ("isoplanaticAngle", ac.isoplanaticAngle),
                      ("rytov_variance", ac.rytov_variance)):
            out = f(cn2, aux, lam) if use_default_axis else f(cn2, aux, lam, axis=axis)
            out = numpy.asarray(out)
            auxb = numpy.broadcast_to(aux, shape)
            c2 = numpy.moveaxis(cn2, ax, -1).reshape(-1, shape[ax])
            a2 = numpy.moveaxis(auxb, ax, -1).reshape(-1, shape[ax])
            o2 = out.reshape(-1)
            for k in range(len(o2)):
                cases.append(_case("%s (FOps []) %s %s %s" % (fn, flist(c2[k]), flist(a2[k]), hexf(lam)), o2[k]))
                meta.append({"fn": fn, "shape": list(shape), "axis": axis, "aux": kind, "profile": k,
                             "cn2": c2[k].tolist(), "aux_values": a2[k].tolist(), "lam": lam, "impl": float(o2[k])})
    return cases, meta


def correspond(ctx):
    rng, tier = ctx["rng"], ctx["tier"]
    n = 12 if tier == "quick" else 600
    c1, m1 = gen_scalar_cases(rng, n)
    c2, m2 = gen_profile_cases(rng, n * 2)
    cases, meta = c1 + c2, m1 + m2
    nev, failing, errors = run_cases(PID, IMPORTS, "", cases)
    hist = {}
    for m in meta:
        key = m["fn"] + ("/rank%d" % len(m["shape"]) if "shape" in m else "")
        hist[key] = hist.get(key, 0) + 1
    nontriv = len({repr((m["fn"], m.get("args"), m.get("cn2"), m.get("aux_values"), m.get("lam"))) for m in meta
                   if math.isfinite(m["impl"]) and m["impl"] != 0})
    div = [dict(meta[i], what="model (generated Coq definition at binary64) != implementation") for i in failing]
    return {"cases": nev, "nontrivial": nontriv, "divergences": div, "errors": errors,
            "samples": [meta[0], meta[len(meta) // 2], meta[-1]], "hist": hist}


# ------------------------------------------------------------------------------------------
def _rel(a, b):
    a, b = numpy.asarray(a, dtype=float), numpy.asarray(b, dtype=float)
    if a.shape != b.shape:
        return float("inf")
    if not (numpy.all(numpy.isfinite(a)) and numpy.all(numpy.isfinite(b))):
        return float("inf")
    den = numpy.maximum(numpy.abs(a), numpy.abs(b))
    den = numpy.where(den == 0, 1, den)
    return float(numpy.max(numpy.abs(a - b) / den)) if a.size else 0.0


def property_checks(inp):
    """every clause of C17 evaluated directly on the implementation; returns list of (clause, error, tol)"""
    cn2, lam, r0, seeing, s = inp["cn2"], inp["lam"], inp["r0"], inp["seeing"], inp["s"]
    mag, flux, b = inp["mag"], inp["flux"], inp["band"]
    w, d = inp["w"], inp["d"]
    out = []
    A = out.append
    A(("r0_to_cn2(cn2_to_r0(x))=x", _rel(ac.r0_to_cn2(ac.cn2_to_r0(cn2, lam), lam), cn2), 1e-9))
    A(("cn2_to_r0(r0_to_cn2(x))=x", _rel(ac.cn2_to_r0(ac.r0_to_cn2(r0, lam), lam), r0), 1e-9))
    A(("seeing_to_r0(r0_to_seeing(x))=x", _rel(ac.seeing_to_r0(ac.r0_to_seeing(r0, lam), lam), r0), 1e-9))
    A(("r0_to_seeing(seeing_to_r0(x))=x", _rel(ac.r0_to_seeing(ac.seeing_to_r0(seeing, lam), lam), seeing), 1e-9))
    A(("seeing_to_cn2(cn2_to_seeing(x))=x", _rel(ac.seeing_to_cn2(ac.cn2_to_seeing(cn2, lam), lam), cn2), 1e-9))
    A(("cn2_to_seeing(seeing_to_cn2(x))=x", _rel(ac.cn2_to_seeing(ac.seeing_to_cn2(seeing, lam), lam), seeing), 1e-9))
    A(("cn2_to_seeing = r0_to_seeing o cn2_to_r0", _rel(ac.cn2_to_seeing(cn2, lam), ac.r0_to_seeing(ac.cn2_to_r0(cn2, lam), lam)), 1e-12))
    A(("seeing_to_cn2 = r0_to_cn2 o seeing_to_r0", _rel(ac.seeing_to_cn2(seeing, lam), ac.r0_to_cn2(ac.seeing_to_r0(seeing, lam), lam)), 1e-12))
    A(("r0 ~ lambda^(6/5)", _rel(ac.cn2_to_r0(cn2, s * lam), s ** 1.2 * ac.cn2_to_r0(cn2, lam)), 1e-9))
    A(("r0 ~ cn2^(-3/5)", _rel(ac.cn2_to_r0(s * cn2, lam), s ** -0.6 * ac.cn2_to_r0(cn2, lam)), 1e-9))
    A(("seeing ~ lambda^(-1/5)", _rel(ac.cn2_to_seeing(cn2, s * lam), s ** -0.2 * ac.cn2_to_seeing(cn2, lam)), 1e-9))
    A(("default wavelength is 500nm", _rel(ac.cn2_to_r0(cn2), ac.cn2_to_r0(cn2, 500e-9)), 1e-12))
    A(("flux_to_magnitude(magnitude_to_flux(m))=m", abs(astro.flux_to_magnitude(astro.magnitude_to_flux(mag, b), b) - mag), 1e-9))
    A(("magnitude_to_flux(flux_to_magnitude(f))=f", _rel(astro.magnitude_to_flux(astro.flux_to_magnitude(flux, b), b), flux), 1e-9))
    A(("5 mag = factor 100", _rel(astro.magnitude_to_flux(mag + 5, b) * 100, astro.magnitude_to_flux(mag, b)), 1e-9))
    mask = numpy.array(inp["mask"], dtype=float)
    ps, t = inp["ps"], inp["t"]
    if mask.sum() > 0:
        big = numpy.block([[mask, mask], [mask, mask]])
        A(("photons_per_band ~ area", _rel(astro.photons_per_band(mag, big, ps, t, b), 4 * astro.photons_per_band(mag, mask, ps, t, b)), 1e-9))
        A(("photons_per_band ~ exposure", _rel(astro.photons_per_band(mag, mask, ps, s * t, b), s * astro.photons_per_band(mag, mask, ps, t, b)), 1e-9))
        A(("photons_per_band ~ pixel area", _rel(astro.photons_per_band(mag, mask, 2 * ps, t, b), 4 * astro.photons_per_band(mag, mask, ps, t, b)), 1e-9))
        A(("photons_per_mag ~ area", _rel(astro.photons_per_mag(mag, big, ps, 100., t), 4 * astro.photons_per_mag(mag, mask, ps, 100., t)), 1e-9))
        A(("photons_per_mag ~ exposure", _rel(astro.photons_per_mag(mag, mask, ps, 100., s * t), s * astro.photons_per_mag(mag, mask, ps, 100., t)), 1e-9))
    if mask.sum() > 0:
        # the composite is the elementary converter times exposure time times area, and inverts back to the magnitude -- in every band
        A(("photons_per_mag = 1000 x 10^(-mag/2.5) per s, cm^2 and Angstrom x band x area x exposure (any mask shape)",
           _rel(astro.photons_per_mag(mag, mask, ps, 100., t), 1000. * 10 ** (-mag / 2.5) * (100. * 10) * (mask.sum() * ps ** 2 * 1e4) * t), 1e-9))
        worst_b, worst_i = 0.0, 0.0
        for bb in BANDS:
            ph = astro.photons_per_band(mag, mask, ps, t, bb)
            worst_b = max(worst_b, _rel(ph, astro.magnitude_to_flux(mag, bb) * t * mask.sum() * ps ** 2))
            worst_i = max(worst_i, abs(astro.flux_to_magnitude(ph / (t * mask.sum() * ps ** 2), bb) - mag))
        A(("photons_per_band = magnitude_to_flux x exposure x area in all 12 bands (Johnson R, I and Sloan r, i are different bands)", worst_b, 1e-12))
        A(("flux_to_magnitude(photons_per_band / (exposure x area)) = magnitude in all 12 bands", worst_i, 1e-9))
    # slope variance <-> r0 with equal variances: rows +-sqrt(var) alternate => variance exactly var
    var = ac.slope_variance_from_r0(r0, w, d)
    nfr = 2 * inp["nfr2"]
    row = numpy.sqrt(var) * numpy.array([1.0, -1.0] * (nfr // 2))
    slopes = numpy.tile(row, (2, inp["nsub"], 1))
    # a static offset per sub-aperture does not change the variance
    slopes = slopes + numpy.sqrt(var) * numpy.array(inp["offsets"])[None, :inp["nsub"], None]
    A(("r0_from_slopes(slope variance of r0) = r0", _rel(ac.r0_from_slopes(slopes, w, d), r0), 1e-9))
    # slope buffers with flagged frames (numpy.ma): the variance is that of the unmasked frames, glitches behind the mask do not count
    nfr_ = slopes.shape[-1]
    glitch = slopes.copy(); glitch[..., 1] = 1e6 * numpy.sqrt(var); glitch[..., nfr_ - 1] = numpy.nan
    mk_ = numpy.zeros(glitch.shape, dtype=bool); mk_[..., 1] = True; mk_[..., nfr_ - 1] = True
    if nfr_ >= 6:
        keep_ = numpy.ones(nfr_, dtype=bool); keep_[1] = False; keep_[nfr_ - 1] = False
        want_m = ac.r0_from_slopes(slopes[..., keep_], w, d)
        with warnings.catch_warnings():
            warnings.simplefilter("ignore")
            got_m = ac.r0_from_slopes(numpy.ma.masked_array(glitch, mask=mk_), w, d)
        A(("r0_from_slopes of a masked slope buffer = that of the unmasked frames", _rel(float(got_m), float(want_m)) if numpy.isfinite(float(got_m)) else float("inf"), 1e-9))
    A(("slope variance ~ r0^(-5/3)", _rel(ac.slope_variance_from_r0(s * r0, w, d), s ** (-5. / 3) * var), 1e-9))
    # single layer
    v = inp["v"]; h = inp["h"]
    r0l = ac.cn2_to_r0(cn2, lam)
    A(("single layer tau0 = 0.314 r0/v", _rel(ac.coherenceTime(numpy.array([cn2]), numpy.array([v]), lam), 0.314 * r0l / v), 4e-3))
    A(("single layer theta0 = 0.314 r0/h", _rel(ac.isoplanaticAngle(numpy.array([cn2]), numpy.array([h]), lam), 0.314 * r0l / h * 180 * 3600 / numpy.pi), 4e-3))
    # altitudes / speeds given in whole metres (integer arrays) are the same altitudes / speeds
    hi_ = numpy.array([int(h) + 7000, 250, 12000 + int(v)], dtype=numpy.int64); ci_ = numpy.array([cn2, 2 * cn2, 0.5 * cn2])
    for name, f in (("coherenceTime", ac.coherenceTime), ("isoplanaticAngle", ac.isoplanaticAngle), ("rytov_variance", ac.rytov_variance)):
        for dt in (numpy.int64, numpy.int32):
            A(("%s with %s altitudes/speeds = the same values as floats" % (name, numpy.dtype(dt).name), _rel(f(ci_, hi_.astype(dt), lam), f(ci_, hi_.astype(float), lam)), 1e-12))
    A(("single layer theta0 = 0.314 r0/h for an integer altitude", _rel(ac.isoplanaticAngle(numpy.array([cn2]), numpy.array([int(h) + 6300]), lam), 0.314 * r0l / (int(h) + 6300) * 180 * 3600 / numpy.pi), 4e-3))
    # stacked profiles: axis argument == looping
    P = numpy.array(inp["stack"]); H = numpy.array(inp["stack_aux"]); axis = inp["axis"]
    # the per-layer quantity (heights / wind speeds) in the stack's own shape, or in any shape that broadcasts against it
    # (shared between the leading profiles; kept as length-1 axes), with the axis counted from the front or from the back
    variants = [("full shape", P, H, axis)]
    if P.ndim >= 2:
        variants.append(("shared over the first axis", P, H[0], axis if axis < 0 else None))
        variants.append(("shared over the first axis, positive axis", P, H[0], (axis % P.ndim) if (axis % P.ndim) >= 1 else None))
        keep = numpy.take(H, [0], axis=(axis + 1) % P.ndim)
        variants.append(("length-1 axis kept", P, keep, axis % P.ndim))
    if P.ndim == 2:
        Q3 = numpy.stack([P, 1.3 * P, 0.7 * P])          # rank 3: nights x (the stack)
        variants.append(("rank-3 stack, rank-2 per-layer quantity, positive axis", Q3, H, (axis % 2) + 1))
        variants.append(("rank-3 stack, rank-2 per-layer quantity, negative axis", Q3, H, (axis % 2) - 2))
    for vname, Pv, Hv, ax in variants:
        if ax is None:
            continue
        for name, f in (("coherenceTime", ac.coherenceTime), ("isoplanaticAngle", ac.isoplanaticAngle), ("rytov_variance", ac.rytov_variance)):
            try:
                got = numpy.asarray(f(Pv, Hv, lam, axis=ax))
                Pm = numpy.moveaxis(Pv, ax, -1); Hm = numpy.moveaxis(numpy.broadcast_to(Hv, Pv.shape), ax, -1)
                want = numpy.empty(Pm.shape[:-1])
                for idx in numpy.ndindex(*Pm.shape[:-1]):
                    want[idx] = f(Pm[idx].copy(), Hm[idx].copy(), lam)
                A(("%s(axis) == loop over profiles (%s)" % (name, vname), _rel(got, want) if got.shape == want.shape else float("inf"), 1e-9))
            except Exception as ex:
                A(("%s(axis) raised %s (%s)" % (name, type(ex).__name__, vname), float("inf"), 0))
    return out


def gen_input(rng):
    rank = rng.choice([1, 2, 2, 3])
    shape = tuple(rng.randint(1, 4) for _ in range(rank))
    npr = rng.nprng()
    n_m = rng.randint(1, 4)
    rng_cols = n_m if rng.random() < 0.5 else rng.randint(1, 7)        # pupil arrays need not be square (strips, padded or cropped masks)
    return {"cn2": rng.loguniform(1e-15, 1e-11), "lam": rng.loguniform(3e-7, 3e-6), "r0": rng.loguniform(0.02, 2.0),
            "seeing": rng.loguniform(0.1, 5.0), "s": rng.loguniform(0.2, 5.0), "mag": rng.uniform(-2, 22),
            "flux": rng.loguniform(1e-2, 1e12), "band": rng.choice(BANDS), "w": rng.loguniform(3e-7, 3e-6),
            "d": rng.loguniform(0.05, 2.0), "mask": [[float(rng.random() < 0.7) for _ in range(rng_cols)] for _ in range(n_m)],
            "ps": rng.loguniform(0.01, 1.0), "t": rng.loguniform(1e-3, 10), "nfr2": rng.randint(2, 6), "nsub": rng.randint(1, 4), "offsets": [rng.uniform(-3, 3) for _ in range(4)],
            "v": rng.loguniform(1, 60), "h": rng.loguniform(100, 20000),
            "stack": (10 ** npr.uniform(-16, -12, size=shape)).tolist(),
            "stack_aux": (10 ** npr.uniform(0.5, 4.3, size=shape)).tolist(), "axis": rng.randrange(-rank, rank)}


def falsify(ctx, deep=False):
    rng = ctx["rng"]
    n = 300 if deep else 40
    viols, worst = [], {}
    for k in range(n):
        inp = gen_input(rng)
        for clause, err, tol in property_checks(inp):
            worst[clause.split("(axis")[0]] = max(worst.get(clause.split("(axis")[0], 0), err)
            if not (err <= tol):
                viols.append({"clause": clause, "error": err, "tolerance": tol, "input": inp})
        if len(viols) > 20:
            break
    return viols, {"evaluations": n, "max_error_per_clause": {k: float(v) for k, v in worst.items()}}


def replay(payload):
    v = payload.get("violation")
    if not v:
        print("replay file names a proof/correspondence failure, no input:", payload.get("proof", {}).get("failed_at"))
        return False
    bad = [(c, e, t) for c, e, t in property_checks(v["input"]) if not (e <= t)]
    for c, e, t in bad:
        print("  clause %r: error %g > %g" % (c, e, t))
    return not bad


def classify(v, known):
    return False


def replay_known(known):
    return None
