"""C18 -- profile compression conserves the turbulence it compresses."""
import math, warnings
import numpy
from common import hexf, flist, flist2, run_cases
from aotools.turbulence import profile_compression as pc

PID = "C18"
RULE = ("profiles of 4..40 layers with regular (arange/linspace, incl. the edge-sensitive 0..15000 grids) and irregular heights, random strengths and "
        "winds, L from 1(2) to N-1; equivalent_layers compared with the Coq model at binary64 (slab assignment exact, values 1e-10, NaN = NaN for empty "
        "slabs); optimal_grouping on integer-valued profiles (costs exact) with the random restarts recorded from numpy's global generator and served "
        "to the model, heights/strengths compared exactly; non-trivial = more than one non-empty slab / group; distinct = distinct (profile, L)")
TRUSTED = ["model coq/model/Compress.v hand-written (slab edges, digitize, vicinity enumeration, local search with 200 iterations)",
           "scipy.optimize.minimize (GCTM) is not modelled: bounds contract only, moment reproduction tested numerically",
           "numba _Gjit computes the same cost as the Python _G (compared through the model on integer data)"]
ASSUMPTIONS = ["real-number reading for the conservation laws; the dropped-top-layer defect is a binary64 rounding effect exhibited by a witness"]
IMPORTS = ["AOV.base.Cplx", "AOV.model.Compress"]
PRELUDE = """Definition F := FOps [].
Definition fcl (tol a b : float) := (is_nan a && is_nan b) || fclose tol 0 a b.
Fixpoint ok3 (tol : float) (a : list (float * float * float)) (hs cs ws : list float) : bool :=
  match a, hs, cs, ws with
  | [], [], [], [] => true
  | (h, c, w) :: r, x :: s, y :: t, z :: u => fcl tol h x && fcl tol c y && fcl tol w z && ok3 tol r s t u
  | _, _, _, _ => false end.
Fixpoint ok2 (tol : float) (a : list (float * float * float)) (hs cs : list float) : bool :=
  match a, hs, cs with
  | [], [], [] => true
  | (h, c, _) :: r, x :: s, y :: t => fcl tol h x && fcl tol c y && ok2 tol r s t
  | _, _, _ => false end.
Fixpoint eql (a b : list float) : bool := match a, b with [] , [] => true | x :: r, y :: s => (x =? y) && eql r s | _, _ => false end.
"""


def gen_profile(rng, npr, kind=None):
    N = rng.randint(4, 40)
    kind = kind or rng.choice(["arange", "linspace", "irregular", "edge"])
    if kind == "arange":
        h = numpy.arange(0, N) * rng.choice([250.0, 100.0, 333.0]) + rng.choice([0.0, 0.0, 2396.0])
    elif kind == "linspace":
        h = numpy.linspace(rng.choice([0.0, 50.0]), rng.choice([15000.0, 20000.0, 22396.0]), N)
    elif kind == "edge":
        N = rng.choice([200, 100, 50, 151]); h = numpy.linspace(0, 15000, N)
    else:
        h = numpy.sort(npr.uniform(0, 20000, size=N)); h[0] = rng.choice([0.0, h[0]])
    if kind in ("irregular", "arange") and rng.random() < 0.35 and len(h) >= 6:
        # two instruments reporting the same altitude, a repeated ground layer: heights need not be distinct
        for _ in range(rng.randint(1, 3)):
            i_ = rng.randint(1, len(h) - 1); h[i_] = h[i_ - 1]
        kind += "+repeated"
    p = npr.uniform(0.05, 1.0, size=len(h)) * 1e-13
    if rng.random() < 0.2:
        # a sparse profile: most layers carry exactly no turbulence (bins of a fixed altitude grid that happen to be empty)
        zero = npr.random(len(h)) < 0.7; zero[npr.integers(0, len(h))] = False
        p = numpy.where(zero, 0.0, p); kind += "+sparse"
    w = npr.uniform(2, 40, size=len(h))
    return kind, h, p, w


def correspond(ctx):
    rng, tier = ctx["rng"], ctx["tier"]
    npr = rng.nprng()
    n = 40 if tier == "quick" else 900
    cases, meta = [], []
    with warnings.catch_warnings():
        warnings.simplefilter("ignore")
        for k in range(n):
            kind, h, p, w = gen_profile(rng, npr)
            if len(h) > 60:
                h, p, w = h[::3], p[::3], w[::3]
            L = rng.randint(1, min(len(h) - 1, 9))
            if rng.random() < 0.6:
                hL, cL, wL = pc.equivalent_layers(h, p, L, w=w)
                cases.append("ok3 %s (equivalent_layers F %s %s %s %d) %s %s %s" % (hexf(1e-10), flist(h), flist(p), flist(w), L, flist(hL), flist(cL), flist(wL)))
            else:
                hL, cL = pc.equivalent_layers(h, p, L)
                cases.append("ok2 %s (equivalent_layers F %s %s %s %d) %s %s" % (hexf(1e-10), flist(h), flist(p), flist(h), L, flist(hL), flist(cL)))
            meta.append({"fn": "equivalent_layers", "kind": kind, "N": len(h), "L": L, "nontrivial": bool(numpy.isfinite(hL).sum() > 1)})
        for k in range(n // 4):
            if k % 3 == 0:
                # near-uniform profile on a regular grid: several distinct local minima, many restarts
                N = rng.randint(18, 26)
                h = numpy.arange(N, dtype=float) * 500.0
                p = npr.integers(1, 4, size=N).astype(float)
                L = 4; Rr = 5
            else:
                N = rng.randint(5, 14)
                h = numpy.sort(numpy.array(rng.sample(range(0, 200), N), dtype=float)) * 100.0
                p = npr.integers(1, 20, size=N).astype(float)
                L = rng.randint(2, min(N - 1, 5)); Rr = rng.randint(0, 3)
            starts = []
            real = pc._random_grouping
            def rec(Nn, Ll):
                s = real(Nn, Ll); starts.append([int(x) for x in s]); return s
            pc._random_grouping = rec
            try:
                numpy.random.seed(rng.getrandbits(31))
                hL, cL = pc.optimal_grouping(Rr, L, h, p)
            finally:
                pc._random_grouping = real
            st = "[" + "; ".join("[" + "; ".join(str(x) for x in s) + "]%nat" for s in starts) + "]"
            cases.append("(let r := optimal_grouping F %s %d %s %s in eql (fst r) %s && eql (snd r) %s)" % (st, L, flist(h), flist(p), flist(hL), flist(cL)))
            meta.append({"fn": "optimal_grouping", "N": N, "L": L, "R": Rr, "restarts": starts, "nontrivial": True})
    nev, failing, errors = run_cases(PID, IMPORTS, PRELUDE, cases, per_file=8, timeout=900)
    hist = {}
    for m in meta:
        key = m["fn"] + "/" + str(m.get("kind", "R=%s" % m.get("R")))
        hist[key] = hist.get(key, 0) + 1
    div = [dict(meta[i], what="model != implementation") for i in failing]
    return {"cases": nev, "nontrivial": sum(1 for m in meta if m["nontrivial"]), "divergences": div, "errors": errors,
            "samples": [meta[0], meta[-1]], "hist": hist}


def slab_info(h, L):
    hstep = (h.max() - h.min()) / L
    nb_arange = len(numpy.arange(h.min(), h.max(), hstep))      # edge-sensitive input: arange(hmin, hmax, step) would give L+1 edges
    bins = h.min() + hstep * numpy.arange(L)
    ix = numpy.digitize(h, bins)
    return nb_arange, [int((ix == i + 1).sum()) for i in range(L)], int((ix > L).sum())


def property_checks(inp):
    out = []
    A = out.append
    h, p, w, L = numpy.array(inp["h"]), numpy.array(inp["p"]), numpy.array(inp["w"]), inp["L"]
    if inp.get("h_int") and numpy.all(h == numpy.round(h)):
        h = h.astype(int)          # heights given as integers (metres): a legal profile
    with warnings.catch_warnings():
        warnings.simplefilter("ignore")
        nb, counts, dropped = slab_info(h, L)
        hstep_ = (h.max() - h.min()) / L
        ix_ = numpy.digitize(h, h.min() + hstep_ * numpy.arange(L))
        strengths = [float(p[ix_ == i_ + 1].sum()) for i_ in range(L)]
        tag = ("edge-sensitive" if nb != L else "regular-edges") + ("/empty-slab" if (min(counts) == 0 or min(strengths) == 0.0) else "")
        hL, cL, wL = pc.equivalent_layers(h, p, L, w=w)
        A(("EL returns exactly L layers with non-negative strengths (%s)" % tag, 0.0 if (len(hL) == L and len(cL) == L and (cL >= 0).all() and numpy.isfinite(hL).all()) else 1.0, 0.0))
        A(("EL conserves the total Cn2 / drops no layer (%s)" % tag, abs(float(cL.sum() / p.sum() - 1)), 1e-12))
        ok = cL > 0
        A(("EL conserves the 5/3 height moment (%s)" % tag, abs(float((cL[ok] * hL[ok] ** (5. / 3)).sum() / (p * h ** (5. / 3)).sum() - 1)), 1e-10))
        A(("EL conserves the 5/3 wind moment (%s)" % tag, abs(float((cL[ok] * wL[ok] ** (5. / 3)).sum() / (p * w ** (5. / 3)).sum() - 1)), 1e-10))
        A(("EL heights lie within their slabs' range", 0.0 if (numpy.nan_to_num(hL, nan=h.min()) >= h.min() - 1e-9).all() and (numpy.nan_to_num(hL, nan=h.min()) <= h.max() + 1e-9).all() else 1.0, 0.0))
        # a profile is a set of layers: listing them top-down or in any other order changes nothing for the slab method
        # (the compressed layers come back per slab, lowest slab first, in every case)
        for oname, perm in (("descending", numpy.arange(len(h))[::-1]), ("shuffled", numpy.random.default_rng(len(h) + L).permutation(len(h)))):
            hq, cq, wq = pc.equivalent_layers(h[perm], p[perm], L, w=w[perm])
            same_ = (len(hq) == len(hL) and numpy.allclose(cq, cL, rtol=1e-12, atol=0) and numpy.allclose(numpy.nan_to_num(hq), numpy.nan_to_num(hL), rtol=1e-12, atol=0)
                     and numpy.allclose(numpy.nan_to_num(wq), numpy.nan_to_num(wL), rtol=1e-12, atol=0))
            A(("EL of the same layers listed in %s order = EL of the ascending profile (%s)" % (oname, tag), 0.0 if same_ else 1.0, 0.0))
        # optimal grouping (needs increasing heights)
        if inp["og"]:
            numpy.random.seed(inp["np_seed"])
            Lg = inp["Lg"]
            hg, cg = pc.optimal_grouping(inp["R"], Lg, h, p)
            tg = "L=1" if Lg == 1 else "L>=2"
            A(("OG returns exactly L layers (%s)" % tg, 0.0 if (len(hg) == Lg and len(cg) == Lg) else 1.0, 0.0))
            if len(cg):
                A(("OG conserves the total Cn2", abs(float(numpy.sum(cg) / p.sum() - 1)), 1e-12))
                A(("OG heights are input heights in increasing order", 0.0 if (all(x in set(h.tolist()) for x in hg) and ((numpy.diff(hg) > 0).all() if len(set(h.tolist())) == len(h) else (numpy.diff(hg) >= 0).all())) else 1.0, 0.0))      # (repeated input heights: neighbouring groups may share one)
                eq = numpy.linspace(0, len(p), Lg + 1, dtype=int)[1:-1]
                def _cost(groups_):      # independent of the library's cost functions
                    return sum(min(float((p[g] * numpy.abs(h[g].astype(float) - float(h[c]))).sum()) for c in g) for g in groups_)
                bounds = [0] + [int(e) + 1 for e in eq] + [len(p)]
                c_eq = _cost([numpy.arange(bounds[q], bounds[q + 1]) for q in range(len(bounds) - 1)]) if len(eq) else None
                # cost of the returned solution = sum_k p_k |h_k - h_group(k)| over the contiguous grouping it represents:
                # recovered as the best contiguous assignment to the returned heights
                idx = numpy.searchsorted(numpy.cumsum([0] + [0]), 0)
                groups = []
                cs = numpy.cumsum(p)
                start = 0
                for c in numpy.cumsum(cg):
                    end = int(numpy.argmin(numpy.abs(cs - c))) + 1
                    groups.append(numpy.arange(start, end)); start = end
                c_ret = sum(float((p[g] * numpy.abs(h[g] - hh)).sum()) for g, hh in zip(groups, hg))
                if c_eq is not None:
                    A(("OG cost no worse than the equal split", float((c_ret - c_eq) / max(c_eq, 1e-300)), 1e-9))
            st0 = numpy.random.get_state()[1][:5].tolist()
        if inp["gctm"] and min(counts) > 0 and min(strengths) > 0.0 and nb == L:        # (GCTM starts from the slab method: the listed empty-slab finding would come with it)
            hm, cm = pc.GCTM(h, p, L)
            A(("GCTM returns L layers with non-negative strengths", 0.0 if (len(hm) == L and len(cm) == L and (cm >= 0).all() and (hm >= 0).all()) else 1.0, 0.0))
            hs, ps = h / 10000., p / 100e-15
            m0 = numpy.array([(ps * hs ** k).sum() for k in range(2 * L - 1)])
            m1 = numpy.array([((cm / 100e-15) * (hm / 10000.) ** k).sum() for k in range(2 * L - 1)])
            A(("GCTM reproduces the first 2L-1 moments to optimiser accuracy", float(numpy.max(numpy.abs(m1 / m0 - 1))), 0.15))
            if inp.get("kind") == "gctm-ground":
                # a ground layer at exactly 0 m alone in the lowest slab: the optimiser starts ON the bound h = 0 and still
                # converges (worst misfit on the unchanged tree over 469 such profiles: 3.4e-3)
                A(("GCTM converges when the lowest slab holds only a ground layer at 0 m (L <= 4)", float(numpy.max(numpy.abs(m1 / m0 - 1))), 0.03))
    return out


def gen_input(rng, og_hard=False):
    npr = rng.nprng()
    kind, h, p, w = gen_profile(rng, npr)
    if og_hard:
        N = rng.randint(20, 30)
        h = numpy.arange(N) * 500.0
        p = (1 + 0.3 * npr.uniform(-1, 1, size=N)) * 1e-15 if rng.random() < 0.5 else npr.integers(1, 4, size=N) * 1e-15
        w = npr.uniform(2, 40, size=N)
        return {"kind": "og-hard", "h": h.tolist(), "p": p.tolist(), "w": w.tolist(), "L": 3, "og": True, "Lg": 4, "R": 5,
                "np_seed": rng.getrandbits(31), "gctm": False}
    N = len(h)
    L = rng.randint(1, min(N - 1, 12))
    og = N <= 30
    return {"kind": kind, "h": h.tolist(), "p": p.tolist(), "w": w.tolist(), "L": L, "og": og, "Lg": rng.randint(1, min(N - 1, 5)), "R": rng.randint(0, 6),
            "np_seed": rng.getrandbits(31), "gctm": (rng.random() < 0.3 and L <= 4 and L >= 2)}


def falsify(ctx, deep=False):
    rng = ctx["rng"]
    n = 150 if deep else 30
    viols, worst = [], {}
    for i in range(n + (300 if deep else 0)):
        inp = gen_input(rng, og_hard=(i >= n))
        if i < n and i % 5 == 0:
            inp["h_int"] = True
        if i == 3:
            # heights in whole metres given as an integer array
            N = 24
            inp.update({"kind": "int-heights", "h": (numpy.arange(N) * 1000).tolist(), "h_int": True, "p": (rng.nprng().uniform(0.05, 1.0, size=N) * 1e-13).tolist(),
                        "w": [10.0] * N, "L": 4, "og": True, "Lg": 4, "R": 3, "gctm": False})
        if i in (4, 6):
            npr_ = rng.nprng(); n_ = rng.randint(6, 14); L_ = rng.randint(2, 4)
            for _try in range(50):
                hg_ = numpy.concatenate([[0.0], numpy.sort(npr_.uniform(4000, 20000, size=n_))])
                ed_ = hg_.max() / L_ * numpy.arange(L_)
                if len(numpy.unique(numpy.digitize(hg_, ed_))) == L_ and (hg_ < ed_[1]).sum() == 1:
                    break
            pg_ = npr_.uniform(0.05, 1.0, size=n_ + 1) * 1e-13; pg_[0] *= rng.choice([1, 5, 20])
            inp.update({"kind": "gctm-ground", "h": hg_.tolist(), "h_int": False, "p": pg_.tolist(), "w": [10.0] * (n_ + 1), "L": L_, "og": False, "gctm": True})
        if i in (8, 9):
            # a height gap at least one slab wide (dense surface-layer sampling plus a few high layers): some slab holds no layer
            npg = rng.nprng(); ng_ = rng.randint(4, 9)
            hg_ = numpy.sort(numpy.concatenate([npg.uniform(0, 600, size=ng_), npg.uniform(14000, 20000, size=rng.randint(1, 3))]))
            inp.update({"kind": "gap", "h": hg_.tolist(), "h_int": False, "p": (npg.uniform(0.05, 1.0, size=len(hg_)) * 1e-13).tolist(), "w": npg.uniform(2, 40, size=len(hg_)).tolist(),
                        "L": rng.randint(3, 6), "og": False, "gctm": False})
        if i == 7:
            # a fixed altitude grid on which only a few bins carry turbulence: as many non-zero layers as groups asked for, or fewer
            N_ = 16; Lg_ = rng.randint(3, 5); K_ = rng.randint(2, Lg_ - 1)          # fewer turbulent layers than groups asked for
            ps_ = numpy.zeros(N_); ps_[rng.nprng().choice(N_, size=K_, replace=False)] = rng.nprng().uniform(0.2, 1.0, size=K_) * 1e-13
            inp.update({"kind": "sparse-grid", "h": (numpy.arange(N_) * 1000.0).tolist(), "h_int": False, "p": ps_.tolist(), "w": [10.0] * N_, "L": 2, "og": True, "Lg": Lg_, "R": 3, "gctm": False})
        if i in (1, 2):
            # moment-conserving method on a profile whose lowest layer is not at height 0 (heights above sea level)
            N = 12 + 3 * i
            inp.update({"kind": "gctm-offset", "h": (2396.0 + numpy.arange(N) * (700.0 + 150.0 * i)).tolist(), "p": (rng.nprng().uniform(0.05, 1.0, size=N) * 1e-13).tolist(),
                        "w": [10.0] * N, "L": 2 + i, "og": False, "gctm": True})
        try:
            res = property_checks(inp)
        except Exception as ex:
            res = [("raised %s: %s" % (type(ex).__name__, str(ex)[:80]), float("inf"), 0.0)]
        for clause, err, tol in res:
            worst[clause] = max(worst.get(clause, -1e300), err if math.isfinite(err) else 1e300)
            if not (err <= tol):
                viols.append({"clause": clause, "error": err, "tolerance": tol, "input": inp})
    seen, keep = set(), []
    for v in viols:
        if v["clause"] not in seen:
            seen.add(v["clause"]); keep.append(v)
    return keep, {"evaluations": n, "max_error_per_clause": worst}


def replay(payload):
    v = payload.get("violation")
    if not v:
        print("replay file names a proof/correspondence failure, no input:", payload.get("proof", {}).get("failed_at"))
        return False
    bad = [(c, e, t) for c, e, t in property_checks(v["input"]) if not (e <= t)]
    for c, e, t in bad:
        print("  clause %r: error %g > %g" % (c, e, t))
    return not bad


def classify(v, known):
    c = v["clause"]
    if known["id"] == "C18-el-empty-slab-nan":
        return c.startswith("EL returns exactly L layers") and "empty-slab" in c
    if known["id"] == "C18-og-L1-returns-nothing":
        return c == "OG returns exactly L layers (L=1)"
    return False


def replay_known(known):
    with warnings.catch_warnings():
        warnings.simplefilter("ignore")
        if known["id"] == "C18-el-empty-slab-nan":
            h = numpy.array([0., 10., 20., 1000.]); p = numpy.ones(4)
            hL, cL = pc.equivalent_layers(h, p, 3)
            return not numpy.isfinite(hL).all()
        if known["id"] == "C18-og-L1-returns-nothing":
            h = numpy.arange(6.) * 100; p = numpy.ones(6)
            hg, cg = pc.optimal_grouping(1, 1, h, p)
            return len(hg) != 1
    return None
