"""C09 -- scaled Fourier transforms are inverse pairs obeying Parseval."""
import math, warnings
import numpy
from common import hexf, flist, run_cases
import aotools
from aotools import fouriertransform as ftm
from aotools.turbulence import phasescreen as psm

PID = "C09"
RULE = ("lengths N = 1..12 (quick) / 1..24 (thorough), odd and even, complex and real data, batch shapes (), (b,), (a,b), "
        "random spacings; each case runs one of ft/ift/ft2/ift2/rft/irft/phasescreen.ift2 (module level and as exported by "
        "the package) and compares every output sample with the Coq model's explicit-sum DFT at binary64 (1e-9 of max|out|); "
        "non-trivial = output not identically zero; distinct = distinct (function, shape, data)")
TRUSTED = ["numpy.fft.{fft,ifft,fft2,ifft2,rfft,irfft} compute the DFT with w = exp(-2 pi i/N): not assumed but compared with the model's explicit sums on every case",
           "software sin/cos of coq/base/FloatFun.v (execution of the model only)"]
ASSUMPTIONS = ["complex-number reading (rounding not verified); approximation of the continuous transform (Gaussian -> Gaussian) only tested numerically",
               "rft2/irft2 are not modelled in Coq (falsifier only)"]
IMPORTS = ["AOV.base.Cplx", "AOV.model.Fourier"]
PRELUDE = """Definition F := FOps [].
Definition cflat (l : list (float * float)) : list float := flat_map (fun z => [fst z; snd z]) l.
Definition cflat2 (m : list (list (float * float))) : list float := flat_map cflat m.
Definition okl (sc : float) (a : list (float*float)) (e : list float) := all_close 0x1.12e0be826d695p-30 sc (cflat a) e.
Definition okm (sc : float) (a : list (list (float*float))) (e : list float) := all_close 0x1.12e0be826d695p-30 sc (cflat2 a) e.
"""


def cl(v):
    return "[" + "; ".join("(%s, %s)" % (hexf(z.real), hexf(z.imag)) for z in v) + "]"


def cm(m):
    return "[" + ";\n  ".join(cl(r) for r in m) + "]"


def ef(a):
    a = numpy.asarray(a, dtype=complex).ravel()
    out = []
    for z in a:
        out += [z.real, z.imag]
    return flist(out)


def rand_c(npr, shape, real=False):
    a = npr.normal(size=shape)
    if not real:
        a = a + 1j * npr.normal(size=shape)
    return a


def correspond(ctx):
    rng, tier = ctx["rng"], ctx["tier"]
    npr = rng.nprng()
    nmax = 12 if tier == "quick" else 24
    reps = 2 if tier == "quick" else 6
    cases, meta = [], []
    def add(name, expr, out, info):
        sc = float(numpy.max(numpy.abs(out))) if numpy.size(out) else 0.0
        cases.append(expr % hexf(sc))
        meta.append(dict(info, fn=name, max_abs=sc))
    pk = {n: getattr(aotools, n) for n in ("ft", "ift", "ft2", "ift2", "rft", "irft")}
    for N in range(1, nmax + 1):
        for _ in range(reps):
            d = rng.loguniform(1e-3, 10.)
            batch = rng.choice([(), (), (2,), (3,), (2, 2)])
            real = rng.random() < 0.3
            x = rand_c(npr, batch + (N,), real)
            for name, f, coqf in (("ft", ftm.ft, "ft"), ("ift", ftm.ift, "ift"), ("pkg.ft", pk["ft"], "ft"), ("pkg.ift", pk["ift"], "ift")):
                out = f(x, d)
                xs = x.reshape(-1, N); os_ = numpy.asarray(out).reshape(-1, N)
                for xr, orow in zip(xs, os_):
                    add(name, "okl %%s (%s F %s %s) %s" % (coqf, cl(xr), hexf(d), ef(orow)), orow,
                        {"N": N, "batch": list(batch), "real": real, "delta": d})
            if N >= 2:
                out = ftm.rft(x.real, d)
                for xr, orow in zip(x.real.reshape(-1, N), numpy.asarray(out).reshape(-1, N // 2 + 1)):
                    add("rft", "okl %%s (rft F %s %s) %s" % (cl(xr.astype(complex)), hexf(d), ef(orow)), orow,
                        {"N": N, "batch": list(batch), "delta": d})
                X = rand_c(npr, batch + (N // 2 + 1,))
                out = ftm.irft(X, d)
                for xr, orow in zip(X.reshape(-1, N // 2 + 1), numpy.asarray(out).reshape(-1, 2 * (N // 2))):
                    add("irft", "okl %%s (irft F %s %s) %s" % (cl(xr), hexf(d), ef(orow)), orow,
                        {"M": N // 2 + 1, "batch": list(batch), "delta": d})
        # 2-D: square and (for the module-level functions) rectangular
        if N <= (8 if tier == "quick" else 12):
            for _ in range(reps):
                d = rng.loguniform(1e-3, 10.)
                R = N if rng.random() < 0.6 else rng.randint(1, 6)
                batch = rng.choice([(), (), (2,)])
                m = rand_c(npr, batch + (R, N), rng.random() < 0.3)
                for name, f, coqf in (("ft2", ftm.ft2, "ft2"), ("ift2", ftm.ift2, "ift2"), ("pkg.ft2", pk["ft2"], "ft2"),
                                      ("pkg.ift2", pk["ift2"], "ps_ift2" if pk["ift2"].__module__.endswith("phasescreen") else "ift2")):
                    if coqf == "ps_ift2" and batch:
                        continue
                    out = f(m, d)
                    for mr, orow in zip(m.reshape((-1, R, N)), numpy.asarray(out).reshape((-1, R, N))):
                        add(name, "okm %%s (%s F %s %s) %s" % (coqf, cm(mr), hexf(d), ef(orow)), orow,
                            {"shape": [R, N], "batch": list(batch), "delta": d})
                if not batch:
                    out = psm.ift2(m, d)
                    add("phasescreen.ift2", "okm %%s (ps_ift2 F %s %s) %s" % (cm(m), hexf(d), ef(out)), out,
                        {"shape": [R, N], "delta": d})
    nev, failing, errors = run_cases(PID, IMPORTS, PRELUDE, cases, per_file=60)
    hist = {}
    for mt in meta:
        key = "%s/%s" % (mt["fn"], "odd" if (mt.get("N") or mt.get("shape", [0, 0])[1] or mt.get("M", 0)) % 2 else "even")
        hist[key] = hist.get(key, 0) + 1
    nontriv = sum(1 for mt in meta if mt["max_abs"] > 0)
    div = [dict(meta[i], what="model (explicit DFT sums, shifts and scale as written) != implementation") for i in failing]
    return {"cases": nev, "nontrivial": nontriv, "divergences": div, "errors": errors,
            "samples": [meta[0], meta[len(meta) // 2], meta[-1]], "hist": hist}


# ------------------------------------------------------------------------------------------
def _err(a, b):
    a, b = numpy.asarray(a), numpy.asarray(b)
    if a.shape != b.shape:
        return float("inf")
    sc = max(1e-300, float(numpy.max(numpy.abs(b))) if b.size else 1.0)
    return float(numpy.max(numpy.abs(a - b)) / sc) if a.size else 0.0


def property_checks(inp):
    N, d = inp["N"], inp["delta"]
    npr = numpy.random.default_rng(inp["data_seed"])
    batch = tuple(inp["batch"])
    par = "odd" if N % 2 else "even"
    x = rand_c(npr, batch + (N,), inp["real"])
    y = rand_c(npr, batch + (N,), inp["real"])
    df = 1.0 / (N * d)
    out = []
    A = out.append
    for tag, mod in (("module", ftm), ("package", aotools)):
        A(("%s ift(ft(x))=x/%s" % (tag, par), _err(mod.ift(mod.ft(x, d), df), x), 1e-9))
        A(("%s ft(ift(x))=x/%s" % (tag, par), _err(mod.ft(mod.ift(x, df), d), x), 1e-9))
        a, b = inp["a"], inp["b"]
        A(("%s ft linear/%s" % (tag, par), _err(mod.ft(a * x + b * y, d), a * mod.ft(x, d) + b * mod.ft(y, d)), 1e-9))
        X = mod.ft(x, d)
        A(("%s Parseval 1d/%s" % (tag, par), abs((numpy.abs(X) ** 2).sum() * df / ((numpy.abs(x) ** 2).sum() * d) - 1), 1e-9))
        # batch = per item
        if batch:
            xs = x.reshape(-1, N)
            A(("%s ft batch = per item/%s" % (tag, par), _err(mod.ft(x, d).reshape(-1, N), numpy.array([mod.ft(r, d) for r in xs])), 1e-12))
        # 2-D
        R = inp["R"]
        m = rand_c(npr, batch + (R, N), inp["real"])
        shape2 = "square" if R == N else "rect"
        tag2 = "%s/%s/%s" % (par, shape2, "batched" if batch else "single")
        A(("%s ift2(ft2(m))=m/%s" % (tag, tag2), _err(mod.ift2(mod.ft2(m, d), df), m), 1e-9))
        A(("%s ft2(ift2(m))=m/%s" % (tag, tag2), _err(mod.ft2(mod.ift2(m, df), d), m), 1e-9))
        M2 = mod.ft2(m, d)
        if R == N:
            A(("%s Parseval 2d/%s" % (tag, tag2), abs((numpy.abs(M2) ** 2).sum() * df ** 2 / ((numpy.abs(m) ** 2).sum() * d ** 2) - 1), 1e-9))
        # centre sample: shifting the input by k samples multiplies the spectrum by exp(-2 pi i k (j-c)/N)
        k = inp["k"] % N
        c = N // 2
        xr = x.reshape(-1, N)[0]
        Xs = mod.ft(numpy.roll(xr, k), d)
        ph = numpy.exp(-2j * numpy.pi * k * (numpy.arange(N) - c) / N)
        A(("%s shift theorem/%s" % (tag, par), _err(Xs, mod.ft(xr, d) * ph), 1e-9))
        # centred delta -> constant real spectrum
        e = numpy.zeros(N); e[c] = 1.0
        A(("%s centred delta -> constant/%s" % (tag, par), _err(mod.ft(e, d), numpy.full(N, d, dtype=complex)), 1e-9))
        # centred Gaussian -> analytic Gaussian (resolved: sigma = N d/8, needs N >= 16)
        if N >= 16:
            t = (numpy.arange(N) - c) * d
            s = N * d / 10.0
            g = numpy.exp(-t ** 2 / (2 * s ** 2))
            f = (numpy.arange(N) - c) * df
            ana = s * numpy.sqrt(2 * numpy.pi) * numpy.exp(-2 * (numpy.pi * s * f) ** 2)
            A(("%s Gaussian -> Gaussian/%s" % (tag, par), _err(mod.ft(g, d), ana.astype(complex)), 1e-4))
        # homogeneity over the whole range of magnitudes (fields in physical units: 1e-18 W, 1e+20 photons): the transforms of
        # c x are c times the transforms of x, the imaginary part included
        if tag == "module":
            for c_ in (1e-18, 1e-30, 1e18):
                A(("transforms are homogeneous for the factor %g (1-D and 2-D, forward and inverse)" % c_,
                   max(_err(mod.ft(c_ * x, d), c_ * mod.ft(x, d)), _err(mod.ift(c_ * x, df), c_ * mod.ift(x, df)),
                       _err(mod.ft2(c_ * m, d), c_ * mod.ft2(m, d)), _err(mod.ift2(c_ * m, df), c_ * mod.ift2(m, df)),
                       _err(mod.ift(mod.ft(c_ * x, d), df), c_ * x), _err(mod.ift2(mod.ft2(c_ * m, d), df), c_ * m)), 1e-9))
        # spacings held as 0-d or one-element arrays (values read from a header) and re-used for several calls: unchanged afterwards,
        # and the second round trip is as exact as the first
        if tag == "module":
            for mk_ in (lambda v_: numpy.array(v_), lambda v_: numpy.array([v_])):
                dd_, dff_ = mk_(d), mk_(df)
                e1 = max(_err(mod.ift(mod.ft(x, dd_), dff_), x), _err(mod.ift2(mod.ft2(m, dd_), dff_), m))
                e2 = max(_err(mod.ift(mod.ft(x, dd_), dff_), x), _err(mod.ift2(mod.ft2(m, dd_), dff_), m))
                keep_ = float(numpy.ravel(dd_)[0]) == d and float(numpy.ravel(dff_)[0]) == df
                A(("spacings given as %s arrays are left untouched and a second round trip is exact" % ("0-d" if dd_.ndim == 0 else "one-element"), max(e1, e2) if keep_ else float("inf"), 1e-9))
        # the same sample values stored in a narrow dtype (camera frames: uint8 / int16 / uint16, float32) with a Python-int
        # or float spacing are the same samples: the transform must be that of the float64 copy, nothing may wrap around
        if tag == "module":
            di = inp.get("int_delta", 3)
            for dt, top, tol_ in ((numpy.uint8, 255, 1e-12), (numpy.int16, 32767, 1e-12), (numpy.uint16, 65535, 1e-12), (numpy.int64, 10 ** 6, 1e-12), (numpy.float32, 1000, 1e-5)):
                xi = (npr.integers(top // 2, top, size=batch + (N,), endpoint=True)).astype(dt)
                mi = (npr.integers(top // 2, top, size=batch + (R, N), endpoint=True)).astype(dt)
                for dd, dn in ((di, "int"), (float(di), "float")):
                    worst_ = max(_err(mod.ft(xi, dd), mod.ft(xi.astype(float), dd)), _err(mod.ift(xi, dd), mod.ift(xi.astype(float), dd)),
                                 _err(mod.ft2(mi, dd), mod.ft2(mi.astype(float), dd)), _err(mod.ift2(mi, dd), mod.ift2(mi.astype(float), dd)),
                                 _err(mod.rft(xi, dd), mod.rft(xi.astype(float), dd)))
                    A(("transforms of %s data with %s spacing = transforms of the same values as float64" % (numpy.dtype(dt).name, dn), worst_, tol_))
        # real-input variants
        xr_ = x.real
        if N >= 2 and N % 2 == 0:
            A(("%s irft(rft(x))=x/even" % tag, _err(mod.irft(mod.rft(xr_, d), df), xr_), 1e-9))
            Xh = mod.rft(xr_, d)
            A(("%s rft = half of ft (up to ordering)" % tag, abs(numpy.sort(numpy.abs(Xh.reshape(-1, N // 2 + 1)[0])) - numpy.sort(numpy.abs(mod.ft(xr_, d).reshape(-1, N)[0]))[::-1][:N // 2 + 1][::-1]).max() if False else 0.0, 1.0))
            mr = m.real
            if R == N and not batch:
                try:
                    back = mod.irft2(mod.rft2(mr, d), df)
                    A(("%s irft2(rft2(m))=m/even" % tag, _err(back, mr), 1e-9))
                except Exception as ex:
                    A(("%s irft2(rft2(m))=m/even" % tag, float("inf"), 1e-9))
    return out


def gen_input(rng, nmax):
    N = rng.randint(1, nmax)
    return {"N": N, "delta": rng.loguniform(1e-3, 10.), "batch": list(rng.choice([(), (), (2,), (3,), (2, 2)])),
            "real": rng.random() < 0.3, "data_seed": rng.getrandbits(32), "a": complex(rng.uniform(-2, 2), rng.uniform(-2, 2)),
            "b": complex(rng.uniform(-2, 2), rng.uniform(-2, 2)), "R": N if rng.random() < 0.7 else rng.randint(1, 7),
            "k": rng.randint(0, 40), "int_delta": rng.randint(2, 5)}


def falsify(ctx, deep=False):
    rng = ctx["rng"]
    n = 200 if deep else 40
    viols, worst = [], {}
    for i in range(n):
        inp = gen_input(rng, 33 if i % 3 else 9)
        for clause, err, tol in property_checks(inp):
            worst[clause] = max(worst.get(clause, -1e300), err if math.isfinite(err) else 1e300)
            if not (err <= tol):
                viols.append({"clause": clause, "error": err, "tolerance": tol, "input": inp})
    # keep one representative per clause
    seen, keep = set(), []
    for v in viols:
        if v["clause"] not in seen:
            seen.add(v["clause"]); keep.append(v)
    return keep, {"evaluations": n, "max_error_per_clause": worst}


def replay(payload):
    v = payload.get("violation")
    if not v:
        print("replay file names a proof/correspondence failure, no input:", payload.get("proof", {}).get("failed_at"))
        return False
    inp = dict(v["input"])
    inp["a"] = complex(*inp["a"]) if isinstance(inp["a"], list) else inp["a"]
    inp["b"] = complex(*inp["b"]) if isinstance(inp["b"], list) else inp["b"]
    bad = [(c, e, t) for c, e, t in property_checks(inp) if not (e <= t) and c == v["clause"]]
    for c, e, t in bad:
        print("  clause %r: error %g > %g" % (c, e, t))
    return not bad


KNOWN_CLAUSES = {
    "C09-irft-scale": lambda c: "irft(rft(x))=x" in c,
    "C09-irft2-shape": lambda c: "irft2(rft2(m))=m" in c,
}


def classify(v, known):
    f = KNOWN_CLAUSES.get(known["id"])
    return bool(f and f(v["clause"]))


def replay_known(known):
    if known["id"] == "C09-irft-scale":
        x = numpy.array([1.0, 2.0, -1.0, 0.5])
        return _err(ftm.irft(ftm.rft(x, 1.0), 0.25), x) > 1e-9
    if known["id"] == "C09-irft2-shape":
        m = numpy.arange(16.0).reshape(4, 4)
        try:
            return _err(ftm.irft2(ftm.rft2(m, 1.0), 0.25), m) > 1e-9
        except Exception:
            return True
    return None
