"""C05 -- infinite screen evolves by exactly one row per step, for any history."""
import math, warnings, pickle
import numpy
import infscreen_common as ic
from common import hexf, flist, flist2, run_cases

PID = "C05"
RULE = ("random operation sequences (add_row with injected and with generator-drawn innovation vectors, reads of .scrn, repr/str) on both variants, "
        "sizes 3..10 (thorough ..24; Fried sizes where the working size exceeds the requested one), histories of 1..14 steps in the correspondence "
        "and up to 3 x stencil_length + 3 steps in the falsifier (wrap-around of any internal buffer); correspondence: the exposed screen after the "
        "history against the Coq state machine run by vm_compute with the object's A, B matrices and the injected innovations (1e-9); "
        "non-trivial = at least 2 add_row steps; distinct = distinct (parameters, history)")
TRUSTED = ["model coq/model/InfScreen.v (add_row_state / exposed / step_vk / step_fried) hand-written",
           "A and B are taken from the object (their correctness is C04's subject)"]
ASSUMPTIONS = ["finiteness of the values is observed, not proved (the real-number model has no non-finite values)",
               "stationarity: the theoretical covariance is checked numerically to be a fixed point of the row recursion and the spectral radius of the "
               "recursion is computed; uniqueness/convergence from any start follows from rho < 1 but is not proved in Coq"]
PRELUDE = """Definition F := FOps [].
Definition okm (tol sc : float) (a e : list (list float)) := all_close2 tol sc a e.
"""


def plist(c):
    return "[" + "; ".join("(%d, %d)" % (int(a), int(b)) for a, b in c) + "]%nat"


def correspond(ctx):
    rng, tier = ctx["rng"], ctx["tier"]
    n = 10 if tier == "quick" else 240
    cases, meta = [], []
    for k in range(n):
        p = ic.gen_params(rng, small=(tier == "quick" or k % 3 != 0))
        gen = ic.ScriptedGenerator(rng.getrandbits(30))
        try:
            s = ic.make_screen(p["kind"], p["nx"], p["ps"], p["r0"], p["L0"], p["extra"], gen)
        except Exception:
            continue
        nx = s.nx_size
        gen.row_len = nx
        scr0 = numpy.array(s._scrn, copy=True)
        steps = rng.randint(1, 14)
        for t in range(steps):
            if rng.random() < 0.7:
                gen.queue.append([rng.gauss(0, 1) for _ in range(nx)])
            s.add_row()
            if rng.random() < 0.3:
                _ = s.scrn; _ = repr(s)
        bs = gen.served[-steps:]
        out = numpy.array(s.scrn, copy=True)
        fn = "step_vk" if p["kind"] == "vk" else "step_fried"
        s0 = "{| sl := %d; nxs := %d; req := %d; data := %s |}" % (s.stencil_length, nx, s.requested_nx_size, flist2(scr0))
        expr = ("okm %s %s (exposed (fold_left (%s F %s %s %s) %s %s)) %s"
                % (hexf(1e-9), hexf(float(numpy.abs(scr0).max())), fn, flist2(s.A_mat), flist2(s.B_mat), plist(s.stencil_coords),
                   "[" + "; ".join(flist(b) for b in bs) + "]", s0, flist2(out)))
        cases.append(expr)
        meta.append(dict(p, steps=steps, nx_size=nx, stencil_length=int(s.stencil_length), requested=int(s.requested_nx_size), nontrivial=steps >= 2))
    nev, failing, errors = run_cases(PID, ic.IMPORTS, PRELUDE, cases, per_file=2, timeout=900)
    hist = {}
    for m in meta:
        key = "%s steps=%s%s" % (m["kind"], "1-4" if m["steps"] <= 4 else "5-14", " nx>req" if m["nx_size"] > m["requested"] else "")
        hist[key] = hist.get(key, 0) + 1
    div = [dict(meta[i], what="state machine model != implementation after this history") for i in failing]
    return {"cases": nev, "nontrivial": sum(1 for m in meta if m["nontrivial"]), "divergences": div, "errors": errors,
            "samples": [meta[0], meta[-1]] if meta else ["(all constructions rejected)"], "hist": hist}


def gen_state(g):
    return pickle.dumps(g.bit_generator.state)


def property_checks(p):
    out = []
    A = out.append
    siblings = [(1.0, 1.0)] + ([(1.0, 1.6)] if p.get("family") else [])
    for i, (r0f, psf) in enumerate(siblings):
        gen = ic.ScriptedGenerator(p["data_seed"] + i)
        try:
            s = ic.make_screen(p["kind"], p["nx"], (p["ps"] if psf == 1.0 else p["ps"] * psf), p["r0"] * r0f, p["L0"], p["extra"], gen)
        except Exception:
            continue
        tag = "" if i == 0 else " (after a sibling screen)"
        A(("a screen is only built when its stencil covariance admits the factorisation that defines A%s" % tag, 0.0 if ic.factorisable(s) else 1.0, 0.0))
        N = s.requested_nx_size
        gen.row_len = s.nx_size           # record the innovation vector of every step
        bad_affine = 0.0
        nsteps = 3 * int(s.stencil_length) + 3 if p.get("long") else p["steps"]
        bad_shape = bad_shift = bad_finite = bad_read = 0
        for t in range(nsteps):
            before = numpy.array(s.scrn, copy=True)
            full_before = numpy.array(s._scrn, copy=True)
            st = gen_state(s._R)
            a = s.scrn; txt = repr(s); b = s.scrn
            if not (numpy.array_equal(a, before) and numpy.array_equal(b, before) and numpy.array_equal(s._scrn, full_before) and gen_state(s._R) == st):
                bad_read += 1
            nserved = len(gen.served)
            ret = s.add_row()
            after = numpy.array(s.scrn, copy=True)
            if len(gen.served) == nserved + 1 and s._scrn.shape == full_before.shape:
                # the recursion itself: von Karman X = A Z + B b; Fried: the same on values relative to the reference pixel (1, 1)
                Z = full_before[(s.stencil_coords[:, 0], s.stencil_coords[:, 1])]
                bvec = gen.served[-1]
                ref = full_before[1, 1] if p["kind"] == "fried" else 0.0
                want = s.A_mat.dot(Z - ref) + s.B_mat.dot(bvec) + ref
                scale = max(float(numpy.abs(want).max()), 1e-300)
                bad_affine = max(bad_affine, float(numpy.abs(s._scrn[0] - want).max() / scale))
            if after.shape != (N, N) or numpy.asarray(ret).shape != (N, N):
                bad_shape += 1; continue
            if not numpy.all(numpy.isfinite(after)):
                bad_finite += 1
            if not numpy.array_equal(after[1:], before[:-1]):
                bad_shift += 1
            if not numpy.array_equal(s._scrn[1:], full_before[:-1]) or s._scrn.shape != full_before.shape:
                bad_shift += 1
        if i == 0:
            # frames handed out by add_row() / .scrn and kept WITHOUT copying stay what they were (the history is a list of such frames)
            kept, copies = [], []
            for t in range(4):
                fr_ = s.add_row(); kept.append(fr_); copies.append(numpy.array(fr_, copy=True))
                kept.append(s.scrn); copies.append(numpy.array(s.scrn, copy=True))
            A(("frames kept without copying are not overwritten by later rows", float(sum(0 if numpy.array_equal(a_, b_) else 1 for a_, b_ in zip(kept, copies))), 0.0))
            # a copied (copy.deepcopy) and a pickled-and-restored screen are the same screen: same exposed shape and contents,
            # and -- the generator state being part of the copy -- the same next rows as the original
            import copy as _copy
            sp_ = ic.make_screen(p["kind"], p["nx"], p["ps"], p["r0"], p["L0"], p["extra"], 4321 + int(p["data_seed"]) % 1000)
            sp_.add_row(); sp_.add_row()
            clones = [("deepcopy", _copy.deepcopy(sp_)), ("pickle", pickle.loads(pickle.dumps(sp_)))]
            nxt = [numpy.array(sp_.add_row(), copy=True) for _ in range(3)]
            for cname, c_ in clones:
                ok_shape = numpy.asarray(c_.scrn).shape == (N, N)
                rows_c = [numpy.array(c_.add_row(), copy=True) for _ in range(3)]
                same_rows = ok_shape and all(a_.shape == b_.shape and numpy.array_equal(a_, b_) for a_, b_ in zip(rows_c, nxt))
                A(("a %s of a screen keeps the requested shape and continues with the same rows as the original" % cname, 0.0 if same_rows else 1.0, 0.0))
        A(("exposed screen keeps the requested shape%s" % tag, float(bad_shape), 0.0))
        A(("only finite values%s" % tag, float(bad_finite), 0.0))
        A(("previous screen shifted down by exactly one row, nothing else changes%s" % tag, float(bad_shift), 0.0))
        A(("reading / printing alters neither the screen nor the random stream%s" % tag, float(bad_read), 0.0))
        A(("each new row is A Z + B b of the stencil values and the drawn innovation (%s)%s" % ("relative to the reference pixel" if p["kind"] == "fried" else "no reference", tag), bad_affine, 1e-9))
        if p["kind"] != "vk":
            # Fried variant: the covariance its A and B are built from is the von Karman covariance of ITS geometry
            Czz_f = ic.true_blocks(s)[0]
            A(("the stencil covariance the recursion preserves is the von Karman covariance at the true separations%s" % tag,
               float(numpy.abs(numpy.asarray(s.cov_mat_zz, dtype=float) - Czz_f).max() / Czz_f.max()), 2e-6))
        if p["kind"] == "vk":
            # stationarity: theoretical covariance of the n_columns stencil rows is a fixed point of the recursion
            nc, nx = s.n_columns, s.nx_size
            Czz, Cxx, Czx, Cxz = ic.true_blocks(s)
            m = nc * nx
            Fm = numpy.zeros((m, m)); Fm[:nx, :] = s.A_mat
            if nc > 1:
                Fm[nx:, :m - nx] = numpy.eye(m - nx)
            Gm = numpy.zeros((m, nx)); Gm[:nx, :] = s.B_mat
            Sig = Czz      # rows 0..nc-1, row-major = stencil order
            resid = numpy.abs(Fm @ Sig @ Fm.T + Gm @ Gm.T - Sig).max() / Sig.max()
            cond = numpy.linalg.cond(Czz)
            A(("von Karman covariance is a fixed point of the row recursion%s" % tag, float(resid), 3e-7 * cond + 1e-5))
            # the same on the covariance the screen itself holds (binary32 values; equal separations give equal entries, so
            # translation invariance is exact and only the float64 factorisation errors remain)
            So = numpy.asarray(s.cov_mat_zz, dtype=float)
            # ... and that covariance is the von Karman covariance of the screen's own geometry (true pixel separations, in
            # whatever length unit), so that the stationary law of the rows is the one the property names
            A(("the stencil covariance the recursion preserves is the von Karman covariance at the true separations%s" % tag,
               float(numpy.abs(So - Czz).max() / Czz.max()), 2e-6))
            ro = numpy.abs(Fm @ So @ Fm.T + Gm @ Gm.T - So).max() / So.max()
            A(("the screen's own stencil covariance is a fixed point of the row recursion%s" % tag, float(ro), 1e-12 * numpy.linalg.cond(So) + 1e-9))
            rho = float(numpy.max(numpy.abs(numpy.linalg.eigvals(Fm))))
            A(("row recursion is stable (spectral radius < 1)%s" % tag, rho, 1.0 - 1e-9))
    return out


def falsify(ctx, deep=False):
    rng = ctx["rng"]
    n = 40 if deep else 8
    viols, worst = [], {}
    def forced(rng):
        """inputs every run includes, besides the random ones (none of them replaces a random draw)"""
        f = []
        f.append({"kind": "vk", "nx": 8, "ps": 1, "r0": 1.0, "L0": 20.0, "extra": 1})                       # integer pixel scale
        f.append({"kind": "fried", "nx": 6, "ps": 2, "r0": 1.5, "L0": 30.0, "extra": 2})
        # near the edge of what the Cholesky factorisation accepts (huge outer scale in pixels): known finding
        f.append({"kind": "vk", "nx": 8, "ps": 0.05, "r0": 0.1, "L0": 2000.0, "extra": 2})
        # sampling so fine against the outer scale that the stencil covariance is numerically singular (the library refuses these)
        f.append({"kind": "vk", "nx": rng.choice([8, 16]), "ps": 0.01, "r0": 0.2, "L0": rng.choice([1e3, 1e4]), "extra": rng.choice([1, 2]), "steps": 12})
        # fine sampling of a long outer scale (L0 / pixel between 5 000 and 15 000: centimetre pixels, L0 of tens of metres),
        # below the regime of the known finding (>= 2e4) -- the recursion is stable here and must stay so
        q_ = rng.choice([5000.0, 8000.0, 12000.0, 15000.0]); ps_ = rng.choice([0.005, 0.01, 0.02])
        f.append({"kind": "vk", "nx": rng.choice([8, 16]), "ps": ps_, "r0": rng.uniform(0.05, 0.3), "L0": q_ * ps_, "extra": rng.choice([1, 2]), "steps": 40})
        # bench-scale grid (tens of microns per pixel): nothing may depend on the absolute length unit
        ps_ = rng.loguniform(2e-5, 1e-4)
        f.append({"kind": "vk", "nx": 8, "ps": ps_, "r0": ps_ * rng.uniform(1.0, 5.0), "L0": ps_ * rng.uniform(50, 1000), "extra": 2, "steps": 40})
        # a screen taller than 64 rows over a history of three times its length
        f.append({"kind": "vk", "nx": rng.choice([70, 80, 97]), "ps": 0.1, "r0": 0.2, "L0": 25.0, "extra": rng.choice([1, 2]), "long": True})
        if deep:
            f.append({"kind": "fried", "nx": rng.choice([40, 65]), "ps": 0.1, "r0": 0.2, "L0": 25.0, "extra": 1, "long": True})
        # a von Karman and a Fried family (siblings with another pixel scale built before)
        for kind_ in ("vk", "fried"):
            q = ic.gen_params(rng, small=True); q["kind"] = kind_
            if kind_ == "vk":
                q["nx"] = rng.randint(3, 10); q["extra"] = rng.randint(1, 3)
            else:
                q["nx"] = rng.choice([3, 4, 5, 6, 7, 9]); q["extra"] = rng.randint(1, 3)
            q["family"] = True
            f.append(q)
        return f
    cases = []
    for k in range(n):
        p = ic.gen_params(rng, small=not (deep and k % 4 == 0))
        p["long"] = (k % 2 == 0); p["family"] = (k % 3 == 0)
        cases.append(p)
    cases += forced(rng)
    for p in cases:
        p.setdefault("family", False); p.setdefault("long", False)
        p["data_seed"] = rng.getrandbits(30); p.setdefault("steps", rng.randint(1, 12))
        try:
            res = property_checks(p)
        except Exception as ex:
            res = [("raised %s: %s" % (type(ex).__name__, str(ex)[:80]), float("inf"), 0.0)]
        for clause, err, tol in res:
            worst[clause] = max(worst.get(clause, -1e300), err if math.isfinite(err) else 1e300)
            if not (err <= tol):
                viols.append({"clause": clause, "error": err, "tolerance": tol, "input": p})
    seen, keep = set(), []
    for v in viols:
        if v["clause"] not in seen:
            seen.add(v["clause"]); keep.append(v)
    return keep, {"evaluations": len(cases), "max_error_per_clause": worst}


def replay(payload):
    v = payload.get("violation")
    if not v:
        print("replay file names a proof/correspondence failure, no input:", payload.get("proof", {}).get("failed_at"))
        return False
    bad = [(c, e, t) for c, e, t in property_checks(v["input"]) if not (e <= t)]
    for c, e, t in bad:
        print("  clause %r: error %g > %g" % (c, e, t))
    return not bad


def classify(v, known):
    if known["id"] == "C05-vk-unstable-near-ill-conditioning":
        inp = v["input"]
        if not (v["clause"].startswith("row recursion is stable") and inp.get("kind") == "vk" and float(inp["L0"]) / float(inp["ps"]) >= 2e4):
            return False
        # the finding is about screens whose covariance the library DID factorise; an unstable recursion on a covariance that does
        # not factorise (some substitute inverse was used) is something else
        try:
            s_ = ic.make_screen("vk", inp["nx"], inp["ps"], inp["r0"], inp["L0"], inp["extra"], ic.ScriptedGenerator(1))
            return ic.factorisable(s_)
        except Exception:
            return True
    return False


def replay_known(known):
    if known["id"] == "C05-vk-unstable-near-ill-conditioning":
        import warnings
        with warnings.catch_warnings():
            warnings.simplefilter("ignore")
            s = ic.make_screen("vk", 8, 0.05, 0.1, 2000.0, 2, ic.ScriptedGenerator(1))
        nc, nx = s.n_columns, s.nx_size
        m = nc * nx
        Fm = numpy.zeros((m, m)); Fm[:nx, :] = s.A_mat; Fm[nx:, :m - nx] = numpy.eye(m - nx)
        return float(numpy.max(numpy.abs(numpy.linalg.eigvals(Fm)))) >= 1.0
    return None
