"""C11 -- propagators form a group and agree with each other and with theory."""
import math
import numpy
import optics_common as oc
from aotools import opticalpropagation as op

PID = "C11"
RULE = oc.__doc__ + ("; same pixel-wise correspondence cases as C10 (random fields, N in {2..8(12)}, both signs of z, magnification incl. 1, z = 0) "
        "plus, in the falsifier, programs of 1-5 angular-spectrum steps with equal total distance, magnified round trips, lens vs one-step, "
        "cross-propagator agreement on coinciding grids and the analytic Gaussian beam; non-trivial = finite non-zero output")
TRUSTED = ["model coq/model/Optics.v hand-written (tied by correspondence); DFT inversion from proofs/Dft_proofs.v",
           "software sin/cos of coq/base/FloatFun.v (execution of the model only)"]
ASSUMPTIONS = ["complex-number reading (rounding not verified)",
               "magnified round trip, agreement between propagators and with Gaussian-beam theory are NOT proved (discretisation of the continuous Fresnel integral); numerical falsifier only"]


def correspond(ctx):
    return oc.gen_cases(ctx["rng"], ctx["tier"], PID)


def gaussian_checks(inp, A):
    """well-resolved Gaussian beam at its waist: width, curvature, Gouy phase; orientation with an off-centre beam"""
    N = 128
    wvl = inp["wvl"]
    w0 = inp["w0"]
    d = w0 / 6.0
    k = 2 * numpy.pi / wvl
    zR = numpy.pi * w0 ** 2 / wvl
    z = inp.get("gz", inp["zfrac"] * zR)     # history variants keep the absolute distance of their sibling
    c = numpy.arange(-N / 2, N / 2) * d
    X, Y = numpy.meshgrid(c, c)
    x0, y0 = inp["off"][0] * w0, inp["off"][1] * w0
    U0 = numpy.exp(-((X - x0) ** 2 + (Y - y0) ** 2) / w0 ** 2).astype(complex)
    w = w0 * numpy.sqrt(1 + (z / zR) ** 2)
    Rc = z * (1 + (zR / z) ** 2)
    psi = numpy.arctan(z / zR)
    def analytic(Xo, Yo):
        r2 = (Xo - x0) ** 2 + (Yo - y0) ** 2
        return (w0 / w) * numpy.exp(-r2 / w ** 2) * numpy.exp(1j * k * r2 / (2 * Rc)) * numpy.exp(-1j * psi)
    ref = analytic(X, Y)
    got = op.angularSpectrum(U0, wvl, d, d, z)
    A(("Gaussian beam angularSpectrum (width, curvature, Gouy, orientation)", oc.relerr(got, ref), 2e-3))
    # two-step onto a grid magnified by m: same field sampled at m*d
    m = inp["m"]
    Xm, Ym = X * m, Y * m
    got2 = op.twoStepFresnel(U0, wvl, d, m * d, z)
    centred = (x0 == 0 and y0 == 0)
    tag = "centred beam" if centred else "off-centre beam"
    gotm = op.angularSpectrum(U0, wvl, d, m * d, z)
    # the two-step method passes through an intermediate plane at distance Dz1 = z/(1-m) sampled at wvl|Dz1|/(N d): the
    # comparison is only meaningful when that grid resolves and contains the beam there ("beams resolved by the grid")
    Dz1 = z / 2.0 if m == 1 else z / (1.0 - m)
    w_int = w0 * numpy.sqrt(1 + (Dz1 / zR) ** 2)
    d1a = wvl * abs(Dz1) / (N * d)
    reach = max(abs(x0), abs(y0))
    resolved = (N * d1a / 2.0 >= reach + 3.0 * w_int) and (d1a <= w_int / 2.5) and (N * m * d / 2.0 >= reach + 3.0 * w)
    if resolved:
        # orientation: compared as returned ...
        A(("Gaussian beam twoStepFresnel as returned/%s" % tag, oc.relerr(got2, analytic(Xm, Ym)), 5e-3))
        A(("angularSpectrum(mag) vs twoStepFresnel as returned/%s" % tag, oc.relerr(gotm, got2), 5e-3))
        # ... and up to the point reflection about the grid origin (known finding C11-twostep-point-reflected)
        got2r = numpy.roll(got2[::-1, ::-1], 1, (0, 1))
        A(("Gaussian beam twoStepFresnel up to point reflection", oc.relerr(got2r, analytic(Xm, Ym)), 5e-3))
        A(("angularSpectrum(mag) vs twoStepFresnel up to point reflection", oc.relerr(gotm, got2r), 5e-3))
    # one-step: output spacing wvl z/(N d); only meaningful when that grid still resolves the beam
    d2 = wvl * z / (N * d)
    if 4 * d2 < w and N * d2 > 6 * (w + max(abs(x0), abs(y0))):
        X1, Y1 = X / d * d2, Y / d * d2
        got1 = op.oneStepFresnel(U0, wvl, d, z)
        A(("Gaussian beam oneStepFresnel", oc.relerr(got1, analytic(X1, Y1)), 5e-3))
        A(("oneStepFresnel vs angularSpectrum on the same grid", oc.relerr(got1, op.angularSpectrum(U0, wvl, d, d2, z)), 5e-3))


def property_checks(inp):
    npr = numpy.random.default_rng(inp["data_seed"])
    N, wvl, d, z = inp["N"], inp["wvl"], inp["d1"], inp["z"]
    U = oc.rand_field(npr, N)
    Ukeep = U.copy()
    out = []
    A = out.append
    par = "evenN" if N % 2 == 0 else "oddN"
    full = op.angularSpectrum(U, wvl, d, d, z)
    A(("z=0 returns input", oc.relerr(op.angularSpectrum(U, wvl, d, 1.7 * d, 0), U), 0.0))
    # programs: any split of z into steps
    fr = numpy.array(inp["split"]); fr = fr / fr.sum()
    V = U
    for q in fr:
        V = op.angularSpectrum(V, wvl, d, d, q * z)
    A(("distances add (%d steps)/%s" % (len(fr), par), oc.relerr(V, full), 1e-9))
    # a split with a backward step
    V = op.angularSpectrum(op.angularSpectrum(U, wvl, d, d, 1.6 * z), wvl, d, d, -0.6 * z)
    A(("distances add (overshoot and come back)/%s" % par, oc.relerr(V, full), 1e-9))
    A(("-z undoes +z/%s" % par, oc.relerr(op.angularSpectrum(full, wvl, d, d, -z), U), 1e-9))
    # the group law does not depend on the length scale: nanometre-scale steps (x-ray / near-field set-ups in SI units)
    wn, dn = 1e-10 * inp.get("nano", 1.0), 1e-9 * inp.get("nano", 1.0)
    zn = N * dn * dn / wn * 0.2
    one = op.angularSpectrum(U, wn, dn, dn, 2 * zn)
    two = op.angularSpectrum(op.angularSpectrum(U, wn, dn, dn, zn), wn, dn, dn, zn)
    A(("distances add (two nanometre-scale steps)/%s" % par, oc.relerr(two, one), 1e-9))
    A(("a nanometre-scale step is not the identity/%s" % par, 0.0 if oc.relerr(op.angularSpectrum(U, wn, dn, dn, zn), U) > 1e-6 else 1.0, 0.0))
    # magnification round trip: equal to the input up to one constant phase
    m = inp["m"]
    back = op.angularSpectrum(op.angularSpectrum(U, wvl, d, m * d, z), wvl, m * d, d, -z)
    ratio = back / U
    A(("magnified round trip: modulus/%s" % par, float(numpy.max(numpy.abs(numpy.abs(ratio) - 1))), 1e-8))
    A(("magnified round trip: constant phase/%s" % par, float(numpy.max(numpy.abs(ratio / ratio.flat[0] - 1))), 1e-8))
    # lens = one-step over z=f after the lens phase
    f = inp["f"]
    k = 2 * numpy.pi / wvl
    c = numpy.arange(-N / 2, N / 2) * d
    X, Y = numpy.meshgrid(c, c)
    # (both sides evaluate exp(i phi) at phases up to k x2^2/(2 f) with x2 ~ wvl f/(2 d): an argument of size phi carries a
    # rounding error ~ phi * 2^-53, so the tolerance grows with the largest phase when the sampling approaches the wavelength)
    x2max = wvl * abs(f) / (2 * d)
    phimax = k / (2 * abs(f)) * 2 * x2max ** 2
    A(("lensAgainst = oneStepFresnel o lens phase", oc.relerr(op.lensAgainst(U, wvl, d, f),
        op.oneStepFresnel(U * numpy.exp(-1j * k / (2 * f) * (X ** 2 + Y ** 2)), wvl, d, f)), 1e-9 + 1e-14 * phimax))
    # distances / spacings held as NumPy scalars or 0-d arrays are the same numbers (unit magnification included)
    with numpy.errstate(all="ignore"):
        ts_py = op.twoStepFresnel(U, wvl, d, d, z)
        worst_np = 0.0
        for conv in (numpy.float64, lambda v_: numpy.array(v_)):
            ts_np = op.twoStepFresnel(U, conv(wvl), conv(d), conv(d), conv(z))
            as_np = op.angularSpectrum(U, conv(wvl), conv(d), conv(d), conv(z))
            worst_np = max(worst_np, oc.relerr(ts_np, ts_py) if numpy.all(numpy.isfinite(ts_np)) else float("inf"), oc.relerr(as_np, full))
    A(("NumPy-scalar / 0-d array arguments give the result of the equal Python floats (unit magnification)/%s" % par, worst_np, 1e-12))
    # a zero-length step hands back a field of its own: working in place on it does not touch the input
    z0 = op.angularSpectrum(U, wvl, d, d, 0)
    A(("the result of a zero-length step does not share memory with the input/%s" % par, 1.0 if numpy.shares_memory(z0, U) else 0.0, 0.0))
    # the field passed in is still that field afterwards (every law above is a statement about it), whatever the call order
    A(("the propagators leave the input field untouched/%s" % par, 0.0 if numpy.array_equal(U, Ukeep) else 1.0, 0.0))
    W = Ukeep.copy()
    r_as = op.angularSpectrum(W, wvl, d, m * d, z); r_two = op.twoStepFresnel(W, wvl, d, m * d, z); r_one = op.oneStepFresnel(W, wvl, d, z); r_len = op.lensAgainst(W, wvl, d, f)
    W2 = Ukeep.copy()
    q_len = op.lensAgainst(W2, wvl, d, f); q_one = op.oneStepFresnel(W2, wvl, d, z); q_two = op.twoStepFresnel(W2, wvl, d, m * d, z); q_as = op.angularSpectrum(W2, wvl, d, m * d, z)
    A(("results do not depend on the order in which the propagators are called on one field/%s" % par,
       0.0 if all(numpy.array_equal(x_, y_, equal_nan=True) for x_, y_ in ((r_as, q_as), (r_two, q_two), (r_one, q_one), (r_len, q_len))) else 1.0, 0.0))
    if inp.get("gauss"):
        gaussian_checks(inp, A)
    return out


def safe_checks(inp):
    try:
        return property_checks(inp)
    except Exception as ex:
        return [("propagator raised %s" % type(ex).__name__, float("inf"), 0.0)]


def gen_input(rng, gauss):
    N = rng.choice([rng.choice([2, 4, 6, 8, 16, 5, 9]), rng.choice([2, 4, 6, 8, 16, 5, 9]), rng.randint(2, 64), rng.choice([26, 34, 38, 46, 58])])
    wvl = rng.uniform(0.4e-6, 2e-6); d1 = oc.gen_spacing(rng, wvl)
    return {"N": N, "wvl": wvl, "d1": d1, "nano": rng.loguniform(0.5, 5.0), "m": rng.choice([rng.uniform(0.5, 2.0), 2.0, 0.5]),
            "z": rng.choice([-1, 1]) * rng.loguniform(0.05, 20.0) * (N * d1 * d1 / wvl),
            "f": rng.choice([-1, 1]) * rng.loguniform(0.1, 30.0), "data_seed": rng.getrandbits(32),
            "split": [rng.uniform(0.1, 1) for _ in range(rng.randint(1, 5))],
            "gauss": gauss, "w0": rng.loguniform(1e-3, 1e-2), "zfrac": rng.uniform(0.3, 1.5) * rng.choice([1, 1, -1]),
            "off": [rng.choice([0, 0.7, -1.1]), rng.choice([0, 0.5, 1.3])]}


def falsify(ctx, deep=False):
    rng = ctx["rng"]
    n = 120 if deep else 30
    viols, worst = [], {}
    inputs = []
    for i in range(n):
        inp = gen_input(rng, gauss=(i % (3 if deep else 6) == 0))
        inputs.append(inp)
        if i % 5 == 0:
            # history: the same (N, wavelength, magnification, z) again on grids of other spacings (coarser only: the
            # absolute distance is kept, and a finer grid / narrower beam would put z beyond the 1.5 Rayleigh ranges
            # within which the 128-pixel grids still contain the beam)
            for sc in (1.25, 1.5):
                v = dict(inp); v["d1"] = inp["d1"] * sc; v["w0"] = inp["w0"] * sc
                v["gz"] = inp["zfrac"] * numpy.pi * inp["w0"] ** 2 / inp["wvl"]
                inputs.append(v)
    for inp in inputs:
        for clause, err, tol in safe_checks(inp):
            worst[clause] = max(worst.get(clause, -1e300), err if math.isfinite(err) else 1e300)
            if not (err <= tol):
                viols.append({"clause": clause, "error": err, "tolerance": tol, "input": inp})
    seen, keep = set(), []
    for v in viols:
        if v["clause"] not in seen:
            seen.add(v["clause"]); keep.append(v)
    return keep, {"evaluations": n, "max_error_per_clause": worst}


def replay(payload):
    v = payload.get("violation")
    if not v:
        print("replay file names a proof/correspondence failure, no input:", payload.get("proof", {}).get("failed_at"))
        return False
    bad = [(c, e, t) for c, e, t in property_checks(v["input"]) if not (e <= t) and c == v["clause"]]
    for c, e, t in bad:
        print("  clause %r: error %g > %g" % (c, e, t))
    return not bad


def classify(v, known):
    return (known["id"] == "C11-twostep-point-reflected" and v["clause"].endswith("as returned/off-centre beam"))


def replay_known(known):
    if known["id"] == "C11-twostep-point-reflected":
        out = []
        inp = {"wvl": 1e-6, "w0": 5e-3, "zfrac": 0.7, "off": [0.7, 0.5], "m": 1.5}
        gaussian_checks(inp, out.append)
        d = dict((c, e) for c, e, t in out)
        return d["Gaussian beam twoStepFresnel as returned/off-centre beam"] > 5e-3
    return None
