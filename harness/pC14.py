"""C14 -- pupil masks and sub-aperture selection are exact geometric indicators."""
import math, warnings
import numpy
from common import hexf, flist, flist2, run_cases
from aotools.functions import pupil
from aotools.wfs import wfslib

PID = "C14"
RULE = ("circle: sizes 1..24 odd and even, both origins, radii and centres on the 1/4-pixel lattice (exact ties distance == radius), at "
        "half-pixel/boundary-touching positions and at random binary64 values; findActiveSubaps/computeFillFactor: 0/1 and dyadic masks "
        "(random, disc, off-centre), 1..8 sub-apertures incl. non-divisors, thresholds at exact fill values; make_subaps_2d: random masks/data. "
        "All outputs compared EXACTLY (bitwise) with the Coq model at binary64; non-trivial = mask neither empty nor full / at least one cell "
        "selected and one rejected; distinct = distinct argument tuples")
TRUSTED = ["model coq/model/Pupil.v hand-written; numpy.round/Python round = round-half-even; boolean-mask assignment enumerates row-major",
           "NumPy's pairwise mean equals sum/count exactly on 0/1 and dyadic masks (the generated masks)"]
ASSUMPTIONS = ["theorems are in exact real arithmetic; the binary64 indicator can differ from the real one only when a representable squared "
               "distance lies within half an ulp of r*r (non-dyadic r or c): such boundary-ambiguous pixels are not compared against the real "
               "indicator, the bit-exact correspondence still covers them",
               "area -> pi r^2 is only tested numerically (Gauss circle bound)"]
IMPORTS = ["AOV.model.Pupil"]
PRELUDE = """Definition F := FOps [].
Fixpoint eql (a b : list float) : bool := match a, b with [] , [] => true | x :: r, y :: s => (x =? y) && eql r s | _, _ => false end.
Fixpoint eqm (a b : list (list float)) : bool := match a, b with [], [] => true | x :: r, y :: s => eql x y && eqm r s | _, _ => false end.
Definition act (l : list ((float * float) * float)) : list (list float) := map (fun e => [fst (fst e); snd (fst e); snd e]) l.
Definition bm (m : list (list float)) : list (list bool) := map (map (fun x => x =? 1)) m.
"""


def lattice(rng, lo, hi):
    return rng.randint(int(lo * 4), int(hi * 4)) / 4.0


def correspond(ctx):
    rng, tier = ctx["rng"], ctx["tier"]
    npr = rng.nprng()
    n_circ = 120 if tier == "quick" else 6000
    n_sub = 60 if tier == "quick" else 2400
    cases, meta = [], []
    for k in range(n_circ):
        n = rng.randint(1, 24)
        kind = rng.choice(["lattice", "lattice", "half", "random", "touch"])
        mid = rng.random() < 0.6
        if kind == "lattice":
            r, c0, c1 = lattice(rng, 0, n), lattice(rng, -n / 2, n / 2), lattice(rng, -n / 2, n / 2)
        elif kind == "half":
            r, c0, c1 = rng.randint(0, n) + 0.5 * rng.randint(0, 1), 0.5 * rng.randint(-n, n), 0.5 * rng.randint(-n, n)
        elif kind == "touch":
            r = n / 2.0 if rng.random() < 0.5 else math.sqrt(rng.randint(1, n * n))
            c0, c1 = rng.choice([0, 0.5, -0.5, n / 2.0]), rng.choice([0, 0.5, 1.0])
        else:
            r, c0, c1 = rng.uniform(0, n), rng.uniform(-n / 2, n / 2), rng.uniform(-n / 2, n / 2)
        if not mid:
            c0 += n / 2.0 if rng.random() < 0.7 else 0; c1 += n / 2.0 if rng.random() < 0.7 else 0
        out = pupil.circle(r, n, (c0, c1), "middle" if mid else "corner")
        cases.append("eqm (circle F %s %d %s %s %s) %s" % (hexf(r), n, hexf(c0), hexf(c1), "true" if mid else "false", flist2(out)))
        meta.append({"fn": "circle", "r": r, "n": n, "c": [c0, c1], "origin": "middle" if mid else "corner", "kind": kind,
                     "nontrivial": bool(0 < out.sum() < n * n)})
    with warnings.catch_warnings():
        warnings.simplefilter("ignore")
        for k in range(n_sub):
            n = rng.randint(2, 16)
            kind = rng.choice(["random", "disc", "offdisc", "dyadic"])
            if kind == "random":
                mask = (npr.random((n, n)) < rng.uniform(0.3, 0.9)).astype(float)
            elif kind == "disc":
                mask = pupil.circle(n / 2.0, n) - pupil.circle(n / 8.0, n) * rng.randint(0, 1)
            elif kind == "offdisc":
                mask = pupil.circle(n / 3.0, n, (rng.randint(-2, 2), rng.randint(-2, 2)))
            else:
                mask = npr.integers(0, 5, size=(n, n)) / 4.0
            if rng.random() < 0.2:
                mask = mask[:, :rng.randint(1, n)]      # non-square
            S = rng.randint(1, 8)
            fills_all = []
            for x in range(S):
                for y in range(S):
                    sub = mask[int(numpy.round(x * mask.shape[0] / float(S))):int(numpy.round((x + 1) * mask.shape[0] / float(S))),
                               int(numpy.round(y * mask.shape[1] / float(S))):int(numpy.round((y + 1) * mask.shape[1] / float(S)))]
                    if sub.size:
                        fills_all.append(float(sub.mean()))
            thr = rng.choice(fills_all) if (fills_all and rng.random() < 0.6) else rng.uniform(0, 1)
            coords, fills = wfslib.findActiveSubaps(S, mask, thr, returnFill=True)
            exp = [[float(c[0]), float(c[1]), float(f)] for c, f in zip(coords.reshape(-1, 2), fills)] if len(fills) else []
            cases.append("eqm (act (findActiveSubaps F %d %s %s)) %s" % (S, flist2(mask), hexf(thr), flist2(exp)))
            meta.append({"fn": "findActiveSubaps", "shape": list(mask.shape), "subaps": S, "thr": thr, "kind": kind,
                         "nontrivial": bool(0 < len(exp) < S * S)})
            if len(exp):
                sp = mask.shape[0] / float(S)
                ff = wfslib.computeFillFactor(mask, coords, sp)
                pos = "[" + "; ".join("(%s, %s)" % (hexf(c[0]), hexf(c[1])) for c in coords) + "]"
                cases.append("eql (computeFillFactor F %s %s %s) %s" % (flist2(mask), pos, hexf(sp), flist(ff)))
                meta.append({"fn": "computeFillFactor", "shape": list(mask.shape), "spacing": sp, "n": len(ff),
                             "nontrivial": bool(numpy.ptp(ff) > 0)})
            # make_subaps_2d
            ns = rng.randint(1, 6)
            m2 = (npr.random((ns, ns)) < 0.6).astype(float)
            cnt = int(m2.sum())
            if cnt:
                data = npr.integers(-9, 9, size=(2, 2, cnt)).astype(float)
                o = wfslib.make_subaps_2d(data, m2)
                fr, ax = rng.randint(0, 1), rng.randint(0, 1)
                cases.append("eqm (scatter 0 %s (bm %s)) %s" % (flist(data[fr, ax]), flist2(m2), flist2(o[fr, ax])))
                meta.append({"fn": "make_subaps_2d", "n": ns, "count": cnt, "nontrivial": bool(0 < cnt < ns * ns)})
    nev, failing, errors = run_cases(PID, IMPORTS, PRELUDE, cases, per_file=40)
    hist = {}
    for m in meta:
        key = m["fn"] + "/" + str(m.get("kind", ""))
        hist[key] = hist.get(key, 0) + 1
    nontriv = sum(1 for m in meta if m["nontrivial"])
    div = [dict(meta[i], what="model != implementation (exact comparison)") for i in failing]
    return {"cases": nev, "nontrivial": nontriv, "divergences": div, "errors": errors,
            "samples": [meta[0], meta[len(meta) // 2], meta[-1]], "hist": hist}


# ------------------------------------------------------------------------------------------
def property_checks(inp):
    out = []
    A = out.append
    n, r, c0, c1, mid = inp["n"], inp["r"], inp["c"][0], inp["c"][1], inp["mid"]
    org = "middle" if mid else "corner"
    C = pupil.circle(r, n, (c0, c1), org)
    j = numpy.arange(n) + 0.5 - (n / 2.0 if mid else 0.0)
    X, Y = numpy.meshgrid(j, j)
    d2 = (X - c0) ** 2 + (Y - c1) ** 2
    # exact indicator away from boundary-ambiguous pixels
    amb = numpy.abs(d2 - r * r) <= 4e-16 * max(1.0, r * r) * 4
    ind = (d2 <= r * r).astype(float)
    A(("indicator of pixel centres", float(numpy.abs((C - ind))[~amb].max()) if (~amb).any() else 0.0, 0.0))
    A(("values are 0/1, shape n x n", 0.0 if (C.shape == (n, n) and set(numpy.unique(C)) <= {0.0, 1.0}) else 1.0, 0.0))
    # the centre held as a float64 array and used for several circles (nested radii, both origins) is not changed by any of them
    carr = numpy.array([c0, c1], dtype=float); ckeep = carr.copy()
    Ca = pupil.circle(r, n, carr, org); Cb = pupil.circle(r, n, carr, org); pupil.circle(r + 1.0, n, carr, "middle"); pupil.circle(r, n, carr, "corner")
    A(("a centre given as an array is left untouched and gives the same mask every time", 0.0 if (numpy.array_equal(carr, ckeep) and numpy.array_equal(Ca, C) and numpy.array_equal(Cb, C)) else 1.0, 0.0))
    r2 = r + inp["dr"]
    C2 = pupil.circle(r2, n, (c0, c1), org)
    A(("nested in r", float((C - C2).max()) if n else 0.0, 0.0))
    Cc = pupil.circle(r, n)
    sym = max(numpy.abs(Cc - Cc.T).max(), numpy.abs(Cc - Cc[::-1]).max(), numpy.abs(Cc - Cc[:, ::-1]).max())
    A(("D4 symmetry when centred", float(sym), 0.0))
    k, l = inp["shift"]
    Ct = pupil.circle(r, n, (c0 + k, c1 + l), org)
    # inside the frame the mask moves by exactly (k, l) pixels (x <-> columns)
    ys, xs = numpy.nonzero(C)
    inside = (xs + k >= 0) & (xs + k < n) & (ys + l >= 0) & (ys + l < n)
    moved = numpy.zeros_like(C); moved[ys[inside] + l, xs[inside] + k] = 1
    yt, xt = numpy.nonzero(Ct)
    inside_t = (xt - k >= 0) & (xt - k < n) & (yt - l >= 0) & (yt - l < n)
    back = numpy.zeros_like(C); back[yt[inside_t], xt[inside_t]] = 1
    A(("translates with integer shifts", float(numpy.abs(moved - back).max()) if n else 0.0, 0.0))
    # area -> pi r^2 (Gauss circle bound) for circles inside the frame
    R = inp["R"]; nn = int(2 * R + 6)
    area = pupil.circle(R, nn).sum()
    A(("area ~ pi r^2", abs(area - math.pi * R * R) - (2 * math.sqrt(2) * math.pi * R + 2 * math.pi), 0.0))
    # sub-aperture selection
    mask = numpy.array(inp["mask"], dtype=float); S = inp["S"]; t1, t2 = sorted(inp["thr"])
    with warnings.catch_warnings():
        warnings.simplefilter("ignore")
        c_lo, f_lo = wfslib.findActiveSubaps(S, mask, t1, returnFill=True)
        c_hi, f_hi = wfslib.findActiveSubaps(S, mask, t2, returnFill=True)
        set_lo = {tuple(c) for c in numpy.reshape(c_lo, (-1, 2))}; set_hi = {tuple(c) for c in numpy.reshape(c_hi, (-1, 2))}
        A(("selection shrinks with threshold", 0.0 if set_hi <= set_lo else 1.0, 0.0))
        # exactly the cells whose mean >= threshold
        xsp, ysp = mask.shape[0] / float(S), mask.shape[1] / float(S)
        want = []
        for x in range(S):
            for y in range(S):
                sub = mask[int(numpy.round(x * xsp)):int(numpy.round((x + 1) * xsp)), int(numpy.round(y * ysp)):int(numpy.round((y + 1) * ysp))]
                if sub.size and sub.mean() >= t1:
                    want.append((x * xsp, y * ysp, float(sub.mean())))
        got = [(float(c[0]), float(c[1]), float(f)) for c, f in zip(numpy.reshape(c_lo, (-1, 2)), f_lo)]
        A(("selected = cells with mean >= threshold", 0.0 if got == want else 1.0, 0.0))
        if mask.shape[0] == mask.shape[1] and mask.shape[0] % S == 0 and len(f_lo):
            ff = wfslib.computeFillFactor(mask, c_lo, mask.shape[0] // S)
            A(("fill factors agree with computeFillFactor", float(numpy.abs(ff - f_lo).max()), 0.0))
        # a mask as pupil.circle hands it out (whatever dtype that is), thresholds a hair above / below every attained fill
        # factor: the selection is decided by the exact cell means (rationals k / area), in any storage precision
        live = pupil.circle(inp.get("live_r", 6.0), inp.get("live_n", 12))
        live64 = numpy.asarray(live, dtype=float)
        Sl = inp.get("live_S", 4)
        xl = live64.shape[0] / float(Sl)
        cells = [live64[int(numpy.round(x * xl)):int(numpy.round((x + 1) * xl)), int(numpy.round(y * xl)):int(numpy.round((y + 1) * xl))] for x in range(Sl) for y in range(Sl)]
        fills = sorted({(int(c_.sum()), int(c_.size)) for c_ in cells if c_.size and 0 < c_.sum()})
        bad_thr = 0
        for k_, a_ in fills:
            for eps_ in (1e-8, -1e-8, 3e-10):
                thr_ = (k_ / a_) * (1 + eps_)
                got_n = len(numpy.reshape(wfslib.findActiveSubaps(Sl, live, thr_), (-1, 2)))
                # exact rational comparison of each cell mean k_c / a_c with k / a (the means differ by >= 1/(a a_c) >> 1e-8)
                want_n = sum(1 for c_ in cells if c_.size and (int(c_.sum()) * a_ > k_ * int(c_.size) or (int(c_.sum()) * a_ == k_ * int(c_.size) and eps_ <= 0)))
                bad_thr += (got_n != want_n)
        A(("selection from a pupil.circle mask at thresholds within 1e-8 of an attained fill factor follows the exact cell means", float(bad_thr), 0.0))
        m2 = numpy.array(inp["m2"], dtype=float); cnt = int(m2.sum())
        if cnt:
            data = numpy.arange(3 * 2 * cnt, dtype=float).reshape(3, 2, cnt) + 1
            o = wfslib.make_subaps_2d(data, m2)
            A(("scatter then gather is identity", float(numpy.abs(o[:, :, m2 == 1] - data).max()), 0.0))
            A(("scatter leaves zeros elsewhere", float(numpy.abs(o[:, :, m2 != 1]).max()) if (m2 != 1).any() else 0.0, 0.0))
            # the same mask held in another memory order (column-major, transposed view of the transpose, reversed view of the
            # reversed copy) is the same mask: sub-apertures are numbered in row-major order of the mask's INDICES
            worst_o = 0.0
            for mv in (numpy.asfortranarray(m2), numpy.ascontiguousarray(m2.T).T, numpy.ascontiguousarray(m2[::-1, ::-1])[::-1, ::-1]):
                ov = wfslib.make_subaps_2d(data, mv)
                worst_o = max(worst_o, float(numpy.abs(ov - o).max()) if ov.shape == o.shape else float("inf"))
            A(("scatter does not depend on the memory order of the mask", worst_o, 0.0))
    return out


def gen_input(rng):
    n = rng.randint(1, 30)
    ns = rng.randint(2, 16); npr = rng.nprng()
    kind = rng.choice(["random", "disc", "off", "rect", "counts"])
    if kind == "random":
        mask = (npr.random((ns, ns)) < 0.6).astype(float)
    elif kind == "counts":
        # masks need not be 0/1: apodised (values in [0, 1]) or overlap counts (0, 1, 2, ...); the rule is still mean >= threshold
        mask = npr.integers(0, 3, size=(ns, ns)).astype(float) if rng.random() < 0.6 else numpy.round(npr.random((ns, ns)), 2)
    elif kind == "rect":
        mask = (npr.random((ns, rng.randint(2, 24))) < 0.6).astype(float)      # non-square masks: x and y spacings differ
    elif kind == "disc":
        mask = pupil.circle(ns / 2.0, ns)
    else:
        mask = pupil.circle(ns / 3.0, ns, (rng.randint(-2, 2), rng.randint(-2, 2)))
    k = rng.randint(1, 6)
    mid = rng.random() < 0.6
    r = lattice(rng, 0, n) if rng.random() < 0.5 else rng.uniform(0, n)
    c = [lattice(rng, -n / 2, n / 2), lattice(rng, -n / 2, n / 2)] if rng.random() < 0.5 else [rng.uniform(-n / 2, n / 2), rng.uniform(-n / 2, n / 2)]
    if rng.random() < 0.3:
        # a radius a hair below / above the distance of some pixel centre (relative gap 2^-14 .. 2^-40: far outside rounding,
        # far inside any "close enough" tolerance): the mask must still be the exact indicator
        px, py = rng.randint(0, n - 1) + 0.5 - (n / 2.0 if mid else 0.0), rng.randint(0, n - 1) + 0.5 - (n / 2.0 if mid else 0.0)
        dist = math.hypot(px - c[0], py - c[1])
        r = dist * (1 + rng.choice([-1, 1]) * 2.0 ** -rng.randint(14, 40))
    lS = rng.choice([3, 4, 5, 6]); ln = lS * rng.choice([3, 5, 6, 7])
    return {"live_S": lS, "live_n": ln, "live_r": ln / 2.0 * rng.uniform(0.7, 1.0), "n": n, "r": r, "c": c, "mid": mid, "dr": rng.choice([0.0, 0.25, rng.uniform(0, 3)]), "shift": [rng.randint(-3, 3), rng.randint(-3, 3)],
            "R": rng.uniform(1, 60), "mask": mask.tolist(), "S": rng.randint(1, 8), "thr": [rng.uniform(0, 1), rng.uniform(0, 1)],
            "m2": (npr.random((k, k)) < 0.6).astype(float).tolist()}


def falsify(ctx, deep=False):
    rng = ctx["rng"]
    n = 600 if deep else 80
    viols, worst = [], {}
    for _ in range(n):
        inp = gen_input(rng)
        try:
            res = property_checks(inp)
        except Exception as ex:
            res = [("raised %s: %s" % (type(ex).__name__, str(ex)[:60]), float("inf"), 0.0)]
        for clause, err, tol in res:
            worst[clause] = max(worst.get(clause, -1e300), err if math.isfinite(err) else 1e300)
            if not (err <= tol):
                viols.append({"clause": clause, "error": err, "tolerance": tol, "input": inp})
    seen, keep = set(), []
    for v in viols:
        if v["clause"] not in seen:
            seen.add(v["clause"]); keep.append(v)
    return keep, {"evaluations": n, "max_error_per_clause": worst}


def replay(payload):
    v = payload.get("violation")
    if not v:
        print("replay file names a proof/correspondence failure, no input:", payload.get("proof", {}).get("failed_at"))
        return False
    try:
        res = property_checks(v["input"])
    except Exception as ex:
        print("  raised", ex); return False
    bad = [(c, e, t) for c, e, t in res if not (e <= t)]
    for c, e, t in bad:
        print("  clause %r: error %g > %g" % (c, e, t))
    return not bad


def classify(v, known):
    return False


def replay_known(known):
    return None
