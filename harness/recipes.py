"""argument recipes for every public function of aotools (used by the dynamic purity cross-check of C20/C06)"""
import numpy
import aotools
from aotools import fouriertransform as ftm, interpolation as itp, opticalpropagation as op
from aotools.functions import zernike as zk, pupil, karhunenLoeve as kl, _functions as fn
from aotools.image_processing import centroiders as cen, contrast as con, psf
from aotools.turbulence import atmos_conversions as ac, slopecovariance as sc, turb, temporal_ps as tp, profile_compression as pc, phasescreen as ps, infinitephasescreen as ips
from aotools.astronomy import _astronomy as astro
from aotools.wfs import wfslib


def R(rng):
    return numpy.random.default_rng(rng.getrandbits(32))


def img(rng, *shape):
    return numpy.abs(R(rng).normal(size=shape)) + 0.1


def cplx(rng, *shape):
    g = R(rng)
    return g.normal(size=shape) + 1j * g.normal(size=shape)


def recipes(rng):
    """list of (qualified name, callable, args, kwargs); array arguments are fresh arrays"""
    out = []
    def add(f, *a, **k):
        out.append(("%s.%s" % (f.__module__, f.__name__), f, list(a), dict(k)))
    def addn(name, f, *a, **k):
        out.append((name, f, list(a), dict(k)))
    # stateful objects, wrapped as functions of their constructor arguments: a seeded screen and the rows added to it; a
    # covariance matrix built from configuration arrays (which must come back untouched)
    def kolm_rows(seed, nrows):
        s = ips.PhaseScreenKolmogorov(8, 0.1, 0.2, 20.0, random_seed=seed, stencil_length_factor=2)
        rows = [s.scrn.copy()]
        for _ in range(nrows):
            s.add_row(); rows.append(s.scrn.copy())
        return numpy.array(rows)
    def vk_rows(seed, nrows):
        s = ips.PhaseScreenVonKarman(8, 0.1, 0.2, 20.0, random_seed=seed)
        rows = [s.scrn.copy()]
        for _ in range(nrows):
            rows.append(s.add_row().copy())
        return numpy.array(rows)
    addn("aotools.turbulence.infinitephasescreen.PhaseScreenKolmogorov.get_new_row", kolm_rows, 3, 3)
    addn("aotools.turbulence.infinitephasescreen.PhaseScreenVonKarman.__init__", vk_rows, 3, 3)
    def covmat(masks, sub_d, gs_alt, gs_pos, wvl, hs, r0s, L0s):
        cm = sc.CovarianceMatrix(len(masks), list(masks), 1.0, sub_d, gs_alt, gs_pos, wvl, len(hs), hs, r0s, L0s, threads=1)
        return cm.make_covariance_matrix().copy()
    mk = numpy.ones((2, 2))
    addn("aotools.turbulence.slopecovariance.CovarianceMatrix.make_covariance_matrix", covmat, numpy.array([mk, mk]), numpy.array([0.5, 0.5]),
         numpy.array([0.0, 90e3]), numpy.array([[0.0, 0.0], [1e-5, -2e-5]]), numpy.array([5e-7, 5e-7]), numpy.array([0.0, 4000.0]), numpy.array([0.2, 0.4]),
         numpy.array([25.0, 30.0]))
    # Karhunen-Loeve building blocks called directly, kernels in row-major and in column-major layout
    rad_ = kl.gkl_radii(0.25, 10)
    import warnings
    with warnings.catch_warnings():
        warnings.simplefilter("ignore")
        kern = kl.gkl_kernel(0.25, 10, rad_)
    add(kl.gkl_kernel, 0.25, 10, rad_.copy()); add(kl.gkl_basis, 0.25, 10, 16, 12)
    add(kl.gkl_fcom, 0.25, kern.copy(), 12); add(kl.gkl_fcom, 0.25, numpy.asfortranarray(kern), 12); add(kl.gkl_fcom, 0.25, numpy.asfortranarray(kern), 7)
    d = 0.1
    for f in (ftm.ft, ftm.ift, ftm.rft):
        add(f, cplx(rng, 3, 8) if f is not ftm.rft else img(rng, 3, 8), d)
    add(ftm.irft, cplx(rng, 5), d)
    for f in (ftm.ft2, ftm.ift2):
        add(f, cplx(rng, 2, 6, 6), d)
    add(ftm.rft2, img(rng, 6, 6), d)
    add(fn.gaussian2d, 8, 2.0); add(fn.gaussian2d, (6, 8), (1.5, 2.5), cent=(2, 3))
    add(pupil.circle, 3.2, 9); add(pupil.circle, 2, 8, circle_centre=(0.5, 1), origin="corner"); add(pupil.circle, 2.5, 9, circle_centre=(0.5, -1.0), origin="middle")
    add(zk.zernIndex, 13); add(zk.zernike_noll, 7, 8); add(zk.zernike_nm, 3, -1, 8); add(zk.zernikeRadialFunc, 4, 2, img(rng, 5, 5))
    add(zk.zernikeArray, 6, 8); add(zk.zernikeArray, [2, 5, 9], 8, norm="rms"); add(zk.phaseFromZernikes, [0.5, -1.0, 2.0], 8); add(zk.makegammas, 3)
    add(kl.stf_kolmogorov, img(rng, 4)); add(kl.stf_vonKarman, img(rng, 4), 3.0); add(kl.stf_vonKarman_yao, img(rng, 4), 3.0)
    add(kl.gkl_radii, 0.2, 8); add(kl.rebin, img(rng, 4, 6), (8, 12)); add(kl.piston_orth, 6)
    add(kl.make_kl, 6, 16, ri=0.25, nr=12)
    add(cen.centre_of_gravity, img(rng, 6, 6)); add(cen.centre_of_gravity, img(rng, 6, 6), threshold=0.3)
    add(cen.centre_of_gravity, img(rng, 3, 6, 6)); add(cen.centre_of_gravity, img(rng, 3, 6, 6), threshold=0.3)
    add(cen.brightest_pixel, img(rng, 6, 6), 0.3); add(cen.brightest_pixel, img(rng, 3, 6, 6), 0.3)
    add(cen.quadCell, img(rng, 3, 2, 2)); add(cen.cross_correlate, img(rng, 6, 6), img(rng, 6, 6), padding=2)
    add(cen.cross_correlate, cplx(rng, 6, 6), cplx(rng, 6, 6), padding=1)
    add(cen.correlation_centroid, img(rng, 2, 6, 6), img(rng, 6, 6)); add(cen.correlation_centroid, img(rng, 6, 6), img(rng, 6, 6))
    add(con.image_contrast, img(rng, 5, 5)); add(con.rms_contrast, img(rng, 5, 5))
    add(psf.azimuthal_average, img(rng, 8, 8)); add(psf.encircled_energy, img(rng, 8, 8)); add(psf.encircled_energy, img(rng, 8, 8), eeDiameter=False)
    add(itp.binImgs, img(rng, 6, 8), 2); add(itp.binImgs, img(rng, 3, 6, 8), 2); add(itp.zoom_rbs, img(rng, 6, 6), (9, 9)); add(itp.zoom_rbs, cplx(rng, 6, 6), (9, 9), order=1)
    for z in (0.0, 0, 12.5):
        add(op.angularSpectrum, cplx(rng, 8, 8), 1e-6, 1e-3, 2e-3, z)
    add(op.angularSpectrum, cplx(rng, 8, 8), 1e-6, 1e-3, 2e-3, 12.5)
    add(op.oneStepFresnel, cplx(rng, 8, 8), 1e-6, 1e-3, 5.0); add(op.twoStepFresnel, cplx(rng, 8, 8), 1e-6, 1e-3, 2e-3, 5.0); add(op.lensAgainst, cplx(rng, 8, 8), 1e-6, 1e-3, 2.0)
    for f in (ac.cn2_to_seeing, ac.cn2_to_r0):
        add(f, img(rng, 4) * 1e-13)
    for f in (ac.seeing_to_cn2, ac.r0_to_cn2, ac.r0_to_seeing, ac.seeing_to_r0):
        add(f, img(rng, 4))
    add(ac.coherenceTime, img(rng, 3, 5) * 1e-14, img(rng, 3, 5) * 10); add(ac.isoplanaticAngle, img(rng, 3, 5) * 1e-14, img(rng, 3, 5) * 1000, axis=0)
    add(ac.rytov_variance, img(rng, 5) * 1e-14, img(rng, 5) * 1000); add(ac.r0_from_slopes, R(rng).normal(size=(2, 4, 20)) * 1e-6, 5e-7, 0.5)
    add(ac.slope_variance_from_r0, img(rng, 3), 5e-7, 0.5)
    add(astro.photons_per_mag, 8.0, img(rng, 4, 4), 0.1, 100., 0.01); add(astro.photons_per_band, 8.0, img(rng, 4, 4), 0.1, 0.01, waveband="R")
    add(astro.magnitude_to_flux, img(rng, 3) * 10, "V"); add(astro.flux_to_magnitude, 1234.5, "J")
    add(turb.phase_covariance, img(rng, 4, 4), 0.15, 25.0)
    z32 = (img(rng, 6) * numpy.array([0, 1, 1, 0, 1, 1])).astype(numpy.float32)            # float32 separations with exact zeros
    add(turb.phase_covariance, z32.copy(), 0.15, 25.0); add(sc.structure_function_vk, z32.copy() + numpy.float32(0.1), 0.15, 25.0)
    add(kl.stf_vonKarman, z32.copy() + numpy.float32(0.1), 3.0); add(sc.structure_function_kolmogorov, z32.copy(), 0.15)
    add(sc.structure_function_vk, img(rng, 4), 0.15, 25.0); add(sc.structure_function_kolmogorov, img(rng, 4), 0.15)
    add(sc.calculate_structure_function, R(rng).normal(size=(16, 16))); add(sc.calculate_structure_function, R(rng).normal(size=(16, 16)), nbOfPoint=5, step=2)
    sep = R(rng).normal(size=(3, 4, 2))
    for f in (sc.compute_covariance_xx, sc.compute_covariance_yy, sc.compute_covariance_xy):
        add(f, sep.copy(), 0.5, 0.4, 0.15, 25.0)
    add(sc.calculate_wfs_seperations, 3, 2, R(rng).normal(size=(3, 2)), R(rng).normal(size=(2, 2)))
    add(sc.wfs_covariance, 3, 2, R(rng).normal(size=(3, 2)), R(rng).normal(size=(2, 2)), 0.5, 0.4, 0.15, 25.0)
    g = R(rng).normal(size=(7, 9)); C = (g @ g.T).astype(numpy.float32)
    add(sc.mirror_covariance_matrix, numpy.tril(C)); add(sc.create_tomographic_covariance_reconstructor, (g @ g.T), 1, 1e-3)
    add(tp.calc_slope_temporalps, R(rng).normal(size=(2, 16, 5))); add(tp.get_tps_time_axis, 500.0, 16)
    h = numpy.linspace(0, 20000, 24); p = img(rng, 24) * 1e-14; w = img(rng, 24) * 10
    add(pc.equivalent_layers, h.copy(), p.copy(), 5); add(pc.equivalent_layers, h.copy(), p.copy(), 4, w=w.copy())
    add(pc.optimal_grouping, 2, 4, h.copy(), p.copy()); add(pc.GCTM, h.copy(), p.copy(), 3)
    add(ps.ft_phase_screen, 0.15, 8, 0.1, 20.0, 0.01, seed=5); add(ps.ft_sh_phase_screen, 0.15, 8, 0.1, 20.0, 0.01, seed=5)
    add(ps.ft_phase_screen, 0.15, 8, 0.1, 20.0, 0.01, seed=0); add(ps.ft_sh_phase_screen, 0.15, 8, 0.1, 20.0, 0.01, seed=0)
    add(ps.ft_phase_screen, 0.15, 8, 0.1, 20.0, 0.01, seed=numpy.int64(0))
    add(ips.find_allowed_size, 6)
    mask = pupil.circle(4, 8)
    add(wfslib.findActiveSubaps, 4, mask.copy(), 0.5); add(wfslib.findActiveSubaps, 4, mask.copy(), 0.5, returnFill=True)
    add(wfslib.computeFillFactor, mask.copy(), numpy.array([[0., 0.], [2., 4.]]), 2); m2 = (R(rng).random((3, 3)) < 0.6).astype(float); m2[0, 0] = 1
    add(wfslib.make_subaps_2d, R(rng).normal(size=(2, 2, int(m2.sum()))), m2)
    return out


#: functions that cannot be exercised here (need a display / are interactive / removed SciPy API) -- listed, not silently skipped
NOT_EXERCISED = {
    "aotools.turbulence.temporal_ps.plot_tps": "opens a matplotlib window",
    "aotools.turbulence.temporal_ps.fit_tps": "calls an undefined module-level function (test_tps_fit_minimize_func) -- raises NameError",
    "aotools.interpolation.zoom": "scipy.interpolate.interp2d removed from the installed SciPy (known finding C16-zoom-interp2d-removed)",
    "aotools.fouriertransform.irft2": "raises / wrong shape (known finding C09-irft2-shape)",
    "aotools.functions.karhunenLoeve.gkl_azimuthal": "exercised through make_kl", 
    "aotools.functions.karhunenLoeve.gkl_sfi": "exercised through make_kl", "aotools.functions.karhunenLoeve.radii": "exercised through make_kl",
    "aotools.functions.karhunenLoeve.polang": "exercised through make_kl", "aotools.functions.karhunenLoeve.set_pctr": "exercised through make_kl",
    "aotools.functions.karhunenLoeve.setpincs": "exercised through make_kl", "aotools.functions.karhunenLoeve.pcgeom": "exercised through make_kl",
    "aotools.functions.karhunenLoeve.pol2car": "exercised through make_kl",
    "aotools.turbulence.slopecovariance.wfs_covariance_mpwrap": "thin wrapper of wfs_covariance",
}
