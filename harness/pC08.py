"""C08 -- all closed-form turbulence statistics describe one von Karman model."""
import math, warnings
import numpy
import scipy.special
from common import hexf, flist, run_cases
import aotools
from aotools.turbulence import slopecovariance as sc, turb
from aotools.functions import karhunenLoeve as kl

PID = "C08"
RULE = ("separations log-uniform in [1e-6 L0, 1e3 L0] plus r>>L0 and tiny r, scalars and arrays, r0 in [0.02,2], L0 in [1,200]; "
        "phase_covariance also at r = 0; every scipy.special.gamma/kv call made by the implementation is recorded and "
        "served to the generated Coq definition as a fail-closed table; a case is non-trivial when the implementation value is "
        "finite and non-zero; distinct = distinct (function, argument tuple)")
TRUSTED = ["scipy.special.gamma / kv values are oracles (recorded from the run); K_{5/6} uninterpreted in the theorems",
           "enclosures of Gamma(5/6), Gamma(11/6), Gamma(6/5) are hypotheses of C08_constants_agree (checked against scipy in the falsifier)",
           "software exp/ln/pow of coq/base/FloatFun.v (execution of the model only)"]
ASSUMPTIONS = ["real-number reading; binary32 cast inside phase_covariance bounded by a 2e-4 tolerance",
               "monotonicity/limits of x^(5/6)K_{5/6}(x), Kolmogorov limit, Hankel identity and positive-definiteness are NOT proved (numerical falsifier only)"]
IMPORTS = ["AOV.gen.Gen_turb", "AOV.gen.Gen_slopecov", "AOV.gen.Gen_kl"]


class Recorder:
    """wraps scipy.special.gamma / kv at the call sites used by the modelled modules"""
    def __init__(self):
        self.entries = []
        self.og, self.ok = scipy.special.gamma, scipy.special.kv
        self.tg, self.tk = turb.gamma, turb.kv

    def __enter__(self):
        def g(x):
            v = self.og(x)
            for a, b in zip(numpy.ravel(numpy.asarray(x, dtype=float)), numpy.ravel(numpy.asarray(v, dtype=float))):
                self.entries.append((-1.0, float(a), float(b)))
            return v
        def k(nu, x):
            v = self.ok(nu, x)
            xs = numpy.ravel(numpy.asarray(x, dtype=float)); vs = numpy.ravel(numpy.asarray(v, dtype=float))
            for a, b in zip(xs, vs):
                self.entries.append((float(nu), float(a), float(b)))
            return v
        scipy.special.gamma, scipy.special.kv = g, k
        turb.gamma, turb.kv = g, k
        return self

    def __exit__(self, *a):
        scipy.special.gamma, scipy.special.kv = self.og, self.ok
        turb.gamma, turb.kv = self.tg, self.tk

    def table(self):
        seen, out = set(), []
        for e in self.entries:
            if e not in seen:
                seen.add(e); out.append(e)
        return "[" + "; ".join("(%s, %s, %s)" % (hexf(a), hexf(b), hexf(c)) for a, b, c in out) + "]"


def correspond(ctx):
    rng, tier = ctx["rng"], ctx["tier"]
    n = 25 if tier == "quick" else 300
    cases, meta = [], []
    def add(fn, f, args, rvals, tol, scale, ktol="0x1p-38"):
        """f(r_array_or_scalar) -> value(s); one Coq case per element"""
        with Recorder() as rec, warnings.catch_warnings():
            warnings.simplefilter("ignore")
            out = f(rvals)
        outs = numpy.ravel(numpy.asarray(out, dtype=float))
        tbl = rec.table()
        for r, o in zip(numpy.ravel(numpy.asarray(rvals, dtype=float)), outs):
            coq_args = " ".join(hexf(a) for a in [r] + list(args))
            cases.append("fclose %s %s (%s (FOpsK %s %s) %s) %s" % (hexf(tol), hexf(scale), fn, ktol, tbl, coq_args, hexf(o)))
            meta.append({"fn": fn, "r": float(r), "args": [float(a) for a in args], "impl": float(o),
                         "array_input": bool(numpy.ndim(rvals))})
    for i in range(n):
        r0 = rng.loguniform(0.02, 2.0); L0 = rng.loguniform(1, 200.)
        sat = 0.17253 * (L0 / r0) ** (5. / 3)
        kind = rng.choice(["scalar", "array", "array", "far", "tiny"])
        if kind == "scalar":
            rv = L0 * rng.loguniform(1e-6, 1e3)
        elif kind == "array":
            rv = numpy.array([L0 * rng.loguniform(1e-6, 1e3) for _ in range(rng.randint(1, 5))])
        elif kind == "far":
            rv = numpy.array([L0 * rng.loguniform(1e2, 1e5), L0 * 200.0])
        else:
            rv = numpy.array([rng.loguniform(1e-12, 1e-6), 1e-20])
        add("structure_function_vk", lambda r: sc.structure_function_vk(r, r0, L0), [r0, L0], rv, 1e-9, sat)
        add("structure_function_kolmogorov", lambda r: sc.structure_function_kolmogorov(r, r0), [r0], rv, 1e-9, 0.0)
        Lk = rng.loguniform(1, 50.)
        rk = rv / L0 * Lk
        add("stf_vonKarman", lambda r: kl.stf_vonKarman(r, Lk), [Lk], rk, 1e-9, 0.17253 * Lk ** (5. / 3))
        add("stf_kolmogorov", lambda r: kl.stf_kolmogorov(r), [], rk, 1e-9, 0.0)
        add("stf_vonKarman_yao", lambda r: kl.stf_vonKarman_yao(r, Lk), [Lk], rk, 1e-9, 6.88 * numpy.max(rk) ** (5. / 3))
        var = float(turb.phase_covariance(0., r0, L0))
        rc = rv if rng.random() < 0.7 else numpy.append(numpy.ravel(rv), 0.0)
        add("phase_covariance", lambda r: turb.phase_covariance(r, r0, L0), [r0, L0], rc, 2e-4, var, ktol=hexf(1e-3))
    nev, failing, errors = run_cases(PID, IMPORTS, "", cases, per_file=150)
    hist = {}
    for m in meta:
        hist[m["fn"]] = hist.get(m["fn"], 0) + 1
    nontriv = len({(m["fn"], m["r"], tuple(m["args"])) for m in meta if math.isfinite(m["impl"]) and m["impl"] != 0})
    div = [dict(meta[i], what="generated Coq definition at binary64 (with recorded gamma/kv) != implementation") for i in failing]
    return {"cases": nev, "nontrivial": nontriv, "divergences": div, "errors": errors,
            "samples": [meta[0], meta[len(meta) // 3], meta[-1]], "hist": hist}


# ------------------------------------------------------------------------------------------
CONST = 0.17253 / (2 * 0.0863143)   # ratio of the two published constants (C08_constants_agree: within 6.4e-4)


def property_checks(inp):
    r0, L0, s = inp["r0"], inp["L0"], inp["s"]
    out = []
    A = out.append
    with warnings.catch_warnings():
        warnings.simplefilter("ignore")
        sat = 0.17253 * (L0 / r0) ** (5. / 3)
        r = numpy.array(inp["r"], dtype=float)
        D = sc.structure_function_vk(r, r0, L0)
        B = turb.phase_covariance(r, r0, L0)
        B0 = float(turb.phase_covariance(0., r0, L0))
        A(("D_vk = c*2(B(0)-B(r))", float(numpy.max(numpy.abs(D - CONST * 2 * (B0 - B)) / (2e-3 * numpy.abs(D) + 3e-6 * sat))), 1.0))
        A(("2 B(0) = 2*0.0863 (L0/r0)^(5/3)", abs(2 * B0 / (2 * 0.0863 * (L0 / r0) ** (5. / 3)) - 1), 2e-3))
        A(("D_vk(inf) = 0.17253 (L0/r0)^(5/3)", abs(float(sc.structure_function_vk(300. * L0, r0, L0)) / sat - 1), 1e-6))
        A(("KL copy = slope-covariance copy", float(numpy.max(numpy.abs(kl.stf_vonKarman(r, L0) - sc.structure_function_vk(r, 1, L0)))) / (0.17253 * L0 ** (5. / 3)), 1e-12))
        A(("Kolmogorov copies differ only by 6.8839/6.88", float(numpy.max(numpy.abs(kl.stf_kolmogorov(r) * 6.88 / 6.8839 / sc.structure_function_kolmogorov(r, 1.) - 1))), 1e-9))
        A(("Kolmogorov zero at zero", abs(float(sc.structure_function_kolmogorov(0., r0))) + abs(float(kl.stf_kolmogorov(0.))), 0.0))
        d0 = float(sc.structure_function_vk(0., r0, L0)); k0 = float(kl.stf_vonKarman(0., L0))
        A(("von Karman zero at zero", (abs(d0) + abs(k0)) / sat if math.isfinite(d0 + k0) else float("inf"), 1e-9))
        A(("von Karman ~0 at tiny separation", abs(float(sc.structure_function_vk(1e-15 * L0, r0, L0))) / sat, 1e-9))
        rs = numpy.sort(L0 * numpy.logspace(-5, 3, 60))
        Ds = sc.structure_function_vk(rs, r0, L0)
        A(("non-decreasing", float(numpy.max(-numpy.diff(Ds)) / sat), 1e-9))
        A(("bounded by saturation", float((numpy.max(Ds) - sat) / sat), 1e-9))
        Bs = turb.phase_covariance(rs, r0, L0)
        A(("covariance non-increasing", float(numpy.max(numpy.diff(Bs)) / B0), 1e-5))
        A(("D_vk ~ r0^(-5/3)", float(numpy.max(numpy.abs(sc.structure_function_vk(r, s * r0, L0) - s ** (-5. / 3) * D)) / sat), 1e-9))
        A(("B ~ r0^(-5/3)", float(numpy.max(numpy.abs(turb.phase_covariance(r, s * r0, L0) - s ** (-5. / 3) * B)) / B0), 1e-5))
        A(("D_kolm ~ r0^(-5/3)", float(numpy.max(numpy.abs(sc.structure_function_kolmogorov(r, s * r0) / (s ** (-5. / 3) * sc.structure_function_kolmogorov(r, r0)) - 1))), 1e-9))
        # Kolmogorov limit: D_vk/D_kolm -> 1 as r/L0 -> 0, first correction 1.485 (r/L0)^(1/3)
        for q in (1e-4, 1e-6, 1e-8):
            ratio = float(sc.structure_function_vk(q * L0, r0, L0) / sc.structure_function_kolmogorov(q * L0, r0))
            A(("Kolmogorov limit at r/L0=%g" % q, (abs(ratio - 1) - 1.6 * q ** (1. / 3)) , 2e-3))
        # fine grids: a 7 % step hides between coarse samples, so monotonicity is also checked relative to the local value
        worst_dec = 0.0
        for q in [1e-6, 1e-5, 1e-4, 1e-3, 1e-2, 1e-1, 1.0] + list(inp.get("qfine", [])):
            rf = q * L0 * numpy.linspace(0.8, 1.25, 46)
            Df = sc.structure_function_vk(rf, r0, L0)
            worst_dec = max(worst_dec, float(numpy.max(-numpy.diff(Df)) / Df[-1]))
        A(("non-decreasing on fine grids around r/L0 = 1e-6 .. 1 (relative to the local value)", worst_dec, 1e-5))
        # the same separations given as integer arrays (pixels, metres counted in whole units) are the same separations
        worst_int = 0.0
        for dt in (numpy.int64, numpy.int32, numpy.uint8):
            ri = numpy.arange(1, 13).astype(dt)
            for f, a in ((kl.stf_vonKarman, (L0,)), (kl.stf_kolmogorov, ()), (sc.structure_function_vk, (r0, L0)),
                         (sc.structure_function_kolmogorov, (r0,)), (turb.phase_covariance, (r0, L0))):
                for rr in (ri, ri[::2], ri.reshape(3, 4), numpy.array(7, dtype=dt)):
                    vi = numpy.asarray(f(rr, *a), dtype=float); vf = numpy.asarray(f(rr.astype(float), *a), dtype=float)
                    worst_int = max(worst_int, float(numpy.max(numpy.abs(vi - vf) / numpy.maximum(numpy.abs(vf), 1e-300))) if vi.shape == vf.shape else float("inf"))
        A(("integer-typed separation arrays give the values of the same separations as floats", worst_int, 1e-12))
        # every function acts elementwise on arrays of ANY shape (2 x 2 separation matrices, (k, 2) tables, 3-d stacks): the value
        # at an element is the value of the scalar call, whatever the array's shape suggests
        worst_shape = 0.0
        base_r = L0 * numpy.array([3e-3, 0.02, 0.11, 0.4, 1.3, 2.9, 7.0, 0.05, 0.6, 0.9, 3.3, 12.0])
        for shp in ((2, 2), (6, 2), (2, 6), (3, 2, 2), (1, 2), (2,), (12, 1)):
            rr_ = base_r[:int(numpy.prod(shp))].reshape(shp)
            for f_, a_ in ((sc.structure_function_vk, (r0, L0)), (sc.structure_function_kolmogorov, (r0,)), (turb.phase_covariance, (r0, L0)),
                           (kl.stf_vonKarman, (L0,)), (kl.stf_kolmogorov, ())):
                got_ = numpy.asarray(f_(rr_.copy(), *a_), dtype=float)
                ref_ = numpy.array([float(numpy.asarray(f_(float(x_), *a_))) for x_ in rr_.ravel()]).reshape(shp)
                worst_shape = max(worst_shape, float(numpy.max(numpy.abs(got_ - ref_) / numpy.maximum(numpy.abs(ref_), 1e-300))) if got_.shape == ref_.shape else float("inf"))
        A(("every function is elementwise on arrays of any shape (value = scalar call at that element)", worst_shape, 1e-5))
        # a float32 (or float64) array of separations handed to one function after the other is still that array afterwards
        worst_keep = 0.0
        for dt_ in (numpy.float32, numpy.float64):
            rk = (L0 * numpy.array([0.0, 3e-3, 0.02, 0.4, 1.3, 7.0])).astype(dt_); rk0 = rk.copy()
            v1 = numpy.asarray(turb.phase_covariance(rk, r0, L0), dtype=float)
            v2 = numpy.asarray(turb.phase_covariance(rk, r0, L0), dtype=float)
            d1_ = numpy.asarray(sc.structure_function_vk(rk[1:], r0, L0), dtype=float); d2_ = numpy.asarray(sc.structure_function_vk(rk[1:], r0, L0), dtype=float)
            kl.stf_vonKarman(rk[1:], L0); kl.stf_kolmogorov(rk); sc.structure_function_kolmogorov(rk, r0)
            worst_keep = max(worst_keep, 0.0 if (numpy.array_equal(rk, rk0) and numpy.array_equal(v1, v2, equal_nan=True) and numpy.array_equal(d1_, d2_, equal_nan=True)) else 1.0)
        A(("separation arrays (float32 / float64, with an exact zero) are left untouched and give the same values on a second call", worst_keep, 0.0))
        # a caller that has asked NumPy to report underflow still gets the saturation value far beyond the outer scale
        try:
            with numpy.errstate(under="raise"):
                far_ = float(sc.structure_function_vk(300. * L0, r0, L0)); fark = float(kl.stf_vonKarman(300. * L0, L0))
            A(("saturation value far beyond L0 also when the caller has enabled underflow errors", max(abs(far_ / sat - 1), abs(fark / (0.17253 * L0 ** (5. / 3)) - 1)), 1e-6))
        except FloatingPointError:
            A(("saturation value far beyond L0 also when the caller has enabled underflow errors", float("inf"), 1e-6))
        # the names the package exports are these functions (a second definition shadowing one of them changes what users get)
        import aotools, aotools.turbulence as T_, aotools.functions as F_
        worst_pub, missing_pub = 0.0, 0
        for nm_, ref_, a_ in (("structure_function_vk", sc.structure_function_vk, (r0, L0)), ("structure_function_kolmogorov", sc.structure_function_kolmogorov, (r0,)),
                              ("phase_covariance", turb.phase_covariance, (r0, L0)), ("stf_vonKarman", kl.stf_vonKarman, (L0,)), ("stf_kolmogorov", kl.stf_kolmogorov, ())):
            for mod_ in (aotools, T_, F_):
                f_ = getattr(mod_, nm_, None)
                if f_ is None:
                    continue
                rr_ = numpy.concatenate([r, L0 * numpy.array([3e-7, 1e-5, 2e-3])])
                v1, v2 = numpy.asarray(f_(rr_, *a_), dtype=float), numpy.asarray(ref_(rr_, *a_), dtype=float)
                worst_pub = max(worst_pub, float(numpy.max(numpy.abs(v1 - v2) / numpy.maximum(numpy.abs(v2), 1e-300))))
            if getattr(aotools, nm_, None) is None:
                missing_pub += 1
        A(("the package-level names give the values of the functions they export", worst_pub + missing_pub, 0.0))
        # positive semi-definite covariance matrices
        pts = numpy.array(inp["pts"]) * L0
        dist = numpy.sqrt(((pts[:, None, :] - pts[None, :, :]) ** 2).sum(-1))
        Cm = turb.phase_covariance(dist, r0, L0)
        ev = numpy.linalg.eigvalsh((Cm + Cm.T) / 2)
        A(("covariance matrix PSD", float(-ev.min() / numpy.trace(Cm)), 1e-5))
        # Gamma enclosures used as hypotheses of C08_constants_agree
        g = scipy.special.gamma
        ok = (1.12878 <= g(5 / 6) <= 1.12879) and (0.94065 <= g(11 / 6) <= 0.94066) and (0.91816 <= g(6 / 5) <= 0.91817)
        A(("Gamma enclosures", 0.0 if ok else 1.0, 0.5))
    return out


def gen_input(rng):
    L0 = rng.loguniform(1, 200.)
    return {"r0": rng.loguniform(0.02, 2.0), "L0": L0, "s": rng.loguniform(0.2, 5),
            "r": [L0 * rng.loguniform(1e-4, 1e2) for _ in range(6)] + [L0 * rng.loguniform(1e-7, 1e-3) for _ in range(3)],
            "qfine": [rng.loguniform(1e-6, 1.0) for _ in range(3)],
            "pts": [[rng.uniform(-1, 1) * 0.5, rng.uniform(-1, 1) * 0.5] for _ in range(rng.randint(3, 14))]}


def falsify(ctx, deep=False):
    rng = ctx["rng"]
    n = 120 if deep else 15
    viols, worst = [], {}
    for _ in range(n):
        inp = gen_input(rng)
        for clause, err, tol in property_checks(inp):
            worst[clause] = max(worst.get(clause, -1e300), err if math.isfinite(err) else 1e300)
            if not (err <= tol):
                viols.append({"clause": clause, "error": err, "tolerance": tol, "input": inp})
        if len(viols) > 30:
            break
    return viols, {"evaluations": n, "max_error_per_clause": worst}


def replay(payload):
    v = payload.get("violation")
    if not v:
        print("replay file names a proof/correspondence failure, no input:", payload.get("proof", {}).get("failed_at"))
        return False
    bad = [(c, e, t) for c, e, t in property_checks(v["input"]) if not (e <= t)]
    for c, e, t in bad:
        print("  clause %r: error %g > %g" % (c, e, t))
    return not bad


def classify(v, known):
    return known["id"] == "C08-vk-nan-at-zero" and v["clause"] == "von Karman zero at zero"


def replay_known(known):
    if known["id"] == "C08-vk-nan-at-zero":
        with warnings.catch_warnings():
            warnings.simplefilter("ignore")
            a = float(sc.structure_function_vk(0., 0.1, 25.)); b = float(kl.stf_vonKarman(0., 3.))
        return not (a == 0.0 and b == 0.0)
    return None
