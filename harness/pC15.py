"""C15 -- centroiders locate, shift, scale and batch consistently."""
import math, warnings
import numpy
from common import hexf, flist, flist2, run_cases
from aotools.image_processing import centroiders as cen

PID = "C15"
RULE = ("non-negative images 2..12 pixels (integer-valued: moments exact; and random floats), stacks of 1..5 frames, thresholds 0 and in (0,1), "
        "brightest-pixel fractions selecting >= 2 pixels, paddings 1..3, odd and even sizes, rectangular frames; every function is called on COPIES "
        "(the implementation modifies its arguments, see C20) and compared with the Coq model at binary64: centre of gravity / brightest pixel / "
        "quad cell at 1e-12, correlation (explicit DFT in the model vs numpy.fft) at 1e-9; non-trivial = image with at least two non-zero pixels; "
        "distinct = distinct (function, image, parameters)")
TRUSTED = ["model coq/model/Centroid.v hand-written; numpy.fft.fft2/ifft2 compared with the model's explicit sums on every correlation case",
           "numpy.sort = ascending order; numpy sum order differences bounded by the tolerance"]
ASSUMPTIONS = ["real-number reading"]
IMPORTS = ["AOV.base.Cplx", "AOV.model.Centroid"]
PRELUDE = """Definition F := FOps [].
Definition fcl (tol sc a b : float) := (is_nan a && is_nan b) || fclose tol sc a b.
Definition okp (tol sc : float) (a : float * float) (x y : float) := fcl tol sc (fst a) x && fcl tol sc (snd a) y.
Fixpoint okps (tol sc : float) (a : list (float * float)) (xs ys : list float) : bool :=
  match a, xs, ys with [], [], [] => true | p :: r, x :: s, y :: t => okp tol sc p x y && okps tol sc r s t | _, _, _ => false end.
Definition okm (tol sc : float) (a e : list (list float)) := all_close2 tol sc a e.
"""


def rand_img(rng, npr, ny, nx, kind):
    if kind == "int":
        im = npr.integers(0, 20, size=(ny, nx)).astype(float)
    elif kind == "spot":
        y, x = numpy.indices((ny, nx))
        im = numpy.exp(-((x - rng.uniform(1, nx - 2)) ** 2 + (y - rng.uniform(1, ny - 2)) ** 2) / rng.uniform(0.5, 3)) * rng.uniform(1, 100) + 0.01
    else:
        im = numpy.abs(npr.normal(size=(ny, nx))) + 0.01
    if im.sum() == 0:
        im[0, 0] = 1.0
    return im


def correspond(ctx):
    rng, tier = ctx["rng"], ctx["tier"]
    npr = rng.nprng()
    n = 40 if tier == "quick" else 1500
    cases, meta = [], []
    def add(fn, expr, info):
        cases.append(expr); meta.append(dict(info, fn=fn))
    for k in range(n):
        ny, nx = rng.randint(2, 12), rng.randint(2, 12)
        kind = rng.choice(["int", "spot", "float"])
        im = rand_img(rng, npr, ny, nx, kind)
        thr = rng.choice([0, 0, rng.uniform(0.05, 0.9)]); mt = rng.choice([0, 0, rng.uniform(0, 3)])
        nt = bool((im > 0).sum() >= 2)
        sc_ = float(max(nx, ny))
        with warnings.catch_warnings():
            warnings.simplefilter("ignore")
            c = cen.centre_of_gravity(im.copy(), threshold=thr, min_threshold=mt)
            add("centre_of_gravity 2d", "okp %s %s (cog2d F %s %s %s) %s %s" % (hexf(1e-12), hexf(sc_), hexf(thr), hexf(mt), flist2(im), hexf(c[0]), hexf(c[1])),
                {"shape": [ny, nx], "kind": kind, "thr": thr, "nontrivial": nt})
            nf = rng.randint(1, 5)
            st = numpy.array([rand_img(rng, npr, ny, nx, kind) for _ in range(nf)])
            c = cen.centre_of_gravity(st.copy(), threshold=thr, min_threshold=mt)
            add("centre_of_gravity stack", "okps %s %s (cogNd F %s %s %s) %s %s" % (hexf(1e-12), hexf(sc_), hexf(thr), hexf(mt), "[" + "; ".join(flist2(f) for f in st) + "]", flist(c[0]), flist(c[1])),
                {"shape": [nf, ny, nx], "kind": kind, "thr": thr, "nontrivial": nt})
            frac = rng.uniform(2.0 / (nx * ny), 1.0)
            if int(round(frac * nx * ny)) >= 1:
                c = cen.brightest_pixel(im.copy(), frac)
                add("brightest_pixel 2d", "okp %s %s (brightest_pixel2d F %s %s) %s %s" % (hexf(1e-12), hexf(sc_), hexf(frac), flist2(im), hexf(c[0]), hexf(c[1])),
                    {"shape": [ny, nx], "kind": kind, "frac": frac, "nontrivial": nt})
                c = cen.brightest_pixel(st.copy(), frac)
                add("brightest_pixel stack", "okps %s %s (brightest_pixel3d F %s %s) %s %s" % (hexf(1e-12), hexf(sc_), hexf(frac), "[" + "; ".join(flist2(f) for f in st) + "]", flist(c[0]), flist(c[1])),
                    {"shape": [nf, ny, nx], "kind": kind, "frac": frac, "nontrivial": nt})
            q = rand_img(rng, npr, 2, 2, kind)
            c = cen.quadCell(q.copy())
            add("quadCell", "okp %s 1 (quadcell F %s) %s %s" % (hexf(1e-12), flist2(q), hexf(c[0]), hexf(c[1])), {"kind": kind, "nontrivial": True})
        if k % 3 == 0 and ny * nx <= 49:
            pad = rng.randint(1, 3 if ny * nx <= 25 else 2)
            ref = rand_img(rng, npr, ny, nx, kind)
            cc = cen.cross_correlate(im.copy(), ref.copy(), padding=pad)
            add("cross_correlate", "okm %s %s (cross_correlate F %s %s %d) %s" % (hexf(1e-9), hexf(float(cc.max())), flist2(im), flist2(ref), pad, flist2(cc)),
                {"shape": [ny, nx], "padding": pad, "kind": kind, "nontrivial": nt})
            c = cen.correlation_centroid(im.copy(), ref.copy(), threshold=thr, padding=pad)
            add("correlation_centroid", "okp %s %s (correlation_centroid1 F %s %s %s %d) %s %s" % (hexf(1e-8), hexf(sc_ * pad), flist2(im), flist2(ref), hexf(thr), pad, hexf(c[0, 0]), hexf(c[1, 0])),
                {"shape": [ny, nx], "padding": pad, "thr": thr, "kind": kind, "nontrivial": nt})
            # the same frame inside a stack whose other frames sit on other background levels: frame by frame like the model
            im2 = rand_img(rng, npr, ny, nx, kind)
            stk = numpy.array([im2 + 7.0, im, im2 * 2 + 0.5])
            cs_ = cen.correlation_centroid(stk.copy(), ref.copy(), threshold=thr, padding=pad)
            add("correlation_centroid/stack", "okp %s %s (correlation_centroid1 F %s %s %s %d) %s %s" % (hexf(1e-8), hexf(sc_ * pad), flist2(im), flist2(ref), hexf(thr), pad, hexf(cs_[0, 1]), hexf(cs_[1, 1])),
                {"shape": [3, ny, nx], "padding": pad, "thr": thr, "kind": kind, "nontrivial": nt})
    nev, failing, errors = run_cases(PID, IMPORTS, PRELUDE, cases, per_file=20)
    hist = {}
    for m in meta:
        key = m["fn"] + "/" + str(m.get("kind"))
        hist[key] = hist.get(key, 0) + 1
    div = [dict(meta[i], what="model != implementation") for i in failing]
    return {"cases": nev, "nontrivial": sum(1 for m in meta if m["nontrivial"]), "divergences": div, "errors": errors,
            "samples": [meta[0], meta[len(meta) // 2], meta[-1]], "hist": hist}


def nandiff(a, b):
    """max |a - b| where both are finite; NaN/inf in the same places count as equal (0/0 for an all-zero frame is the same
    answer on both sides), in different places as a difference"""
    a = numpy.asarray(a, dtype=float); b = numpy.asarray(b, dtype=float)
    if a.shape != b.shape:
        return float("inf")
    fa, fb = numpy.isfinite(a), numpy.isfinite(b)
    if not numpy.array_equal(fa, fb) or not numpy.array_equal(numpy.isnan(a), numpy.isnan(b)):
        return float("inf")
    return float(numpy.abs(a[fa] - b[fb]).max()) if fa.any() else 0.0


def property_checks(inp):
    npr = numpy.random.default_rng(inp["data_seed"])
    out = []
    A = out.append
    ny, nx = inp["ny"], inp["nx"]
    with warnings.catch_warnings():
        warnings.simplefilter("ignore")
        # single bright pixel
        py, px = inp["py"] % ny, inp["px"] % nx
        sp = numpy.zeros((ny, nx)); sp[py, px] = inp["amp"]
        c = cen.centre_of_gravity(sp.copy())
        A(("centre of gravity of a single pixel", abs(c[0] - px) + abs(c[1] - py), 1e-12))
        sp2 = sp.copy(); sp2[(py + 1) % ny, px] = inp["amp"]     # two equal pixels: brightest-pixel with >= 2 pixels
        c = cen.brightest_pixel(numpy.pad(sp, 0).copy() + 0.0 * sp2, 2.0 / (nx * ny)) if False else None
        # content away from the borders
        m = inp["margin"]
        core = numpy.abs(npr.normal(size=(ny, nx))) + 0.1
        big = numpy.zeros((ny + 2 * m, nx + 2 * m)); big[m:m + ny, m:m + nx] = core
        s = inp["scale"]
        for name, f in (("centre_of_gravity", lambda im: cen.centre_of_gravity(im.copy())),
                        ("centre_of_gravity thr", lambda im: cen.centre_of_gravity(im.copy(), threshold=inp["thr"])),
                        ("brightest_pixel", lambda im: cen.brightest_pixel(im.copy(), inp["frac"]))):
            c0 = f(big)
            A(("%s unchanged by a positive factor" % name, float(numpy.abs(f(big * s) - c0).max()), 1e-9))
            ky, kx = inp["shift"]
            ky = max(-m, min(m, ky)); kx = max(-m, min(m, kx))
            sh = numpy.roll(numpy.roll(big, ky, 0), kx, 1)
            if name != "brightest_pixel" or True:
                A(("%s moves by exactly the shift" % name, float(numpy.abs(f(sh) - c0 - numpy.array([kx, ky])).max()), 1e-9))
        # stack = frames alone
        nf = inp["nf"]
        st = numpy.abs(npr.normal(size=(nf, ny, nx))) + 0.1
        cs = cen.centre_of_gravity(st.copy())
        A(("cog: stack = frames alone (no threshold)", nandiff(cs, numpy.array([cen.centre_of_gravity(f.copy()) for f in st]).T), 1e-12))
        cs = cen.centre_of_gravity(st.copy(), threshold=inp["thr"])
        A(("cog: stack = frames alone (threshold)", nandiff(cs, numpy.array([cen.centre_of_gravity(f.copy(), threshold=inp["thr"]) for f in st]).T), 1e-9))
        cs1 = numpy.array([cen.centre_of_gravity(st[i:i + 1].copy(), threshold=inp["thr"])[:, 0] for i in range(nf)]).T
        A(("cog: stack = depth-1 stacks (threshold)", nandiff(cs, cs1), 1e-12))
        cb = cen.brightest_pixel(st.copy(), inp["frac"])
        A(("brightest pixel: stack = frames alone", nandiff(cb, numpy.array([cen.brightest_pixel(f.copy(), inp["frac"]) for f in st]).T), 1e-12))
        # the caller's arrays are still what they were, and a later call on the SAME stack (other threshold, other centroider)
        # gives what it gives on the frames alone -- nothing is left behind in the data between calls
        sx = numpy.abs(npr.normal(size=(max(nf, 2), ny, nx))) + 0.1
        keep = sx.copy()
        h1 = cen.centre_of_gravity(sx, threshold=inp["thr"])
        h2 = cen.centre_of_gravity(sx)
        h3 = cen.brightest_pixel(sx, inp["frac"])
        h4 = cen.correlation_centroid(sx, sx[0], threshold=inp["thr"] / 2)
        h5 = cen.centre_of_gravity(sx, threshold=inp["thr"] / 3)
        A(("centroiders leave the stack they are given untouched", 0.0 if numpy.array_equal(sx, keep) else 1.0, 0.0))
        A(("a sequence of centroider calls on one stack gives what each call gives on a fresh copy",
           max(nandiff(h2, cen.centre_of_gravity(keep.copy())), nandiff(h3, cen.brightest_pixel(keep.copy(), inp["frac"])),
               nandiff(h4, cen.correlation_centroid(keep.copy(), keep[0].copy(), threshold=inp["thr"] / 2)), nandiff(h5, cen.centre_of_gravity(keep.copy(), threshold=inp["thr"] / 3)),
               nandiff(h1, cen.centre_of_gravity(keep.copy(), threshold=inp["thr"]))), 0.0))
        f2 = numpy.abs(npr.normal(size=(ny, nx))) + 0.1; k2 = f2.copy()
        cen.centre_of_gravity(f2, threshold=inp["thr"]); cen.brightest_pixel(f2, inp["frac"]); cen.correlation_centroid(f2, f2, threshold=0.2); cen.quadCell(f2[:2, :2])
        A(("centroiders leave the single frame they are given untouched", 0.0 if numpy.array_equal(f2, k2) else 1.0, 0.0))
        # one frame with a NaN / inf pixel, or vastly brighter / fainter than the others, does not change the centroids of the others
        sb = numpy.abs(npr.normal(size=(4, ny, nx))) + 0.1
        goodref = [cen.centre_of_gravity(f_.copy(), threshold=inp["thr"]) for f_ in sb]
        worst_iso = 0.0
        for spoil in ("nan", "inf", "bright", "faint"):
            sv = sb.copy()
            if spoil == "nan":
                sv[1, 0, 0] = numpy.nan
            elif spoil == "inf":
                sv[1, 0, 0] = numpy.inf
            elif spoil == "bright":
                sv[1] *= 1e200
            else:
                sv[1] *= 1e-200
            for thr_ in (0, inp["thr"]):
                got_ = cen.centre_of_gravity(sv.copy(), threshold=thr_)
                want_ = numpy.array([cen.centre_of_gravity(f_[None].copy(), threshold=thr_)[:, 0] for f_ in sv]).T
                for kfr in (0, 2, 3):
                    if numpy.all(numpy.isfinite(want_[:, kfr])):
                        e_ = float(numpy.abs(got_[:, kfr] - want_[:, kfr]).max()) if numpy.all(numpy.isfinite(got_[:, kfr])) else float("inf")
                        worst_iso = e_ if e_ > worst_iso else worst_iso
        A(("a NaN / inf / vastly brighter or fainter frame in a stack leaves the centroids of the other frames alone", worst_iso, 1e-9))
        # a stack held in another memory order (column-major, swapped-axes view) is the same stack, threshold or not
        worst_mo = 0.0
        for sv in (numpy.asfortranarray(sb), numpy.ascontiguousarray(sb.swapaxes(-1, -2)).swapaxes(-1, -2), numpy.ascontiguousarray(sb.T).T):
            for thr_ in (0, inp["thr"]):
                worst_mo = max(worst_mo, nandiff(cen.centre_of_gravity(sv, threshold=thr_), cen.centre_of_gravity(sb.copy(), threshold=thr_)),
                               nandiff(cen.brightest_pixel(sv, inp["frac"]), cen.brightest_pixel(sb.copy(), inp["frac"])))
        A(("centroids of a stack do not depend on its memory order (with and without threshold)", worst_mo, 1e-12))
        # quad cell mirror
        q = numpy.abs(npr.normal(size=(2, 2)))
        A(("quad cell changes sign under mirroring", float(numpy.abs(cen.quadCell(q[:, ::-1].copy())[0] + cen.quadCell(q.copy())[0]) + numpy.abs(cen.quadCell(q[::-1].copy())[1] + cen.quadCell(q.copy())[1])), 1e-12))
        # correlation centroid: image displaced by s from its reference
        n = inp["ncorr"]; pad = inp["padding"]
        y, x = numpy.indices((n, n))
        c0 = (n - 1) / 2.0
        def spot(cy, cx):
            return numpy.exp(-((x - cx) ** 2 + (y - cy) ** 2) / 1.5)
        ref = spot(c0, c0)
        sy, sx = inp["cshift"]
        img = spot(c0 + sy, c0 + sx)           # content displaced by (sx, sy), no wrap-around
        cc = cen.correlation_centroid(img[None].copy(), ref.copy(), threshold=0.3, padding=pad)
        tag = "%s size/%s padding" % ("odd" if n % 2 else "even", "odd" if pad % 2 else "even")
        A(("correlation centroid displaced by the shift from the array centre (%s)" % tag,
           float(abs(cc[0, 0] - (n // 2 + sx)) + abs(cc[1, 0] - (n // 2 + sy))), 0.05))
        ccr = cen.correlation_centroid(numpy.array([img, ref]).copy(), ref.copy(), threshold=0.3, padding=pad)
        A(("correlation centroid differences equal the shift", float(abs((ccr[0, 0] - ccr[0, 1]) - sx) + abs((ccr[1, 0] - ccr[1, 1]) - sy)), 0.05))
        lv = [0.0, 5.0, 1.3]
        st2 = numpy.array([img + lv[0], ref + lv[1], 2 * img + lv[2]])
        cst = cen.correlation_centroid(st2.copy(), ref.copy(), threshold=0.3, padding=pad)
        alone = numpy.array([cen.correlation_centroid(f.copy(), ref.copy(), threshold=0.3, padding=pad)[:, 0] for f in st2]).T
        A(("correlation centroid: stack = frames alone (frames on different background levels)", nandiff(cst, alone), 1e-9))
        # edge-to-edge displacement: the reference spot near one corner, the frame's spot near the opposite one; with a padded
        # correlation (padding >= 2) the displacement, up to the frame size, is still unambiguous and must be reported exactly
        if pad >= 2 and not (n % 2 == 1 and pad % 2 == 0):
            def nspot(cy, cx):
                return numpy.exp(-((x - cx) ** 2 + (y - cy) ** 2) / 0.5)
            a_, b_ = inp.get("edge", [2, n - 3])
            e_ref, e_img = nspot(a_, a_), nspot(b_, a_ + 1)
            ce = cen.correlation_centroid(e_img[None].copy(), e_ref.copy(), threshold=0.3, padding=pad)
            A(("correlation centroid displaced by the shift for displacements up to the frame size (padding >= 2)",
               float(abs(ce[0, 0] - (n // 2 + 1)) + abs(ce[1, 0] - (n // 2 + b_ - a_))), 0.05))
        # very faint and very bright frames (physical units): the centroid does not depend on the unit
        for sc_ in (1e-18, 1e-30, 1e18):
            A(("centre of gravity / brightest pixel / correlation unchanged by the factor %g" % sc_,
               max(nandiff(cen.centre_of_gravity((big * sc_).copy()), cen.centre_of_gravity(big.copy())),
                   nandiff(cen.centre_of_gravity((st * sc_).copy(), threshold=inp["thr"]), cen.centre_of_gravity(st.copy(), threshold=inp["thr"])),
                   nandiff(cen.brightest_pixel((big * sc_).copy(), inp["frac"]), cen.brightest_pixel(big.copy(), inp["frac"])),
                   nandiff(cen.correlation_centroid((img * sc_)[None].copy(), ref.copy(), threshold=0.3, padding=pad), cc)), 1e-9))
        # rectangular frames, padding
        ry, rx = inp["rect"]
        yy, xx = numpy.indices((ry, rx))
        rref = numpy.exp(-((xx - (rx - 1) / 2.0) ** 2 + (yy - (ry - 1) / 2.0) ** 2) / 2.0)
        c1 = cen.correlation_centroid(rref[None].copy(), rref.copy(), threshold=0.3, padding=1)
        c3 = cen.correlation_centroid(rref[None].copy(), rref.copy(), threshold=0.3, padding=3)
        A(("correlation centroid independent of padding (odd paddings, rectangular frame)", float(numpy.abs(c1 - c3).max()), 0.05))
    return out


def gen_input(rng):
    n = rng.randint(9, 14)
    smax = n // 2 - 3
    return {"ny": rng.randint(3, 10), "nx": rng.randint(3, 10), "py": rng.randint(0, 20), "px": rng.randint(0, 20), "amp": rng.uniform(0.5, 50),
            "margin": rng.randint(2, 4), "scale": rng.uniform(0.2, 30), "thr": rng.uniform(0.05, 0.6), "frac": rng.uniform(0.1, 0.9),
            "shift": [rng.randint(-3, 3), rng.randint(-3, 3)], "nf": rng.randint(1, 5), "ncorr": n, "padding": rng.randint(1, 3),
            "cshift": [rng.randint(-smax, smax), rng.randint(-smax, smax)], "rect": [rng.randint(5, 9), rng.randint(5, 9)], "edge": rng.choice([[2, n - 3], [n - 3, 2], [3, n - 3], [2, n - 4]]), "data_seed": rng.getrandbits(32)}


def falsify(ctx, deep=False):
    rng = ctx["rng"]
    n = 200 if deep else 40
    viols, worst = [], {}
    for _ in range(n):
        inp = gen_input(rng)
        try:
            res = property_checks(inp)
        except Exception as ex:
            res = [("raised %s: %s" % (type(ex).__name__, str(ex)[:80]), float("inf"), 0.0)]
        for clause, err, tol in res:
            worst[clause] = max(worst.get(clause, -1e300), err if math.isfinite(err) else 1e300)
            if not (err <= tol):
                viols.append({"clause": clause, "error": err, "tolerance": tol, "input": inp})
    seen, keep = set(), []
    for v in viols:
        if v["clause"] not in seen:
            seen.add(v["clause"]); keep.append(v)
    return keep, {"evaluations": n, "max_error_per_clause": worst}


def replay(payload):
    v = payload.get("violation")
    if not v:
        print("replay file names a proof/correspondence failure, no input:", payload.get("proof", {}).get("failed_at"))
        return False
    bad = [(c, e, t) for c, e, t in property_checks(v["input"]) if not (e <= t)]
    for c, e, t in bad:
        print("  clause %r: error %g > %g" % (c, e, t))
    return not bad


def classify(v, known):
    c = v["clause"]
    return ((known["id"] == "C15-cog-threshold-frame-vs-stack" and c == "cog: stack = frames alone (threshold)")
            or (known["id"] == "C15-correlation-odd-size-even-padding"
                and c == "correlation centroid displaced by the shift from the array centre (odd size/even padding)"))


def replay_known(known):
    if known["id"] == "C15-cog-threshold-frame-vs-stack":
        f = numpy.array([[0., 1., 2.], [1., 5., 3.], [0., 2., 1.]])
        a = cen.centre_of_gravity(f.copy(), threshold=0.3)
        b = cen.centre_of_gravity(f[None].copy(), threshold=0.3)[:, 0]
        return bool(numpy.abs(a - b).max() > 1e-9)
    if known["id"] == "C15-correlation-odd-size-even-padding":
        n = 9
        y, x = numpy.indices((n, n))
        ref = numpy.exp(-((x - 4.0) ** 2 + (y - 4.0) ** 2) / 1.5)
        cc = cen.correlation_centroid(ref[None].copy(), ref.copy(), threshold=0.3, padding=2)
        return bool(abs(cc[0, 0] - 4) > 0.05)
    return None
