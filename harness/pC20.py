"""C20 -- library calls are pure: arguments are never modified, no hidden state."""
import math, copy, pickle, random, warnings, json, os
import numpy
import recipes as rc
import common

PID = "C20"
RULE = ("every public function of every module (enumerated from the regenerated footprint table) is called through a recipe: once with read-only "
        "array arguments (an in-place write raises), once with checksummed copies (bytes, shape, dtype, strides compared afterwards), twice for "
        "repeatability, with NumPy's and Python's global generator states compared before/after and the result checked not to share memory "
        "with an argument; the observed behaviour must agree with the table (a function the table calls pure must behave purely; the listed known "
        "findings must be flagged); thorough: random programs of up to 8 calls on shared arrays, in two different orders; "
        "non-trivial = recipe with at least one array argument; distinct = distinct (function, recipe)")
TRUSTED = ["translate/effects_fp.py: syntactic footprint analysis (aliasing, in-place operations, global state, call-graph closure) -- cross-checked here in "
           "both directions", "recipes cover the functions listed in the evidence; those not exercised are listed with the reason"]
ASSUMPTIONS = ["a semantics 'consistent with the footprint' is assumed by the compositional theorems; consistency is what this dynamic check samples"]
KNOWN = {"aotools.turbulence.profile_compression.optimal_grouping"}


def table():
    st = common.sync_generated()
    ents = st.get("Gen_effects", {}).get("entries", [])
    return {"%s.%s" % (e["module"], e["function"]): e for e in ents}


def snapshot(a):
    return (a.tobytes(), a.shape, a.dtype.str, a.strides)


def same(a, b):
    try:
        if isinstance(a, (tuple, list)) and isinstance(b, (tuple, list)):
            return len(a) == len(b) and all(same(x, y) for x, y in zip(a, b))
        a_, b_ = numpy.asarray(a), numpy.asarray(b)
        return a_.shape == b_.shape and bool(numpy.array_equal(a_, b_, equal_nan=True))
    except Exception:
        return True


def arrays_in(res):
    if isinstance(res, numpy.ndarray):
        return [res]
    if isinstance(res, (tuple, list)):
        out = []
        for x in res:
            out += arrays_in(x)
        return out
    return []


def clone(a):
    """a fresh array with the same values AND the same memory layout (column-major, every-other-element view, row-major)"""
    if a.ndim >= 2 and a.flags.f_contiguous and not a.flags.c_contiguous:
        return a.copy(order="F")
    if a.ndim >= 1 and a.size and not a.flags.c_contiguous and a.strides[-1] == 2 * a.itemsize:
        big = numpy.zeros(a.shape[:-1] + (2 * a.shape[-1],), a.dtype)
        v = big[..., ::2]; v[...] = a
        return v
    return a.copy()


def relayout(args, kwargs, how):
    def conv(a):
        if not isinstance(a, numpy.ndarray) or a.size == 0:
            return a
        if how == "column-major":
            return numpy.asfortranarray(a) if a.ndim >= 2 else a
        big = numpy.zeros(a.shape[:-1] + (2 * a.shape[-1],), a.dtype) if a.ndim >= 1 else None
        if big is None:
            return a
        v = big[..., ::2]; v[...] = a
        return v
    return [conv(a) for a in args], {k: conv(v) for k, v in kwargs.items()}


def close(a, b, rtol=1e-9):
    """values equal up to rounding (reductions may legitimately run in another order for another memory layout)"""
    try:
        if isinstance(a, (tuple, list)) and isinstance(b, (tuple, list)):
            return len(a) == len(b) and all(close(x, y, rtol) for x, y in zip(a, b))
        if isinstance(a, dict) and isinstance(b, dict):
            return set(a) == set(b) and all(close(a[k], b[k], rtol) for k in a)
        a_, b_ = numpy.asarray(a), numpy.asarray(b)
        if a_.dtype == object or b_.dtype == object or a_.dtype.kind in "USO":
            return True
        if a_.shape != b_.shape:
            return False
        sc_ = float(numpy.nanmax(numpy.abs(b_))) if b_.size and numpy.isfinite(numpy.nanmax(numpy.abs(b_))) else 1.0
        return bool(numpy.allclose(a_, b_, rtol=rtol, atol=rtol * max(sc_, 1e-300), equal_nan=True))
    except Exception:
        return True


def process_settings():
    """process-wide settings a numerical library has no business leaving changed: NumPy's floating-point error handling and
    print options, the warnings filters, the default float formatting of the decimal context"""
    import decimal
    return (tuple(sorted(numpy.geterr().items())), repr(sorted((k, repr(v)) for k, v in numpy.get_printoptions().items())),
            len(warnings.filters), repr(warnings.filters[:3]), decimal.getcontext().prec)


def arrayify(args, kwargs):
    """the same call with every plain number handed over as a 0-d NumPy array and every list / tuple of numbers as a float64 array
    (values read from files and headers arrive like that): such arguments are the caller's objects and must come back unchanged"""
    def conv(a):
        if isinstance(a, bool) or isinstance(a, str) or a is None:
            return a
        if isinstance(a, int):
            return numpy.array(a)
        if isinstance(a, float):
            return numpy.array(a)
        if isinstance(a, (list, tuple)) and a and all(isinstance(x, (int, float)) and not isinstance(x, bool) for x in a):
            return numpy.array(a, dtype=float)
        return a
    return [conv(a) for a in args], {k: conv(v) for k, v in kwargs.items()}


def observe(f, args, kwargs):
    """returns dict of observed effects for one recipe (process-wide settings are put back afterwards, so that every recipe is
    measured from the same state)"""
    err_keep, print_keep = numpy.geterr(), numpy.get_printoptions()
    try:
        return _observe(f, args, kwargs)
    finally:
        numpy.seterr(**err_keep); numpy.set_printoptions(**print_keep)


def _observe(f, args, kwargs):
    """the observation itself"""
    obs = {"writes": False, "alias": False, "rng": False, "unrepeatable": False, "settings": False, "error": None}
    def fresh():
        return [clone(a) if isinstance(a, numpy.ndarray) else copy.deepcopy(a) for a in args], {k: (clone(v) if isinstance(v, numpy.ndarray) else copy.deepcopy(v)) for k, v in kwargs.items()}
    import contextlib, io
    err0, print0 = numpy.geterr(), numpy.get_printoptions()
    with warnings.catch_warnings(), contextlib.redirect_stdout(io.StringIO()):
        warnings.simplefilter("ignore")
        env0 = process_settings()
        # (1) read-only arguments
        a1, k1 = fresh()
        for x in list(a1) + list(k1.values()):
            if isinstance(x, numpy.ndarray):
                x.setflags(write=False)
        try:
            f(*a1, **k1)
        except ValueError as ex:
            if "read-only" in str(ex) or "not writeable" in str(ex) or "WRITEABLE" in str(ex):
                obs["writes"] = True
            else:
                obs["error"] = "%s: %s" % (type(ex).__name__, str(ex)[:80])
        except Exception as ex:
            obs["error"] = "%s: %s" % (type(ex).__name__, str(ex)[:80])
        # (2) checksummed copies, global generator states, aliasing, repeatability
        a2, k2 = fresh()
        snaps = [(x, snapshot(x)) for x in list(a2) + list(k2.values()) if isinstance(x, numpy.ndarray)]
        st_np = pickle.dumps(numpy.random.get_state()); st_py = random.getstate()
        try:
            r1 = f(*a2, **k2)
        except Exception as ex:
            obs["error"] = obs["error"] or "%s: %s" % (type(ex).__name__, str(ex)[:80])
            return obs
        if pickle.dumps(numpy.random.get_state()) != st_np or random.getstate() != st_py:
            obs["rng"] = True
        if process_settings() != env0:
            obs["settings"] = True
        for x, s in snaps:
            if snapshot(x) != s:
                obs["writes"] = True
        for r in arrays_in(r1):
            for x, _ in snaps:
                if numpy.shares_memory(r, x):
                    obs["alias"] = True
        r1c = copy.deepcopy(r1)
        a3, k3 = fresh()
        numpy.random.seed(12345); random.seed(999)          # a different global state must not matter
        try:
            r2 = f(*a3, **k3)
            if not same(r1c, r2):
                obs["unrepeatable"] = True
        except Exception as ex:
            obs["error"] = obs["error"] or "second call: %s" % type(ex).__name__
    return obs


def correspond(ctx):
    rng = ctx["rng"]
    tbl = table()
    recs = rc.recipes(rng)
    divergences, meta = [], []
    seen_fn = set()
    for name, f, args, kwargs in recs:
        seen_fn.add(name)
        e = tbl.get(name)
        obs = observe(f, args, kwargs)
        nontriv = any(isinstance(a, numpy.ndarray) for a in list(args) + list(kwargs.values()))
        rec = {"function": name, "observed": obs, "table": None if e is None else {"writes": e["writes"], "returns_alias": e["returns_alias"],
               "global_rng": e["global_rng"], "globals": e["globals"]}, "nontrivial": nontriv}
        meta.append(rec)
        if e is None:
            divergences.append(dict(rec, what="function has a recipe but is missing from the footprint table")); continue
        t_pure = not (e["writes"] or e["returns_alias"] or e["global_rng"] or e["globals"])
        o_pure = not (obs["writes"] or obs["alias"] or obs["rng"] or obs["unrepeatable"])
        if t_pure and not o_pure:
            divergences.append(dict(rec, what="footprint table says pure but the call is observed to be impure"))
        if obs["writes"] and not e["writes"]:
            divergences.append(dict(rec, what="argument modified but the table records no write"))
        if obs["rng"] and not (e["global_rng"] or e["globals"]):
            divergences.append(dict(rec, what="global generator state changed but the table records no global state"))
        if obs["error"] and name not in KNOWN:
            divergences.append(dict(rec, what="recipe raised: %s" % obs["error"]))
    # coverage of the public surface
    public = [k for k, e in tbl.items() if e["public"] and "." in k]
    missing = [k for k in public if k not in seen_fn and k not in rc.NOT_EXERCISED and ".PhaseScreen" not in k and ".CovarianceMatrix" not in k]
    for k in missing:
        divergences.append({"function": k, "what": "public function without a recipe (new function?)"})
    hist = {"functions_in_table": len(tbl), "public": len(public), "with_recipe": len(seen_fn), "not_exercised": len(rc.NOT_EXERCISED)}
    return {"cases": len(recs), "nontrivial": sum(1 for m in meta if m["nontrivial"]), "divergences": divergences, "errors": [],
            "samples": [meta[0], meta[len(meta) // 2], meta[-1]], "hist": hist}


def property_checks(seed, deep):
    """direct statement of the property on the implementation, recipe by recipe; returns (clause, err, tol, detail)"""
    rng = common.Rng(seed)
    out = []
    for name, f, args, kwargs in rc.recipes(rng):
        obs = observe(f, args, kwargs)
        if obs["writes"]:
            out.append(("argument modified: %s" % name, 1.0, 0.0))
        if obs["alias"]:
            out.append(("result shares memory with an argument: %s" % name, 1.0, 0.0))
        if obs["rng"]:
            out.append(("global generator state changed: %s" % name, 1.0, 0.0))
        if obs["unrepeatable"]:
            out.append(("equal arguments, different results: %s" % name, 1.0, 0.0))
        if obs.get("settings"):
            out.append(("process-wide numerical settings (floating-point error handling, print options, warning filters) changed: %s" % name, 1.0, 0.0))
        # the same call with plain numbers handed over as 0-d arrays and number lists as arrays
        a0_, k0_ = arrayify(args, kwargs)
        if any(isinstance(x, numpy.ndarray) and not isinstance(y, numpy.ndarray) for x, y in zip(list(a0_) + list(k0_.values()), list(args) + list(kwargs.values()))) and name not in KNOWN:
            o3 = observe(f, a0_, k0_)
            if o3["writes"]:
                out.append(("argument modified (numbers given as 0-d / 1-d arrays): %s" % name, 1.0, 0.0))
            if o3["unrepeatable"]:
                out.append(("equal arguments, different results (numbers given as 0-d / 1-d arrays): %s" % name, 1.0, 0.0))
        # the same call with the array arguments in another memory layout (column-major copies; every-other-element views): the
        # layout is not part of the value, so nothing may be written, aliased or changed in the result
        if any(isinstance(a, numpy.ndarray) for a in list(args) + list(kwargs.values())) and name not in KNOWN:
            base = None
            for how in ("column-major", "strided view"):
                a_, k_ = relayout(args, kwargs, how)
                o2 = observe(f, a_, k_)
                if o2["writes"]:
                    out.append(("argument modified (%s arguments): %s" % (how, name), 1.0, 0.0))
                if o2["alias"]:
                    out.append(("result shares memory with an argument (%s arguments): %s" % (how, name), 1.0, 0.0))
                if o2["unrepeatable"]:
                    out.append(("equal arguments, different results (%s arguments): %s" % (how, name), 1.0, 0.0))
                # ... and the value is that of the row-major call
                import contextlib, io
                with warnings.catch_warnings(), contextlib.redirect_stdout(io.StringIO()):
                    warnings.simplefilter("ignore")
                    try:
                        if base is None:
                            base = copy.deepcopy(f(*[clone(a) if isinstance(a, numpy.ndarray) else copy.deepcopy(a) for a in args],
                                                   **{k: (clone(v) if isinstance(v, numpy.ndarray) else copy.deepcopy(v)) for k, v in kwargs.items()}))
                        rv = f(*[clone(a) if isinstance(a, numpy.ndarray) else copy.deepcopy(a) for a in a_],
                               **{k: (clone(v) if isinstance(v, numpy.ndarray) else copy.deepcopy(v)) for k, v in k_.items()})
                        if not close(rv, base):
                            out.append(("the result depends on the memory layout of the arguments (%s vs row-major): %s" % (how, name), 1.0, 0.0))
                    except Exception:
                        pass
    # the listed finding on optimal_grouping is that it draws from (and advances) the global generator; where every local search
    # ends in the one optimum -- layers in well separated clusters -- its RESULT must still be the same whatever that state is
    from aotools.turbulence import profile_compression as pc_
    g_ = numpy.random.default_rng(seed + 5)
    distinct = 0
    for trial in range(6):
        L_ = int(g_.integers(2, 5)); per = int(g_.integers(3, 7))
        centres = numpy.sort(g_.choice(numpy.arange(1, 20), size=L_, replace=False)) * 1000.0
        h_ = numpy.sort(numpy.concatenate([c_ + g_.uniform(-60, 60, size=per) for c_ in centres])); p_ = g_.uniform(0.2, 1, size=h_.size) * 1e-13
        outs_ = set()
        st_keep = numpy.random.get_state()
        for call in range(4):
            numpy.random.seed(call * 7 + trial)
            with warnings.catch_warnings():
                warnings.simplefilter("ignore")
                hL_, cL_ = pc_.optimal_grouping(1, L_, h_.copy(), p_.copy())
            outs_.add((numpy.asarray(hL_).tobytes(), numpy.asarray(cL_).tobytes()))
        numpy.random.set_state(st_keep)
        distinct = max(distinct, len(outs_))
    out.append(("optimal_grouping of a clustered profile (one optimum) gives one result whatever the global generator state", float(distinct - 1), 0.0))
    # methods of the one class that is meant to be re-used: computing twice on the same object (natural and laser guide stars,
    # off axis, a layer above the ground) gives the same matrix and the same reconstructor -- no state is carried between calls
    from aotools.turbulence import slopecovariance as sc_
    g2_ = numpy.random.default_rng(seed + 9)
    mk_ = numpy.ones((2, 2)); mk3_ = numpy.array([[0, 1, 0], [1, 1, 1], [0, 1, 0]], dtype=float)
    for alts_ in (numpy.array([0.0, 0.0, 0.0]), numpy.array([90e3, 0.0, 90e3])):
        with warnings.catch_warnings():
            warnings.simplefilter("ignore")
            cm_ = sc_.CovarianceMatrix(3, [mk_, mk3_, mk_], 1.5, numpy.array([0.5, 0.5, 0.5]), alts_, g2_.uniform(-30, 30, size=(3, 2)), numpy.array([5e-7, 5e-7, 6e-7]),
                                       2, numpy.array([0.0, g2_.uniform(2000, 9000)]), numpy.array([0.2, 0.4]), numpy.array([25.0, 30.0]), threads=1)
            m1_ = numpy.array(cm_.make_covariance_matrix(), copy=True); r1_ = numpy.array(cm_.make_tomographic_reconstructor(svd_conditioning=1e-3), copy=True)
            m2_ = numpy.array(cm_.make_covariance_matrix(), copy=True); r2_ = numpy.array(cm_.make_tomographic_reconstructor(svd_conditioning=1e-3), copy=True)
        out.append(("CovarianceMatrix: a second computation on the same object returns the same matrix and reconstructor (%s guide stars)" % ("natural" if alts_.max() == 0 else "mixed"),
                    0.0 if (numpy.array_equal(m1_, m2_, equal_nan=True) and numpy.array_equal(r1_, r2_, equal_nan=True)) else 1.0, 0.0))
    # calls made at the same time from a thread pool return what they return one after the other (no module-level scratch state)
    from aotools.turbulence import phasescreen as ps_, infinitephasescreen as ips_
    from aotools import opticalpropagation as op_, fouriertransform as ft_
    from aotools.functions import pupil as pupil_
    from aotools.image_processing import centroiders as cen_
    gt_ = numpy.random.default_rng(seed + 21)
    flds = [gt_.normal(size=(32, 32)) + 1j * gt_.normal(size=(32, 32)) for _ in range(8)]
    def _c(k):
        tbl = [lambda: ps_.ft_sh_phase_screen(0.15, 32, 0.1, 30.0, 0.01, seed=numpy.random.default_rng(k)), lambda: ps_.ft_phase_screen(0.15, 32, 0.1, 30.0, 0.01, seed=numpy.random.default_rng(k)),
               lambda: ft_.ft2(flds[k], 0.1), lambda: ft_.ift2(flds[k], 0.1), lambda: op_.angularSpectrum(flds[k], 1e-6, 1e-3, 2e-3, 5.0),
               lambda: op_.oneStepFresnel(flds[k], 1e-6, 1e-3, 5.0), lambda: cen_.correlation_centroid(numpy.abs(flds[k]), numpy.abs(flds[0]), threshold=0.2),
               lambda: pupil_.circle(5.0 + k, 32, (0.5 * k, -0.25 * k))]
        return tbl[k % len(tbl)]
    with warnings.catch_warnings():
        warnings.simplefilter("ignore")
        nb_ = common.threads_equal([_c(k) for k in range(8)] + [_c(0), _c(0), _c(2)], workers=8, repeats=3)
    out.append(("library calls made at the same time from a thread pool return their sequential results", float(nb_), 0.0))
    # batch clauses
    from aotools import fouriertransform as ftm, interpolation as itp
    from aotools.image_processing import centroiders as cen
    from aotools.turbulence import temporal_ps as tp
    g = numpy.random.default_rng(seed)
    x = g.normal(size=(3, 2, 8)) + 1j * g.normal(size=(3, 2, 8))
    for nm, f in (("ft", ftm.ft), ("ift", ftm.ift)):
        per = numpy.array([[f(x[i, j].copy(), 0.1) for j in range(2)] for i in range(3)])
        out.append(("batch = per item: %s" % nm, float(numpy.abs(f(x.copy(), 0.1) - per).max()), 1e-12))
    m = g.normal(size=(3, 6, 6)) + 0j
    for nm, f in (("ft2", ftm.ft2), ("ift2", ftm.ift2)):
        out.append(("batch = per item: %s" % nm, float(numpy.abs(f(m.copy(), 0.1) - numpy.array([f(q.copy(), 0.1) for q in m])).max()), 1e-12))
    st = numpy.abs(g.normal(size=(4, 6, 6))) + 0.1
    out.append(("batch = per item: binImgs", float(numpy.abs(itp.binImgs(st.copy(), 2) - numpy.array([itp.binImgs(q.copy(), 2) for q in st])).max()), 0.0))
    out.append(("batch = per item: centre_of_gravity", float(numpy.abs(cen.centre_of_gravity(st.copy()) - numpy.array([cen.centre_of_gravity(q.copy()) for q in st]).T).max()), 1e-12))
    out.append(("batch = per item: brightest_pixel", float(numpy.abs(cen.brightest_pixel(st.copy(), 0.3) - numpy.array([cen.brightest_pixel(q.copy(), 0.3) for q in st]).T).max()), 1e-12))
    refim = numpy.abs(g.normal(size=(6, 6))) + 0.1
    for thr_, pad_ in ((0.0, 1), (0.3, 1), (0.5, 2)):
        out.append(("batch = per item: correlation_centroid (threshold %g, padding %d)" % (thr_, pad_),
                    float(numpy.abs(cen.correlation_centroid(st.copy(), refim.copy(), threshold=thr_, padding=pad_)
                                    - numpy.array([cen.correlation_centroid(q.copy(), refim.copy(), threshold=thr_, padding=pad_)[:, 0] for q in st]).T).max()), 1e-12))
    cc_ = numpy.array([cen.cross_correlate(q.copy(), refim.copy(), padding=2) for q in st])
    out.append(("cross_correlate of each frame does not depend on the other frames", float(numpy.abs(cc_[1] - cen.cross_correlate(st[1].copy(), refim.copy(), padding=2)).max()), 0.0))
    sl = g.normal(size=(2, 3, 16, 4))
    mt, me = tp.calc_slope_temporalps(sl.copy())
    per = numpy.array([[tp.calc_slope_temporalps(sl[i, j].copy())[0] for j in range(3)] for i in range(2)])
    out.append(("batch = per item: calc_slope_temporalps", float(numpy.abs(mt - per).max() / numpy.abs(per).max()), 1e-12))
    if deep:
        # random programs on shared arrays in two orders
        recs = [r for r in rc.recipes(common.Rng(seed + 1)) if r[0] not in KNOWN]
        for t in range(20):
            prog = [rng.choice(recs) for _ in range(rng.randint(2, 8))]
            shared = {}
            def run(order):
                res = {}
                for idx in order:
                    name, f, args, kwargs = prog[idx]
                    with warnings.catch_warnings():
                        warnings.simplefilter("ignore")
                        try:
                            res[idx] = copy.deepcopy(f(*args, **kwargs))
                        except Exception as ex:
                            res[idx] = "raised " + type(ex).__name__
                return res
            before = [[snapshot(a) for a in p[2] if isinstance(a, numpy.ndarray)] for p in prog]
            r_a = run(range(len(prog))); r_b = run(reversed(range(len(prog))))
            after = [[snapshot(a) for a in p[2] if isinstance(a, numpy.ndarray)] for p in prog]
            out.append(("program of %d calls leaves the shared arrays unchanged" % len(prog), 0.0 if before == after else 1.0, 0.0))
            out.append(("program results independent of the call order", 0.0 if all(same(r_a[i], r_b[i]) for i in r_a) else 1.0, 0.0))
    return out


def falsify(ctx, deep=False):
    seed = ctx["rng"].getrandbits(30)
    viols, worst = [], {}
    try:
        res = property_checks(seed, deep)
    except Exception as ex:
        import traceback
        res = [("raised %s: %s" % (type(ex).__name__, str(ex)[:120]), float("inf"), 0.0)]
    for clause, err, tol in res:
        worst[clause] = err if math.isfinite(err) else 1e300
        if not (err <= tol):
            viols.append({"clause": clause, "error": err, "tolerance": tol, "input": {"recipe_seed": seed, "deep": deep}})
    ok = {k: v for k, v in worst.items() if v == 0}
    return viols, {"evaluations": len(res), "clauses_violated": sorted(k for k, v in worst.items() if v != 0), "clauses_ok": len(ok)}


def replay(payload):
    v = payload.get("violation")
    if not v:
        print("replay file names a proof/correspondence failure, no input:", payload.get("proof", {}).get("failed_at"))
        return False
    res = property_checks(v["input"]["recipe_seed"], v["input"].get("deep", False))
    bad = [(c, e, t) for c, e, t in res if not (e <= t) and c == v["clause"]]
    for c, e, t in bad:
        print("  clause %r violated" % c)
    return not bad


def classify(v, known):
    c = v["clause"]
    fn = known.get("function", "")
    return c.endswith(": " + fn) and c.split(":")[0] in known.get("clauses", [])


def replay_known(known):
    rng = common.Rng(1)
    for name, f, args, kwargs in rc.recipes(rng):
        if name == known["function"]:
            o = observe(f, args, kwargs)
            if o["writes"] or o["alias"] or o["rng"] or o["unrepeatable"]:
                return True
    return False
