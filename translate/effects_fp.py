#!/usr/bin/env python3
"""Syntactic footprint of every module-level function of aotools (Tie T for C06 / C20).

For each function the analysis reports
  writes    : parameters (by name) that may be modified in place: augmented assignment, item/slice/attribute
              assignment, `out=` keyword, in-place ndarray methods -- applied to the parameter or to a name that
              may still alias it (simple copies, views: slices, .T, .reshape, .ravel, .view, .real, .imag ...);
              a name stops being an alias once it is rebound to a fresh value
  returns_alias : the function may return (an alias of) a parameter un-copied
  global_rng    : uses numpy.random.<legacy function> / random.<fn> / time.<fn>  (process-global state)
  globals       : `global` statements, stores into / method calls on module-level objects that are not
                  modules, functions, classes or literal constants (caches, shared generators, registries),
                  mutable default arguments that are modified, memoising decorators
Conservative where it matters for soundness of "pure": anything unrecognised that could write through a
parameter is reported as a write.  The result is cross-checked dynamically by harness/pC20.py.
"""
import ast, os, sys

INPLACE_METHODS = {"sort", "fill", "resize", "put", "partition", "itemset", "setfield", "setflags", "byteswap",
                   "append", "extend", "insert", "remove", "pop", "clear", "update", "setdefault", "reverse", "popitem", "add", "discard"}
VIEW_ATTRS = {"T", "real", "imag", "flat"}
VIEW_METHODS = {"reshape", "ravel", "view", "transpose", "swapaxes", "squeeze", "diagonal", "astype_nocopy"}
FRESH_FUNCS = {"copy", "array", "zeros", "ones", "empty", "zeros_like", "ones_like", "empty_like", "arange", "linspace"}
NP = {"numpy", "np"}
RNG_OK = {"default_rng", "Generator", "PCG64", "SeedSequence", "RandomState", "MT19937", "Philox", "SFC64", "BitGenerator"}
MEMO_DECOS = {"lru_cache", "cache", "memoize", "memoized", "cached"}


def attr_chain(node):
    parts = []
    while isinstance(node, ast.Attribute):
        parts.append(node.attr); node = node.value
    if isinstance(node, ast.Name):
        parts.append(node.id)
        return list(reversed(parts))
    return None


class FnAnalysis(ast.NodeVisitor):
    def __init__(self, fn, module_globals_mutable, module_names, returns_global_fns=()):
        self.fn = fn
        self.params = [a.arg for a in fn.args.args + fn.args.kwonlyargs] + ([fn.args.vararg.arg] if fn.args.vararg else []) + ([fn.args.kwarg.arg] if fn.args.kwarg else [])
        if self.params and self.params[0] in ("self", "cls"):
            self.params = self.params[1:]
        self.alias = {p: {p} for p in self.params}        # local name -> set of params it may alias
        self.writes = set()
        self.returns_alias = False
        self.global_rng = False
        self.globals = False
        self.notes = []
        self.mod_mut = module_globals_mutable
        self.module_names = module_names
        self.locals = set(self.params)
        self.declared_global = set()
        # mutable defaults
        self.calls = []          # (callee name or attr chain, [alias sets of positional args])
        self.returns_global_fns = set(returns_global_fns)
        self.global_objs = set()     # local names that may denote a module-level mutable object
        self.returns_global = False
        self.mut_defaults = set()
        defaults = fn.args.defaults
        for a, d in zip(fn.args.args[len(fn.args.args) - len(defaults):], defaults):
            if isinstance(d, (ast.List, ast.Dict, ast.Set)) or (isinstance(d, ast.Call) and attr_chain(d.func) and attr_chain(d.func)[-1] in ("dict", "list", "set", "zeros", "empty")):
                self.mut_defaults.add(a.arg)

    # ---- alias computation of an expression -------------------------------------------
    def aliases_of(self, e):
        if isinstance(e, ast.Name):
            return set(self.alias.get(e.id, set()))
        if isinstance(e, ast.Subscript):
            return self.aliases_of(e.value)          # basic slicing gives a view (fancy indexing copies: conservative)
        if isinstance(e, ast.Attribute):
            if e.attr in VIEW_ATTRS:
                return self.aliases_of(e.value)
            return set()
        if isinstance(e, ast.Call):
            ch = attr_chain(e.func)
            if isinstance(e.func, ast.Attribute) and e.func.attr in VIEW_METHODS:
                return self.aliases_of(e.func.value)
            if ch and ch[-1] in ("asarray", "asanyarray", "ascontiguousarray", "atleast_1d", "atleast_2d", "ravel", "reshape", "squeeze", "transpose", "swapaxes", "moveaxis", "broadcast_to", "fftshift_view"):
                out = set()
                for a in e.args[:1]:
                    out |= self.aliases_of(a)
                return out
            return set()
        if isinstance(e, ast.IfExp):
            return self.aliases_of(e.body) | self.aliases_of(e.orelse)
        if isinstance(e, (ast.Tuple, ast.List)):
            out = set()
            for x in e.elts:
                out |= self.aliases_of(x)
            return out
        if isinstance(e, ast.Starred):
            return self.aliases_of(e.value)
        return set()

    def denotes_global(self, e):
        if isinstance(e, ast.Name):
            return (e.id not in self.locals and e.id in self.mod_mut) or e.id in self.global_objs
        if isinstance(e, ast.Call):
            ch = attr_chain(e.func)
            return bool(ch and len(ch) == 1 and ch[0] in self.returns_global_fns)
        if isinstance(e, ast.IfExp):
            return self.denotes_global(e.body) or self.denotes_global(e.orelse)
        if isinstance(e, ast.BoolOp):
            return any(self.denotes_global(v) for v in e.values)
        return False

    def mark_write(self, target_expr, why):
        al = self.aliases_of(target_expr)
        if al:
            self.writes |= al
            self.notes.append("%s (line %d)" % (why, getattr(target_expr, "lineno", 0)))
        # module-level objects
        base = target_expr
        while isinstance(base, (ast.Subscript, ast.Attribute)):
            base = base.value
        if isinstance(base, ast.Name) and base.id not in self.locals and base.id in self.mod_mut:
            self.globals = True
            self.notes.append("writes module-level object %s (line %d)" % (base.id, getattr(target_expr, "lineno", 0)))
        if isinstance(base, ast.Name) and base.id in self.mut_defaults:
            self.globals = True
            self.notes.append("modifies mutable default argument %s" % base.id)

    # ---- statements ------------------------------------------------------------------------
    def bind(self, target, value_aliases):
        if isinstance(target, ast.Name):
            self.locals.add(target.id)
            if target.id in self.declared_global:
                self.globals = True
                self.notes.append("assigns global %s" % target.id)
            self.alias[target.id] = set(value_aliases)
        elif isinstance(target, (ast.Tuple, ast.List)):
            for t in target.elts:
                self.bind(t, value_aliases)
        elif isinstance(target, ast.Starred):
            self.bind(target.value, value_aliases)
        elif isinstance(target, (ast.Subscript, ast.Attribute)):
            self.mark_write(target.value if isinstance(target, ast.Subscript) else target.value,
                            "item/attribute assignment")

    def run_block(self, stmts):
        for st in stmts:
            self.stmt(st)

    def stmt(self, st):
        if isinstance(st, ast.Global):
            self.declared_global |= set(st.names)
            return
        if isinstance(st, ast.Assign):
            self.scan_expr(st.value)
            al = self.aliases_of(st.value)
            gobj = self.denotes_global(st.value)
            for t in st.targets:
                self.bind(t, al)
                if isinstance(t, ast.Name):
                    if gobj:
                        self.global_objs.add(t.id)
                    else:
                        self.global_objs.discard(t.id)
            return
        if isinstance(st, ast.AnnAssign):
            if st.value is not None:
                self.scan_expr(st.value); self.bind(st.target, self.aliases_of(st.value))
            return
        if isinstance(st, ast.AugAssign):
            self.scan_expr(st.value)
            if isinstance(st.target, ast.Name):
                if st.target.id in self.declared_global:
                    self.globals = True
                self.mark_write(st.target, "augmented assignment to %s" % st.target.id)
                if st.target.id not in self.locals and st.target.id in self.mod_mut:
                    self.globals = True
            else:
                self.mark_write(st.target.value, "augmented item assignment")
            return
        if isinstance(st, ast.Return):
            if st.value is not None:
                if self.denotes_global(st.value):
                    self.returns_global = True
                self.scan_expr(st.value)
                if self.aliases_of(st.value):
                    self.returns_alias = True
                    self.notes.append("returns an un-copied argument (line %d)" % st.lineno)
            return
        if isinstance(st, (ast.If, ast.While)):
            self.scan_expr(st.test)
            before = {k: set(v) for k, v in self.alias.items()}
            self.run_block(st.body)
            after_body = self.alias
            self.alias = {k: set(v) for k, v in before.items()}
            self.run_block(st.orelse)
            for k in set(after_body) | set(self.alias):
                self.alias[k] = set(after_body.get(k, set())) | set(self.alias.get(k, set()))
            if isinstance(st, ast.While):
                self.run_block(st.body)
            return
        if isinstance(st, ast.For):
            self.scan_expr(st.iter)
            self.bind(st.target, self.aliases_of(st.iter))
            before = {k: set(v) for k, v in self.alias.items()}
            self.run_block(st.body); self.run_block(st.body)
            for k in before:
                self.alias[k] = set(self.alias.get(k, set())) | before[k]
            self.run_block(st.orelse)
            return
        if isinstance(st, ast.Try):
            self.run_block(st.body)
            for h in st.handlers:
                self.run_block(h.body)
            self.run_block(st.orelse); self.run_block(st.finalbody)
            return
        if isinstance(st, ast.With):
            for it in st.items:
                self.scan_expr(it.context_expr)
                if it.optional_vars is not None:
                    self.bind(it.optional_vars, set())
            self.run_block(st.body)
            return
        if isinstance(st, ast.Expr):
            self.scan_expr(st.value)
            return
        if isinstance(st, ast.Delete):
            return
        if isinstance(st, (ast.FunctionDef, ast.ClassDef)):
            self.locals.add(st.name)
            if isinstance(st, ast.FunctionDef):
                self.run_block(st.body)        # closures may write through captured parameters
            return
        if isinstance(st, (ast.Raise, ast.Assert)):
            for ch in ast.iter_child_nodes(st):
                if isinstance(ch, ast.expr):
                    self.scan_expr(ch)
            return
        if isinstance(st, (ast.Pass, ast.Break, ast.Continue, ast.Import, ast.ImportFrom, ast.Nonlocal)):
            return
        for ch in ast.iter_child_nodes(st):
            if isinstance(ch, ast.stmt):
                self.stmt(ch)
            elif isinstance(ch, ast.expr):
                self.scan_expr(ch)

    # ---- expressions: calls with side effects --------------------------------------------------
    def scan_expr(self, e):
        for node in ast.walk(e):
            if isinstance(node, ast.NamedExpr):
                self.bind(node.target, self.aliases_of(node.value))
            if not isinstance(node, ast.Call):
                continue
            ch = attr_chain(node.func)
            if ch:
                self.calls.append((ch, [sorted(self.aliases_of(a)) for a in node.args]))
            for kw in node.keywords:
                if kw.arg == "out":
                    self.mark_write(kw.value, "out= keyword")
                if kw.arg in ("overwrite_x", "overwrite_a", "overwrite_b", "overwrite_input", "copy") and isinstance(kw.value, ast.Constant):
                    if (kw.arg == "copy" and kw.value.value is False) or (kw.arg != "copy" and kw.value.value is True):
                        for a in node.args:
                            if self.aliases_of(a):
                                self.writes |= self.aliases_of(a)
                                self.notes.append("%s=%r on an argument (line %d)" % (kw.arg, kw.value.value, node.lineno))
            if isinstance(node.func, ast.Attribute):
                m = node.func.attr
                if m in INPLACE_METHODS:
                    self.mark_write(node.func.value, "in-place method .%s()" % m)
                base = node.func.value
                root = base
                while isinstance(root, (ast.Attribute, ast.Subscript)):
                    root = root.value
                if isinstance(root, ast.Name) and root.id in self.global_objs and m not in ("get", "keys", "values", "items", "copy", "index", "count"):
                    self.globals = True
                    self.notes.append("calls .%s() on %s, which may be a module-level object (line %d)" % (m, root.id, node.lineno))
                if (isinstance(root, ast.Name) and root.id not in self.locals and root.id in self.mod_mut
                        and not (isinstance(base, ast.Name) and m in ("get", "keys", "values", "items", "copy", "index", "count"))):
                    self.globals = True
                    self.notes.append("calls .%s() on module-level object %s (line %d)" % (m, root.id, node.lineno))
            if ch:
                if len(ch) >= 3 and ch[0] in NP and ch[1] == "random" and ch[2] not in RNG_OK:
                    self.global_rng = True; self.notes.append("numpy.random.%s (line %d)" % (ch[2], node.lineno))
                if len(ch) == 2 and ch[0] == "random" and "random" in self.module_names:
                    self.global_rng = True; self.notes.append("random.%s (line %d)" % (ch[1], node.lineno))
                if len(ch) == 2 and ch[0] == "time" and "time" in self.module_names and ch[1] in ("time", "perf_counter", "monotonic", "clock"):
                    self.global_rng = True; self.notes.append("time.%s (line %d)" % (ch[1], node.lineno))
                if len(ch) >= 2 and ch[0] in NP and ch[-1] in ("copyto", "put", "place", "putmask", "fill_diagonal", "shuffle") and node.args:
                    self.mark_write(node.args[0], "numpy.%s first argument" % ch[-1])


def analyse_module(path, modname):
    tree = ast.parse(open(path, "rb").read())
    module_names = set()
    mutable_globals = set()
    for node in tree.body:
        if isinstance(node, (ast.Import, ast.ImportFrom)):
            for a in node.names:
                module_names.add((a.asname or a.name).split(".")[0])
        elif isinstance(node, ast.Assign):
            v = node.value
            literal_const = isinstance(v, ast.Constant) or (isinstance(v, (ast.Tuple,)) and all(isinstance(x, ast.Constant) for x in v.elts))
            for t in node.targets:
                if isinstance(t, ast.Name) and not literal_const and t.id != "__all__":
                    mutable_globals.add(t.id)
    all_list = None
    for node in tree.body:
        if isinstance(node, ast.Assign) and any(isinstance(t, ast.Name) and t.id == "__all__" for t in node.targets) and isinstance(node.value, (ast.List, ast.Tuple)):
            all_list = [e.value for e in node.value.elts if isinstance(e, ast.Constant)]
    out = []
    # first pass: which module-level functions may return a module-level mutable object
    ret_glob = set()
    for _ in range(3):
        for node in tree.body:
            if isinstance(node, ast.FunctionDef):
                a0 = FnAnalysis(node, mutable_globals, module_names, ret_glob)
                a0.run_block(node.body)
                if a0.returns_global:
                    ret_glob.add(node.name)
    def handle(fn, owner=None):
        an = FnAnalysis(fn, mutable_globals, module_names, ret_glob)
        an.run_block(fn.body)
        memo = any((attr_chain(d.func if isinstance(d, ast.Call) else d) or [""])[-1] in MEMO_DECOS for d in fn.decorator_list)
        if memo:
            an.globals = True; an.notes.append("memoising decorator")
        name = fn.name if owner is None else "%s.%s" % (owner, fn.name)
        top = owner if owner is not None else fn.name
        public = (not fn.name.startswith("_") or fn.name in ("__init__", "__repr__")) and not top.startswith("_") and (all_list is None or top in all_list) \
            and not any(part.startswith("_") and part not in ("_astronomy", "_functions") for part in modname.split("."))
        out.append({"module": modname, "function": name, "public": bool(public), "params": an.params, "writes": sorted(an.writes),
                    "returns_alias": an.returns_alias, "global_rng": an.global_rng, "globals": an.globals, "notes": an.notes,
                    "calls": an.calls})
    for node in tree.body:
        if isinstance(node, ast.FunctionDef):
            handle(node)
        elif isinstance(node, ast.ClassDef):
            for sub in node.body:
                if isinstance(sub, ast.FunctionDef):
                    handle(sub, node.name)
    return out, sorted(mutable_globals)


def all_modules(repo):
    base = os.path.join(repo, "aotools")
    for root, dirs, files in os.walk(base):
        for f in sorted(files):
            if f.endswith(".py") and f not in ("_version.py",):
                p = os.path.join(root, f)
                rel = os.path.relpath(p, repo)[:-3].replace(os.sep, ".")
                if rel.endswith(".__init__"):
                    rel = rel[:-9]
                yield p, rel


def propagate(entries):
    """close the footprints under calls between aotools functions (same module by bare name, other modules by
    their last attribute name when unambiguous)"""
    by_mod = {}
    by_name = {}
    for e in entries:
        by_mod[(e["module"], e["function"])] = e
        by_name.setdefault(e["function"].split(".")[-1], []).append(e)
    changed = True
    while changed:
        changed = False
        for e in entries:
            for ch, argal in e["calls"]:
                cal = by_mod.get((e["module"], ch[-1])) if len(ch) == 1 else None
                if cal is None and len(ch) >= 2 and len(by_name.get(ch[-1], [])) == 1 and ch[0] not in ("numpy", "np", "scipy", "self", "math"):
                    cal = by_name[ch[-1]][0]
                if cal is None and len(ch) == 2 and ch[0] == "self":
                    cands = [x for x in by_name.get(ch[-1], []) if x["module"] == e["module"]]
                    cal = cands[0] if cands else None
                if cal is None or cal is e:
                    continue
                for flag in ("global_rng", "globals"):
                    if cal[flag] and not e[flag]:
                        e[flag] = True; e["notes"].append("calls %s (%s)" % (cal["function"], flag)); changed = True
                for w in cal["writes"]:
                    if w in cal["params"]:
                        i = cal["params"].index(w)
                        if i < len(argal):
                            new = set(argal[i]) - set(e["writes"])
                            if new:
                                e["writes"] = sorted(set(e["writes"]) | new); e["notes"].append("passes %s to %s which writes it" % (sorted(new), cal["function"])); changed = True


def coq_str(s):
    return '"%s"%%string' % s.replace('"', "'")


def main(repo, outdir):
    entries = []
    status = {}
    try:
        for path, mod in sorted(all_modules(repo)):
            ents, _ = analyse_module(path, mod)
            entries += ents
        propagate(entries)
        rows = []
        for e in entries:
            rows.append("  {| f_module := %s; f_name := %s; f_nparams := %d; f_writes := [%s]; f_returns_alias := %s; f_global_rng := %s; f_globals := %s; f_public := %s |}"
                        % (coq_str(e["module"]), coq_str(e["function"]), len(e["params"]),
                           "; ".join(coq_str(w) for w in e["writes"]),
                           "true" if e["returns_alias"] else "false", "true" if e["global_rng"] else "false", "true" if e["globals"] else "false",
                           "true" if e["public"] else "false"))
        text = ("(* GENERATED by translate/effects_fp.py from every module of aotools -- do not edit *)\n"
                "From Coq Require Import List String Bool.\nRequire Import AOV.model.Purity.\nImport ListNotations.\n"
                "Definition effects_table : list fentry := [\n%s\n].\n" % ";\n".join(rows))
        status["Gen_effects"] = {"ok": True, "functions": len(entries), "entries": entries}
    except Exception as ex:
        text = "(* GENERATION FAILED: %s *)\n" % str(ex).replace("*)", "* )")
        status["Gen_effects"] = {"ok": False, "error": str(ex)}
    path = os.path.join(outdir, "Gen_effects.v")
    old = open(path).read() if os.path.exists(path) else None
    if old != text:
        open(path, "w").write(text)
    return status


if __name__ == "__main__":
    repo = sys.argv[1] if len(sys.argv) > 1 else "/repo"
    st = main(repo, sys.argv[2] if len(sys.argv) > 2 else "/verif/coq/gen")
    for e in st["Gen_effects"].get("entries", []):
        if e["writes"] or e["returns_alias"] or e["global_rng"] or e["globals"]:
            print(e["module"], e["function"], "writes=%s" % e["writes"], "alias" if e["returns_alias"] else "", "rng" if e["global_rng"] else "", "globals" if e["globals"] else "", "|", "; ".join(e["notes"][:4]))
    print(st["Gen_effects"].get("functions"), "functions")
