#!/usr/bin/env python3
"""Fail-closed translator: the scalar/element-wise formula fragment of Python used by aotools'
formula modules  ->  generic Gallina definitions over `NumOps T` (coq/base/Num.v).

Run on every check; the theorems in coq/proofs/ and coq/props/ are stated about the *generated*
definitions, so they are re-checked against what /repo says now.  Anything outside the fragment
raises Untranslatable, which fails the check (reported as a broken proof obligation).

Expression kinds: 'S' scalar T, 'V' list T (1-D profile / vector), 'P' pair T*T (the trailing
x,y axis of a separation array), 'E' a FLUX_DICTIONARY entry (T*T*T).
"""
import ast, hashlib, os, sys
from fractions import Fraction

class Untranslatable(Exception):
    pass

# module path (relative to repo) -> list of (function, {param: kind}) ; kind 'skip' drops it
SPEC = {
    "Gen_atmos": ("aotools/turbulence/atmos_conversions.py", [
        ("cn2_to_r0", {"cn2": "S", "lamda": "S"}),
        ("r0_to_cn2", {"r0": "S", "lamda": "S"}),
        ("r0_to_seeing", {"r0": "S", "lamda": "S"}),
        ("seeing_to_r0", {"seeing": "S", "lamda": "S"}),
        ("cn2_to_seeing", {"cn2": "S", "lamda": "S"}),
        ("seeing_to_cn2", {"seeing": "S", "lamda": "S"}),
        ("coherenceTime", {"cn2": "V", "v": "V", "lamda": "S", "axis": "skip"}),
        ("isoplanaticAngle", {"cn2": "V", "h": "V", "lamda": "S", "axis": "skip"}),
        ("rytov_variance", {"cn2": "V", "h": "V", "lamda": "S", "axis": "skip"}),
        ("r0_from_slopes", {"slopes": "VAR", "wavelength": "S", "subapDiam": "S"}),
        ("slope_variance_from_r0", {"r0": "S", "wavelength": "S", "subapDiam": "S"}),
    ]),
    "Gen_astro": ("aotools/astronomy/_astronomy.py", [
        ("magnitude_to_flux", {"magnitude": "S", "waveband": "E"}),
        ("flux_to_magnitude", {"flux": "S", "waveband": "E"}),
        ("photons_per_mag", {"mag": "S", "mask": "V", "pixel_scale": "S", "wvlBand": "S",
                             "exposure_time": "S"}),
        ("photons_per_band", {"mag": "S", "mask": "V", "pxlScale": "S", "expTime": "S",
                              "waveband": "E"}),
    ]),
    "Gen_turb": ("aotools/turbulence/turb.py", [
        ("phase_covariance", {"r": "S", "r0": "S", "L0": "S"}),
    ]),
    "Gen_slopecov": ("aotools/turbulence/slopecovariance.py", [
        ("structure_function_vk", {"seperation": "S", "r0": "S", "L0": "S"}),
        ("structure_function_kolmogorov", {"separation": "S", "r0": "S"}),
        ("compute_covariance_xx", {"seperation": "P", "subap1_diam": "S", "subap2_diam": "S",
                                   "r0": "S", "L0": "S"}),
        ("compute_covariance_yy", {"seperation": "P", "subap1_diam": "S", "subap2_diam": "S",
                                   "r0": "S", "L0": "S"}),
        ("compute_covariance_xy", {"seperation": "P", "subap1_diam": "S", "subap2_diam": "S",
                                   "r0": "S", "L0": "S"}),
    ]),
    "Gen_kl": ("aotools/functions/karhunenLoeve.py", [
        ("stf_kolmogorov", {"r": "S"}),
        ("stf_vonKarman_yao", {"r": "S", "L": "S"}),
        ("stf_vonKarman", {"r": "S", "L0": "S"}),
    ]),
}

UNARY = {"sqrt": "nsqrt", "exp": "nexp", "log10": "nlog10", "cos": "ncos", "sin": "nsin",
         "log": "nln", "abs": "nabs"}
NUMPY_NAMES = {"numpy", "np"}


def qlit(value):
    """exact rational of a Python numeric literal (from its decimal text via repr)"""
    if isinstance(value, bool):
        raise Untranslatable("bool literal")
    if isinstance(value, int):
        return "(nofZ O (%d))" % value
    fr = Fraction(repr(value))          # decimal text -> exact rational (5e-07 -> 1/2000000)
    if float(fr) != value:
        raise Untranslatable("literal %r not round-trippable" % value)
    if fr.denominator == 1:
        return "(nofZ O (%d))" % fr.numerator
    # keep denominator a power of ten so that n/d is what the decimal text says
    d = fr.denominator
    n = fr.numerator
    p10 = 1
    while p10 % d:
        p10 *= 10
        if p10 > 10 ** 40:
            raise Untranslatable("literal %r" % value)
    n *= p10 // d
    d = p10
    if abs(n) >= 2 ** 53:
        raise Untranslatable("literal %r does not fit 2^53" % value)
    return "(nofQ O (%d) %d)" % (n, d)


class FnTranslator:
    def __init__(self, fn, kinds, known_fns, table_name, defs=None, prefix="", stack=()):
        self.fn, self.kinds, self.known = fn, dict(kinds), known_fns
        self.env = {}           # python name -> (coq name, kind)
        self.extra_params = []  # params introduced for opaque sub-expressions
        self.counter = 0
        self.table_name = table_name
        self.defs = defs or {}  # module-level functions of the same file (helpers are inlined)
        self.prefix = prefix
        self.stack = stack + (fn.name,)

    def fresh(self, base):
        self.counter += 1
        return "%s%s_%d" % (self.prefix, base, self.counter)

    def inline_helper(self, name, arg_exprs):
        """a call to another module-level function of the same file that is not itself a translated entry point
        (a private helper introduced by a refactoring) is inlined:  (let p1 := a1 in ... <helper body> ret)"""
        fn = self.defs[name]
        if name in self.stack:
            raise Untranslatable("recursive helper " + name)
        a = fn.args
        if a.vararg or a.kwarg or a.kwonlyargs or a.posonlyargs or a.defaults:
            raise Untranslatable("signature of helper " + name)
        names = [x.arg for x in a.args]
        if len(names) != len(arg_exprs):
            raise Untranslatable("call to helper %s with %d args" % (name, len(arg_exprs)))
        pre = self.fresh("h_" + name.strip("_")) + "_"
        child = FnTranslator(fn, {n: k for n, (c, k) in zip(names, arg_exprs)}, self.known, self.table_name, self.defs, pre, self.stack)
        lines = []
        for n, (c, k) in zip(names, arg_exprs):
            if k == "skip":
                continue
            if k not in ("S", "V", "P"):
                raise Untranslatable("helper argument kind " + k)
            cn = child.fresh(n)
            lines.append("let %s := %s in" % (cn, c))
            child.env[n] = (cn, k)
        blines, ret = child.body()
        return ("(%s %s)" % (" ".join(lines + blines), ret[0]), ret[1])

    # ---- expressions -------------------------------------------------------------------
    def lift2(self, op, a, b):
        (ca, ka), (cb, kb) = a, b
        if ka == "S" and kb == "S":
            return ("(%s O %s %s)" % (op, ca, cb), "S")
        if ka == "V" and kb == "S":
            return ("(map (fun e_ => %s O e_ %s) %s)" % (op, cb, ca), "V")
        if ka == "S" and kb == "V":
            return ("(map (fun e_ => %s O %s e_) %s)" % (op, ca, cb), "V")
        if ka == "V" and kb == "V":
            return ("(map2 (%s O) %s %s)" % (op, ca, cb), "V")
        raise Untranslatable("binary op on kinds %s,%s" % (ka, kb))

    def lift1(self, op, a):
        ca, ka = a
        if ka == "S":
            return ("(%s O %s)" % (op, ca), "S")
        if ka == "V":
            return ("(map (%s O) %s)" % (op, ca), "V")
        raise Untranslatable("unary op on kind " + ka)

    def is_numpy_attr(self, node, names):
        return (isinstance(node, ast.Attribute) and isinstance(node.value, ast.Name)
                and node.value.id in NUMPY_NAMES and node.attr in names)

    def expr(self, e):
        if isinstance(e, ast.Constant):
            if isinstance(e.value, (int, float)) and not isinstance(e.value, bool):
                return (qlit(e.value), "S")
            raise Untranslatable("constant %r" % (e.value,))
        if isinstance(e, ast.Name):
            if e.id in self.env:
                return self.env[e.id]
            raise Untranslatable("free name " + e.id)
        if self.is_numpy_attr(e, {"pi"}):
            return ("(npi O)", "S")
        if isinstance(e, ast.UnaryOp) and isinstance(e.op, ast.USub):
            return self.lift1("nopp", self.expr(e.operand))
        if isinstance(e, ast.UnaryOp) and isinstance(e.op, ast.UAdd):
            return self.expr(e.operand)
        if isinstance(e, ast.BinOp):
            ops = {ast.Add: "nadd", ast.Sub: "nsub", ast.Mult: "nmul", ast.Div: "ndiv"}
            if type(e.op) in ops:
                return self.lift2(ops[type(e.op)], self.expr(e.left), self.expr(e.right))
            if isinstance(e.op, ast.Pow):
                r = e.right
                if isinstance(r, ast.Constant) and r.value in (2, 2.0) and not isinstance(r.value, bool):
                    return self.lift1("nsqr", self.expr(e.left))
                return self.lift2("npow", self.expr(e.left), self.expr(e.right))
            raise Untranslatable("operator " + type(e.op).__name__)
        if isinstance(e, ast.Subscript):
            return self.subscript(e)
        if isinstance(e, ast.Call):
            return self.call(e)
        raise Untranslatable("expression " + ast.dump(e)[:80])

    def subscript(self, e):
        # seperation[..., k]  on a 'P' value
        if isinstance(e.value, ast.Name) and e.value.id in self.env and self.env[e.value.id][1] == "P":
            sl = e.slice
            if (isinstance(sl, ast.Tuple) and len(sl.elts) == 2 and isinstance(sl.elts[0], ast.Constant)
                    and sl.elts[0].value is Ellipsis and isinstance(sl.elts[1], ast.Constant)
                    and sl.elts[1].value in (0, 1)):
                return ("(%s %s)" % (("fst", "snd")[sl.elts[1].value], self.env[e.value.id][0]), "S")
            raise Untranslatable("subscript of pair")
        # band = FLUX_DICTIONARY[waveband]  (the whole entry, bound to a local) ... and band[k] later
        if (isinstance(e.value, ast.Name) and e.value.id == self.table_name and isinstance(e.slice, ast.Name)
                and self.env.get(e.slice.id, (None, None))[1] == "E"):
            return (self.env[e.slice.id][0], "E")
        if (isinstance(e.value, ast.Name) and e.value.id in self.env and self.env[e.value.id][1] == "E"
                and isinstance(e.slice, ast.Constant) and e.slice.value in (0, 1, 2)):
            return ("(ent%d %s)" % (e.slice.value, self.env[e.value.id][0]), "S")
        # FLUX_DICTIONARY[waveband][k]
        if (isinstance(e.value, ast.Subscript) and isinstance(e.value.value, ast.Name)
                and e.value.value.id == self.table_name and isinstance(e.value.slice, ast.Name)
                and self.env.get(e.value.slice.id, (None, None))[1] == "E"
                and isinstance(e.slice, ast.Constant) and e.slice.value in (0, 1, 2)):
            return ("(ent%d %s)" % (e.slice.value, self.env[e.value.slice.id][0]), "S")
        raise Untranslatable("subscript " + ast.dump(e)[:80])

    def call(self, e):
        f = e.func
        if e.keywords and not (isinstance(f, ast.Attribute) and f.attr in ("var", "sum")):
            raise Untranslatable("keyword arguments in call")
        # numpy.<unary>(x)
        if self.is_numpy_attr(f, set(UNARY)) and len(e.args) == 1:
            return self.lift1(UNARY[f.attr], self.expr(e.args[0]))
        if self.is_numpy_attr(f, {"float32"}) and len(e.args) == 1:
            return self.lift1("nf32", self.expr(e.args[0]))
        # gamma / kv, bare or via scipy.special
        name = None
        if isinstance(f, ast.Name):
            name = f.id
        elif (isinstance(f, ast.Attribute) and f.attr in ("gamma", "kv")
              and isinstance(f.value, ast.Attribute) and f.value.attr == "special"
              and isinstance(f.value.value, ast.Name) and f.value.value.id == "scipy"):
            name = f.attr
        if name == "gamma" and len(e.args) == 1:
            return self.lift1("ngamma", self.expr(e.args[0]))
        if name == "kv" and len(e.args) == 2:
            return self.lift2("nkv", self.expr(e.args[0]), self.expr(e.args[1]))
        if name == "float" and len(e.args) == 1:
            return self.expr(e.args[0])
        if name == "abs" and len(e.args) == 1:
            return self.lift1("nabs", self.expr(e.args[0]))
        if name in self.known:
            kinds = self.known[name]
            if len(e.args) != len(kinds):
                raise Untranslatable("call to %s with %d args" % (name, len(e.args)))
            args = []
            for a, k in zip(e.args, kinds):
                if k == "skip":
                    continue
                c, ka = self.expr(a)
                if ka != k:
                    raise Untranslatable("argument kind %s for %s expected %s" % (ka, name, k))
                args.append(c)
            return ("(%s O %s)" % (name, " ".join(args)), "S")
        # method calls on element-wise expressions: .sum(axis) .mean() .sum()
        if isinstance(f, ast.Attribute) and f.attr in ("sum", "mean"):
            c, k = self.expr(f.value)
            if k != "V":
                raise Untranslatable(".%s of non-vector" % f.attr)
            if f.attr == "sum":
                # accepted forms: .sum()  .sum(axis)  with `axis` the function's own axis parameter
                if len(e.args) > 1 or (e.args and not (isinstance(e.args[0], ast.Name)
                                                       and self.kinds.get(e.args[0].id) == "skip")):
                    raise Untranslatable(".sum with unexpected argument")
                return ("(nsum O %s)" % c, "S")
            if e.args:
                raise Untranslatable(".mean with argument")
            return ("(nmean O %s)" % c, "S")
        if name is not None and name in self.defs and name not in self.known and name.startswith("_"):
            args = []
            for a in e.args:
                if isinstance(a, ast.Name) and self.kinds.get(a.id) == "skip":
                    args.append((None, "skip"))       # e.g. the `axis` parameter handed through
                else:
                    args.append(self.expr(a))
            return self.inline_helper(name, args)
        raise Untranslatable("call " + ast.dump(e)[:100])

    # ---- statements -------------------------------------------------------------------
    def translate(self):
        fn = self.fn
        params = []
        a = fn.args
        if a.vararg or a.kwarg or a.kwonlyargs or a.posonlyargs:
            raise Untranslatable("signature of " + fn.name)
        names = [x.arg for x in a.args]
        if set(names) != set(self.kinds):
            raise Untranslatable("parameters of %s changed: %s" % (fn.name, names))
        tyof = {"S": "T", "V": "list T", "P": "(T * T)%type", "E": "(T * T * T)%type",
                "VAR": "list T"}
        for n in names:
            k = self.kinds[n]
            if k == "skip":
                continue
            if k == "VAR":
                # the only use allowed is  <n>.var(axis=(-1)) : it becomes the parameter itself
                self.env[n] = ("#VAR#" + n, "VARSRC")
                params.append(("%s_var" % n, tyof[k]))
                continue
            self.env[n] = (n, k)
            params.append((n, tyof[k]))
        lines, ret = self.body()
        rty = {"S": "T", "V": "list T"}[ret[1]]
        ps = " ".join("(%s : %s)" % p for p in params)
        out = "Definition %s {T : Type} (O : NumOps T) %s : %s :=\n  %s\n  %s.\n" % (
            fn.name, ps, rty, "\n  ".join(lines), ret[0])
        return out, [p[0] for p in params]

    def body(self):
        """the statements of the function as a chain of let-bindings and the returned expression"""
        fn = self.fn
        lines = []
        ret = None
        body = fn.body
        for st in body:
            if ret is not None:
                raise Untranslatable("statement after return")
            if isinstance(st, ast.Expr) and isinstance(st.value, ast.Constant) and isinstance(st.value.value, str):
                continue
            if isinstance(st, ast.Assign) and len(st.targets) == 1 and isinstance(st.targets[0], ast.Name):
                tgt = st.targets[0].id
                v = st.value
                if (isinstance(v, ast.Call) and isinstance(v.func, ast.Attribute) and v.func.attr == "var"
                        and isinstance(v.func.value, ast.Name)
                        and self.env.get(v.func.value.id, (None, None))[1] == "VARSRC"):
                    ok = (not v.args and len(v.keywords) == 1 and v.keywords[0].arg == "axis")
                    if not ok:
                        raise Untranslatable(".var form")
                    self.env[tgt] = ("%s_var" % v.func.value.id, "V")
                    continue
                c, k = self.expr(v)
                cn = self.fresh(tgt)
                lines.append("let %s := %s in" % (cn, c))
                self.env[tgt] = (cn, k)
                continue
            if isinstance(st, ast.AugAssign) and isinstance(st.target, ast.Name):
                tgt = st.target.id
                ops = {ast.Add: "nadd", ast.Sub: "nsub", ast.Mult: "nmul", ast.Div: "ndiv"}
                if type(st.op) not in ops or tgt not in self.env:
                    raise Untranslatable("augmented assignment")
                c, k = self.lift2(ops[type(st.op)], self.env[tgt], self.expr(st.value))
                cn = self.fresh(tgt)
                lines.append("let %s := %s in" % (cn, c))
                self.env[tgt] = (cn, k)
                continue
            if isinstance(st, ast.Return) and st.value is not None:
                ret = self.expr(st.value)
                continue
            raise Untranslatable("statement %s in %s" % (type(st).__name__, fn.name))
        if ret is None:
            raise Untranslatable("no return in " + fn.name)
        return lines, ret


def translate_table(node, name):
    """FLUX_DICTIONARY = {'U': [a,b,c], ...} -> Coq list of (string * (T*T*T))"""
    if not isinstance(node, ast.Dict):
        raise Untranslatable("table is not a dict literal")
    rows = []
    for k, v in zip(node.keys, node.values):
        if not (isinstance(k, ast.Constant) and isinstance(k.value, str) and isinstance(v, ast.List)
                and len(v.elts) == 3 and all(isinstance(x, ast.Constant) for x in v.elts)):
            raise Untranslatable("table row")
        rows.append('("%s"%%string, (%s, %s, %s))' % ((k.value,) + tuple(qlit(x.value) for x in v.elts)))
    return ("Definition %s {T : Type} (O : NumOps T) : list (string * (T * T * T)) :=\n  [ %s ].\n"
            % (name, ";\n    ".join(rows)))


def translate_module(repo, modname, relpath, fns):
    src = open(os.path.join(repo, relpath), "rb").read()
    tree = ast.parse(src)
    defs = {n.name: n for n in tree.body if isinstance(n, ast.FunctionDef)}
    known = {}
    out = ["(* GENERATED by translate/py2coq.py from %s -- do not edit *)" % relpath,
           "From Coq Require Import ZArith List String.",
           "Require Import AOV.base.Num.", "Import ListNotations.",
           ""]
    table_name = None
    for n in tree.body:
        if (isinstance(n, ast.Assign) and len(n.targets) == 1 and isinstance(n.targets[0], ast.Name)
                and n.targets[0].id == "FLUX_DICTIONARY"):
            table_name = "FLUX_DICTIONARY"
            out.append(translate_table(n.value, "FLUX_DICTIONARY"))
    # order: callees first (sibling calls), by a simple fix-point over the requested list
    pending = list(fns)
    sigs = {}
    progress = True
    while pending and progress:
        progress = False
        for item in list(pending):
            name, kinds = item
            if name not in defs:
                raise Untranslatable("function %s missing from %s" % (name, relpath))
            fn = defs[name]
            order = [kinds[a.arg] for a in fn.args.args] if set(a.arg for a in fn.args.args) == set(kinds) else None
            if order is None:
                raise Untranslatable("parameters of %s changed" % name)
            try:
                code, params = FnTranslator(fn, kinds, known, table_name, defs).translate()
            except Untranslatable as ex:
                if str(ex).startswith("call ") or "free name" in str(ex):
                    continue      # maybe a sibling not yet translated
                raise
            out.append(code)
            known[name] = order
            sigs[name] = params
            pending.remove(item)
            progress = True
    if pending:
        # re-raise the real error of the first pending function
        name, kinds = pending[0]
        FnTranslator(defs[name], kinds, known, table_name, defs).translate()
        raise Untranslatable("could not order " + name)
    out.append('Definition source_digest : string := "%s"%%string.' % hashlib.sha256(src).hexdigest())
    return "\n".join(out) + "\n", sigs


def main(repo, outdir, only=None):
    os.makedirs(outdir, exist_ok=True)
    status = {}
    for mod, (rel, fns) in SPEC.items():
        if only and mod not in only:
            continue
        path = os.path.join(outdir, mod + ".v")
        try:
            text, sigs = translate_module(repo, mod, rel, fns)
            status[mod] = {"ok": True, "sigs": sigs}
        except (Untranslatable, SyntaxError, OSError) as ex:
            # fail closed: an empty module makes every dependent theorem fail to compile
            text = "(* TRANSLATION FAILED for %s: %s *)\n" % (rel, str(ex).replace("*)", "* )"))
            status[mod] = {"ok": False, "error": str(ex)}
        old = open(path).read() if os.path.exists(path) else None
        if old != text:
            with open(path, "w") as f:
                f.write(text)
    return status


if __name__ == "__main__":
    import json
    repo = sys.argv[1] if len(sys.argv) > 1 else "/repo"
    outdir = sys.argv[2] if len(sys.argv) > 2 else os.path.join(os.path.dirname(__file__), "..", "coq", "gen")
    st = main(repo, outdir)
    print(json.dumps(st, indent=1))
    sys.exit(0 if all(s["ok"] for s in st.values()) else 1)
