(* Software elementary functions over PrimFloat, used ONLY to run the generic models at the
   binary64 instance inside the correspondence check (never in a theorem).  Accuracy target:
   ~1e-14 relative for moderate arguments; comparisons against the implementation use
   tolerances >= 1e-9, so these need not be correctly rounded.  Unverified; exercised on every
   correspondence run (a bug here shows up as a divergence, i.e. an alarm, never as a pass). *)
From Coq Require Import ZArith Bool Uint63 PrimFloat FloatOps SpecFloat List.
Import ListNotations.
Local Open Scope bool_scope.
Local Open Scope float_scope.

Fixpoint fPos_slow (p : positive) : float :=
  match p with
  | xH => one
  | xO q => two * fPos_slow q
  | xI q => two * fPos_slow q + one
  end.
(* exact below 2^62 (hence for every literal < 2^53); within an ulp above (only 10^k scales) *)
Definition fPos (p : positive) : float :=
  if (Zpos p <? 4611686018427387904)%Z then of_uint63 (Uint63.of_Z (Zpos p)) else fPos_slow p.
Definition fZ (z : Z) : float :=
  match z with
  | Z0 => zero
  | Zpos p => fPos p
  | Zneg p => opp (fPos p)
  end.

(* exact integer value of a float that holds an integer (|x| < 2^62); 0 for nan/inf *)
Definition f2Z (x : float) : Z :=
  match Prim2SF x with
  | S754_finite s m e =>
      let v := match e with
               | Z0 => Zpos m
               | Zpos p => (Zpos m * 2 ^ Zpos p)%Z
               | Zneg p => (Zpos m / 2 ^ Zpos p)%Z
               end in
      if s then (- v)%Z else v
  | _ => 0%Z
  end.

Definition two52 : float := 0x1p+52.
(* round half to even, as numpy.round / Python round on floats *)
Definition fround_he (x : float) : float :=
  if abs x <? two52 then
    (if x <? zero then opp ((abs x + two52) - two52) else (x + two52) - two52)
  else x.
Definition ffloor (x : float) : float :=
  let r := fround_he x in if x <? r then r - one else r.
Definition ftrunc (x : float) : float :=
  if x <? zero then opp (ffloor (opp x)) else ffloor x.
Definition fceil (x : float) : float := opp (ffloor (opp x)).

Definition fmax (a b : float) := if a <? b then b else a.
Definition fmin (a b : float) := if b <? a then b else a.

Fixpoint horner (cs : list float) (x : float) : float :=
  match cs with
  | [] => zero
  | c :: r => c + x * horner r x
  end.

Definition ln2_hi : float := 0x1.62e42fee00000p-1.
Definition ln2_lo : float := 0x1.a39ef35793c76p-33.
Definition ln2 : float := 0x1.62e42fefa39efp-1.
Definition inv_ln2 : float := 0x1.71547652b82fep+0.

(* Taylor coefficients 1/k! for k = 0..20 *)
Definition exp_coeffs : list float :=
  let fix go (k : nat) (n : float) (acc : float) : list float :=
      match k with
      | O => []
      | S k' => acc :: go k' (n + one) (acc / (n + one))
      end in go 22%nat zero one.

Definition fexp (x : float) : float :=
  if is_nan x then nan else
  if 0x1.8p+9 <? x then infinity else
  if x <? -0x1.8p+9 then zero else
  let k := fround_he (x * inv_ln2) in
  let r := (x - k * ln2_hi) - k * ln2_lo in
  let e := horner exp_coeffs r in
  Z.ldexp e (f2Z k).

Definition sqrt_half : float := 0x1.6a09e667f3bcdp-1.

Fixpoint atanh_series (n : nat) (k : float) (s2 : float) : float :=
  match n with
  | O => zero
  | S n' => one / k + s2 * atanh_series n' (k + two) s2
  end.

Definition fln (x : float) : float :=
  if is_nan x then nan else
  if x <? zero then nan else
  if x =? zero then neg_infinity else
  if x =? infinity then infinity else
  let (m, e) := Z.frexp x in      (* m in [0.5,1) *)
  let '(m, e) := if m <? sqrt_half then (m * two, (e - 1)%Z) else (m, e) in
  let s := (m - one) / (m + one) in
  let s2 := s * s in
  let lm := two * s * atanh_series 16%nat one s2 in
  fZ e * ln2_hi + (fZ e * ln2_lo + lm).

Definition flog10 (x : float) : float := fln x / 0x1.26bb1bbb55516p+1.

(* is y an integer valued float? *)
Definition is_int (y : float) : bool := (ffloor y =? y) && (abs y <? 0x1p+53).
Definition is_odd_int (y : float) : bool :=
  is_int y && negb (Z.even (f2Z y)).

Fixpoint fpow_pos (x : float) (p : positive) : float :=
  match p with
  | xH => x
  | xO p' => let h := fpow_pos x p' in h * h
  | xI p' => let h := fpow_pos x p' in x * (h * h)
  end.

Definition fpow (x y : float) : float :=
  if y =? zero then one else
  if is_nan x || is_nan y then nan else
  if is_int y && (abs y <? 0x1p+6) then
    match f2Z y with
    | Z0 => one
    | Zpos p => fpow_pos x p
    | Zneg p => one / fpow_pos x p
    end
  else if x =? zero then (if y <? zero then infinity else zero)
  else if x <? zero then
    (if is_int y then
       let v := fexp (y * fln (abs x)) in if is_odd_int y then opp v else v
     else nan)
  else
    (* compensated: y*ln x split to keep ~1e-15 relative accuracy *)
    fexp (y * fln x).

Definition pio2_1 : float := 0x1.921fb54400000p+0.
Definition pio2_2 : float := 0x1.0b4611a600000p-34.
Definition pio2_3 : float := 0x1.3198a2e037073p-69.
Definition fpi : float := 0x1.921fb54442d18p+1.
Definition two_over_pi : float := 0x1.45f306dc9c883p-1.

Fixpoint sin_series (n : nat) (k : float) (r2 : float) : float :=
  (* 1 - r2/((k+1)(k+2)) * (1 - r2/((k+3)(k+4)) * ...) *)
  match n with
  | O => one
  | S n' => one - r2 / ((k + one) * (k + two)) * sin_series n' (k + two) r2
  end.

Definition sin_kernel (r : float) : float := r * sin_series 12%nat one (r * r).
Definition cos_kernel (r : float) : float := sin_series 12%nat zero (r * r).

Definition reduce_pio2 (x : float) : float * Z :=
  let k := fround_he (x * two_over_pi) in
  let r := ((x - k * pio2_1) - k * pio2_2) - k * pio2_3 in
  (r, f2Z k).

Definition fsin (x : float) : float :=
  if is_nan x || is_infinity x then nan else
  let (r, k) := reduce_pio2 x in
  match (k mod 4)%Z with
  | 0%Z => sin_kernel r
  | 1%Z => cos_kernel r
  | 2%Z => opp (sin_kernel r)
  | _ => opp (cos_kernel r)
  end.

Definition fcos (x : float) : float :=
  if is_nan x || is_infinity x then nan else
  let (r, k) := reduce_pio2 x in
  match (k mod 4)%Z with
  | 0%Z => cos_kernel r
  | 1%Z => opp (sin_kernel r)
  | 2%Z => opp (cos_kernel r)
  | _ => sin_kernel r
  end.

Fixpoint atan_series (n : nat) (k : float) (t2 : float) : float :=
  match n with
  | O => zero
  | S n' => one / k - t2 * atan_series n' (k + two) t2
  end.

(* atan for any finite t: reduce to |t|<=1, halve the angle twice, Taylor *)
Definition fatan (t : float) : float :=
  if is_nan t then nan else
  let a := abs t in
  let '(a, inv) := if one <? a then (one / a, true) else (a, false) in
  let h x := x / (one + sqrt (one + x * x)) in
  let u := h (h (h a)) in
  let v := 0x1p+3 * u * atan_series 14%nat one (u * u) in
  let v := if inv then fpi / two - v else v in
  if t <? zero then opp v else v.

Definition fatan2 (y x : float) : float :=
  if is_nan x || is_nan y then nan else
  if x =? zero then
    (if y =? zero then zero else if y <? zero then opp (fpi / two) else fpi / two)
  else if zero <? x then fatan (y / x)
  else if y <? zero then fatan (y / x) - fpi else fatan (y / x) + fpi.

(* relative/absolute closeness test used by every correspondence comparison *)
Definition fclose (tol : float) (scale : float) (a b : float) : bool :=
  if is_nan a || is_nan b then false else
  if (a =? b) then true else
  abs (a - b) <=? tol * fmax scale (fmax (abs a) (abs b)).
