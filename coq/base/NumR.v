(* real-number instance: the carrier of the theorems.  Gamma and K_nu stay abstract. *)
From Coq Require Import ZArith Reals Bool List Lra.
Require Import AOV.base.Num.
Local Open Scope R_scope.

Definition Rleb (a b : R) : bool := if Rle_dec a b then true else false.
Definition Rltb (a b : R) : bool := if Rlt_dec a b then true else false.
Definition Reqb (a b : R) : bool := if Req_EM_T a b then true else false.
Definition Rfloor (x : R) : R := IZR (Int_part x).
(* round half to even *)
Definition Rround (x : R) : R :=
  let f := Int_part x in
  let d := x - IZR f in
  if Rlt_dec d (1/2) then IZR f
  else if Rlt_dec (1/2) d then IZR (f + 1)
  else if Z.even f then IZR f else IZR (f + 1).

Definition ROps (G : R -> R) (K : R -> R -> R) : NumOps R := {|
  nadd := Rplus; nsub := Rminus; nmul := Rmult; ndiv := Rdiv; nopp := Ropp;
  nsqrt := sqrt; nabs := Rabs; nofZ := IZR;
  nleb := Rleb; nltb := Rltb; neqb := Reqb;
  npow := Rpower; nexp := exp; nln := ln; nlog10 := fun x => ln x / ln 10;
  ncos := cos; nsin := sin; natan2 := fun y x => atan (y / x); npi := PI;
  ngamma := G; nkv := K;
  nround := Rround; nfloor := Rfloor; ntoZ := Int_part; nf32 := fun x => x;
  (* OR of bit patterns has a real-number meaning only when one operand is 0 or both are equal *)
  nbor32 := fun a b => if Req_EM_T a 0 then b else a |}.

Lemma Rleb_true a b : Rleb a b = true <-> a <= b.
Proof. unfold Rleb; destruct (Rle_dec a b); split; intros; auto; try discriminate; lra. Qed.
Lemma Rltb_true a b : Rltb a b = true <-> a < b.
Proof. unfold Rltb; destruct (Rlt_dec a b); split; intros; auto; try discriminate; lra. Qed.
Lemma Reqb_true a b : Reqb a b = true <-> a = b.
Proof. unfold Reqb; destruct (Req_EM_T a b); split; intros; auto; try discriminate; lra. Qed.

Ltac rops := cbv [nadd nsub nmul ndiv nopp nsqrt nabs nofZ nleb nltb neqb npow nexp nln nlog10
                  ncos nsin natan2 npi ngamma nkv nround nfloor ntoZ nf32 nbor32 ROps nofQ nsqr nzero none].
