(* complex numbers as pairs over a NumOps carrier, lists and matrices of them, and the discrete
   Fourier transform written out as explicit sums (definitions only; proofs in proofs/Dft_proofs.v) *)
From Coq Require Import ZArith Bool List Arith.
Require Import AOV.base.Num.
Import ListNotations.

Section Cplx.
  Context {T : Type} (O : NumOps T).
  Definition cx : Type := (T * T)%type.
  Definition cre (z : cx) : T := fst z.
  Definition cim (z : cx) : T := snd z.
  Definition czero : cx := (nzero O, nzero O).
  Definition cone : cx := (none O, nzero O).
  Definition cI : cx := (nzero O, none O).
  Definition cofR (x : T) : cx := (x, nzero O).
  Definition cadd (a b : cx) : cx := (nadd O (fst a) (fst b), nadd O (snd a) (snd b)).
  Definition csub (a b : cx) : cx := (nsub O (fst a) (fst b), nsub O (snd a) (snd b)).
  Definition copp (a : cx) : cx := (nopp O (fst a), nopp O (snd a)).
  Definition cmul (a b : cx) : cx :=
    (nsub O (nmul O (fst a) (fst b)) (nmul O (snd a) (snd b)),
     nadd O (nmul O (fst a) (snd b)) (nmul O (snd a) (fst b))).
  Definition cscale (r : T) (a : cx) : cx := (nmul O r (fst a), nmul O r (snd a)).
  Definition cconj (a : cx) : cx := (fst a, nopp O (snd a)).
  Definition cabs2 (a : cx) : T := nadd O (nmul O (fst a) (fst a)) (nmul O (snd a) (snd a)).
  Definition cabs (a : cx) : T := nsqrt O (cabs2 a).
  Definition cinv (a : cx) : cx :=
    let d := cabs2 a in (ndiv O (fst a) d, ndiv O (nopp O (snd a)) d).
  Definition cdiv (a b : cx) : cx := cmul a (cinv b).
  (* e^{i t} *)
  Definition cis (t : T) : cx := (ncos O t, nsin O t).
  Definition csum (l : list cx) : cx := fold_left cadd l czero.

  (* ---- lists ---- *)
  Fixpoint mapi_from {A B} (f : nat -> A -> B) (i : nat) (l : list A) : list B :=
    match l with [] => [] | a :: r => f i a :: mapi_from f (S i) r end.
  Definition mapi {A B} (f : nat -> A -> B) (l : list A) : list B := mapi_from f 0 l.

  (* numpy.fft.fftshift along one axis: roll right by N/2 ;  ifftshift: roll left by N/2 *)
  Definition fftshift {A} (l : list A) : list A :=
    let n := length l in let h := Nat.div n 2 in skipn (n - h) l ++ firstn (n - h) l.
  Definition ifftshift {A} (l : list A) : list A :=
    let n := length l in let h := Nat.div n 2 in skipn h l ++ firstn h l.

  (* primitive N-th root of unity to the power k, forward sign: e^{-2 pi i k / N}; the exponent is
     reduced mod N first so that float arguments stay small *)
  Definition two_pi : T := nmul O (nofZ O 2) (npi O).
  Definition root (N : nat) (k : nat) : cx :=
    cis (nopp O (ndiv O (nmul O two_pi (nofZ O (Z.of_nat (k mod N)))) (nofZ O (Z.of_nat N)))).
  Definition iroot (N : nat) (k : nat) : cx := cconj (root N k).

  (* numpy.fft.fft / ifft of a 1-D sequence *)
  Definition dft (x : list cx) : list cx :=
    let N := length x in
    map (fun k => csum (mapi (fun n xn => cmul xn (root N (n * k))) x)) (seq 0 N).
  Definition idft (x : list cx) : list cx :=
    let N := length x in
    map (fun k => cscale (ndiv O (none O) (nofZ O (Z.of_nat N)))
                         (csum (mapi (fun n xn => cmul xn (iroot N (n * k))) x))) (seq 0 N).

  (* ---- matrices (row-major list of rows) ---- *)
  Fixpoint transpose_aux {A} (ncols : nat) (m : list (list A)) : list (list A) :=
    match m with
    | [] => repeat [] ncols
    | r :: rest => map2 (fun a col => a :: col) r (transpose_aux ncols rest)
    end.
  Definition transpose {A} (m : list (list A)) : list (list A) :=
    match m with [] => [] | r :: _ => transpose_aux (length r) m end.
  Definition wf_mat {A} (r c : nat) (m : list (list A)) : Prop :=
    length m = r /\ Forall (fun row => length row = c) m.

  (* numpy.fft.fft2 over the last two axes = 1-D transform of every row, then of every column *)
  Definition dft2 (m : list (list cx)) : list (list cx) :=
    transpose (map dft (transpose (map dft m))).
  Definition idft2 (m : list (list cx)) : list (list cx) :=
    transpose (map idft (transpose (map idft m))).
  Definition fftshift2 {A} (m : list (list A)) : list (list A) := fftshift (map fftshift m).
  Definition ifftshift2 {A} (m : list (list A)) : list (list A) := ifftshift (map ifftshift m).

  Definition cscale_l (r : T) (l : list cx) := map (cscale r) l.
  Definition cscale_m (r : T) (m : list (list cx)) := map (cscale_l r) m.
  Definition cmul_m (a b : list (list cx)) := map2 (map2 cmul) a b.
  Definition energy (l : list cx) : T := nsum O (map cabs2 l).
  Definition energy2 (m : list (list cx)) : T := nsum O (map energy m).
End Cplx.
