(* tactics for identities between positive real expressions built from * / Rpower exp *)
From Coq Require Import Reals Lra ZArith List.
Require Import AOV.base.Num AOV.base.NumR.
Local Open Scope R_scope.

Lemma Rpower_pos x y : 0 < Rpower x y.
Proof. unfold Rpower; apply exp_pos. Qed.
Lemma ln_div x y : 0 < x -> 0 < y -> ln (x / y) = ln x - ln y.
Proof. intros; unfold Rdiv; rewrite ln_mult, ln_Rinv; auto using Rinv_0_lt_compat; lra. Qed.
Lemma sqr_pos x : 0 < x -> 0 < x * x.
Proof. intros; apply Rmult_lt_0_compat; auto. Qed.

Ltac pos :=
  repeat first
    [ assumption
    | apply Rpower_pos | apply exp_pos | apply PI_RGT_0
    | apply Rmult_lt_0_compat | apply Rdiv_lt_0_compat | apply Rinv_0_lt_compat
    | apply IZR_lt; reflexivity
    | lra ].

Ltac ln_push :=
  repeat first
    [ rewrite ln_Rpower | rewrite ln_exp
    | rewrite ln_mult by pos | rewrite ln_div by pos | rewrite ln_Rinv by pos ].

(* goal a = b with a, b > 0 : compare logarithms, which are linear in the ln-atoms *)
Ltac lnify := apply ln_inv; [ pos | pos | ln_push; try field; try lra ].

Lemma ln_10_neq_0 : ln 10 <> 0.
Proof. apply ln_neq_0; lra. Qed.
Ltac lnify10 := apply ln_inv; [ pos | pos | ln_push; field; try apply ln_10_neq_0 ].

Lemma fold_left_Rplus_acc l a : fold_left Rplus l a = a + fold_left Rplus l 0.
Proof. revert a; induction l as [|x l IH]; intros a; simpl; [lra|]. rewrite IH, (IH (0 + x)); lra. Qed.
Lemma nsum_R_cons G K x l : nsum (ROps G K) (x :: l) = x + nsum (ROps G K) l.
Proof. unfold nsum; simpl. rewrite fold_left_Rplus_acc. unfold nzero; simpl. lra. Qed.
Lemma nsum_R_nil G K : nsum (ROps G K) nil = 0.
Proof. reflexivity. Qed.
Lemma nsum_R_repeat G K x n : nsum (ROps G K) (repeat x n) = INR n * x.
Proof. induction n as [|n IH]; [simpl; rewrite nsum_R_nil; lra|].
  cbn [repeat]. rewrite nsum_R_cons, IH, S_INR. lra. Qed.
Lemma nsum_R_scal G K s l : nsum (ROps G K) (map (fun x => s * x) l) = s * nsum (ROps G K) l.
Proof. induction l as [|x l IH]; cbn [map]; [rewrite nsum_R_nil; lra|]. rewrite !nsum_R_cons, IH. lra. Qed.
Lemma nsum_R_app G K a b : nsum (ROps G K) (a ++ b) = nsum (ROps G K) a + nsum (ROps G K) b.
Proof. induction a as [|x a IH]; cbn [app]; [rewrite nsum_R_nil; lra|]. rewrite !nsum_R_cons, IH. lra. Qed.
Ltac nz := repeat split; apply Rgt_not_eq; unfold Rgt; pos.
Ltac fieldp := field; nz.

Lemma map_repeat' {A B} (f : A -> B) x n : map f (repeat x n) = repeat (f x) n.
Proof. induction n; simpl; congruence. Qed.
