(* binary64 instance of the numeric interface: IEEE primitives for + - * / sqrt and comparisons,
   software elementary functions (FloatFun), fail-closed tables for Gamma and K_nu. *)
From Coq Require Import ZArith Bool Uint63 PrimFloat FloatOps SpecFloat List.
Require Import AOV.base.Num AOV.base.FloatFun.
Import ListNotations.
Local Open Scope float_scope.

(* oracle table: (nu, x, value); nu = -1 encodes Gamma.  Lookup tolerates 1e-12 relative
   difference in the argument; a missing entry yields NaN (counted as a divergence). *)
Definition otable := list (float * float * float).
(* nearest key with the requested nu; accepted only if within ktol (relative); NaN otherwise *)
Fixpoint onearest (t : otable) (nu x : float) (best : option (float * float)) : option (float * float) :=
  match t with
  | [] => best
  | (n, k, v) :: r =>
      if fclose 0x1p-38 zero n nu then
        let d := abs (k - x) in
        match best with
        | Some (bd, _) => if d <? bd then onearest r nu x (Some (d, v)) else onearest r nu x best
        | None => onearest r nu x (Some (d, v))
        end
      else onearest r nu x best
  end.
Definition olookup (ktol : float) (t : otable) (nu x : float) : float :=
  match onearest t nu x None with
  | Some (d, v) => if d <=? ktol * fmax (abs x) (d + abs x) then v else nan
  | None => nan
  end.

Definition f32 (x : float) : float :=
  (* round to 24 significant bits (Veltkamp); denormal/overflow range of binary32 ignored *)
  if is_nan x || is_infinity x then x else
  let c := x * 0x1.0000002p+29 in
  let r := c - (c - x) in if is_nan r || is_infinity r then x else r.

(* binary32 bit pattern of a double that holds a binary32 value (normal or subnormal), and back *)
Definition f32_bits (x : float) : Z :=
  match Prim2SF x with
  | S754_zero s => if s then 2147483648 else 0
  | S754_infinity s => (if s then 2147483648 else 0) + 2139095040
  | S754_nan => 2143289344
  | S754_finite s m e =>
      (* x = m * 2^e with m < 2^53: normalise to 24 bits *)
      let nb := Z.log2 (Zpos m) in              (* m in [2^nb, 2^(nb+1)) *)
      let ex := nb + e in                       (* unbiased exponent *)
      let mant := (Zpos m * 2 ^ 23) / 2 ^ nb in    (* 24-bit significand, exact if x is a binary32 value *)
      (if s then 2147483648 else 0) + (if ex + 127 <=? 0 then mant / 2 ^ (- (ex + 126))      (* binary32 subnormal: fraction = x * 2^149, exponent field 0 *)
                                       else (ex + 127) * 8388608 + (mant - 8388608))
  end%Z.
Definition f32_of_bits (b : Z) : float :=
  let s := (2147483648 <=? b)%Z in
  let b' := (if s then b - 2147483648 else b)%Z in
  let ex := (b' / 8388608)%Z in
  let fr := (b' mod 8388608)%Z in
  let v := if (ex =? 0)%Z then Z.ldexp (fZ fr) (-149)
           else if (ex =? 255)%Z then (if (fr =? 0)%Z then infinity else nan)
           else Z.ldexp (fZ (fr + 8388608)) (ex - 150) in
  if s then opp v else v.
Definition fbor32 (a b : float) : float := f32_of_bits (Z.lor (f32_bits a) (f32_bits b)).

Definition FOpsK (ktol : float) (t : otable) : NumOps float := {|
  nadd := add; nsub := sub; nmul := mul; ndiv := div; nopp := opp; nsqrt := sqrt; nabs := abs;
  nofZ := fZ; nleb := leb; nltb := ltb; neqb := eqb;
  npow := fpow; nexp := fexp; nln := fln; nlog10 := flog10; ncos := fcos; nsin := fsin;
  natan2 := fatan2; npi := fpi;
  ngamma := fun x => olookup ktol t (-1) x;  nkv := fun nu x => olookup ktol t nu x;
  nround := fround_he; nfloor := ffloor; ntoZ := f2Z; nf32 := f32; nbor32 := fbor32 |}.
Definition FOps (t : otable) : NumOps float := FOpsK 0x1p-38 t.

Definition fcloseb := fclose.
Fixpoint all_close (tol scale : float) (a b : list float) : bool :=
  match a, b with
  | [], [] => true
  | x :: r, y :: s => fclose tol scale x y && all_close tol scale r s
  | _, _ => false
  end.
Fixpoint all_close2 (tol scale : float) (a b : list (list float)) : bool :=
  match a, b with
  | [], [] => true
  | x :: r, y :: s => all_close tol scale x y && all_close2 tol scale r s
  | _, _ => false
  end.
Definition maxabs (l : list float) : float := fold_left (fun m x => fmax m (abs x)) l zero.
Definition maxabs2 (l : list (list float)) : float := fold_left (fun m r => fmax m (maxabs r)) l zero.
(* index of first failing case, for reporting *)
Fixpoint first_false (n : nat) (l : list bool) : option nat :=
  match l with [] => None | b :: r => if b then first_false (S n) r else Some n end.
Definition count_true (l : list bool) : nat := length (filter (fun b => b) l).
