(* binary64 instance of the numeric interface: IEEE primitives for + - * / sqrt and comparisons,
   software elementary functions (FloatFun), fail-closed tables for Gamma and K_nu. *)
From Coq Require Import ZArith Bool Uint63 PrimFloat FloatOps List.
Require Import AOV.base.Num AOV.base.FloatFun.
Import ListNotations.
Local Open Scope float_scope.

(* oracle table: (nu, x, value); nu = -1 encodes Gamma.  Lookup tolerates 1e-12 relative
   difference in the argument; a missing entry yields NaN (counted as a divergence). *)
Definition otable := list (float * float * float).
Fixpoint olookup (ktol : float) (t : otable) (nu x : float) : float :=
  match t with
  | [] => nan
  | (n, k, v) :: r => if fclose 0x1p-38 zero n nu && fclose ktol zero k x then v else olookup ktol r nu x
  end.

Definition f32 (x : float) : float :=
  (* round to 24 significant bits (Veltkamp); denormal/overflow range of binary32 ignored *)
  if is_nan x || is_infinity x then x else
  let c := x * 0x1.0000002p+29 in
  let r := c - (c - x) in if is_nan r || is_infinity r then x else r.

Definition FOpsK (ktol : float) (t : otable) : NumOps float := {|
  nadd := add; nsub := sub; nmul := mul; ndiv := div; nopp := opp; nsqrt := sqrt; nabs := abs;
  nofZ := fZ; nleb := leb; nltb := ltb; neqb := eqb;
  npow := fpow; nexp := fexp; nln := fln; nlog10 := flog10; ncos := fcos; nsin := fsin;
  natan2 := fatan2; npi := fpi;
  ngamma := fun x => olookup ktol t (-1) x;  nkv := fun nu x => olookup ktol t nu x;
  nround := fround_he; nfloor := ffloor; ntoZ := f2Z; nf32 := f32 |}.
Definition FOps (t : otable) : NumOps float := FOpsK 0x1p-38 t.

Definition fcloseb := fclose.
Fixpoint all_close (tol scale : float) (a b : list float) : bool :=
  match a, b with
  | [], [] => true
  | x :: r, y :: s => fclose tol scale x y && all_close tol scale r s
  | _, _ => false
  end.
Fixpoint all_close2 (tol scale : float) (a b : list (list float)) : bool :=
  match a, b with
  | [], [] => true
  | x :: r, y :: s => all_close tol scale x y && all_close2 tol scale r s
  | _, _ => false
  end.
Definition maxabs (l : list float) : float := fold_left (fun m x => fmax m (abs x)) l zero.
Definition maxabs2 (l : list (list float)) : float := fold_left (fun m r => fmax m (maxabs r)) l zero.
(* index of first failing case, for reporting *)
Fixpoint first_false (n : nat) (l : list bool) : option nat :=
  match l with [] => None | b :: r => if b then first_false (S n) r else Some n end.
Definition count_true (l : list bool) : nat := length (filter (fun b => b) l).
