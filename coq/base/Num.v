(* The numeric interface every model is written against.  One definition, several carriers:
   NumR.ROps (Coq reals: theorems), FOps (binary64 PrimFloat: executed by vm_compute in the
   correspondence check), exact rings (witnesses). *)
From Coq Require Import ZArith Bool List.
Import ListNotations.

Record NumOps (T : Type) : Type := mkNumOps {
  nadd : T -> T -> T;  nsub : T -> T -> T;  nmul : T -> T -> T;  ndiv : T -> T -> T;
  nopp : T -> T;  nsqrt : T -> T;  nabs : T -> T;
  nofZ : Z -> T;
  nleb : T -> T -> bool;  nltb : T -> T -> bool;  neqb : T -> T -> bool;
  (* external numeric library (oracles at the float instance) *)
  npow : T -> T -> T;  nexp : T -> T;  nln : T -> T;  nlog10 : T -> T;
  ncos : T -> T;  nsin : T -> T;  natan2 : T -> T -> T;  npi : T;
  ngamma : T -> T;  nkv : T -> T -> T;
  nround : T -> T;  nfloor : T -> T;  ntoZ : T -> Z;
  nf32 : T -> T;
  nbor32 : T -> T -> T     (* numpy.bitwise_or of the binary32 bit patterns (mirror_covariance_matrix) *)
}.
Arguments nadd {T} _. Arguments nsub {T} _. Arguments nmul {T} _. Arguments ndiv {T} _.
Arguments nopp {T} _. Arguments nsqrt {T} _. Arguments nabs {T} _. Arguments nofZ {T} _.
Arguments nleb {T} _. Arguments nltb {T} _. Arguments neqb {T} _. Arguments npow {T} _.
Arguments nexp {T} _. Arguments nln {T} _. Arguments nlog10 {T} _. Arguments ncos {T} _.
Arguments nsin {T} _. Arguments natan2 {T} _. Arguments npi {T} _. Arguments ngamma {T} _.
Arguments nkv {T} _. Arguments nround {T} _. Arguments nfloor {T} _. Arguments ntoZ {T} _.
Arguments nf32 {T} _. Arguments nbor32 {T} _.

Section Derived.
  Context {T : Type} (O : NumOps T).
  (* decimal literal n/d of the source, d a power of ten *)
  Definition nofQ (n : Z) (d : positive) : T := ndiv O (nofZ O n) (nofZ O (Zpos d)).
  Definition nzero : T := nofZ O 0.
  Definition none : T := nofZ O 1.
  Definition nsqr (x : T) : T := nmul O x x.
  Definition nsum (l : list T) : T := fold_left (nadd O) l nzero.
  Definition nmax (a b : T) : T := if nltb O a b then b else a.
  Definition nmin (a b : T) : T := if nltb O b a then b else a.
  Fixpoint map2 {A B C} (f : A -> B -> C) (l1 : list A) (l2 : list B) : list C :=
    match l1, l2 with
    | a :: r1, b :: r2 => f a b :: map2 f r1 r2
    | _, _ => []
    end.
  Definition ndot (a b : list T) : T := nsum (map2 (nmul O) a b).
  Definition nmean (l : list T) : T := ndiv O (nsum l) (nofZ O (Z.of_nat (List.length l))).
End Derived.
Definition ent0 {T} (e : T * T * T) : T := fst (fst e).
Definition ent1 {T} (e : T * T * T) : T := snd (fst e).
Definition ent2 {T} (e : T * T * T) : T := snd e.
