(* C09: witnesses evaluated at binary64 (vm_compute).  They show that
   (1) ft does not put the origin at the centre sample for odd N (known finding C09-odd-centre),
   (2) phasescreen.ift2 is not an inverse of ft2 for odd N (why the package must not export it),
   (3) irft (rft x) = x * (N/2+1)/N, not x (known finding C09-irft-scale).
   And, for every NumOps, that phasescreen.ift2 coincides with fouriertransform.ift2 on even square
   arrays. *)
From Coq Require Import ZArith List Bool Arith Lia PrimFloat.
Require Import AOV.base.Num AOV.base.FloatFun AOV.base.NumF AOV.base.Cplx AOV.model.Fourier
               AOV.proofs.Dft_proofs.
Import ListNotations.
Local Open Scope float_scope.

Definition F := FOps [].
Definition cflat (l : list (float * float)) : list float := flat_map (fun z => [fst z; snd z]) l.
Definition cflat2 (m : list (list (float * float))) : list float := flat_map cflat m.

(* (1) centred delta of length 5: a transform with its origin at the centre sample would give the
   constant delta = 1 (real); ft returns non-real values *)
Definition delta5 : list (float * float) := [(0,0); (0,0); (1,0); (0,0); (0,0)].
Lemma ft_odd_not_centred :
  all_close 0x1p-20 1 (cflat (ft F delta5 1)) (cflat [(1,0); (1,0); (1,0); (1,0); (1,0)]) = false.
Proof. vm_compute. reflexivity. Qed.
(* ... whereas for even N it does *)
Definition delta4 : list (float * float) := [(0,0); (0,0); (1,0); (0,0)].
Lemma ft_even_centred :
  all_close 0x1p-40 1 (cflat (ft F delta4 1)) (cflat [(1,0); (1,0); (1,0); (1,0)]) = true.
Proof. vm_compute. reflexivity. Qed.

(* (2) *)
Definition m3 : list (list (float * float)) :=
  [[(1,0); (2,0); (3,0)]; [(4,0); (5,0); (6,0)]; [(7,0); (8,0); (10,0)]].
Lemma ps_ift2_not_inverse_odd :
  all_close 0x1p-20 1 (cflat2 (ps_ift2 F (ft2 F m3 1) (1 / 3))) (cflat2 m3) = false
  /\ all_close 0x1p-40 1 (cflat2 (ift2 F (ft2 F m3 1) (1 / 3))) (cflat2 m3) = true.
Proof. split; vm_compute; reflexivity. Qed.

(* (3) *)
Definition x4 : list (float * float) := [(1,0); (2,0); (-1,0); (0.5,0)].
Lemma irft_rft_scale :
  all_close 0x1p-20 1 (cflat (irft F (rft F x4 1) (1 / 4))) (cflat x4) = false
  /\ all_close 0x1p-40 1 (cflat (irft F (rft F x4 1) (1 / 4)))
                         (cflat (cscale_l F 0.75 x4)) = true.
Proof. split; vm_compute; reflexivity. Qed.

(* generic: on even square arrays the two ift2 coincide *)
Lemma ps_ift2_eq_ift2_even_square {T} (O : NumOps T) n (m : list (list (@cx T))) delta_f :
  wf_mat n n m -> Nat.even n = true -> (0 < n)%nat -> ps_ift2 O m delta_f = ift2 O m delta_f.
Proof.
  intros [Hl Hf] He Hn. unfold ps_ift2, ift2.
  assert (Hc : ncols m = n).
  { destruct m as [|row m]; [simpl in Hl; lia|]. simpl. inversion Hf; assumption. }
  unfold nlen. rewrite Hl, Hc. f_equal. f_equal. f_equal.
  unfold fftshift2, ifftshift2.
  rewrite (fftshift_even _ (map fftshift m)) by (rewrite map_length, Hl; exact He).
  f_equal. apply map_ext_in. intros row Hrow. rewrite Forall_forall in Hf.
  apply fftshift_even. rewrite (Hf row Hrow). exact He.
Qed.
