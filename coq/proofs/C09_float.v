(* C09: witnesses evaluated at binary64 (vm_compute).  They show that
   (1) after the repair ft puts the origin at the centre sample for odd N too (a centred delta of length 5
       is mapped to the constant 1; before the repair the values were not real),
   (2) phasescreen.ift2 is not an inverse of ft2 for odd N (why the package must not export it),
   (3) irft (rft x) = x * (N/2+1)/N, not x (known finding C09-irft-scale).
   And, for every NumOps, that phasescreen.ift2 coincides with fouriertransform.ift2 on even square
   arrays. *)
From Coq Require Import ZArith List Bool Arith Lia PrimFloat.
Require Import AOV.base.Num AOV.base.FloatFun AOV.base.NumF AOV.base.Cplx AOV.model.Fourier
               AOV.proofs.Dft_proofs AOV.proofs.C09_proofs.
Import ListNotations.
Local Open Scope float_scope.

Definition F := FOps [].
Definition cflat (l : list (float * float)) : list float := flat_map (fun z => [fst z; snd z]) l.
Definition cflat2 (m : list (list (float * float))) : list float := flat_map cflat m.

(* (1) centred delta of length 5: a transform with its origin at the centre sample gives the
   constant delta = 1 (real); the repaired ft does *)
Definition delta5 : list (float * float) := [(0,0); (0,0); (1,0); (0,0); (0,0)].
Lemma ft_odd_centred_delta5 :
  all_close 0x1p-40 1 (cflat (ft F delta5 1)) (cflat [(1,0); (1,0); (1,0); (1,0); (1,0)]) = true.
Proof. vm_compute. reflexivity. Qed.
(* ... as for even N *)
Definition delta4 : list (float * float) := [(0,0); (0,0); (1,0); (0,0)].
Lemma ft_even_centred :
  all_close 0x1p-40 1 (cflat (ft F delta4 1)) (cflat [(1,0); (1,0); (1,0); (1,0)]) = true.
Proof. vm_compute. reflexivity. Qed.

(* (2) *)
Definition m3 : list (list (float * float)) :=
  [[(1,0); (2,0); (3,0)]; [(4,0); (5,0); (6,0)]; [(7,0); (8,0); (10,0)]].
Lemma ps_ift2_not_inverse_odd :
  all_close 0x1p-20 1 (cflat2 (ps_ift2 F (ft2 F m3 1) (1 / 3))) (cflat2 m3) = false
  /\ all_close 0x1p-40 1 (cflat2 (ift2 F (ft2 F m3 1) (1 / 3))) (cflat2 m3) = true.
Proof. split; vm_compute; reflexivity. Qed.

(* (3) *)
Definition x4 : list (float * float) := [(1,0); (2,0); (-1,0); (0.5,0)].
Lemma irft_rft_scale :
  all_close 0x1p-20 1 (cflat (irft F (rft F x4 1) (1 / 4))) (cflat x4) = false
  /\ all_close 0x1p-40 1 (cflat (irft F (rft F x4 1) (1 / 4)))
                         (cflat (cscale_l F 0.75 x4)) = true.
Proof. split; vm_compute; reflexivity. Qed.

(* generic: on even square arrays the two ift2 coincide *)
Lemma idft_length_gen {T} (O : NumOps T) (x : list (@cx T)) : length (idft O x) = length x.
Proof. unfold idft. rewrite map_length, seq_length. reflexivity. Qed.
Lemma wf_idft2_gen {T} (O : NumOps T) r c (m : list (list (@cx T))) :
  wf_mat r c m -> (0 < r)%nat -> (0 < c)%nat -> wf_mat r c (idft2 O m).
Proof.
  intros Hwf Hr Hc. unfold idft2. apply wf_transpose; [|exact Hc].
  apply wf_map; [apply idft_length_gen|]. apply wf_transpose; [|exact Hr].
  apply wf_map; [apply idft_length_gen|exact Hwf].
Qed.
Lemma fftshift2_even {A} r c (m : list (list A)) :
  wf_mat r c m -> Nat.even r = true -> Nat.even c = true -> fftshift2 m = ifftshift2 m.
Proof.
  intros [Hl Hf] Hr Hc. unfold fftshift2, ifftshift2.
  rewrite (fftshift_even _ (map fftshift m)) by (rewrite map_length, Hl; exact Hr).
  f_equal. apply map_ext_in. intros row Hrow. rewrite Forall_forall in Hf.
  apply fftshift_even. rewrite (Hf row Hrow). exact Hc.
Qed.
Lemma ps_ift2_eq_ift2_even_square {T} (O : NumOps T) n (m : list (list (@cx T))) delta_f :
  wf_mat n n m -> Nat.even n = true -> (0 < n)%nat -> ps_ift2 O m delta_f = ift2 O m delta_f.
Proof.
  intros Hwf He Hn. unfold ps_ift2, ift2.
  assert (Hc : ncols m = n).
  { destruct Hwf as [Hl Hf]. destruct m as [|row m]; [simpl in Hl; lia|]. simpl. inversion Hf; assumption. }
  unfold nlen. destruct Hwf as [Hl Hf]. rewrite Hl, Hc. f_equal.
  rewrite (fftshift2_even n n m (conj Hl Hf) He He).
  symmetry. apply (fftshift2_even n n); [|exact He|exact He].
  apply wf_idft2_gen; [|exact Hn|exact Hn]. apply wf_ifftshift2. split; assumption.
Qed.
