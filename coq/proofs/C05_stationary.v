(* C05 (statistics): the theoretical covariance is a fixed point of the von Karman row recursion.
   Pure second-moment algebra over R (no probability):

     Z' = F Z + Gm b,   F = [A ; S],  Gm = [B ; 0],  S = [I_{ns-nx} 0]
     Sigma' = F Sigma F^T + Gm Gm^T

   and Sigma = Czz is a fixed point as soon as A Czz = Cxz, A Czz A^T + B B^T = Cxx (C04) and the
   theoretical covariance is invariant under translation by one row (derived here from the model's
   cov_mat / separations geometry).  The connection with the state machine (step_vk) is proved for
   every carrier. *)
From Coq Require Import ZArith Reals Bool List Arith Lra Lia.
Require Import AOV.base.Num AOV.base.NumR AOV.base.RpowTac AOV.base.Cplx AOV.model.Mat
               AOV.model.InfScreen AOV.gen.Gen_turb AOV.proofs.Dft_proofs AOV.proofs.Mat_proofs
               AOV.proofs.C04_proofs AOV.proofs.C05_proofs.
Import ListNotations.

(* ------------------------------------------------------------------------------------------ *)
(* generic list facts                                                                          *)
(* ------------------------------------------------------------------------------------------ *)

Lemma cs_skipn_nth_cons {A} (d : A) s (m : list A) :
  (s < length m)%nat -> skipn s m = nth s m d :: skipn (S s) m.
Proof.
  revert m; induction s as [|s IH]; intros [|x m] H; simpl in H; try lia.
  - reflexivity.
  - change (skipn (S s) (x :: m)) with (skipn s m). rewrite (IH m) by lia. reflexivity.
Qed.

Lemma cs_map_nth_seq {A} (d : A) (l : list A) n :
  length l = n -> map (fun j => nth j l d) (seq 0 n) = l.
Proof.
  intros H. apply (nth_ext _ _ d d); [rewrite map_length, seq_length; lia|].
  intros i Hi. rewrite map_length, seq_length in Hi.
  rewrite (nth_map_seq (fun j => nth j l d) n i d Hi). reflexivity.
Qed.

Lemma cs_concat_firstn_rows {A} nx (m : list (list A)) k :
  Forall (fun r => length r = nx) m ->
  firstn (k * nx) (concat m) = concat (firstn k m).
Proof.
  intros H; revert k; induction H as [|r m Hr _ IH]; intros k.
  - cbn [concat]. rewrite !firstn_nil. reflexivity.
  - destruct k as [|k]; [reflexivity|].
    cbn [concat firstn]. replace (S k * nx)%nat with (length r + k * nx)%nat by (rewrite Hr; lia).
    rewrite firstn_app_2, IH. reflexivity.
Qed.

Lemma cs_nth_repeat_lt {A} (x d : A) n i : (i < n)%nat -> nth i (repeat x n) d = x.
Proof.
  revert i; induction n as [|n IH]; intros i Hi; [lia|].
  destruct i as [|i]; [reflexivity|]. cbn [repeat nth]. apply IH. lia.
Qed.

Lemma cs_map2_app {A B C} (f : A -> B -> C) a1 a2 b1 b2 :
  length a1 = length b1 -> map2 f (a1 ++ a2) (b1 ++ b2) = map2 f a1 b1 ++ map2 f a2 b2.
Proof.
  revert b1; induction a1 as [|x a1 IH]; intros [|y b1] H; simpl in H; try lia.
  - reflexivity.
  - cbn [app map2]. rewrite IH by lia. reflexivity.
Qed.

Lemma cs_flat_pairs_length nx nc s :
  length (flat_map (fun i => map (fun j => (i, j)) (seq 0 nx)) (seq s nc)) = (nc * nx)%nat.
Proof.
  revert s; induction nc as [|nc IH]; intros s; [reflexivity|].
  cbn [seq flat_map]. rewrite app_length, map_length, seq_length, IH. lia.
Qed.

Lemma vk_stencil_length nx nc : length (vk_stencil nx nc) = (nc * nx)%nat.
Proof. apply cs_flat_pairs_length. Qed.

(* ------------------------------------------------------------------------------------------ *)
(* the state machine: one von Karman step turns the stencil vector Z into  X ++ firstn (ns-nx) Z *)
(* (every carrier, every NumOps: bit-identity at the IEEE instance)                            *)
(* ------------------------------------------------------------------------------------------ *)

Section StencilUpdate.
  Context {T : Type} (O : NumOps T).
  Local Notation screen := (@screen T).
  Local Notation mat := (@mat T).

  Lemma stencil_data_vk_from (m : mat) nx nc s :
    (s + nc <= length m)%nat -> Forall (fun r => length r = nx) m ->
    map (fun p => nth (snd p) (nth (fst p) m []) (nzero O))
        (flat_map (fun i => map (fun j => (i, j)) (seq 0 nx)) (seq s nc))
    = concat (firstn nc (skipn s m)).
  Proof.
    intros Hlen Hrows. revert s Hlen. induction nc as [|nc IH]; intros s Hlen; [reflexivity|].
    cbn [seq flat_map]. rewrite map_app, map_map. cbn [fst snd].
    rewrite (cs_skipn_nth_cons [] s m) by lia. cbn [firstn concat].
    rewrite IH by lia. f_equal.
    apply cs_map_nth_seq. rewrite Forall_forall in Hrows. apply Hrows. apply nth_In. lia.
  Qed.

  (* the stencil data of the von Karman stencil are the first nc rows, row-major *)
  Lemma stencil_data_vk (m : mat) nx nc :
    (nc <= length m)%nat -> Forall (fun r => length r = nx) m ->
    stencil_data O m (vk_stencil nx nc) = concat (firstn nc m).
  Proof.
    intros Hlen Hrows. unfold stencil_data, vk_stencil.
    rewrite (stencil_data_vk_from m nx nc 0%nat) by (try assumption; lia). reflexivity.
  Qed.

  Lemma stencil_data_vk_length (m : mat) nx nc :
    (nc <= length m)%nat -> Forall (fun r => length r = nx) m ->
    length (stencil_data O m (vk_stencil nx nc)) = (nc * nx)%nat.
  Proof.
    intros Hlen Hrows. unfold stencil_data. rewrite map_length. apply vk_stencil_length.
  Qed.

  (* list-level statement: put a row of the right length on top, drop the last row *)
  Theorem stencil_update_rows : forall (d : mat) (row : list T) (nx nc : nat),
    (0 < nc <= length d)%nat -> Forall (fun r => length r = nx) d -> length row = nx ->
    stencil_data O (row :: removelast d) (vk_stencil nx nc)
    = row ++ firstn (nc * nx - nx) (stencil_data O d (vk_stencil nx nc)).
  Proof.
    intros d row nx nc [Hnc Hlen] Hrows Hrow.
    assert (Hl' : length (removelast d) = pred (length d)) by apply c5_removelast_length.
    rewrite stencil_data_vk.
    2:{ cbn [length]. rewrite Hl'. lia. }
    2:{ constructor; [exact Hrow | apply c5_Forall_removelast; exact Hrows]. }
    rewrite (stencil_data_vk d) by (try assumption; lia).
    destruct nc as [|nc]; [lia|]. rewrite firstn_cons. cbn [concat]. f_equal.
    rewrite firstn_removelast by lia.
    replace (S nc * nx - nx)%nat with (nc * nx)%nat by lia.
    rewrite (cs_concat_firstn_rows nx) by (apply c5_Forall_firstn; exact Hrows).
    rewrite firstn_firstn. f_equal. f_equal. lia.
  Qed.

  (* the model's step *)
  Theorem step_vk_stencil_update : forall (A B : mat) (nx nc : nat) (s : screen) (b : list T),
    wf_screen s -> nxs s = nx -> (0 < nc <= sl s)%nat -> length A = nx -> length B = nx ->
    let Z := stencil_data O (data s) (vk_stencil nx nc) in
    stencil_data O (data (step_vk O A B (vk_stencil nx nc) s b)) (vk_stencil nx nc)
    = new_row_vk O A B Z b ++ firstn (nc * nx - nx) Z.
  Proof.
    intros A B nx nc s b Hwf Hnx Hnc HA HB Z.
    assert (Hrow : length (new_row_vk O A B Z b) = nx).
    { rewrite new_row_vk_length, HA, HB. apply Nat.min_id. }
    unfold step_vk. fold Z.
    rewrite (data_shift s (new_row_vk O A B Z b) Hwf) by (rewrite Hrow, Hnx; lia).
    rewrite Hnx. rewrite firstn_all2 by lia.
    destruct Hwf as (Hlen & Hrows & _).
    apply stencil_update_rows; [rewrite Hlen; exact Hnc | rewrite <- Hnx; exact Hrows | exact Hrow].
  Qed.

  (* the new state keeps the invariant, so the update law can be iterated *)
  Corollary step_vk_stencil_length : forall (A B : mat) (nx nc : nat) (s : screen) (b : list T),
    wf_screen s -> nxs s = nx -> (0 < nc <= sl s)%nat -> length A = nx -> length B = nx ->
    length (stencil_data O (data (step_vk O A B (vk_stencil nx nc) s b)) (vk_stencil nx nc))
    = (nc * nx)%nat.
  Proof.
    intros A B nx nc s b Hwf Hnx Hnc HA HB.
    assert (Hwf' : wf_screen (step_vk O A B (vk_stencil nx nc) s b))
      by (apply step_vk_wf; try assumption; congruence).
    destruct Hwf' as (Hlen & Hrows & _).
    apply stencil_data_vk_length; [rewrite Hlen; cbn [sl step_vk add_row_state]; lia|].
    cbn [nxs step_vk add_row_state] in Hrows. rewrite Hnx in Hrows. exact Hrows.
  Qed.
End StencilUpdate.

(* ------------------------------------------------------------------------------------------ *)
(* the transition matrices  F = [A ; S]  and  Gm = [B ; 0]                                     *)
(* ------------------------------------------------------------------------------------------ *)

Local Open Scope R_scope.

Definition Fmat (A : list (list R)) (ns nx : nat) : list (list R) :=
  A ++ map (fun i => map (fun j => if Nat.eqb i j then 1 else 0) (seq 0 ns)) (seq 0 (ns - nx)).
Definition Gmat (B : list (list R)) (ns nx : nat) : list (list R) :=
  B ++ repeat (repeat 0 nx) (ns - nx).

Lemma wf_app {A} r1 r2 c (X Y : list (list A)) :
  wf_mat r1 c X -> wf_mat r2 c Y -> wf_mat (r1 + r2) c (X ++ Y).
Proof.
  intros [H1 F1] [H2 F2]. split; [rewrite app_length; lia|]. apply Forall_app. split; assumption.
Qed.

Lemma wf_Fmat A ns nx : wf_mat nx ns A -> (nx <= ns)%nat -> wf_mat ns ns (Fmat A ns nx).
Proof.
  intros HA Hle. unfold Fmat.
  assert (H2 : wf_mat (ns - nx) ns
            (map (fun i => map (fun j => if Nat.eqb i j then 1 else 0) (seq 0 ns)) (seq 0 (ns - nx)))).
  { apply wf_map_seq. intros i _. rewrite map_length, seq_length. reflexivity. }
  pose proof (wf_app nx (ns - nx) ns _ _ HA H2) as H.
  replace (nx + (ns - nx))%nat with ns in H by lia. exact H.
Qed.

Lemma wf_Gmat B ns nx : wf_mat nx nx B -> (nx <= ns)%nat -> wf_mat ns nx (Gmat B ns nx).
Proof.
  intros HB Hle. unfold Gmat.
  assert (H2 : wf_mat (ns - nx) nx (repeat (repeat 0 nx) (ns - nx))).
  { split; [apply repeat_length|]. apply Forall_forall. intros x Hx. apply repeat_spec in Hx.
    subst x. apply repeat_length. }
  pose proof (wf_app nx (ns - nx) nx _ _ HB H2) as H.
  replace (nx + (ns - nx))%nat with ns in H by lia. exact H.
Qed.

Lemma ent_Fmat_top A ns nx r k : wf_mat nx ns A -> (r < nx)%nat ->
  ent (Fmat A ns nx) r k = ent A r k.
Proof. intros [Hl _] Hr. unfold ent, Fmat. rewrite app_nth1 by lia. reflexivity. Qed.

Lemma ent_Fmat_bottom A ns nx r k : wf_mat nx ns A -> (nx <= r < ns)%nat -> (k < ns)%nat ->
  ent (Fmat A ns nx) r k = if Nat.eqb (r - nx) k then 1 else 0.
Proof.
  intros [Hl _] Hr Hk. unfold ent, Fmat. rewrite app_nth2 by lia. rewrite Hl.
  rewrite (nth_map_seq _ (ns - nx) (r - nx) []) by lia.
  rewrite nth_map_seq by exact Hk. reflexivity.
Qed.

Lemma ent_Gmat_top B ns nx r k : wf_mat nx nx B -> (r < nx)%nat ->
  ent (Gmat B ns nx) r k = ent B r k.
Proof. intros [Hl _] Hr. unfold ent, Gmat. rewrite app_nth1 by lia. reflexivity. Qed.

Lemma ent_Gmat_bottom B ns nx r k : wf_mat nx nx B -> (nx <= r)%nat ->
  ent (Gmat B ns nx) r k = 0.
Proof.
  intros [Hl _] Hr. unfold ent, Gmat. rewrite app_nth2 by lia. rewrite Hl.
  destruct (Nat.lt_ge_cases (r - nx) (ns - nx)) as [Hlt|Hge].
  - rewrite cs_nth_repeat_lt by exact Hlt.
    destruct (Nat.lt_ge_cases k nx) as [Hk|Hk].
    + apply cs_nth_repeat_lt. exact Hk.
    + apply nth_overflow. rewrite repeat_length. exact Hk.
  - rewrite (nth_overflow (repeat (repeat 0 nx) (ns - nx))) by (rewrite repeat_length; exact Hge).
    apply nth_nil.
Qed.

Section Stationary.
Variables (G : R -> R) (K : R -> R -> R).
Local Notation O := (ROps G K).
Local Notation mat := (list (list R)).

(* one step of the second-moment recursion *)
Definition cov_step (F Gm Sigma : mat) : mat :=
  madd O (mmul O (mmul O F Sigma) (transpose F)) (mmul O Gm (transpose Gm)).

Fixpoint cov_iter (F Gm Sigma0 : mat) (k : nat) : mat :=
  match k with
  | 0%nat => Sigma0
  | S k' => cov_step F Gm (cov_iter F Gm Sigma0 k')
  end.

Lemma wf_cov_step ns nx (F Gm Sigma : mat) :
  (0 < nx)%nat -> (0 < ns)%nat -> wf_mat ns ns F -> wf_mat ns nx Gm -> wf_mat ns ns Sigma ->
  wf_mat ns ns (cov_step F Gm Sigma).
Proof.
  intros Hnx Hns HF HG HS. unfold cov_step. apply (wf_madd G K).
  - apply (wf_mmul G K ns ns ns); [apply (wf_mmul G K ns ns ns); assumption | | exact Hns].
    apply wf_transpose; assumption.
  - apply (wf_mmul G K ns nx ns); [exact HG | | exact Hnx]. apply wf_transpose; assumption.
Qed.

(* ---- the state-space form: Z' = F Z + Gm b is "new row, then the previous first nc-1 rows" ---- *)

Theorem stencil_update_state_space : forall (ns nx : nat) (A B : mat) (Z b : list R),
  (nx <= ns)%nat -> wf_mat nx ns A -> wf_mat nx nx B -> length Z = ns -> length b = nx ->
  vadd O (mvec O (Fmat A ns nx) Z) (mvec O (Gmat B ns nx) b)
  = new_row_vk O A B Z b ++ firstn (ns - nx) Z.
Proof.
  intros ns nx A B Z b Hle HA HB HZ Hb. unfold Fmat, Gmat, new_row_vk, mvec, vadd.
  rewrite !map_app. rewrite cs_map2_app by (rewrite !map_length; destruct HA, HB; lia).
  f_equal.
  apply (vec_ext (ns - nx)).
  - rewrite map2_length_eq; rewrite !map_length; rewrite ?seq_length, ?repeat_length; reflexivity.
  - rewrite firstn_length. lia.
  - intros i Hi.
    rewrite (nth_map2 Rplus _ _ i 0 0 0)
      by (rewrite !map_length; rewrite ?seq_length, ?repeat_length; exact Hi).
    rewrite (nth_map_lt _ _ i 0 []) by (rewrite map_length, seq_length; exact Hi).
    rewrite (nth_map_lt _ _ i 0 []) by (rewrite repeat_length; exact Hi).
    rewrite nth_map_seq by exact Hi. rewrite cs_nth_repeat_lt by exact Hi.
    rewrite nth_firstn' by exact Hi.
    rewrite (ndot_rsum G K ns) by (try rewrite map_length, seq_length; auto).
    rewrite (ndot_rsum G K nx) by (try rewrite repeat_length; auto).
    rewrite (rsum_single _ ns i) by
      (try lia; intros k Hk Hne; rewrite nth_map_seq by exact Hk;
       destruct (Nat.eqb_spec i k); try congruence; lra).
    rewrite nth_map_seq by lia. rewrite Nat.eqb_refl.
    rewrite rsum_zero_ext by (intros k Hk; rewrite cs_nth_repeat_lt by exact Hk; lra). lra.
Qed.

(* ---- block formulas ---- *)

Lemma ent_F_Sigma ns nx (A Sigma : mat) r k :
  (0 < ns)%nat -> (nx <= ns)%nat -> wf_mat nx ns A -> wf_mat ns ns Sigma ->
  (r < ns)%nat -> (k < ns)%nat ->
  ent (mmul O (Fmat A ns nx) Sigma) r k
  = if (r <? nx)%nat then ent (mmul O A Sigma) r k else ent Sigma (r - nx) k.
Proof.
  intros Hns Hle HA HS Hr Hk. pose proof (wf_Fmat A ns nx HA Hle) as HF.
  rewrite (ent_mmul G K ns ns ns) by assumption.
  destruct (Nat.ltb_spec r nx) as [Hlt|Hge].
  - rewrite (ent_mmul G K nx ns ns) by assumption.
    apply rsum_ext. intros j Hj. rewrite ent_Fmat_top by assumption. reflexivity.
  - rewrite (rsum_single _ ns (r - nx)) by
      (try lia; intros j Hj Hne; rewrite (ent_Fmat_bottom A ns nx r j) by (try assumption; lia);
       destruct (Nat.eqb_spec (r - nx) j); try congruence; lra).
    rewrite (ent_Fmat_bottom A ns nx r (r - nx)) by (try assumption; lia).
    rewrite Nat.eqb_refl. lra.
Qed.

Theorem ent_F_Sigma_Ft : forall (ns nx : nat) (A Sigma : mat) (r c : nat),
  (0 < nx)%nat -> (nx <= ns)%nat -> wf_mat nx ns A -> wf_mat ns ns Sigma -> msym Sigma ->
  (r < ns)%nat -> (c < ns)%nat ->
  ent (mmul O (mmul O (Fmat A ns nx) Sigma) (transpose (Fmat A ns nx))) r c
  = if (r <? nx)%nat
    then if (c <? nx)%nat then ent (mmul O (mmul O A Sigma) (transpose A)) r c
         else ent (mmul O A Sigma) r (c - nx)
    else if (c <? nx)%nat then ent (mmul O A Sigma) c (r - nx)
         else ent Sigma (r - nx) (c - nx).
Proof.
  intros ns nx A Sigma r c Hnx Hle HA HS Hsym Hr Hc.
  assert (Hns : (0 < ns)%nat) by lia.
  pose proof (wf_Fmat A ns nx HA Hle) as HF.
  pose proof (wf_mmul G K ns ns ns _ _ HF HS Hns) as HFS.
  pose proof (wf_transpose ns ns _ HF Hns) as HFt.
  pose proof (wf_mmul G K nx ns ns _ _ HA HS Hns) as HAS.
  pose proof (wf_transpose nx ns _ HA Hnx) as HAt.
  pose proof (proj1 (msym_ent ns Sigma HS Hns) Hsym) as Hs.
  rewrite (ent_mmul G K ns ns ns) by assumption.
  rewrite (rsum_ext _ (fun k => ent (mmul O (Fmat A ns nx) Sigma) r k * ent (Fmat A ns nx) c k) ns)
    by (intros k Hk; rewrite (ent_transpose' ns ns _ c k) by assumption; reflexivity).
  destruct (Nat.ltb_spec c nx) as [Hcl|Hcg].
  - (* column in the new row *)
    rewrite (rsum_ext _ (fun k => ent (mmul O (Fmat A ns nx) Sigma) r k * ent A c k) ns)
      by (intros k Hk; rewrite ent_Fmat_top by assumption; reflexivity).
    destruct (Nat.ltb_spec r nx) as [Hrl|Hrg].
    + rewrite (ent_mmul G K nx ns nx) by assumption.
      apply rsum_ext. intros k Hk.
      rewrite (ent_F_Sigma ns nx) by assumption.
      destruct (Nat.ltb_spec r nx) as [_|Hbad]; [|lia].
      rewrite (ent_transpose' nx ns A c k) by assumption. reflexivity.
    + rewrite (ent_mmul G K nx ns ns) by (try assumption; lia).
      apply rsum_ext. intros k Hk.
      rewrite (ent_F_Sigma ns nx) by assumption.
      destruct (Nat.ltb_spec r nx) as [Hbad|_]; [lia|].
      rewrite (Hs (r - nx)%nat k) by lia. ring.
  - (* column in the shifted old rows: F c . = e_{c-nx} *)
    rewrite (rsum_single _ ns (c - nx)) by
      (try lia; intros k Hk Hne; rewrite (ent_Fmat_bottom A ns nx c k) by (try assumption; lia);
       destruct (Nat.eqb_spec (c - nx) k); try congruence; lra).
    rewrite (ent_Fmat_bottom A ns nx c (c - nx)) by (try assumption; lia).
    rewrite Nat.eqb_refl. rewrite (ent_F_Sigma ns nx) by (try assumption; lia).
    destruct (Nat.ltb_spec r nx); lra.
Qed.

Theorem ent_Gm_Gmt : forall (ns nx : nat) (B : mat) (r c : nat),
  (0 < nx)%nat -> (nx <= ns)%nat -> wf_mat nx nx B -> (r < ns)%nat -> (c < ns)%nat ->
  ent (mmul O (Gmat B ns nx) (transpose (Gmat B ns nx))) r c
  = if ((r <? nx) && (c <? nx))%nat then ent (mmul O B (transpose B)) r c else 0.
Proof.
  intros ns nx B r c Hnx Hle HB Hr Hc.
  assert (Hns : (0 < ns)%nat) by lia.
  pose proof (wf_Gmat B ns nx HB Hle) as HG.
  pose proof (wf_transpose ns nx _ HG Hns) as HGt.
  pose proof (wf_transpose nx nx _ HB Hnx) as HBt.
  rewrite (ent_mmul G K ns nx ns) by assumption.
  rewrite (rsum_ext _ (fun k => ent (Gmat B ns nx) r k * ent (Gmat B ns nx) c k) nx)
    by (intros k Hk; rewrite (ent_transpose' ns nx _ c k) by assumption; reflexivity).
  destruct (Nat.ltb_spec r nx) as [Hrl|Hrg]; destruct (Nat.ltb_spec c nx) as [Hcl|Hcg]; cbn [andb].
  - rewrite (ent_mmul G K nx nx nx) by assumption. apply rsum_ext. intros k Hk.
    rewrite !ent_Gmat_top by assumption.
    rewrite (ent_transpose' nx nx B c k) by assumption. reflexivity.
  - apply rsum_zero_ext. intros k Hk. rewrite (ent_Gmat_bottom B ns nx c) by assumption. lra.
  - apply rsum_zero_ext. intros k Hk. rewrite (ent_Gmat_bottom B ns nx r) by assumption. lra.
  - apply rsum_zero_ext. intros k Hk. rewrite (ent_Gmat_bottom B ns nx r) by assumption. lra.
Qed.

(* all four blocks of one recursion step at once *)
Theorem ent_cov_step : forall (ns nx : nat) (A B Sigma : mat) (r c : nat),
  (0 < nx)%nat -> (nx <= ns)%nat -> wf_mat nx ns A -> wf_mat nx nx B ->
  wf_mat ns ns Sigma -> msym Sigma -> (r < ns)%nat -> (c < ns)%nat ->
  ent (cov_step (Fmat A ns nx) (Gmat B ns nx) Sigma) r c
  = if (r <? nx)%nat
    then if (c <? nx)%nat
         then ent (madd O (mmul O (mmul O A Sigma) (transpose A)) (mmul O B (transpose B))) r c
         else ent (mmul O A Sigma) r (c - nx)
    else if (c <? nx)%nat then ent (mmul O A Sigma) c (r - nx)
         else ent Sigma (r - nx) (c - nx).
Proof.
  intros ns nx A B Sigma r c Hnx Hle HA HB HS Hsym Hr Hc.
  assert (Hns : (0 < ns)%nat) by lia.
  pose proof (wf_Fmat A ns nx HA Hle) as HF. pose proof (wf_Gmat B ns nx HB Hle) as HG.
  unfold cov_step. rewrite (ent_madd G K ns ns); try assumption.
  2:{ apply (wf_mmul G K ns ns ns); [apply (wf_mmul G K ns ns ns); assumption | | exact Hns].
      apply wf_transpose; assumption. }
  2:{ apply (wf_mmul G K ns nx ns); [exact HG | | exact Hnx]. apply wf_transpose; assumption. }
  rewrite ent_F_Sigma_Ft, ent_Gm_Gmt by assumption.
  destruct (Nat.ltb_spec r nx) as [Hrl|Hrg]; destruct (Nat.ltb_spec c nx) as [Hcl|Hcg]; cbn [andb];
    try lra.
  rewrite (ent_madd G K nx nx); try assumption; try reflexivity.
  - apply (wf_mmul G K nx ns nx); [apply (wf_mmul G K nx ns ns); assumption | | exact Hns].
    apply wf_transpose; assumption.
  - apply (wf_mmul G K nx nx nx); [exact HB | | exact Hnx]. apply wf_transpose; assumption.
Qed.

(* ------------------------------------------------------------------------------------------ *)
(* the fixed point                                                                             *)
(* ------------------------------------------------------------------------------------------ *)

Theorem recursion_fixed_point : forall (ns nx : nat) (A B Czz Cxz Cxx : mat),
  (0 < nx)%nat -> (nx <= ns)%nat ->
  wf_mat nx ns A -> wf_mat nx nx B -> wf_mat ns ns Czz ->
  msym Czz ->
  (* H1, H2: the conclusions of C04_A and C04_joint *)
  mmul O A Czz = Cxz ->
  madd O (mmul O (mmul O A Czz) (transpose A)) (mmul O B (transpose B)) = Cxx ->
  (* H3: rows 1..nc-1 against themselves = rows 0..nc-2 against themselves *)
  (forall i j, (i < ns - nx)%nat -> (j < ns - nx)%nat -> ent Czz (nx + i) (nx + j) = ent Czz i j) ->
  (* H4: new row (at row -1) against rows 0..nc-2 = row 0 against rows 1..nc-1 *)
  (forall i j, (i < nx)%nat -> (j < ns - nx)%nat -> ent Cxz i j = ent Czz i (nx + j)) ->
  (* H5: the new row against itself = row 0 against itself *)
  (forall i j, (i < nx)%nat -> (j < nx)%nat -> ent Cxx i j = ent Czz i j) ->
  cov_step (Fmat A ns nx) (Gmat B ns nx) Czz = Czz.
Proof.
  intros ns nx A B Czz Cxz Cxx Hnx Hle HA HB HC Hsym H1 H2 H3 H4 H5.
  assert (Hns : (0 < ns)%nat) by lia.
  pose proof (proj1 (msym_ent ns Czz HC Hns) Hsym) as Hs.
  apply (mat_eq ns ns); [|exact HC|].
  - apply (wf_cov_step ns nx); try assumption; [apply wf_Fmat | apply wf_Gmat]; assumption.
  - intros r c Hr Hc. rewrite (ent_cov_step ns nx) by assumption. rewrite H2, H1.
    destruct (Nat.ltb_spec r nx) as [Hrl|Hrg]; destruct (Nat.ltb_spec c nx) as [Hcl|Hcg].
    + apply H5; assumption.
    + rewrite H4 by lia. replace (nx + (c - nx))%nat with c by lia. reflexivity.
    + rewrite H4 by lia. replace (nx + (r - nx))%nat with r by lia. apply Hs; assumption.
    + rewrite <- H3 by lia.
      replace (nx + (r - nx))%nat with r by lia. replace (nx + (c - nx))%nat with c by lia.
      reflexivity.
Qed.

(* "the statistics stay there however many rows are added" *)
Theorem covariance_recursion_invariant : forall (ns nx : nat) (A B Czz Cxz Cxx : mat),
  (0 < nx)%nat -> (nx <= ns)%nat ->
  wf_mat nx ns A -> wf_mat nx nx B -> wf_mat ns ns Czz -> msym Czz ->
  mmul O A Czz = Cxz ->
  madd O (mmul O (mmul O A Czz) (transpose A)) (mmul O B (transpose B)) = Cxx ->
  (forall i j, (i < ns - nx)%nat -> (j < ns - nx)%nat -> ent Czz (nx + i) (nx + j) = ent Czz i j) ->
  (forall i j, (i < nx)%nat -> (j < ns - nx)%nat -> ent Cxz i j = ent Czz i (nx + j)) ->
  (forall i j, (i < nx)%nat -> (j < nx)%nat -> ent Cxx i j = ent Czz i j) ->
  forall k, cov_iter (Fmat A ns nx) (Gmat B ns nx) Czz k = Czz.
Proof.
  intros ns nx A B Czz Cxz Cxx Hnx Hle HA HB HC Hsym H1 H2 H3 H4 H5 k.
  induction k as [|k IH]; [reflexivity|]. cbn [cov_iter]. rewrite IH.
  apply (recursion_fixed_point ns nx A B Czz Cxz Cxx); assumption.
Qed.

End Stationary.

(* ------------------------------------------------------------------------------------------ *)
(* H3-H5 from the model's geometry: positions, separations, cov_mat                            *)
(* ------------------------------------------------------------------------------------------ *)

Lemma cs_flat_pairs_nth nx nc s a b d : (a < nc)%nat -> (b < nx)%nat ->
  nth (a * nx + b) (flat_map (fun i => map (fun j => (i, j)) (seq 0 nx)) (seq s nc)) d
  = ((s + a)%nat, b).
Proof.
  revert s a; induction nc as [|nc IH]; intros s a Ha Hb; [lia|].
  cbn [seq flat_map]. destruct a as [|a].
  - rewrite app_nth1 by (rewrite map_length, seq_length; lia).
    cbn [Nat.mul Nat.add]. rewrite (nth_map_seq (fun j => (s, j)) nx b d Hb). f_equal. lia.
  - rewrite app_nth2 by (rewrite map_length, seq_length; lia).
    rewrite map_length, seq_length.
    replace (S a * nx + b - nx)%nat with (a * nx + b)%nat by lia.
    rewrite IH by lia. f_equal. lia.
Qed.

Lemma vk_stencil_nth nx nc a b d : (a < nc)%nat -> (b < nx)%nat ->
  nth (a * nx + b) (vk_stencil nx nc) d = (a, b).
Proof. intros Ha Hb. unfold vk_stencil. rewrite cs_flat_pairs_nth by assumption. reflexivity. Qed.

Lemma cs_index_split nx m i : (i < m * nx)%nat ->
  exists a b, (a < m)%nat /\ (b < nx)%nat /\ i = (a * nx + b)%nat.
Proof.
  intros Hi. assert (Hnx : nx <> 0%nat) by (intros ->; lia).
  exists (i / nx)%nat, (i mod nx)%nat. split; [|split].
  - apply Nat.div_lt_upper_bound; [exact Hnx | lia].
  - apply Nat.mod_upper_bound. exact Hnx.
  - rewrite (Nat.div_mod i nx Hnx) at 1. lia.
Qed.

Lemma IZR_of_nat_S a : IZR (Z.of_nat (S a)) = IZR (Z.of_nat a) + 1.
Proof. rewrite Nat2Z.inj_succ, succ_IZR. reflexivity. Qed.

Section Geometry.
Variables (G : R -> R) (K : R -> R -> R).
Local Notation O := (ROps G K).
Local Notation mat := (list (list R)).

Variables (nx nc : nat) (ps r0 L0 : R).
Let ns := (nc * nx)%nat.
Let pts := all_positions O (vk_stencil nx nc) nx ps.
Let C := cov_mat O pts r0 L0.

Lemma pts_length : length pts = (ns + nx)%nat.
Proof.
  unfold pts, all_positions, x_positions.
  rewrite app_length, !map_length, seq_length, vk_stencil_length. reflexivity.
Qed.

Lemma pts_z a b : (a < nc)%nat -> (b < nx)%nat ->
  nth (a * nx + b) pts (0, 0) = (IZR (Z.of_nat a) * ps, IZR (Z.of_nat b) * ps).
Proof.
  intros Ha Hb. unfold pts, all_positions.
  assert (Hlt : (a * nx + b < nc * nx)%nat) by nia.
  rewrite app_nth1 by (rewrite map_length, vk_stencil_length; exact Hlt).
  rewrite (nth_map_lt _ _ _ (0, 0) (0%nat, 0%nat)) by (rewrite vk_stencil_length; exact Hlt).
  rewrite vk_stencil_nth by assumption. reflexivity.
Qed.

Lemma pts_x j : (j < nx)%nat ->
  nth (ns + j) pts (0, 0) = (- (1) * ps, IZR (Z.of_nat j) * ps).
Proof.
  intros Hj. unfold pts, all_positions.
  rewrite app_nth2 by (rewrite map_length, vk_stencil_length; unfold ns; lia).
  rewrite map_length, vk_stencil_length.
  replace (ns + j - nc * nx)%nat with j by (unfold ns; lia).
  unfold x_positions.
  rewrite (nth_map_seq (fun j => (nmul O (nopp O (none O)) ps, nmul O (nn O j) ps)) nx j (0, 0) Hj).
  reflexivity.
Qed.

Lemma wf_C : wf_mat (ns + nx) (ns + nx) C.
Proof.
  unfold C, cov_mat. rewrite <- pts_length. apply wf_map_map. apply wf_separations.
Qed.

Lemma ent_C i j : (i < ns + nx)%nat -> (j < ns + nx)%nat ->
  ent C i j = phase_covariance O (ent (separations O pts) i j) r0 L0.
Proof.
  intros Hi Hj. rewrite <- pts_length in Hi, Hj. unfold C, cov_mat, ent.
  pose proof (wf_separations G K pts) as Hw.
  rewrite (nth_map_lt _ _ i [] []) by (destruct Hw as [-> _]; exact Hi).
  rewrite (nth_map_lt _ _ j 0 0); [reflexivity|].
  rewrite (wf_nth_length _ _ _ i Hw Hi). exact Hj.
Qed.

Lemma msym_C : msym C.
Proof.
  unfold msym, C, cov_mat. rewrite transpose_map.
  destruct (C04_separations_sym G K pts) as [Hs _]. unfold msym in Hs. rewrite Hs. reflexivity.
Qed.

(* separations in (row, column) coordinates *)
Lemma sep_z_z a1 b1 a2 b2 : (a1 < nc)%nat -> (b1 < nx)%nat -> (a2 < nc)%nat -> (b2 < nx)%nat ->
  ent (separations O pts) (a1 * nx + b1) (a2 * nx + b2)
  = sqrt ((IZR (Z.of_nat a2) * ps - IZR (Z.of_nat a1) * ps) ^ 2
          + (IZR (Z.of_nat b2) * ps - IZR (Z.of_nat b1) * ps) ^ 2).
Proof.
  intros Ha1 Hb1 Ha2 Hb2.
  rewrite (ent_separations G K) by (rewrite pts_length; unfold ns; nia).
  rewrite !pts_z by assumption. reflexivity.
Qed.

Lemma sep_x_z i a b : (i < nx)%nat -> (a < nc)%nat -> (b < nx)%nat ->
  ent (separations O pts) (ns + i) (a * nx + b)
  = sqrt ((IZR (Z.of_nat a) * ps - - (1) * ps) ^ 2
          + (IZR (Z.of_nat b) * ps - IZR (Z.of_nat i) * ps) ^ 2).
Proof.
  intros Hi Ha Hb.
  rewrite (ent_separations G K) by (rewrite pts_length; unfold ns; nia).
  rewrite pts_z, pts_x by assumption. reflexivity.
Qed.

Lemma sep_x_x i j : (i < nx)%nat -> (j < nx)%nat ->
  ent (separations O pts) (ns + i) (ns + j)
  = sqrt ((- (1) * ps - - (1) * ps) ^ 2
          + (IZR (Z.of_nat j) * ps - IZR (Z.of_nat i) * ps) ^ 2).
Proof.
  intros Hi Hj.
  rewrite (ent_separations G K) by (rewrite pts_length; lia).
  rewrite !pts_x by assumption. reflexivity.
Qed.

(* translation by one row leaves the separations, hence the covariances, unchanged *)
Theorem vk_covariance_translation_invariant :
  (0 < nc)%nat ->
  wf_mat (ns + nx) (ns + nx) C /\ msym C /\
  (forall i j, (i < ns - nx)%nat -> (j < ns - nx)%nat ->
     ent (cov_zz C ns) (nx + i) (nx + j) = ent (cov_zz C ns) i j) /\
  (forall i j, (i < nx)%nat -> (j < ns - nx)%nat ->
     ent (cov_xz C ns) i j = ent (cov_zz C ns) i (nx + j)) /\
  (forall i j, (i < nx)%nat -> (j < nx)%nat ->
     ent (cov_xx C ns) i j = ent (cov_zz C ns) i j).
Proof.
  intros Hnc.
  destruct (C04_blocks_ent ns nx C wf_C) as [Ezz [Exx [_ Exz]]].
  assert (Hsub : (ns - nx = (nc - 1) * nx)%nat) by (unfold ns; nia).
  split; [exact wf_C|]. split; [exact msym_C|]. split; [|split].
  - intros i j Hi Hj. rewrite !Ezz by lia. rewrite !ent_C by lia. f_equal.
    rewrite Hsub in Hi, Hj.
    destruct (cs_index_split nx (nc - 1) i Hi) as [a1 [b1 [Ha1 [Hb1 ->]]]].
    destruct (cs_index_split nx (nc - 1) j Hj) as [a2 [b2 [Ha2 [Hb2 ->]]]].
    replace (nx + (a1 * nx + b1))%nat with (S a1 * nx + b1)%nat by lia.
    replace (nx + (a2 * nx + b2))%nat with (S a2 * nx + b2)%nat by lia.
    rewrite !sep_z_z by lia. rewrite !IZR_of_nat_S. f_equal. ring.
  - intros i j Hi Hj. rewrite Exz, Ezz by lia. rewrite !ent_C by lia. f_equal.
    rewrite Hsub in Hj.
    destruct (cs_index_split nx (nc - 1) j Hj) as [a [b [Ha [Hb ->]]]].
    replace (nx + (a * nx + b))%nat with (S a * nx + b)%nat by lia.
    replace i with (0 * nx + i)%nat at 2 by lia.
    rewrite sep_x_z, sep_z_z by lia. rewrite IZR_of_nat_S. f_equal. cbn [Z.of_nat]. ring.
  - intros i j Hi Hj. assert (nx <= ns)%nat by (unfold ns; nia).
    rewrite Exx, Ezz by lia. rewrite !ent_C by lia. f_equal.
    replace i with (0 * nx + i)%nat at 2 by lia. replace j with (0 * nx + j)%nat at 2 by lia.
    rewrite sep_x_x, sep_z_z by lia. f_equal. ring.
Qed.

End Geometry.

(* ------------------------------------------------------------------------------------------ *)
(* end to end: the model's A and B (C04, LAPACK contracts) keep the model's covariance fixed   *)
(* ------------------------------------------------------------------------------------------ *)

Section EndToEnd.
Variables (G : R -> R) (K : R -> R -> R).
Local Notation O := (ROps G K).
Local Notation mat := (list (list R)).

Theorem vk_model_stationary : forall (nx nc : nat) (ps r0 L0 : R) (Inv u : mat) (W : list R),
  (0 < nx)%nat -> (0 < nc)%nat ->
  let ns := (nc * nx)%nat in
  let C := cov_mat O (all_positions O (vk_stencil nx nc) nx ps) r0 L0 in
  let Czz := cov_zz C ns in let Cxz := cov_xz C ns in
  let Czx := cov_zx C ns in let Cxx := cov_xx C ns in
  (* LAPACK contracts, exactly those of C04_A / C04_joint *)
  wf_mat ns ns Inv -> mmul O Inv Czz = mident O ns ->
  wf_mat nx nx u -> length W = nx -> Forall (fun w => 0 <= w) W ->
  mmul O (mmul O u (mdiag O W)) (transpose u) = BBt O Cxx (A_mat O Cxz Inv) Czx ->
  let A := A_mat O Cxz Inv in
  let B := B_mat O u W in
  cov_step G K (Fmat A ns nx) (Gmat B ns nx) Czz = Czz /\
  forall k, cov_iter G K (Fmat A ns nx) (Gmat B ns nx) Czz k = Czz.
Proof.
  intros nx nc ps r0 L0 Inv u W Hnx Hnc ns C Czz Cxz Czx Cxx HInv Hinv Hu HW Hpos HM A B.
  destruct (vk_covariance_translation_invariant G K nx nc ps r0 L0 Hnc)
    as [HwC [HsC [H3 [H4 H5]]]].
  fold ns in HwC, H3, H4, H5. fold C in HwC, HsC, H3, H4, H5.
  fold Czz in H3, H4, H5. fold Cxz in H4. fold Cxx in H5.
  assert (Hns : (0 < ns)%nat) by (unfold ns; nia).
  assert (Hle : (nx <= ns)%nat) by (unfold ns; nia).
  destruct (C04_blocks_wf ns nx C HwC) as [Hzz [Hxx [Hzx Hxz]]].
  fold Czz in Hzz. fold Cxx in Hxx. fold Czx in Hzx. fold Cxz in Hxz.
  destruct (C04_blocks_sym ns nx C Hns Hnx HwC HsC) as [Hszz _]. fold Czz in Hszz.
  pose proof (C04_blocks_transpose ns nx C Hns Hnx HwC HsC) as Ht. fold Cxz in Ht. fold Czx in Ht.
  assert (HA : wf_mat nx ns A) by (apply wf_A_mat; assumption).
  assert (HB : wf_mat nx nx B) by (apply wf_B_mat; assumption).
  assert (H1 : mmul O A Czz = Cxz) by (apply (C04_A G K ns nx Czz Cxz Inv); assumption).
  assert (H2 : madd O (mmul O (mmul O A Czz) (transpose A)) (mmul O B (transpose B)) = Cxx).
  { apply (C04_joint G K ns nx Czz Cxz Czx Cxx Inv u W (BBt O Cxx (A_mat O Cxz Inv) Czx));
      try assumption. reflexivity. }
  split.
  - apply (recursion_fixed_point G K ns nx A B Czz Cxz Cxx); assumption.
  - apply (covariance_recursion_invariant G K ns nx A B Czz Cxz Cxx); assumption.
Qed.

End EndToEnd.

(* ------------------------------------------------------------------------------------------ *)
(* why  F Sigma F^T + Gm Gm^T : second moments of a finite weighted ensemble                   *)
(* (a finite sum with weights p; nothing is assumed about p: no probability)                  *)
(* ------------------------------------------------------------------------------------------ *)

Lemma rsum_prod f g n m :
  rsum f n * rsum g m = rsum (fun k => rsum (fun l => f k * g l) m) n.
Proof.
  rewrite <- rsum_scal_r. apply rsum_ext. intros k _. rewrite <- rsum_scal_l. reflexivity.
Qed.

Section SecondMoments.
Variables (G : R -> R) (K : R -> R -> R).
Local Notation O := (ROps G K).
Local Notation mat := (list (list R)).
Variables (N : nat) (p : nat -> R).

(* E[u_i v_j] over the ensemble  w = 0 .. N-1  with weights p w *)
Definition mom2 (u v : nat -> list R) (i j : nat) : R :=
  rsum (fun w => p w * (nth i (u w) 0 * nth j (v w) 0)) N.

Lemma mom2_comm u v i j : mom2 u v i j = mom2 v u j i.
Proof. unfold mom2. apply rsum_ext. intros w _. ring. Qed.

Lemma mom2_bilinear (al be : nat -> R) n1 n2 (u v : nat -> list R) :
  rsum (fun w => p w * (rsum (fun k => al k * nth k (u w) 0) n1
                        * rsum (fun l => be l * nth l (v w) 0) n2)) N
  = rsum (fun k => rsum (fun l => al k * be l * mom2 u v k l) n2) n1.
Proof.
  rewrite (rsum_ext _ (fun w => rsum (fun k => rsum (fun l =>
             al k * be l * (p w * (nth k (u w) 0 * nth l (v w) 0))) n2) n1) N).
  2:{ intros w _. rewrite rsum_prod, <- rsum_scal_l. apply rsum_ext. intros k _.
      rewrite <- rsum_scal_l. apply rsum_ext. intros l _. ring. }
  rewrite (rsum_exch (fun w k => rsum (fun l =>
             al k * be l * (p w * (nth k (u w) 0 * nth l (v w) 0))) n2) N n1).
  apply rsum_ext. intros k _.
  rewrite (rsum_exch (fun w l => al k * be l * (p w * (nth k (u w) 0 * nth l (v w) 0))) N n2).
  apply rsum_ext. intros l _. unfold mom2. apply rsum_scal_l.
Qed.

(* if E[Z Z^T] = Sigma, E[Z b^T] = 0, E[b b^T] = I then E[Z' Z'^T] = F Sigma F^T + Gm Gm^T
   for Z' = F Z + Gm b *)
Theorem second_moment_propagation : forall (ns nx : nat) (F Gm Sigma : mat) (Z b : nat -> list R),
  (0 < ns)%nat -> (0 < nx)%nat ->
  wf_mat ns ns F -> wf_mat ns nx Gm -> wf_mat ns ns Sigma ->
  (forall w, (w < N)%nat -> length (Z w) = ns) -> (forall w, (w < N)%nat -> length (b w) = nx) ->
  (forall i j, (i < ns)%nat -> (j < ns)%nat -> mom2 Z Z i j = ent Sigma i j) ->
  (forall i l, (i < ns)%nat -> (l < nx)%nat -> mom2 Z b i l = 0) ->
  (forall l m, (l < nx)%nat -> (m < nx)%nat -> mom2 b b l m = if Nat.eqb l m then 1 else 0) ->
  let Z' := fun w => vadd O (mvec O F (Z w)) (mvec O Gm (b w)) in
  forall r c, (r < ns)%nat -> (c < ns)%nat ->
  mom2 Z' Z' r c = ent (cov_step G K F Gm Sigma) r c.
Proof.
  intros ns nx F Gm Sigma Z b Hns Hnx HF HG HS HZ Hb EZZ EZb Ebb Z' r c Hr Hc.
  assert (HlF : length F = ns) by (destruct HF; assumption).
  assert (HlG : length Gm = ns) by (destruct HG; assumption).
  assert (Hnth : forall w i, (w < N)%nat -> (i < ns)%nat ->
            nth i (Z' w) 0 = rsum (fun k => ent F i k * nth k (Z w) 0) ns
                             + rsum (fun l => ent Gm i l * nth l (b w) 0) nx).
  { intros w i Hw Hi. unfold Z'.
    rewrite (nth_vadd G K) by (rewrite (Mat_proofs.mvec_length G K); lia).
    rewrite (nth_mvec_rsum G K ns ns) by (try assumption; apply HZ; exact Hw).
    rewrite (nth_mvec_rsum G K ns nx) by (try assumption; apply Hb; exact Hw). reflexivity. }
  transitivity
    (rsum (fun w => p w * (rsum (fun k => ent F r k * nth k (Z w) 0) ns
                           * rsum (fun l => ent F c l * nth l (Z w) 0) ns)) N
     + rsum (fun w => p w * (rsum (fun k => ent F r k * nth k (Z w) 0) ns
                             * rsum (fun l => ent Gm c l * nth l (b w) 0) nx)) N
     + rsum (fun w => p w * (rsum (fun k => ent Gm r k * nth k (b w) 0) nx
                             * rsum (fun l => ent F c l * nth l (Z w) 0) ns)) N
     + rsum (fun w => p w * (rsum (fun k => ent Gm r k * nth k (b w) 0) nx
                             * rsum (fun l => ent Gm c l * nth l (b w) 0) nx)) N).
  { unfold mom2. rewrite <- !rsum_add. apply rsum_ext. intros w Hw.
    rewrite !Hnth by assumption. ring. }
  rewrite (mom2_bilinear (ent F r) (ent F c) ns ns Z Z).
  rewrite (mom2_bilinear (ent F r) (ent Gm c) ns nx Z b).
  rewrite (mom2_bilinear (ent Gm r) (ent F c) nx ns b Z).
  rewrite (mom2_bilinear (ent Gm r) (ent Gm c) nx nx b b).
  (* the cross terms vanish *)
  rewrite (rsum_zero_ext (fun k => rsum (fun l => ent F r k * ent Gm c l * mom2 Z b k l) nx) ns)
    by (intros k Hk; apply rsum_zero_ext; intros l Hl; rewrite EZb by assumption; lra).
  rewrite (rsum_zero_ext (fun k => rsum (fun l => ent Gm r k * ent F c l * mom2 b Z k l) ns) nx)
    by (intros k Hk; apply rsum_zero_ext; intros l Hl; rewrite mom2_comm, EZb by assumption; lra).
  (* the right-hand side *)
  pose proof (wf_transpose ns ns F HF Hns) as HFt.
  pose proof (wf_transpose ns nx Gm HG Hns) as HGt.
  pose proof (wf_mmul G K ns ns ns F Sigma HF HS Hns) as HFS.
  unfold cov_step. rewrite (ent_madd G K ns ns); try assumption.
  2:{ apply (wf_mmul G K ns ns ns); assumption. }
  2:{ apply (wf_mmul G K ns nx ns); assumption. }
  rewrite (ent_mmul G K ns ns ns (mmul O F Sigma)) by assumption.
  rewrite (ent_mmul G K ns nx ns Gm) by assumption.
  assert (E1 : rsum (fun k => rsum (fun l => ent F r k * ent F c l * mom2 Z Z k l) ns) ns
               = rsum (fun k => ent (mmul O F Sigma) r k * ent (transpose F) k c) ns).
  { rewrite rsum_exch. apply rsum_ext. intros l Hl.
    rewrite (ent_mmul G K ns ns ns F Sigma) by assumption.
    rewrite (ent_transpose' ns ns F c l) by assumption.
    rewrite <- rsum_scal_r. apply rsum_ext. intros k Hk. rewrite EZZ by assumption. ring. }
  assert (E4 : rsum (fun k => rsum (fun l => ent Gm r k * ent Gm c l * mom2 b b k l) nx) nx
               = rsum (fun k => ent Gm r k * ent (transpose Gm) k c) nx).
  { apply rsum_ext. intros k Hk.
    rewrite (rsum_single _ nx k Hk) by
      (intros l Hl Hne; rewrite Ebb by assumption;
       destruct (Nat.eqb_spec k l); try congruence; lra).
    rewrite Ebb by assumption. rewrite Nat.eqb_refl.
    rewrite (ent_transpose' ns nx Gm c k) by assumption. ring. }
  rewrite E1, E4. lra.
Qed.

End SecondMoments.

(* ------------------------------------------------------------------------------------------ *)
(* non-vacuity                                                                                 *)
(* ------------------------------------------------------------------------------------------ *)

Ltac cs_list_eq :=
  repeat (match goal with |- (_ :: _) = (_ :: _) => f_equal end); try reflexivity; try lra.

Section Examples.
Variables (G : R -> R) (K : R -> R -> R).
Local Notation O := (ROps G K).

(* an AR(1) column: nx = 1, two stencil rows, correlation 3/5 per row; A = [3/5 0], B = [4/5].
   All hypotheses of recursion_fixed_point hold together, with A and B non-trivial. *)
Example fixed_point_ar1 :
  let A := [[3/5; 0]] in let B := [[4/5]] in
  let Czz := [[1; 3/5]; [3/5; 1]] in
  cov_step G K (Fmat A 2 1) (Gmat B 2 1) Czz = Czz
  /\ forall k, cov_iter G K (Fmat A 2 1) (Gmat B 2 1) Czz k = Czz.
Proof.
  intros A B Czz.
  assert (HA : wf_mat 1 2 A) by (split; [reflexivity | repeat constructor]).
  assert (HB : wf_mat 1 1 B) by (split; [reflexivity | repeat constructor]).
  assert (HC : wf_mat 2 2 Czz) by (split; [reflexivity | repeat constructor]).
  assert (Hs : msym Czz) by reflexivity.
  assert (H1 : mmul O A Czz = [[3/5; 9/25]]).
  { cbv [A Czz mmul transpose transpose_aux map map2 length ndot nsum fold_left repeat]. rops.
    cs_list_eq. }
  assert (H2 : madd O (mmul O (mmul O A Czz) (transpose A)) (mmul O B (transpose B)) = [[1]]).
  { rewrite H1.
    cbv [A B madd mmul transpose transpose_aux map map2 length ndot nsum fold_left repeat]. rops.
    cs_list_eq. }
  assert (H3 : forall i j, (i < 2 - 1)%nat -> (j < 2 - 1)%nat ->
                 ent Czz (1 + i) (1 + j) = ent Czz i j).
  { intros i j Hi Hj. assert (i = 0%nat) by lia. assert (j = 0%nat) by lia. subst. reflexivity. }
  assert (H4 : forall i j, (i < 1)%nat -> (j < 2 - 1)%nat ->
                 ent [[3/5; 9/25]] i j = ent Czz i (1 + j)).
  { intros i j Hi Hj. assert (i = 0%nat) by lia. assert (j = 0%nat) by lia. subst. reflexivity. }
  assert (H5 : forall i j, (i < 1)%nat -> (j < 1)%nat -> ent [[1]] i j = ent Czz i j).
  { intros i j Hi Hj. assert (i = 0%nat) by lia. assert (j = 0%nat) by lia. subst. reflexivity. }
  split.
  - apply (recursion_fixed_point G K 2 1 A B Czz [[3/5; 9/25]] [[1]]); try assumption; lia.
  - apply (covariance_recursion_invariant G K 2 1 A B Czz [[3/5; 9/25]] [[1]]); try assumption; lia.
Qed.

(* the fixed point is not an artefact of the recursion being trivial: another Sigma moves *)
Example cov_step_moves :
  let A := [[3/5; 0]] in let B := [[4/5]] in
  ent (cov_step G K (Fmat A 2 1) (Gmat B 2 1) [[2; 0]; [0; 2]]) 0 0 <> 2.
Proof.
  intros A B.
  assert (HA : wf_mat 1 2 A) by (split; [reflexivity | repeat constructor]).
  assert (HB : wf_mat 1 1 B) by (split; [reflexivity | repeat constructor]).
  rewrite (ent_cov_step G K 2 1 A B) by
    first [assumption | lia | reflexivity | (split; [reflexivity | repeat constructor])].
  cbv [A B Nat.ltb Nat.leb ent nth madd mmul transpose transpose_aux map map2 length ndot nsum
       fold_left repeat]. rops. lra.
Qed.

(* the geometric hypotheses on a 2 x 2 stencil: e.g. (new row, pixel 1) against (row 0, pixel 0)
   has the covariance of (row 0, pixel 1) against (row 1, pixel 0) *)
Example vk_H4_instance : forall ps r0 L0,
  let C := cov_mat O (all_positions O (vk_stencil 2 2) 2 ps) r0 L0 in
  ent (cov_xz C 4) 1 0 = ent (cov_zz C 4) 1 2.
Proof.
  intros ps r0 L0 C.
  destruct (vk_covariance_translation_invariant G K 2 2 ps r0 L0) as [_ [_ [_ [H4 _]]]]; [lia|].
  apply (H4 1%nat 0%nat); cbn; lia.
Qed.

(* the state machine statement on a concrete 2 x 2 screen *)
Example step_vk_update_instance : forall (A B : list (list R)) (b : list R),
  length A = 2%nat -> length B = 2%nat ->
  let s := {| sl := 2; nxs := 2; req := 2; data := [[1; 2]; [3; 4]] |} in
  stencil_data O (data (step_vk O A B (vk_stencil 2 2) s b)) (vk_stencil 2 2)
  = new_row_vk O A B [1; 2; 3; 4] b ++ [1; 2].
Proof.
  intros A B b HA HB s.
  assert (Hwf : wf_screen s).
  { unfold wf_screen, s; cbn [data sl nxs req length]. repeat split; try lia. repeat constructor. }
  exact (step_vk_stencil_update O A B 2 2 s b Hwf eq_refl (conj Nat.lt_0_2 (le_n 2)) HA HB).
Qed.

(* an ensemble satisfying the hypotheses of second_moment_propagation: two equally weighted
   samples, Z = [2] in both, b = [1] and [-1] *)
Example second_moment_instance :
  let p := fun _ : nat => 1/2 in
  let Z := fun _ : nat => [2] in
  let b := fun w : nat => if Nat.eqb w 0 then [1] else [-1] in
  let Z' := fun w => vadd O (mvec O [[3/5]] (Z w)) (mvec O [[4/5]] (b w)) in
  mom2 2 p Z' Z' 0 0 = ent (cov_step G K [[3/5]] [[4/5]] [[4]]) 0 0.
Proof.
  intros p Z b Z'.
  apply (second_moment_propagation G K 2 p 1 1 [[3/5]] [[4/5]] [[4]] Z b); try lia;
    try (split; [reflexivity | repeat constructor]); try (intros; reflexivity).
  - intros w _. unfold b. destruct (Nat.eqb w 0); reflexivity.
  - intros i j Hi Hj. assert (i = 0%nat) by lia. assert (j = 0%nat) by lia. subst.
    cbv [mom2 rsum p Z nth ent]. lra.
  - intros i j Hi Hj. assert (i = 0%nat) by lia. assert (j = 0%nat) by lia. subst.
    cbv [mom2 rsum p Z b nth Nat.eqb]. lra.
  - intros i j Hi Hj. assert (i = 0%nat) by lia. assert (j = 0%nat) by lia. subst.
    cbv [mom2 rsum p b nth Nat.eqb]. lra.
Qed.

End Examples.

Print Assumptions recursion_fixed_point.
Print Assumptions covariance_recursion_invariant.
Print Assumptions vk_covariance_translation_invariant.
Print Assumptions vk_model_stationary.
Print Assumptions step_vk_stencil_update.
Print Assumptions stencil_update_state_space.
Print Assumptions second_moment_propagation.
