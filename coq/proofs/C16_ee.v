(* C16 (continued): what encircled_energy returns.  numpy.interp (np_interp) stays between the extreme
   ordinates, is monotone for non-decreasing ordinates, takes at a node the ordinate of the LAST node
   with that abscissa, and is constant outside the nodes; the resampled encircled-energy curve
   (ee_interp) is within [0,1], non-decreasing and starts at (0,0); numpy.argmin (argmin_first) is the
   first minimiser, so ee_diameter is the abscissa of a sample closest to the requested fraction. *)
From Coq Require Import Reals Lra Lia ZArith List Arith Bool Psatz Sorted.
Require Import AOV.base.Num AOV.base.NumR AOV.base.RpowTac AOV.base.Cplx AOV.model.Pupil AOV.model.Interp
               AOV.proofs.Dft_proofs AOV.proofs.Mat_proofs AOV.proofs.C14_proofs AOV.proofs.C16_proofs.
Import ListNotations.
Local Open Scope R_scope.

(* ------------------------------------------------------------------------------------------ *)
(* non-decreasing lists                                                                        *)
(* ------------------------------------------------------------------------------------------ *)

Lemma SSorted_nth (l : list R) : StronglySorted Rle l ->
  forall i j, (i <= j < length l)%nat -> nth i l 0 <= nth j l 0.
Proof.
  induction 1 as [|a l Hs IH Hf]; intros i j Hij; [simpl in Hij; lia|].
  destruct j as [|j].
  - replace i with 0%nat by lia. lra.
  - destruct i as [|i].
    + cbn [nth]. rewrite Forall_forall in Hf. apply Hf. apply nth_In. simpl in Hij. lia.
    + cbn [nth]. apply IH. simpl in Hij. lia.
Qed.

Lemma nth_SSorted (l : list R) :
  (forall i j, (i <= j < length l)%nat -> nth i l 0 <= nth j l 0) -> StronglySorted Rle l.
Proof.
  induction l as [|a l IH]; intros H; [constructor|]. constructor.
  - apply IH. intros i j Hij. apply (H (S i) (S j)). simpl. lia.
  - apply Forall_forall. intros x Hx. destruct (In_nth _ _ 0 Hx) as [k [Hk <-]].
    apply (H 0%nat (S k)). simpl. lia.
Qed.

(* the adjacent formulation: l_i <= l_(i+1) *)
Lemma adjacent_SSorted (l : list R) :
  (forall i, (S i < length l)%nat -> nth i l 0 <= nth (S i) l 0) -> StronglySorted Rle l.
Proof.
  intros H. apply nth_SSorted. intros i j [Hij Hj]. induction j as [|j IH].
  - replace i with 0%nat by lia. lra.
  - destruct (Nat.eq_dec i (S j)) as [->|Hne]; [lra|].
    apply Rle_trans with (nth j l 0); [apply IH; lia|apply H; exact Hj].
Qed.

Lemma SSorted_map (f : R -> R) (l : list R) : (forall a b, a <= b -> f a <= f b) ->
  StronglySorted Rle l -> StronglySorted Rle (map f l).
Proof.
  intros Hf. induction 1 as [|a l Hs IH Ha]; cbn [map]; constructor; [exact IH|].
  rewrite Forall_forall in *. intros y Hy. apply in_map_iff in Hy. destruct Hy as [x [<- Hx]].
  apply Hf, Ha, Hx.
Qed.

Lemma SSorted_hd_le (a : R) (l : list R) : StronglySorted Rle (a :: l) -> Forall (fun x => a <= x) (a :: l).
Proof. intros H. inversion H; subst. constructor; [lra|assumption]. Qed.

Section C16EE.
Variables (G : R -> R) (K : R -> R -> R).
Local Notation O := (ROps G K).
Local Notation mat := (list (list R)).

(* ------------------------------------------------------------------------------------------ *)
(* 1. numpy.interp                                                                             *)
(* ------------------------------------------------------------------------------------------ *)

(* one step of the segment search, at the real instance *)
Lemma interp_aux_cons2 x x0 x1 xr f0 f1 fr :
  interp_aux O x (x0 :: x1 :: xr) (f0 :: f1 :: fr)
  = if Rlt_dec x x1 then (f1 - f0) / (x1 - x0) * (x - x0) + f0 else interp_aux O x (x1 :: xr) (f1 :: fr).
Proof. cbn [interp_aux]. cbv [nltb nadd nmul ndiv nsub ROps]. unfold Rltb. destruct (Rlt_dec x x1); reflexivity. Qed.

Lemma np_interp_cons x x0 xr f0 fr :
  np_interp O x (x0 :: xr) (f0 :: fr) = if Rlt_dec x x0 then f0 else interp_aux O x (x0 :: xr) (f0 :: fr).
Proof. unfold np_interp. cbv [nltb ROps]. unfold Rltb. destruct (Rlt_dec x x0); reflexivity. Qed.

(* the value on a segment x0 <= x < x1 is the convex combination f0 + t (f1 - f0), t = (x-x0)/(x1-x0) in [0,1) *)
Lemma segment_convex x x0 x1 f0 f1 : x0 <= x < x1 ->
  exists t, 0 <= t < 1 /\ (f1 - f0) / (x1 - x0) * (x - x0) + f0 = f0 + t * (f1 - f0).
Proof.
  intros [H0 H1]. exists ((x - x0) / (x1 - x0)). split; [|field; lra].
  assert (Hd : 0 < x1 - x0) by lra. split.
  - apply Rmult_le_pos; [lra|]. apply Rlt_le, Rinv_0_lt_compat, Hd.
  - apply Rmult_lt_reg_r with (x1 - x0); [exact Hd|]. unfold Rdiv. rewrite Rmult_assoc, Rinv_l by lra. lra.
Qed.

Lemma segment_bounds x x0 x1 f0 f1 m M : x0 <= x < x1 -> m <= f0 <= M -> m <= f1 <= M ->
  m <= (f1 - f0) / (x1 - x0) * (x - x0) + f0 <= M.
Proof.
  intros Hx H0 H1. destruct (segment_convex x x0 x1 f0 f1 Hx) as [t [Ht ->]]. nra.
Qed.

(* bounds for the segment search started at or right of the first node (no ordering of the nodes needed) *)
Lemma interp_aux_bounds m M x : forall xp fp, fp <> [] ->
  match xp with x0 :: _ => x0 <= x | [] => True end ->
  Forall (fun f => m <= f <= M) fp -> m <= interp_aux O x xp fp <= M.
Proof.
  induction xp as [|x0 xp IH]; intros fp Hne Hx Hf.
  - destruct fp as [|f0 fr]; [congruence|]. cbn [interp_aux]. exact (Forall_inv Hf).
  - destruct fp as [|f0 fr]; [congruence|]. pose proof (Forall_inv Hf) as Hf0.
    destruct xp as [|x1 xr]; [cbn [interp_aux]; exact Hf0|].
    destruct fr as [|f1 fr]; [cbn [interp_aux]; exact Hf0|].
    rewrite interp_aux_cons2. pose proof (Forall_inv (Forall_inv_tail Hf)) as Hf1.
    destruct (Rlt_dec x x1) as [Hlt|Hge].
    + apply segment_bounds; [lra|exact Hf0|exact Hf1].
    + apply IH; [discriminate|lra|exact (Forall_inv_tail Hf)].
Qed.

(* 1a *)
Theorem np_interp_bounds m M x xp fp : length xp = length fp -> (1 <= length xp)%nat ->
  Forall (fun f => m <= f <= M) fp -> m <= np_interp O x xp fp <= M.
Proof.
  intros Hl Hn Hf. destruct xp as [|x0 xr]; [simpl in Hn; lia|]. destruct fp as [|f0 fr]; [discriminate|].
  rewrite np_interp_cons. destruct (Rlt_dec x x0) as [Hlt|Hge]; [exact (Forall_inv Hf)|].
  apply interp_aux_bounds; [discriminate|lra|exact Hf].
Qed.

(* the shape of the value: first ordinate, last ordinate, or a convex combination on a segment *)
Theorem np_interp_shape x xp fp : length xp = length fp -> (1 <= length xp)%nat ->
  np_interp O x xp fp = hd 0 fp \/ np_interp O x xp fp = last fp 0 \/
  exists j t, (S j < length xp)%nat /\ nth j xp 0 <= x < nth (S j) xp 0 /\ 0 <= t < 1 /\
              np_interp O x xp fp = nth j fp 0 + t * (nth (S j) fp 0 - nth j fp 0).
Proof.
  intros Hl Hn. destruct xp as [|x0 xr]; [simpl in Hn; lia|]. destruct fp as [|f0 fr]; [discriminate|].
  rewrite np_interp_cons. destruct (Rlt_dec x x0) as [Hlt|Hge]; [left; reflexivity|]. right.
  assert (Hx : x0 <= x) by lra. clear Hge Hn. revert x0 f0 fr Hl Hx.
  induction xr as [|x1 xr IH]; intros x0 f0 fr Hl Hx.
  - destruct fr; [|discriminate]. left. reflexivity.
  - destruct fr as [|f1 fr]; [discriminate|]. rewrite interp_aux_cons2.
    destruct (Rlt_dec x x1) as [Hlt|Hge].
    + right. destruct (segment_convex x x0 x1 f0 f1 (conj Hx Hlt)) as [t [Ht E]].
      exists 0%nat, t. cbn [nth length]. repeat split; try lra; try lia; exact E.
    + destruct (IH x1 f1 fr) as [E|[j [t [Hj [Hxj [Ht E]]]]]]; [simpl in *; lia|lra| |].
      * left. rewrite E. reflexivity.
      * right. exists (S j), t. cbn [nth length] in *. repeat split; try lra; try lia; exact E.
Qed.

(* one-sided version (lower bound only) *)
Lemma interp_aux_ge m x : forall xp fp, fp <> [] ->
  match xp with x0 :: _ => x0 <= x | [] => True end ->
  Forall (fun f => m <= f) fp -> m <= interp_aux O x xp fp.
Proof.
  induction xp as [|x0 xp IH]; intros fp Hne Hx Hf.
  - destruct fp as [|f0 fr]; [congruence|]. cbn [interp_aux]. exact (Forall_inv Hf).
  - destruct fp as [|f0 fr]; [congruence|]. pose proof (Forall_inv Hf) as Hf0.
    destruct xp as [|x1 xr]; [cbn [interp_aux]; exact Hf0|].
    destruct fr as [|f1 fr]; [cbn [interp_aux]; exact Hf0|].
    rewrite interp_aux_cons2. pose proof (Forall_inv (Forall_inv_tail Hf)) as Hf1.
    destruct (Rlt_dec x x1) as [Hlt|Hge].
    + destruct (segment_convex x x0 x1 f0 f1 (conj Hx Hlt)) as [t [Ht ->]]. nra.
    + apply IH; [discriminate|lra|exact (Forall_inv_tail Hf)].
Qed.

(* 1b: monotone in x for non-decreasing ordinates *)
Lemma interp_aux_monotone x y : forall xp fp, x <= y ->
  match xp with x0 :: _ => x0 <= x | [] => True end ->
  StronglySorted Rle fp -> interp_aux O x xp fp <= interp_aux O y xp fp.
Proof.
  induction xp as [|x0 xp IH]; intros fp Hxy Hx Hs.
  - destruct fp; cbn [interp_aux]; lra.
  - destruct fp as [|f0 fr]; [cbn [interp_aux]; destruct xp; lra|].
    destruct xp as [|x1 xr]; [cbn [interp_aux]; lra|].
    destruct fr as [|f1 fr]; [cbn [interp_aux]; lra|].
    rewrite !interp_aux_cons2.
    assert (Hs1 : StronglySorted Rle (f1 :: fr)) by (inversion Hs; assumption).
    assert (H01 : f0 <= f1) by (inversion Hs as [|? ? ? Hf]; exact (Forall_inv Hf)).
    destruct (Rlt_dec x x1) as [Hx1|Hx1]; destruct (Rlt_dec y x1) as [Hy1|Hy1]; try lra.
    + assert (0 <= (f1 - f0) / (x1 - x0)).
      { apply Rmult_le_pos; [lra|]. apply Rlt_le, Rinv_0_lt_compat. lra. }
      nra.
    + apply Rle_trans with f1.
      * apply (segment_bounds x x0 x1 f0 f1 f0 f1); lra.
      * apply interp_aux_ge; [discriminate|lra|exact (SSorted_hd_le f1 fr Hs1)].
    + apply IH; [exact Hxy|lra|exact Hs1].
Qed.

Theorem np_interp_monotone x y xp fp : length xp = length fp -> (1 <= length xp)%nat ->
  StronglySorted Rle fp -> x <= y -> np_interp O x xp fp <= np_interp O y xp fp.
Proof.
  intros Hl Hn Hs Hxy. destruct xp as [|x0 xr]; [simpl in Hn; lia|]. destruct fp as [|f0 fr]; [discriminate|].
  rewrite !np_interp_cons.
  destruct (Rlt_dec x x0) as [Hx|Hx]; destruct (Rlt_dec y x0) as [Hy|Hy]; try lra.
  - apply interp_aux_ge; [discriminate|lra|exact (SSorted_hd_le f0 fr Hs)].
  - apply interp_aux_monotone; [exact Hxy|lra|exact Hs].
Qed.

(* 1c: at a node the value is the ordinate of the LAST node with that abscissa *)
Lemma interp_aux_at_node x : forall xp fp j, length xp = length fp -> StronglySorted Rle xp ->
  (j < length xp)%nat -> nth j xp 0 = x ->
  (forall i, (i < length xp)%nat -> nth i xp 0 <= x -> (i <= j)%nat) ->
  interp_aux O x xp fp = nth j fp 0.
Proof.
  induction xp as [|x0 xp IH]; intros fp j Hl Hs Hj Hx Hmax; [simpl in Hj; lia|].
  destruct fp as [|f0 fr]; [discriminate|].
  destruct xp as [|x1 xr].
  - destruct fr; [|discriminate]. simpl in Hj. replace j with 0%nat by lia. reflexivity.
  - destruct fr as [|f1 fr]; [discriminate|]. rewrite interp_aux_cons2.
    destruct (Rlt_dec x x1) as [Hlt|Hge].
    + destruct j as [|j].
      * cbn [nth] in *. subst x. ring.
      * exfalso. pose proof (SSorted_nth _ Hs 1%nat (S j) ltac:(lia)) as H1. cbn [nth] in H1, Hx. lra.
    + destruct j as [|j].
      * exfalso. specialize (Hmax 1%nat ltac:(simpl; lia)). cbn [nth] in Hmax. assert (1 <= 0)%nat by (apply Hmax; lra). lia.
      * change (nth (S j) (f0 :: f1 :: fr) 0) with (nth j (f1 :: fr) 0). apply IH.
        -- simpl in *; lia.
        -- inversion Hs; assumption.
        -- simpl in *; lia.
        -- exact Hx.
        -- intros i Hi Hle. specialize (Hmax (S i) ltac:(simpl in *; lia) Hle). lia.
Qed.

Theorem np_interp_at_node x xp fp j : length xp = length fp -> StronglySorted Rle xp ->
  (j < length xp)%nat -> nth j xp 0 = x ->
  (forall i, (i < length xp)%nat -> nth i xp 0 <= x -> (i <= j)%nat) ->
  np_interp O x xp fp = nth j fp 0.
Proof.
  intros Hl Hs Hj Hx Hmax. destruct xp as [|x0 xr]; [simpl in Hj; lia|]. destruct fp as [|f0 fr]; [discriminate|].
  rewrite np_interp_cons. destruct (Rlt_dec x x0) as [Hlt|Hge].
  - exfalso. pose proof (SSorted_nth _ Hs 0%nat j ltac:(lia)) as H0. rewrite Hx in H0. cbn [nth] in H0. lra.
  - apply interp_aux_at_node; assumption.
Qed.

(* the usual special case: the node is strictly left of the next one, or it is the last one *)
Corollary np_interp_at_strict_node xp fp j : length xp = length fp -> StronglySorted Rle xp ->
  (j < length xp)%nat -> ((S j < length xp)%nat -> nth j xp 0 < nth (S j) xp 0) ->
  np_interp O (nth j xp 0) xp fp = nth j fp 0.
Proof.
  intros Hl Hs Hj Hnext. apply np_interp_at_node; try assumption; [reflexivity|].
  intros i Hi Hle. destruct (le_lt_dec i j) as [H|H]; [exact H|exfalso].
  pose proof (SSorted_nth _ Hs (S j) i ltac:(lia)). specialize (Hnext ltac:(lia)). lra.
Qed.

(* 1d: constant outside the nodes *)
Theorem np_interp_left x xp fp : length xp = length fp -> (1 <= length xp)%nat ->
  x < hd 0 xp -> np_interp O x xp fp = hd 0 fp.
Proof.
  intros Hl Hn Hx. destruct xp as [|x0 xr]; [simpl in Hn; lia|]. destruct fp as [|f0 fr]; [discriminate|].
  rewrite np_interp_cons. cbn [hd] in *. destruct (Rlt_dec x x0); [reflexivity|lra].
Qed.

Lemma interp_aux_right x : forall xp fp, length xp = length fp -> Forall (fun xi => xi <= x) xp ->
  interp_aux O x xp fp = last fp 0.
Proof.
  induction xp as [|x0 xp IH]; intros fp Hl Hf.
  - destruct fp; [reflexivity|discriminate].
  - destruct fp as [|f0 fr]; [discriminate|].
    destruct xp as [|x1 xr].
    + destruct fr; [reflexivity|discriminate].
    + destruct fr as [|f1 fr]; [discriminate|]. rewrite interp_aux_cons2.
      pose proof (Forall_inv (Forall_inv_tail Hf)) as H1. cbn beta in H1.
      destruct (Rlt_dec x x1) as [Hlt|Hge]; [lra|].
      rewrite IH; [reflexivity|simpl in *; lia|exact (Forall_inv_tail Hf)].
Qed.

Lemma SSorted_le_last (l : list R) : StronglySorted Rle l -> Forall (fun x => x <= last l 0) l.
Proof.
  induction 1 as [|a l Hs IH Ha]; [constructor|].
  destruct l as [|b l]; [constructor; [cbn [last]; lra|constructor]|].
  change (last (a :: b :: l) 0) with (last (b :: l) 0).
  constructor; [|exact IH].
  pose proof (Forall_inv IH) as Hb. pose proof (Forall_inv Ha) as Hab. cbn beta in *. lra.
Qed.

Theorem np_interp_right x xp fp : length xp = length fp -> (1 <= length xp)%nat ->
  StronglySorted Rle xp -> last xp 0 <= x -> np_interp O x xp fp = last fp 0.
Proof.
  intros Hl Hn Hs Hx.
  assert (Hall : Forall (fun xi => xi <= x) xp).
  { pose proof (SSorted_le_last xp Hs) as H. rewrite Forall_forall in *. intros xi Hin. specialize (H xi Hin). lra. }
  destruct xp as [|x0 xr]; [simpl in Hn; lia|]. destruct fp as [|f0 fr]; [discriminate|].
  rewrite np_interp_cons. destruct (Rlt_dec x x0) as [Hlt|Hge].
  - exfalso. pose proof (Forall_inv Hall). cbn beta in *. lra.
  - apply interp_aux_right; assumption.
Qed.

(* ------------------------------------------------------------------------------------------ *)
(* 2. the resampled encircled-energy curve                                                     *)
(* ------------------------------------------------------------------------------------------ *)

(* the equivalent diameter as a function of the radius: sqrt (4 * count / PI), count = sum of the mask *)
Definition ee_diam (data : mat) (xc yc r : R) : R :=
  sqrt (sum2 O (circle O r (2 * (length data / 2)) xc yc false) * 4 / PI).

Lemma ee_curve_fst (data : mat) xc yc rads :
  map fst (ee_curve O data xc yc rads) = map (ee_diam data xc yc) rads.
Proof. unfold ee_curve. cbv zeta. rewrite map_map. reflexivity. Qed.

(* the pixel count of a mask *)
Lemma mask_count_rsum r d xc yc :
  sum2 O (circle O r d xc yc false)
  = rsum (fun i => rsum (fun j => if circle_px O r d xc yc false i j then 1 else 0) d) d.
Proof.
  rewrite (sum2_rsum G K d d) by apply circle_wf.
  apply rsum_ext; intros i Hi. apply rsum_ext; intros j Hj. apply ent_circle; assumption.
Qed.

Lemma mask_count_nonneg r d xc yc : 0 <= sum2 O (circle O r d xc yc false).
Proof.
  rewrite mask_count_rsum. apply rsum_nonneg; intros i Hi. apply rsum_nonneg; intros j Hj.
  destruct (circle_px O r d xc yc false i j); lra.
Qed.

(* masks are nested for increasing radii, so the count grows *)
Lemma mask_count_mono r1 r2 d xc yc : 0 <= r1 <= r2 ->
  sum2 O (circle O r1 d xc yc false) <= sum2 O (circle O r2 d xc yc false).
Proof.
  intros Hr. rewrite !mask_count_rsum. apply rsum_le; intros i Hi. apply rsum_le; intros j Hj.
  destruct (circle_px O r1 d xc yc false i j) eqn:E1.
  - rewrite (circle_nested G K r1 r2 d xc yc false i j Hr E1). lra.
  - destruct (circle_px O r2 d xc yc false i j); lra.
Qed.

Lemma ee_diam_nonneg (data : mat) xc yc r : 0 <= ee_diam data xc yc r.
Proof. apply sqrt_pos. Qed.

Lemma ee_diam_mono (data : mat) xc yc r1 r2 : 0 <= r1 <= r2 -> ee_diam data xc yc r1 <= ee_diam data xc yc r2.
Proof.
  intros Hr. unfold ee_diam. apply sqrt_le_1_alt.
  pose proof (mask_count_mono r1 r2 (2 * (length data / 2)) xc yc Hr).
  assert (0 < / PI) by (apply Rinv_0_lt_compat, PI_RGT_0).
  unfold Rdiv. apply Rmult_le_compat_r; lra.
Qed.

(* a node with diameter 0 has an empty mask, hence energy 0 *)
Lemma rsum_zero_terms f n : (forall i, (i < n)%nat -> 0 <= f i) -> rsum f n = 0 ->
  forall i, (i < n)%nat -> f i = 0.
Proof.
  intros Hf Hs i Hi. pose proof (rsum_ge_term f n i Hf Hi). pose proof (Hf i Hi). lra.
Qed.

Lemma diameter_zero_mask_empty (data : mat) xc yc r : ee_diam data xc yc r = 0 ->
  forall i j, (i < 2 * (length data / 2))%nat -> (j < 2 * (length data / 2))%nat ->
    circle_px O r (2 * (length data / 2)) xc yc false i j = false.
Proof.
  unfold ee_diam. set (d := (2 * (length data / 2))%nat). intros Hd i j Hi Hj.
  pose proof (mask_count_nonneg r d xc yc) as Hc. pose proof PI_RGT_0 as Hpi.
  assert (H0 : sum2 O (circle O r d xc yc false) * 4 / PI = 0).
  { apply sqrt_eq_0; [|exact Hd]. apply Rmult_le_pos; [lra|]. apply Rlt_le, Rinv_0_lt_compat, Hpi. }
  assert (Hcount : sum2 O (circle O r d xc yc false) = 0).
  { apply Rmult_eq_reg_r with (4 / PI).
    - rewrite Rmult_0_l. rewrite <- H0. unfold Rdiv. ring.
    - apply Rgt_not_eq. apply Rmult_lt_0_compat; [lra|]. apply Rinv_0_lt_compat, Hpi. }
  rewrite mask_count_rsum in Hcount.
  assert (Hrow : rsum (fun j0 => if circle_px O r d xc yc false i j0 then 1 else 0) d = 0).
  { apply (rsum_zero_terms (fun i0 => rsum (fun j0 => if circle_px O r d xc yc false i0 j0 then 1 else 0) d) d);
      [|exact Hcount|exact Hi].
    intros i0 _. apply rsum_nonneg. intros j0 _. destruct (circle_px O r d xc yc false i0 j0); lra. }
  assert (Hij : (if circle_px O r d xc yc false i j then 1 else 0) = 0).
  { apply (rsum_zero_terms (fun j0 => if circle_px O r d xc yc false i j0 then 1 else 0) d); [|exact Hrow|exact Hj].
    intros j0 _. destruct (circle_px O r d xc yc false i j0); lra. }
  destruct (circle_px O r d xc yc false i j); [lra|reflexivity].
Qed.

Theorem diameter_zero_energy_zero n (data : mat) xc yc r : wf_mat n n data ->
  ee_diam data xc yc r = 0 -> ee_val G K data xc yc r = 0.
Proof.
  intros Hwf Hd. apply (ee_empty_zero G K n); [exact Hwf|].
  pose proof (diameter_zero_mask_empty data xc yc r Hd) as H.
  rewrite (ee_data_length n data Hwf) in H. exact H.
Qed.

(* 0 prepended to the image of a non-decreasing list of non-negative radii under a monotone function *)
Lemma nodes_sorted (f : R -> R) rads : (forall r, 0 <= r -> 0 <= f r) ->
  (forall r1 r2, 0 <= r1 <= r2 -> f r1 <= f r2) ->
  StronglySorted Rle rads -> Forall (fun r => 0 <= r) rads -> StronglySorted Rle (0 :: map f rads).
Proof.
  intros Hf0 Hfm Hs Hr. constructor.
  - induction Hs as [|a l Hs IH Ha]; cbn [map]; constructor.
    + apply IH. exact (Forall_inv_tail Hr).
    + pose proof (Forall_inv Hr) as Ha0. cbn beta in Ha0. rewrite Forall_forall in *.
      intros y Hy. apply in_map_iff in Hy. destruct Hy as [x [<- Hx]]. apply Hfm. split; [exact Ha0|apply Ha, Hx].
  - rewrite Forall_forall in *. intros y Hy. apply in_map_iff in Hy. destruct Hy as [x [<- Hx]]. apply Hf0, Hr, Hx.
Qed.

(* linspace(0, stop, num) is non-decreasing for stop >= 0 *)
Lemma linspace_nth stop num k : (k < num)%nat ->
  nth k (linspace O stop num) 0 = if Nat.eqb (S k) num then stop else INR k * (stop / INR (num - 1)).
Proof.
  intros Hk. unfold linspace. rewrite nth_map_seq by exact Hk. rewrite !zn_INR. reflexivity.
Qed.

Lemma linspace_sorted stop num : 0 <= stop -> StronglySorted Rle (linspace O stop num).
Proof.
  intros Hs. apply nth_SSorted. rewrite linspace_length. intros i j [Hij Hj].
  rewrite !linspace_nth by lia.
  destruct (Nat.eqb_spec (S j) num) as [Ej|Ej].
  - destruct (Nat.eqb_spec (S i) num) as [Ei|Ei]; [lra|].
    assert (Hm : 0 < INR (num - 1)) by (apply lt_0_INR; lia).
    assert (Hi : INR i <= INR (num - 1)) by (apply le_INR; lia).
    assert (0 <= stop / INR (num - 1)) by (apply Rmult_le_pos; [lra|]; apply Rlt_le, Rinv_0_lt_compat, Hm).
    replace stop with (INR (num - 1) * (stop / INR (num - 1))) at 2 by (field; lra).
    apply Rmult_le_compat_r; assumption.
  - destruct (Nat.eqb_spec (S i) num) as [Ei|Ei]; [lia|].
    assert (Hm : 0 < INR (num - 1)) by (apply lt_0_INR; lia).
    assert (Hi : INR i <= INR j) by (apply le_INR; lia).
    assert (0 <= stop / INR (num - 1)) by (apply Rmult_le_pos; [lra|]; apply Rlt_le, Rinv_0_lt_compat, Hm).
    apply Rmult_le_compat_r; assumption.
Qed.

Lemma ee_xi_sorted (data : mat) : StronglySorted Rle (ee_xi O data).
Proof. unfold ee_xi. cbv zeta. apply linspace_sorted. rewrite zn_INR. apply pos_INR. Qed.

Lemma ee_xi_length (data : mat) : length (ee_xi O data) = (4 * (length data / 2))%nat.
Proof. unfold ee_xi. cbv zeta. apply linspace_length. Qed.

(* ee_interp: the grid ee_xi paired with numpy.interp over the nodes (0,0) :: curve *)
Lemma ee_interp_eq (data : mat) xc yc rads :
  ee_interp O data xc yc rads
  = map (fun x => (x, np_interp O x (0 :: map (ee_diam data xc yc) rads) (0 :: map (ee_val G K data xc yc) rads)))
        (ee_xi O data).
Proof. unfold ee_interp. cbv zeta. rewrite ee_curve_fst, ee_curve_snd. reflexivity. Qed.

Lemma ee_interp_length (data : mat) xc yc rads :
  length (ee_interp O data xc yc rads) = (4 * (length data / 2))%nat.
Proof. rewrite ee_interp_eq, map_length. apply ee_xi_length. Qed.

Lemma ee_interp_fst (data : mat) xc yc rads : map fst (ee_interp O data xc yc rads) = ee_xi O data.
Proof. rewrite ee_interp_eq, map_map. cbn [fst]. apply map_id. Qed.

(* the value at x = 0 is 0 whatever the number of leading nodes with diameter 0 *)
Lemma interp_aux_zero_nodes (D V : R -> R) : forall rads,
  (forall r, In r rads -> 0 <= D r /\ (D r = 0 -> V r = 0)) ->
  interp_aux O 0 (0 :: map D rads) (0 :: map V rads) = 0.
Proof.
  induction rads as [|r rads IH]; intros H; [reflexivity|].
  cbn [map]. rewrite interp_aux_cons2. destruct (Rlt_dec 0 (D r)) as [Hlt|Hge]; [ring|].
  destruct (H r (or_introl eq_refl)) as [H0 Hz].
  assert (HD : D r = 0) by lra. rewrite HD, (Hz HD).
  apply IH. intros r' Hr'. apply H. right. exact Hr'.
Qed.

Theorem ee_interp_starts_at_zero n (data : mat) xc yc rads : wf_mat n n data -> (0 < n / 2)%nat ->
  hd_error (ee_interp O data xc yc rads) = Some (0, 0).
Proof.
  intros Hwf Hn. rewrite ee_interp_eq. unfold ee_xi. cbv zeta. rewrite (ee_data_length n data Hwf).
  unfold linspace. destruct (4 * (n / 2))%nat as [|m] eqn:Em; [lia|].
  rewrite <- cons_seq. cbn [map hd_error].
  destruct (Nat.eqb_spec 1 (S m)) as [E|_]; [lia|].
  replace (nmul O (zn O 0) (ndiv O (zn O (n / 2)) (zn O (S m - 1)))) with 0
    by (rewrite !zn_INR; rops; simpl INR; ring).
  f_equal. f_equal. rewrite np_interp_cons. destruct (Rlt_dec 0 0) as [H|_]; [lra|].
  apply interp_aux_zero_nodes. intros r _. split; [apply ee_diam_nonneg|].
  apply (diameter_zero_energy_zero n); exact Hwf.
Qed.

Section EEI.
Variables (n : nat) (data : mat) (xc yc : R) (rads : list R).
Hypothesis Hwf : wf_mat n n data.
Hypothesis Hpos : forall i j, (i < n)%nat -> (j < n)%nat -> 0 <= ent data i j.
Hypothesis Htot : 0 < sum2 O data.
Hypothesis Hrs : StronglySorted Rle rads.
Hypothesis Hr0 : Forall (fun r => 0 <= r) rads.

(* 2a: the nodes handed to numpy.interp *)
Theorem ee_nodes_x_sorted : StronglySorted Rle (0 :: map fst (ee_curve O data xc yc rads)).
Proof.
  rewrite ee_curve_fst. apply nodes_sorted; [intros; apply ee_diam_nonneg|apply ee_diam_mono|exact Hrs|exact Hr0].
Qed.

Theorem ee_nodes_x_nonneg : Forall (fun x => 0 <= x) (0 :: map fst (ee_curve O data xc yc rads)).
Proof.
  rewrite ee_curve_fst. constructor; [lra|]. apply Forall_forall. intros y Hy. apply in_map_iff in Hy.
  destruct Hy as [r [<- _]]. apply ee_diam_nonneg.
Qed.

Theorem ee_nodes_y_sorted : StronglySorted Rle (0 :: map snd (ee_curve O data xc yc rads)).
Proof.
  rewrite ee_curve_snd. apply nodes_sorted; [| |exact Hrs|exact Hr0].
  - intros r _. apply (ee_range G K n data xc yc Hwf Hpos Htot r).
  - apply (ee_monotone G K n data xc yc Hwf Hpos Htot).
Qed.

Theorem ee_nodes_y_range : Forall (fun y => 0 <= y <= 1) (0 :: map snd (ee_curve O data xc yc rads)).
Proof.
  rewrite ee_curve_snd. constructor; [lra|]. apply Forall_forall. intros y Hy. apply in_map_iff in Hy.
  destruct Hy as [r [<- _]]. apply (ee_range G K n data xc yc Hwf Hpos Htot r).
Qed.

Lemma ee_nodes_length :
  length (0 :: map fst (ee_curve O data xc yc rads)) = length (0 :: map snd (ee_curve O data xc yc rads)).
Proof. cbn [length]. rewrite !map_length. reflexivity. Qed.

(* 2b *)
Theorem ee_interp_range q : In q (ee_interp O data xc yc rads) -> 0 <= snd q <= 1.
Proof.
  unfold ee_interp. cbv zeta. intros Hq. apply in_map_iff in Hq. destruct Hq as [x [<- _]]. cbn [snd].
  apply np_interp_bounds; [exact ee_nodes_length|cbn [length]; lia|exact ee_nodes_y_range].
Qed.

Theorem ee_interp_monotone : StronglySorted Rle (map snd (ee_interp O data xc yc rads)).
Proof.
  unfold ee_interp. cbv zeta. rewrite map_map. cbn [snd].
  apply (SSorted_map (fun x => np_interp O x (nzero O :: map fst (ee_curve O data xc yc rads))
                                           (nzero O :: map snd (ee_curve O data xc yc rads)))).
  - intros a b Hab. apply np_interp_monotone; [exact ee_nodes_length|cbn [length]; lia|exact ee_nodes_y_sorted|exact Hab].
  - apply ee_xi_sorted.
Qed.

Corollary ee_interp_monotone_nth i j : (i <= j < length (ee_interp O data xc yc rads))%nat ->
  snd (nth i (ee_interp O data xc yc rads) (0, 0)) <= snd (nth j (ee_interp O data xc yc rads) (0, 0)).
Proof.
  intros Hij. pose proof (SSorted_nth _ ee_interp_monotone i j) as H. rewrite map_length in H. specialize (H Hij).
  rewrite !(nth_map_lt snd _ _ 0 (0, 0)) in H by lia. exact H.
Qed.

(* the abscissae are the sampling grid, non-decreasing *)
Theorem ee_interp_grid_sorted : StronglySorted Rle (map fst (ee_interp O data xc yc rads)).
Proof. rewrite ee_interp_fst. apply ee_xi_sorted. Qed.
End EEI.

(* ------------------------------------------------------------------------------------------ *)
(* 3. numpy.argmin and the returned diameter                                                   *)
(* ------------------------------------------------------------------------------------------ *)

Lemma argmin_first_cons v r i besti best :
  argmin_first O (v :: r) i besti best
  = if Rlt_dec v best then argmin_first O r (S i) i v else argmin_first O r (S i) besti best.
Proof. cbn [argmin_first]. cbv [nltb ROps]. unfold Rltb. destruct (Rlt_dec v best); reflexivity. Qed.

Lemma skipn_cons_nth (d : list R) : forall i v r, skipn i d = v :: r ->
  nth i d 0 = v /\ skipn (S i) d = r /\ (i < length d)%nat.
Proof.
  induction d as [|a d IH]; intros i v r H.
  - destruct i; discriminate.
  - destruct i as [|i].
    + cbn [skipn] in H. injection H as -> ->. repeat split. simpl. lia.
    + cbn [skipn] in H. destruct (IH i v r H) as [H1 [H2 H3]]. repeat split; [exact H1|exact H2|simpl; lia].
Qed.

(* the scan invariant: best = d[besti] is the first minimum of d[0..i) *)
Lemma argmin_first_inv (d : list R) : forall l i besti best,
  skipn i d = l -> (i <= length d)%nat -> (besti < i)%nat -> nth besti d 0 = best ->
  (forall j, (j < i)%nat -> best <= nth j d 0) ->
  (forall j, (j < besti)%nat -> best < nth j d 0) ->
  let k := argmin_first O l i besti best in
  (k < length d)%nat /\ (forall j, (j < length d)%nat -> nth k d 0 <= nth j d 0)
  /\ (forall j, (j < k)%nat -> nth k d 0 < nth j d 0).
Proof.
  induction l as [|v r IH]; intros i besti best Hsk Hi Hb Hbest Hmin Hfirst.
  - cbn [argmin_first]. assert (length d <= i)%nat.
    { destruct (le_lt_dec (length d) i) as [H|H]; [exact H|exfalso].
      pose proof (skipn_length i d) as Hlen. rewrite Hsk in Hlen. simpl in Hlen. lia. }
    assert (i = length d) by lia. subst i. rewrite Hbest. repeat split; [lia|exact Hmin|exact Hfirst].
  - destruct (skipn_cons_nth d i v r Hsk) as [Hv [Hr Hlt]]. rewrite argmin_first_cons.
    destruct (Rlt_dec v best) as [Hvb|Hvb].
    + apply IH; [exact Hr|lia|lia|exact Hv| |].
      * intros j Hj. destruct (Nat.eq_dec j i) as [->|Hne]; [lra|].
        specialize (Hmin j ltac:(lia)). lra.
      * intros j Hj. specialize (Hmin j Hj). lra.
    + apply IH; [exact Hr|lia|lia|exact Hbest| |exact Hfirst].
      intros j Hj. destruct (Nat.eq_dec j i) as [->|Hne]; [lra|]. apply Hmin. lia.
Qed.

(* numpy.argmin: the index of the first minimiser *)
Theorem argmin_first_spec d0 r : let d := d0 :: r in let k := argmin_first O r 1 0 d0 in
  (k < length d)%nat /\ (forall i, (i < length d)%nat -> nth k d 0 <= nth i d 0)
  /\ (forall i, (i < k)%nat -> nth k d 0 < nth i d 0).
Proof.
  cbv zeta. apply (argmin_first_inv (d0 :: r) r 1 0 d0); [reflexivity|simpl; lia|lia|reflexivity| |].
  - intros j Hj. replace j with 0%nat by lia. cbn [nth]. lra.
  - intros j Hj. lia.
Qed.

(* the returned diameter is the abscissa of the first sample whose ordinate is closest to the fraction *)
Lemma argmin_pick (c : list (R * R)) (fraction : R) : c <> [] ->
  exists k, (k < length c)%nat /\
    let q := nth k c (0, 0) in
    In q c /\
    match map (fun q : R * R => nabs O (nsub O (snd q) fraction)) c with
    | [] => nzero O
    | d0 :: r => nth (argmin_first O r 1 0 d0) (map fst c) (nzero O)
    end = fst q /\
    (forall q', In q' c -> Rabs (snd q - fraction) <= Rabs (snd q' - fraction)) /\
    (forall i, (i < k)%nat -> Rabs (snd q - fraction) < Rabs (snd (nth i c (0, 0)) - fraction)).
Proof.
  intros Hne.
  set (g := fun q : R * R => nabs O (nsub O (snd q) fraction)).
  assert (Hg : forall q, g q = Rabs (snd q - fraction)) by reflexivity.
  destruct c as [|q0 c']; [congruence|].
  cbn [map]. destruct (argmin_first_spec (g q0) (map g c')) as [Hk [Hmin Hfirst]].
  set (k := argmin_first O (map g c') 1 0 (g q0)) in *.
  change (g q0 :: map g c') with (map g (q0 :: c')) in *. rewrite map_length in *.
  assert (Hnth : forall i, (i < length (q0 :: c'))%nat ->
            nth i (map g (q0 :: c')) 0 = Rabs (snd (nth i (q0 :: c') (0, 0)) - fraction)).
  { intros i Hi. rewrite (nth_map_lt g _ _ 0 (0, 0)) by exact Hi. apply Hg. }
  exists k. split; [exact Hk|]. cbv zeta. split; [apply nth_In; exact Hk|]. split; [|split].
  - change (fst q0 :: map fst c') with (map fst (q0 :: c')).
    apply (nth_map_lt fst _ _ (nzero O) (0, 0)). exact Hk.
  - intros q' Hq'. destruct (In_nth _ _ (0, 0) Hq') as [i [Hi <-]].
    rewrite <- !Hnth by assumption. apply Hmin. exact Hi.
  - intros i Hi. rewrite <- !Hnth by lia. apply Hfirst. exact Hi.
Qed.

Theorem ee_diameter_spec (data : mat) xc yc rads fraction : (0 < length data / 2)%nat ->
  exists k, (k < length (ee_interp O data xc yc rads))%nat /\
    let c := ee_interp O data xc yc rads in
    let q := nth k c (0, 0) in
    In q c /\ ee_diameter O data xc yc rads fraction = fst q /\
    (forall q', In q' c -> Rabs (snd q - fraction) <= Rabs (snd q' - fraction)) /\
    (forall i, (i < k)%nat -> Rabs (snd q - fraction) < Rabs (snd (nth i c (0, 0)) - fraction)).
Proof.
  intros Hn. unfold ee_diameter. cbv zeta. apply argmin_pick.
  intros E. pose proof (ee_interp_length data xc yc rads) as Hlen. rewrite E in Hlen. cbn [length] in Hlen. lia.
Qed.

(* sanity: the diameter enclosing the fraction 0 is 0 (the first sample (0,0) is the first minimiser) *)
Theorem ee_diameter_zero_fraction n (data : mat) xc yc rads : wf_mat n n data -> (0 < n / 2)%nat ->
  ee_diameter O data xc yc rads 0 = 0.
Proof.
  intros Hwf Hn. pose proof (ee_interp_starts_at_zero n data xc yc rads Hwf Hn) as H0.
  destruct (ee_diameter_spec data xc yc rads 0) as [k [Hk H]]; [rewrite (ee_data_length n data Hwf); exact Hn|].
  cbv zeta in H. destruct H as [_ [E [_ Hfirst]]]. rewrite E.
  destruct (ee_interp O data xc yc rads) as [|q0 c]; [discriminate|]. cbn [hd_error] in H0. injection H0 as ->.
  destruct k as [|k]; [reflexivity|exfalso].
  specialize (Hfirst 0%nat ltac:(lia)). cbn [nth snd] in Hfirst. rewrite (Rminus_0_r 0), Rabs_R0 in Hfirst.
  match type of Hfirst with Rabs ?a < 0 => pose proof (Rabs_pos a) end. lra.
Qed.

(* ------------------------------------------------------------------------------------------ *)
(* Examples (non-vacuity)                                                                      *)
(* ------------------------------------------------------------------------------------------ *)

Ltac interp_eval :=
  rewrite ?np_interp_cons;
  repeat (rewrite ?interp_aux_cons2;
          match goal with |- context [Rlt_dec ?a ?b] => destruct (Rlt_dec a b); try (exfalso; lra) end).

(* numpy.interp(1.5, [0,1,2], [0,10,20]) = 15 *)
Example np_interp_ex_mid : np_interp O (3/2) [0; 1; 2] [0; 10; 20] = 15.
Proof. interp_eval. field. Qed.
(* repeated abscissa: the ordinate of the last node with that abscissa *)
Example np_interp_ex_repeat : np_interp O 1 [0; 1; 1; 2] [0; 5; 7; 9] = 7.
Proof. interp_eval. field. Qed.
Example np_interp_ex_repeat_by_thm : np_interp O 1 [0; 1; 1; 2] [0; 5; 7; 9] = 7.
Proof.
  apply (np_interp_at_node 1 [0; 1; 1; 2] [0; 5; 7; 9] 2); [reflexivity|repeat constructor; lra|simpl; lia|reflexivity|].
  intros i Hi Hle. destruct i as [|[|[|[|i]]]]; try lia; [cbn [nth] in Hle; lra|simpl in Hi; lia].
Qed.
Example np_interp_ex_left : np_interp O (-1) [0; 1; 1; 2] [3; 5; 7; 9] = 3.
Proof. apply np_interp_left; [reflexivity|simpl; lia|cbn [hd]; lra]. Qed.
Example np_interp_ex_right : np_interp O 4 [0; 1; 1; 2] [3; 5; 7; 9] = 9.
Proof. apply np_interp_right; [reflexivity|simpl; lia|repeat constructor; lra|cbn [last]; lra]. Qed.

(* a 2 x 2 image, centre (1,1), radii 1/2 (empty mask: a leading node of diameter 0), 1 and 2 (all four pixels) *)
Definition data_ex : mat := [[1; 2]; [3; 4]].
Definition rads_ex : list R := [1/2; 1; 2].

Lemma data_ex_wf : wf_mat 2 2 data_ex.
Proof. split; [reflexivity|repeat constructor]. Qed.
Lemma data_ex_pos i j : (i < 2)%nat -> (j < 2)%nat -> 0 <= ent data_ex i j.
Proof. intros Hi Hj. destruct i as [|[|i]]; [| |lia]; (destruct j as [|[|j]]; [| |lia]); unfold ent, data_ex; cbn [nth]; lra. Qed.
Lemma data_ex_total : sum2 O data_ex = 10.
Proof. unfold sum2, nsum, data_ex. cbn [map fold_left]. rops. ring. Qed.
Lemma data_ex_tot : 0 < sum2 O data_ex.
Proof. rewrite data_ex_total. lra. Qed.
Lemma rads_ex_sorted : StronglySorted Rle rads_ex.
Proof. unfold rads_ex. repeat constructor; lra. Qed.
Lemma rads_ex_nonneg : Forall (fun r => 0 <= r) rads_ex.
Proof. unfold rads_ex. repeat constructor; lra. Qed.

Lemma px_ex i j : (i < 2)%nat -> (j < 2)%nat ->
  (pcoord O 2 false j - 1) * (pcoord O 2 false j - 1) + (pcoord O 2 false i - 1) * (pcoord O 2 false i - 1) = 1/2.
Proof.
  intros Hi Hj. rewrite !pcoord_R.
  destruct i as [|[|i]]; [| |lia]; (destruct j as [|[|j]]; [| |lia]); simpl INR; field.
Qed.
Lemma px_ex_out i j : (i < 2)%nat -> (j < 2)%nat -> circle_px O (1/2) 2 1 1 false i j = false.
Proof.
  intros Hi Hj. apply not_true_is_false. rewrite circle_px_spec, (px_ex i j Hi Hj). lra.
Qed.
Lemma px_ex_in i j : (i < 2)%nat -> (j < 2)%nat -> circle_px O 1 2 1 1 false i j = true.
Proof. intros Hi Hj. rewrite circle_px_spec, (px_ex i j Hi Hj). lra. Qed.

(* the first radius gives the node (0, 0) -- a repeated abscissa 0 -- and the second one the full energy *)
Example ee_ex_first_node : ee_diam data_ex 1 1 (1/2) = 0 /\ ee_val G K data_ex 1 1 (1/2) = 0.
Proof.
  assert (Hd : ee_diam data_ex 1 1 (1/2) = 0).
  { unfold ee_diam. change (2 * (length data_ex / 2))%nat with 2%nat. rewrite mask_count_rsum.
    rewrite rsum_zero_ext.
    - replace (0 * 4 / PI) with 0 by (unfold Rdiv; ring). apply sqrt_0.
    - intros i Hi. apply rsum_zero_ext. intros j Hj. rewrite px_ex_out by assumption. reflexivity. }
  split; [exact Hd|]. apply (diameter_zero_energy_zero 2); [exact data_ex_wf|exact Hd].
Qed.
Example ee_ex_second_node : 0 < ee_diam data_ex 1 1 1 /\ ee_val G K data_ex 1 1 1 = 1.
Proof.
  split.
  - unfold ee_diam. change (2 * (length data_ex / 2))%nat with 2%nat. rewrite mask_count_rsum.
    cbn [rsum]. rewrite !px_ex_in by lia. apply sqrt_lt_R0. pose proof PI_RGT_0.
    apply Rmult_lt_0_compat; [lra|]. apply Rinv_0_lt_compat. assumption.
  - unfold ee_val. change (2 * (length data_ex / 2))%nat with (2 * (2 / 2))%nat.
    rewrite (ee_num_rsum G K 2 data_ex 1 1 data_ex_wf), data_ex_total.
    change (2 * (2 / 2))%nat with 2%nat. cbn [rsum]. rewrite !px_ex_in by lia.
    unfold ent, data_ex. cbn [nth]. field.
Qed.

(* the theorems instantiated: 4 samples on [0, 1], starting at (0,0), values within [0,1] and non-decreasing *)
Example ee_ex_length : length (ee_interp O data_ex 1 1 rads_ex) = 4%nat.
Proof. apply ee_interp_length. Qed.
Example ee_ex_start : hd_error (ee_interp O data_ex 1 1 rads_ex) = Some (0, 0).
Proof. apply (ee_interp_starts_at_zero 2); [exact data_ex_wf|simpl; lia]. Qed.
Example ee_ex_range q : In q (ee_interp O data_ex 1 1 rads_ex) -> 0 <= snd q <= 1.
Proof. exact (ee_interp_range 2 data_ex 1 1 rads_ex data_ex_wf data_ex_pos data_ex_tot q). Qed.
Example ee_ex_monotone : StronglySorted Rle (map snd (ee_interp O data_ex 1 1 rads_ex)).
Proof. exact (ee_interp_monotone 2 data_ex 1 1 rads_ex data_ex_wf data_ex_pos data_ex_tot rads_ex_sorted rads_ex_nonneg). Qed.
Example ee_ex_nodes : StronglySorted Rle (0 :: map fst (ee_curve O data_ex 1 1 rads_ex))
                      /\ StronglySorted Rle (0 :: map snd (ee_curve O data_ex 1 1 rads_ex)).
Proof.
  split; [exact (ee_nodes_x_sorted data_ex 1 1 rads_ex rads_ex_sorted rads_ex_nonneg)|].
  exact (ee_nodes_y_sorted 2 data_ex 1 1 rads_ex data_ex_wf data_ex_pos data_ex_tot rads_ex_sorted rads_ex_nonneg).
Qed.
Example ee_ex_diameter_zero : ee_diameter O data_ex 1 1 rads_ex 0 = 0.
Proof. apply (ee_diameter_zero_fraction 2); [exact data_ex_wf|simpl; lia]. Qed.

(* numpy.argmin([3, 1, 2, 1]) = 1: the first of the two minimisers *)
Example argmin_ex : argmin_first O [1; 2; 1] 1 0 3 = 1%nat.
Proof.
  repeat (rewrite argmin_first_cons; match goal with |- context [Rlt_dec ?a ?b] => destruct (Rlt_dec a b); try (exfalso; lra) end).
  reflexivity.
Qed.

End C16EE.

Print Assumptions np_interp_bounds.
Print Assumptions np_interp_monotone.
Print Assumptions np_interp_at_node.
Print Assumptions np_interp_right.
Print Assumptions ee_nodes_x_sorted.
Print Assumptions ee_interp_range.
Print Assumptions ee_interp_monotone.
Print Assumptions ee_interp_starts_at_zero.
Print Assumptions argmin_first_spec.
Print Assumptions ee_diameter_spec.
