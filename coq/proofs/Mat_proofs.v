(* Matrix algebra over R for the row-major list matrices of model/Mat.v, at the real instance
   ROps G K.  Entries, explicit finite sums, product/transposition/identity laws, bilinearity of
   the dot product, quadratic forms. *)
From Coq Require Import ZArith Reals Bool List Arith Lra Lia.
Require Import AOV.base.Num AOV.base.NumR AOV.base.RpowTac AOV.base.Cplx AOV.model.Mat
               AOV.proofs.Dft_proofs.
Import ListNotations.
Local Open Scope R_scope.

(* ------------------------------------------------------------------------------------------ *)
(* entries and finite sums                                                                     *)
(* ------------------------------------------------------------------------------------------ *)

Definition ent (A : list (list R)) (i j : nat) : R := nth j (nth i A []) 0.

Fixpoint rsum (f : nat -> R) (n : nat) : R :=
  match n with
  | 0%nat => 0
  | S m => rsum f m + f m
  end.

Lemma rsum_ext f g n : (forall i, (i < n)%nat -> f i = g i) -> rsum f n = rsum g n.
Proof.
  induction n as [|n IH]; intros H; [reflexivity|]. cbn [rsum].
  rewrite IH by (intros; apply H; lia). rewrite H by lia. reflexivity.
Qed.

Lemma rsum_zero n : rsum (fun _ => 0) n = 0.
Proof. induction n as [|n IH]; cbn [rsum]; [reflexivity|]. rewrite IH. lra. Qed.

Lemma rsum_zero_ext f n : (forall i, (i < n)%nat -> f i = 0) -> rsum f n = 0.
Proof. intros H. rewrite (rsum_ext f (fun _ => 0) n H). apply rsum_zero. Qed.

Lemma rsum_add f g n : rsum (fun i => f i + g i) n = rsum f n + rsum g n.
Proof. induction n as [|n IH]; cbn [rsum]; [lra|]. rewrite IH. lra. Qed.

Lemma rsum_sub f g n : rsum (fun i => f i - g i) n = rsum f n - rsum g n.
Proof. induction n as [|n IH]; cbn [rsum]; [lra|]. rewrite IH. lra. Qed.

Lemma rsum_scal_l a f n : rsum (fun i => a * f i) n = a * rsum f n.
Proof. induction n as [|n IH]; cbn [rsum]; [lra|]. rewrite IH. lra. Qed.

Lemma rsum_scal_r a f n : rsum (fun i => f i * a) n = rsum f n * a.
Proof. induction n as [|n IH]; cbn [rsum]; [lra|]. rewrite IH. lra. Qed.

Lemma rsum_exch (f : nat -> nat -> R) n m :
  rsum (fun i => rsum (fun j => f i j) m) n = rsum (fun j => rsum (fun i => f i j) n) m.
Proof.
  induction n as [|n IH]; cbn [rsum].
  - symmetry. apply rsum_zero.
  - rewrite IH, <- rsum_add. reflexivity.
Qed.

Lemma rsum_S_l f n : rsum f (S n) = f 0%nat + rsum (fun i => f (S i)) n.
Proof.
  induction n as [|n IH]; [cbn [rsum]; lra|].
  change (rsum f (S (S n))) with (rsum f (S n) + f (S n)). rewrite IH. cbn [rsum]. lra.
Qed.

Lemma rsum_single f n m : (m < n)%nat ->
  (forall k, (k < n)%nat -> k <> m -> f k = 0) -> rsum f n = f m.
Proof.
  induction n as [|n IH]; intros Hm H; [lia|]. cbn [rsum].
  destruct (Nat.eq_dec m n) as [->|Hne].
  - rewrite rsum_zero_ext by (intros; apply H; lia). lra.
  - rewrite IH by (try lia; intros; apply H; lia). rewrite (H n) by lia. lra.
Qed.

Lemma rsum_nonneg f n : (forall i, (i < n)%nat -> 0 <= f i) -> 0 <= rsum f n.
Proof.
  induction n as [|n IH]; intros H; cbn [rsum]; [lra|].
  assert (0 <= rsum f n) by (apply IH; intros; apply H; lia).
  assert (0 <= f n) by (apply H; lia). lra.
Qed.

(* ------------------------------------------------------------------------------------------ *)
(* generic list facts                                                                          *)
(* ------------------------------------------------------------------------------------------ *)

Lemma nth_map2 {A B C} (f : A -> B -> C) (a : list A) (b : list B) i d da db :
  (i < length a)%nat -> (i < length b)%nat ->
  nth i (map2 f a b) d = f (nth i a da) (nth i b db).
Proof.
  revert b i; induction a as [|x a IH]; intros [|y b] i Ha Hb; simpl in Ha, Hb; try lia.
  destruct i as [|i]; cbn [map2 nth]; [reflexivity|]. apply IH; lia.
Qed.

Lemma vec_ext n (a b : list R) : length a = n -> length b = n ->
  (forall i, (i < n)%nat -> nth i a 0 = nth i b 0) -> a = b.
Proof.
  intros Ha Hb H. apply (nth_ext _ _ 0 0); [lia|]. intros i Hi. apply H. lia.
Qed.

Lemma wf_map_seq {A} r c (f : nat -> list A) :
  (forall i, (i < r)%nat -> length (f i) = c) -> wf_mat r c (map f (seq 0 r)).
Proof.
  intros H. split; [rewrite map_length, seq_length; reflexivity|].
  apply Forall_forall. intros row Hrow. apply in_map_iff in Hrow. destruct Hrow as [i [<- Hi]].
  apply in_seq in Hi. apply H. lia.
Qed.

Lemma wf_map_rows {A B} (F : list A -> list B) r c c' m :
  (forall x, length x = c -> length (F x) = c') -> wf_mat r c m -> wf_mat r c' (map F m).
Proof.
  intros HF [Hl Hf]. split; [rewrite map_length; exact Hl|].
  apply Forall_forall. intros row Hrow. apply in_map_iff in Hrow. destruct Hrow as [x [<- Hx]].
  apply HF. rewrite Forall_forall in Hf. apply Hf. exact Hx.
Qed.

Lemma wf_firstn {A} r c k (m : list (list A)) : wf_mat r c m -> (k <= r)%nat -> wf_mat k c (firstn k m).
Proof.
  intros [Hl Hf] Hk. split; [rewrite firstn_length; lia|].
  apply Forall_forall. intros row Hrow. rewrite Forall_forall in Hf. apply Hf.
  rewrite <- (firstn_skipn k m). apply in_or_app. left. exact Hrow.
Qed.

Lemma wf_skipn {A} r c k (m : list (list A)) : wf_mat r c m -> wf_mat (r - k) c (skipn k m).
Proof.
  intros [Hl Hf]. split; [rewrite skipn_length; lia|].
  apply Forall_forall. intros row Hrow. rewrite Forall_forall in Hf. apply Hf.
  rewrite <- (firstn_skipn k m). apply in_or_app. right. exact Hrow.
Qed.

Lemma wf_map_firstn {A} r c k (m : list (list A)) :
  wf_mat r c m -> (k <= c)%nat -> wf_mat r k (map (firstn k) m).
Proof.
  intros H Hk. apply (wf_map_rows _ r c k); [|exact H]. intros x Hx. rewrite firstn_length. lia.
Qed.

Lemma wf_map_skipn {A} r c k (m : list (list A)) :
  wf_mat r c m -> wf_mat r (c - k) (map (skipn k) m).
Proof.
  intros H. apply (wf_map_rows _ r c (c - k)); [|exact H]. intros x Hx. rewrite skipn_length. lia.
Qed.

Lemma wf_mslice {A} r c r0 r1 c0 c1 (m : list (list A)) :
  wf_mat r c m -> (r1 <= r)%nat -> (c1 <= c)%nat ->
  wf_mat (r1 - r0) (c1 - c0) (mslice m r0 r1 c0 c1).
Proof.
  intros H Hr Hc. unfold mslice. apply (wf_map_rows _ (r1 - r0) c (c1 - c0)).
  - intros x Hx. rewrite firstn_length, skipn_length. lia.
  - apply (wf_firstn (r - r0)); [apply wf_skipn; exact H | lia].
Qed.

Lemma ent_firstn_rows (m : list (list R)) k i j : (i < k)%nat -> ent (firstn k m) i j = ent m i j.
Proof. intros H. unfold ent. rewrite nth_firstn' by exact H. reflexivity. Qed.

Lemma ent_skipn_rows (m : list (list R)) k i j : ent (skipn k m) i j = ent m (k + i) j.
Proof. unfold ent. rewrite nth_skipn'. reflexivity. Qed.

Lemma ent_map_firstn (m : list (list R)) k i j : (i < length m)%nat -> (j < k)%nat ->
  ent (map (firstn k) m) i j = ent m i j.
Proof.
  intros Hi Hj. unfold ent. rewrite (nth_map_lt _ m i [] []) by exact Hi. apply nth_firstn'. exact Hj.
Qed.

Lemma ent_map_skipn (m : list (list R)) k i j : (i < length m)%nat ->
  ent (map (skipn k) m) i j = ent m i (k + j).
Proof.
  intros Hi. unfold ent. rewrite (nth_map_lt _ m i [] []) by exact Hi. apply nth_skipn'.
Qed.

Lemma ent_mslice r c r0 r1 c0 c1 (m : list (list R)) i j :
  wf_mat r c m -> (r1 <= r)%nat -> (i < r1 - r0)%nat -> (j < c1 - c0)%nat ->
  ent (mslice m r0 r1 c0 c1) i j = ent m (r0 + i) (c0 + j).
Proof.
  intros [Hl _] Hr Hi Hj. unfold mslice, ent.
  rewrite (nth_map_lt _ _ i [] []) by (rewrite firstn_length, skipn_length; lia).
  rewrite nth_firstn' by exact Hj. rewrite nth_skipn'.
  rewrite nth_firstn' by exact Hi. rewrite nth_skipn'. reflexivity.
Qed.

Lemma mat_eq r c (A B : list (list R)) : wf_mat r c A -> wf_mat r c B ->
  (forall i j, (i < r)%nat -> (j < c)%nat -> ent A i j = ent B i j) -> A = B.
Proof. intros HA HB H. apply (mat_ext 0 r c); assumption. Qed.

Lemma ent_transpose' r c (A : list (list R)) i j : wf_mat r c A -> (i < r)%nat -> (j < c)%nat ->
  ent (transpose A) j i = ent A i j.
Proof. intros. unfold ent. apply (ent_transpose 0 r c); assumption. Qed.

Lemma wf_row_length {A} r c (m : list (list A)) i : wf_mat r c m -> (i < r)%nat -> length (nth i m []) = c.
Proof. apply wf_nth_length. Qed.

(* ------------------------------------------------------------------------------------------ *)
(* the real instance                                                                           *)
(* ------------------------------------------------------------------------------------------ *)

Section MatR.
Variables (G : R -> R) (K : R -> R -> R).
Local Notation O := (ROps G K).
Local Notation mat := (list (list R)).

(* ---- dot product ---- *)

Lemma ndot_nil_l b : ndot O [] b = 0.
Proof. reflexivity. Qed.

Lemma ndot_nil_r a : ndot O a [] = 0.
Proof. destruct a; reflexivity. Qed.

Lemma ndot_cons x a y b : ndot O (x :: a) (y :: b) = x * y + ndot O a b.
Proof. unfold ndot. cbn [map2]. rewrite nsum_R_cons. reflexivity. Qed.

Lemma ndot_rsum n a b : length a = n -> length b = n ->
  ndot O a b = rsum (fun k => nth k a 0 * nth k b 0) n.
Proof.
  revert a b; induction n as [|n IH]; intros a b Ha Hb.
  - destruct a; [|discriminate]. reflexivity.
  - destruct a as [|x a]; [discriminate|]. destruct b as [|y b]; [discriminate|].
    rewrite ndot_cons, rsum_S_l. cbn [nth]. f_equal. apply IH; simpl in *; lia.
Qed.

Lemma nsum_rsum l : nsum O l = rsum (fun k => nth k l 0) (length l).
Proof.
  induction l as [|x l IH]; [reflexivity|].
  rewrite nsum_R_cons. cbn [length]. rewrite rsum_S_l. cbn [nth]. f_equal. exact IH.
Qed.

Lemma ndot_comm a b : ndot O a b = ndot O b a.
Proof.
  revert b; induction a as [|x a IH]; intros [|y b]; try reflexivity.
  rewrite !ndot_cons, IH. lra.
Qed.

Lemma vadd_length a b : length a = length b -> length (vadd O a b) = length a.
Proof. apply map2_length_eq. Qed.

Lemma vsub_length a b : length a = length b -> length (vsub O a b) = length a.
Proof. apply map2_length_eq. Qed.

Lemma vscale_length s a : length (vscale O s a) = length a.
Proof. apply map_length. Qed.

Lemma nth_vadd a b i : (i < length a)%nat -> (i < length b)%nat ->
  nth i (vadd O a b) 0 = nth i a 0 + nth i b 0.
Proof. intros. unfold vadd. apply (nth_map2 (nadd O)); assumption. Qed.

Lemma nth_vsub a b i : (i < length a)%nat -> (i < length b)%nat ->
  nth i (vsub O a b) 0 = nth i a 0 - nth i b 0.
Proof. intros. unfold vsub. apply (nth_map2 (nsub O)); assumption. Qed.

Lemma nth_vscale s a i : nth i (vscale O s a) 0 = s * nth i a 0.
Proof.
  unfold vscale. destruct (Nat.lt_ge_cases i (length a)) as [Hi|Hi].
  - apply (nth_map_lt (nmul O s) a i 0 0). exact Hi.
  - rewrite !nth_overflow by (try rewrite map_length; lia). lra.
Qed.

Lemma ndot_vadd_l a b c : length a = length b -> length a = length c ->
  ndot O (vadd O a b) c = ndot O a c + ndot O b c.
Proof.
  intros Hb Hc. rewrite !(ndot_rsum (length a)) by (try rewrite vadd_length; lia).
  rewrite <- rsum_add. apply rsum_ext. intros i Hi. rewrite nth_vadd by lia. lra.
Qed.

Lemma ndot_vsub_l a b c : length a = length b -> length a = length c ->
  ndot O (vsub O a b) c = ndot O a c - ndot O b c.
Proof.
  intros Hb Hc. rewrite !(ndot_rsum (length a)) by (try rewrite vsub_length; lia).
  rewrite <- rsum_sub. apply rsum_ext. intros i Hi. rewrite nth_vsub by lia. lra.
Qed.

Lemma ndot_vscale_l s a c : ndot O (vscale O s a) c = s * ndot O a c.
Proof.
  revert c; induction a as [|x a IH]; intros [|y c]; cbn [vscale map];
    rewrite ?ndot_nil_l, ?ndot_nil_r; try lra.
  rewrite !ndot_cons. fold (vscale O s a). rewrite IH. rops. lra.
Qed.

Lemma ndot_vadd_r a b c : length b = length c -> length a = length b ->
  ndot O a (vadd O b c) = ndot O a b + ndot O a c.
Proof. intros. rewrite ndot_comm, ndot_vadd_l by lia. rewrite (ndot_comm b), (ndot_comm c). reflexivity. Qed.

Lemma ndot_vsub_r a b c : length b = length c -> length a = length b ->
  ndot O a (vsub O b c) = ndot O a b - ndot O a c.
Proof. intros. rewrite ndot_comm, ndot_vsub_l by lia. rewrite (ndot_comm b), (ndot_comm c). reflexivity. Qed.

Lemma ndot_vscale_r s a c : ndot O a (vscale O s c) = s * ndot O a c.
Proof. rewrite ndot_comm, ndot_vscale_l, ndot_comm. reflexivity. Qed.

(* ---- shapes ---- *)

Lemma wf_mmul r c p (A B : mat) : wf_mat r c A -> wf_mat c p B -> (0 < c)%nat ->
  wf_mat r p (mmul O A B).
Proof.
  intros HA HB Hc. unfold mmul. apply (wf_map_rows _ r c p); [|exact HA].
  intros x _. rewrite map_length. destruct (wf_transpose c p B HB Hc) as [Hl _]. exact Hl.
Qed.

Lemma wf_map2 (f : R -> R -> R) r c (A B : mat) : wf_mat r c A -> wf_mat r c B ->
  wf_mat r c (map2 (map2 f) A B).
Proof.
  intros [HlA HfA] [HlB HfB]. split; [rewrite map2_length_eq; lia|].
  apply Forall_forall. intros row Hrow.
  destruct (In_nth _ _ [] Hrow) as [i [Hi Hnth]]. rewrite map2_length_eq in Hi by lia.
  rewrite (nth_map2 _ A B i [] [] []) in Hnth by lia. subst row.
  rewrite Forall_forall in HfA, HfB.
  rewrite map2_length_eq; [apply HfA; apply nth_In; lia|].
  rewrite HfA by (apply nth_In; lia). rewrite HfB by (apply nth_In; lia). reflexivity.
Qed.

Lemma wf_madd r c (A B : mat) : wf_mat r c A -> wf_mat r c B -> wf_mat r c (madd O A B).
Proof. apply wf_map2. Qed.

Lemma wf_msub r c (A B : mat) : wf_mat r c A -> wf_mat r c B -> wf_mat r c (msub O A B).
Proof. apply wf_map2. Qed.

Lemma wf_mident n : wf_mat n n (mident O n).
Proof. unfold mident. apply wf_map_seq. intros i _. rewrite map_length, seq_length. reflexivity. Qed.

Lemma wf_mdiag n d : length d = n -> wf_mat n n (mdiag O d).
Proof.
  intros <-. unfold mdiag. apply wf_map_seq. intros i _. rewrite map_length, seq_length. reflexivity.
Qed.

Lemma mvec_length (A : mat) v : length (mvec O A v) = length A.
Proof. apply map_length. Qed.

(* ---- entries ---- *)

Lemma ent_mmul r c p (A B : mat) i j :
  wf_mat r c A -> wf_mat c p B -> (0 < c)%nat -> (i < r)%nat -> (j < p)%nat ->
  ent (mmul O A B) i j = rsum (fun k => ent A i k * ent B k j) c.
Proof.
  intros HA HB Hc Hi Hj. unfold ent at 1, mmul.
  rewrite (nth_map_lt _ A i [] []) by (destruct HA; lia).
  pose proof (wf_transpose c p B HB Hc) as HT.
  rewrite (nth_map_lt _ (transpose B) j 0 []) by (destruct HT; lia).
  rewrite (ndot_rsum c).
  - apply rsum_ext. intros k Hk. unfold ent. f_equal. apply (ent_transpose 0 c p B k j); assumption.
  - apply (wf_nth_length r c); assumption.
  - apply (wf_nth_length p c); assumption.
Qed.

Lemma ent_map2 (f : R -> R -> R) r c (A B : mat) i j :
  wf_mat r c A -> wf_mat r c B -> (i < r)%nat -> (j < c)%nat ->
  ent (map2 (map2 f) A B) i j = f (ent A i j) (ent B i j).
Proof.
  intros HA HB Hi Hj. unfold ent.
  rewrite (nth_map2 _ A B i [] [] []) by (destruct HA, HB; lia).
  apply nth_map2.
  - rewrite (wf_nth_length r c A i HA Hi). exact Hj.
  - rewrite (wf_nth_length r c B i HB Hi). exact Hj.
Qed.

Lemma ent_madd r c (A B : mat) i j :
  wf_mat r c A -> wf_mat r c B -> (i < r)%nat -> (j < c)%nat ->
  ent (madd O A B) i j = ent A i j + ent B i j.
Proof. apply (ent_map2 Rplus). Qed.

Lemma ent_msub r c (A B : mat) i j :
  wf_mat r c A -> wf_mat r c B -> (i < r)%nat -> (j < c)%nat ->
  ent (msub O A B) i j = ent A i j - ent B i j.
Proof. apply (ent_map2 Rminus). Qed.

Lemma ent_mident n i j : (i < n)%nat -> (j < n)%nat ->
  ent (mident O n) i j = if Nat.eqb i j then 1 else 0.
Proof.
  intros Hi Hj. unfold ent, mident. rewrite (nth_map_seq _ n i []) by exact Hi.
  rewrite nth_map_seq by exact Hj. reflexivity.
Qed.

Lemma ent_mdiag d i j : (i < length d)%nat -> (j < length d)%nat ->
  ent (mdiag O d) i j = if Nat.eqb i j then nth i d 0 else 0.
Proof.
  intros Hi Hj. unfold ent, mdiag. rewrite (nth_map_seq _ (length d) i []) by exact Hi.
  rewrite nth_map_seq by exact Hj. reflexivity.
Qed.

Lemma nth_mvec (A : mat) v i : (i < length A)%nat -> nth i (mvec O A v) 0 = ndot O (nth i A []) v.
Proof. intros Hi. unfold mvec. apply (nth_map_lt (fun row => ndot O row v) A i 0 []). exact Hi. Qed.

Lemma nth_mvec_rsum r c (A : mat) v i : wf_mat r c A -> length v = c -> (i < r)%nat ->
  nth i (mvec O A v) 0 = rsum (fun k => ent A i k * nth k v 0) c.
Proof.
  intros HA Hv Hi. rewrite nth_mvec by (destruct HA; lia).
  apply ndot_rsum; [apply (wf_nth_length r c); assumption | exact Hv].
Qed.

(* rows of a product *)
Lemma mmul_rows (A B : mat) : mmul O A B = map (fun row => mvec O (transpose B) row) A.
Proof.
  unfold mmul, mvec. apply map_ext. intros row. apply map_ext. intros col. apply ndot_comm.
Qed.

Lemma nth_mmul_row r c (A B : mat) i : wf_mat r c A -> (i < r)%nat ->
  nth i (mmul O A B) [] = mvec O (transpose B) (nth i A []).
Proof.
  intros [Hl _] Hi. rewrite mmul_rows.
  rewrite (nth_map_lt _ A i [] []) by lia. reflexivity.
Qed.

(* ---- product laws ---- *)

Theorem mmul_assoc r c p q (A B C : mat) :
  wf_mat r c A -> wf_mat c p B -> wf_mat p q C -> (0 < c)%nat -> (0 < p)%nat ->
  mmul O (mmul O A B) C = mmul O A (mmul O B C).
Proof.
  intros HA HB HC Hc Hp.
  pose proof (wf_mmul r c p A B HA HB Hc) as HAB.
  pose proof (wf_mmul c p q B C HB HC Hp) as HBC.
  apply (mat_eq r q); [apply (wf_mmul r p q); assumption | apply (wf_mmul r c q); assumption |].
  intros i j Hi Hj.
  rewrite (ent_mmul r p q) by assumption. rewrite (ent_mmul r c q) by assumption.
  rewrite (rsum_ext _ (fun l => rsum (fun k => ent A i k * ent B k l * ent C l j) c) p).
  2:{ intros l Hl. rewrite (ent_mmul r c p) by assumption. rewrite <- rsum_scal_r. reflexivity. }
  rewrite rsum_exch. apply rsum_ext. intros k Hk.
  rewrite (ent_mmul c p q) by assumption. rewrite <- rsum_scal_l.
  apply rsum_ext. intros l Hl. lra.
Qed.

Theorem mmul_ident_l r c (A : mat) : wf_mat r c A -> mmul O (mident O r) A = A.
Proof.
  intros HA. destruct (Nat.eq_dec r 0) as [->|Hr].
  - destruct HA as [Hl _]. destruct A; [reflexivity|discriminate].
  - apply (mat_eq r c); [apply (wf_mmul r r c); try assumption; try lia; apply wf_mident | exact HA |].
    intros i j Hi Hj. rewrite (ent_mmul r r c) by (try assumption; try lia; apply wf_mident).
    rewrite (rsum_single _ r i Hi).
    + rewrite ent_mident by assumption. rewrite Nat.eqb_refl. lra.
    + intros k Hk Hne. rewrite ent_mident by assumption.
      destruct (Nat.eqb_spec i k); [congruence|]. lra.
Qed.

Theorem mmul_ident_r r c (A : mat) : wf_mat r c A -> (0 < c)%nat -> mmul O A (mident O c) = A.
Proof.
  intros HA Hc.
  apply (mat_eq r c); [apply (wf_mmul r c c); try assumption; apply wf_mident | exact HA |].
  intros i j Hi Hj. rewrite (ent_mmul r c c) by (try assumption; apply wf_mident).
  rewrite (rsum_single _ c j Hj).
  - rewrite ent_mident by assumption. rewrite Nat.eqb_refl. lra.
  - intros k Hk Hne. rewrite ent_mident by assumption.
    destruct (Nat.eqb_spec k j); [congruence|]. lra.
Qed.

Theorem transpose_mmul r c p (A B : mat) :
  wf_mat r c A -> wf_mat c p B -> (0 < r)%nat -> (0 < c)%nat -> (0 < p)%nat ->
  transpose (mmul O A B) = mmul O (transpose B) (transpose A).
Proof.
  intros HA HB Hr Hc Hp.
  pose proof (wf_mmul r c p A B HA HB Hc) as HAB.
  pose proof (wf_transpose r c A HA Hr) as HAt.
  pose proof (wf_transpose c p B HB Hc) as HBt.
  apply (mat_eq p r); [apply wf_transpose; assumption | apply (wf_mmul p c r); assumption |].
  intros i j Hi Hj.
  rewrite (ent_transpose' r p) by assumption.
  rewrite (ent_mmul r c p) by assumption. rewrite (ent_mmul p c r) by assumption.
  apply rsum_ext. intros k Hk.
  rewrite (ent_transpose' c p B k i) by assumption.
  rewrite (ent_transpose' r c A j k) by assumption. lra.
Qed.

Theorem mmul_madd_distr_l r c p (A B C : mat) :
  wf_mat r c A -> wf_mat c p B -> wf_mat c p C -> (0 < c)%nat ->
  mmul O A (madd O B C) = madd O (mmul O A B) (mmul O A C).
Proof.
  intros HA HB HC Hc.
  pose proof (wf_madd c p B C HB HC) as HBC.
  pose proof (wf_mmul r c p A B HA HB Hc) as HAB.
  pose proof (wf_mmul r c p A C HA HC Hc) as HAC.
  apply (mat_eq r p); [apply (wf_mmul r c p); assumption | apply wf_madd; assumption |].
  intros i j Hi Hj. rewrite (ent_madd r p) by assumption.
  rewrite !(ent_mmul r c p) by assumption. rewrite <- rsum_add. apply rsum_ext. intros k Hk.
  rewrite (ent_madd c p) by assumption. lra.
Qed.

Theorem mmul_madd_distr_r r c p (A B C : mat) :
  wf_mat r c A -> wf_mat r c B -> wf_mat c p C -> (0 < c)%nat ->
  mmul O (madd O A B) C = madd O (mmul O A C) (mmul O B C).
Proof.
  intros HA HB HC Hc.
  pose proof (wf_madd r c A B HA HB) as HAB.
  pose proof (wf_mmul r c p A C HA HC Hc) as HAC.
  pose proof (wf_mmul r c p B C HB HC Hc) as HBC.
  apply (mat_eq r p); [apply (wf_mmul r c p); assumption | apply wf_madd; assumption |].
  intros i j Hi Hj. rewrite (ent_madd r p) by assumption.
  rewrite !(ent_mmul r c p) by assumption. rewrite <- rsum_add. apply rsum_ext. intros k Hk.
  rewrite (ent_madd r c) by assumption. lra.
Qed.

Theorem mmul_msub_distr_l r c p (A B C : mat) :
  wf_mat r c A -> wf_mat c p B -> wf_mat c p C -> (0 < c)%nat ->
  mmul O A (msub O B C) = msub O (mmul O A B) (mmul O A C).
Proof.
  intros HA HB HC Hc.
  pose proof (wf_msub c p B C HB HC) as HBC.
  pose proof (wf_mmul r c p A B HA HB Hc) as HAB.
  pose proof (wf_mmul r c p A C HA HC Hc) as HAC.
  apply (mat_eq r p); [apply (wf_mmul r c p); assumption | apply wf_msub; assumption |].
  intros i j Hi Hj. rewrite (ent_msub r p) by assumption.
  rewrite !(ent_mmul r c p) by assumption. rewrite <- rsum_sub. apply rsum_ext. intros k Hk.
  rewrite (ent_msub c p) by assumption. lra.
Qed.

Theorem mmul_msub_distr_r r c p (A B C : mat) :
  wf_mat r c A -> wf_mat r c B -> wf_mat c p C -> (0 < c)%nat ->
  mmul O (msub O A B) C = msub O (mmul O A C) (mmul O B C).
Proof.
  intros HA HB HC Hc.
  pose proof (wf_msub r c A B HA HB) as HAB.
  pose proof (wf_mmul r c p A C HA HC Hc) as HAC.
  pose proof (wf_mmul r c p B C HB HC Hc) as HBC.
  apply (mat_eq r p); [apply (wf_mmul r c p); assumption | apply wf_msub; assumption |].
  intros i j Hi Hj. rewrite (ent_msub r p) by assumption.
  rewrite !(ent_mmul r c p) by assumption. rewrite <- rsum_sub. apply rsum_ext. intros k Hk.
  rewrite (ent_msub r c) by assumption. lra.
Qed.

(* ---- additive laws ---- *)

Lemma madd_comm r c (A B : mat) : wf_mat r c A -> wf_mat r c B -> madd O A B = madd O B A.
Proof.
  intros HA HB. apply (mat_eq r c); try (apply wf_madd; assumption).
  intros i j Hi Hj. rewrite !(ent_madd r c) by assumption. lra.
Qed.

Lemma madd_assoc r c (A B C : mat) : wf_mat r c A -> wf_mat r c B -> wf_mat r c C ->
  madd O (madd O A B) C = madd O A (madd O B C).
Proof.
  intros HA HB HC. apply (mat_eq r c); try (repeat apply wf_madd; assumption).
  intros i j Hi Hj. rewrite !(ent_madd r c) by (try apply wf_madd; assumption). lra.
Qed.

Lemma madd_msub_cancel r c (X Y : mat) : wf_mat r c X -> wf_mat r c Y ->
  madd O X (msub O Y X) = Y.
Proof.
  intros HX HY. apply (mat_eq r c); [apply wf_madd; try apply wf_msub; assumption | exact HY |].
  intros i j Hi Hj. rewrite (ent_madd r c) by (try apply wf_msub; assumption).
  rewrite (ent_msub r c) by assumption. lra.
Qed.

Lemma msub_madd_cancel r c (X Y : mat) : wf_mat r c X -> wf_mat r c Y ->
  madd O (msub O Y X) X = Y.
Proof.
  intros HX HY. apply (mat_eq r c); [apply wf_madd; try apply wf_msub; assumption | exact HY |].
  intros i j Hi Hj. rewrite (ent_madd r c) by (try apply wf_msub; assumption).
  rewrite (ent_msub r c) by assumption. lra.
Qed.

Lemma msub_self_ent r c (X : mat) i j : wf_mat r c X -> (i < r)%nat -> (j < c)%nat ->
  ent (msub O X X) i j = 0.
Proof. intros. rewrite (ent_msub r c) by assumption. lra. Qed.

Lemma transpose_madd r c (A B : mat) : wf_mat r c A -> wf_mat r c B ->
  transpose (madd O A B) = madd O (transpose A) (transpose B).
Proof. apply transpose_map2. Qed.

Lemma transpose_msub r c (A B : mat) : wf_mat r c A -> wf_mat r c B ->
  transpose (msub O A B) = msub O (transpose A) (transpose B).
Proof. apply transpose_map2. Qed.

(* ---- identity and diagonal matrices are symmetric ---- *)

Lemma msym_ent n (A : mat) : wf_mat n n A -> (0 < n)%nat ->
  (msym A <-> forall i j, (i < n)%nat -> (j < n)%nat -> ent A i j = ent A j i).
Proof.
  intros HA Hn. unfold msym. split.
  - intros H i j Hi Hj. rewrite <- H at 1. apply (ent_transpose' n n); assumption.
  - intros H. apply (mat_eq n n); [apply wf_transpose; assumption | exact HA |].
    intros i j Hi Hj. rewrite (ent_transpose' n n) by assumption. apply H; assumption.
Qed.

Lemma msym_mident n : msym (mident O n).
Proof.
  destruct (Nat.eq_dec n 0) as [->|Hn]; [reflexivity|].
  apply (msym_ent n); [apply wf_mident | lia |].
  intros i j Hi Hj. rewrite !ent_mident by assumption. rewrite (Nat.eqb_sym j i). reflexivity.
Qed.

Lemma msym_mdiag d : msym (mdiag O d).
Proof.
  destruct (Nat.eq_dec (length d) 0) as [H0|Hn].
  - destruct d; [reflexivity|discriminate].
  - apply (msym_ent (length d)); [apply wf_mdiag; reflexivity | lia |].
    intros i j Hi Hj. rewrite !ent_mdiag by assumption. rewrite (Nat.eqb_sym j i).
    destruct (Nat.eqb_spec i j); [subst; reflexivity | reflexivity].
Qed.

Lemma mdiag_mmul a b : length a = length b -> (0 < length a)%nat ->
  mmul O (mdiag O a) (mdiag O b) = mdiag O (map2 Rmult a b).
Proof.
  intros Hab Hn. set (n := length a).
  assert (Hl : length (map2 Rmult a b) = n) by (apply map2_length_eq; exact Hab).
  pose proof (wf_mdiag n a eq_refl) as Ha. pose proof (wf_mdiag n b (eq_sym Hab)) as Hb.
  apply (mat_eq n n); [apply (wf_mmul n n n); assumption | apply wf_mdiag; exact Hl |].
  intros i j Hi Hj. rewrite (ent_mmul n n n) by assumption.
  rewrite (rsum_single _ n i Hi).
  - rewrite !ent_mdiag by (fold n; lia). rewrite Nat.eqb_refl.
    destruct (Nat.eqb_spec i j); [|lra]. subst j.
    rewrite (nth_map2 Rmult a b i 0 0 0) by (fold n; lia). reflexivity.
  - intros k Hk Hne. rewrite ent_mdiag by (fold n; lia).
    destruct (Nat.eqb_spec i k); [congruence|]. lra.
Qed.

(* ---- matrix-vector product ---- *)

Theorem mvec_mmul r c p (A B : mat) v :
  wf_mat r c A -> wf_mat c p B -> length v = p -> (0 < c)%nat ->
  mvec O (mmul O A B) v = mvec O A (mvec O B v).
Proof.
  intros HA HB Hv Hc.
  pose proof (wf_mmul r c p A B HA HB Hc) as HAB.
  assert (HlA : length A = r) by (destruct HA; assumption).
  assert (HlB : length B = c) by (destruct HB; assumption).
  apply (vec_ext r); [rewrite mvec_length; destruct HAB; assumption | rewrite mvec_length; exact HlA |].
  intros i Hi.
  rewrite (nth_mvec_rsum r p) by assumption.
  rewrite (nth_mvec_rsum r c) by (try assumption; rewrite mvec_length; exact HlB).
  rewrite (rsum_ext _ (fun l => rsum (fun k => ent A i k * ent B k l * nth l v 0) c) p).
  2:{ intros l Hl. rewrite (ent_mmul r c p) by assumption. rewrite <- rsum_scal_r. reflexivity. }
  rewrite rsum_exch. apply rsum_ext. intros k Hk.
  rewrite (nth_mvec_rsum c p) by assumption. rewrite <- rsum_scal_l.
  apply rsum_ext. intros l Hl. lra.
Qed.

Lemma mvec_mident n v : length v = n -> mvec O (mident O n) v = v.
Proof.
  intros Hv. pose proof (wf_mident n) as HI.
  apply (vec_ext n); [rewrite mvec_length; destruct HI; assumption | exact Hv |].
  intros i Hi. rewrite (nth_mvec_rsum n n) by assumption.
  rewrite (rsum_single _ n i Hi).
  - rewrite ent_mident by assumption. rewrite Nat.eqb_refl. lra.
  - intros k Hk Hne. rewrite ent_mident by assumption.
    destruct (Nat.eqb_spec i k); [congruence|]. lra.
Qed.

Lemma mvec_vadd r c (A : mat) u v : wf_mat r c A -> length u = c -> length v = c ->
  mvec O A (vadd O u v) = vadd O (mvec O A u) (mvec O A v).
Proof.
  intros HA Hu Hv. assert (HlA : length A = r) by (destruct HA; assumption).
  apply (vec_ext r); [rewrite mvec_length; exact HlA | rewrite vadd_length; rewrite !mvec_length; auto |].
  intros i Hi. rewrite nth_vadd by (rewrite mvec_length; lia).
  rewrite !nth_mvec by lia. apply ndot_vadd_r; [lia|].
  rewrite (wf_nth_length r c A i HA Hi). lia.
Qed.

Lemma mvec_vsub r c (A : mat) u v : wf_mat r c A -> length u = c -> length v = c ->
  mvec O A (vsub O u v) = vsub O (mvec O A u) (mvec O A v).
Proof.
  intros HA Hu Hv. assert (HlA : length A = r) by (destruct HA; assumption).
  apply (vec_ext r); [rewrite mvec_length; exact HlA | rewrite vsub_length; rewrite !mvec_length; auto |].
  intros i Hi. rewrite nth_vsub by (rewrite mvec_length; lia).
  rewrite !nth_mvec by lia. apply ndot_vsub_r; [lia|].
  rewrite (wf_nth_length r c A i HA Hi). lia.
Qed.

Lemma mvec_vscale (A : mat) s v : mvec O A (vscale O s v) = vscale O s (mvec O A v).
Proof.
  unfold mvec, vscale at 2. rewrite map_map. apply map_ext. intros row. apply ndot_vscale_r.
Qed.

(* ---- adjointness, symmetric matrices, quadratic forms ---- *)

Theorem ndot_mvec_transpose r c (A : mat) u v :
  wf_mat r c A -> length u = r -> length v = c -> (0 < r)%nat ->
  ndot O u (mvec O A v) = ndot O (mvec O (transpose A) u) v.
Proof.
  intros HA Hu Hv Hr. pose proof (wf_transpose r c A HA Hr) as HT.
  assert (HlA : length A = r) by (destruct HA; assumption).
  assert (HlT : length (transpose A) = c) by (destruct HT; assumption).
  rewrite (ndot_rsum r) by (try rewrite mvec_length; assumption).
  rewrite (ndot_rsum c) by (try rewrite mvec_length; assumption).
  rewrite (rsum_ext _ (fun i => rsum (fun j => nth i u 0 * ent A i j * nth j v 0) c) r).
  2:{ intros i Hi. rewrite (nth_mvec_rsum r c) by assumption. rewrite <- rsum_scal_l.
      apply rsum_ext. intros j Hj. lra. }
  rewrite rsum_exch. apply rsum_ext. intros j Hj.
  rewrite (nth_mvec_rsum c r) by assumption. rewrite <- rsum_scal_r.
  apply rsum_ext. intros i Hi. rewrite (ent_transpose' r c A i j) by assumption. lra.
Qed.

Theorem ndot_mvec_sym n (A : mat) u v :
  wf_mat n n A -> msym A -> length u = n -> length v = n ->
  ndot O u (mvec O A v) = ndot O v (mvec O A u).
Proof.
  intros HA Hs Hu Hv. destruct (Nat.eq_dec n 0) as [->|Hn].
  - destruct u; [|discriminate]. destruct v; [|discriminate]. reflexivity.
  - rewrite (ndot_mvec_transpose n n) by (try assumption; lia).
    unfold msym in Hs. rewrite Hs. apply ndot_comm.
Qed.

Theorem qform_vsub n (A : mat) u v :
  wf_mat n n A -> length u = n -> length v = n ->
  qform O A (vsub O u v)
  = qform O A u - ndot O u (mvec O A v) - ndot O v (mvec O A u) + qform O A v.
Proof.
  intros HA Hu Hv. unfold qform.
  assert (HlA : length A = n) by (destruct HA; assumption).
  rewrite (mvec_vsub n n) by assumption.
  rewrite ndot_vsub_l by (try rewrite vsub_length; rewrite ?mvec_length; lia).
  rewrite !ndot_vsub_r by (rewrite ?mvec_length; lia). lra.
Qed.

Theorem qform_vsub_sym n (A : mat) u v :
  wf_mat n n A -> msym A -> length u = n -> length v = n ->
  qform O A (vsub O u v) = qform O A u - 2 * ndot O u (mvec O A v) + qform O A v.
Proof.
  intros HA Hs Hu Hv. rewrite (qform_vsub n) by assumption.
  rewrite (ndot_mvec_sym n A v u) by assumption. lra.
Qed.

Theorem qform_vadd_sym n (A : mat) u v :
  wf_mat n n A -> msym A -> length u = n -> length v = n ->
  qform O A (vadd O u v) = qform O A u + 2 * ndot O u (mvec O A v) + qform O A v.
Proof.
  intros HA Hs Hu Hv. unfold qform.
  assert (HlA : length A = n) by (destruct HA; assumption).
  rewrite (mvec_vadd n n) by assumption.
  rewrite ndot_vadd_l by (try rewrite vadd_length; rewrite ?mvec_length; lia).
  rewrite !ndot_vadd_r by (rewrite ?mvec_length; lia).
  rewrite (ndot_mvec_sym n A v u) by assumption. lra.
Qed.

Lemma qform_vscale (A : mat) s v : qform O A (vscale O s v) = s * s * qform O A v.
Proof. unfold qform. rewrite mvec_vscale, ndot_vscale_l, ndot_vscale_r. lra. Qed.

End MatR.
