(* C07: the FFT phase screen of model/FtScreen.v as a linear map of its Gaussian draws:
   pixel formula, linearity, r0 scaling, ensemble covariance, stationarity, zero mean.
   Real-number reading, N = 2c even. *)
From Coq Require Import ZArith Reals Bool List Arith Lra Lia Psatz.
Require Import AOV.base.Num AOV.base.NumR AOV.base.RpowTac AOV.base.Cplx AOV.model.Fourier
               AOV.model.FtScreen AOV.proofs.Dft_proofs AOV.proofs.C09_proofs AOV.proofs.C10_proofs
               AOV.proofs.C07_lemmas.
Import ListNotations.
Local Open Scope R_scope.

(* entrywise matrix operations over R *)
Definition madd (a b : list (list R)) : list (list R) := map2 (map2 Rplus) a b.
Definition mscal (s : R) (a : list (list R)) : list (list R) := map (map (fun v => s * v)) a.
Definition unitm (N i j : nat) : list (list R) :=
  map (fun i' => map (fun j' => if Nat.eqb i' i && Nat.eqb j' j then 1 else 0) (seq 0 N)) (seq 0 N).
Definition zerom (N : nat) : list (list R) := map (fun _ => map (fun _ => 0) (seq 0 N)) (seq 0 N).

(* the centred phase 2 pi ((i-c)(y-c) + (j-c)(x-c)) / N *)
Definition ang (N c i y j x : nat) : R :=
  2 * PI * ((INR i - INR c) * (INR y - INR c) + (INR j - INR c) * (INR x - INR c)) / INR N.

Section C07.
Variables (G : R -> R) (K : R -> R -> R).
Local Notation O := (ROps G K).
Local Notation RC := (R * R)%type.

(* ------------------------------------------------------------------------------------------ *)
(* the spectrum                                                                                *)
(* ------------------------------------------------------------------------------------------ *)

Lemma psd_pos r0 L0 l0 fx fy : 0 < psd O r0 L0 l0 fx fy.
Proof. unfold psd. rops. pos. Qed.

Lemma psd_r0_scale s r0 L0 l0 fx fy : 0 < s -> 0 < r0 ->
  psd O (s * r0) L0 l0 fx fy = Rpower s (- 5 / 3) * psd O r0 L0 l0 fx fy.
Proof.
  intros Hs Hr. unfold psd. rops. rewrite <- Rpower_mult_distr by assumption.
  replace (-5 / 3) with (- (5) / 3) by lra. unfold Rdiv. ring.
Qed.

Lemma wf_psd_grid r0 L0 l0 N delta : wf_mat N N (psd_grid O r0 L0 l0 N delta).
Proof. unfold psd_grid. apply wf_map_seq. Qed.

Lemma ent_psd_grid r0 L0 l0 N delta i j : (i < N)%nat -> (j < N)%nat ->
  ent 0 (psd_grid O r0 L0 l0 N delta) i j
  = if Nat.eqb i (N / 2) && Nat.eqb j (N / 2) then 0
    else psd O r0 L0 l0 (freq O N (1 / (INR N * delta)) j) (freq O N (1 / (INR N * delta)) i).
Proof.
  intros Hi Hj. unfold psd_grid.
  rewrite (ent_map_seq (fun i j => if Nat.eqb i (N / 2) && Nat.eqb j (N / 2) then nzero O
     else psd O r0 L0 l0 (freq O N (ndiv O (none O) (nmul O (fn O N) delta)) j)
                         (freq O N (ndiv O (none O) (nmul O (fn O N) delta)) i)) 0 N N i j Hi Hj).
  unfold fn. rops. rewrite <- INR_IZR_INZ. reflexivity.
Qed.

Lemma psd_grid_nonneg r0 L0 l0 N delta i j : (i < N)%nat -> (j < N)%nat ->
  0 <= ent 0 (psd_grid O r0 L0 l0 N delta) i j.
Proof.
  intros Hi Hj. rewrite ent_psd_grid by assumption.
  destruct (Nat.eqb i (N / 2) && Nat.eqb j (N / 2)); [lra|]. apply Rlt_le, psd_pos.
Qed.

Lemma psd_grid_r0_scale s r0 L0 l0 N delta i j : 0 < s -> 0 < r0 -> (i < N)%nat -> (j < N)%nat ->
  ent 0 (psd_grid O (s * r0) L0 l0 N delta) i j
  = Rpower s (- 5 / 3) * ent 0 (psd_grid O r0 L0 l0 N delta) i j.
Proof.
  intros Hs Hr Hi Hj. rewrite !ent_psd_grid by assumption.
  destruct (Nat.eqb i (N / 2) && Nat.eqb j (N / 2)); [ring|]. apply psd_r0_scale; assumption.
Qed.

Lemma half_2c c : (2 * c / 2 = c)%nat.
Proof. rewrite Nat.mul_comm. apply Nat.div_mul. lia. Qed.

(* the DC coefficient is removed *)
Theorem C07_dc_removed r0 L0 l0 N c delta : N = (2 * c)%nat -> (1 <= c)%nat ->
  ent 0 (psd_grid O r0 L0 l0 N delta) c c = 0.
Proof.
  intros -> Hc. rewrite ent_psd_grid by lia. rewrite half_2c, Nat.eqb_refl. reflexivity.
Qed.

(* ------------------------------------------------------------------------------------------ *)
(* the coefficient grid                                                                        *)
(* ------------------------------------------------------------------------------------------ *)

Lemma wf_pairs N (a b : list (list R)) : wf_mat N N a -> wf_mat N N b ->
  wf_mat N N (map2 (map2 (fun x y => (x, y))) a b).
Proof. apply wf_map2_map2. Qed.

Lemma wf_cn_grid r0 L0 l0 N delta a b : wf_mat N N a -> wf_mat N N b ->
  wf_mat N N (cn_grid O r0 L0 l0 N delta a b).
Proof.
  intros Ha Hb. unfold cn_grid. apply wf_map2_map2; [apply wf_psd_grid | apply wf_pairs; assumption].
Qed.

Lemma ent_cn_grid r0 L0 l0 N delta a b i j : wf_mat N N a -> wf_mat N N b ->
  (i < N)%nat -> (j < N)%nat ->
  @ent RC (czero O) (cn_grid O r0 L0 l0 N delta a b) i j
  = cscale O (1 / (INR N * delta))
      (cscale O (sqrt (ent 0 (psd_grid O r0 L0 l0 N delta) i j)) (ent 0 a i j, ent 0 b i j)).
Proof.
  intros Ha Hb Hi Hj. unfold cn_grid.
  rewrite (ent_map2_map2 _ (czero O) 0 (0, 0) N N _ _ i j (wf_psd_grid r0 L0 l0 N delta)
             (wf_pairs N a b Ha Hb) Hi Hj).
  rewrite (ent_map2_map2 (fun x y : R => (x, y)) (0, 0) 0 0 N N a b i j Ha Hb Hi Hj).
  unfold fn. rops. rewrite <- INR_IZR_INZ. reflexivity.
Qed.

Lemma wf_ps_ift2 N (m : list (list RC)) d : wf_mat N N m -> (0 < N)%nat -> wf_mat N N (ps_ift2 O m d).
Proof.
  intros Hm HN. unfold ps_ift2. apply wf_cscale_m, wf_ifftshift2, wf_idft2; try assumption.
  apply wf_fftshift2. exact Hm.
Qed.

Lemma wf_ft_phase_screen r0 L0 l0 N delta a b : wf_mat N N a -> wf_mat N N b -> (0 < N)%nat ->
  wf_mat N N (ft_phase_screen O r0 L0 l0 N delta a b).
Proof.
  intros Ha Hb HN. unfold ft_phase_screen. apply wf_map_map'. apply wf_ps_ift2; [|exact HN].
  apply wf_cn_grid; assumption.
Qed.

(* complex form of a pixel *)
Lemma pixel_cx r0 L0 l0 c delta a b y x : (1 <= c)%nat ->
  wf_mat (2 * c) (2 * c) a -> wf_mat (2 * c) (2 * c) b -> (y < 2 * c)%nat -> (x < 2 * c)%nat ->
  ent 0 (ft_phase_screen O r0 L0 l0 (2 * c) delta a b) y x
  = fst (bigsum (fun i => bigsum (fun j =>
       cmul O (@ent RC (czero O) (cn_grid O r0 L0 l0 (2 * c) delta a b) i j)
              (E (ang (2 * c) c i y j x))) (2 * c)) (2 * c)).
Proof.
  intros Hc Ha Hb Hy Hx. unfold ft_phase_screen.
  assert (Wc : wf_mat (2 * c) (2 * c) (cn_grid O r0 L0 l0 (2 * c) delta a b))
    by (apply wf_cn_grid; assumption).
  rewrite (ent_map_map (@fst R R) (czero O) 0 (2 * c) (2 * c) _ y x
             (wf_ps_ift2 (2 * c) _ _ Wc ltac:(lia)) Hy Hx).
  rewrite (ps_ift2_ent G K c _ y x ltac:(lia) Wc Hy Hx). reflexivity.
Qed.

(* ------------------------------------------------------------------------------------------ *)
(* T1: pixel formula                                                                           *)
(* ------------------------------------------------------------------------------------------ *)

Theorem C07_pixel_formula r0 L0 l0 N c delta a b y x :
  N = (2 * c)%nat -> (1 <= c)%nat -> wf_mat N N a -> wf_mat N N b -> (y < N)%nat -> (x < N)%nat ->
  ent 0 (ft_phase_screen O r0 L0 l0 N delta a b) y x
  = rsum (fun i => rsum (fun j =>
      sqrt (ent 0 (psd_grid O r0 L0 l0 N delta) i j) * (1 / (INR N * delta))
      * (ent 0 a i j * cos (ang N c i y j x) - ent 0 b i j * sin (ang N c i y j x))) N) N.
Proof.
  intros -> Hc Ha Hb Hy Hx. rewrite pixel_cx by assumption.
  rewrite fst_bigsum. apply rsum_ext. intros i Hi.
  rewrite fst_bigsum. apply rsum_ext. intros j Hj.
  rewrite ent_cn_grid by assumption. cunf. ring.
Qed.

(* ------------------------------------------------------------------------------------------ *)
(* T2: linearity in the draws                                                                  *)
(* ------------------------------------------------------------------------------------------ *)

Lemma wf_mscal r c s m : wf_mat r c m -> wf_mat r c (mscal s m).
Proof. apply wf_map_map'. Qed.
Lemma wf_madd r c m1 m2 : wf_mat r c m1 -> wf_mat r c m2 -> wf_mat r c (madd m1 m2).
Proof. apply wf_map2_map2. Qed.
Lemma ent_mscal r c s m i j : wf_mat r c m -> (i < r)%nat -> (j < c)%nat ->
  ent 0 (mscal s m) i j = s * ent 0 m i j.
Proof. intros. unfold mscal. apply (ent_map_map (fun v => s * v) 0 0 r c); assumption. Qed.
Lemma ent_madd r c m1 m2 i j : wf_mat r c m1 -> wf_mat r c m2 -> (i < r)%nat -> (j < c)%nat ->
  ent 0 (madd m1 m2) i j = ent 0 m1 i j + ent 0 m2 i j.
Proof. intros. unfold madd. apply (ent_map2_map2 Rplus 0 0 0 r c); assumption. Qed.
Lemma ent_lin r c al be m1 m2 i j : wf_mat r c m1 -> wf_mat r c m2 -> (i < r)%nat -> (j < c)%nat ->
  ent 0 (madd (mscal al m1) (mscal be m2)) i j = al * ent 0 m1 i j + be * ent 0 m2 i j.
Proof.
  intros H1 H2 Hi Hj. rewrite (ent_madd r c) by (try apply wf_mscal; assumption).
  rewrite !(ent_mscal r c) by assumption. reflexivity.
Qed.

Theorem C07_linear r0 L0 l0 N c delta al be a1 b1 a2 b2 :
  N = (2 * c)%nat -> (1 <= c)%nat ->
  wf_mat N N a1 -> wf_mat N N b1 -> wf_mat N N a2 -> wf_mat N N b2 ->
  ft_phase_screen O r0 L0 l0 N delta (madd (mscal al a1) (mscal be a2)) (madd (mscal al b1) (mscal be b2))
  = madd (mscal al (ft_phase_screen O r0 L0 l0 N delta a1 b1))
         (mscal be (ft_phase_screen O r0 L0 l0 N delta a2 b2)).
Proof.
  intros HN Hc A1 B1 A2 B2. assert (HN0 : (0 < N)%nat) by lia.
  assert (WA : wf_mat N N (madd (mscal al a1) (mscal be a2))) by (apply wf_madd; apply wf_mscal; assumption).
  assert (WB : wf_mat N N (madd (mscal al b1) (mscal be b2))) by (apply wf_madd; apply wf_mscal; assumption).
  assert (W1 := wf_ft_phase_screen r0 L0 l0 N delta a1 b1 A1 B1 HN0).
  assert (W2 := wf_ft_phase_screen r0 L0 l0 N delta a2 b2 A2 B2 HN0).
  apply (mat_ext 0 N N).
  - apply wf_ft_phase_screen; assumption.
  - apply wf_madd; apply wf_mscal; assumption.
  - intros y x Hy Hx. fold (ent 0 (ft_phase_screen O r0 L0 l0 N delta
       (madd (mscal al a1) (mscal be a2)) (madd (mscal al b1) (mscal be b2))) y x).
    fold (ent 0 (madd (mscal al (ft_phase_screen O r0 L0 l0 N delta a1 b1))
         (mscal be (ft_phase_screen O r0 L0 l0 N delta a2 b2))) y x).
    rewrite (ent_lin N N) by assumption.
    rewrite !(C07_pixel_formula r0 L0 l0 N c) by assumption.
    rewrite <- !rsum_scal, <- rsum_add. apply rsum_ext. intros i Hi.
    rewrite <- !rsum_scal, <- rsum_add. apply rsum_ext. intros j Hj.
    rewrite !(ent_lin N N) by assumption. ring.
Qed.

(* ------------------------------------------------------------------------------------------ *)
(* T3: r0 scaling                                                                              *)
(* ------------------------------------------------------------------------------------------ *)

Lemma sqrt_Rpower_scale s e e2 p : 0 < s -> 0 <= p -> e2 = e / 2 ->
  sqrt (Rpower s e * p) = Rpower s e2 * sqrt p.
Proof.
  intros Hs Hp ->. rewrite sqrt_mult by (try assumption; apply Rlt_le, Rpower_pos).
  f_equal. rewrite <- Rpower_sqrt by apply Rpower_pos. rewrite Rpower_mult. f_equal.
Qed.

Theorem C07_r0_scaling r0 L0 l0 N c delta s a b :
  N = (2 * c)%nat -> (1 <= c)%nat -> wf_mat N N a -> wf_mat N N b -> 0 < s -> 0 < r0 ->
  ft_phase_screen O (s * r0) L0 l0 N delta a b
  = map (map (fun v => Rpower s (- 5 / 6) * v)) (ft_phase_screen O r0 L0 l0 N delta a b).
Proof.
  intros HN Hc Ha Hb Hs Hr. assert (HN0 : (0 < N)%nat) by lia.
  assert (W1 := wf_ft_phase_screen r0 L0 l0 N delta a b Ha Hb HN0).
  apply (mat_ext 0 N N).
  - apply wf_ft_phase_screen; assumption.
  - apply wf_map_map'. exact W1.
  - intros y x Hy Hx.
    fold (ent 0 (ft_phase_screen O (s * r0) L0 l0 N delta a b) y x).
    fold (ent 0 (map (map (fun v => Rpower s (- 5 / 6) * v)) (ft_phase_screen O r0 L0 l0 N delta a b)) y x).
    rewrite (ent_map_map (fun v => Rpower s (- 5 / 6) * v) 0 0 N N _ y x W1 Hy Hx).
    rewrite !(C07_pixel_formula _ L0 l0 N c) by assumption.
    rewrite <- rsum_scal. apply rsum_ext. intros i Hi.
    rewrite <- rsum_scal. apply rsum_ext. intros j Hj.
    rewrite psd_grid_r0_scale by assumption.
    rewrite (sqrt_Rpower_scale s (- 5 / 3) (- 5 / 6)); [ring | exact Hs | apply psd_grid_nonneg; assumption | field].
Qed.

(* ------------------------------------------------------------------------------------------ *)
(* T4: ensemble covariance through unit draws                                                  *)
(* ------------------------------------------------------------------------------------------ *)

Lemma wf_unitm N i j : wf_mat N N (unitm N i j).
Proof. apply wf_map_seq. Qed.
Lemma wf_zerom N : wf_mat N N (zerom N).
Proof. apply (wf_map_seq (fun _ _ => 0)). Qed.
Lemma ent_unitm N i j i' j' : (i' < N)%nat -> (j' < N)%nat ->
  ent 0 (unitm N i j) i' j' = if Nat.eqb i' i && Nat.eqb j' j then 1 else 0.
Proof. intros. unfold unitm. apply (ent_map_seq (fun i' j' => if Nat.eqb i' i && Nat.eqb j' j then 1 else 0)); assumption. Qed.
Lemma ent_zerom N i' j' : (i' < N)%nat -> (j' < N)%nat -> ent 0 (zerom N) i' j' = 0.
Proof. intros. unfold zerom. apply (ent_map_seq (fun _ _ => 0)); assumption. Qed.

Lemma rsum2_single (f : nat -> nat -> R) N i j : (i < N)%nat -> (j < N)%nat ->
  (forall i' j', (i' < N)%nat -> (j' < N)%nat -> (i' <> i \/ j' <> j) -> f i' j' = 0) ->
  rsum (fun i' => rsum (fun j' => f i' j') N) N = f i j.
Proof.
  intros Hi Hj Hz. rewrite (rsum_single _ N i Hi).
  - apply (rsum_single _ N j Hj). intros j' Hj' Hne. apply Hz; auto.
  - intros i' Hi' Hne. rewrite (rsum_ext _ (fun _ => 0)); [apply rsum_zero|].
    intros j' Hj'. apply Hz; auto.
Qed.

Lemma eqb_pair_false i' i j' j : (i' <> i \/ j' <> j) -> Nat.eqb i' i && Nat.eqb j' j = false.
Proof.
  intros [H|H]; apply Nat.eqb_neq in H; rewrite H; [reflexivity|apply andb_false_r].
Qed.

Lemma screen_unit_a r0 L0 l0 N c delta i j y x : N = (2 * c)%nat -> (1 <= c)%nat ->
  (i < N)%nat -> (j < N)%nat -> (y < N)%nat -> (x < N)%nat ->
  ent 0 (ft_phase_screen O r0 L0 l0 N delta (unitm N i j) (zerom N)) y x
  = sqrt (ent 0 (psd_grid O r0 L0 l0 N delta) i j) * (1 / (INR N * delta)) * cos (ang N c i y j x).
Proof.
  intros HN Hc Hi Hj Hy Hx.
  rewrite (C07_pixel_formula r0 L0 l0 N c) by (try assumption; try apply wf_unitm; apply wf_zerom).
  rewrite (rsum2_single _ N i j Hi Hj).
  - rewrite ent_unitm, ent_zerom, !Nat.eqb_refl by assumption. cbn [andb]. ring.
  - intros i' j' Hi' Hj' Hne. rewrite ent_unitm, ent_zerom, eqb_pair_false by assumption. ring.
Qed.

Lemma screen_unit_b r0 L0 l0 N c delta i j y x : N = (2 * c)%nat -> (1 <= c)%nat ->
  (i < N)%nat -> (j < N)%nat -> (y < N)%nat -> (x < N)%nat ->
  ent 0 (ft_phase_screen O r0 L0 l0 N delta (zerom N) (unitm N i j)) y x
  = - (sqrt (ent 0 (psd_grid O r0 L0 l0 N delta) i j) * (1 / (INR N * delta)) * sin (ang N c i y j x)).
Proof.
  intros HN Hc Hi Hj Hy Hx.
  rewrite (C07_pixel_formula r0 L0 l0 N c) by (try assumption; try apply wf_unitm; apply wf_zerom).
  rewrite (rsum2_single _ N i j Hi Hj).
  - rewrite ent_unitm, ent_zerom, !Nat.eqb_refl by assumption. cbn [andb]. ring.
  - intros i' j' Hi' Hj' Hne. rewrite ent_unitm, ent_zerom, eqb_pair_false by assumption. ring.
Qed.

(* sum over all unit draws of the product of the responses at two pixels: E[phi(y,x) phi(y',x')] for
   independent unit-variance draws *)
Definition Cov (r0 L0 l0 : R) (N : nat) (delta : R) (y x y' x' : nat) : R :=
  rsum (fun i => rsum (fun j =>
      ent 0 (ft_phase_screen O r0 L0 l0 N delta (unitm N i j) (zerom N)) y x
      * ent 0 (ft_phase_screen O r0 L0 l0 N delta (unitm N i j) (zerom N)) y' x'
    + ent 0 (ft_phase_screen O r0 L0 l0 N delta (zerom N) (unitm N i j)) y x
      * ent 0 (ft_phase_screen O r0 L0 l0 N delta (zerom N) (unitm N i j)) y' x') N) N.

Theorem C07_covariance r0 L0 l0 N c delta y x y' x' :
  N = (2 * c)%nat -> (1 <= c)%nat -> (y < N)%nat -> (x < N)%nat -> (y' < N)%nat -> (x' < N)%nat ->
  Cov r0 L0 l0 N delta y x y' x'
  = rsum (fun i => rsum (fun j =>
      ent 0 (psd_grid O r0 L0 l0 N delta) i j * (1 / (INR N * delta)) ^ 2
      * cos (2 * PI * ((INR i - INR c) * (INR y - INR y') + (INR j - INR c) * (INR x - INR x')) / INR N)) N) N.
Proof.
  intros HN Hc Hy Hx Hy' Hx'. unfold Cov.
  assert (HN' : 0 < INR N) by (apply lt_0_INR; lia).
  apply rsum_ext. intros i Hi. apply rsum_ext. intros j Hj.
  rewrite !(screen_unit_a r0 L0 l0 N c), !(screen_unit_b r0 L0 l0 N c) by assumption.
  replace (2 * PI * ((INR i - INR c) * (INR y - INR y') + (INR j - INR c) * (INR x - INR x')) / INR N)
    with (ang N c i y j x - ang N c i y' j x') by (unfold ang; field; lra).
  rewrite cos_minus.
  rewrite <- (sqrt_sqrt (ent 0 (psd_grid O r0 L0 l0 N delta) i j)) at 5
    by (apply psd_grid_nonneg; assumption).
  ring.
Qed.

(* ------------------------------------------------------------------------------------------ *)
(* T5: corollaries                                                                             *)
(* ------------------------------------------------------------------------------------------ *)

Theorem C07_stationary r0 L0 l0 N c delta y x y' x' u v :
  N = (2 * c)%nat -> (1 <= c)%nat ->
  (y + u < N)%nat -> (x + v < N)%nat -> (y' + u < N)%nat -> (x' + v < N)%nat ->
  Cov r0 L0 l0 N delta (y + u) (x + v) (y' + u) (x' + v) = Cov r0 L0 l0 N delta y x y' x'.
Proof.
  intros HN Hc H1 H2 H3 H4.
  rewrite !(C07_covariance r0 L0 l0 N c) by (try assumption; lia).
  apply rsum_ext. intros i Hi. apply rsum_ext. intros j Hj.
  rewrite !plus_INR. do 2 f_equal. f_equal. ring.
Qed.

(* general form: the covariance depends only on the separation (y - y', x - x') *)
Theorem C07_stationary_sep r0 L0 l0 N c delta y x y' x' w z w' z' :
  N = (2 * c)%nat -> (1 <= c)%nat ->
  (y < N)%nat -> (x < N)%nat -> (y' < N)%nat -> (x' < N)%nat ->
  (w < N)%nat -> (z < N)%nat -> (w' < N)%nat -> (z' < N)%nat ->
  INR y - INR y' = INR w - INR w' -> INR x - INR x' = INR z - INR z' ->
  Cov r0 L0 l0 N delta y x y' x' = Cov r0 L0 l0 N delta w z w' z'.
Proof.
  intros HN Hc H1 H2 H3 H4 H5 H6 H7 H8 Ey Ex.
  rewrite !(C07_covariance r0 L0 l0 N c) by assumption.
  rewrite Ey, Ex. reflexivity.
Qed.

Theorem C07_variance_constant r0 L0 l0 N c delta y x :
  N = (2 * c)%nat -> (1 <= c)%nat -> (y < N)%nat -> (x < N)%nat ->
  Cov r0 L0 l0 N delta y x y x
  = rsum (fun i => rsum (fun j =>
      ent 0 (psd_grid O r0 L0 l0 N delta) i j * (1 / (INR N * delta)) ^ 2) N) N.
Proof.
  intros HN Hc Hy Hx. rewrite (C07_covariance r0 L0 l0 N c) by assumption.
  apply rsum_ext. intros i Hi. apply rsum_ext. intros j Hj.
  replace (2 * PI * ((INR i - INR c) * (INR y - INR y) + (INR j - INR c) * (INR x - INR x)) / INR N)
    with 0 by (unfold Rdiv; ring).
  rewrite cos_0. ring.
Qed.

(* ---- zero spatial mean ---- *)

Lemma cent_orth c i : (1 <= c)%nat -> (i < 2 * c)%nat ->
  bigsum (fun y => E (2 * PI * ((INR i - INR c) * (INR y - INR c)) / INR (2 * c))) (2 * c)
  = if Nat.eq_dec i c then (INR (2 * c), 0) else (0, 0).
Proof.
  intros Hc Hi. assert (HN' : 0 < INR (2 * c)) by (apply lt_0_INR; lia).
  rewrite (bigsum_ext G K _ (fun y => cmul O (E (- (2 * PI * ((INR i - INR c) * INR c) / INR (2 * c))))
             (E (INR y * (2 * PI * (INR i - INR c) / INR (2 * c)))))).
  2:{ intros y _. rewrite <- (E_add G K). f_equal. field. lra. }
  rewrite (bigsum_mul_l G K), (orth G K (2 * c) i c Hi ltac:(lia)).
  destruct (Nat.eq_dec i c) as [->|Hne].
  - replace (- (2 * PI * ((INR c - INR c) * INR c) / INR (2 * c))) with 0 by (unfold Rdiv; ring).
    rewrite E_0. cring.
  - cring.
Qed.

Lemma bigsum_exch4 (f : nat -> nat -> nat -> nat -> RC) n :
  bigsum (fun y => bigsum (fun x => bigsum (fun i => bigsum (fun j => f y x i j) n) n) n) n
  = bigsum (fun i => bigsum (fun j => bigsum (fun y => bigsum (fun x => f y x i j) n) n) n) n.
Proof.
  transitivity (bigsum (fun y => bigsum (fun i => bigsum (fun x => bigsum (fun j => f y x i j) n) n) n) n).
  { apply (bigsum_ext G K). intros y _.
    apply (bigsum_exch G K (fun x i => bigsum (fun j => f y x i j) n)). }
  transitivity (bigsum (fun i => bigsum (fun y => bigsum (fun x => bigsum (fun j => f y x i j) n) n) n) n).
  { apply (bigsum_exch G K (fun y i => bigsum (fun x => bigsum (fun j => f y x i j) n) n)). }
  apply (bigsum_ext G K). intros i _.
  transitivity (bigsum (fun y => bigsum (fun j => bigsum (fun x => f y x i j) n) n) n).
  { apply (bigsum_ext G K). intros y _. apply (bigsum_exch G K (fun x j => f y x i j)). }
  apply (bigsum_exch G K (fun y j => bigsum (fun x => f y x i j) n)).
Qed.

Lemma total_cx c (m : nat -> nat -> RC) : (1 <= c)%nat ->
  bigsum (fun y => bigsum (fun x => bigsum (fun i => bigsum (fun j =>
     cmul O (m i j) (E (ang (2 * c) c i y j x))) (2 * c)) (2 * c)) (2 * c)) (2 * c)
  = cscale O (INR (2 * c) * INR (2 * c)) (m c c).
Proof.
  intros Hc. assert (HN' : 0 < INR (2 * c)) by (apply lt_0_INR; lia).
  rewrite (bigsum_exch4 (fun y x i j => cmul O (m i j) (E (ang (2 * c) c i y j x)))).
  set (Sy := fun i : nat => bigsum (fun y => E (2 * PI * ((INR i - INR c) * (INR y - INR c)) / INR (2 * c))) (2 * c)).
  rewrite (bigsum_ext G K _ (fun i => bigsum (fun j => cmul O (cmul O (m i j) (Sy i)) (Sy j)) (2 * c))).
  2:{ intros i Hi. apply (bigsum_ext G K). intros j Hj.
      rewrite (bigsum_ext G K _ (fun y => cmul O (cmul O (m i j)
                 (E (2 * PI * ((INR i - INR c) * (INR y - INR c)) / INR (2 * c)))) (Sy j))).
      - rewrite (bigsum_mul_r G K). f_equal. unfold Sy. apply (bigsum_mul_l G K).
      - intros y Hy. unfold Sy. rewrite <- (bigsum_mul_l G K). apply (bigsum_ext G K). intros x Hx.
        replace (ang (2 * c) c i y j x)
          with (2 * PI * ((INR i - INR c) * (INR y - INR c)) / INR (2 * c)
                + 2 * PI * ((INR j - INR c) * (INR x - INR c)) / INR (2 * c))
          by (unfold ang; field; lra).
        rewrite (E_add G K). cring. }
  rewrite (bigsum_single G K _ (2 * c) c ltac:(lia)).
  - rewrite (bigsum_single G K _ (2 * c) c ltac:(lia)).
    + unfold Sy. rewrite (cent_orth c c Hc ltac:(lia)).
      destruct (Nat.eq_dec c c) as [_|Hne]; [|contradiction]. cring.
    + intros j Hj Hne. unfold Sy. rewrite (cent_orth c j Hc Hj).
      destruct (Nat.eq_dec j c) as [He|_]; [contradiction|]. cring.
  - intros i Hi Hne. rewrite (bigsum_ext G K _ (fun _ => czero O)); [apply (bigsum_zero G K)|].
    intros j Hj. unfold Sy. rewrite (cent_orth c i Hc Hi).
    destruct (Nat.eq_dec i c) as [He|_]; [contradiction|]. cring.
Qed.

Theorem C07_zero_mean r0 L0 l0 N c delta a b :
  N = (2 * c)%nat -> (1 <= c)%nat -> wf_mat N N a -> wf_mat N N b ->
  rsum (fun y => rsum (fun x => ent 0 (ft_phase_screen O r0 L0 l0 N delta a b) y x) N) N = 0.
Proof.
  intros -> Hc Ha Hb.
  transitivity (fst (bigsum (fun y => bigsum (fun x => bigsum (fun i => bigsum (fun j =>
       cmul O (@ent RC (czero O) (cn_grid O r0 L0 l0 (2 * c) delta a b) i j)
              (E (ang (2 * c) c i y j x))) (2 * c)) (2 * c)) (2 * c)) (2 * c))).
  { rewrite fst_bigsum. apply rsum_ext. intros y Hy.
    rewrite fst_bigsum. apply rsum_ext. intros x Hx. apply pixel_cx; assumption. }
  rewrite (total_cx c (fun i j => @ent RC (czero O) (cn_grid O r0 L0 l0 (2 * c) delta a b) i j) Hc).
  rewrite ent_cn_grid by (try assumption; lia).
  rewrite (C07_dc_removed r0 L0 l0 (2 * c) c delta eq_refl Hc), sqrt_0.
  cunf. ring.
Qed.

Lemma nsum2_rsum r c (m : list (list R)) : wf_mat r c m ->
  nsum O (map (nsum O) m) = rsum (fun y => rsum (fun x => ent 0 m y x) c) r.
Proof.
  intros Hwf. rewrite (nsum_rsum G K), map_length. destruct Hwf as [Hl Hf]. rewrite Hl.
  apply rsum_ext. intros y Hy.
  rewrite (nth_map_lt (nsum O) m y 0 []) by lia.
  rewrite (nsum_rsum G K), (wf_nth_length r c m y (conj Hl Hf) Hy). reflexivity.
Qed.

(* the same statement on the lists themselves: numpy's phs.sum() *)
Theorem C07_zero_mean_nsum r0 L0 l0 N c delta a b :
  N = (2 * c)%nat -> (1 <= c)%nat -> wf_mat N N a -> wf_mat N N b ->
  nsum O (map (nsum O) (ft_phase_screen O r0 L0 l0 N delta a b)) = 0.
Proof.
  intros HN Hc Ha Hb.
  rewrite (nsum2_rsum N N) by (apply wf_ft_phase_screen; try assumption; lia).
  apply (C07_zero_mean r0 L0 l0 N c); assumption.
Qed.

(* ------------------------------------------------------------------------------------------ *)
(* T6: sub-harmonics                                                                           *)
(* ------------------------------------------------------------------------------------------ *)

Local Notation draws_t := (list (list (list R) * list (list R))).

(* by definition the sub-harmonic screen is low-frequency part + FFT screen, entrywise *)
Theorem C07_sh_decomposition r0 L0 l0 N delta a b (draws : draws_t) :
  ft_sh_phase_screen O r0 L0 l0 N delta a b draws
  = madd (sh_lo O r0 L0 l0 N delta draws) (ft_phase_screen O r0 L0 l0 N delta a b).
Proof. reflexivity. Qed.

(* the low-frequency screen before the mean is removed *)
Definition sh_raw r0 L0 l0 N delta (draws : draws_t) : list (list R) :=
  map (fun yi => map (fun xi =>
     fst (fold_left (fun acc pd => cadd O acc
            (sh_term O r0 L0 l0 N delta (S (fst pd)) (fst (snd pd)) (snd (snd pd)) yi xi))
          (combine (seq 0 3) draws) (czero O))) (seq 0 N)) (seq 0 N).

Lemma sh_lo_raw r0 L0 l0 N delta (draws : draws_t) :
  sh_lo O r0 L0 l0 N delta draws
  = map (map (fun v => v - nsum O (map (nsum O) (sh_raw r0 L0 l0 N delta draws)) / INR (N * N)))
        (sh_raw r0 L0 l0 N delta draws).
Proof. unfold sh_lo, sh_raw, fn. rops. rewrite <- INR_IZR_INZ. reflexivity. Qed.

Lemma wf_sh_raw r0 L0 l0 N delta draws : wf_mat N N (sh_raw r0 L0 l0 N delta draws).
Proof. unfold sh_raw. apply wf_map_seq. Qed.
Lemma wf_sh_lo r0 L0 l0 N delta draws : wf_mat N N (sh_lo O r0 L0 l0 N delta draws).
Proof. rewrite sh_lo_raw. apply wf_map_map', wf_sh_raw. Qed.

Lemma rsum_minus_const f mu n : rsum (fun i => f i - mu) n = rsum f n - INR n * mu.
Proof.
  rewrite (rsum_ext _ (fun i => f i + - mu)) by (intros; ring).
  rewrite rsum_add, rsum_const. ring.
Qed.

Lemma demean_zero r c (m : list (list R)) : wf_mat r c m -> (0 < r)%nat -> (0 < c)%nat ->
  nsum O (map (nsum O) (map (map (fun v => v - nsum O (map (nsum O) m) / INR (r * c))) m)) = 0.
Proof.
  intros Hwf Hr Hc.
  assert (Hr' : 0 < INR r) by (apply lt_0_INR; lia).
  assert (Hc' : 0 < INR c) by (apply lt_0_INR; lia).
  rewrite (nsum2_rsum r c m Hwf). set (S := rsum (fun y => rsum (fun x => ent 0 m y x) c) r).
  rewrite (nsum2_rsum r c) by (apply wf_map_map'; exact Hwf).
  rewrite (rsum_ext _ (fun y => rsum (fun x => ent 0 m y x) c - INR c * (S / INR (r * c)))).
  2:{ intros y Hy. rewrite <- rsum_minus_const. apply rsum_ext. intros x Hx.
      apply (ent_map_map (fun v => v - S / INR (r * c)) 0 0 r c); assumption. }
  rewrite rsum_minus_const. fold S. rewrite mult_INR. field. lra.
Qed.

(* zero spatial mean of the low-frequency screen: the mean is subtracted by construction *)
Theorem C07_sh_lo_zero_mean r0 L0 l0 N delta (draws : draws_t) : (0 < N)%nat ->
  nsum O (map (nsum O) (sh_lo O r0 L0 l0 N delta draws)) = 0.
Proof. intros HN. rewrite sh_lo_raw. apply (demean_zero N N); [apply wf_sh_raw | exact HN | exact HN]. Qed.

(* ---- linearity of the low-frequency screen in its draws ---- *)

Definition clin (al be : R) (z1 z2 : RC) : RC := cadd O (cscale O al z1) (cscale O be z2).
Definition dlin (al be : R) (d1 d2 : draws_t) : draws_t :=
  map2 (fun p q => (madd (mscal al (fst p)) (mscal be (fst q)),
                    madd (mscal al (snd p)) (mscal be (snd q)))) d1 d2.
Definition wf_draws (d : draws_t) : Prop :=
  Forall (fun p => wf_mat 3 3 (fst p) /\ wf_mat 3 3 (snd p)) d.

Lemma fold_lin {X} (st st1 st2 : RC -> X -> RC) al be (l : list X) :
  (forall x, In x l -> forall acc acc1 acc2, acc = clin al be acc1 acc2 ->
      st acc x = clin al be (st1 acc1 x) (st2 acc2 x)) ->
  forall z z1 z2, z = clin al be z1 z2 ->
  fold_left st l z = clin al be (fold_left st1 l z1) (fold_left st2 l z2).
Proof.
  induction l as [|a l IH]; intros Hst z z1 z2 Hz; cbn [fold_left]; [exact Hz|].
  apply IH; [intros x Hx; apply Hst; right; exact Hx|].
  apply Hst; [left; reflexivity | exact Hz].
Qed.

Lemma sh_term_lin r0 L0 l0 N delta p al be a1 b1 a2 b2 yi xi :
  wf_mat 3 3 a1 -> wf_mat 3 3 b1 -> wf_mat 3 3 a2 -> wf_mat 3 3 b2 ->
  sh_term O r0 L0 l0 N delta p (madd (mscal al a1) (mscal be a2)) (madd (mscal al b1) (mscal be b2)) yi xi
  = clin al be (sh_term O r0 L0 l0 N delta p a1 b1 yi xi) (sh_term O r0 L0 l0 N delta p a2 b2 yi xi).
Proof.
  intros A1 B1 A2 B2. unfold sh_term. apply fold_lin; [|unfold clin; cring].
  intros [i j] Hin acc acc1 acc2 ->.
  apply in_flat_map in Hin. destruct Hin as [i' [Hi Hj]].
  apply in_map_iff in Hj. destruct Hj as [j' [Heq Hj]]. inversion Heq; subst i' j'.
  apply in_seq in Hi. apply in_seq in Hj.
  cbv zeta.
  change (nth j (nth i (madd (mscal al a1) (mscal be a2)) []) (nzero O))
    with (ent 0 (madd (mscal al a1) (mscal be a2)) i j).
  change (nth j (nth i (madd (mscal al b1) (mscal be b2)) []) (nzero O))
    with (ent 0 (madd (mscal al b1) (mscal be b2)) i j).
  rewrite !(ent_lin 3 3) by (try assumption; lia).
  change (nth j (nth i a1 []) (nzero O)) with (ent 0 a1 i j).
  change (nth j (nth i a2 []) (nzero O)) with (ent 0 a2 i j).
  change (nth j (nth i b1 []) (nzero O)) with (ent 0 b1 i j).
  change (nth j (nth i b2 []) (nzero O)) with (ent 0 b2 i j).
  generalize (ent 0 a1 i j) (ent 0 a2 i j) (ent 0 b1 i j) (ent 0 b2 i j). intros u1 u2 v1 v2.
  unfold clin. destruct acc1 as [p1 q1], acc2 as [p2 q2].
  cunf. apply injective_projections; cbn [fst snd]; ring.
Qed.

Lemma combine_nil_r {A B} (l : list A) : combine l (@nil B) = [].
Proof. destruct l; reflexivity. Qed.

Lemma raw_fold_lin r0 L0 l0 N delta al be yi xi : forall d1 d2 : draws_t,
  length d1 = length d2 -> wf_draws d1 -> wf_draws d2 ->
  forall s n z z1 z2, z = clin al be z1 z2 ->
  fold_left (fun acc pd => cadd O acc
       (sh_term O r0 L0 l0 N delta (S (fst pd)) (fst (snd pd)) (snd (snd pd)) yi xi))
    (combine (seq s n) (dlin al be d1 d2)) z
  = clin al be
     (fold_left (fun acc pd => cadd O acc
        (sh_term O r0 L0 l0 N delta (S (fst pd)) (fst (snd pd)) (snd (snd pd)) yi xi))
        (combine (seq s n) d1) z1)
     (fold_left (fun acc pd => cadd O acc
        (sh_term O r0 L0 l0 N delta (S (fst pd)) (fst (snd pd)) (snd (snd pd)) yi xi))
        (combine (seq s n) d2) z2).
Proof.
  induction d1 as [|p d1 IH]; intros [|q d2] Hl W1 W2 s n z z1 z2 Hz; try discriminate Hl.
  - cbn [dlin map2]. rewrite !combine_nil_r. exact Hz.
  - destruct n as [|n]; [exact Hz|].
    apply Forall_cons_iff in W1. destruct W1 as [[Pa Pb] W1].
    apply Forall_cons_iff in W2. destruct W2 as [[Qa Qb] W2].
    cbn [seq dlin map2 combine fold_left]. apply IH; try assumption; [simpl in Hl; lia|].
    cbn [fst snd]. rewrite Hz, sh_term_lin by assumption.
    unfold clin. generalize (sh_term O r0 L0 l0 N delta (S s) (fst p) (snd p) yi xi)
      (sh_term O r0 L0 l0 N delta (S s) (fst q) (snd q) yi xi). cring.
Qed.

Lemma ent_sh_raw r0 L0 l0 N delta (draws : draws_t) y x : (y < N)%nat -> (x < N)%nat ->
  ent 0 (sh_raw r0 L0 l0 N delta draws) y x
  = fst (fold_left (fun acc pd => cadd O acc
            (sh_term O r0 L0 l0 N delta (S (fst pd)) (fst (snd pd)) (snd (snd pd)) y x))
          (combine (seq 0 3) draws) (czero O)).
Proof.
  intros Hy Hx. unfold sh_raw.
  apply (ent_map_seq (fun yi xi => fst (fold_left (fun acc pd => cadd O acc
            (sh_term O r0 L0 l0 N delta (S (fst pd)) (fst (snd pd)) (snd (snd pd)) yi xi))
          (combine (seq 0 3) draws) (czero O))) 0 N N y x Hy Hx).
Qed.

Lemma sh_raw_lin r0 L0 l0 N delta al be (d1 d2 : draws_t) y x :
  length d1 = length d2 -> wf_draws d1 -> wf_draws d2 -> (y < N)%nat -> (x < N)%nat ->
  ent 0 (sh_raw r0 L0 l0 N delta (dlin al be d1 d2)) y x
  = al * ent 0 (sh_raw r0 L0 l0 N delta d1) y x + be * ent 0 (sh_raw r0 L0 l0 N delta d2) y x.
Proof.
  intros Hl W1 W2 Hy Hx. rewrite !ent_sh_raw by assumption.
  rewrite (raw_fold_lin r0 L0 l0 N delta al be y x d1 d2 Hl W1 W2 0 3 (czero O) (czero O) (czero O))
    by (unfold clin; cring).
  unfold clin. cunf. reflexivity.
Qed.

Theorem C07_sh_lo_linear r0 L0 l0 N delta al be (d1 d2 : draws_t) :
  length d1 = length d2 -> wf_draws d1 -> wf_draws d2 ->
  sh_lo O r0 L0 l0 N delta (dlin al be d1 d2)
  = madd (mscal al (sh_lo O r0 L0 l0 N delta d1)) (mscal be (sh_lo O r0 L0 l0 N delta d2)).
Proof.
  intros Hl W1 W2.
  apply (mat_ext 0 N N).
  - apply wf_sh_lo.
  - apply wf_madd; apply wf_mscal; apply wf_sh_lo.
  - intros y x Hy Hx.
    fold (ent 0 (sh_lo O r0 L0 l0 N delta (dlin al be d1 d2)) y x).
    fold (ent 0 (madd (mscal al (sh_lo O r0 L0 l0 N delta d1)) (mscal be (sh_lo O r0 L0 l0 N delta d2))) y x).
    rewrite (ent_lin N N) by (try apply wf_sh_lo; assumption).
    rewrite !sh_lo_raw.
    rewrite !(ent_map_map (fun v => v - _) 0 0 N N _ y x (wf_sh_raw r0 L0 l0 N delta _) Hy Hx).
    rewrite !(nsum2_rsum N N) by apply wf_sh_raw.
    rewrite sh_raw_lin by assumption.
    rewrite (rsum_ext (fun y0 => rsum (fun x0 => ent 0 (sh_raw r0 L0 l0 N delta (dlin al be d1 d2)) y0 x0) N)
               (fun y0 => al * rsum (fun x0 => ent 0 (sh_raw r0 L0 l0 N delta d1) y0 x0) N
                        + be * rsum (fun x0 => ent 0 (sh_raw r0 L0 l0 N delta d2) y0 x0) N)).
    2:{ intros y0 Hy0. rewrite <- !rsum_scal, <- rsum_add. apply rsum_ext. intros x0 Hx0.
        apply sh_raw_lin; assumption. }
    rewrite rsum_add, !rsum_scal. unfold Rdiv. ring.
Qed.

(* ---- additivity of the ensemble structure function over the two independent draw blocks ---- *)

Definition dzero : draws_t := [(zerom 3, zerom 3); (zerom 3, zerom 3); (zerom 3, zerom 3)].
(* a single unit draw in the real (a) / imaginary (b) slot (i, j) of sub-harmonic level p *)
Definition dunit_a (p i j : nat) : draws_t :=
  map (fun q => if Nat.eqb q p then (unitm 3 i j, zerom 3) else (zerom 3, zerom 3)) (seq 0 3).
Definition dunit_b (p i j : nat) : draws_t :=
  map (fun q => if Nat.eqb q p then (zerom 3, unitm 3 i j) else (zerom 3, zerom 3)) (seq 0 3).

Lemma lin_zerom n al be : madd (mscal al (zerom n)) (mscal be (zerom n)) = zerom n.
Proof.
  apply (mat_ext 0 n n).
  - apply wf_madd; apply wf_mscal; apply wf_zerom.
  - apply wf_zerom.
  - intros i j Hi Hj. fold (ent 0 (madd (mscal al (zerom n)) (mscal be (zerom n))) i j).
    fold (ent 0 (zerom n) i j). rewrite (ent_lin n n) by (try apply wf_zerom; assumption).
    rewrite ent_zerom by assumption. ring.
Qed.

Lemma wf_dzero : wf_draws dzero.
Proof. unfold wf_draws, dzero. repeat constructor; apply wf_zerom. Qed.

Lemma sh_lo_dzero r0 L0 l0 N delta y x : (y < N)%nat -> (x < N)%nat ->
  ent 0 (sh_lo O r0 L0 l0 N delta dzero) y x = 0.
Proof.
  intros Hy Hx.
  assert (Hd : dlin 0 0 dzero dzero = dzero).
  { unfold dlin, dzero. cbn [map2 fst snd]. rewrite !lin_zerom. reflexivity. }
  rewrite <- Hd, (C07_sh_lo_linear r0 L0 l0 N delta 0 0 dzero dzero eq_refl wf_dzero wf_dzero).
  rewrite (ent_lin N N) by (try apply wf_sh_lo; assumption). ring.
Qed.

Lemma hi_zero r0 L0 l0 N c delta y x : N = (2 * c)%nat -> (1 <= c)%nat -> (y < N)%nat -> (x < N)%nat ->
  ent 0 (ft_phase_screen O r0 L0 l0 N delta (zerom N) (zerom N)) y x = 0.
Proof.
  intros HN Hc Hy Hx. rewrite (C07_pixel_formula r0 L0 l0 N c) by (try assumption; apply wf_zerom).
  rewrite (rsum_ext _ (fun _ => 0)); [apply rsum_zero|]. intros i Hi.
  rewrite (rsum_ext _ (fun _ => 0)); [apply rsum_zero|]. intros j Hj.
  rewrite ent_zerom by assumption. ring.
Qed.

Lemma ent_total r0 L0 l0 N delta a b (d : draws_t) y x :
  wf_mat N N a -> wf_mat N N b -> (y < N)%nat -> (x < N)%nat ->
  ent 0 (ft_sh_phase_screen O r0 L0 l0 N delta a b d) y x
  = ent 0 (sh_lo O r0 L0 l0 N delta d) y x + ent 0 (ft_phase_screen O r0 L0 l0 N delta a b) y x.
Proof.
  intros Ha Hb Hy Hx. rewrite C07_sh_decomposition.
  apply (ent_madd N N); try assumption; [apply wf_sh_lo | apply wf_ft_phase_screen; try assumption; lia].
Qed.

(* increment of a screen between two pixels *)
Definition inc (m : list (list R)) (y x y' x' : nat) : R := ent 0 m y x - ent 0 m y' x'.

Section StructureFunction.
Variables (r0 L0 l0 : R) (N : nat) (delta : R).
Local Notation hi := (ft_phase_screen O r0 L0 l0 N delta).
Local Notation lo := (sh_lo O r0 L0 l0 N delta).
Local Notation tot := (ft_sh_phase_screen O r0 L0 l0 N delta).

(* E[(phi(P) - phi(Q))^2] as the sum over all unit draws (unit variance, independent) of the squared
   increment of the response; the FFT-grid block and the sub-harmonic block are disjoint index sets *)
Definition D_hi (y x y' x' : nat) : R :=
  rsum (fun i => rsum (fun j =>
      inc (hi (unitm N i j) (zerom N)) y x y' x' ^ 2 + inc (hi (zerom N) (unitm N i j)) y x y' x' ^ 2) N) N.
Definition D_lo (y x y' x' : nat) : R :=
  rsum (fun p => rsum (fun i => rsum (fun j =>
      inc (lo (dunit_a p i j)) y x y' x' ^ 2 + inc (lo (dunit_b p i j)) y x y' x' ^ 2) 3) 3) 3.
Definition D_total (y x y' x' : nat) : R :=
  rsum (fun i => rsum (fun j =>
      inc (tot (unitm N i j) (zerom N) dzero) y x y' x' ^ 2
    + inc (tot (zerom N) (unitm N i j) dzero) y x y' x' ^ 2) N) N
  + rsum (fun p => rsum (fun i => rsum (fun j =>
      inc (tot (zerom N) (zerom N) (dunit_a p i j)) y x y' x' ^ 2
    + inc (tot (zerom N) (zerom N) (dunit_b p i j)) y x y' x' ^ 2) 3) 3) 3.

Theorem C07_sh_structure_additive c y x y' x' :
  N = (2 * c)%nat -> (1 <= c)%nat -> (y < N)%nat -> (x < N)%nat -> (y' < N)%nat -> (x' < N)%nat ->
  D_total y x y' x' = D_hi y x y' x' + D_lo y x y' x' /\ 0 <= D_lo y x y' x' /\ 0 <= D_hi y x y' x'.
Proof.
  intros HN Hc Hy Hx Hy' Hx'. split; [|split].
  - unfold D_total, D_hi, D_lo. f_equal.
    + apply rsum_ext. intros i Hi. apply rsum_ext. intros j Hj. unfold inc.
      rewrite !ent_total by (try assumption; try apply wf_unitm; apply wf_zerom).
      rewrite !sh_lo_dzero by assumption. f_equal; f_equal; ring.
    + apply rsum_ext. intros p Hp. apply rsum_ext. intros i Hi. apply rsum_ext. intros j Hj. unfold inc.
      rewrite !ent_total by (try assumption; apply wf_zerom).
      rewrite !(hi_zero r0 L0 l0 N c) by assumption. f_equal; f_equal; ring.
  - unfold D_lo. repeat (apply rsum_nonneg; intros). nra.
  - unfold D_hi. repeat (apply rsum_nonneg; intros). nra.
Qed.
End StructureFunction.

End C07.

Print Assumptions C07_pixel_formula.
Print Assumptions C07_r0_scaling.
Print Assumptions C07_covariance.
Print Assumptions C07_zero_mean.
