(* C13, heart of the property: the Karhunen-Loeve modes built by the model DIAGONALISE the Kolmogorov
   structure-function kernel on the native polar grid (nr equal-area rings x N = 5 nr azimuthal samples).
   cov2 F1 F2 = -(1/2) <<F1 | D | F2>> (double pupil average); for piston-free F this is the covariance. *)
From Coq Require Import ZArith Reals Bool List Arith Lra Lia.
Require Import AOV.base.Num AOV.base.NumR AOV.base.RpowTac AOV.base.Cplx AOV.model.Mat
               AOV.gen.Gen_kl AOV.model.KL
               AOV.proofs.Dft_proofs AOV.proofs.Mat_proofs AOV.proofs.C13_lemmas AOV.proofs.C13_proofs.
Import ListNotations.
Local Open Scope R_scope.

(* ------------------------------------------------------------------------------------------ *)
(* modular arithmetic, cyclic shifts of finite sums                                             *)
(* ------------------------------------------------------------------------------------------ *)

Lemma mod_once x N : (N <= x < 2 * N)%nat -> (x mod N = x - N)%nat.
Proof.
  intros H. symmetry. apply (Nat.mod_unique x N 1 (x - N)); lia.
Qed.

Lemma mod_back s t N : (s < N)%nat -> (t < N)%nat -> (((s + t) mod N + N - t) mod N = s)%nat.
Proof.
  intros Hs Ht. destruct (Nat.lt_ge_cases (s + t) N) as [H|H].
  - rewrite (Nat.mod_small (s + t) N H). replace (s + t + N - t)%nat with (s + N)%nat by lia.
    rewrite mod_once by lia. lia.
  - rewrite (mod_once (s + t) N) by lia. replace (s + t - N + N - t)%nat with s by lia.
    apply Nat.mod_small. exact Hs.
Qed.

Lemma rsum_cyclic_shift (g : nat -> R) c N : (c <= N)%nat ->
  rsum g N = rsum (fun s => g ((s + c) mod N)%nat) N.
Proof.
  intros Hc. destruct (Nat.eq_dec N 0) as [->|HN]; [reflexivity|].
  set (h := fun s => g ((s + c) mod N)%nat).
  pose proof (rsum_split g c (N - c)) as H1. pose proof (rsum_split h (N - c) c) as H2.
  replace (c + (N - c))%nat with N in H1 by lia. replace (N - c + c)%nat with N in H2 by lia.
  rewrite H1, H2.
  rewrite (rsum_ext (fun i => h (N - c + i)%nat) g c).
  2:{ intros i Hi. unfold h. f_equal. replace (N - c + i + c)%nat with (i + 1 * N)%nat by lia.
      rewrite Nat.mod_add by exact HN. apply Nat.mod_small. lia. }
  rewrite (rsum_ext h (fun i => g (c + i)%nat) (N - c)).
  2:{ intros i Hi. unfold h. f_equal. rewrite Nat.mod_small by lia. lia. }
  lra.
Qed.

(* periodicity of the sampled angles *)
Lemma theta_plus N s t : theta N (s + t) = theta N s + theta N t.
Proof. unfold theta. rewrite plus_INR. ring. Qed.

Lemma theta_mod N x : (0 < N)%nat ->
  theta N x = theta N (x mod N) + 2 * PI * INR (x / N).
Proof.
  intros HN. assert (HN' : 0 < INR N) by (apply lt_0_INR; exact HN).
  unfold theta. rewrite (Nat.div_mod x N) at 1 by lia. rewrite plus_INR, mult_INR. field. lra.
Qed.

Lemma cos_theta_mod N a x : (0 < N)%nat -> cos (INR a * theta N (x mod N)) = cos (INR a * theta N x).
Proof.
  intros HN. rewrite (theta_mod N x HN).
  replace (INR a * (theta N (x mod N) + 2 * PI * INR (x / N)))
    with (INR a * theta N (x mod N) + 2 * INR (a * (x / N)) * PI) by (rewrite mult_INR; ring).
  rewrite cos_period. reflexivity.
Qed.

Lemma sin_theta_mod N a x : (0 < N)%nat -> sin (INR a * theta N (x mod N)) = sin (INR a * theta N x).
Proof.
  intros HN. rewrite (theta_mod N x HN).
  replace (INR a * (theta N (x mod N) + 2 * PI * INR (x / N)))
    with (INR a * theta N (x mod N) + 2 * INR (a * (x / N)) * PI) by (rewrite mult_INR; ring).
  rewrite sin_period. reflexivity.
Qed.

(* ------------------------------------------------------------------------------------------ *)
(* circular "convolution" double sums                                                          *)
(* ------------------------------------------------------------------------------------------ *)

(* cosine / sine transforms of a sequence *)
Definition Dc (N : nat) (d : nat -> R) (a : nat) : R := rsum (fun s => d s * cos (INR a * theta N s)) N.
Definition Ds (N : nat) (d : nat -> R) (a : nat) : R := rsum (fun s => d s * sin (INR a * theta N s)) N.

(* sum_t sum_t' f(t) d((t - t') mod N) g(t') *)
Definition cconv (N : nat) (f g d : nat -> R) : R :=
  rsum (fun t => rsum (fun t' => f t * d ((t + N - t') mod N)%nat * g t') N) N.

Lemma cconv_ext N f f' g g' d :
  (forall t, (t < N)%nat -> f t = f' t) -> (forall t, (t < N)%nat -> g t = g' t) ->
  cconv N f g d = cconv N f' g' d.
Proof.
  intros Hf Hg. unfold cconv. apply rsum_ext. intros t Ht. apply rsum_ext. intros t' Ht'.
  rewrite Hf, Hg by assumption. reflexivity.
Qed.

Lemma cconv_reindex N f g d :
  cconv N f g d = rsum (fun t' => rsum (fun s => f ((s + t') mod N)%nat * d s * g t') N) N.
Proof.
  unfold cconv. rewrite rsum_exch. apply rsum_ext. intros t' Ht'.
  rewrite (rsum_cyclic_shift (fun t => f t * d ((t + N - t') mod N)%nat * g t') t' N) by lia.
  apply rsum_ext. intros s Hs. rewrite mod_back by assumption. reflexivity.
Qed.

Lemma cconv_cos N a g d :
  cconv N (fun t => cos (INR a * theta N t)) g d
  = Dc N d a * rsum (fun t' => cos (INR a * theta N t') * g t') N
    - Ds N d a * rsum (fun t' => sin (INR a * theta N t') * g t') N.
Proof.
  destruct (Nat.eq_dec N 0) as [->|HN]; [unfold cconv, Dc, Ds; cbn [rsum]; ring|].
  rewrite cconv_reindex. unfold Dc, Ds. rewrite <- !rsum_scal_l, <- rsum_sub.
  apply rsum_ext. intros t' Ht'. rewrite <- !rsum_scal_r, <- rsum_sub.
  apply rsum_ext. intros s Hs. rewrite cos_theta_mod by lia.
  rewrite theta_plus, Rmult_plus_distr_l, cos_plus. ring.
Qed.

Lemma cconv_sin N a g d :
  cconv N (fun t => sin (INR a * theta N t)) g d
  = Ds N d a * rsum (fun t' => cos (INR a * theta N t') * g t') N
    + Dc N d a * rsum (fun t' => sin (INR a * theta N t') * g t') N.
Proof.
  destruct (Nat.eq_dec N 0) as [->|HN]; [unfold cconv, Dc, Ds; cbn [rsum]; ring|].
  rewrite cconv_reindex. unfold Dc, Ds. rewrite <- !rsum_scal_l, <- rsum_add.
  apply rsum_ext. intros t' Ht'. rewrite <- !rsum_scal_r, <- rsum_add.
  apply rsum_ext. intros s Hs. rewrite sin_theta_mod by lia.
  rewrite theta_plus, Rmult_plus_distr_l, sin_plus. ring.
Qed.

(* an even sequence has no sine transform *)
Lemma Ds_even_zero N d a : (forall s, (0 < s < N)%nat -> d (N - s)%nat = d s) -> Ds N d a = 0.
Proof.
  intros He. unfold Ds. apply rsum_odd_zero.
  - unfold theta. cbn [INR]. rewrite Rmult_0_l, Rmult_0_r, sin_0. ring.
  - intros s Hs. rewrite (He s Hs). assert (HN' : 0 < INR N) by (apply lt_0_INR; lia).
    replace (INR a * theta N (N - s)) with (- (INR a * theta N s) + 2 * INR a * PI)
      by (unfold theta; rewrite minus_INR by lia; field; lra).
    rewrite sin_period, sin_neg. ring.
Qed.

Section Diag.
Variables (G : R -> R) (K : R -> R -> R).
Local Notation O := (ROps G K).
Local Notation mat := (list (list R)).

(* ---- the four elementary double sums (frequencies a, b >= 0, a + b < N) ---- *)

Lemma cconv_cos_cos N a b d : (a + b < N)%nat ->
  cconv N (fun t => cos (INR a * theta N t)) (fun t => cos (INR b * theta N t)) d
  = (if (a =? b)%nat then (if (a =? 0)%nat then INR N else INR N / 2) else 0) * Dc N d a.
Proof.
  intros H. rewrite cconv_cos, (cc_sum G K) by exact H. rewrite (sc_sum G K) by exact H. ring.
Qed.

Lemma cconv_sin_sin N a b d : (a + b < N)%nat ->
  cconv N (fun t => sin (INR a * theta N t)) (fun t => sin (INR b * theta N t)) d
  = (if (a =? b)%nat then (if (a =? 0)%nat then 0 else INR N / 2) else 0) * Dc N d a.
Proof.
  intros H. rewrite cconv_sin, (ss_sum G K) by exact H.
  rewrite (rsum_ext _ (fun t' => sin (INR b * theta N t') * cos (INR a * theta N t')) N) by (intros; ring).
  rewrite (sc_sum G K) by lia. ring.
Qed.

Lemma cconv_cos_sin N a b d : (a + b < N)%nat ->
  cconv N (fun t => cos (INR a * theta N t)) (fun t => sin (INR b * theta N t)) d
  = - (if (a =? b)%nat then (if (a =? 0)%nat then 0 else INR N / 2) else 0) * Ds N d a.
Proof.
  intros H. rewrite cconv_cos, (ss_sum G K) by exact H.
  rewrite (rsum_ext _ (fun t' => sin (INR b * theta N t') * cos (INR a * theta N t')) N) by (intros; ring).
  rewrite (sc_sum G K) by lia. ring.
Qed.

Lemma cconv_sin_cos N a b d : (a + b < N)%nat ->
  cconv N (fun t => sin (INR a * theta N t)) (fun t => cos (INR b * theta N t)) d
  = (if (a =? b)%nat then (if (a =? 0)%nat then INR N else INR N / 2) else 0) * Ds N d a.
Proof.
  intros H. rewrite cconv_sin, (cc_sum G K) by exact H. rewrite (sc_sum G K) by exact H. ring.
Qed.

(* ---- link with the DFT of the model ---- *)

Lemma dft_re_cos (d : list R) N a : length d = N -> (a < N)%nat ->
  fst (nth a (dft O (map (cofR O) d)) (czero O)) = Dc N (fun s => nth s d 0) a.
Proof.
  intros Hl Ha. assert (HN' : 0 < INR N) by (apply lt_0_INR; lia).
  rewrite dft_ktr. ncx.
  rewrite nth_ktr by (rewrite map_length, Hl; exact Ha). rewrite map_length, Hl.
  rewrite fst_bigsum. unfold Dc. apply rsum_ext. intros n Hn.
  change (czero O) with (cofR O 0). rewrite map_nth. unfold Kdft, W. cunf.
  rewrite cos_neg. replace (2 * PI * INR (n * a) / INR N) with (INR a * theta N n)
    by (unfold theta; rewrite mult_INR; field; lra).
  ring.
Qed.

(* (1) the statements on lists, for an even real sequence d of length N *)
Definition lseq (d : list R) : nat -> R := fun s => nth s d 0.

Theorem az_conv_cos_cos : forall N (d : list R) a b, length d = N ->
  (0 < a)%nat -> (0 < b)%nat -> (a + b < N)%nat ->
  rsum (fun t => rsum (fun t' =>
     cos (INR a * theta N t) * nth ((t + N - t') mod N) d 0 * cos (INR b * theta N t')) N) N
  = if (a =? b)%nat then INR N / 2 * fst (nth a (dft O (map (cofR O) d)) (czero O)) else 0.
Proof.
  intros N d a b Hl Ha Hb H. rewrite (dft_re_cos d N a Hl) by lia.
  change (cconv N (fun t => cos (INR a * theta N t)) (fun t => cos (INR b * theta N t)) (lseq d) = 
          if (a =? b)%nat then INR N / 2 * Dc N (lseq d) a else 0).
  rewrite cconv_cos_cos by exact H. destruct (Nat.eqb_spec a 0); [lia|].
  destruct (a =? b)%nat; ring.
Qed.

Theorem az_conv_sin_sin : forall N (d : list R) a b, length d = N ->
  (0 < a)%nat -> (0 < b)%nat -> (a + b < N)%nat ->
  rsum (fun t => rsum (fun t' =>
     sin (INR a * theta N t) * nth ((t + N - t') mod N) d 0 * sin (INR b * theta N t')) N) N
  = if (a =? b)%nat then INR N / 2 * fst (nth a (dft O (map (cofR O) d)) (czero O)) else 0.
Proof.
  intros N d a b Hl Ha Hb H. rewrite (dft_re_cos d N a Hl) by lia.
  change (cconv N (fun t => sin (INR a * theta N t)) (fun t => sin (INR b * theta N t)) (lseq d) = 
          if (a =? b)%nat then INR N / 2 * Dc N (lseq d) a else 0).
  rewrite cconv_sin_sin by exact H. destruct (Nat.eqb_spec a 0); [lia|].
  destruct (a =? b)%nat; ring.
Qed.

Theorem az_conv_cos_sin : forall N (d : list R) a b, length d = N ->
  (forall s, (0 < s < N)%nat -> nth (N - s) d 0 = nth s d 0) -> (a + b < N)%nat ->
  rsum (fun t => rsum (fun t' =>
     cos (INR a * theta N t) * nth ((t + N - t') mod N) d 0 * sin (INR b * theta N t')) N) N = 0 /\
  rsum (fun t => rsum (fun t' =>
     sin (INR a * theta N t) * nth ((t + N - t') mod N) d 0 * cos (INR b * theta N t')) N) N = 0.
Proof.
  intros N d a b Hl He H. split.
  - change (cconv N (fun t => cos (INR a * theta N t)) (fun t => sin (INR b * theta N t)) (lseq d) = 0).
    rewrite cconv_cos_sin by exact H. rewrite (Ds_even_zero N (lseq d) a He). ring.
  - change (cconv N (fun t => sin (INR a * theta N t)) (fun t => cos (INR b * theta N t)) (lseq d) = 0).
    rewrite cconv_sin_cos by exact H. rewrite (Ds_even_zero N (lseq d) a He). ring.
Qed.

Theorem az_conv_const : forall N (d : list R) b, length d = N -> (0 < N)%nat ->
  rsum (fun t => rsum (fun t' => 1 * nth ((t + N - t') mod N) d 0 * 1) N) N
  = INR N * fst (nth 0 (dft O (map (cofR O) d)) (czero O)) /\
  ((0 < b < N)%nat ->
   rsum (fun t => rsum (fun t' => 1 * nth ((t + N - t') mod N) d 0 * cos (INR b * theta N t')) N) N = 0 /\
   rsum (fun t => rsum (fun t' => 1 * nth ((t + N - t') mod N) d 0 * sin (INR b * theta N t')) N) N = 0 /\
   rsum (fun t => rsum (fun t' => cos (INR b * theta N t) * nth ((t + N - t') mod N) d 0 * 1) N) N = 0 /\
   ((forall s, (0 < s < N)%nat -> nth (N - s) d 0 = nth s d 0) ->
    rsum (fun t => rsum (fun t' => sin (INR b * theta N t) * nth ((t + N - t') mod N) d 0 * 1) N) N = 0)).
Proof.
  intros N d b Hl HN.
  assert (H1 : forall t, 1 = cos (INR 0 * theta N t)) by (intros; cbn [INR]; rewrite Rmult_0_l, cos_0; reflexivity).
  split; [|intros Hb; split; [|split; [|split]]].
  - rewrite (dft_re_cos d N 0 Hl) by lia.
    transitivity (cconv N (fun t => cos (INR 0 * theta N t)) (fun t => cos (INR 0 * theta N t)) (lseq d)).
    { unfold cconv, lseq. apply rsum_ext. intros t _. apply rsum_ext. intros t' _. rewrite <- !H1. reflexivity. }
    rewrite cconv_cos_cos by lia. cbn [Nat.eqb]. reflexivity.
  - transitivity (cconv N (fun t => cos (INR 0 * theta N t)) (fun t => cos (INR b * theta N t)) (lseq d)).
    { unfold cconv, lseq. apply rsum_ext. intros t _. apply rsum_ext. intros t' _. rewrite <- !H1. reflexivity. }
    rewrite cconv_cos_cos by lia. destruct (Nat.eqb_spec 0 b); [lia|]. ring.
  - transitivity (cconv N (fun t => cos (INR 0 * theta N t)) (fun t => sin (INR b * theta N t)) (lseq d)).
    { unfold cconv, lseq. apply rsum_ext. intros t _. apply rsum_ext. intros t' _. rewrite <- !H1. reflexivity. }
    rewrite cconv_cos_sin by lia. destruct (Nat.eqb_spec 0 b); [lia|]. ring.
  - transitivity (cconv N (fun t => cos (INR b * theta N t)) (fun t => cos (INR 0 * theta N t)) (lseq d)).
    { unfold cconv, lseq. apply rsum_ext. intros t _. apply rsum_ext. intros t' _. rewrite <- !H1. reflexivity. }
    rewrite cconv_cos_cos by lia. destruct (Nat.eqb_spec b 0); [lia|]. ring.
  - intros He.
    transitivity (cconv N (fun t => sin (INR b * theta N t)) (fun t => cos (INR 0 * theta N t)) (lseq d)).
    { unfold cconv, lseq. apply rsum_ext. intros t _. apply rsum_ext. intros t' _. rewrite <- !H1. reflexivity. }
    rewrite cconv_sin_cos by lia. destruct (Nat.eqb_spec b 0); [lia|]. ring.
Qed.

(* ------------------------------------------------------------------------------------------ *)
(* the double pupil average against the sampled structure function                              *)
(* ------------------------------------------------------------------------------------------ *)

(* D(|x - x'|) for the polar points (r_k, theta_t), (r_k', theta_t'): the sequence kernel_pair transforms *)
Definition Dsf (nr : nat) (rad : list R) (k k' s : nat) : R := nth s (kl_sf G K nr rad k k') 0.

Definition cov2 (nr : nat) (rad : list R) (F1 F2 : mat) : R :=
  let N := (5 * nr)%nat in
  - (1 / 2) * / ((INR nr * INR N) ^ 2) *
  rsum (fun k => rsum (fun t => rsum (fun k' => rsum (fun t' =>
      ent F1 k t * Dsf nr rad k k' ((t + N - t') mod N)%nat * ent F2 k' t') N) nr) N) nr.

(* (2) outer products: the radial and azimuthal sums separate *)
Theorem cov2_separable : forall nr rad (R1 A1 R2 A2 : list R),
  cov2 nr rad (sfi O R1 A1) (sfi O R2 A2)
  = - (1 / 2) * / ((INR nr * INR (5 * nr)) ^ 2) *
    rsum (fun k => rsum (fun k' =>
      nth k R1 0 * nth k' R2 0 *
      rsum (fun t => rsum (fun t' =>
         nth t A1 0 * Dsf nr rad k k' ((t + 5 * nr - t') mod (5 * nr))%nat * nth t' A2 0) (5 * nr)) (5 * nr)) nr) nr.
Proof.
  intros nr rad R1 A1 R2 A2. unfold cov2. cbv zeta. f_equal.
  apply rsum_ext. intros k Hk. rewrite rsum_exch. apply rsum_ext. intros k' Hk'.
  rewrite <- rsum_scal_l. apply rsum_ext. intros t Ht.
  rewrite <- rsum_scal_l. apply rsum_ext. intros t' Ht'. rewrite !(ent_sfi G K). ring.
Qed.

Lemma Dsf_even nr rad k k' s : (0 < s < 5 * nr)%nat -> Dsf nr rad k k' (5 * nr - s) = Dsf nr rad k k' s.
Proof.
  intros Hs. destruct (kernel_real_even G K 0 nr rad k k') as [_ [_ [He _]]]. apply He. exact Hs.
Qed.

Lemma kl_sf_sym nr rad i j : kl_sf G K nr rad i j = kl_sf G K nr rad j i.
Proof.
  unfold kl_sf. apply map_ext. intros t. f_equal. f_equal. f_equal. f_equal. rops. unfold two. rops. ring.
Qed.

Lemma Dsf_sym nr rad k k' s : Dsf nr rad k k' s = Dsf nr rad k' k s.
Proof. unfold Dsf. rewrite kl_sf_sym. reflexivity. Qed.

(* ---- the clip of the squared separation at 0 (guard against rounding residues) is the identity over R ---- *)

Lemma sep2_nonneg a b t : 0 <= a -> 0 <= b -> 0 <= (a * a + b * b) - 2 * a * b * cos t.
Proof.
  intros Ha Hb. destruct (COS_bound t) as [_ Hc].
  assert (H1 : 0 <= a * b) by (apply Rmult_le_pos; assumption).
  assert (H2 : 0 <= (a * b) * (1 - cos t)) by (apply Rmult_le_pos; lra).
  pose proof (Rle_0_sqr (a - b)) as H3. unfold Rsqr in H3. lra.
Qed.

Lemma nmax_clip_id x : 0 <= x -> nmax O x (nzero O) = x.
Proof.
  intros Hx. unfold nmax. rops. destruct (Rltb x 0) eqn:E; [|reflexivity].
  apply Rltb_true in E. lra.
Qed.

Lemma nth_nonneg (rad : list R) k : Forall (fun r => 0 <= r) rad -> 0 <= nth k rad 0.
Proof.
  intros Hf. destruct (lt_dec k (length rad)) as [H|H].
  - rewrite Forall_forall in Hf. apply Hf. apply nth_In. exact H.
  - rewrite nth_overflow by lia. lra.
Qed.

(* cov2 uses the Kolmogorov structure function of the true separation of the polar points
   (r_k, theta_s), (r_k', 0):  |x - x'|^2 = r_k^2 + r_k'^2 - 2 r_k r_k' cos(theta_s) *)
Theorem Dsf_is_kolmogorov_of_separation : forall nr rad k k' s,
  Forall (fun r => 0 <= r) rad -> (s < 5 * nr)%nat ->
  Dsf nr rad k k' s
  = stf_kolmogorov O (5 / 10 * sqrt ((nth k rad 0 * nth k rad 0 + nth k' rad 0 * nth k' rad 0)
                                      - 2 * nth k rad 0 * nth k' rad 0 * cos (INR s * 2 * PI / INR (5 * nr)))).
Proof.
  intros nr rad k k' s Hf Hs. unfold Dsf, kl_sf. rewrite nth_map_seq by exact Hs.
  set (a := nth k rad 0). set (b := nth k' rad 0).
  assert (Ha : 0 <= a) by (apply nth_nonneg; exact Hf).
  assert (Hb : 0 <= b) by (apply nth_nonneg; exact Hf).
  rewrite nmax_clip_id.
  - unfold kz, two. rops. rewrite <- !INR_IZR_INZ. first [reflexivity | (f_equal; f_equal; f_equal; ring)].
  - unfold kz, two. rops.
    pose proof (sep2_nonneg a b (IZR (Z.of_nat s) * 2 * PI / IZR (Z.of_nat (5 * nr))) Ha Hb). lra.
Qed.

Theorem gkl_radii_nonneg : forall ri nr, Forall (fun r => 0 <= r) (gkl_radii O ri nr).
Proof.
  intros ri nr. unfold gkl_radii. apply Forall_forall. intros r Hr. apply in_map_iff in Hr.
  destruct Hr as [k [<- _]]. apply sqrt_pos.
Qed.

Corollary Dsf_model_radii : forall ri nr k k' s, (s < 5 * nr)%nat ->
  let rad := gkl_radii O ri nr in
  Dsf nr rad k k' s
  = stf_kolmogorov O (5 / 10 * sqrt ((nth k rad 0 * nth k rad 0 + nth k' rad 0 * nth k' rad 0)
                                      - 2 * nth k rad 0 * nth k' rad 0 * cos (INR s * 2 * PI / INR (5 * nr)))).
Proof. intros ri nr k k' s Hs rad. apply Dsf_is_kolmogorov_of_separation; [apply gkl_radii_nonneg | exact Hs]. Qed.

(* the azimuthal double sum for two rows of the azimuthal basis against an even sequence *)
Lemma az_row_conv nord N o o' (d : nat -> R) :
  (o < nord)%nat -> (o' < nord)%nat -> (az_freq o + az_freq o' < N)%nat ->
  (forall s, (0 < s < N)%nat -> d (N - s)%nat = d s) ->
  cconv N (fun t => nth t (nth o (azimuthal O nord N) []) 0) (fun t => nth t (nth o' (azimuthal O nord N) []) 0) d
  = if (o =? o')%nat then (if (o =? 0)%nat then INR N else INR N / 2) * Dc N d (az_freq o) else 0.
Proof.
  intros Ho Ho' Hal He.
  rewrite (cconv_ext N _
     (fun t => if az_is_cos o then cos (INR (az_freq o) * theta N t) else sin (INR (az_freq o) * theta N t)) _
     (fun t => if az_is_cos o' then cos (INR (az_freq o') * theta N t) else sin (INR (az_freq o') * theta N t)) d).
  2:{ intros t Ht. apply (ent_azimuthal G K nord N o t Ho Ht). }
  2:{ intros t Ht. apply (ent_azimuthal G K nord N o' t Ho' Ht). }
  pose proof (Ds_even_zero N d (az_freq o) He) as Hs0.
  destruct (az_class o) as [[Ea [Ca Fa]]|[[qa [Ea [Ca [Fa _]]]]|[qa [Ea [Ca [Fa _]]]]]];
  destruct (az_class o') as [[Eb [Cb Fb]]|[[qb [Eb [Cb [Fb _]]]]|[qb [Eb [Cb [Fb _]]]]]];
  rewrite Ca, Cb;
  [ rewrite cconv_cos_cos by exact Hal | rewrite cconv_cos_cos by exact Hal | rewrite cconv_cos_sin by exact Hal
  | rewrite cconv_cos_cos by exact Hal | rewrite cconv_cos_cos by exact Hal | rewrite cconv_cos_sin by exact Hal
  | rewrite cconv_sin_cos by exact Hal | rewrite cconv_sin_cos by exact Hal | rewrite cconv_sin_sin by exact Hal ];
  rewrite ?Hs0; rewrite ?Fa, ?Fb;
  repeat match goal with |- context [(?x =? ?y)%nat] => destruct (Nat.eqb_spec x y); try lia end;
  try ring.
Qed.

(* (4) two modes built on different azimuthal rows (different frequency, or cos / sin of the same frequency)
   are uncorrelated, whatever their radial parts *)
Theorem kl_diagonalises_cross_order : forall nr rad nord (kers : list mat) t q o t' q' o',
  (o < nord)%nat -> (o' < nord)%nat -> o <> o' -> (az_freq o + az_freq o' < 5 * nr)%nat ->
  cov2 nr rad (kl_fun G K kers (azimuthal O nord (5 * nr)) t q o)
              (kl_fun G K kers (azimuthal O nord (5 * nr)) t' q' o') = 0.
Proof.
  intros nr rad nord kers t q o t' q' o' Ho Ho' Hne Hal. unfold kl_fun. rewrite cov2_separable.
  rewrite rsum_zero_ext; [ring|]. intros k Hk. apply rsum_zero_ext. intros k' Hk'.
  pose proof (az_row_conv nord (5 * nr) o o' (Dsf nr rad k k') Ho Ho' Hal
                (fun s Hs => Dsf_even nr rad k k' s Hs)) as Hc.
  unfold cconv in Hc. rewrite Hc. destruct (Nat.eqb_spec o o'); [contradiction|]. ring.
Qed.

(* same row: the azimuthal sum leaves the cosine transform of the structure function at that frequency *)
Lemma cov2_same_row nr rad nord (R1 R2 : list R) o :
  (o < nord)%nat -> (2 * az_freq o < 5 * nr)%nat ->
  cov2 nr rad (sfi O R1 (nth o (azimuthal O nord (5 * nr)) [])) (sfi O R2 (nth o (azimuthal O nord (5 * nr)) []))
  = - (1 / 2) * / ((INR nr * INR (5 * nr)) ^ 2) * (if (o =? 0)%nat then INR (5 * nr) else INR (5 * nr) / 2) *
    rsum (fun k => rsum (fun k' => nth k R1 0 * nth k' R2 0 * Dc (5 * nr) (Dsf nr rad k k') (az_freq o)) nr) nr.
Proof.
  intros Ho Hal. rewrite cov2_separable. rewrite !Rmult_assoc. f_equal. f_equal.
  rewrite <- rsum_scal_l. apply rsum_ext. intros k Hk. rewrite <- rsum_scal_l. apply rsum_ext. intros k' Hk'.
  pose proof (az_row_conv nord (5 * nr) o o (Dsf nr rad k k') Ho Ho ltac:(lia)
                (fun s Hs => Dsf_even nr rad k k' s Hs)) as Hc.
  unfold cconv in Hc. rewrite Hc. rewrite Nat.eqb_refl. ring.
Qed.

(* the entries of kernel[:, :, p] are the cosine transforms, up to fnorm * 2 pi / N *)
Lemma wf_kernel_order ri nr rad p : wf_mat nr nr (kernel_order O ri nr rad p).
Proof. unfold kernel_order. apply wf_map_seq. intros i _. rewrite map_length, seq_length. reflexivity. Qed.

Lemma kernel_order_Dc ri nr rad p k k' : 1 - ri * ri <> 0 -> (k < nr)%nat -> (k' < nr)%nat -> (p < 5 * nr)%nat ->
  ent (kernel_order O ri nr rad p) k k'
  = - (1 / (2 * INR (5 * nr) * (1 - ri * ri))) * Dc (5 * nr) (Dsf nr rad k k') p.
Proof.
  intros Hri Hk Hk' Hp. assert (HN' : 0 < INR (5 * nr)) by (apply lt_0_INR; lia).
  unfold ent, kernel_order. rewrite (nth_map_seq _ nr k []) by exact Hk. rewrite nth_map_seq by exact Hk'.
  destruct (kernel_real_even G K ri nr rad (Nat.max k k') (Nat.min k k')) as [Hkp [Hlen _]]. cbv zeta in Hkp, Hlen.
  rewrite Hkp. pose proof (dft_re_cos _ (5 * nr) p Hlen Hp) as Hd. ncx.
  rewrite (nth_map_lt _ _ p 0 (czero O)) by (rewrite dft_length, map_length, Hlen; exact Hp).
  cbv beta. ncx. rewrite Hd.
  assert (Hs : kl_sf G K nr rad (Nat.max k k') (Nat.min k k') = kl_sf G K nr rad k k').
  { destruct (Nat.le_ge_cases k k') as [H|H].
    - rewrite Nat.max_r, Nat.min_l by exact H. apply kl_sf_sym.
    - rewrite Nat.max_l, Nat.min_r by exact H. reflexivity. }
  rewrite Hs. unfold Dsf. pose proof PI_RGT_0. field. repeat split; lra.
Qed.

(* ------------------------------------------------------------------------------------------ *)
(* radial part: eigen-equations                                                                 *)
(* ------------------------------------------------------------------------------------------ *)

(* eigh contract (M v_b = lam_b v_b, orthonormal columns) => V^T M V = diag(lam), as an explicit double sum *)
Lemma quad_eig n (M vs : mat) (lam : list R) a b : wf_mat n n M -> wf_mat n n vs ->
  (forall b, (b < n)%nat -> mvec O M (mcol vs b) = vscale O (nth b lam 0) (mcol vs b)) ->
  (forall a b, (a < n)%nat -> (b < n)%nat ->
     rsum (fun k => ent vs k a * ent vs k b) n = if (a =? b)%nat then 1 else 0) ->
  (a < n)%nat -> (b < n)%nat ->
  rsum (fun k => rsum (fun k' => ent vs k a * ent M k k' * ent vs k' b) n) n
  = if (a =? b)%nat then nth a lam 0 else 0.
Proof.
  intros HM Hvs Heig Hon Ha Hb.
  assert (Hl : length vs = n) by (destruct Hvs; assumption).
  rewrite (rsum_ext _ (fun k => nth b lam 0 * (ent vs k a * ent vs k b)) n).
  2:{ intros k Hk.
      rewrite (rsum_ext _ (fun k' => ent vs k a * (ent M k k' * nth k' (mcol vs b) 0)) n)
        by (intros; rewrite nth_mcol; ring).
      rewrite rsum_scal_l.
      rewrite <- (nth_mvec_rsum G K n n M (mcol vs b) k HM) by (try rewrite mcol_length; assumption).
      rewrite (Heig b Hb), (nth_vscale G K), nth_mcol. ring. }
  rewrite rsum_scal_l, Hon by assumption. destruct (Nat.eqb_spec a b) as [->|_]; ring.
Qed.

Lemma ent_radialp nr vs k q : ent (radialp O nr vs) k q = sqrt (INR (2 * nr)) * ent vs k q.
Proof.
  unfold radialp. rewrite (ent_map_map (fun v => nmul O (nsqrt O (kz O (2 * nr))) v)) by (rops; ring).
  unfold kz. rops. rewrite <- INR_IZR_INZ. reflexivity.
Qed.

Lemma wf_orderp_matrix ri nr kp : wf_mat nr nr kp -> wf_mat nr nr (orderp_matrix O ri nr kp).
Proof. intros H. unfold orderp_matrix. apply wf_map_map. exact H. Qed.

(* (3) order p >= 1: the modes built from the eigenvectors of M_p = fktom * kernel[:, :, p] diagonalise cov2,
   with the eigenvalues of M_p as variances *)
Theorem kl_diagonalises_order_p : forall ri nr rad p (vs : mat) (lam : list R) nord (kers : list mat) o o' q q',
  (1 <= nr)%nat -> 1 - ri * ri <> 0 -> (1 <= p)%nat -> (2 * p < 5 * nr)%nat ->
  wf_mat nr nr vs ->
  (forall b, (b < nr)%nat ->
     mvec O (orderp_matrix O ri nr (kernel_order O ri nr rad p)) (mcol vs b) = vscale O (nth b lam 0) (mcol vs b)) ->
  (forall a b, (a < nr)%nat -> (b < nr)%nat ->
     rsum (fun k => ent vs k a * ent vs k b) nr = if (a =? b)%nat then 1 else 0) ->
  nth p kers [] = radialp O nr vs ->
  (o < nord)%nat -> (o' < nord)%nat -> az_freq o = p -> az_freq o' = p -> (q < nr)%nat -> (q' < nr)%nat ->
  cov2 nr rad (kl_fun G K kers (azimuthal O nord (5 * nr)) p q o)
              (kl_fun G K kers (azimuthal O nord (5 * nr)) p q' o')
  = if (o =? o')%nat && (q =? q')%nat then nth q lam 0 else 0.
Proof.
  intros ri nr rad p vs lam nord kers o o' q q' Hnr Hri Hp Hal Hwf Heig Hon Hk Ho Ho' Hf Hf' Hq Hq'.
  destruct (Nat.eqb_spec o o') as [<-|Hne]; cbn [andb].
  2:{ apply kl_diagonalises_cross_order; try assumption. lia. }
  assert (Ho0 : o <> 0%nat) by (intros ->; change (az_freq 0) with 0%nat in Hf; lia).
  assert (HN' : 0 < INR (5 * nr)) by (apply lt_0_INR; lia).
  assert (Hn' : 0 < INR nr) by (apply lt_0_INR; lia).
  unfold kl_fun. rewrite Hk. rewrite cov2_same_row by (try assumption; lia).
  destruct (Nat.eqb_spec o 0) as [E|_]; [contradiction|]. rewrite Hf.
  set (M := orderp_matrix O ri nr (kernel_order O ri nr rad p)) in *.
  rewrite (rsum_ext _ (fun k => rsum (fun k' =>
      (INR (2 * nr) * - (2 * INR (5 * nr) * INR nr)) * (ent vs k q * ent M k k' * ent vs k' q')) nr) nr).
  2:{ intros k Hk1. apply rsum_ext. intros k' Hk2. rewrite !nth_mcol, !ent_radialp.
      unfold M. rewrite (ent_orderp_matrix G K). rewrite kernel_order_Dc by (try assumption; lia).
      pose proof (sqrt_INR_sqr (2 * nr)) as Hsq. set (sq := sqrt (INR (2 * nr))) in *.
      rewrite <- Hsq. field. split; lra. }
  rewrite (rsum_ext _ (fun k => (INR (2 * nr) * - (2 * INR (5 * nr) * INR nr)) *
                        rsum (fun k' => ent vs k q * ent M k k' * ent vs k' q') nr) nr)
    by (intros; apply rsum_scal_l).
  rewrite rsum_scal_l.
  rewrite (quad_eig nr M vs lam q q' (wf_orderp_matrix ri nr _ (wf_kernel_order ri nr rad p)) Hwf Heig Hon Hq Hq').
  rewrite (mult_INR 2 nr). change (INR 2) with 2. destruct (q =? q')%nat; field; split; lra.
Qed.

(* ---- order 0 ---- *)

Lemma rsum4_perm (T : nat -> nat -> nat -> nat -> R) n m :
  rsum (fun k => rsum (fun k' => rsum (fun i => rsum (fun j => T k k' i j) m) m) n) n
  = rsum (fun i => rsum (fun j => rsum (fun k' => rsum (fun k => T k k' i j) n) n) m) m.
Proof.
  rewrite (rsum_ext _ (fun k => rsum (fun i => rsum (fun k' => rsum (fun j => T k k' i j) m) n) m) n)
    by (intros; apply rsum_exch).
  rewrite rsum_exch. apply rsum_ext. intros i Hi.
  rewrite (rsum_ext _ (fun k => rsum (fun j => rsum (fun k' => T k k' i j) n) m) n)
    by (intros; apply rsum_exch).
  rewrite rsum_exch. apply rsum_ext. intros j Hj. apply rsum_exch.
Qed.

Lemma quad_transfer n m (u w : nat -> R) (S Z : nat -> nat -> R) :
  rsum (fun k => rsum (fun k' =>
     rsum (fun i => u i * S k i) m * Z k k' * rsum (fun j => w j * S k' j) m) n) n
  = rsum (fun i => rsum (fun j =>
     u i * rsum (fun k' => rsum (fun k => S k i * Z k k') n * S k' j) n * w j) m) m.
Proof.
  transitivity (rsum (fun k => rsum (fun k' => rsum (fun i => rsum (fun j =>
                   u i * S k i * Z k k' * (w j * S k' j)) m) m) n) n).
  { apply rsum_ext. intros k _. apply rsum_ext. intros k' _. rewrite <- !rsum_scal_r.
    apply rsum_ext. intros i _. rewrite <- rsum_scal_l. reflexivity. }
  rewrite rsum4_perm. apply rsum_ext. intros i _. apply rsum_ext. intros j _.
  rewrite <- rsum_scal_l, <- rsum_scal_r. apply rsum_ext. intros k' _.
  rewrite <- rsum_scal_r, <- rsum_scal_l, <- rsum_scal_r. apply rsum_ext. intros k _. ring.
Qed.

Lemma wf_order0_matrix ri nr zom : (1 <= nr)%nat -> wf_mat nr nr zom ->
  wf_mat (nr - 1) (nr - 1) (order0_matrix O ri nr zom).
Proof.
  intros Hnr Hz. unfold order0_matrix.
  assert (HS : wf_mat nr nr (transpose (piston_orth O nr)))
    by (apply wf_transpose; [apply wf_piston_orth | lia]).
  assert (Hb : wf_mat nr nr (mmul O (mmul O (transpose (piston_orth O nr)) zom)
                                   (transpose (transpose (piston_orth O nr))))).
  { apply (wf_mmul G K nr nr nr); [|apply wf_transpose; [exact HS|lia]|lia].
    apply (wf_mmul G K nr nr nr); [exact HS | exact Hz | lia]. }
  apply (wf_map_rows _ (nr - 1) nr (nr - 1)).
  - intros x Hx. rewrite map_length, firstn_length. lia.
  - apply (wf_firstn nr nr); [exact Hb | lia].
Qed.

Lemma ent_order0_matrix ri nr zom i j : (1 <= nr)%nat -> wf_mat nr nr zom ->
  (i < nr - 1)%nat -> (j < nr - 1)%nat ->
  ent (order0_matrix O ri nr zom) i j
  = (1 - ri * ri) / INR nr *
    rsum (fun k' => rsum (fun k => pso nr k i * ent zom k k') nr * pso nr k' j) nr.
Proof.
  intros Hnr Hz Hi Hj. unfold order0_matrix.
  set (Sm := piston_orth O nr).
  assert (HSm : wf_mat nr nr Sm) by apply wf_piston_orth.
  assert (HS : wf_mat nr nr (transpose Sm)) by (apply wf_transpose; [exact HSm | lia]).
  assert (HSt : wf_mat nr nr (transpose (transpose Sm))) by (apply wf_transpose; [exact HS | lia]).
  assert (Hsz : wf_mat nr nr (mmul O (transpose Sm) zom))
    by (apply (wf_mmul G K nr nr nr); [exact HS | exact Hz | lia]).
  set (B := mmul O (mmul O (transpose Sm) zom) (transpose (transpose Sm))).
  assert (Hb : wf_mat nr nr B) by (apply (wf_mmul G K nr nr nr); [exact Hsz | exact HSt | lia]).
  assert (HlB : length B = nr) by (destruct Hb; assumption).
  unfold ent.
  rewrite (nth_map_lt _ (firstn (nr - 1) B) i [] []) by (rewrite firstn_length; lia).
  rewrite nth_firstn' by exact Hi.
  assert (Hrow : length (nth i B []) = nr) by (apply (wf_nth_length nr nr B i Hb); lia).
  rewrite (nth_map_lt _ (firstn (nr - 1) (nth i B [])) j 0 0) by (rewrite firstn_length; lia).
  rewrite nth_firstn' by exact Hj.
  change (nth j (nth i B []) 0) with (ent B i j). unfold B.
  rewrite (ent_mmul G K nr nr nr) by (try assumption; lia).
  unfold fktom, kz. rops. rewrite <- INR_IZR_INZ. f_equal.
  apply rsum_ext. intros k' Hk'.
  rewrite (ent_mmul G K nr nr nr) by (try assumption; lia).
  rewrite (ent_transpose' nr nr (transpose Sm) j k' HS) by lia.
  rewrite (ent_transpose' nr nr Sm k' j HSm) by lia.
  unfold Sm at 2. rewrite (ent_piston_orth G K) by lia. f_equal.
  apply rsum_ext. intros k Hk.
  rewrite (ent_transpose' nr nr Sm k i HSm) by lia. unfold Sm. rewrite (ent_piston_orth G K) by lia.
  reflexivity.
Qed.

(* a piston-free column of radial0 is sqrt(nr) * S v0_a *)
Lemma radial0_col_free nr v0 k a : (1 <= nr)%nat -> (k < nr)%nat -> (a < nr - 1)%nat ->
  ent (radial0 O nr v0) k a = sqrt (INR nr) * rsum (fun i => ent v0 i a * pso nr k i) (nr - 1).
Proof.
  intros Hnr Hk Ha. rewrite (ent_radial0 G K) by lia. f_equal.
  destruct nr as [|m]; [lia|]. replace (S m - 1)%nat with m in * by lia. cbn [rsum].
  unfold v1e at 2. replace (S m - 1)%nat with m by lia. rewrite Nat.ltb_irrefl, andb_false_r.
  destruct (Nat.eqb_spec a m); [lia|]. cbn [andb]. rewrite Rmult_0_l, Rplus_0_r.
  apply rsum_ext. intros j Hj. unfold v1e. replace (S m - 1)%nat with m by lia.
  destruct (Nat.ltb_spec a m); [|lia]. destruct (Nat.ltb_spec j m); [|lia]. reflexivity.
Qed.

(* (5) order 0: the piston-free modes built from the eigenvectors of
   M_0 = fktom * (S^T kernel[:, :, 0] S)[0:nr-1, 0:nr-1] diagonalise cov2 *)
Theorem kl_diagonalises_order_0 : forall ri nr rad (v0 : mat) (lam0 : list R) nord (kers : list mat) a b,
  (1 <= nr)%nat -> 1 - ri * ri <> 0 -> (0 < nord)%nat ->
  wf_mat (nr - 1) (nr - 1) v0 ->
  (forall b, (b < nr - 1)%nat ->
     mvec O (order0_matrix O ri nr (kernel_order O ri nr rad 0)) (mcol v0 b) = vscale O (nth b lam0 0) (mcol v0 b)) ->
  (forall a b, (a < nr - 1)%nat -> (b < nr - 1)%nat ->
     rsum (fun j => ent v0 j a * ent v0 j b) (nr - 1) = if (a =? b)%nat then 1 else 0) ->
  nth 0 kers [] = radial0 O nr v0 ->
  (a < nr - 1)%nat -> (b < nr - 1)%nat ->
  cov2 nr rad (kl_fun G K kers (azimuthal O nord (5 * nr)) 0 a 0)
              (kl_fun G K kers (azimuthal O nord (5 * nr)) 0 b 0)
  = if (a =? b)%nat then nth a lam0 0 else 0.
Proof.
  intros ri nr rad v0 lam0 nord kers a b Hnr Hri Hnord Hwf Heig Hon Hk Ha Hb.
  assert (HN' : 0 < INR (5 * nr)) by (apply lt_0_INR; lia).
  assert (Hn' : 0 < INR nr) by (apply lt_0_INR; lia).
  unfold kl_fun. rewrite Hk. rewrite cov2_same_row by (try assumption; change (az_freq 0) with 0%nat; lia).
  cbn [Nat.eqb]. change (az_freq 0) with 0%nat.
  set (Z := kernel_order O ri nr rad 0) in *. set (M := order0_matrix O ri nr Z) in *.
  assert (HZ : wf_mat nr nr Z) by apply wf_kernel_order.
  rewrite (rsum_ext _ (fun k => rsum (fun k' =>
      (INR nr * - (2 * INR (5 * nr) * (1 - ri * ri))) *
      (rsum (fun i => ent v0 i a * pso nr k i) (nr - 1) * ent Z k k'
       * rsum (fun j => ent v0 j b * pso nr k' j) (nr - 1))) nr) nr).
  2:{ intros k Hk1. apply rsum_ext. intros k' Hk2. rewrite !nth_mcol, !radial0_col_free by assumption.
      unfold Z. rewrite kernel_order_Dc by (try assumption; lia).
      pose proof (sqrt_INR_sqr nr) as Hsq. set (sq := sqrt (INR nr)) in *.
      rewrite <- Hsq at 1. field. split; lra. }
  rewrite (rsum_ext _ (fun k => (INR nr * - (2 * INR (5 * nr) * (1 - ri * ri))) *
      rsum (fun k' => rsum (fun i => ent v0 i a * pso nr k i) (nr - 1) * ent Z k k'
       * rsum (fun j => ent v0 j b * pso nr k' j) (nr - 1)) nr) nr)
    by (intros; apply rsum_scal_l).
  rewrite rsum_scal_l.
  rewrite (quad_transfer nr (nr - 1) (fun i => ent v0 i a) (fun j => ent v0 j b)
             (fun k i => pso nr k i) (fun k k' => ent Z k k')).
  rewrite (rsum_ext _ (fun i => rsum (fun j =>
      (INR nr / (1 - ri * ri)) * (ent v0 i a * ent M i j * ent v0 j b)) (nr - 1)) (nr - 1)).
  2:{ intros i Hi. apply rsum_ext. intros j Hj. unfold M.
      rewrite (ent_order0_matrix ri nr Z i j Hnr HZ Hi Hj). field. split; lra. }
  rewrite (rsum_ext _ (fun i => (INR nr / (1 - ri * ri)) *
      rsum (fun j => ent v0 i a * ent M i j * ent v0 j b) (nr - 1)) (nr - 1))
    by (intros; apply rsum_scal_l).
  rewrite rsum_scal_l.
  rewrite (quad_eig (nr - 1) M v0 lam0 a b (wf_order0_matrix ri nr Z Hnr HZ) Hwf Heig Hon Ha Hb).
  destruct (a =? b)%nat; field; repeat split; lra.
Qed.

(* ------------------------------------------------------------------------------------------ *)
(* (6) the selected modes of the model                                                          *)
(* ------------------------------------------------------------------------------------------ *)

Lemma concat_nth_block {A} n (blocks : list (list A)) t q d :
  Forall (fun b => length b = n) blocks -> (t < length blocks)%nat -> (q < n)%nat ->
  nth (n * t + q) (concat blocks) d = nth q (nth t blocks []) d.
Proof.
  revert t. induction blocks as [|b bs IH]; intros t Hf Ht Hq; [simpl in Ht; lia|].
  apply Forall_cons_iff in Hf. destruct Hf as [Hb Hbs]. cbn [concat].
  destruct t as [|t'].
  - rewrite Nat.mul_0_r, Nat.add_0_l. cbn [nth]. apply app_nth1. lia.
  - rewrite Nat.mul_succ_r. rewrite app_nth2 by lia. cbn [nth].
    replace (n * t' + n + q - length b)%nat with (n * t' + q)%nat by lia.
    apply IH; [exact Hbs | simpl in Ht; lia | exact Hq].
Qed.

(* evs : eigenvalues per order as eigh returns them (order 0: lam0 with the 0 of the piston appended);
   evs_flat = concat evs is the order-major reshape used by argsort and by evals_out.
   The piston (flat index nr-1) is excluded: -(1/2) D is a covariance only between piston-free functions. *)
Theorem kl_modes_diagonalise_covariance :
  forall ri nr rad nord nfunc (sorted : list nat) (kers : list mat)
         (v0 : mat) (lam0 : list R) (vsp : nat -> mat) (lamp : nat -> list R) (evs : list (list R)) pmax,
  (1 <= nr)%nat -> 1 - ri * ri <> 0 -> NoDup sorted ->
  (forall x, In x sorted -> (x < nr * S pmax)%nat) ->
  (2 * pmax < nord)%nat -> (2 * pmax < 5 * nr)%nat ->
  (* order 0: eigh contract *)
  wf_mat (nr - 1) (nr - 1) v0 ->
  (forall b, (b < nr - 1)%nat ->
     mvec O (order0_matrix O ri nr (kernel_order O ri nr rad 0)) (mcol v0 b) = vscale O (nth b lam0 0) (mcol v0 b)) ->
  (forall a b, (a < nr - 1)%nat -> (b < nr - 1)%nat ->
     rsum (fun j => ent v0 j a * ent v0 j b) (nr - 1) = if (a =? b)%nat then 1 else 0) ->
  nth 0 kers [] = radial0 O nr v0 -> length lam0 = (nr - 1)%nat ->
  (* orders 1 .. pmax: eigh contract *)
  (forall p, (1 <= p <= pmax)%nat ->
     wf_mat nr nr (vsp p) /\
     (forall b, (b < nr)%nat ->
        mvec O (orderp_matrix O ri nr (kernel_order O ri nr rad p)) (mcol (vsp p) b)
        = vscale O (nth b (lamp p) 0) (mcol (vsp p) b)) /\
     (forall a b, (a < nr)%nat -> (b < nr)%nat ->
        rsum (fun k => ent (vsp p) k a * ent (vsp p) k b) nr = if (a =? b)%nat then 1 else 0) /\
     nth p kers [] = radialp O nr (vsp p) /\ length (lamp p) = nr /\ nth p evs [] = lamp p) ->
  length evs = S pmax -> nth 0 evs [] = lam0 ++ [0] ->
  let oi := oind nr nfunc sorted in
  forall i i', (i < length oi)%nat -> (i' < length oi)%nat ->
    nth i oi 0%nat <> (nr - 1)%nat -> nth i' oi 0%nat <> (nr - 1)%nat ->
    cov2 nr rad (kl_mode G K kers nr nord (5 * nr) oi i) (kl_mode G K kers nr nord (5 * nr) oi i')
    = if (i =? i')%nat then nth i (evals_out O (concat evs) oi) 0 else 0.
Proof.
  intros ri nr rad nord nfunc sorted kers v0 lam0 vsp lamp evs pmax Hnr Hri Hnd Hrange Hnord Hal
         Hwf0 Heig0 Hon0 Hk0 Hl0 Hkp Hlev Hev0 oi i i' Hi Hi' Hnp Hnp'.
  assert (Hblocks : Forall (fun b => length b = nr) evs).
  { apply Forall_forall. intros b Hb. destruct (In_nth _ _ [] Hb) as [t [Ht Hnt]]. subst b.
    destruct t as [|t].
    - rewrite Hev0, app_length, Hl0. cbn [length]. lia.
    - destruct (Hkp (S t) ltac:(lia)) as [_ [_ [_ [_ [Hll He]]]]]. rewrite He. exact Hll. }
  assert (Hdesc : forall n, (n < length oi)%nat ->
            nth n (tord nr oi) 0%nat = (nth n oi 0 / nr)%nat /\
            nth n (pio nr oi) 0%nat = (nth n oi 0 mod nr)%nat /\
            (nth n oi 0 / nr <= pmax)%nat /\ (nth n oi 0 mod nr < nr)%nat /\
            (nth n (oord nr oi) 0 <= 2 * pmax)%nat /\
            az_freq (nth n (oord nr oi) 0%nat) = (nth n oi 0 / nr)%nat /\
            ((nth n oi 0 / nr = 0)%nat -> nth n (oord nr oi) 0%nat = 0%nat) /\
            nth n (evals_out O (concat evs) oi) 0
            = nth (nth n oi 0 mod nr)%nat (nth (nth n oi 0 / nr)%nat evs []) 0).
  { intros n Hn. pose proof (Hrange _ (oind_in_sorted nr nfunc sorted n Hn)) as Hx. fold oi in Hx.
    assert (Htd : nth n (tord nr oi) 0%nat = (nth n oi 0 / nr)%nat)
      by (unfold tord; apply (nth_map_lt (fun y => (y / nr)%nat) oi n 0%nat 0%nat Hn)).
    assert (Hpd : nth n (pio nr oi) 0%nat = (nth n oi 0 mod nr)%nat)
      by (unfold pio; apply (nth_map_lt (fun y => (y mod nr)%nat) oi n 0%nat 0%nat Hn)).
    assert (Ht : (nth n oi 0 / nr <= pmax)%nat)
      by (apply Nat.lt_succ_r; apply Nat.div_lt_upper_bound; lia).
    assert (Hq : (nth n oi 0 mod nr < nr)%nat) by (apply Nat.mod_upper_bound; lia).
    split; [exact Htd|]. split; [exact Hpd|]. split; [exact Ht|]. split; [exact Hq|].
    split; [rewrite nth_oord by exact Hn; lia|].
    split; [rewrite oord_freq_is_tord by exact Hn; exact Htd|].
    split.
    - intros H0. rewrite nth_oord by exact Hn. rewrite H0. reflexivity.
    - unfold evals_out. rewrite (nth_map_lt _ oi n 0 0%nat Hn).
      rewrite (Nat.div_mod (nth n oi 0%nat) nr) at 1 by lia.
      apply concat_nth_block; [exact Hblocks | lia | exact Hq]. }
  destruct (Hdesc i Hi) as [T1 [P1 [B1 [Q1 [O1 [F1 [Z1 E1]]]]]]].
  destruct (Hdesc i' Hi') as [T2 [P2 [B2 [Q2 [O2 [F2 [Z2 E2]]]]]]].
  unfold kl_mode. rewrite !(kl_fun_model G K). rewrite T1, T2, P1, P2.
  set (x := nth i oi 0%nat) in *. set (x' := nth i' oi 0%nat) in *.
  set (o := nth i (oord nr oi) 0%nat) in *. set (o' := nth i' (oord nr oi) 0%nat) in *.
  assert (Hinj : o = o' -> (x mod nr = x' mod nr)%nat -> i = i').
  { intros Eo Eq. apply (oind_descriptors_injective nr nfunc sorted i i'); try assumption; try lia.
    fold oi. rewrite P1, P2. exact Eq. }
  destruct (Nat.eq_dec o o') as [Eo|Eo].
  2:{ rewrite kl_diagonalises_cross_order by (try assumption; lia).
      destruct (Nat.eqb_spec i i') as [Eii|_]; [|reflexivity]. exfalso. apply Eo. unfold o, o'. rewrite Eii. reflexivity. }
  assert (Et : (x / nr = x' / nr)%nat) by (rewrite <- F1, <- F2, Eo; reflexivity).
  destruct (Nat.eq_dec (x / nr) 0) as [E0|E0].
  - (* order 0 *)
    assert (Ho0 : o = 0%nat) by (apply Z1; exact E0).
    assert (Ho0' : o' = 0%nat) by (apply Z2; rewrite <- Et; exact E0).
    assert (Hx : (x < nr)%nat) by (apply Nat.div_small_iff; [lia | exact E0]).
    assert (Hx' : (x' < nr)%nat) by (apply Nat.div_small_iff; [lia | rewrite <- Et; exact E0]).
    rewrite <- Et, E0, Ho0, Ho0'.
    rewrite (kl_diagonalises_order_0 ri nr rad v0 lam0 nord kers (x mod nr) (x' mod nr))
      by (try assumption; try lia; rewrite Nat.mod_small by assumption; lia).
    destruct (Nat.eqb_spec (x mod nr) (x' mod nr)) as [Eq|Eq].
    + assert (Eii : i = i') by (apply Hinj; assumption). rewrite <- Eii, Nat.eqb_refl.
      rewrite E1. fold x. rewrite E0, Hev0. rewrite app_nth1; [reflexivity|].
      rewrite Hl0, Nat.mod_small by assumption. lia.
    + destruct (Nat.eqb_spec i i') as [Eii|_]; [|reflexivity]. exfalso. apply Eq. unfold x, x'. rewrite Eii. reflexivity.
  - (* order p >= 1 *)
    assert (Hp : (1 <= x / nr <= pmax)%nat) by lia.
    destruct (Hkp _ Hp) as [Hwf [Heig [Hon [Hk [Hll Hev]]]]].
    rewrite <- Et.
    rewrite (kl_diagonalises_order_p ri nr rad (x / nr)%nat (vsp (x / nr)%nat) (lamp (x / nr)%nat) nord kers
               o o' (x mod nr) (x' mod nr)) by (try assumption; try lia).
    destruct (Nat.eqb_spec o o') as [_|Ec]; [|contradiction]. cbn [andb].
    destruct (Nat.eqb_spec (x mod nr) (x' mod nr)) as [Eq|Eq].
    + assert (Eii : i = i') by (apply Hinj; assumption). rewrite <- Eii, Nat.eqb_refl.
      rewrite E1. fold x. rewrite Hev. reflexivity.
    + destruct (Nat.eqb_spec i i') as [Eii|_]; [|reflexivity]. exfalso. apply Eq. unfold x, x'. rewrite Eii. reflexivity.
Qed.

(* ------------------------------------------------------------------------------------------ *)
(* non-vacuity of the eigen-equation premises                                                   *)
(* ------------------------------------------------------------------------------------------ *)

(* a 1 x 1 matrix has the eigenvector (1) with its entry as eigenvalue *)
Lemma eig_1x1 (M : mat) : wf_mat 1 1 M ->
  wf_mat 1 1 [[1]] /\
  (forall b, (b < 1)%nat -> mvec O M (mcol [[1]] b) = vscale O (nth b [ent M 0 0] 0) (mcol [[1]] b)) /\
  (forall a b, (a < 1)%nat -> (b < 1)%nat ->
     rsum (fun k => ent [[1]] k a * ent [[1]] k b) 1 = if (a =? b)%nat then 1 else 0).
Proof.
  intros [Hl Hf]. destruct M as [|r [|r' M']]; try discriminate Hl.
  apply Forall_cons_iff in Hf. destruct Hf as [Hr _]. destruct r as [|m [|m' r'']]; try discriminate Hr.
  split; [split; [reflexivity | repeat constructor]|]. split.
  - intros b Hb. destruct b; [|lia]. unfold mvec, vscale, mcol, ent. cbn [map nth].
    rewrite (ndot_cons G K), (ndot_nil_l G K). rops. f_equal. ring.
  - intros a b Ha Hb. destruct a; [|lia]. destruct b; [|lia]. unfold ent. cbn [rsum nth Nat.eqb]. ring.
Qed.

(* order 0, nr = 2: M_0 is 1 x 1 *)
Example order0_eig_premises_satisfiable : forall ri rad, exists (v0 : mat) (lam0 : list R),
  wf_mat (2 - 1) (2 - 1) v0 /\
  (forall b, (b < 2 - 1)%nat ->
     mvec O (order0_matrix O ri 2 (kernel_order O ri 2 rad 0)) (mcol v0 b) = vscale O (nth b lam0 0) (mcol v0 b)) /\
  (forall a b, (a < 2 - 1)%nat -> (b < 2 - 1)%nat ->
     rsum (fun j => ent v0 j a * ent v0 j b) (2 - 1) = if (a =? b)%nat then 1 else 0) /\
  length lam0 = (2 - 1)%nat.
Proof.
  intros ri rad. set (M := order0_matrix O ri 2 (kernel_order O ri 2 rad 0)).
  assert (HM : wf_mat 1 1 M) by (apply (wf_order0_matrix ri 2); [lia | apply wf_kernel_order]).
  destruct (eig_1x1 M HM) as [H1 [H2 H3]].
  exists [[1]], [ent M 0 0]. split; [exact H1|]. split; [exact H2|]. split; [exact H3 | reflexivity].
Qed.

(* order p, nr = 1: M_p is 1 x 1 *)
Example orderp_eig_premises_satisfiable : forall ri rad p, exists (vs : mat) (lam : list R),
  wf_mat 1 1 vs /\
  (forall b, (b < 1)%nat ->
     mvec O (orderp_matrix O ri 1 (kernel_order O ri 1 rad p)) (mcol vs b) = vscale O (nth b lam 0) (mcol vs b)) /\
  (forall a b, (a < 1)%nat -> (b < 1)%nat ->
     rsum (fun k => ent vs k a * ent vs k b) 1 = if (a =? b)%nat then 1 else 0) /\
  length lam = 1%nat.
Proof.
  intros ri rad p. set (M := orderp_matrix O ri 1 (kernel_order O ri 1 rad p)).
  assert (HM : wf_mat 1 1 M) by (apply wf_orderp_matrix, wf_kernel_order).
  destruct (eig_1x1 M HM) as [H1 [H2 H3]].
  exists [[1]], [ent M 0 0]. split; [exact H1|]. split; [exact H2|]. split; [exact H3 | reflexivity].
Qed.

(* all premises of kl_modes_diagonalise_covariance together: nr = 1 ring, N = 5 azimuthal samples, orders 1 and 2
   (cos / sin pairs), ri = 0; no order-0 piston-free mode exists for nr = 1 *)
Example kl_modes_diag_premises_satisfiable : forall rad,
  exists (sorted : list nat) (kers : list mat) (v0 : mat) (lam0 : list R)
         (vsp : nat -> mat) (lamp : nat -> list R) (evs : list (list R)) (pmax nord : nat),
  1 - 0 * 0 <> 0 /\ NoDup sorted /\ (forall x, In x sorted -> (x < 1 * S pmax)%nat) /\
  (2 * pmax < nord)%nat /\ (2 * pmax < 5 * 1)%nat /\
  wf_mat (1 - 1) (1 - 1) v0 /\
  (forall b, (b < 1 - 1)%nat ->
     mvec O (order0_matrix O 0 1 (kernel_order O 0 1 rad 0)) (mcol v0 b) = vscale O (nth b lam0 0) (mcol v0 b)) /\
  (forall a b, (a < 1 - 1)%nat -> (b < 1 - 1)%nat ->
     rsum (fun j => ent v0 j a * ent v0 j b) (1 - 1) = if (a =? b)%nat then 1 else 0) /\
  nth 0 kers [] = radial0 O 1 v0 /\ length lam0 = (1 - 1)%nat /\
  (forall p, (1 <= p <= pmax)%nat ->
     wf_mat 1 1 (vsp p) /\
     (forall b, (b < 1)%nat ->
        mvec O (orderp_matrix O 0 1 (kernel_order O 0 1 rad p)) (mcol (vsp p) b)
        = vscale O (nth b (lamp p) 0) (mcol (vsp p) b)) /\
     (forall a b, (a < 1)%nat -> (b < 1)%nat ->
        rsum (fun k => ent (vsp p) k a * ent (vsp p) k b) 1 = if (a =? b)%nat then 1 else 0) /\
     nth p kers [] = radialp O 1 (vsp p) /\ length (lamp p) = 1%nat /\ nth p evs [] = lamp p) /\
  length evs = S pmax /\ nth 0 evs [] = lam0 ++ [0] /\
  oind 1 4 sorted = [1; 1; 2; 2]%nat /\
  (forall i, (i < 4)%nat -> nth i (oind 1 4 sorted) 0%nat <> (1 - 1)%nat).
Proof.
  intros rad.
  set (Mp := fun p => orderp_matrix O 0 1 (kernel_order O 0 1 rad p)).
  set (lamp := fun p => [ent (Mp p) 0 0]).
  exists [1; 2]%nat, [radial0 O 1 []; radialp O 1 [[1]]; radialp O 1 [[1]]], [], [],
         (fun _ => [[1]]), lamp, [[] ++ [0]; lamp 1%nat; lamp 2%nat], 2%nat, 5%nat.
  split; [lra|]. split; [repeat constructor; cbn [In]; intuition lia|].
  split; [intros x Hx; cbn [In] in Hx; intuition lia|].
  split; [lia|]. split; [lia|]. split; [split; [reflexivity | constructor]|].
  split; [intros b Hb; lia|]. split; [intros a b Ha; lia|].
  split; [reflexivity|]. split; [reflexivity|].
  split; [|split; [reflexivity | split; [reflexivity | split; [reflexivity|]]]].
  - intros p Hp.
    assert (HM : wf_mat 1 1 (Mp p)) by (apply wf_orderp_matrix, wf_kernel_order).
    destruct (eig_1x1 (Mp p) HM) as [H1 [H2 H3]].
    split; [exact H1|]. split; [exact H2|]. split; [exact H3|].
    assert (Hc : p = 1%nat \/ p = 2%nat) by lia.
    destruct Hc as [-> | ->]; repeat apply conj; reflexivity.
  - intros i Hi. destruct i as [|[|[|[|i]]]]; cbn; lia.
Qed.

End Diag.

Print Assumptions az_conv_cos_cos.
Print Assumptions az_conv_sin_sin.
Print Assumptions az_conv_cos_sin.
Print Assumptions az_conv_const.
Print Assumptions cov2_separable.
Print Assumptions kl_diagonalises_order_p.
Print Assumptions kl_diagonalises_cross_order.
Print Assumptions kl_diagonalises_order_0.
Print Assumptions kl_modes_diagonalise_covariance.
Print Assumptions Dsf_is_kolmogorov_of_separation.
Print Assumptions gkl_radii_nonneg.
