(* C09: scaled Fourier transforms of model/Fourier.v are inverse pairs, linear, obey Parseval, and are
   centred for even N -- real/complex-number reading, all lengths N >= 1, all batch shapes. *)
From Coq Require Import Reals Lra Lia ZArith List Arith Psatz.
Require Import AOV.base.Num AOV.base.NumR AOV.base.RpowTac AOV.base.Cplx AOV.model.Fourier
               AOV.proofs.Dft_proofs.
Import ListNotations.
Local Open Scope R_scope.

Section C09.
Variables (G : R -> R) (K : R -> R -> R).
Local Notation O := (ROps G K).

Lemma nlen_INR {A} (l : list A) : nlen O l = INR (length l).
Proof. unfold nlen; rops. rewrite <- INR_IZR_INZ. reflexivity. Qed.

Lemma ktr_scale Kf r x : ktr G K Kf (map (cscale O r) x) = map (cscale O r) (ktr G K Kf x).
Proof.
  apply (nth_ext _ _ (czero O) (czero O)).
  - rewrite ktr_length, !map_length, ktr_length. reflexivity.
  - intros k Hk. rewrite ktr_length, map_length in Hk.
    rewrite nth_ktr by (rewrite map_length; exact Hk). rewrite map_length.
    rewrite (nth_map_lt _ _ _ _ (czero O)) by (rewrite ktr_length; exact Hk).
    rewrite nth_ktr by exact Hk. rewrite <- bigsum_scale. apply (bigsum_ext G K). intros n Hn.
    rewrite (nth_map_lt _ _ _ _ (czero O)) by exact Hn. cring.
Qed.
Lemma dft_scale r x : dft O (cscale_l O r x) = cscale_l O r (dft O x).
Proof. unfold cscale_l. rewrite !dft_ktr. apply ktr_scale. Qed.
Lemma idft_scale r x : idft O (cscale_l O r x) = cscale_l O r (idft O x).
Proof. unfold cscale_l. rewrite !idft_ktr. apply ktr_scale. Qed.

Lemma cscale3 a b c (z : R * R) : a * b * c = 1 -> cscale O a (cscale O b (cscale O c z)) = z.
Proof. intros H. destruct z as [u v]. cbv [cscale]; rops; cbn [fst snd].
  f_equal; [transitivity ((a * b * c) * u)|transitivity ((a * b * c) * v)]; try ring; rewrite H; ring. Qed.

(* ---- 1-D inverse pair, any length ---- *)
Lemma ift_ft x delta delta_f : delta_f * INR (length x) * delta = 1 ->
  ift O (ft O x delta) delta_f = x.
Proof.
  intros H. unfold ift, ft, cscale_l.
  rewrite nlen_INR, map_length, fftshift_length, dft_length, fftshift_length.
  rewrite <- map_ifftshift, ifftshift_fftshift.
  change (map (cscale O delta) (dft O (fftshift x))) with (cscale_l O delta (dft O (fftshift x))).
  rewrite idft_scale, idft_dft. unfold cscale_l.
  rewrite <- map_ifftshift, ifftshift_fftshift, !map_map.
  apply map_id_ext. intros z. apply cscale3. exact H.
Qed.
Lemma ft_ift X delta delta_f : delta_f * INR (length X) * delta = 1 ->
  ft O (ift O X delta_f) delta = X.
Proof.
  intros H. unfold ift, ft, cscale_l. rewrite nlen_INR.
  rewrite !map_map.
  rewrite <- map_fftshift, fftshift_ifftshift'.
  change (map (fun z => cscale O delta_f (cscale O (INR (length X)) z)) (idft O (ifftshift X)))
    with (map (fun z => cscale O delta_f (cscale O (INR (length X)) z)) (idft O (ifftshift X))).
  rewrite <- (map_map (cscale O (INR (length X))) (cscale O delta_f)).
  change (map (cscale O delta_f) ?l) with (cscale_l O delta_f l).
  fold (cscale_l O (INR (length X)) (idft O (ifftshift X))).
  fold (cscale_l O delta_f (cscale_l O (INR (length X)) (idft O (ifftshift X)))).
  rewrite !dft_scale, dft_idft. unfold cscale_l.
  rewrite <- !map_fftshift, fftshift_ifftshift', !map_map.
  apply map_id_ext. intros z.
  destruct z as [u v]. cbv [cscale]; rops; cbn [fst snd].
  f_equal; [transitivity ((delta_f * INR (length X) * delta) * u)
           |transitivity ((delta_f * INR (length X) * delta) * v)]; try ring; rewrite H; ring.
Qed.

(* ---- 2-D ---- *)
Lemma In_rot {A} (l : list A) n x : In x (skipn n l ++ firstn n l) <-> In x l.
Proof. rewrite <- (firstn_skipn n l) at 3. rewrite !in_app_iff. tauto. Qed.
Lemma In_fftshift {A} (l : list A) x : In x (fftshift l) <-> In x l.
Proof. unfold fftshift. apply In_rot. Qed.
Lemma In_ifftshift {A} (l : list A) x : In x (ifftshift l) <-> In x l.
Proof. unfold ifftshift. apply In_rot. Qed.

Lemma wf_fftshift2 {A} r c (m : list (list A)) : wf_mat r c m -> wf_mat r c (fftshift2 m).
Proof. intros [Hl Hf]. unfold fftshift2. split.
  - rewrite fftshift_length, map_length. exact Hl.
  - apply Forall_forall. intros row Hin. apply In_fftshift, in_map_iff in Hin.
    destruct Hin as [x [<- Hx]]. rewrite fftshift_length. rewrite Forall_forall in Hf. auto. Qed.
Lemma wf_ifftshift2 {A} r c (m : list (list A)) : wf_mat r c m -> wf_mat r c (ifftshift2 m).
Proof. intros [Hl Hf]. unfold ifftshift2. split.
  - rewrite ifftshift_length, map_length. exact Hl.
  - apply Forall_forall. intros row Hin. apply In_ifftshift, in_map_iff in Hin.
    destruct Hin as [x [<- Hx]]. rewrite ifftshift_length. rewrite Forall_forall in Hf. auto. Qed.
Lemma wf_cscale_m r c s (m : list (list (R * R))) : wf_mat r c m -> wf_mat r c (cscale_m O s m).
Proof. intros H. unfold cscale_m. apply wf_map; [|exact H]. intros x. unfold cscale_l. apply map_length. Qed.
Lemma ncols_wf {A} r c (m : list (list A)) : wf_mat r c m -> (0 < r)%nat -> ncols m = c.
Proof. intros [Hl Hf] Hr. destruct m as [|row m]; [simpl in Hl; lia|]. simpl. inversion Hf; assumption. Qed.

Lemma cscale_m_map s (m : list (list (R * R))) : cscale_m O s m = map (map (cscale O s)) m.
Proof. reflexivity. Qed.
Lemma fftshift2_map {A B} (g : A -> B) m : fftshift2 (map (map g) m) = map (map g) (fftshift2 m).
Proof. unfold fftshift2. rewrite map_map.
  rewrite (map_ext (fun x => fftshift (map g x)) (fun x => map g (fftshift x))) by (intros; symmetry; apply map_fftshift).
  rewrite <- (map_map fftshift (map g)). symmetry. apply map_fftshift. Qed.
Lemma ifftshift2_map {A B} (g : A -> B) m : ifftshift2 (map (map g) m) = map (map g) (ifftshift2 m).
Proof. unfold ifftshift2. rewrite map_map.
  rewrite (map_ext (fun x => ifftshift (map g x)) (fun x => map g (ifftshift x))) by (intros; symmetry; apply map_ifftshift).
  rewrite <- (map_map ifftshift (map g)). symmetry. apply map_ifftshift. Qed.

Lemma dft2_scale s m : dft2 O (cscale_m O s m) = cscale_m O s (dft2 O m).
Proof. unfold dft2. rewrite !cscale_m_map.
  assert (E1 : forall M, map (dft O) (map (map (cscale O s)) M) = map (map (cscale O s)) (map (dft O) M)).
  { intros M. rewrite !map_map. apply map_ext. intros row. apply (dft_scale s row). }
  rewrite E1, transpose_map, E1, transpose_map. reflexivity. Qed.
Lemma idft2_scale s m : idft2 O (cscale_m O s m) = cscale_m O s (idft2 O m).
Proof. unfold idft2. rewrite !cscale_m_map.
  assert (E1 : forall M, map (idft O) (map (map (cscale O s)) M) = map (map (cscale O s)) (map (idft O) M)).
  { intros M. rewrite !map_map. apply map_ext. intros row. apply (idft_scale s row). }
  rewrite E1, transpose_map, E1, transpose_map. reflexivity. Qed.

Lemma cscale2 a b (z : R * R) : a * b = 1 -> cscale O a (cscale O b z) = z.
Proof. intros H. destruct z as [u v]. cbv [cscale]; rops; cbn [fst snd].
  f_equal; [transitivity ((a * b) * u)|transitivity ((a * b) * v)]; try ring; rewrite H; ring. Qed.
Lemma map_map_id {A} (f : A -> A) (m : list (list A)) : (forall a, f a = a) -> map (map f) m = m.
Proof. intros H. apply map_id_ext. intros row. apply map_id_ext. exact H. Qed.

Lemma ifftshift2_scale s (m : list (list (R * R))) : ifftshift2 (cscale_m O s m) = cscale_m O s (ifftshift2 m).
Proof. rewrite !cscale_m_map. apply ifftshift2_map. Qed.
Lemma fftshift2_scale s (m : list (list (R * R))) : fftshift2 (cscale_m O s m) = cscale_m O s (fftshift2 m).
Proof. rewrite !cscale_m_map. apply fftshift2_map. Qed.
Lemma cscale_m_cancel a b (m : list (list (R * R))) : a * b = 1 -> cscale_m O a (cscale_m O b m) = m.
Proof. intros H. rewrite !cscale_m_map, map_map.
  rewrite (map_ext _ (map (fun z => cscale O a (cscale O b z)))) by (intros row; apply map_map).
  apply map_map_id. intros z. apply cscale2. exact H. Qed.
Lemma scale_sq c delta delta_f : delta_f * INR c * delta = 1 ->
  nsqr O (nmul O (nofZ O (Z.of_nat c)) delta_f) * nsqr O delta = 1.
Proof. intros H. unfold nsqr; rops. rewrite <- INR_IZR_INZ.
  transitivity ((delta_f * INR c * delta) * (delta_f * INR c * delta)); [ring|rewrite H; ring]. Qed.

Lemma ift2_ft2 r c m delta delta_f : wf_mat r c m -> (0 < r)%nat -> (0 < c)%nat ->
  delta_f * INR c * delta = 1 -> ift2 O (ft2 O m delta) delta_f = m.
Proof.
  intros Hwf Hr Hc H. unfold ift2.
  assert (Wf : wf_mat r c (ft2 O m delta)).
  { unfold ft2. apply wf_cscale_m, wf_fftshift2, wf_dft2; try assumption. apply wf_fftshift2; assumption. }
  rewrite (ncols_wf r c _ Wf Hr). unfold ft2.
  rewrite ifftshift2_scale, ifftshift2_fftshift2, idft2_scale.
  rewrite (idft2_dft2 G K r c) by (try apply wf_fftshift2; assumption).
  rewrite ifftshift2_scale, ifftshift2_fftshift2.
  apply cscale_m_cancel. apply scale_sq. exact H.
Qed.
Lemma ft2_ift2 r c m delta delta_f : wf_mat r c m -> (0 < r)%nat -> (0 < c)%nat ->
  delta_f * INR c * delta = 1 -> ft2 O (ift2 O m delta_f) delta = m.
Proof.
  intros Hwf Hr Hc H. unfold ft2, ift2. rewrite (ncols_wf r c _ Hwf Hr).
  rewrite fftshift2_scale, fftshift2_ifftshift2, dft2_scale.
  rewrite (dft2_idft2 G K r c) by (try apply wf_ifftshift2; assumption).
  rewrite fftshift2_scale, fftshift2_ifftshift2.
  apply cscale_m_cancel. rewrite Rmult_comm. apply scale_sq. exact H.
Qed.

(* batches: the transforms act independently on every leading index *)
Lemma ift_ft_batch xs delta delta_f n : Forall (fun x => length x = n) xs ->
  delta_f * INR n * delta = 1 -> ift_batch O (ft_batch O xs delta) delta_f = xs.
Proof. intros Hf H. unfold ift_batch, ft_batch. rewrite map_map.
  rewrite <- (map_id xs) at 2. apply map_ext_in. intros x Hx. rewrite Forall_forall in Hf.
  apply ift_ft. rewrite (Hf x Hx). exact H. Qed.
Lemma ift2_ft2_batch ms delta delta_f r c : Forall (wf_mat r c) ms -> (0 < r)%nat -> (0 < c)%nat ->
  delta_f * INR c * delta = 1 -> ift2_batch O (ft2_batch O ms delta) delta_f = ms.
Proof. intros Hf Hr Hc H. unfold ift2_batch, ft2_batch. rewrite map_map.
  rewrite <- (map_id ms) at 2. apply map_ext_in. intros m Hm. rewrite Forall_forall in Hf.
  apply (ift2_ft2 r c); auto. Qed.

(* ---- linearity ---- *)
Local Notation LC := (lincomb G K).
Lemma lincomb_skipn a b k : forall u v, length u = length v ->
  skipn k (LC a b u v) = LC a b (skipn k u) (skipn k v).
Proof. unfold lincomb. induction k as [|k IH]; intros [|p u] [|q v] H; try discriminate H; try reflexivity.
  cbn [skipn map map2]. apply IH. simpl in H. congruence. Qed.
Lemma lincomb_firstn a b k : forall u v, length u = length v ->
  firstn k (LC a b u v) = LC a b (firstn k u) (firstn k v).
Proof. unfold lincomb. induction k as [|k IH]; intros [|p u] [|q v] H; try discriminate H; try reflexivity.
  cbn [firstn map map2]. apply (f_equal (cons _)). apply IH. simpl in H. congruence. Qed.
Lemma lincomb_app a b : forall u1 v1 u2 v2, length u1 = length v1 ->
  LC a b (u1 ++ u2) (v1 ++ v2) = LC a b u1 v1 ++ LC a b u2 v2.
Proof. unfold lincomb. induction u1 as [|p u1 IH]; intros [|q v1] u2 v2 H; try discriminate H; [reflexivity|].
  cbn [app map map2]. apply (f_equal (cons _)). apply IH. simpl in H. congruence. Qed.
Lemma lincomb_fftshift a b u v : length u = length v ->
  fftshift (LC a b u v) = LC a b (fftshift u) (fftshift v).
Proof. intros H. unfold fftshift. rewrite lincomb_length by exact H. rewrite <- H.
  rewrite lincomb_skipn, lincomb_firstn by exact H. symmetry. apply lincomb_app.
  rewrite !skipn_length. congruence. Qed.
Lemma lincomb_scale a b s : forall u v, length u = length v ->
  cscale_l O s (LC a b u v) = LC a b (cscale_l O s u) (cscale_l O s v).
Proof. unfold lincomb, cscale_l. induction u as [|p u IH]; intros [|q v] H; try discriminate H; [reflexivity|].
  cbn [map map2]. f_equal; [cring|]. apply IH. simpl in H. congruence. Qed.

Lemma ft_linear a b x y delta : length x = length y ->
  ft O (LC a b x y) delta = LC a b (ft O x delta) (ft O y delta).
Proof.
  intros H. unfold ft. rewrite lincomb_fftshift by exact H.
  unfold lincomb at 1. rewrite dft_linear by (rewrite !fftshift_length; exact H).
  fold (LC a b (dft O (fftshift x)) (dft O (fftshift y))).
  rewrite lincomb_fftshift by (rewrite !dft_length, !fftshift_length; exact H).
  apply lincomb_scale. rewrite !fftshift_length, !dft_length, !fftshift_length. exact H.
Qed.

(* ---- Parseval ---- *)
Lemma energy_app (a b : list (R * R)) : energy O (a ++ b) = energy O a + energy O b.
Proof. unfold energy. rewrite map_app. apply nsum_R_app. Qed.
Lemma energy_fftshift (l : list (R * R)) : energy O (fftshift l) = energy O l.
Proof. unfold fftshift. rewrite energy_app, Rplus_comm, <- energy_app, firstn_skipn. reflexivity. Qed.
Lemma energy_scale s (l : list (R * R)) : energy O (cscale_l O s l) = s * s * energy O l.
Proof. unfold energy, cscale_l. rewrite map_map.
  rewrite (map_ext _ (fun z => (s * s) * cabs2 O z)).
  - rewrite <- (map_map (cabs2 O) (fun t => s * s * t)). apply nsum_R_scal.
  - intros [u v]. cbv [cabs2 cscale]; rops; cbn [fst snd]. ring. Qed.
Lemma parseval_ft x delta delta_f : delta_f * INR (length x) * delta = 1 ->
  energy O (ft O x delta) * delta_f = energy O x * delta.
Proof. intros H. unfold ft. rewrite energy_scale, energy_fftshift, parseval, fftshift_length, energy_fftshift.
  ncx. revert H. generalize (INR (length x)) (energy O x). intros n e H.
  transitivity ((delta_f * n * delta) * (e * delta)); [ring|rewrite H; ring]. Qed.

(* ---- centred form, even N: the origin is the centre sample N/2 in both domains ---- *)
Lemma ft_centred (x : list (R * R)) N k delta : length x = N -> Nat.even N = true -> (k < N)%nat ->
  nth k (ft O x delta) (czero O)
  = cscale O delta (bigsum (fun n => cmul O (nth n x (czero O))
       (cis O (- (2 * PI) * (INR n - INR (N / 2)) * (INR k - INR (N / 2)) / INR N))) N).
Proof. intros Hl He Hk. unfold ft, cscale_l.
  rewrite (nth_map_lt _ _ _ _ (czero O)) by (rewrite fftshift_length, dft_length, fftshift_length; ncx; lia).
  f_equal. apply centred_dft; assumption. Qed.
End C09.
