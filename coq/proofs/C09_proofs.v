(* C09: scaled Fourier transforms of model/Fourier.v are inverse pairs, linear, obey Parseval, and are
   centred (origin on sample N/2, floor, in both domains) -- real/complex-number reading, all lengths
   N >= 1 (odd and even), all batch shapes. *)
From Coq Require Import Reals Lra Lia ZArith List Arith Psatz.
Require Import AOV.base.Num AOV.base.NumR AOV.base.RpowTac AOV.base.Cplx AOV.model.Fourier
               AOV.proofs.Dft_proofs.
Import ListNotations.
Local Open Scope R_scope.

Section C09.
Variables (G : R -> R) (K : R -> R -> R).
Local Notation O := (ROps G K).

Lemma nlen_INR {A} (l : list A) : nlen O l = INR (length l).
Proof. unfold nlen; rops. rewrite <- INR_IZR_INZ. reflexivity. Qed.

Lemma ktr_scale Kf r x : ktr G K Kf (map (cscale O r) x) = map (cscale O r) (ktr G K Kf x).
Proof.
  apply (nth_ext _ _ (czero O) (czero O)).
  - rewrite ktr_length, !map_length, ktr_length. reflexivity.
  - intros k Hk. rewrite ktr_length, map_length in Hk.
    rewrite nth_ktr by (rewrite map_length; exact Hk). rewrite map_length.
    rewrite (nth_map_lt _ _ _ _ (czero O)) by (rewrite ktr_length; exact Hk).
    rewrite nth_ktr by exact Hk. rewrite <- bigsum_scale. apply (bigsum_ext G K). intros n Hn.
    rewrite (nth_map_lt _ _ _ _ (czero O)) by exact Hn. cring.
Qed.
Lemma dft_scale r x : dft O (cscale_l O r x) = cscale_l O r (dft O x).
Proof. unfold cscale_l. rewrite !dft_ktr. apply ktr_scale. Qed.
Lemma idft_scale r x : idft O (cscale_l O r x) = cscale_l O r (idft O x).
Proof. unfold cscale_l. rewrite !idft_ktr. apply ktr_scale. Qed.

Lemma cscale3 a b c (z : R * R) : a * b * c = 1 -> cscale O a (cscale O b (cscale O c z)) = z.
Proof. intros H. destruct z as [u v]. cbv [cscale]; rops; cbn [fst snd].
  f_equal; [transitivity ((a * b * c) * u)|transitivity ((a * b * c) * v)]; try ring; rewrite H; ring. Qed.

(* ---- 1-D inverse pair, any length ---- *)
Lemma ift_ft x delta delta_f : delta_f * INR (length x) * delta = 1 ->
  ift O (ft O x delta) delta_f = x.
Proof.
  intros H. unfold ift, ft, cscale_l.
  rewrite nlen_INR, map_length, fftshift_length, dft_length, ifftshift_length.
  rewrite <- map_ifftshift, ifftshift_fftshift.
  change (map (cscale O delta) (dft O (ifftshift x))) with (cscale_l O delta (dft O (ifftshift x))).
  rewrite idft_scale, idft_dft. unfold cscale_l.
  rewrite <- map_fftshift, fftshift_ifftshift', !map_map.
  apply map_id_ext. intros z. apply cscale3. exact H.
Qed.
Lemma ft_ift X delta delta_f : delta_f * INR (length X) * delta = 1 ->
  ft O (ift O X delta_f) delta = X.
Proof.
  intros H. unfold ift, ft, cscale_l. rewrite nlen_INR.
  rewrite !map_map.
  rewrite <- map_ifftshift, ifftshift_fftshift.
  rewrite <- (map_map (cscale O (INR (length X))) (cscale O delta_f)).
  change (map (cscale O delta_f) ?l) with (cscale_l O delta_f l).
  fold (cscale_l O (INR (length X)) (idft O (ifftshift X))).
  fold (cscale_l O delta_f (cscale_l O (INR (length X)) (idft O (ifftshift X)))).
  rewrite !dft_scale, dft_idft. unfold cscale_l.
  rewrite <- !map_fftshift, fftshift_ifftshift', !map_map.
  apply map_id_ext. intros z.
  destruct z as [u v]. cbv [cscale]; rops; cbn [fst snd].
  f_equal; [transitivity ((delta_f * INR (length X) * delta) * u)
           |transitivity ((delta_f * INR (length X) * delta) * v)]; try ring; rewrite H; ring.
Qed.

(* ---- 2-D ---- *)
Lemma In_rot {A} (l : list A) n x : In x (skipn n l ++ firstn n l) <-> In x l.
Proof. rewrite <- (firstn_skipn n l) at 3. rewrite !in_app_iff. tauto. Qed.
Lemma In_fftshift {A} (l : list A) x : In x (fftshift l) <-> In x l.
Proof. unfold fftshift. apply In_rot. Qed.
Lemma In_ifftshift {A} (l : list A) x : In x (ifftshift l) <-> In x l.
Proof. unfold ifftshift. apply In_rot. Qed.

Lemma wf_fftshift2 {A} r c (m : list (list A)) : wf_mat r c m -> wf_mat r c (fftshift2 m).
Proof. intros [Hl Hf]. unfold fftshift2. split.
  - rewrite fftshift_length, map_length. exact Hl.
  - apply Forall_forall. intros row Hin. apply In_fftshift, in_map_iff in Hin.
    destruct Hin as [x [<- Hx]]. rewrite fftshift_length. rewrite Forall_forall in Hf. auto. Qed.
Lemma wf_ifftshift2 {A} r c (m : list (list A)) : wf_mat r c m -> wf_mat r c (ifftshift2 m).
Proof. intros [Hl Hf]. unfold ifftshift2. split.
  - rewrite ifftshift_length, map_length. exact Hl.
  - apply Forall_forall. intros row Hin. apply In_ifftshift, in_map_iff in Hin.
    destruct Hin as [x [<- Hx]]. rewrite ifftshift_length. rewrite Forall_forall in Hf. auto. Qed.
Lemma wf_cscale_m r c s (m : list (list (R * R))) : wf_mat r c m -> wf_mat r c (cscale_m O s m).
Proof. intros H. unfold cscale_m. apply wf_map; [|exact H]. intros x. unfold cscale_l. apply map_length. Qed.
Lemma ncols_wf {A} r c (m : list (list A)) : wf_mat r c m -> (0 < r)%nat -> ncols m = c.
Proof. intros [Hl Hf] Hr. destruct m as [|row m]; [simpl in Hl; lia|]. simpl. inversion Hf; assumption. Qed.

Lemma cscale_m_map s (m : list (list (R * R))) : cscale_m O s m = map (map (cscale O s)) m.
Proof. reflexivity. Qed.
Lemma fftshift2_map {A B} (g : A -> B) m : fftshift2 (map (map g) m) = map (map g) (fftshift2 m).
Proof. unfold fftshift2. rewrite map_map.
  rewrite (map_ext (fun x => fftshift (map g x)) (fun x => map g (fftshift x))) by (intros; symmetry; apply map_fftshift).
  rewrite <- (map_map fftshift (map g)). symmetry. apply map_fftshift. Qed.
Lemma ifftshift2_map {A B} (g : A -> B) m : ifftshift2 (map (map g) m) = map (map g) (ifftshift2 m).
Proof. unfold ifftshift2. rewrite map_map.
  rewrite (map_ext (fun x => ifftshift (map g x)) (fun x => map g (ifftshift x))) by (intros; symmetry; apply map_ifftshift).
  rewrite <- (map_map ifftshift (map g)). symmetry. apply map_ifftshift. Qed.

Lemma dft2_scale s m : dft2 O (cscale_m O s m) = cscale_m O s (dft2 O m).
Proof. unfold dft2. rewrite !cscale_m_map.
  assert (E1 : forall M, map (dft O) (map (map (cscale O s)) M) = map (map (cscale O s)) (map (dft O) M)).
  { intros M. rewrite !map_map. apply map_ext. intros row. apply (dft_scale s row). }
  rewrite E1, transpose_map, E1, transpose_map. reflexivity. Qed.
Lemma idft2_scale s m : idft2 O (cscale_m O s m) = cscale_m O s (idft2 O m).
Proof. unfold idft2. rewrite !cscale_m_map.
  assert (E1 : forall M, map (idft O) (map (map (cscale O s)) M) = map (map (cscale O s)) (map (idft O) M)).
  { intros M. rewrite !map_map. apply map_ext. intros row. apply (idft_scale s row). }
  rewrite E1, transpose_map, E1, transpose_map. reflexivity. Qed.

Lemma cscale2 a b (z : R * R) : a * b = 1 -> cscale O a (cscale O b z) = z.
Proof. intros H. destruct z as [u v]. cbv [cscale]; rops; cbn [fst snd].
  f_equal; [transitivity ((a * b) * u)|transitivity ((a * b) * v)]; try ring; rewrite H; ring. Qed.
Lemma map_map_id {A} (f : A -> A) (m : list (list A)) : (forall a, f a = a) -> map (map f) m = m.
Proof. intros H. apply map_id_ext. intros row. apply map_id_ext. exact H. Qed.

Lemma ifftshift2_scale s (m : list (list (R * R))) : ifftshift2 (cscale_m O s m) = cscale_m O s (ifftshift2 m).
Proof. rewrite !cscale_m_map. apply ifftshift2_map. Qed.
Lemma fftshift2_scale s (m : list (list (R * R))) : fftshift2 (cscale_m O s m) = cscale_m O s (fftshift2 m).
Proof. rewrite !cscale_m_map. apply fftshift2_map. Qed.
Lemma cscale_m_cancel a b (m : list (list (R * R))) : a * b = 1 -> cscale_m O a (cscale_m O b m) = m.
Proof. intros H. rewrite !cscale_m_map, map_map.
  rewrite (map_ext _ (map (fun z => cscale O a (cscale O b z)))) by (intros row; apply map_map).
  apply map_map_id. intros z. apply cscale2. exact H. Qed.
Lemma scale_sq c delta delta_f : delta_f * INR c * delta = 1 ->
  nsqr O (nmul O (nofZ O (Z.of_nat c)) delta_f) * nsqr O delta = 1.
Proof. intros H. unfold nsqr; rops. rewrite <- INR_IZR_INZ.
  transitivity ((delta_f * INR c * delta) * (delta_f * INR c * delta)); [ring|rewrite H; ring]. Qed.

Lemma ift2_ft2 r c m delta delta_f : wf_mat r c m -> (0 < r)%nat -> (0 < c)%nat ->
  delta_f * INR c * delta = 1 -> ift2 O (ft2 O m delta) delta_f = m.
Proof.
  intros Hwf Hr Hc H. unfold ift2.
  assert (Wf : wf_mat r c (ft2 O m delta)).
  { unfold ft2. apply wf_cscale_m, wf_fftshift2, wf_dft2; try assumption. apply wf_ifftshift2; assumption. }
  rewrite (ncols_wf r c _ Wf Hr). unfold ft2.
  rewrite ifftshift2_scale, ifftshift2_fftshift2, idft2_scale.
  rewrite (idft2_dft2 G K r c) by (try apply wf_ifftshift2; assumption).
  rewrite fftshift2_scale, fftshift2_ifftshift2.
  apply cscale_m_cancel. apply scale_sq. exact H.
Qed.
Lemma ft2_ift2 r c m delta delta_f : wf_mat r c m -> (0 < r)%nat -> (0 < c)%nat ->
  delta_f * INR c * delta = 1 -> ft2 O (ift2 O m delta_f) delta = m.
Proof.
  intros Hwf Hr Hc H. unfold ft2, ift2. rewrite (ncols_wf r c _ Hwf Hr).
  rewrite ifftshift2_scale, ifftshift2_fftshift2, dft2_scale.
  rewrite (dft2_idft2 G K r c) by (try apply wf_ifftshift2; assumption).
  rewrite fftshift2_scale, fftshift2_ifftshift2.
  apply cscale_m_cancel. rewrite Rmult_comm. apply scale_sq. exact H.
Qed.

(* batches: the transforms act independently on every leading index *)
Lemma ift_ft_batch xs delta delta_f n : Forall (fun x => length x = n) xs ->
  delta_f * INR n * delta = 1 -> ift_batch O (ft_batch O xs delta) delta_f = xs.
Proof. intros Hf H. unfold ift_batch, ft_batch. rewrite map_map.
  rewrite <- (map_id xs) at 2. apply map_ext_in. intros x Hx. rewrite Forall_forall in Hf.
  apply ift_ft. rewrite (Hf x Hx). exact H. Qed.
Lemma ift2_ft2_batch ms delta delta_f r c : Forall (wf_mat r c) ms -> (0 < r)%nat -> (0 < c)%nat ->
  delta_f * INR c * delta = 1 -> ift2_batch O (ft2_batch O ms delta) delta_f = ms.
Proof. intros Hf Hr Hc H. unfold ift2_batch, ft2_batch. rewrite map_map.
  rewrite <- (map_id ms) at 2. apply map_ext_in. intros m Hm. rewrite Forall_forall in Hf.
  apply (ift2_ft2 r c); auto. Qed.

(* ---- linearity ---- *)
Local Notation LC := (lincomb G K).
Lemma lincomb_skipn a b k : forall u v, length u = length v ->
  skipn k (LC a b u v) = LC a b (skipn k u) (skipn k v).
Proof. unfold lincomb. induction k as [|k IH]; intros [|p u] [|q v] H; try discriminate H; try reflexivity.
  cbn [skipn map map2]. apply IH. simpl in H. congruence. Qed.
Lemma lincomb_firstn a b k : forall u v, length u = length v ->
  firstn k (LC a b u v) = LC a b (firstn k u) (firstn k v).
Proof. unfold lincomb. induction k as [|k IH]; intros [|p u] [|q v] H; try discriminate H; try reflexivity.
  cbn [firstn map map2]. apply (f_equal (cons _)). apply IH. simpl in H. congruence. Qed.
Lemma lincomb_app a b : forall u1 v1 u2 v2, length u1 = length v1 ->
  LC a b (u1 ++ u2) (v1 ++ v2) = LC a b u1 v1 ++ LC a b u2 v2.
Proof. unfold lincomb. induction u1 as [|p u1 IH]; intros [|q v1] u2 v2 H; try discriminate H; [reflexivity|].
  cbn [app map map2]. apply (f_equal (cons _)). apply IH. simpl in H. congruence. Qed.
Lemma lincomb_fftshift a b u v : length u = length v ->
  fftshift (LC a b u v) = LC a b (fftshift u) (fftshift v).
Proof. intros H. unfold fftshift. rewrite lincomb_length by exact H. rewrite <- H.
  rewrite lincomb_skipn, lincomb_firstn by exact H. symmetry. apply lincomb_app.
  rewrite !skipn_length. congruence. Qed.
Lemma lincomb_ifftshift a b u v : length u = length v ->
  ifftshift (LC a b u v) = LC a b (ifftshift u) (ifftshift v).
Proof. intros H. unfold ifftshift. rewrite lincomb_length by exact H. rewrite <- H.
  rewrite lincomb_skipn, lincomb_firstn by exact H. symmetry. apply lincomb_app.
  rewrite !skipn_length. congruence. Qed.
Lemma lincomb_scale a b s : forall u v, length u = length v ->
  cscale_l O s (LC a b u v) = LC a b (cscale_l O s u) (cscale_l O s v).
Proof. unfold lincomb, cscale_l. induction u as [|p u IH]; intros [|q v] H; try discriminate H; [reflexivity|].
  cbn [map map2]. f_equal; [cring|]. apply IH. simpl in H. congruence. Qed.

Lemma ft_linear a b x y delta : length x = length y ->
  ft O (LC a b x y) delta = LC a b (ft O x delta) (ft O y delta).
Proof.
  intros H. unfold ft. rewrite lincomb_ifftshift by exact H.
  unfold lincomb at 1. rewrite dft_linear by (rewrite !ifftshift_length; exact H).
  fold (LC a b (dft O (ifftshift x)) (dft O (ifftshift y))).
  rewrite lincomb_fftshift by (rewrite !dft_length, !ifftshift_length; exact H).
  apply lincomb_scale. rewrite !fftshift_length, !dft_length, !ifftshift_length. exact H.
Qed.

(* ---- Parseval ---- *)
Lemma energy_app (a b : list (R * R)) : energy O (a ++ b) = energy O a + energy O b.
Proof. unfold energy. rewrite map_app. apply nsum_R_app. Qed.
Lemma energy_fftshift (l : list (R * R)) : energy O (fftshift l) = energy O l.
Proof. unfold fftshift. rewrite energy_app, Rplus_comm, <- energy_app, firstn_skipn. reflexivity. Qed.
Lemma energy_ifftshift (l : list (R * R)) : energy O (ifftshift l) = energy O l.
Proof. unfold ifftshift. rewrite energy_app, Rplus_comm, <- energy_app, firstn_skipn. reflexivity. Qed.
Lemma energy_scale s (l : list (R * R)) : energy O (cscale_l O s l) = s * s * energy O l.
Proof. unfold energy, cscale_l. rewrite map_map.
  rewrite (map_ext _ (fun z => (s * s) * cabs2 O z)).
  - rewrite <- (map_map (cabs2 O) (fun t => s * s * t)). apply nsum_R_scal.
  - intros [u v]. cbv [cabs2 cscale]; rops; cbn [fst snd]. ring. Qed.
Lemma parseval_ft x delta delta_f : delta_f * INR (length x) * delta = 1 ->
  energy O (ft O x delta) * delta_f = energy O x * delta.
Proof. intros H. unfold ft. rewrite energy_scale, energy_fftshift, parseval, ifftshift_length, energy_ifftshift.
  ncx. revert H. generalize (INR (length x)) (energy O x). intros n e H.
  transitivity ((delta_f * n * delta) * (e * delta)); [ring|rewrite H; ring]. Qed.

(* ---- centred form, EVERY N >= 1: the origin is the centre sample N/2 (floor) in both domains ---- *)
Theorem ft_centred_all : forall (x : list (R * R)) N k delta, length x = N -> (k < N)%nat ->
  nth k (ft O x delta) (czero O)
  = cscale O delta (bigsum (fun n => cmul O (nth n x (czero O))
       (cis O (- (2 * PI) * (INR n - INR (N / 2)) * (INR k - INR (N / 2)) / INR N))) N).
Proof. intros x N k delta Hl Hk. unfold ft, cscale_l.
  rewrite (nth_map_lt _ _ _ _ (czero O)) by (rewrite fftshift_length, dft_length, ifftshift_length; ncx; lia).
  f_equal. apply centred_dft_all; assumption. Qed.

(* the even-N statement of the earlier rounds is a special case *)
Lemma ft_centred (x : list (R * R)) N k delta : length x = N -> Nat.even N = true -> (k < N)%nat ->
  nth k (ft O x delta) (czero O)
  = cscale O delta (bigsum (fun n => cmul O (nth n x (czero O))
       (cis O (- (2 * PI) * (INR n - INR (N / 2)) * (INR k - INR (N / 2)) / INR N))) N).
Proof. intros Hl _ Hk. apply ft_centred_all; assumption. Qed.

Theorem ift_centred_all : forall (X : list (R * R)) N k delta_f, length X = N -> (k < N)%nat ->
  nth k (ift O X delta_f) (czero O)
  = cscale O delta_f (bigsum (fun n => cmul O (nth n X (czero O))
       (cis O (2 * PI * (INR n - INR (N / 2)) * (INR k - INR (N / 2)) / INR N))) N).
Proof. intros X N k delta_f Hl Hk. unfold ift, cscale_l. rewrite nlen_INR, map_map.
  assert (HN : 0 < INR N) by (apply lt_0_INR; lia).
  rewrite (nth_map_lt _ _ _ _ (czero O)) by (rewrite fftshift_length, idft_length, ifftshift_length; ncx; lia).
  pose proof (centred_idft_all G K X N k Hl Hk) as Hc. ncx. rewrite Hc, Hl. clear Hc.
  generalize (bigsum (fun n => cmul O (nth n X (czero O))
       (cis O (2 * PI * (INR n - INR (N / 2)) * (INR k - INR (N / 2)) / INR N))) N).
  intros [u v]. cbv [cscale]; rops; cbn [fst snd]. f_equal; field; lra. Qed.

(* ---- shift theorem: delaying the input cyclically by s samples multiplies entry k of the spectrum by
   e^{-2 pi i s (k - N/2)/N} ---- *)
Theorem ft_shift : forall (x y : list (R * R)) N s k delta,
  length x = N -> length y = N -> (k < N)%nat ->
  (forall n, (n < N)%nat -> nth ((n + s) mod N) y (czero O) = nth n x (czero O)) ->
  nth k (ft O y delta) (czero O)
  = cmul O (cis O (- (2 * PI) * INR s * (INR k - INR (N / 2)) / INR N)) (nth k (ft O x delta) (czero O)).
Proof.
  intros x y N s k delta Hx Hy Hk Hxy.
  assert (HN0 : N <> 0%nat) by lia.
  assert (HN : 0 < INR N) by (apply lt_0_INR; lia).
  rewrite (ft_centred_all y N k delta Hy Hk), (ft_centred_all x N k delta Hx Hk).
  rewrite <- (bigsum_cyclic_shift G K (fun n => cmul O (nth n y (czero O))
       (cis O (- (2 * PI) * (INR n - INR (N / 2)) * (INR k - INR (N / 2)) / INR N))) N s).
  rewrite <- !(bigsum_scale G K), <- (bigsum_mul_l G K). apply (bigsum_ext G K). intros n Hn. cbv beta.
  rewrite (Hxy n Hn).
  pose proof (Nat.div_mod (n + s) N HN0) as D. apply (f_equal INR) in D.
  rewrite !plus_INR, mult_INR in D.
  set (q := ((n + s) / N)%nat) in *. set (m := ((n + s) mod N)%nat) in *.
  change (cis O) with E.
  replace (- (2 * PI) * (INR m - INR (N / 2)) * (INR k - INR (N / 2)) / INR N)
    with ((- (2 * PI) * INR s * (INR k - INR (N / 2)) / INR N
           + - (2 * PI) * (INR n - INR (N / 2)) * (INR k - INR (N / 2)) / INR N)
          + 2 * PI * IZR (Z.of_nat q * (Z.of_nat k - Z.of_nat (N / 2)))).
  2:{ rewrite mult_IZR, minus_IZR, <- !INR_IZR_INZ.
      replace (INR m) with (INR n + INR s - INR N * INR q) by lra. field. lra. }
  rewrite E_period_Z, (E_add G K).
  generalize (E (- (2 * PI) * INR s * (INR k - INR (N / 2)) / INR N))
             (E (- (2 * PI) * (INR n - INR (N / 2)) * (INR k - INR (N / 2)) / INR N))
             (nth n x (czero O)).
  cring.
Qed.

(* numpy.roll(x, s), 0 <= s <= N, is such a delay *)
Definition roll {A} (s : nat) (l : list A) : list A :=
  skipn (length l - s) l ++ firstn (length l - s) l.
Lemma roll_length {A} s (l : list A) : length (roll s l) = length l.
Proof. unfold roll. rewrite app_length, skipn_length, firstn_length. lia. Qed.
Lemma nth_roll {A} s (l : list A) n d : (s <= length l)%nat -> (n < length l)%nat ->
  nth ((n + s) mod length l) (roll s l) d = nth n l d.
Proof.
  intros Hs Hn. assert (HN0 : length l <> 0%nat) by lia. unfold roll.
  rewrite nth_rot by (try apply Nat.mod_upper_bound; lia). f_equal.
  rewrite Nat.add_mod_idemp_l by exact HN0.
  replace (n + s + (length l - s))%nat with (n + 1 * length l)%nat by lia.
  rewrite Nat.mod_add by exact HN0. apply Nat.mod_small. exact Hn.
Qed.
Corollary ft_roll : forall (x : list (R * R)) N s k delta, length x = N -> (s <= N)%nat -> (k < N)%nat ->
  nth k (ft O (roll s x) delta) (czero O)
  = cmul O (cis O (- (2 * PI) * INR s * (INR k - INR (N / 2)) / INR N)) (nth k (ft O x delta) (czero O)).
Proof.
  intros x N s k delta Hl Hs Hk. apply ft_shift; try assumption.
  - rewrite roll_length. exact Hl.
  - intros n Hn. rewrite <- Hl. apply nth_roll; rewrite Hl; assumption.
Qed.

(* ---- 2-D centred form, every shape r x c ---- *)
Lemma ent_map_map2 {A B} (g : A -> B) (dA : A) (dB : B) r c (m : list (list A)) i j :
  wf_mat r c m -> (i < r)%nat -> (j < c)%nat ->
  nth j (nth i (map (map g) m) []) dB = g (nth j (nth i m []) dA).
Proof.
  intros Hwf Hi Hj. rewrite (nth_map_lt (map g) m i [] []) by (destruct Hwf as [-> _]; exact Hi).
  apply nth_map_lt. rewrite (wf_nth_length r c m i Hwf Hi). exact Hj.
Qed.
Lemma ent_fftshift2_all {A} (d : A) r c (m : list (list A)) y x :
  wf_mat r c m -> (y < r)%nat -> (x < c)%nat ->
  nth x (nth y (fftshift2 m) []) d
  = nth ((x + (c - c / 2)) mod c) (nth ((y + (r - r / 2)) mod r) m []) d.
Proof.
  intros Hwf Hy Hx. unfold fftshift2. pose proof Hwf as [Hl _].
  assert (Hy' : ((y + (r - r / 2)) mod r < r)%nat) by (apply Nat.mod_upper_bound; lia).
  rewrite nth_fftshift by (rewrite map_length, Hl; exact Hy). rewrite map_length, Hl.
  rewrite (nth_map_lt fftshift m _ [] []) by (rewrite Hl; exact Hy').
  rewrite nth_fftshift by (rewrite (wf_nth_length r c m _ Hwf Hy'); exact Hx).
  rewrite (wf_nth_length r c m _ Hwf Hy'). reflexivity.
Qed.
Lemma ent_ifftshift2_all {A} (d : A) r c (m : list (list A)) y x :
  wf_mat r c m -> (y < r)%nat -> (x < c)%nat ->
  nth x (nth y (ifftshift2 m) []) d = nth ((x + c / 2) mod c) (nth ((y + r / 2) mod r) m []) d.
Proof.
  intros Hwf Hy Hx. unfold ifftshift2. pose proof Hwf as [Hl _].
  assert (Hy' : ((y + r / 2) mod r < r)%nat) by (apply Nat.mod_upper_bound; lia).
  rewrite nth_ifftshift by (rewrite map_length, Hl; exact Hy). rewrite map_length, Hl.
  rewrite (nth_map_lt ifftshift m _ [] []) by (rewrite Hl; exact Hy').
  rewrite nth_ifftshift by (rewrite (wf_nth_length r c m _ Hwf Hy'); exact Hx).
  rewrite (wf_nth_length r c m _ Hwf Hy'). reflexivity.
Qed.

(* entries of a separable 2-D kernel transform *)
Lemma ent_tr2 Kf r c (m : list (list (R * R))) y x :
  wf_mat r c m -> (y < r)%nat -> (x < c)%nat ->
  nth x (nth y (transpose (map (ktr G K Kf) (transpose (map (ktr G K Kf) m)))) []) (czero O)
  = bigsum (fun i => cmul O
       (bigsum (fun j => cmul O (nth j (nth i m []) (czero O)) (Kf c j x)) c) (Kf r i y)) r.
Proof.
  intros Hwf Hy Hx.
  assert (Hr : (0 < r)%nat) by lia.
  assert (W1 : wf_mat r c (map (ktr G K Kf) m)) by (apply wf_map_ktr; exact Hwf).
  assert (W2 : wf_mat c r (transpose (map (ktr G K Kf) m))) by (apply wf_transpose; assumption).
  assert (W3 : wf_mat c r (map (ktr G K Kf) (transpose (map (ktr G K Kf) m))))
    by (apply wf_map_ktr; exact W2).
  ncx.
  rewrite (@ent_transpose (R * R) (czero O) c r _ x y W3 Hx Hy).
  rewrite (ent_map_ktr G K Kf c r _ x y W2 Hx Hy).
  apply (bigsum_ext G K). intros l Hl. f_equal.
  rewrite (@ent_transpose (R * R) (czero O) r c _ l x W1 Hl Hx).
  apply (ent_map_ktr G K Kf r c m l x Hwf Hl Hx).
Qed.

Lemma Kdft_centred N n k : (n < N)%nat -> (k < N)%nat ->
  Kdft N n ((k + (N - N / 2)) mod N)
  = E (- (2 * PI) * (INR ((n + N / 2) mod N) - INR (N / 2)) * (INR k - INR (N / 2)) / INR N).
Proof.
  intros Hn Hk. unfold Kdft, W.
  replace (- (2 * PI * INR (n * ((k + (N - N / 2)) mod N)) / INR N))
    with (IZR (-1) * (2 * PI * INR (n * ((k + (N - N / 2)) mod N)) / INR N)) by (unfold Rdiv; ring).
  rewrite (centred_kernel (-1) N n k Hn Hk). f_equal. unfold Rdiv. ring.
Qed.

Theorem ft2_centred_all : forall r c (m : list (list (R * R))) k l delta,
  wf_mat r c m -> (k < r)%nat -> (l < c)%nat ->
  nth l (nth k (ft2 O m delta) []) (czero O)
  = cscale O (delta * delta) (bigsum (fun i => bigsum (fun j =>
       cmul O (nth j (nth i m []) (czero O))
         (cis O (- (2 * PI) * (INR i - INR (r / 2)) * (INR k - INR (r / 2)) / INR r
                 + - (2 * PI) * (INR j - INR (c / 2)) * (INR l - INR (c / 2)) / INR c))) c) r).
Proof.
  intros r c m k l delta Hwf Hk Hl.
  assert (Hr : (0 < r)%nat) by lia. assert (Hc : (0 < c)%nat) by lia.
  assert (W1 : wf_mat r c (ifftshift2 m)) by (apply wf_ifftshift2; exact Hwf).
  assert (W2 : wf_mat r c (dft2 O (ifftshift2 m))) by (apply wf_dft2; assumption).
  assert (W3 : wf_mat r c (fftshift2 (dft2 O (ifftshift2 m)))) by (apply wf_fftshift2; exact W2).
  assert (Hk' : ((k + (r - r / 2)) mod r < r)%nat) by (apply Nat.mod_upper_bound; lia).
  assert (Hl' : ((l + (c - c / 2)) mod c < c)%nat) by (apply Nat.mod_upper_bound; lia).
  unfold ft2. rewrite cscale_m_map. ncx.
  rewrite (@ent_map_map2 (R * R) (R * R) (cscale O (nsqr O delta)) (czero O) (czero O) r c _ k l W3 Hk Hl).
  change (nsqr O delta) with (delta * delta). f_equal.
  rewrite (@ent_fftshift2_all (R * R) (czero O) r c _ k l W2 Hk Hl).
  rewrite dft2_ktr. ncx.
  rewrite (ent_tr2 Kdft r c _ _ _ W1 Hk' Hl').
  rewrite <- (bigsum_cyclic_shift G K (fun i => bigsum (fun j =>
       cmul O (nth j (nth i m []) (czero O))
         (cis O (- (2 * PI) * (INR i - INR (r / 2)) * (INR k - INR (r / 2)) / INR r
                 + - (2 * PI) * (INR j - INR (c / 2)) * (INR l - INR (c / 2)) / INR c))) c) r (r / 2)).
  apply (bigsum_ext G K). intros i Hi. cbv beta.
  rewrite <- (bigsum_mul_r G K).
  rewrite <- (bigsum_cyclic_shift G K (fun j =>
       cmul O (nth j (nth ((i + r / 2) mod r) m []) (czero O))
         (cis O (- (2 * PI) * (INR ((i + r / 2) mod r) - INR (r / 2)) * (INR k - INR (r / 2)) / INR r
                 + - (2 * PI) * (INR j - INR (c / 2)) * (INR l - INR (c / 2)) / INR c))) c (c / 2)).
  apply (bigsum_ext G K). intros j Hj. cbv beta.
  rewrite (@ent_ifftshift2_all (R * R) (czero O) r c m i j Hwf Hi Hj).
  rewrite (Kdft_centred r i k Hi Hk), (Kdft_centred c j l Hj Hl).
  change (cis O) with E. rewrite (E_add G K).
  generalize (E (- (2 * PI) * (INR ((i + r / 2) mod r) - INR (r / 2)) * (INR k - INR (r / 2)) / INR r))
             (E (- (2 * PI) * (INR ((j + c / 2) mod c) - INR (c / 2)) * (INR l - INR (c / 2)) / INR c))
             (nth ((j + c / 2) mod c) (nth ((i + r / 2) mod r) m []) (czero O)).
  cring.
Qed.

End C09.

Print Assumptions ft_centred_all.
Print Assumptions ft2_centred_all.
Print Assumptions ft_roll.
Print Assumptions ift_ft.
Print Assumptions ft2_ift2.
