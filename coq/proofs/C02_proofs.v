(* C02: the tomographic reconstructor  R = C_onoff . pinv(C_offoff)  of model/Tomo.v, at the real
   instance: shapes, normal equations (projected and full), optimality of every row, and the
   duplicated-sensor case. *)
From Coq Require Import ZArith Reals Bool List Arith Lra Lia.
Require Import AOV.base.Num AOV.base.NumR AOV.base.RpowTac AOV.base.Cplx AOV.model.Mat AOV.model.Tomo
               AOV.proofs.Dft_proofs AOV.proofs.Mat_proofs.
Import ListNotations.
Local Open Scope R_scope.

Section C02.
Variables (G : R -> R) (K : R -> R -> R).
Local Notation O := (ROps G K).
Local Notation mat := (list (list R)).

(* ---- shapes of the two blocks ---- *)

Theorem C02_wf_cov_onoff : forall (C : mat) (n b : nat),
  wf_mat (2 * n + b) (2 * n + b) C -> wf_mat (2 * n) b (cov_onoff C n).
Proof.
  intros C n b HC. unfold cov_onoff. generalize dependent (2 * n)%nat. intros m HC.
  replace b with (m + b - m)%nat at 1 by lia. apply wf_map_skipn.
  apply (wf_firstn (m + b)); [exact HC | lia].
Qed.

Theorem C02_wf_cov_offoff : forall (C : mat) (n b : nat),
  wf_mat (2 * n + b) (2 * n + b) C -> wf_mat b b (cov_offoff C n).
Proof.
  intros C n b HC. unfold cov_offoff. generalize dependent (2 * n)%nat. intros m HC.
  replace b with (m + b - m)%nat at 2 by lia. apply wf_map_skipn.
  replace b with (m + b - m)%nat at 1 by lia. apply wf_skipn. exact HC.
Qed.

Theorem C02_wf_tomo_recon : forall (pinv : mat -> mat) (C : mat) (n b : nat),
  (0 < b)%nat -> wf_mat (2 * n + b) (2 * n + b) C -> wf_mat b b (pinv (cov_offoff C n)) ->
  wf_mat (2 * n) b (tomo_recon O pinv C n).
Proof.
  intros pinv C n b Hb HC HP. unfold tomo_recon.
  apply (wf_mmul G K (2 * n) b b); [apply C02_wf_cov_onoff; exact HC | exact HP | exact Hb].
Qed.

(* entries of the blocks, for the record *)
Theorem C02_ent_cov_onoff : forall (C : mat) (n b i j : nat),
  wf_mat (2 * n + b) (2 * n + b) C -> (i < 2 * n)%nat ->
  ent (cov_onoff C n) i j = ent C i (2 * n + j).
Proof.
  intros C n b i j [Hl _] Hi. unfold cov_onoff.
  rewrite ent_map_skipn by (rewrite firstn_length; lia). apply ent_firstn_rows. exact Hi.
Qed.

Theorem C02_ent_cov_offoff : forall (C : mat) (n b i j : nat),
  wf_mat (2 * n + b) (2 * n + b) C -> (i < b)%nat ->
  ent (cov_offoff C n) i j = ent C (2 * n + i) (2 * n + j).
Proof.
  intros C n b i j [Hl _] Hi. unfold cov_offoff.
  rewrite ent_map_skipn by (rewrite skipn_length; lia). apply ent_skipn_rows.
Qed.

(* the off-axis block of a symmetric matrix is symmetric *)
Theorem C02_cov_offoff_sym : forall (C : mat) (n b : nat),
  (0 < b)%nat -> wf_mat (2 * n + b) (2 * n + b) C -> msym C -> msym (cov_offoff C n).
Proof.
  intros C n b Hb HC Hs.
  apply (msym_ent b); [apply C02_wf_cov_offoff; exact HC | exact Hb |].
  intros i j Hi Hj. rewrite !(C02_ent_cov_offoff C n b) by assumption.
  apply (msym_ent (2 * n + b) C HC); [lia | exact Hs | lia | lia].
Qed.

(* ---- normal equations, on abstract blocks ---- *)

Lemma recon_projected m b (Con Kc Kp : mat) :
  (0 < b)%nat -> wf_mat m b Con -> wf_mat b b Kc -> wf_mat b b Kp ->
  mmul O (mmul O Kp Kc) Kp = Kp ->
  mmul O (mmul O (mmul O Con Kp) Kc) (mmul O Kp Kc) = mmul O Con (mmul O Kp Kc).
Proof.
  intros Hb HCon HKc HKp Hpen.
  pose proof (wf_mmul G K b b b Kp Kc HKp HKc Hb) as HPK.
  rewrite (mmul_assoc G K m b b b Con Kp Kc) by assumption.
  rewrite (mmul_assoc G K m b b b Con (mmul O Kp Kc) (mmul O Kp Kc)) by assumption.
  f_equal.
  rewrite <- (mmul_assoc G K b b b b (mmul O Kp Kc) Kp Kc) by assumption.
  rewrite Hpen. reflexivity.
Qed.

Lemma recon_full m b (Con Kc Kp : mat) :
  (0 < b)%nat -> wf_mat m b Con -> wf_mat b b Kc -> wf_mat b b Kp ->
  mmul O Kp Kc = mident O b ->
  mmul O (mmul O Con Kp) Kc = Con.
Proof.
  intros Hb HCon HKc HKp Hinv.
  rewrite (mmul_assoc G K m b b b Con Kp Kc) by assumption.
  rewrite Hinv. apply (mmul_ident_r G K m b); assumption.
Qed.

Theorem C02_normal_eq_projected : forall (pinv : mat -> mat) (C : mat) (n b : nat),
  (0 < n)%nat -> (0 < b)%nat -> wf_mat (2 * n + b) (2 * n + b) C ->
  let Kc := cov_offoff C n in
  let Kp := pinv Kc in
  wf_mat b b Kp ->
  mmul O (mmul O Kp Kc) Kp = Kp ->
  mmul O (mmul O (tomo_recon O pinv C n) Kc) (mmul O Kp Kc) = mmul O (cov_onoff C n) (mmul O Kp Kc).
Proof.
  intros pinv C n b Hn Hb HC Kc Kp HKp Hpen. unfold tomo_recon. fold Kc. fold Kp.
  apply (recon_projected (2 * n) b); try assumption.
  - apply C02_wf_cov_onoff; exact HC.
  - apply C02_wf_cov_offoff; exact HC.
Qed.

Theorem C02_normal_eq_full : forall (pinv : mat -> mat) (C : mat) (n b : nat),
  (0 < n)%nat -> (0 < b)%nat -> wf_mat (2 * n + b) (2 * n + b) C ->
  let Kc := cov_offoff C n in
  let Kp := pinv Kc in
  wf_mat b b Kp ->
  mmul O Kp Kc = mident O b ->
  mmul O (tomo_recon O pinv C n) Kc = cov_onoff C n.
Proof.
  intros pinv C n b Hn Hb HC Kc Kp HKp Hinv. unfold tomo_recon. fold Kc. fold Kp.
  apply (recon_full (2 * n) b); try assumption.
  - apply C02_wf_cov_onoff; exact HC.
  - apply C02_wf_cov_offoff; exact HC.
Qed.

(* ---- optimality: one on-axis slope = one row ---- *)

(* the quadratic  q(v) = s - 2 v.c + v K v^T  (residual variance of the estimate v.off of a slope
   with variance s and cross-covariance c with the off-axis slopes) *)
Definition resid_var (Kc : mat) (c : list R) (s : R) (v : list R) : R :=
  s - 2 * ndot O v c + qform O Kc v.

Theorem C02_optimal : forall (b : nat) (Kc : mat) (r r' c : list R) (s : R),
  wf_mat b b Kc -> msym Kc ->
  (forall v, length v = b -> 0 <= qform O Kc v) ->
  length r = b -> length r' = b -> length c = b ->
  mvec O Kc r = c ->
  resid_var Kc c s r' - resid_var Kc c s r = qform O Kc (vsub O r' r)
  /\ resid_var Kc c s r <= resid_var Kc c s r'.
Proof.
  intros b Kc r r' c s HK Hs Hpsd Hr Hr' Hc Hrc.
  assert (Heq : resid_var Kc c s r' - resid_var Kc c s r = qform O Kc (vsub O r' r)).
  { unfold resid_var. rewrite (qform_vsub_sym G K b) by assumption.
    rewrite Hrc. unfold qform at 2 4. rewrite Hrc. lra. }
  split; [exact Heq|].
  assert (0 <= qform O Kc (vsub O r' r)).
  { apply Hpsd. rewrite (vsub_length G K) by lia. exact Hr'. }
  lra.
Qed.

(* ---- rows of R solve  K r = c_i ---- *)

Lemma inverse_sym_comm b (Kc Kp : mat) :
  (0 < b)%nat -> wf_mat b b Kc -> wf_mat b b Kp -> msym Kc -> msym Kp ->
  mmul O Kp Kc = mident O b -> mmul O Kc Kp = mident O b.
Proof.
  intros Hb HKc HKp Hs Hsp Hinv.
  pose proof (transpose_mmul G K b b b Kp Kc HKp HKc Hb Hb Hb) as Ht.
  unfold msym in Hs, Hsp. rewrite Hs, Hsp, Hinv in Ht.
  rewrite <- Ht. apply (msym_mident G K).
Qed.

Lemma recon_row_solves m b (Con Kc Kp : mat) i :
  (0 < b)%nat -> wf_mat m b Con -> wf_mat b b Kc -> wf_mat b b Kp ->
  msym Kp -> mmul O Kc Kp = mident O b -> (i < m)%nat ->
  mvec O Kc (nth i (mmul O Con Kp) []) = nth i Con [].
Proof.
  intros Hb HCon HKc HKp Hsp Hinv Hi.
  rewrite (nth_mmul_row G K m b Con Kp i HCon Hi).
  unfold msym in Hsp. rewrite Hsp.
  assert (Hl : length (nth i Con []) = b) by (apply (wf_nth_length m b); assumption).
  rewrite <- (mvec_mmul G K b b b Kc Kp) by assumption.
  rewrite Hinv. apply (mvec_mident G K). exact Hl.
Qed.

Theorem C02_rows_solve : forall (pinv : mat -> mat) (C : mat) (n b i : nat),
  (0 < n)%nat -> (0 < b)%nat -> wf_mat (2 * n + b) (2 * n + b) C ->
  let Kc := cov_offoff C n in
  let Kp := pinv Kc in
  wf_mat b b Kp -> msym Kc -> msym Kp ->
  mmul O Kp Kc = mident O b ->
  (i < 2 * n)%nat ->
  mvec O Kc (nth i (tomo_recon O pinv C n) []) = nth i (cov_onoff C n) [].
Proof.
  intros pinv C n b i Hn Hb HC Kc Kp HKp Hs Hsp Hinv Hi. unfold tomo_recon. fold Kc. fold Kp.
  pose proof (C02_wf_cov_offoff C n b HC) as HKc. fold Kc in HKc.
  apply (recon_row_solves (2 * n) b); try assumption.
  - apply C02_wf_cov_onoff; exact HC.
  - apply inverse_sym_comm; assumption.
Qed.

(* hence every row of R minimises its residual variance among all coefficient vectors *)
Theorem C02_rows_optimal : forall (pinv : mat -> mat) (C : mat) (n b i : nat) (s : R) (r' : list R),
  (0 < n)%nat -> (0 < b)%nat -> wf_mat (2 * n + b) (2 * n + b) C ->
  let Kc := cov_offoff C n in
  let Kp := pinv Kc in
  wf_mat b b Kp -> msym Kc -> msym Kp ->
  (forall v, length v = b -> 0 <= qform O Kc v) ->
  mmul O Kp Kc = mident O b ->
  (i < 2 * n)%nat -> length r' = b ->
  let r := nth i (tomo_recon O pinv C n) [] in
  let c := nth i (cov_onoff C n) [] in
  resid_var Kc c s r' - resid_var Kc c s r = qform O Kc (vsub O r' r)
  /\ resid_var Kc c s r <= resid_var Kc c s r'.
Proof.
  intros pinv C n b i s r' Hn Hb HC Kc Kp HKp Hs Hsp Hpsd Hinv Hi Hr' r c.
  pose proof (C02_wf_cov_offoff C n b HC) as HKc. fold Kc in HKc.
  apply (C02_optimal b); try assumption.
  - apply (wf_nth_length (2 * n) b); [|exact Hi].
    apply (C02_wf_tomo_recon pinv C n b); assumption.
  - apply (wf_nth_length (2 * n) b); [|exact Hi]. apply C02_wf_cov_onoff; exact HC.
  - apply (C02_rows_solve pinv C n b i); assumption.
Qed.

(* ---- duplicated sensor: if C_onoff = E . K and K has a right inverse, R = E ---- *)

Theorem C02_duplicate : forall (pinv : mat -> mat) (C E : mat) (n b : nat),
  (0 < n)%nat -> (0 < b)%nat -> wf_mat (2 * n + b) (2 * n + b) C ->
  let Kc := cov_offoff C n in
  let Kp := pinv Kc in
  wf_mat b b Kp -> wf_mat (2 * n) b E ->
  cov_onoff C n = mmul O E Kc ->
  mmul O Kc Kp = mident O b ->
  tomo_recon O pinv C n = E.
Proof.
  intros pinv C E n b Hn Hb HC Kc Kp HKp HE HCon Hinv. unfold tomo_recon. fold Kc. fold Kp.
  pose proof (C02_wf_cov_offoff C n b HC) as HKc. fold Kc in HKc.
  rewrite HCon.
  rewrite (mmul_assoc G K (2 * n) b b b E Kc Kp) by assumption.
  rewrite Hinv. apply (mmul_ident_r G K (2 * n) b); assumption.
Qed.

End C02.

Print Assumptions C02_normal_eq_projected.
Print Assumptions C02_optimal.
