(* Helper lemmas for proofs/C13_proofs.v: finite real sums, telescoping, trigonometric sums over the
   N-th roots of unity, list facts for the selection / pairing code. *)
From Coq Require Import ZArith Reals Bool List Arith Lra Lia.
Require Import AOV.base.Num AOV.base.NumR AOV.base.RpowTac AOV.base.Cplx AOV.model.Mat
               AOV.proofs.Dft_proofs AOV.proofs.Mat_proofs.
Import ListNotations.
Local Open Scope R_scope.

(* ------------------------------------------------------------------------------------------ *)
(* finite sums                                                                                 *)
(* ------------------------------------------------------------------------------------------ *)

Lemma rsum_const c n : rsum (fun _ => c) n = INR n * c.
Proof.
  induction n as [|n IH]; [cbn [rsum INR]; lra|].
  cbn [rsum]. rewrite IH, S_INR. lra.
Qed.

Lemma rsum_split f a b : rsum f (a + b) = rsum f a + rsum (fun i => f (a + i)%nat) b.
Proof.
  induction b as [|b IH].
  - rewrite Nat.add_0_r. cbn [rsum]. lra.
  - rewrite Nat.add_succ_r. cbn [rsum]. rewrite IH. lra.
Qed.

Lemma rsum_rev f n : rsum f n = rsum (fun i => f (n - 1 - i)%nat) n.
Proof.
  induction n as [|n IH]; [reflexivity|].
  rewrite (rsum_S_l (fun i => f (S n - 1 - i)%nat)).
  change (rsum f (S n)) with (rsum f n + f n). rewrite IH.
  replace (S n - 1 - 0)%nat with n by lia.
  rewrite (rsum_ext (fun i => f (S n - 1 - S i)%nat) (fun i => f (n - 1 - i)%nat)).
  - lra.
  - intros i Hi. f_equal. lia.
Qed.

(* piecewise-constant column: a for i <= j, b at i = j+1, 0 below *)
Definition piece (a b : R) (j i : nat) : R :=
  if (i <=? j)%nat then a else if (i =? S j)%nat then b else 0.

Lemma rsum_piece a b g j n : (S j < n)%nat ->
  rsum (fun i => piece a b j i * g i) n = a * rsum g (S j) + b * g (S j).
Proof.
  intros H. replace n with (S (S j) + (n - S (S j)))%nat by lia.
  rewrite rsum_split. rewrite (rsum_zero_ext (fun i => piece a b j (S (S j) + i) * g (S (S j) + i)%nat)).
  2:{ intros i _. unfold piece.
      destruct (Nat.leb_spec (S (S j) + i) j); [lia|].
      destruct (Nat.eqb_spec (S (S j) + i) (S j)); [lia|]. lra. }
  change (rsum (fun i => piece a b j i * g i) (S (S j)))
    with (rsum (fun i => piece a b j i * g i) (S j) + piece a b j (S j) * g (S j)).
  rewrite (rsum_ext (fun i => piece a b j i * g i) (fun i => a * g i) (S j)).
  2:{ intros i Hi. unfold piece. destruct (Nat.leb_spec i j); [reflexivity|lia]. }
  rewrite rsum_scal_l. unfold piece.
  destruct (Nat.leb_spec (S j) j); [lia|]. rewrite Nat.eqb_refl. lra.
Qed.

(* sum of an indicator-weighted function *)
Lemma rsum_from f i n : (i <= n)%nat ->
  rsum (fun j => if (i <=? j)%nat then f j else 0) n = rsum (fun j => f (i + j)%nat) (n - i).
Proof.
  intros H. replace n with (i + (n - i))%nat at 1 by lia. rewrite rsum_split.
  rewrite rsum_zero_ext.
  2:{ intros j Hj. destruct (Nat.leb_spec i j); [lia|reflexivity]. }
  rewrite Rplus_0_l. apply rsum_ext. intros j Hj.
  destruct (Nat.leb_spec i (i + j)); [reflexivity|lia].
Qed.

(* telescoping sum  sum_{j<n} 1/((i+j+1)(i+j+2)) = 1/(i+1) - 1/(i+n+1) *)
Lemma rsum_telescope i n :
  rsum (fun j => 1 / (INR (S (i + j)) * INR (S (S (i + j))))) n = 1 / INR (S i) - 1 / INR (S (i + n)).
Proof.
  induction n as [|n IH].
  - cbn [rsum]. rewrite Nat.add_0_r. lra.
  - cbn [rsum]. rewrite IH. rewrite Nat.add_succ_r.
    rewrite !S_INR. pose proof (pos_INR (i + n)). pose proof (pos_INR i). field. lra.
Qed.

Lemma fst_bigsum f n : fst (bigsum f n) = rsum (fun i => fst (f i)) n.
Proof. induction n as [|n IH]; [reflexivity|]. cbn [bigsum rsum fst]. rewrite IH. reflexivity. Qed.

Lemma snd_bigsum f n : snd (bigsum f n) = rsum (fun i => snd (f i)) n.
Proof. induction n as [|n IH]; [reflexivity|]. cbn [bigsum rsum snd]. rewrite IH. reflexivity. Qed.

(* ------------------------------------------------------------------------------------------ *)
(* parity / halving                                                                            *)
(* ------------------------------------------------------------------------------------------ *)

Lemma div2_rem q r : (r < 2)%nat -> ((2 * q + r) / 2 = q)%nat.
Proof. intros Hr. symmetry. apply (Nat.div_unique _ 2 q r); [exact Hr | reflexivity]. Qed.

Lemma nat_3cases a : a = 0%nat \/ (exists q, a = (2 * q + 1)%nat) \/ (exists q, a = (2 * q + 2)%nat).
Proof.
  induction a as [|a IH]; [left; reflexivity|]. right.
  destruct IH as [->|[[q ->]|[q ->]]].
  - left. exists 0%nat. reflexivity.
  - right. exists q. lia.
  - left. exists (S q). lia.
Qed.

Lemma odd_2q1 q : Nat.odd (2 * q + 1) = true.
Proof. rewrite Nat.add_comm, Nat.odd_add_mul_2. reflexivity. Qed.

Lemma odd_2q2 q : Nat.odd (2 * q + 2) = false.
Proof. replace (2 * q + 2)%nat with (0 + 2 * (q + 1))%nat by lia. rewrite Nat.odd_add_mul_2. reflexivity. Qed.

Lemma odd_2q q : Nat.odd (2 * q) = false.
Proof. replace (2 * q)%nat with (0 + 2 * q)%nat by lia. rewrite Nat.odd_add_mul_2. reflexivity. Qed.

(* ------------------------------------------------------------------------------------------ *)
(* trigonometric sums over the N equispaced angles theta_t = 2 pi t / N                         *)
(* ------------------------------------------------------------------------------------------ *)

Definition theta (N t : nat) : R := INR t * (2 * PI / INR N).

Section Trig.
Variables (G : R -> R) (K : R -> R -> R).

Lemma E_sum N k : (k < N)%nat ->
  rsum (fun t => cos (INR k * theta N t)) N = (if (k =? 0)%nat then INR N else 0) /\
  rsum (fun t => sin (INR k * theta N t)) N = 0.
Proof.
  intros Hk. assert (HN : 0 < INR N) by (apply lt_0_INR; lia).
  pose proof (orth G K N k 0 Hk ltac:(lia)) as Ho.
  assert (Hc : rsum (fun t => cos (INR k * theta N t)) N
               = fst (bigsum (fun t => E (INR t * (2 * PI * (INR k - INR 0) / INR N))) N)).
  { rewrite fst_bigsum. apply rsum_ext. intros t _. unfold E, theta. cbn [fst INR]. f_equal. field. lra. }
  assert (Hs : rsum (fun t => sin (INR k * theta N t)) N
               = snd (bigsum (fun t => E (INR t * (2 * PI * (INR k - INR 0) / INR N))) N)).
  { rewrite snd_bigsum. apply rsum_ext. intros t _. unfold E, theta. cbn [snd INR]. f_equal. field. lra. }
  rewrite Hc, Hs, Ho. destruct (Nat.eq_dec k 0) as [->|Hne].
  - split; reflexivity.
  - destruct (Nat.eqb_spec k 0); [contradiction|]. split; reflexivity.
Qed.

Lemma cos_sum N k : (k < N)%nat ->
  rsum (fun t => cos (INR k * theta N t)) N = if (k =? 0)%nat then INR N else 0.
Proof. intros H. apply (E_sum N k H). Qed.

Lemma sin_sum N k : (k < N)%nat -> rsum (fun t => sin (INR k * theta N t)) N = 0.
Proof. intros H. apply (E_sum N k H). Qed.

(* m >= n *)
Lemma cc_sum_ge N m n : (n <= m)%nat -> (m + n < N)%nat ->
  rsum (fun t => cos (INR m * theta N t) * cos (INR n * theta N t)) N
  = (if (m - n =? 0)%nat then INR N else 0) / 2 + (if (m + n =? 0)%nat then INR N else 0) / 2.
Proof.
  intros Hmn HN.
  rewrite (rsum_ext _ (fun t => / 2 * cos (INR (m - n) * theta N t) + / 2 * cos (INR (m + n) * theta N t))).
  2:{ intros t _. rewrite minus_INR, plus_INR by exact Hmn.
      rewrite Rmult_minus_distr_r, Rmult_plus_distr_r, cos_minus, cos_plus. field. }
  rewrite rsum_add, !rsum_scal_l, !cos_sum by lia. field.
Qed.

Lemma ss_sum_ge N m n : (n <= m)%nat -> (m + n < N)%nat ->
  rsum (fun t => sin (INR m * theta N t) * sin (INR n * theta N t)) N
  = (if (m - n =? 0)%nat then INR N else 0) / 2 - (if (m + n =? 0)%nat then INR N else 0) / 2.
Proof.
  intros Hmn HN.
  rewrite (rsum_ext _ (fun t => / 2 * cos (INR (m - n) * theta N t) - / 2 * cos (INR (m + n) * theta N t))).
  2:{ intros t _. rewrite minus_INR, plus_INR by exact Hmn.
      rewrite Rmult_minus_distr_r, Rmult_plus_distr_r, cos_minus, cos_plus. field. }
  rewrite rsum_sub, !rsum_scal_l, !cos_sum by lia. field.
Qed.

Lemma sc_sum N m n : (m + n < N)%nat ->
  rsum (fun t => sin (INR m * theta N t) * cos (INR n * theta N t)) N = 0.
Proof.
  intros HN. destruct (Nat.le_ge_cases n m) as [H|H].
  - rewrite (rsum_ext _ (fun t => / 2 * sin (INR (m + n) * theta N t) + / 2 * sin (INR (m - n) * theta N t))).
    2:{ intros t _. rewrite minus_INR, plus_INR by exact H.
        rewrite Rmult_minus_distr_r, Rmult_plus_distr_r, sin_minus, sin_plus. field. }
    rewrite rsum_add, !rsum_scal_l, !sin_sum by lia. ring.
  - rewrite (rsum_ext _ (fun t => / 2 * sin (INR (m + n) * theta N t) - / 2 * sin (INR (n - m) * theta N t))).
    2:{ intros t _. rewrite minus_INR, plus_INR by exact H.
        rewrite Rmult_minus_distr_r, Rmult_plus_distr_r, sin_minus, sin_plus. field. }
    rewrite rsum_sub, !rsum_scal_l, !sin_sum by lia. ring.
Qed.

(* symmetric forms, m + n < N *)
Lemma cc_sum N m n : (m + n < N)%nat ->
  rsum (fun t => cos (INR m * theta N t) * cos (INR n * theta N t)) N
  = if (m =? n)%nat then (if (m =? 0)%nat then INR N else INR N / 2) else 0.
Proof.
  intros HN. destruct (Nat.le_ge_cases n m) as [H|H].
  - rewrite cc_sum_ge by assumption.
    destruct (Nat.eqb_spec m n) as [->|Hne].
    + rewrite Nat.sub_diag. cbn [Nat.eqb]. destruct (Nat.eqb_spec n 0) as [->|Hn0].
      * cbn [Nat.add Nat.eqb]. field.
      * destruct (Nat.eqb_spec (n + n) 0); [lia|]. field.
    + destruct (Nat.eqb_spec (m - n) 0); [lia|]. destruct (Nat.eqb_spec (m + n) 0); [lia|]. field.
  - rewrite (rsum_ext _ (fun t => cos (INR n * theta N t) * cos (INR m * theta N t))) by (intros; ring).
    rewrite cc_sum_ge by (try assumption; lia).
    destruct (Nat.eqb_spec m n) as [->|Hne].
    + rewrite Nat.sub_diag. cbn [Nat.eqb]. destruct (Nat.eqb_spec n 0) as [->|Hn0].
      * cbn [Nat.add Nat.eqb]. field.
      * destruct (Nat.eqb_spec (n + n) 0); [lia|]. field.
    + destruct (Nat.eqb_spec (n - m) 0); [lia|]. destruct (Nat.eqb_spec (n + m) 0); [lia|]. field.
Qed.

Lemma ss_sum N m n : (m + n < N)%nat ->
  rsum (fun t => sin (INR m * theta N t) * sin (INR n * theta N t)) N
  = if (m =? n)%nat then (if (m =? 0)%nat then 0 else INR N / 2) else 0.
Proof.
  intros HN. destruct (Nat.le_ge_cases n m) as [H|H].
  - rewrite ss_sum_ge by assumption.
    destruct (Nat.eqb_spec m n) as [->|Hne].
    + rewrite Nat.sub_diag. cbn [Nat.eqb]. destruct (Nat.eqb_spec n 0) as [->|Hn0].
      * cbn [Nat.add Nat.eqb]. field.
      * destruct (Nat.eqb_spec (n + n) 0); [lia|]. field.
    + destruct (Nat.eqb_spec (m - n) 0); [lia|]. destruct (Nat.eqb_spec (m + n) 0); [lia|]. field.
  - rewrite (rsum_ext _ (fun t => sin (INR n * theta N t) * sin (INR m * theta N t))) by (intros; ring).
    rewrite ss_sum_ge by (try assumption; lia).
    destruct (Nat.eqb_spec m n) as [->|Hne].
    + rewrite Nat.sub_diag. cbn [Nat.eqb]. destruct (Nat.eqb_spec n 0) as [->|Hn0].
      * cbn [Nat.add Nat.eqb]. field.
      * destruct (Nat.eqb_spec (n + n) 0); [lia|]. field.
    + destruct (Nat.eqb_spec (n - m) 0); [lia|]. destruct (Nat.eqb_spec (n + m) 0); [lia|]. field.
Qed.

End Trig.

(* ------------------------------------------------------------------------------------------ *)
(* selection / pairing: list facts                                                             *)
(* ------------------------------------------------------------------------------------------ *)
Require Import AOV.model.KL.

(* what the pairing loop appends for one sorted entry: order 0 (x < nr) once, order >= 1 twice *)
Definition dup (nr x : nat) : list nat := if (x <? nr)%nat then [x] else [x; x].
Definition expand (nr : nat) (l : list nat) : list nat := flat_map (dup nr) l.

Lemma expand_app nr a b : expand nr (a ++ b) = expand nr a ++ expand nr b.
Proof. apply flat_map_app. Qed.

Lemma dup_length nr x : (1 <= length (dup nr x) <= 2)%nat.
Proof. unfold dup. destruct (x <? nr)%nat; simpl; lia. Qed.

Lemma expand_length_ge nr l : (length l <= length (expand nr l))%nat.
Proof.
  induction l as [|x l IH]; [simpl; lia|]. cbn [expand flat_map length]. fold (expand nr l).
  rewrite app_length. pose proof (dup_length nr x). lia.
Qed.

Lemma pair_up_spec fuel nr nfunc a acc :
  exists m, (m <= length a)%nat /\ (m <= fuel)%nat /\
    pair_up fuel nr nfunc a acc = acc ++ expand nr (firstn m a) /\
    ((m < fuel)%nat -> (m < length a)%nat -> (nfunc <= length (acc ++ expand nr (firstn m a)))%nat) /\
    (forall j, (j < m)%nat -> (length (acc ++ expand nr (firstn j a)) < nfunc)%nat).
Proof.
  revert a acc. induction fuel as [|f IH]; intros a acc.
  - exists 0%nat. cbn [pair_up firstn expand flat_map]. rewrite app_nil_r.
    repeat apply conj; try lia; try reflexivity.
  - cbn [pair_up]. destruct (Nat.leb_spec nfunc (length acc)) as [Hle|Hgt].
    + exists 0%nat. cbn [firstn expand flat_map]. rewrite app_nil_r.
      repeat apply conj; try lia; try reflexivity.
    + destruct a as [|x r].
      * exists 0%nat. cbn [firstn expand flat_map length]. rewrite app_nil_r.
        repeat apply conj; try lia; try reflexivity.
      * assert (Hstep : (if (x <? nr)%nat then pair_up f nr nfunc r (acc ++ [x])
                         else pair_up f nr nfunc r (acc ++ [x; x]))
                        = pair_up f nr nfunc r (acc ++ dup nr x)).
        { unfold dup. destruct (x <? nr)%nat; reflexivity. }
        rewrite Hstep. destruct (IH r (acc ++ dup nr x)) as [m [H1 [H2 [H3 [H4 H5]]]]].
        exists (S m). cbn [firstn length]. cbn [expand flat_map]. fold (expand nr (firstn m r)).
        rewrite app_assoc. split; [lia|]. split; [lia|]. split; [exact H3|]. split.
        -- intros Ha Hb. apply H4; lia.
        -- intros j Hj. destruct j as [|j].
           ++ cbn [firstn expand flat_map]. rewrite app_nil_r. exact Hgt.
           ++ cbn [firstn]. cbn [expand flat_map]. fold (expand nr (firstn j r)).
              rewrite app_assoc. apply H5. lia.
Qed.

Lemma skipn_nth_cons {A} (l : list A) j d : (j < length l)%nat -> skipn j l = nth j l d :: skipn (S j) l.
Proof.
  revert j; induction l as [|a l IH]; intros j Hj; [simpl in Hj; lia|].
  destruct j as [|j]; [reflexivity|]. cbn [skipn nth]. rewrite (IH j) by (simpl in Hj; lia). reflexivity.
Qed.

Lemma firstn_split_at {A} (l : list A) j m d : (j < m)%nat -> (m <= length l)%nat ->
  firstn m l = firstn j l ++ nth j l d :: skipn (S j) (firstn m l).
Proof.
  intros Hj Hm. rewrite <- (firstn_skipn j (firstn m l)) at 1.
  rewrite firstn_firstn. replace (Nat.min j m) with j by lia. f_equal.
  rewrite (skipn_nth_cons (firstn m l) j d) by (rewrite firstn_length; lia).
  rewrite nth_firstn' by exact Hj. reflexivity.
Qed.

Lemma nth_mapi_from {A B} (f : nat -> A -> B) i l k d d' : (k < length l)%nat ->
  nth k (mapi_from f i l) d = f (i + k)%nat (nth k l d').
Proof.
  revert i k; induction l as [|a l IH]; intros i k Hk; [simpl in Hk; lia|].
  destruct k as [|k]; cbn [mapi_from nth]; [rewrite Nat.add_0_r; reflexivity|].
  rewrite (IH (S i) k) by (simpl in Hk; lia). f_equal. lia.
Qed.

Lemma nth_mapi {A B} (f : nat -> A -> B) l k d d' : (k < length l)%nat ->
  nth k (mapi f l) d = f k (nth k l d').
Proof. intros Hk. unfold mapi. rewrite (nth_mapi_from f 0 l k d d' Hk). reflexivity. Qed.

(* non-increasing sequences of keys *)
Fixpoint descf (ev : nat -> R) (l : list nat) : Prop :=
  match l with
  | [] => True
  | x :: r => match r with [] => True | y :: _ => ev y <= ev x end /\ descf ev r
  end.

Lemma descf_of_nth ev l :
  (forall k, (S k < length l)%nat -> ev (nth (S k) l 0%nat) <= ev (nth k l 0%nat)) -> descf ev l.
Proof.
  induction l as [|x r IH]; intros H; [exact I|]. cbn [descf]. split.
  - destruct r as [|y r']; [exact I|]. apply (H 0%nat). simpl. lia.
  - apply IH. intros k Hk. apply (H (S k)). simpl. lia.
Qed.

Lemma descf_nth ev l : descf ev l ->
  forall k, (S k < length l)%nat -> ev (nth (S k) l 0%nat) <= ev (nth k l 0%nat).
Proof.
  induction l as [|x r IH]; intros H k Hk; [simpl in Hk; lia|].
  destruct H as [H1 H2]. destruct k as [|k].
  - destruct r as [|y r']; [simpl in Hk; lia|]. exact H1.
  - apply (IH H2 k). simpl in Hk. lia.
Qed.

Lemma descf_firstn ev l n : descf ev l -> descf ev (firstn n l).
Proof.
  intros H. apply descf_of_nth. intros k Hk. rewrite firstn_length in Hk.
  rewrite !nth_firstn' by lia. apply (descf_nth ev l H). lia.
Qed.

Lemma descf_expand ev nr l : descf ev l -> descf ev (expand nr l).
Proof.
  induction l as [|x r IH]; intros H; [exact I|]. destruct H as [H1 H2].
  specialize (IH H2). cbn [expand flat_map]. fold (expand nr r).
  assert (Hhd : match expand nr r with [] => True | y :: _ => ev y <= ev x end).
  { destruct r as [|y r']; [exact I|]. cbn [expand flat_map]. unfold dup at 1.
    destruct (y <? nr)%nat; exact H1. }
  unfold dup. destruct (x <? nr)%nat; cbn [app descf].
  - split; [exact Hhd | exact IH].
  - split; [lra|]. split; [exact Hhd | exact IH].
Qed.

Local Open Scope nat_scope.

Lemma expand_cons nr x l : expand nr (x :: l) = dup nr x ++ expand nr l.
Proof. reflexivity. Qed.

(* where the j-th consumed sorted entry lands in the paired list *)
Lemma expand_at nr l j m : j < m -> m <= length l ->
  let k := length (expand nr (firstn j l)) in
  let x := nth j l 0 in
  let P := expand nr (firstn m l) in
  nth k P 0 = x /\ k < length P /\ (nr <= x -> nth (S k) P 0 = x /\ S k < length P).
Proof.
  intros Hj Hm. cbv zeta. rewrite (firstn_split_at l j m 0 Hj Hm).
  rewrite expand_app, expand_cons.
  set (pre := expand nr (firstn j l)). set (x := nth j l 0).
  set (rest := expand nr (skipn (S j) (firstn m l))).
  rewrite !app_nth2 by lia. rewrite Nat.sub_diag.
  replace (S (length pre) - length pre) with 1 by lia. rewrite !app_length.
  unfold dup. destruct (Nat.ltb_spec x nr) as [Hlt|Hge]; cbn [app nth length].
  - repeat apply conj; try reflexivity; try lia.
  - repeat apply conj; try reflexivity; try lia.
    intros _. rewrite app_nth2 by lia. replace (S (length pre) - length pre) with 1 by lia.
    split; [reflexivity|lia].
Qed.

Lemma oind_struct nr nfunc sorted :
  exists m, m <= length sorted /\
    pair_up (S nfunc) nr nfunc sorted [] = expand nr (firstn m sorted) /\
    (forall j, j < m -> length (expand nr (firstn j sorted)) < nfunc) /\
    (nfunc <= length sorted -> nfunc <= length (expand nr (firstn m sorted))).
Proof.
  destruct (pair_up_spec (S nfunc) nr nfunc sorted []) as [m [H1 [H2 [H3 [H4 H5]]]]].
  cbn [app] in *. exists m. repeat apply conj; try assumption.
  intros Hs. destruct (Nat.lt_ge_cases m (S nfunc)) as [Ha|Ha];
    [destruct (Nat.lt_ge_cases m (length sorted)) as [Hb|Hb]|].
  - apply H4; assumption.
  - pose proof (expand_length_ge nr (firstn m sorted)) as Hq. rewrite firstn_length in Hq. lia.
  - pose proof (expand_length_ge nr (firstn m sorted)) as Hq. rewrite firstn_length in Hq. lia.
Qed.

Lemma nth_oord nr oi k : k < length oi ->
  nth k (oord nr oi) 0 = 2 * (nth k oi 0 / nr) - (if (1 <=? nth k oi 0 / nr) && Nat.odd k then 1 else 0).
Proof.
  intros Hk. unfold oord, tord.
  rewrite (nth_mapi _ _ k 0 0) by (rewrite map_length; exact Hk).
  rewrite (nth_map_lt (fun x => x / nr) oi k 0 0 Hk). reflexivity.
Qed.

Lemma in_expand nr l y : In y (expand nr l) -> In y l.
Proof.
  induction l as [|x r IH]; [intros []|]. rewrite expand_cons. intros H. apply in_app_or in H.
  destruct H as [H|H].
  - left. unfold dup in H. destruct (x <? nr); cbn [In] in H; intuition.
  - right. apply IH. exact H.
Qed.

(* in the paired list of a duplicate-free index list, equal values sit only at the two positions of a pair *)
Lemma expand_NoDup_positions nr l : NoDup l ->
  forall i i', i < i' -> i' < length (expand nr l) ->
    nth i (expand nr l) 0 = nth i' (expand nr l) 0 -> i' = S i /\ nr <= nth i (expand nr l) 0.
Proof.
  induction l as [|x r IH]; intros Hnd i i' Hii Hi' He; [simpl in Hi'; lia|].
  inversion Hnd as [|x' r' Hnotin Hnd']; subst.
  rewrite expand_cons in *. rewrite app_length in Hi'.
  unfold dup in *. destruct (Nat.ltb_spec x nr) as [Hlt|Hge]; cbn [app length] in *.
  - destruct i as [|i].
    + destruct i' as [|i']; [lia|]. cbn [nth] in He. exfalso. apply Hnotin.
      apply (in_expand nr). rewrite He. apply nth_In. lia.
    + destruct i' as [|i']; [lia|]. cbn [nth] in *.
      destruct (IH Hnd' i i' ltac:(lia) ltac:(lia) He) as [H1 H2]. split; [lia|exact H2].
  - destruct i as [|[|i]].
    + destruct i' as [|[|i']]; [lia| |].
      * cbn [nth]. split; [reflexivity|exact Hge].
      * cbn [nth] in He. exfalso. apply Hnotin. apply (in_expand nr). rewrite He. apply nth_In. lia.
    + destruct i' as [|[|i']]; [lia|lia|].
      cbn [nth] in He. exfalso. apply Hnotin. apply (in_expand nr). rewrite He. apply nth_In. lia.
    + destruct i' as [|[|i']]; [lia|lia|]. cbn [nth] in *.
      destruct (IH Hnd' i i' ltac:(lia) ltac:(lia) He) as [H1 H2]. split; [lia|exact H2].
Qed.

Lemma NoDup_firstn' {A} (l : list A) m : NoDup l -> NoDup (firstn m l).
Proof.
  revert l; induction m as [|m IH]; intros l H; [constructor|].
  destruct l as [|x r]; [constructor|]. inversion H as [|x' r' Hn Hr]; subst.
  cbn [firstn]. constructor; [|apply IH; exact Hr].
  intros Hin. apply Hn. rewrite <- (firstn_skipn m r). apply in_or_app. left. exact Hin.
Qed.

Lemma in_firstn {A} (l : list A) m y : In y (firstn m l) -> In y l.
Proof. intros H. rewrite <- (firstn_skipn m l). apply in_or_app. left. exact H. Qed.
