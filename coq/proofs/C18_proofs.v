(* C18: proofs about the model of aotools/turbulence/profile_compression.py (model/Compress.v).
   PART E: equivalent_layers (slab assignment by digitize, conservation of strength and 5/3-moments).
   PART F: optimal_grouping (splits -> contiguous groups, vicinity, local search, restarts). *)
From Coq Require Import ZArith Reals Bool List Arith Lra Lia Sorted.
Require Import AOV.base.Num AOV.base.NumR AOV.base.RpowTac AOV.base.Cplx AOV.model.Compress
               AOV.proofs.Dft_proofs AOV.proofs.Mat_proofs.
Import ListNotations.

(* ========================================================================================== *)
(* PART E : equivalent_layers                                                                  *)
(* ========================================================================================== *)

(* the selection "elements of l whose slab index is j" used by the model *)
Definition sel {A} (ix : list nat) (l : list A) (j : nat) : list A :=
  map snd (filter (fun kx => Nat.eqb (fst kx) j) (combine ix l)).
(* the elements whose index lies in 1..L (those that are not dropped) *)
Definition kept {A} (ix : list nat) (l : list A) (L : nat) : list A :=
  map snd (filter (fun kx => Nat.leb 1 (fst kx) && Nat.leb (fst kx) L) (combine ix l)).

Lemma filter_length_le' {A} (f : A -> bool) l : length (filter f l) <= length l.
Proof. induction l as [|x l IH]; cbn [filter length]; [lia|]. destruct (f x); cbn [length]; lia. Qed.

Section ELgen.
  Context {T : Type} (O : NumOps T).
  (* bin edges and slab indices exactly as computed inside equivalent_layers *)
  Definition el_bins (h : list T) (L : nat) : list T :=
    let hstep := ndiv O (nsub O (lmax O h) (lmin O h)) (kn O L) in
    slab_edges O (lmin O h) hstep L.
  Definition el_ix (h : list T) (L : nat) : list nat := map (fun x => digitize O x (el_bins h L)) h.

  Lemma el_unfold h p w L :
    equivalent_layers O h p w L =
    map (fun i =>
      let ps := sel (el_ix h L) p (S i) in
      let hs := sel (el_ix h L) h (S i) in
      let wsel := sel (el_ix h L) w (S i) in
      let cn2 := nsum O ps in
      (pw35 O (ndiv O (nsum O (map2 (fun a b => nmul O a (pw53 O b)) ps hs)) cn2), cn2,
       pw35 O (ndiv O (nsum O (map2 (fun a b => nmul O a (pw53 O b)) ps wsel)) cn2)))
      (seq 0 L).
  Proof. reflexivity. Qed.

  (* E1 *)
  Theorem el_length h p w L : length (equivalent_layers O h p w L) = L.
  Proof. unfold equivalent_layers. rewrite map_length, seq_length. reflexivity. Qed.

  Lemma el_strengths h p w L :
    map ent1 (equivalent_layers O h p w L) = map (fun i => nsum O (sel (el_ix h L) p (S i))) (seq 0 L).
  Proof. rewrite el_unfold, map_map. reflexivity. Qed.

  Lemma el_ix_length h L : length (el_ix h L) = length h.
  Proof. unfold el_ix. apply map_length. Qed.

  (* the repaired slab edges: exactly L of them, hence no index above L -- for every carrier *)
  Theorem slab_edges_length a s L : length (slab_edges O a s L) = L.
  Proof. unfold slab_edges. rewrite map_length, seq_length. reflexivity. Qed.
  Lemma el_bins_length h L : length (el_bins h L) = L.
  Proof. unfold el_bins. apply slab_edges_length. Qed.
  Lemma digitize_le_length x bins : digitize O x bins <= length bins.
  Proof. unfold digitize. apply filter_length_le'. Qed.
  Theorem el_ix_le_L h L : Forall (fun i => i <= L) (el_ix h L).
  Proof.
    unfold el_ix. apply Forall_forall. intros i Hi. apply in_map_iff in Hi. destruct Hi as [x [<- _]].
    rewrite <- (el_bins_length h L) at 2. apply digitize_le_length.
  Qed.
End ELgen.

Lemma sel_cons {A} a ix (x : A) l j :
  sel (a :: ix) (x :: l) j = if Nat.eqb a j then x :: sel ix l j else sel ix l j.
Proof. unfold sel. cbn [combine filter fst]. destruct (Nat.eqb a j); reflexivity. Qed.
Lemma sel_nil_l {A} (l : list A) j : sel [] l j = [].
Proof. reflexivity. Qed.
Lemma sel_nil_r {A} ix j : sel ix ([] : list A) j = [].
Proof. unfold sel. destruct ix; reflexivity. Qed.
Lemma kept_cons {A} a ix (x : A) l L :
  kept (a :: ix) (x :: l) L = if Nat.leb 1 a && Nat.leb a L then x :: kept ix l L else kept ix l L.
Proof. unfold kept. cbn [combine filter fst]. destruct (Nat.leb 1 a && Nat.leb a L); reflexivity. Qed.
Lemma kept_nil_r {A} ix L : kept ix ([] : list A) L = [].
Proof. unfold kept. destruct ix; reflexivity. Qed.

Lemma sel_In {A} ix (l : list A) j x : In x (sel ix l j) -> In x l.
Proof.
  unfold sel. intros H. apply in_map_iff in H. destruct H as [[k y] [<- H]].
  apply filter_In in H. destruct H as [H _]. apply in_combine_r in H. exact H.
Qed.

(* selection commutes with pointwise combination (no length hypotheses: everything truncates alike) *)
Lemma sel_map2 {A B C} (f : A -> B -> C) ix a b j :
  map2 f (sel ix a j) (sel ix b j) = sel ix (map2 f a b) j.
Proof.
  revert a b; induction ix as [|i ix IH]; intros a b; [reflexivity|].
  destruct a as [|x a]; [rewrite sel_nil_r; cbn [map2]; rewrite sel_nil_r; reflexivity|].
  destruct b as [|y b].
  { rewrite (sel_nil_r (i :: ix)). cbn [map2]. rewrite sel_nil_r.
    destruct (sel (i :: ix) (x :: a) j); reflexivity. }
  cbn [map2]. rewrite !sel_cons. destruct (Nat.eqb i j); cbn [map2]; rewrite IH; reflexivity.
Qed.

Lemma kept_all {A} ix (l : list A) L :
  length ix = length l -> Forall (fun i => 1 <= i <= L) ix -> kept ix l L = l.
Proof.
  revert l; induction ix as [|a ix IH]; intros l Hl HF.
  - destruct l; [reflexivity|discriminate].
  - destruct l as [|x l]; [discriminate|]. inversion HF as [|? ? Ha HF']; subst.
    rewrite kept_cons.
    replace (Nat.leb 1 a) with true by (symmetry; apply Nat.leb_le; lia).
    replace (Nat.leb a L) with true by (symmetry; apply Nat.leb_le; lia).
    cbn [andb]. rewrite IH; auto.
Qed.

Local Open Scope R_scope.

Lemma Rltb_false a b : ~ a < b -> Rltb a b = false.
Proof. intros H. destruct (Rltb a b) eqn:E; [apply Rltb_true in E; tauto|reflexivity]. Qed.
Lemma ln_nonpos x : ~ 0 < x -> ln x = 0.
Proof. intros H. unfold ln. destruct (Rlt_dec 0 x); [contradiction|reflexivity]. Qed.
Lemma Rpower_nonpos_base x y : ~ 0 < x -> Rpower x y = 1.
Proof. intros H. unfold Rpower. rewrite ln_nonpos by exact H. rewrite Rmult_0_r. apply exp_0. Qed.
Lemma Rpower_base_1 y : Rpower 1 y = 1.
Proof. unfold Rpower. rewrite ln_1, Rmult_0_r. apply exp_0. Qed.

Section ELreal.
Variables (G : R -> R) (K : R -> R -> R).
Local Notation O := (ROps G K).

Lemma nsum_map_seq (f : nat -> R) L : nsum O (map f (seq 0 L)) = rsum f L.
Proof.
  induction L as [|L IH]; [reflexivity|].
  rewrite seq_S, map_app, nsum_R_app, IH. cbn [map plus rsum]. rewrite nsum_R_cons, nsum_R_nil. lra.
Qed.

Lemma nsum_nonneg l : Forall (fun x => 0 <= x) l -> 0 <= nsum O l.
Proof.
  induction 1 as [|x l Hx _ IH]; [rewrite nsum_R_nil; lra|]. rewrite nsum_R_cons. lra.
Qed.

(* one input element contributes to exactly one slab of 1..L, or to none *)
Lemma rsum_indicator a (x : R) L :
  rsum (fun i => if Nat.eqb a (S i) then x else 0) L = if Nat.leb 1 a && Nat.leb a L then x else 0.
Proof.
  induction L as [|L IH].
  - cbn [rsum]. destruct (Nat.leb 1 a) eqn:E1; [|reflexivity].
    destruct (Nat.leb a 0) eqn:E2; [|reflexivity].
    apply Nat.leb_le in E1. apply Nat.leb_le in E2. lia.
  - cbn [rsum]. rewrite IH.
    destruct (Nat.eqb a (S L)) eqn:E.
    + apply Nat.eqb_eq in E. subst a.
      replace (Nat.leb (S L) L) with false by (symmetry; apply Nat.leb_gt; lia).
      replace (Nat.leb (S L) (S L)) with true by (symmetry; apply Nat.leb_le; lia).
      replace (Nat.leb 1 (S L)) with true by (symmetry; apply Nat.leb_le; lia). cbn [andb]. lra.
    + apply Nat.eqb_neq in E.
      destruct (Nat.leb 1 a) eqn:E1; cbn [andb]; [|lra].
      destruct (Nat.leb a L) eqn:E2.
      * apply Nat.leb_le in E2. replace (Nat.leb a (S L)) with true by (symmetry; apply Nat.leb_le; lia). lra.
      * apply Nat.leb_gt in E2. replace (Nat.leb a (S L)) with false by (symmetry; apply Nat.leb_gt; lia). lra.
Qed.

(* E2, general form: summing the slab sums over slabs 1..L gives the sum of the kept elements *)
Lemma slab_sums_kept (ix : list nat) (p : list R) L :
  rsum (fun i => nsum O (sel ix p (S i))) L = nsum O (kept ix p L).
Proof.
  revert p; induction ix as [|a ix IH]; intros p.
  - unfold kept; cbn [combine filter map]. rewrite nsum_R_nil. apply rsum_zero_ext. reflexivity.
  - destruct p as [|x p].
    + rewrite kept_nil_r, nsum_R_nil. apply rsum_zero_ext. intros. rewrite sel_nil_r. reflexivity.
    + rewrite (rsum_ext _ (fun i => (if Nat.eqb a (S i) then x else 0) + nsum O (sel ix p (S i)))).
      2:{ intros i _. rewrite sel_cons. destruct (Nat.eqb a (S i)); [rewrite nsum_R_cons|]; lra. }
      rewrite rsum_add, IH, rsum_indicator, kept_cons.
      destruct (Nat.leb 1 a && Nat.leb a L); [rewrite nsum_R_cons|]; lra.
Qed.

Theorem slab_sums_total (ix : list nat) (p : list R) L :
  length ix = length p -> Forall (fun i => (1 <= i <= L)%nat) ix ->
  nsum O (map (fun i => nsum O (sel ix p (S i))) (seq 0 L)) = nsum O p.
Proof. intros Hl HF. rewrite nsum_map_seq, slab_sums_kept, kept_all; auto. Qed.

Theorem el_total h p w L :
  length h = length p -> Forall (fun i => (1 <= i <= L)%nat) (el_ix O h L) ->
  nsum O (map ent1 (equivalent_layers O h p w L)) = nsum O p.
Proof.
  intros Hl HF. rewrite el_strengths. apply slab_sums_total; auto.
  rewrite el_ix_length. exact Hl.
Qed.

(* converse, for an arbitrary index list: an element whose index is outside 1..L is dropped *)
Lemma kept_le ix (p : list R) L :
  Forall (fun x => 0 < x) p -> nsum O (kept ix p L) <= nsum O p.
Proof.
  revert p; induction ix as [|a ix IH]; intros p HF.
  - unfold kept; cbn [combine filter map]. rewrite nsum_R_nil. apply nsum_nonneg.
    eapply Forall_impl; [|exact HF]. cbv beta; intros; lra.
  - destruct p as [|x p]; [rewrite kept_nil_r; lra|]. inversion HF; subst.
    rewrite kept_cons. specialize (IH p H2).
    destruct (Nat.leb 1 a && Nat.leb a L); rewrite !nsum_R_cons; lra.
Qed.

Lemma kept_lt ix (p : list R) L :
  length ix = length p -> Forall (fun x => 0 < x) p ->
  Exists (fun i => ~ (1 <= i <= L)%nat) ix -> nsum O (kept ix p L) < nsum O p.
Proof.
  intros Hl HF HE. revert p Hl HF. induction HE as [a ix Ha | a ix HE IH]; intros p Hl HF.
  - destruct p as [|x p]; [discriminate|]. inversion HF; subst. rewrite kept_cons.
    replace (Nat.leb 1 a && Nat.leb a L) with false.
    2:{ symmetry. apply andb_false_iff. destruct (Nat.leb 1 a) eqn:E1; [right|left; reflexivity].
        apply Nat.leb_le in E1. apply Nat.leb_gt. lia. }
    rewrite nsum_R_cons. pose proof (kept_le ix p L H2). lra.
  - destruct p as [|x p]; [discriminate|]. inversion HF; subst. rewrite kept_cons.
    assert (nsum O (kept ix p L) < nsum O p) by (apply IH; auto).
    destruct (Nat.leb 1 a && Nat.leb a L); rewrite !nsum_R_cons; lra.
Qed.

(* E4 *)
Theorem el_nonneg h p w L :
  Forall (fun x => 0 <= x) p -> Forall (fun e => 0 <= ent1 e) (equivalent_layers O h p w L).
Proof.
  intros HF. apply (proj1 (Forall_map ent1 (fun x => 0 <= x) _)).
  rewrite el_strengths. apply (proj2 (Forall_map _ (fun x => 0 <= x) _)). apply Forall_forall. intros i _.
  apply nsum_nonneg. apply Forall_forall. intros x Hx. apply sel_In in Hx.
  rewrite Forall_forall in HF. auto.
Qed.

(* E3 : conservation of the 5/3-moments *)
Lemma Rpower_35_53 x : 0 < x -> Rpower (Rpower x (3/5)) (5/3) = x.
Proof.
  intros Hx. rewrite Rpower_mult. replace (3 / 5 * (5 / 3)) with 1 by field. apply Rpower_1; auto.
Qed.

Lemma map2_nonneg (f : R -> R -> R) p v :
  (forall a b, 0 <= a -> 0 <= f a b) -> Forall (fun x => 0 <= x) p -> Forall (fun x => 0 <= x) (map2 f p v).
Proof.
  intros Hf HF. revert v. induction HF as [|x p Hx _ IH]; intros v; [constructor|].
  destruct v as [|y v]; cbn [map2]; constructor; auto.
Qed.

Lemma sel_nonneg ix (q : list R) j : Forall (fun x => 0 <= x) q -> 0 <= nsum O (sel ix q j).
Proof.
  intros HF. apply nsum_nonneg. apply Forall_forall. intros x Hx. apply sel_In in Hx.
  rewrite Forall_forall in HF. auto.
Qed.

(* with non-negative strengths a slab of positive strength has a positive 5/3-moment *)
Lemma sel_pos_moment ix (p v : list R) j e :
  length v = length p -> Forall (fun x => 0 <= x) p -> 0 < nsum O (sel ix p j) ->
  0 < nsum O (sel ix (map2 (fun a b => a * Rpower b e) p v) j).
Proof.
  revert p v; induction ix as [|a ix IH]; intros p v Hl HF Hpos.
  - rewrite sel_nil_l, nsum_R_nil in Hpos. lra.
  - destruct p as [|x p]; [rewrite sel_nil_r, nsum_R_nil in Hpos; lra|].
    destruct v as [|y v]; [discriminate|]. inversion HF as [|? ? Hx HF']; subst.
    cbn [map2]. rewrite sel_cons in *. destruct (Nat.eqb a j).
    + rewrite nsum_R_cons in *.
      assert (Hq : 0 <= nsum O (sel ix (map2 (fun a b => a * Rpower b e) p v) j)).
      { apply sel_nonneg. apply map2_nonneg; auto. intros a0 b0 Ha0.
        apply Rmult_le_pos; [auto|]. left. apply Rpower_pos. }
      destruct (Rle_lt_or_eq_dec _ _ Hx) as [Hx'|Hx'].
      * assert (0 < x * Rpower y e) by (apply Rmult_lt_0_compat; [auto|apply Rpower_pos]). lra.
      * subst x. rewrite Rmult_0_l, Rplus_0_l. apply IH; auto. lra.
    + apply IH; auto.
Qed.

(* a slab of zero strength (in particular an empty one) has zero 5/3-moment when strengths are >= 0 *)
Lemma sel_zero_moment ix (p v : list R) j e :
  length v = length p -> Forall (fun x => 0 <= x) p -> nsum O (sel ix p j) = 0 ->
  nsum O (sel ix (map2 (fun a b => a * Rpower b e) p v) j) = 0.
Proof.
  revert p v; induction ix as [|a ix IH]; intros p v Hl HF Hz.
  - rewrite sel_nil_l, nsum_R_nil. reflexivity.
  - destruct p as [|x p]; [cbn [map2]; rewrite sel_nil_r, nsum_R_nil; reflexivity|].
    destruct v as [|y v]; [discriminate|]. inversion HF as [|? ? Hx HF']; subst.
    cbn [map2]. rewrite sel_cons in *. destruct (Nat.eqb a j).
    + rewrite nsum_R_cons in *. pose proof (sel_nonneg ix p j HF') as Hr.
      assert (x = 0) by lra. subst x. rewrite Rmult_0_l, Rplus_0_l. apply IH; auto. lra.
    + apply IH; auto.
Qed.

(* per-slab condition under which c_i * h_i^(5/3) equals the slab's 5/3-moment S_i :
   either c_i <> 0 and S_i / c_i > 0, or c_i = 0 = S_i (then 0 * anything = 0; the model returns
   Rpower (0/0) (3/5) = 1 as height of such a slab) *)
Definition slab_ok (c S : R) : Prop := (c <> 0 /\ 0 < S / c) \/ (c = 0 /\ S = 0).

Lemma moment_core ix (p v : list R) L :
  length ix = length p -> length v = length p -> Forall (fun i => (1 <= i <= L)%nat) ix ->
  (forall i, (i < L)%nat ->
     slab_ok (nsum O (sel ix p (S i)))
             (nsum O (map2 (fun a b => nmul O a (pw53 O b)) (sel ix p (S i)) (sel ix v (S i))))) ->
  rsum (fun i => nsum O (sel ix p (S i)) *
        Rpower (pw35 O (ndiv O (nsum O (map2 (fun a b => nmul O a (pw53 O b)) (sel ix p (S i)) (sel ix v (S i))))
                               (nsum O (sel ix p (S i))))) (5/3)) L
  = nsum O (map2 (fun a b => a * Rpower b (5/3)) p v).
Proof.
  intros Hl Hv HF Hpos.
  rewrite (rsum_ext _ (fun i => nsum O (sel ix (map2 (fun a b => a * Rpower b (5/3)) p v) (S i)))).
  - rewrite slab_sums_kept, kept_all; auto. rewrite map2_length. rewrite Hv, Nat.min_id. exact Hl.
  - intros i Hi. specialize (Hpos i Hi).
    rewrite <- sel_map2.
    change (fun a b : R => a * Rpower b (5/3)) with (fun a b : R => nmul O a (pw53 O b)).
    set (c := nsum O (sel ix p (S i))) in *. set (s := nsum O (map2 _ _ _)) in *.
    change (c * Rpower (Rpower (s / c) (3/5)) (5/3) = s).
    destruct Hpos as [[Hc Hq]|[Hc Hs]].
    + rewrite Rpower_35_53 by exact Hq. field. exact Hc.
    + rewrite Hc, Hs. apply Rmult_0_l.
Qed.

(* versions relative to an explicit index-range hypothesis (discharged below for the repaired model) *)
Lemma el_moment53_ix h p w L :
  length h = length p -> Forall (fun i => (1 <= i <= L)%nat) (el_ix O h L) ->
  (forall i, (i < L)%nat ->
     let ps := sel (el_ix O h L) p (S i) in let hs := sel (el_ix O h L) h (S i) in
     slab_ok (nsum O ps) (nsum O (map2 (fun a b => nmul O a (pw53 O b)) ps hs))) ->
  nsum O (map (fun e => ent1 e * Rpower (ent0 e) (5/3)) (equivalent_layers O h p w L))
  = nsum O (map2 (fun a b => a * Rpower b (5/3)) p h).
Proof.
  intros Hl HF Hpos. rewrite el_unfold, map_map, nsum_map_seq. cbv zeta. unfold ent0, ent1. cbn [fst snd].
  apply moment_core; auto. rewrite el_ix_length. exact Hl.
Qed.

Lemma el_wind53_ix h p w L :
  length h = length p -> length w = length p -> Forall (fun i => (1 <= i <= L)%nat) (el_ix O h L) ->
  (forall i, (i < L)%nat ->
     let ps := sel (el_ix O h L) p (S i) in let ws := sel (el_ix O h L) w (S i) in
     slab_ok (nsum O ps) (nsum O (map2 (fun a b => nmul O a (pw53 O b)) ps ws))) ->
  nsum O (map (fun e => ent1 e * Rpower (ent2 e) (5/3)) (equivalent_layers O h p w L))
  = nsum O (map2 (fun a b => a * Rpower b (5/3)) p w).
Proof.
  intros Hl Hw HF Hpos. rewrite el_unfold, map_map, nsum_map_seq. cbv zeta. unfold ent2, ent1. cbn [fst snd].
  apply moment_core; auto. rewrite el_ix_length. exact Hl.
Qed.

(* with strengths >= 0 every slab is fine: positive strength gives a positive moment, zero strength a zero moment *)
Lemma slab_ok_nonneg ix (p v : list R) j :
  length v = length p -> Forall (fun x => 0 <= x) p ->
  slab_ok (nsum O (sel ix p j))
          (nsum O (map2 (fun a b => nmul O a (pw53 O b)) (sel ix p j) (sel ix v j))).
Proof.
  intros Hv HF. rewrite sel_map2.
  change (fun a b : R => nmul O a (pw53 O b)) with (fun a b : R => a * Rpower b (5/3)).
  pose proof (sel_nonneg ix p j HF) as Hc.
  destruct (Rle_lt_or_eq_dec _ _ Hc) as [Hpos|Hz].
  - left. split; [lra|]. apply Rdiv_lt_0_compat; [|exact Hpos]. apply sel_pos_moment; auto.
  - right. split; [auto|]. apply sel_zero_moment; auto.
Qed.

Lemma el_strength_pos_hyp h p w L :
  Forall (fun e => 0 < ent1 e) (equivalent_layers O h p w L) ->
  forall i, (i < L)%nat -> 0 < nsum O (sel (el_ix O h L) p (S i)).
Proof.
  intros HF i Hi. apply (proj2 (Forall_map ent1 (fun x => 0 < x) _)) in HF.
  rewrite el_strengths in HF. rewrite Forall_forall in HF.
  apply (HF (nsum O (sel (el_ix O h L) p (S i)))).
  apply in_map_iff. exists i. split; [reflexivity|]. apply in_seq. lia.
Qed.

(* E5 : digitize at the real instance *)
Lemma digitize_R x bins : digitize O x bins = length (filter (fun b => Rleb b x) bins).
Proof. reflexivity. Qed.

Lemma digitize_cons x b bins :
  digitize O x (b :: bins) = if Rleb b x then S (digitize O x bins) else digitize O x bins.
Proof. rewrite !digitize_R. cbn [filter]. destruct (Rleb b x); reflexivity. Qed.

Lemma digitize_all_above x bins : Forall (fun b => x < b) bins -> digitize O x bins = 0%nat.
Proof.
  induction 1 as [|b bins Hb _ IH]; [reflexivity|]. rewrite digitize_cons, IH.
  destruct (Rleb b x) eqn:E; [|reflexivity]. apply Rleb_true in E. lra.
Qed.

(* for (weakly) increasing bins the bins <= x form a prefix: the index is determined by the two
   neighbouring edges *)
Lemma digitize_gt bins x k :
  StronglySorted Rle bins -> (k < length bins)%nat -> nth k bins 0 <= x -> (k < digitize O x bins)%nat.
Proof.
  intros HS. revert k. induction HS as [|b bins HS IH Hb]; intros k Hk Hx; [cbn in Hk; lia|].
  rewrite digitize_cons. destruct k as [|k]; cbn [nth length] in *.
  - replace (Rleb b x) with true by (symmetry; apply Rleb_true; auto). lia.
  - assert (b <= nth k bins 0).
    { rewrite Forall_forall in Hb. apply Hb. apply nth_In. lia. }
    replace (Rleb b x) with true by (symmetry; apply Rleb_true; lra).
    apply -> Nat.succ_lt_mono. apply IH; [lia|auto].
Qed.

Lemma digitize_le bins x k :
  StronglySorted Rle bins -> (k < length bins)%nat -> x < nth k bins 0 -> (digitize O x bins <= k)%nat.
Proof.
  intros HS. revert k. induction HS as [|b bins HS IH Hb]; intros k Hk Hx; [cbn in Hk; lia|].
  destruct k as [|k]; cbn [nth length] in *.
  - rewrite digitize_all_above; [lia|]. constructor; [auto|].
    eapply Forall_impl; [|exact Hb]. cbv beta. intros; lra.
  - rewrite digitize_cons. specialize (IH k ltac:(lia) Hx). destruct (Rleb b x); lia.
Qed.

(* characterisation: digitize x bins = i iff edge i-1 <= x < edge i (when these edges exist) *)
Theorem digitize_spec bins x i :
  StronglySorted Rle bins ->
  (digitize O x bins = i <->
   (i <= length bins)%nat /\ (forall k, (k < i)%nat -> nth k bins 0 <= x) /\
   (forall k, (i <= k < length bins)%nat -> x < nth k bins 0)).
Proof.
  intros HS. split.
  - intros <-. split; [apply (digitize_le_length O)|]. split.
    + intros k Hk. destruct (Rle_dec (nth k bins 0) x) as [|Hn]; [auto|exfalso].
      assert (k < length bins)%nat by (pose proof (digitize_le_length O x bins); lia).
      assert (digitize O x bins <= k)%nat by (apply digitize_le; auto; lra). lia.
    + intros k [Hk1 Hk2]. destruct (Rlt_dec x (nth k bins 0)) as [|Hn]; [auto|exfalso].
      assert (k < digitize O x bins)%nat by (apply digitize_gt; auto; lra). lia.
  - intros (Hi & Hlo & Hhi). apply Nat.le_antisymm.
    + destruct (Nat.eq_dec i (length bins)) as [->|Hne]; [apply (digitize_le_length O)|].
      apply digitize_le; [exact HS|lia|apply Hhi; lia].
    + destruct i as [|i]; [lia|]. apply digitize_gt; [exact HS|lia|apply Hlo; lia].
Qed.

(* x at or above the first edge lands in slab >= 1 (no sortedness needed) *)
Theorem digitize_ge_1 bins x : bins <> [] -> hd 0 bins <= x -> (1 <= digitize O x bins)%nat.
Proof.
  destruct bins as [|b bins]; [congruence|]. intros _ Hx. cbn [hd] in Hx.
  rewrite digitize_cons. replace (Rleb b x) with true by (symmetry; apply Rleb_true; auto). lia.
Qed.

(* index <= L  iff  there are at most L edges, or x is below edge number L+1 (0-based L) *)
Theorem digitize_le_iff bins x L :
  StronglySorted Rle bins ->
  ((digitize O x bins <= L)%nat <-> ((length bins <= L)%nat \/ x < nth L bins 0)).
Proof.
  intros HS. split.
  - intros Hd. destruct (le_lt_dec (length bins) L) as [|Hlt]; [left; auto|right].
    destruct (Rlt_dec x (nth L bins 0)) as [|Hn]; [auto|exfalso].
    assert (L < digitize O x bins)%nat by (apply digitize_gt; auto; lra). lia.
  - intros [Hlen|Hx].
    + pose proof (digitize_le_length O x bins). lia.
    + destruct (le_lt_dec (length bins) L) as [|Hlt].
      * pose proof (digitize_le_length O x bins). lia.
      * apply digitize_le; auto.
Qed.

(* consequence used for the "top layer dropped" defect: an element at or above edge number L+1 is dropped *)
Corollary digitize_dropped bins x L :
  StronglySorted Rle bins -> (L < length bins)%nat -> nth L bins 0 <= x -> (L < digitize O x bins)%nat.
Proof. intros; apply digitize_gt; auto. Qed.

(* the hypothesis of el_total spelled out on the edges: every height is at or above the first edge, and
   below edge number L+1 unless only L edges exist *)
Theorem ix_in_range_iff bins (h : list R) L :
  StronglySorted Rle bins -> bins <> [] ->
  (Forall (fun i => (1 <= i <= L)%nat) (map (fun x => digitize O x bins) h) <->
   Forall (fun x => hd 0 bins <= x /\ ((length bins <= L)%nat \/ x < nth L bins 0)) h).
Proof.
  intros HS Hne. rewrite Forall_map. split; intros HF; (eapply Forall_impl; [|exact HF]); cbv beta.
  - intros x [H1 H2]. split.
    + destruct (proj1 (digitize_spec bins x (digitize O x bins) HS) eq_refl) as (_ & Hlo & _).
      specialize (Hlo 0%nat H1). destruct bins; [congruence|exact Hlo].
    + apply digitize_le_iff; auto.
  - intros x [Ha Hb]. split; [apply digitize_ge_1; auto|apply digitize_le_iff; auto].
Qed.

(* ---- the repaired slab edges: no layer is ever dropped ---- *)
Lemma nmin_le_l a b : nmin O a b <= a.
Proof.
  unfold nmin. change (nltb O b a) with (Rltb b a). destruct (Rltb b a) eqn:E; [apply Rltb_true in E|]; lra.
Qed.
Lemma nmin_le_r a b : nmin O a b <= b.
Proof.
  unfold nmin. change (nltb O b a) with (Rltb b a). destruct (Rltb b a) eqn:E; [lra|].
  destruct (Rle_dec a b) as [|Hn]; [auto|]. assert (b < a) by lra. apply Rltb_true in H. congruence.
Qed.
Lemma nmax_ge_l a b : a <= nmax O a b.
Proof.
  unfold nmax. change (nltb O a b) with (Rltb a b). destruct (Rltb a b) eqn:E; [apply Rltb_true in E|]; lra.
Qed.
Lemma nmax_ge_r a b : b <= nmax O a b.
Proof.
  unfold nmax. change (nltb O a b) with (Rltb a b). destruct (Rltb a b) eqn:E; [lra|].
  destruct (Rle_dec b a) as [|Hn]; [auto|]. assert (a < b) by lra. apply Rltb_true in H. congruence.
Qed.
Lemma fold_nmin_le_acc l : forall a, fold_left (nmin O) l a <= a.
Proof.
  induction l as [|x l IH]; intros a; cbn [fold_left]; [lra|].
  eapply Rle_trans; [apply IH|apply nmin_le_l].
Qed.
Lemma fold_nmin_le_In l : forall a x, In x l -> fold_left (nmin O) l a <= x.
Proof.
  induction l as [|y l IH]; intros a x Hx; [destruct Hx|]. cbn [fold_left]. destruct Hx as [->|Hx].
  - eapply Rle_trans; [apply fold_nmin_le_acc|apply nmin_le_r].
  - apply IH. exact Hx.
Qed.
Lemma fold_nmax_ge_acc l : forall a, a <= fold_left (nmax O) l a.
Proof.
  induction l as [|x l IH]; intros a; cbn [fold_left]; [lra|].
  eapply Rle_trans; [apply nmax_ge_l|apply IH].
Qed.
Lemma fold_nmax_ge_In l : forall a x, In x l -> x <= fold_left (nmax O) l a.
Proof.
  induction l as [|y l IH]; intros a x Hx; [destruct Hx|]. cbn [fold_left]. destruct Hx as [->|Hx].
  - eapply Rle_trans; [apply nmax_ge_r|apply fold_nmax_ge_acc].
  - apply IH. exact Hx.
Qed.
Lemma fold_nmin_in l : forall a, fold_left (nmin O) l a = a \/ In (fold_left (nmin O) l a) l.
Proof.
  induction l as [|x l IH]; intros a; cbn [fold_left]; [left; reflexivity|].
  destruct (IH (nmin O a x)) as [E|Hin]; [|right; right; exact Hin].
  rewrite E. unfold nmin. destruct (nltb O x a); [right; left; reflexivity|left; reflexivity].
Qed.

(* lmin is a lower bound of every element (also for h = [], vacuously), lmax an upper bound *)
Theorem lmin_le h : Forall (fun x => lmin O h <= x) h.
Proof. apply Forall_forall. intros x Hx. unfold lmin. apply fold_nmin_le_In. exact Hx. Qed.
Theorem lmax_ge h : Forall (fun x => x <= lmax O h) h.
Proof. apply Forall_forall. intros x Hx. unfold lmax. apply fold_nmax_ge_In. exact Hx. Qed.
Theorem lmin_in h : h <> [] -> In (lmin O h) h.
Proof.
  destruct h as [|a r]; [congruence|]. intros _. unfold lmin. cbn [hd].
  destruct (fold_nmin_in (a :: r) a) as [E|Hin]; [rewrite E; left; reflexivity|exact Hin].
Qed.

(* the first edge is lmin h + hstep * 0 = lmin h, whatever hstep is *)
Lemma el_bins_hd h L : hd 0 (el_bins O h (S L)) = lmin O h.
Proof.
  unfold el_bins, slab_edges. cbv zeta. cbn [seq map hd].
  set (s := ndiv O _ _). change (lmin O h + s * 0 = lmin O h). lra.
Qed.

Theorem el_ix_ge_1 h L : (1 <= L)%nat -> Forall (fun i => (1 <= i)%nat) (el_ix O h L).
Proof.
  intros HL. destruct L as [|L]; [lia|]. unfold el_ix. apply Forall_forall. intros i Hi.
  apply in_map_iff in Hi. destruct Hi as [x [<- Hx]]. apply digitize_ge_1.
  - intros E. apply (f_equal (@length R)) in E. rewrite el_bins_length in E. discriminate.
  - rewrite el_bins_hd. pose proof (lmin_le h) as Hm. rewrite Forall_forall in Hm. auto.
Qed.

(* for EVERY h (unsorted, repeated values, empty, ...) all slab indices are within 1..L *)
Theorem el_ix_in_range h L : (1 <= L)%nat -> Forall (fun i => (1 <= i <= L)%nat) (el_ix O h L).
Proof.
  intros HL. pose proof (el_ix_ge_1 h L HL) as H1. pose proof (el_ix_le_L O h L) as H2.
  rewrite Forall_forall in *. intros i Hi. split; auto.
Qed.

Corollary el_no_layer_dropped h (p : list R) L :
  (1 <= L)%nat -> length h = length p -> kept (el_ix O h L) p L = p.
Proof. intros HL Hl. apply kept_all; [rewrite el_ix_length; exact Hl|apply el_ix_in_range; exact HL]. Qed.

Theorem el_total_unconditional h p w L :
  (1 <= L)%nat -> length h = length p ->
  nsum O (map ent1 (equivalent_layers O h p w L)) = nsum O p.
Proof. intros HL Hl. apply el_total; [exact Hl|apply el_ix_in_range; exact HL]. Qed.

(* 5/3-moments, most general per-slab form: c_i <> 0 and S_i / c_i > 0 for every slab *)
Theorem el_moment53_gen h p w L :
  (1 <= L)%nat -> length h = length p ->
  (forall i, (i < L)%nat ->
     let ps := sel (el_ix O h L) p (S i) in let hs := sel (el_ix O h L) h (S i) in
     nsum O ps <> 0 /\ 0 < nsum O (map2 (fun a b => nmul O a (pw53 O b)) ps hs) / nsum O ps) ->
  nsum O (map (fun e => ent1 e * Rpower (ent0 e) (5/3)) (equivalent_layers O h p w L))
  = nsum O (map2 (fun a b => a * Rpower b (5/3)) p h).
Proof.
  intros HL Hl Hpos. apply el_moment53_ix; [exact Hl|apply el_ix_in_range; exact HL|].
  intros i Hi. left. exact (Hpos i Hi).
Qed.

Theorem el_wind53_gen h p w L :
  (1 <= L)%nat -> length h = length p -> length w = length p ->
  (forall i, (i < L)%nat ->
     let ps := sel (el_ix O h L) p (S i) in let ws := sel (el_ix O h L) w (S i) in
     nsum O ps <> 0 /\ 0 < nsum O (map2 (fun a b => nmul O a (pw53 O b)) ps ws) / nsum O ps) ->
  nsum O (map (fun e => ent1 e * Rpower (ent2 e) (5/3)) (equivalent_layers O h p w L))
  = nsum O (map2 (fun a b => a * Rpower b (5/3)) p w).
Proof.
  intros HL Hl Hw Hpos. apply el_wind53_ix; [exact Hl|exact Hw|apply el_ix_in_range; exact HL|].
  intros i Hi. left. exact (Hpos i Hi).
Qed.

(* unconditional versions: only p_k >= 0.  A slab of zero strength (e.g. an empty slab) has c_i = 0 and
   S_i = 0, and 0 * h_i^(5/3) = 0 whatever height the model returns for it (it returns 1, see below).
   The statement without p_k >= 0 is false (el_moment53_refuted); heights / winds may have any sign since
   pw53 is Rpower on both sides. *)
Theorem el_moment53 h p w L :
  (1 <= L)%nat -> length h = length p -> Forall (fun x => 0 <= x) p ->
  nsum O (map (fun e => ent1 e * Rpower (ent0 e) (5/3)) (equivalent_layers O h p w L))
  = nsum O (map2 (fun a b => a * Rpower b (5/3)) p h).
Proof.
  intros HL Hl Hp. apply el_moment53_ix; [exact Hl|apply el_ix_in_range; exact HL|].
  intros i Hi. cbv zeta. apply slab_ok_nonneg; auto.
Qed.

Theorem el_wind53 h p w L :
  (1 <= L)%nat -> length h = length p -> length w = length p -> Forall (fun x => 0 <= x) p ->
  nsum O (map (fun e => ent1 e * Rpower (ent2 e) (5/3)) (equivalent_layers O h p w L))
  = nsum O (map2 (fun a b => a * Rpower b (5/3)) p w).
Proof.
  intros HL Hl Hw Hp. apply el_wind53_ix; [exact Hl|exact Hw|apply el_ix_in_range; exact HL|].
  intros i Hi. cbv zeta. apply slab_ok_nonneg; auto.
Qed.

(* the earlier "_variant" forms (p_k >= 0 and every slab of positive strength) are now special cases *)
Corollary el_moment53_variant h p w L :
  (1 <= L)%nat -> length h = length p -> Forall (fun x => 0 <= x) p ->
  Forall (fun e => 0 < ent1 e) (equivalent_layers O h p w L) ->
  nsum O (map (fun e => ent1 e * Rpower (ent0 e) (5/3)) (equivalent_layers O h p w L))
  = nsum O (map2 (fun a b => a * Rpower b (5/3)) p h).
Proof. intros HL Hl Hp _. apply el_moment53; auto. Qed.

Corollary el_wind53_variant h p w L :
  (1 <= L)%nat -> length h = length p -> length w = length p -> Forall (fun x => 0 <= x) p ->
  Forall (fun e => 0 < ent1 e) (equivalent_layers O h p w L) ->
  nsum O (map (fun e => ent1 e * Rpower (ent2 e) (5/3)) (equivalent_layers O h p w L))
  = nsum O (map2 (fun a b => a * Rpower b (5/3)) p w).
Proof. intros HL Hl Hw Hp _. apply el_wind53; auto. Qed.

(* what the model returns for an empty slab: strength 0, and 0/0 = 0 * /0 = 0 in R, Rpower 0 (3/5) = 1 *)
Theorem el_empty_slab_entry h p w L i d :
  (i < L)%nat -> sel (el_ix O h L) p (S i) = [] ->
  nth i (equivalent_layers O h p w L) d = (1, 0, 1).
Proof.
  intros Hi He. rewrite el_unfold. rewrite nth_map_seq by exact Hi. cbv zeta. rewrite He.
  cbn [map2]. rewrite nsum_R_nil. unfold pw35. change (npow O) with Rpower. change (ndiv O 0 0) with (0 / 0).
  rewrite (Rpower_nonpos_base (0 / 0)); [reflexivity|]. unfold Rdiv. rewrite Rmult_0_l. lra.
Qed.
Corollary el_empty_slab_strength_zero h p w L i :
  (i < L)%nat -> sel (el_ix O h L) p (S i) = [] ->
  nth i (map ent1 (equivalent_layers O h p w L)) 0 = 0.
Proof.
  intros Hi He. change 0 with (ent1 ((1, 0, 1) : R * R * R)) at 1. rewrite map_nth.
  rewrite (el_empty_slab_entry h p w L i _ Hi He). reflexivity.
Qed.

End ELreal.

(* ---- the 5/3-moment statement WITHOUT "p_k >= 0" is false: explicit counterexample ---- *)
Section ELrefute.
Variables (G : R -> R) (K : R -> R -> R).
Local Notation O := (ROps G K).

Lemma lmax_12 : lmax O [1;2] = 2.
Proof.
  unfold lmax. cbn [fold_left hd]. unfold nmax. rops.
  rewrite (Rltb_false 1 1) by lra. rewrite (proj2 (Rltb_true 1 2)) by lra. reflexivity.
Qed.
Lemma lmin_12 : lmin O [1;2] = 1.
Proof.
  unfold lmin. cbn [fold_left hd]. unfold nmin. rops.
  rewrite (Rltb_false 1 1) by lra. rewrite (Rltb_false 2 1) by lra. reflexivity.
Qed.
Lemma bins_12 : el_bins O [1;2] 1 = [1].
Proof.
  unfold el_bins. rewrite lmax_12, lmin_12. unfold slab_edges, kn. cbn [seq map Z.of_nat]. rops.
  f_equal. lra.
Qed.
Lemma ix_12 : el_ix O [1;2] 1 = [1;1]%nat.
Proof.
  unfold el_ix. rewrite bins_12. cbn [map]. rewrite !digitize_R. cbn [filter].
  rewrite (proj2 (Rleb_true 1 1)) by lra. rewrite (proj2 (Rleb_true 1 2)) by lra. reflexivity.
Qed.

(* h = [1;2], p = [2;-1], L = 1: both layers fall in slab 1, its strength is 2 - 1 = 1 > 0, all heights are
   positive, but its 5/3-moment 2 - 2^(5/3) is negative; Rpower of a negative base is 1, so the returned
   height is 1 and the left-hand side is 1 while the right-hand side is negative *)
Theorem el_moment53_refuted :
  exists (h p w : list R) (L : nat),
    length h = length p /\ length w = length p /\
    Forall (fun i => (1 <= i <= L)%nat) (el_ix O h L) /\
    Forall (fun e => 0 < ent1 e) (equivalent_layers O h p w L) /\
    Forall (fun x => 0 < x) h /\ Forall (fun x => 0 < x) w /\
    nsum O (map (fun e => ent1 e * Rpower (ent0 e) (5/3)) (equivalent_layers O h p w L))
    <> nsum O (map2 (fun a b => a * Rpower b (5/3)) p h).
Proof.
  exists [1;2], [2;-1], [1;1], 1%nat.
  assert (H2 : 2 < Rpower 2 (5/3)).
  { rewrite <- (Rpower_1 2) at 1 by lra. apply Rpower_lt; lra. }
  assert (E : equivalent_layers O [1;2] [2;-1] [1;1] 1 =
              [(pw35 O ((0 + 2 * Rpower 1 (5/3) + -1 * Rpower 2 (5/3)) / (0 + 2 + -1)), 0 + 2 + -1,
                pw35 O ((0 + 2 * Rpower 1 (5/3) + -1 * Rpower 1 (5/3)) / (0 + 2 + -1)))]).
  { rewrite el_unfold, ix_12. reflexivity. }
  rewrite E. split; [reflexivity|]. split; [reflexivity|]. split.
  { rewrite ix_12. repeat constructor. }
  split. { constructor; [|constructor]. unfold ent1. cbn [fst snd]. lra. }
  split. { repeat constructor; lra. }
  split. { repeat constructor; lra. }
  cbn [map map2]. unfold ent0, ent1. cbn [fst snd]. rewrite !nsum_R_cons, nsum_R_nil.
  rewrite Rpower_base_1. unfold pw35. change (npow O) with Rpower.
  replace ((0 + 2 * 1 + -1 * Rpower 2 (5/3)) / (0 + 2 + -1)) with (2 - Rpower 2 (5/3)) by field.
  rewrite (Rpower_nonpos_base (2 - Rpower 2 (5/3))) by lra.
  rewrite Rpower_base_1. lra.
Qed.
End ELrefute.

(* ========================================================================================== *)
(* PART F : optimal grouping                                                                   *)
(* ========================================================================================== *)
Local Close Scope R_scope.

(* ---- F1 : splits -> groups is a partition of 0..N-1 into non-empty contiguous groups ---- *)
Lemma groups_from_length start splits N : length (groups_from start splits N) = S (length splits).
Proof. revert start; induction splits as [|s r IH]; intros start; cbn [groups_from length]; auto. Qed.

Lemma groups_from_concat splits : forall start N,
  StronglySorted lt splits -> Forall (fun s => start <= s /\ s < N - 1) splits -> start <= N ->
  concat (groups_from start splits N) = seq start (N - start).
Proof.
  induction splits as [|s r IH]; intros start N HS HF Hle; cbn [groups_from concat].
  - apply app_nil_r.
  - inversion HS as [|? ? HS' Hlt]; subst. inversion HF as [|? ? [Hs1 Hs2] HF']; subst.
    rewrite IH; [| exact HS' | | lia].
    + replace (N - start) with ((S s - start) + (N - S s)) by lia. rewrite seq_app.
      replace (start + (S s - start)) with (S s) by lia. reflexivity.
    + rewrite Forall_forall in *. intros x Hx. specialize (Hlt x Hx). specialize (HF' x Hx). lia.
Qed.

Lemma seq_nonempty a n : 0 < n -> seq a n <> [].
Proof. destruct n; [lia|discriminate]. Qed.

Lemma groups_from_nonempty splits : forall start N,
  StronglySorted lt splits -> Forall (fun s => start <= s /\ s < N - 1) splits -> start < N ->
  Forall (fun g => g <> []) (groups_from start splits N).
Proof.
  induction splits as [|s r IH]; intros start N HS HF Hlt; cbn [groups_from].
  - constructor; [|constructor]. apply seq_nonempty. lia.
  - inversion HS as [|? ? HS' Hl]; subst. inversion HF as [|? ? [Hs1 Hs2] HF']; subst.
    constructor; [apply seq_nonempty; lia|]. apply IH; [exact HS'| |lia].
    rewrite Forall_forall in *. intros x Hx. specialize (Hl x Hx). specialize (HF' x Hx). lia.
Qed.

Theorem groups_partition splits N :
  splits <> [] -> StronglySorted lt splits -> Forall (fun s => s < N - 1) splits ->
  concat (convert_splits_to_groups splits N) = seq 0 N /\
  Forall (fun g => g <> []) (convert_splits_to_groups splits N) /\
  length (convert_splits_to_groups splits N) = length splits + 1.
Proof.
  intros Hne HS HF. destruct splits as [|s r]; [congruence|].
  change (convert_splits_to_groups (s :: r) N) with (groups_from 0 (s :: r) N).
  assert (HF0 : Forall (fun x => 0 <= x /\ x < N - 1) (s :: r)).
  { eapply Forall_impl; [|exact HF]. cbv beta. intros; lia. }
  assert (0 < N) by (inversion HF; subst; lia).
  split; [|split].
  - rewrite groups_from_concat; auto; [|lia]. rewrite Nat.sub_0_r. reflexivity.
  - apply groups_from_nonempty; auto.
  - rewrite groups_from_length. lia.
Qed.

(* ---- insert_at / delete_at ---- *)
Lemma insert_at_length {A} i (x : A) l : length (insert_at i x l) = S (length l).
Proof. unfold insert_at. rewrite app_length. cbn [length]. rewrite firstn_length, skipn_length. lia. Qed.
Lemma delete_at_length {A} d (l : list A) : d < length l -> length (delete_at d l) = length l - 1.
Proof. intros H. unfold delete_at. rewrite app_length, firstn_length, skipn_length. lia. Qed.
Lemma insert_at_S {A} i (x a : A) l : insert_at (S i) x (a :: l) = a :: insert_at i x l.
Proof. reflexivity. Qed.
Lemma delete_at_S {A} d (a : A) l : delete_at (S d) (a :: l) = a :: delete_at d l.
Proof. reflexivity. Qed.
Lemma delete_insert {A} i (x : A) : forall l, i <= length l -> delete_at i (insert_at i x l) = l.
Proof.
  induction i as [|i IH]; intros l Hl; [reflexivity|].
  destruct l as [|a l]; [cbn in Hl; lia|]. rewrite insert_at_S, delete_at_S, IH; [reflexivity|cbn in Hl; lia].
Qed.
Lemma insert_at_In {A} i (x y : A) l : In y (insert_at i x l) -> y = x \/ In y l.
Proof.
  unfold insert_at. intros H. apply in_app_or in H.
  destruct H as [H|[H|H]]; [right|left; auto|right]; rewrite <- (firstn_skipn i l); apply in_or_app; auto.
Qed.
Lemma delete_at_In {A} (y : A) : forall d l, In y (delete_at d l) -> In y l.
Proof.
  induction d as [|d IH]; intros l H; destruct l as [|a l]; try (cbn in H; tauto).
  - right. exact H.
  - rewrite delete_at_S in H. destruct H as [H|H]; [left; auto|right; apply IH; auto].
Qed.

(* ---- strictly increasing lists ---- *)
Lemma SS_nth g : StronglySorted lt g -> forall a b, a < b -> b < length g -> nth a g 0 < nth b g 0.
Proof.
  induction 1 as [|x l HS IH HF]; intros a b Hab Hb; [cbn in Hb; lia|].
  destruct b as [|b]; [lia|]. cbn [length] in Hb. destruct a as [|a]; cbn [nth].
  - rewrite Forall_forall in HF. apply HF. apply nth_In. lia.
  - apply IH; lia.
Qed.

Lemma delete_sorted : forall d l, StronglySorted lt l -> StronglySorted lt (delete_at d l).
Proof.
  induction d as [|d IH]; intros l HS; destruct l as [|a l]; try exact HS.
  - inversion HS; subst; auto.
  - rewrite delete_at_S. inversion HS as [|? ? HS' HF]; subst. constructor; [apply IH; auto|].
    rewrite Forall_forall in *. intros y Hy. apply HF. eapply delete_at_In; eauto.
Qed.

(* position i and value j of a legal insertion into g (as in _vicinity): strictly between the
   neighbouring splits, with -1 and N-1 as outer borders *)
Definition lo_ok (g : list nat) (i j : nat) : Prop := match i with 0 => True | S i' => nth i' g 0 < j end.
Definition hi_ok (g : list nat) (N i j : nat) : Prop := if Nat.ltb i (length g) then j < nth i g 0 else j < N - 1.

Lemma insert_sorted N j : forall g i,
  StronglySorted lt g -> i <= length g -> lo_ok g i j -> hi_ok g N i j -> StronglySorted lt (insert_at i j g).
Proof.
  induction g as [|a g IH]; intros i HS Hi Hlo Hhi.
  - cbn in Hi. replace i with 0 by lia. cbn. constructor; constructor.
  - inversion HS as [|? ? HS' HF]; subst. destruct i as [|i].
    + change (insert_at 0 j (a :: g)) with (j :: a :: g). constructor; [exact HS|].
      unfold hi_ok in Hhi. cbn [length Nat.ltb Nat.leb nth] in Hhi.
      constructor; [exact Hhi|]. eapply Forall_impl; [|exact HF]. cbv beta. intros; lia.
    + rewrite insert_at_S. cbn [length] in Hi.
      assert (Haj : a < j).
      { unfold lo_ok in Hlo. destruct i as [|i]; cbn [nth] in Hlo; [exact Hlo|].
        rewrite Forall_forall in HF. assert (a < nth i g 0) by (apply HF; apply nth_In; lia). lia. }
      constructor.
      * apply IH; [exact HS'|lia| |].
        -- destruct i as [|i]; [exact I|exact Hlo].
        -- unfold hi_ok in *. cbn [length nth] in Hhi.
           change (Nat.ltb (S i) (S (length g))) with (Nat.ltb i (length g)) in Hhi. exact Hhi.
      * rewrite Forall_forall in *. intros y Hy. apply insert_at_In in Hy. destruct Hy as [->|Hy]; auto.
Qed.

Lemma hi_ok_bound g N i j : Forall (fun x => x < N - 1) g -> hi_ok g N i j -> j < N - 1.
Proof.
  unfold hi_ok. intros HF H. destruct (Nat.ltb i (length g)) eqn:E; [|exact H].
  apply Nat.ltb_lt in E. rewrite Forall_forall in HF. assert (nth i g 0 < N - 1) by (apply HF; apply nth_In; auto). lia.
Qed.

(* ---- the structure of vicinity ---- *)
Definition vlo (g : list nat) (i : nat) : Z :=
  match i with 0 => (-1)%Z | S i' => nth i' (map Z.of_nat g) 0%Z end.
Definition vhi (g : list nat) (N i : nat) : Z :=
  if Nat.ltb i (length g) then nth i (map Z.of_nat g) 0%Z else Z.of_nat (N - 1).
Definition vpre (g : list nat) (N : nat) : list (list nat) :=
  flat_map (fun i => map (fun j => insert_at i (Z.to_nat j) g)
                         (map (fun k => (vlo g i + 1 + Z.of_nat k)%Z) (seq 0 (Z.to_nat (vhi g N i - (vlo g i + 1))))))
           (seq 0 (S (length g))).
Lemma vicinity_eq g N :
  vicinity g N = flat_map (fun g0 => map (fun j => delete_at j g0) (seq 0 (length g0))) (vpre g N).
Proof. reflexivity. Qed.

Lemma nth_map_Z g i : nth i (map Z.of_nat g) 0%Z = Z.of_nat (nth i g 0).
Proof. change 0%Z with (Z.of_nat 0). apply map_nth. Qed.

Lemma lo_ok_Z g i j : lo_ok g i j <-> (vlo g i < Z.of_nat j)%Z.
Proof. destruct i as [|i]; unfold lo_ok, vlo; [split; [lia|trivial]|]. rewrite nth_map_Z. lia. Qed.
Lemma hi_ok_Z g N i j : hi_ok g N i j <-> (Z.of_nat j < vhi g N i)%Z.
Proof. unfold hi_ok, vhi. destruct (Nat.ltb i (length g)); [rewrite nth_map_Z|]; lia. Qed.
Lemma vlo_ge g i : (-1 <= vlo g i)%Z.
Proof. destruct i as [|i]; unfold vlo; [lia|]. rewrite nth_map_Z. lia. Qed.

Lemma in_vpre g N g0 :
  In g0 (vpre g N) <-> exists i j, i <= length g /\ lo_ok g i j /\ hi_ok g N i j /\ g0 = insert_at i j g.
Proof.
  unfold vpre. rewrite in_flat_map. split.
  - intros [i [Hi H]]. apply in_seq in Hi. apply in_map_iff in H. destruct H as [z [<- Hz]].
    apply in_map_iff in Hz. destruct Hz as [k [<- Hk]]. apply in_seq in Hk.
    exists i, (Z.to_nat (vlo g i + 1 + Z.of_nat k)).
    pose proof (vlo_ge g i). split; [lia|]. split; [|split; [|reflexivity]].
    + apply lo_ok_Z. lia.
    + apply hi_ok_Z. lia.
  - intros (i & j & Hi & Hlo & Hhi & ->). apply lo_ok_Z in Hlo. apply hi_ok_Z in Hhi.
    exists i. split; [apply in_seq; lia|]. apply in_map_iff. exists (Z.of_nat j).
    split; [rewrite Nat2Z.id; reflexivity|].
    apply in_map_iff. exists (Z.to_nat (Z.of_nat j - (vlo g i + 1))). split; [lia|]. apply in_seq. lia.
Qed.

Lemma in_vicinity g N v :
  In v (vicinity g N) <->
  exists i j d, i <= length g /\ lo_ok g i j /\ hi_ok g N i j /\ d <= length g /\ v = delete_at d (insert_at i j g).
Proof.
  rewrite vicinity_eq, in_flat_map. split.
  - intros [g0 [Hg0 H]]. apply in_vpre in Hg0. destruct Hg0 as (i & j & Hi & Hlo & Hhi & ->).
    apply in_map_iff in H. destruct H as [d [<- Hd]]. apply in_seq in Hd. rewrite insert_at_length in Hd.
    exists i, j, d. repeat split; auto. lia.
  - intros (i & j & d & Hi & Hlo & Hhi & Hd & ->). exists (insert_at i j g). split.
    + apply in_vpre. exists i, j. auto.
    + apply in_map_iff. exists d. split; [reflexivity|]. apply in_seq. rewrite insert_at_length. lia.
Qed.

(* ---- F7 : the neighbourhood preserves "strictly increasing, same length, all < N-1" ---- *)
Theorem vicinity_invariant g N :
  StronglySorted lt g -> Forall (fun x => x < N - 1) g ->
  forall v, In v (vicinity g N) ->
    StronglySorted lt v /\ length v = length g /\ Forall (fun x => x < N - 1) v.
Proof.
  intros HS HF v Hv. apply in_vicinity in Hv. destruct Hv as (i & j & d & Hi & Hlo & Hhi & Hd & ->).
  split; [|split].
  - apply delete_sorted. eapply insert_sorted; eauto.
  - rewrite delete_at_length; rewrite insert_at_length; lia.
  - pose proof (hi_ok_bound g N i j HF Hhi) as Hj. rewrite Forall_forall in *. intros y Hy.
    apply delete_at_In in Hy. apply insert_at_In in Hy. destruct Hy as [->|Hy]; auto.
Qed.

(* ---- F5 (first half) : the current grouping is one of its own neighbours ---- *)
Lemma gap_exists M : forall g b,
  StronglySorted lt g -> Forall (fun x => b <= x /\ x < M) g -> length g < M - b ->
  exists i j, i <= length g /\ b <= j /\ j < M /\ lo_ok g i j /\ (i < length g -> j < nth i g 0).
Proof.
  induction g as [|x r IH]; intros b HS HF Hlen.
  - exists 0, b. cbn in *. repeat split; try lia.
  - inversion HS as [|? ? HS' Hlt]; subst. inversion HF as [|? ? [Hx1 Hx2] HF']; subst. cbn [length] in Hlen.
    destruct (Nat.eq_dec b x) as [->|Hne].
    + destruct (IH (S x) HS') as (i & j & Hi & Hj1 & Hj2 & Hlo & Hhi).
      * rewrite Forall_forall in *. intros y Hy. specialize (Hlt y Hy). specialize (HF' y Hy). lia.
      * lia.
      * exists (S i), j. cbn [length]. repeat split; try lia.
        -- unfold lo_ok in *. destruct i as [|i]; cbn [nth]; [lia|exact Hlo].
        -- intros H. cbn [nth]. apply Hhi. lia.
    + exists 0, b. cbn [length nth lo_ok]. repeat split; try lia.
Qed.

Definition Inv (N : nat) (g : list nat) : Prop :=
  StronglySorted lt g /\ Forall (fun x => x < N - 1) g /\ length g < N - 1.

Theorem vicinity_self g N : Inv N g -> In g (vicinity g N).
Proof.
  intros (HS & HF & Hlen).
  destruct (gap_exists (N - 1) g 0 HS) as (i & j & Hi & _ & Hj & Hlo & Hhi).
  - eapply Forall_impl; [|exact HF]. cbv beta. intros; lia.
  - lia.
  - apply in_vicinity. exists i, j, i. repeat split; auto.
    + unfold hi_ok. destruct (Nat.ltb i (length g)) eqn:E; [apply Nat.ltb_lt in E; auto|exact Hj].
    + symmetry. apply delete_insert. exact Hi.
Qed.

Corollary vicinity_Inv g N v : Inv N g -> In v (vicinity g N) -> Inv N v.
Proof.
  intros (HS & HF & Hlen) Hv. destruct (vicinity_invariant g N HS HF v Hv) as (H1 & H2 & H3).
  split; [auto|split; [auto|lia]].
Qed.

(* ---- generic (any NumOps) facts: argmin range, F4, F2, unfolding of opt_min / optimal_grouping ---- *)
Section OGgen.
  Context {T : Type} (O : NumOps T).

  Lemma argmin_from_range l : forall i besti best,
    argmin_from O l i besti best = besti \/ i <= argmin_from O l i besti best < i + length l.
  Proof.
    induction l as [|x r IH]; intros i besti best; cbn [argmin_from length]; [left; reflexivity|].
    destruct (nltb O x best).
    - destruct (IH (S i) i x) as [->|H]; right; lia.
    - destruct (IH (S i) besti best) as [->|H]; [left; reflexivity|right; lia].
  Qed.
  Lemma argmin_lt l : l <> [] -> argmin O l < length l.
  Proof.
    destruct l as [|x r]; [congruence|]. intros _. unfold argmin. cbn [length].
    destruct (argmin_from_range r 1 0 x) as [->|H]; lia.
  Qed.
  Lemma group_costs_length h p g : length (group_costs O h p g) = length g.
  Proof. unfold group_costs. apply map_length. Qed.

  (* F4 *)
  Theorem hmin_members h p groups :
    Forall (fun g => g <> [] /\ Forall (fun k => k < length h) g) groups ->
    Forall (fun x => In x h) (hmin_of O h p groups).
  Proof.
    intros HF. unfold hmin_of. apply (proj2 (Forall_map _ (fun x => In x h) _)).
    eapply Forall_impl; [|exact HF]. cbv beta. intros g [Hne Hg].
    apply nth_In. rewrite Forall_forall in Hg. apply Hg. apply nth_In.
    rewrite <- (group_costs_length h p g). apply argmin_lt.
    intros E. apply (f_equal (@length T)) in E. rewrite group_costs_length in E.
    destruct g; [congruence|discriminate].
  Qed.

  (* one step of the local search *)
  Definition om_costs (h p : list T) (N : nat) (g : list nat) : list T :=
    map (fun v => Gcost O h p (convert_splits_to_groups v N)) (vicinity g N).
  Definition om_next (h p : list T) (N : nat) (g : list nat) : list nat :=
    nth (argmin O (om_costs h p N g)) (vicinity g N) g.
  Definition om_cost (h p : list T) (N : nat) (g : list nat) : T :=
    nth (argmin O (om_costs h p N g)) (om_costs h p N g) (nzero O).
  Lemma opt_min_0 h p N g : opt_min O 0 h p N g = (om_next h p N g, om_cost h p N g).
  Proof. reflexivity. Qed.
  Lemma opt_min_S f h p N g :
    opt_min O (S f) h p N g =
    if list_eqb (om_next h p N g) g then (om_next h p N g, om_cost h p N g) else opt_min O f h p N (om_next h p N g).
  Proof. reflexivity. Qed.

  Definition og_init (L : nat) (h p : list T) : list nat * T :=
    opt_min O 199 h p (length p) (equal_split (length p) L).
  Definition og_best (starts : list (list nat)) (L : nat) (h p : list T) : list nat * T :=
    fold_left (fun b s => let r := opt_min O 199 h p (length p) s in if nltb O (snd r) (snd b) then r else b)
              starts (og_init L h p).
  Lemma og_unfold starts L h p :
    optimal_grouping O starts L h p =
    let groups := convert_splits_to_groups (fst (og_best starts L h p)) (length p) in
    (hmin_of O h p groups, map (fun g => nsum O (map (fun k => nth k p (nzero O)) g)) groups).
  Proof. unfold optimal_grouping, og_best, og_init. reflexivity. Qed.

  (* F2 : L = 1 (and L = 0) gives the empty split list, which stays empty, and NO group at all *)
  Lemma convert_nil N : convert_splits_to_groups [] N = [].
  Proof. reflexivity. Qed.
  Lemma vicinity_nil_all_nil N v : In v (vicinity [] N) -> v = [].
  Proof.
    intros H. apply in_vicinity in H. destruct H as (i & j & d & Hi & _ & _ & Hd & ->).
    cbn in Hi, Hd. replace i with 0 by lia. replace d with 0 by lia. reflexivity.
  Qed.
  Lemma om_next_nil h p N : om_next h p N [] = [].
  Proof.
    unfold om_next. destruct (nth_in_or_default (argmin O (om_costs h p N [])) (vicinity [] N) []) as [H|H].
    - apply vicinity_nil_all_nil in H. exact H.
    - exact H.
  Qed.
  Lemma opt_min_nil fuel h p N : fst (opt_min O fuel h p N []) = [].
  Proof.
    destruct fuel as [|f]; [rewrite opt_min_0|rewrite opt_min_S]; rewrite om_next_nil; reflexivity.
  Qed.
  Theorem og_L1_refuted h p : optimal_grouping O [] 1 h p = ([], []).
  Proof.
    rewrite og_unfold. unfold og_best, og_init. cbn [fold_left].
    change (equal_split (length p) 1) with (@nil nat). rewrite opt_min_nil. reflexivity.
  Qed.
  Theorem og_L0_refuted h p : optimal_grouping O [] 0 h p = ([], []).
  Proof.
    rewrite og_unfold. unfold og_best, og_init. cbn [fold_left].
    change (equal_split (length p) 0) with (@nil nat). rewrite opt_min_nil. reflexivity.
  Qed.
End OGgen.

Lemma map_nth_seq {A} (l : list A) d : map (fun k => nth k l d) (seq 0 (length l)) = l.
Proof.
  induction l as [|x l IH]; [reflexivity|]. cbn [length seq map nth]. f_equal.
  rewrite <- seq_shift, map_map. exact IH.
Qed.

Lemma list_eqb_length a b : list_eqb a b = true -> length a = length b.
Proof. unfold list_eqb. intros H. apply andb_true_iff in H. destruct H as [H _]. apply Nat.eqb_eq in H. exact H. Qed.

(* the equal split satisfies the search invariant when 1 <= L < N *)
Lemma equal_split_length N L : length (equal_split N L) = L - 1.
Proof. unfold equal_split. rewrite map_length, seq_length. reflexivity. Qed.

Lemma SS_map_seq (f : nat -> nat) : forall n a,
  (forall k, a <= k -> S k < a + n -> f k < f (S k)) -> StronglySorted lt (map f (seq a n)).
Proof.
  induction n as [|n IH]; intros a Hf; cbn [seq map]; [constructor|].
  constructor.
  - apply IH. intros k Hk1 Hk2. apply Hf; lia.
  - apply Forall_forall. intros y Hy. apply in_map_iff in Hy. destruct Hy as [k [<- Hk]].
    apply in_seq in Hk.
    assert (Hmono : forall m, a < m -> m < a + S n -> f a < f m).
    { induction m as [|m IHm]; intros H1 H2; [lia|].
      destruct (Nat.eq_dec a m) as [->|Hne]; [apply Hf; lia|].
      apply Nat.lt_trans with (f m); [apply IHm; lia|apply Hf; lia]. }
    apply Hmono; lia.
Qed.

Theorem equal_split_Inv N L : 1 <= L -> L < N -> Inv N (equal_split N L).
Proof.
  intros HL HN. split; [|split].
  - unfold equal_split. apply SS_map_seq. intros k Hk1 Hk2.
    assert (k * N / L + 1 <= S k * N / L); [|lia].
    replace (S k * N) with (k * N + 1 * N) by lia.
    apply Nat.le_trans with ((k * N + 1 * L) / L).
    + rewrite Nat.div_add by lia. lia.
    + apply Nat.div_le_mono; lia.
  - unfold equal_split. apply Forall_forall. intros y Hy. apply in_map_iff in Hy.
    destruct Hy as [k [<- Hk]]. apply in_seq in Hk.
    apply Nat.div_lt_upper_bound; [lia|]. nia.
  - rewrite equal_split_length. lia.
Qed.

Local Open Scope R_scope.

Section OGreal.
Variables (G : R -> R) (K : R -> R -> R).
Local Notation O := (ROps G K).

Lemma nsum_concat (f : nat -> R) groups :
  nsum O (map (fun g => nsum O (map f g)) groups) = nsum O (map f (concat groups)).
Proof.
  induction groups as [|g r IH]; [reflexivity|].
  cbn [map concat]. rewrite nsum_R_cons, map_app, nsum_R_app, IH. reflexivity.
Qed.

(* F3 *)
Theorem og_total starts L h p :
  let s := fst (og_best O starts L h p) in
  s <> [] -> StronglySorted lt s -> Forall (fun x => (x < length p - 1)%nat) s ->
  nsum O (snd (optimal_grouping O starts L h p)) = nsum O p.
Proof.
  intros s Hne HS HF. rewrite og_unfold. cbv zeta. cbn [snd]. fold s.
  rewrite (nsum_concat (fun k => nth k p (nzero O))).
  destruct (groups_partition s (length p) Hne HS HF) as [-> _].
  rewrite map_nth_seq. reflexivity.
Qed.

(* argmin at the real instance returns the position of a minimum *)
Lemma argmin_from_spec d l : forall i besti best,
  (argmin_from O l i besti best = besti /\ Forall (fun y => best <= y) l) \/
  ((i <= argmin_from O l i besti best < i + length l)%nat /\
   nth (argmin_from O l i besti best - i) l d <= best /\
   Forall (fun y => nth (argmin_from O l i besti best - i) l d <= y) l).
Proof.
  induction l as [|x r IH]; intros i besti best; cbn [argmin_from length].
  - left. split; [reflexivity|constructor].
  - change (nltb O x best) with (Rltb x best). destruct (Rltb x best) eqn:E.
    + apply Rltb_true in E. right.
      destruct (IH (S i) i x) as [[Hk HF]|[Hk [Hle HF]]].
      * rewrite Hk. replace (i - i)%nat with 0%nat by lia. cbn [nth].
        split; [lia|]. split; [lra|]. constructor; [lra|exact HF].
      * set (k := argmin_from O r (S i) i x) in *.
        replace (k - i)%nat with (S (k - S i)) by lia. cbn [nth].
        split; [lia|]. split; [lra|]. constructor; [exact Hle|exact HF].
    + assert (Hn : best <= x).
      { destruct (Rle_dec best x) as [|Hn]; [auto|]. assert (x < best) by lra.
        apply Rltb_true in H. congruence. }
      destruct (IH (S i) besti best) as [[Hk HF]|[Hk [Hle HF]]].
      * left. split; [exact Hk|]. constructor; auto.
      * right. set (k := argmin_from O r (S i) besti best) in *.
        replace (k - i)%nat with (S (k - S i)) by lia. cbn [nth].
        split; [lia|]. split; [exact Hle|]. constructor; [lra|exact HF].
Qed.

Theorem argmin_le d l x : In x l -> nth (argmin O l) l d <= x.
Proof.
  destruct l as [|a r]; [intros []|]. intros Hx. unfold argmin.
  destruct (argmin_from_spec d r 1 0 a) as [[Hk HF]|[Hk [Hle HF]]].
  - rewrite Hk. cbn [nth]. destruct Hx as [<-|Hx]; [lra|]. rewrite Forall_forall in HF. auto.
  - set (k := argmin_from O r 1 0 a) in *. destruct k as [|k]; [lia|]. cbn [nth].
    replace (S k - 1)%nat with k in * by lia.
    destruct Hx as [<-|Hx]; [lra|]. rewrite Forall_forall in HF. auto.
Qed.

(* F5 (second half) : the best neighbour is no worse than the current grouping *)
Lemma om_costs_length h p N g : length (om_costs O h p N g) = length (vicinity g N).
Proof. unfold om_costs. apply map_length. Qed.

Theorem best_neighbour_le h p N g :
  In g (vicinity g N) -> om_cost O h p N g <= Gcost O h p (convert_splits_to_groups g N).
Proof.
  intros Hin. unfold om_cost. apply argmin_le. unfold om_costs.
  apply (in_map (fun v => Gcost O h p (convert_splits_to_groups v N))). exact Hin.
Qed.

Corollary best_neighbour_le_Inv h p N g :
  Inv N g -> om_cost O h p N g <= Gcost O h p (convert_splits_to_groups g N).
Proof. intros H. apply best_neighbour_le. apply vicinity_self. exact H. Qed.

Lemma om_next_in h p N g : vicinity g N <> [] -> In (om_next O h p N g) (vicinity g N).
Proof.
  intros Hne. unfold om_next. apply nth_In. rewrite <- (om_costs_length h p N g). apply argmin_lt.
  intros E. apply (f_equal (@length R)) in E. rewrite om_costs_length in E.
  destruct (vicinity g N); [congruence|discriminate].
Qed.

Lemma om_cost_is_cost h p N g :
  vicinity g N <> [] -> om_cost O h p N g = Gcost O h p (convert_splits_to_groups (om_next O h p N g) N).
Proof.
  intros Hne. unfold om_cost, om_next.
  assert (Hk : (argmin O (om_costs O h p N g) < length (om_costs O h p N g))%nat).
  { apply argmin_lt. intros E. apply (f_equal (@length R)) in E. rewrite om_costs_length in E.
    destruct (vicinity g N); [congruence|discriminate]. }
  rewrite (nth_indep _ (nzero O) (Gcost O h p (convert_splits_to_groups g N))) by exact Hk.
  unfold om_costs at 2. apply (map_nth (fun v => Gcost O h p (convert_splits_to_groups v N))).
Qed.

Lemma Inv_vicinity_nonempty N g : Inv N g -> vicinity g N <> [].
Proof. intros H E. pose proof (vicinity_self g N H) as Hin. rewrite E in Hin. exact Hin. Qed.

Lemma om_next_Inv h p N g : Inv N g -> Inv N (om_next O h p N g).
Proof.
  intros H. apply (vicinity_Inv g N); [exact H|]. apply om_next_in. apply Inv_vicinity_nonempty. exact H.
Qed.

(* the search keeps the invariant; the cost it returns is the cost of the grouping it returns *)
Theorem opt_min_Inv h p N : forall fuel g, Inv N g -> Inv N (fst (opt_min O fuel h p N g)).
Proof.
  induction fuel as [|f IH]; intros g Hg.
  - rewrite opt_min_0. apply om_next_Inv. exact Hg.
  - rewrite opt_min_S. destruct (list_eqb (om_next O h p N g) g).
    + apply om_next_Inv. exact Hg.
    + apply IH. apply om_next_Inv. exact Hg.
Qed.

Theorem opt_min_length h p N : forall fuel g, Inv N g -> length (fst (opt_min O fuel h p N g)) = length g.
Proof.
  assert (Hstep : forall g, Inv N g -> length (om_next O h p N g) = length g).
  { intros g (HS & HF & Hlen). eapply vicinity_invariant; eauto.
    apply om_next_in. apply Inv_vicinity_nonempty. repeat split; auto. }
  induction fuel as [|f IH]; intros g Hg.
  - rewrite opt_min_0. apply Hstep. exact Hg.
  - rewrite opt_min_S. destruct (list_eqb (om_next O h p N g) g).
    + apply Hstep. exact Hg.
    + rewrite IH by (apply om_next_Inv; exact Hg). apply Hstep. exact Hg.
Qed.

Theorem opt_min_snd_is_cost h p N : forall fuel g, Inv N g ->
  snd (opt_min O fuel h p N g) = Gcost O h p (convert_splits_to_groups (fst (opt_min O fuel h p N g)) N).
Proof.
  induction fuel as [|f IH]; intros g Hg.
  - rewrite opt_min_0. cbn [fst snd]. apply om_cost_is_cost. apply Inv_vicinity_nonempty. exact Hg.
  - rewrite opt_min_S. destruct (list_eqb (om_next O h p N g) g).
    + cbn [fst snd]. apply om_cost_is_cost. apply Inv_vicinity_nonempty. exact Hg.
    + apply IH. apply om_next_Inv. exact Hg.
Qed.

(* F6 : the local search never returns a cost above the cost of its starting point *)
Theorem opt_min_monotone h p N : forall fuel g, Inv N g ->
  snd (opt_min O fuel h p N g) <= Gcost O h p (convert_splits_to_groups g N).
Proof.
  induction fuel as [|f IH]; intros g Hg.
  - rewrite opt_min_0. cbn [snd]. apply best_neighbour_le_Inv. exact Hg.
  - rewrite opt_min_S. destruct (list_eqb (om_next O h p N g) g).
    + cbn [snd]. apply best_neighbour_le_Inv. exact Hg.
    + eapply Rle_trans; [apply IH; apply om_next_Inv; exact Hg|].
      rewrite <- om_cost_is_cost by (apply Inv_vicinity_nonempty; exact Hg).
      apply best_neighbour_le_Inv. exact Hg.
Qed.

(* one step, with only "g is its own neighbour" as hypothesis *)
Theorem opt_min_monotone_step h p N g :
  In g (vicinity g N) -> snd (opt_min O 0 h p N g) <= Gcost O h p (convert_splits_to_groups g N).
Proof. intros H. rewrite opt_min_0. cbn [snd]. apply best_neighbour_le. exact H. Qed.

(* F8 : restarts *)
Lemma fold_best_le (F : list nat -> list nat * R) starts : forall b,
  snd (fold_left (fun b s => let r := F s in if nltb O (snd r) (snd b) then r else b) starts b) <= snd b.
Proof.
  induction starts as [|s r IH]; intros b; cbn [fold_left]; [lra|].
  eapply Rle_trans; [apply IH|]. cbv zeta. change (nltb O (snd (F s)) (snd b)) with (Rltb (snd (F s)) (snd b)).
  destruct (Rltb (snd (F s)) (snd b)) eqn:E; [apply Rltb_true in E; lra|lra].
Qed.

Lemma fold_best_le_start (F : list nat -> list nat * R) starts : forall b s, In s starts ->
  snd (fold_left (fun b s => let r := F s in if nltb O (snd r) (snd b) then r else b) starts b) <= snd (F s).
Proof.
  induction starts as [|s0 r IH]; intros b s Hin; [destruct Hin|]. cbn [fold_left].
  destruct Hin as [->|Hin]; [|apply IH; exact Hin].
  eapply Rle_trans; [apply fold_best_le|]. cbv zeta.
  change (nltb O (snd (F s)) (snd b)) with (Rltb (snd (F s)) (snd b)).
  destruct (Rltb (snd (F s)) (snd b)) eqn:E; [lra|].
  destruct (Rle_dec (snd b) (snd (F s))) as [|Hn]; [auto|].
  assert (snd (F s) < snd b) by lra. apply Rltb_true in H. congruence.
Qed.

Lemma fold_best_is (F : list nat -> list nat * R) starts : forall b,
  let best := fold_left (fun b s => let r := F s in if nltb O (snd r) (snd b) then r else b) starts b in
  best = b \/ exists s, In s starts /\ best = F s.
Proof.
  induction starts as [|s0 r IH]; intros b; cbn [fold_left]; [left; reflexivity|].
  cbv zeta in *. destruct (IH (if nltb O (snd (F s0)) (snd b) then F s0 else b)) as [->|[s [Hs ->]]].
  - destruct (nltb O (snd (F s0)) (snd b)); [right; exists s0; split; [left|]; reflexivity|left; reflexivity].
  - right. exists s. split; [right; exact Hs|reflexivity].
Qed.

Theorem og_best_le_init starts L h p : snd (og_best O starts L h p) <= snd (og_init O L h p).
Proof. unfold og_best. apply (fold_best_le (fun s => opt_min O 199 h p (length p) s)). Qed.

Theorem og_best_le_start starts L h p s :
  In s starts -> snd (og_best O starts L h p) <= snd (opt_min O 199 h p (length p) s).
Proof. intros H. unfold og_best. apply (fold_best_le_start (fun s => opt_min O 199 h p (length p) s)). exact H. Qed.

Theorem og_cost_le_equal_split starts L h p :
  Inv (length p) (equal_split (length p) L) ->
  snd (og_best O starts L h p) <= Gcost O h p (convert_splits_to_groups (equal_split (length p) L) (length p)).
Proof.
  intros H. eapply Rle_trans; [apply og_best_le_init|]. unfold og_init. apply opt_min_monotone. exact H.
Qed.

Corollary og_cost_le_equal_split' starts L h p :
  (1 <= L)%nat -> (L < length p)%nat ->
  snd (og_best O starts L h p) <= Gcost O h p (convert_splits_to_groups (equal_split (length p) L) (length p)).
Proof. intros H1 H2. apply og_cost_le_equal_split. apply equal_split_Inv; auto. Qed.

Theorem og_cost_le_start starts L h p s :
  In s starts -> Inv (length p) s ->
  snd (og_best O starts L h p) <= Gcost O h p (convert_splits_to_groups s (length p)).
Proof.
  intros Hin H. eapply Rle_trans; [apply og_best_le_start; exact Hin|]. apply opt_min_monotone. exact H.
Qed.

(* the pair kept by the fold is consistent: its cost is the cost of its grouping, which satisfies the invariant *)
Theorem og_best_consistent starts L h p :
  Inv (length p) (equal_split (length p) L) -> Forall (Inv (length p)) starts ->
  Inv (length p) (fst (og_best O starts L h p)) /\
  snd (og_best O starts L h p) =
    Gcost O h p (convert_splits_to_groups (fst (og_best O starts L h p)) (length p)) /\
  (length (fst (og_best O starts L h p)) = (L - 1)%nat \/
   exists s, In s starts /\ length (fst (og_best O starts L h p)) = length s).
Proof.
  intros H0 HF. unfold og_best.
  destruct (fold_best_is (fun s => opt_min O 199 h p (length p) s) starts (og_init O L h p)) as [E|[s [Hs E]]];
    cbv zeta in E; rewrite E.
  - unfold og_init. split; [apply opt_min_Inv; exact H0|]. split; [apply opt_min_snd_is_cost; exact H0|].
    left. rewrite opt_min_length by exact H0. apply equal_split_length.
  - rewrite Forall_forall in HF. specialize (HF s Hs).
    split; [apply opt_min_Inv; exact HF|]. split; [apply opt_min_snd_is_cost; exact HF|].
    right. exists s. split; [exact Hs|]. apply opt_min_length. exact HF.
Qed.

(* F3 for the model's own result: with 2 <= L < N and admissible non-empty restarts the strengths are conserved *)
Theorem og_total_Inv starts L h p :
  (2 <= L)%nat -> (L < length p)%nat -> Forall (fun s => Inv (length p) s /\ s <> []) starts ->
  nsum O (snd (optimal_grouping O starts L h p)) = nsum O p.
Proof.
  intros H2 HN HF.
  assert (H0 : Inv (length p) (equal_split (length p) L)) by (apply equal_split_Inv; lia).
  assert (HF1 : Forall (Inv (length p)) starts) by (eapply Forall_impl; [|exact HF]; cbv beta; tauto).
  destruct (og_best_consistent starts L h p H0 HF1) as ((HS & HB & _) & _ & Hlen).
  apply og_total; auto.
  intros E. rewrite E in Hlen. cbn [length] in Hlen. destruct Hlen as [Hl|[s [Hs Hl]]]; [lia|].
  rewrite Forall_forall in HF. destruct (HF s Hs) as [_ Hne]. destruct s; [congruence|discriminate].
Qed.

End OGreal.

(* ========================================================================================== *)
(* shape of the result of optimal_grouping: L layers, heights taken from h and increasing,    *)
(* strengths non-negative                                                                      *)
(* ========================================================================================== *)
Local Close Scope R_scope.

Section OGshape.
  Context {T : Type} (O : NumOps T).

  Lemma om_next_in_g h p N g : vicinity g N <> [] -> In (om_next O h p N g) (vicinity g N).
  Proof.
    intros Hne. unfold om_next. apply nth_In.
    replace (length (vicinity g N)) with (length (om_costs O h p N g)) by (unfold om_costs; apply map_length).
    apply argmin_lt. intros E. apply (f_equal (@length T)) in E. unfold om_costs in E. rewrite map_length in E.
    destruct (vicinity g N); [congruence|discriminate].
  Qed.
  Lemma om_next_Inv_g h p N g : Inv N g -> Inv N (om_next O h p N g).
  Proof.
    intros H. apply (vicinity_Inv g N); [exact H|]. apply om_next_in_g. apply Inv_vicinity_nonempty. exact H.
  Qed.
  Lemma om_next_length_g h p N g : Inv N g -> length (om_next O h p N g) = length g.
  Proof.
    intros H. pose proof H as (HS & HF & _).
    assert (Hin : In (om_next O h p N g) (vicinity g N)) by (apply om_next_in_g; apply Inv_vicinity_nonempty; exact H).
    destruct (vicinity_invariant g N HS HF _ Hin) as (_ & Hl & _). exact Hl.
  Qed.
  Lemma opt_min_shape_g h p N : forall fuel g, Inv N g ->
    Inv N (fst (opt_min O fuel h p N g)) /\ length (fst (opt_min O fuel h p N g)) = length g.
  Proof.
    induction fuel as [|f IH]; intros g Hg.
    - rewrite opt_min_0. cbn [fst]. split; [apply om_next_Inv_g|apply om_next_length_g]; exact Hg.
    - rewrite opt_min_S. destruct (list_eqb (om_next O h p N g) g).
      + cbn [fst]. split; [apply om_next_Inv_g|apply om_next_length_g]; exact Hg.
      + destruct (IH (om_next O h p N g) (om_next_Inv_g h p N g Hg)) as [H1 H2]. split; [exact H1|].
        rewrite H2. apply om_next_length_g. exact Hg.
  Qed.
  Lemma fold_best_is_g (F : list nat -> list nat * T) starts : forall b,
    let best := fold_left (fun b s => let r := F s in if nltb O (snd r) (snd b) then r else b) starts b in
    best = b \/ exists s, In s starts /\ best = F s.
  Proof.
    induction starts as [|s0 r IH]; intros b; cbn [fold_left]; [left; reflexivity|].
    cbv zeta in *. destruct (IH (if nltb O (snd (F s0)) (snd b) then F s0 else b)) as [->|[s [Hs ->]]].
    - destruct (nltb O (snd (F s0)) (snd b)); [right; exists s0; split; [left|]; reflexivity|left; reflexivity].
    - right. exists s. split; [right; exact Hs|reflexivity].
  Qed.

  (* the grouping kept by the restarts fold: admissible and of length L-1 *)
  Lemma og_best_shape_g starts L h p :
    Inv (length p) (equal_split (length p) L) ->
    Forall (fun s => Inv (length p) s /\ length s = L - 1) starts ->
    Inv (length p) (fst (og_best O starts L h p)) /\ length (fst (og_best O starts L h p)) = L - 1.
  Proof.
    intros H0 HF. unfold og_best.
    destruct (fold_best_is_g (fun s => opt_min O 199 h p (length p) s) starts (og_init O L h p)) as [E|[s [Hs E]]];
      cbv zeta in E; rewrite E.
    - unfold og_init. destruct (opt_min_shape_g h p (length p) 199 _ H0) as [H1 H2].
      split; [exact H1|]. rewrite H2. apply equal_split_length.
    - rewrite Forall_forall in HF. destruct (HF s Hs) as [Hi Hl].
      destruct (opt_min_shape_g h p (length p) 199 s Hi) as [H1 H2]. split; [exact H1|]. rewrite H2. exact Hl.
  Qed.

  Lemma og_groups_facts starts L h p :
    2 <= L -> L < length p -> Forall (fun s => Inv (length p) s /\ length s = L - 1) starts ->
    let groups := convert_splits_to_groups (fst (og_best O starts L h p)) (length p) in
    concat groups = seq 0 (length p) /\ Forall (fun g => g <> []) groups /\ length groups = L.
  Proof.
    intros H2 HN HF groups.
    assert (H1 : 1 <= L) by lia.
    destruct (og_best_shape_g starts L h p (equal_split_Inv _ _ H1 HN) HF) as ((HS & HB & _) & Hlen).
    assert (Hne : fst (og_best O starts L h p) <> []).
    { intros E. rewrite E in Hlen. cbn [length] in Hlen. lia. }
    destruct (groups_partition _ (length p) Hne HS HB) as (Hc & Hn & Hl).
    split; [exact Hc|]. split; [exact Hn|]. unfold groups. rewrite Hl, Hlen. lia.
  Qed.

  (* (1) exactly L layers are returned -- any carrier *)
  Theorem og_returns_L_layers starts L h p :
    2 <= L -> L < length p -> Forall (fun s => Inv (length p) s /\ length s = L - 1) starts ->
    length (fst (optimal_grouping O starts L h p)) = L /\ length (snd (optimal_grouping O starts L h p)) = L.
  Proof.
    intros H2 HN HF. destruct (og_groups_facts starts L h p H2 HN HF) as (_ & _ & Hl).
    rewrite og_unfold. cbv zeta. cbn [fst snd]. unfold hmin_of. rewrite !map_length. split; exact Hl.
  Qed.

  (* every returned height is an input height -- any carrier *)
  Theorem og_heights_members starts L h p :
    2 <= L -> L < length p -> Forall (fun s => Inv (length p) s /\ length s = L - 1) starts ->
    length h = length p ->
    Forall (fun x => In x h) (fst (optimal_grouping O starts L h p)).
  Proof.
    intros H2 HN HF Hh. destruct (og_groups_facts starts L h p H2 HN HF) as (Hc & Hn & _).
    rewrite og_unfold. cbv zeta. cbn [fst]. apply hmin_members.
    rewrite Forall_forall in *. intros g Hg. split; [apply Hn; exact Hg|].
    apply Forall_forall. intros k Hk.
    assert (Hin : In k (seq 0 (length p))) by (rewrite <- Hc; apply in_concat; exists g; auto).
    apply in_seq in Hin. lia.
  Qed.
End OGshape.

(* consecutive groups: every index of an earlier group is below every index of a later one *)
Definition groups_lt (g1 g2 : list nat) : Prop := forall a b, In a g1 -> In b g2 -> a < b.

Lemma SS_lt_app_inv (l1 l2 : list nat) :
  StronglySorted lt (l1 ++ l2) -> StronglySorted lt l2 /\ (forall a b, In a l1 -> In b l2 -> a < b).
Proof.
  induction l1 as [|x l1 IH]; cbn [app]; intros HS; [split; [exact HS|intros a b []]|].
  inversion HS as [|? ? HS' HF]; subst. destruct (IH HS') as [H2 Hc]. split; [exact H2|].
  intros a b [<-|Ha] Hb; [|apply Hc; auto]. rewrite Forall_forall in HF. apply HF. apply in_or_app. right. exact Hb.
Qed.

Lemma SS_lt_seq a n : StronglySorted lt (seq a n).
Proof. rewrite <- (map_id (seq a n)). apply (SS_map_seq (fun k => k)). intros; lia. Qed.

Lemma groups_ordered groups : StronglySorted lt (concat groups) -> StronglySorted groups_lt groups.
Proof.
  induction groups as [|g r IH]; intros HS; [constructor|]. cbn [concat] in HS.
  destruct (SS_lt_app_inv _ _ HS) as [H2 Hc]. constructor; [apply IH; exact H2|].
  apply Forall_forall. intros g2 Hg2 a b Ha Hb. apply Hc; [exact Ha|]. apply in_concat. exists g2. auto.
Qed.

Local Open Scope R_scope.

Lemma SS_nth_R (h : list R) : StronglySorted Rlt h ->
  forall a b, (a < b)%nat -> (b < length h)%nat -> nth a h 0 < nth b h 0.
Proof.
  induction 1 as [|x l HS IH HF]; intros a b Hab Hb; [cbn in Hb; lia|].
  destruct b as [|b]; [lia|]. cbn [length] in Hb. destruct a as [|a]; cbn [nth].
  - rewrite Forall_forall in HF. apply HF. apply nth_In. lia.
  - apply IH; lia.
Qed.

(* picking one index inside each of consecutive groups and reading a strictly increasing h there gives a
   strictly increasing list *)
Lemma picked_heights_sorted (h : list R) (pick : list nat -> nat) groups :
  StronglySorted Rlt h -> StronglySorted groups_lt groups ->
  Forall (fun g => In (pick g) g /\ Forall (fun k => (k < length h)%nat) g) groups ->
  StronglySorted Rlt (map (fun g => nth (pick g) h 0) groups).
Proof.
  intros Hh HS. induction HS as [|g r HS IH Hg]; intros HF; cbn [map]; [constructor|].
  inversion HF as [|? ? [Hpg Hbg] HF']; subst. constructor; [apply IH; exact HF'|].
  apply Forall_forall. intros y Hy. apply in_map_iff in Hy. destruct Hy as [g2 [<- Hg2]].
  rewrite Forall_forall in Hg, HF'. destruct (HF' g2 Hg2) as [Hp2 Hb2].
  apply SS_nth_R; [exact Hh|apply (Hg g2 Hg2); assumption|].
  rewrite Forall_forall in Hb2. apply Hb2. exact Hp2.
Qed.

Section OGshapeR.
Variables (G : R -> R) (K : R -> R -> R).
Local Notation O := (ROps G K).

(* (2) for strictly increasing input heights the returned heights are input heights and strictly increasing *)
Theorem og_heights_members_increasing starts L h p :
  (2 <= L)%nat -> (L < length p)%nat ->
  Forall (fun s => Inv (length p) s /\ length s = (L - 1)%nat) starts ->
  length h = length p -> StronglySorted Rlt h ->
  Forall (fun x => In x h) (fst (optimal_grouping O starts L h p)) /\
  StronglySorted Rlt (fst (optimal_grouping O starts L h p)).
Proof.
  intros H2 HN HF Hl Hh. split; [apply og_heights_members; auto|].
  destruct (og_groups_facts O starts L h p H2 HN HF) as (Hc & Hn & _).
  rewrite og_unfold. cbv zeta. cbn [fst]. unfold hmin_of.
  set (groups := convert_splits_to_groups (fst (og_best O starts L h p)) (length p)) in *.
  change (StronglySorted Rlt
            (map (fun g => nth ((fun g0 => nth (argmin O (group_costs O h p g0)) g0 0%nat) g) h 0) groups)).
  apply picked_heights_sorted; [exact Hh| |].
  - apply groups_ordered. rewrite Hc. apply SS_lt_seq.
  - rewrite Forall_forall in *. intros g Hg. split.
    + apply nth_In. rewrite <- (group_costs_length O h p g). apply argmin_lt.
      intros E. apply (f_equal (@length R)) in E. rewrite group_costs_length in E.
      specialize (Hn g Hg). destruct g; [congruence|discriminate].
    + apply Forall_forall. intros k Hk.
      assert (Hin : In k (seq 0 (length p))) by (rewrite <- Hc; apply in_concat; exists g; auto).
      apply in_seq in Hin. lia.
Qed.

(* (3) every returned strength is a sum of input strengths (out-of-range reads give the default 0):
   no hypothesis on starts, L or the lengths *)
Theorem og_strengths_nonneg starts L h p :
  Forall (fun x => 0 <= x) p -> Forall (fun x => 0 <= x) (snd (optimal_grouping O starts L h p)).
Proof.
  intros Hp. rewrite og_unfold. cbv zeta. cbn [snd].
  apply Forall_forall. intros y Hy. apply in_map_iff in Hy. destruct Hy as [g [<- _]].
  apply nsum_nonneg. apply Forall_forall. intros x Hx. apply in_map_iff in Hx. destruct Hx as [k [<- _]].
  destruct (nth_in_or_default k p (nzero O)) as [Hin | ->].
  - rewrite Forall_forall in Hp. apply Hp. exact Hin.
  - change (nzero O) with 0. lra.
Qed.

End OGshapeR.

(* ---- axioms used by the main theorems (the standard axioms behind Coq's Reals library: sig_not_dec, sig_forall_dec,
        functional_extensionality_dep, classic -- for the real-number theorems;
        "Closed under the global context" for the generic and nat-level ones) ---- *)
Print Assumptions el_length.
Print Assumptions el_total.
Print Assumptions el_ix_le_L.
Print Assumptions el_ix_in_range.
Print Assumptions el_total_unconditional.
Print Assumptions el_moment53.
Print Assumptions el_wind53.
Print Assumptions el_moment53_gen.
Print Assumptions el_empty_slab_entry.
Print Assumptions el_moment53_refuted.
Print Assumptions el_nonneg.
Print Assumptions digitize_spec.
Print Assumptions ix_in_range_iff.
Print Assumptions groups_partition.
Print Assumptions og_L1_refuted.
Print Assumptions og_total.
Print Assumptions hmin_members.
Print Assumptions vicinity_self.
Print Assumptions vicinity_invariant.
Print Assumptions argmin_le.
Print Assumptions best_neighbour_le.
Print Assumptions opt_min_monotone.
Print Assumptions equal_split_Inv.
Print Assumptions og_cost_le_equal_split.
Print Assumptions og_best_consistent.
Print Assumptions og_total_Inv.
Print Assumptions og_returns_L_layers.
Print Assumptions og_heights_members.
Print Assumptions og_heights_members_increasing.
Print Assumptions og_strengths_nonneg.
