(* C12, real-valued corollaries: the statements of parts B and C with the irrational Noll
   normalisation constants sqrt(n+1), sqrt(2(n+1)) and gamma entries put back in. *)
From Coq Require Import ZArith QArith Qreduction Reals Qreals Lra Lia List Bool.
Require Import AOV.model.Zernike AOV.proofs.C12_A AOV.proofs.C12_B1 AOV.proofs.C12_B AOV.proofs.C12_C.
Import ListNotations.
Local Open Scope R_scope.
Ltac Zify.zify_post_hook ::= Z.to_euclidean_division_equations.

(* the Noll normalisation constant c_j *)
Definition cnorm (n m : Z) : R := sqrt (IZR (norm2 n m)).
Definition cnormj (j : Z) : R := cnorm (fst (zern_index j)) (snd (zern_index j)).

Lemma Q2R_inject_Z z : Q2R (inject_Z z) = IZR z.
Proof. unfold Q2R, inject_Z; cbn. field. Qed.
Lemma Q2R_1 : Q2R 1 = 1.
Proof. unfold Q2R; cbn. field. Qed.
Lemma Q2R_red q : Q2R (Qred q) = Q2R q.
Proof. apply Qeq_eqR, Qred_correct. Qed.

Lemma norm2_pos n m : (0 <= n)%Z -> 0 < IZR (norm2 n m).
Proof. intros H. apply IZR_lt. unfold norm2. destruct (m =? 0)%Z; lia. Qed.

Lemma cnorm_sqr n m : (0 <= n)%Z -> cnorm n m * cnorm n m = IZR (norm2 n m).
Proof. intros H. unfold cnorm. apply sqrt_sqrt. left. apply norm2_pos, H. Qed.
Lemma cnorm_pos n m : (0 <= n)%Z -> 0 < cnorm n m.
Proof. intros H. unfold cnorm. apply sqrt_lt_R0, norm2_pos, H. Qed.

(* B2 over the reals:  (1/pi) int Z_j1 Z_j2 = c_j1 c_j2 (1/pi) int P_j1 P_j2 = delta *)
Theorem noll_orthonormal_R_bounded : forall j1 j2, (1 <= j1 <= 861)%Z -> (1 <= j2 <= 861)%Z ->
  cnormj j1 * cnormj j2 * Q2R (zern_core j1 j2) = if (j1 =? j2)%Z then 1 else 0.
Proof.
  intros j1 j2 H1 H2. destruct (zern_core_spec j1 j2 H1 H2) as [A B].
  destruct (Z.eqb_spec j1 j2) as [e|e].
  - specialize (A e). subst j2. apply Qeq_eqR in A. rewrite Q2R_mult, Q2R_inject_Z, Q2R_1 in A.
    unfold cnormj. rewrite cnorm_sqr; [exact A|].
    apply (zern_index_valid j1). lia.
  - specialize (B e). apply Qeq_eqR in B. rewrite B. unfold Q2R; cbn. ring.
Qed.

(* the rational form of the gamma entries *)
Lemma ratio_aux1 sa sb s2 b : sb * sb = b -> s2 * s2 = 2 -> 0 < sa ->
  s2 * (sa * sb) * (s2 * sb) / sa = b * 2.
Proof. intros <- <- Pa. field. lra. Qed.
Lemma ratio_aux2 sa sb s2 b : sb * sb = b -> 0 < s2 -> 0 < sa ->
  s2 * (sa * sb) * sb / (s2 * sa) = b * 1.
Proof. intros <- P2 Pa. field. lra. Qed.
Lemma ratio_aux3 sa sb s2 b : sb * sb = b -> 0 < s2 -> 0 < sa ->
  1 * (sa * sb) * (s2 * sb) / (s2 * sa) = b * 1.
Proof. intros <- P2 Pa. field. lra. Qed.
Lemma gamma_ratio_R : forall (two : bool) ni mi nj mj, (0 <= ni)%Z -> (0 <= nj)%Z ->
  two = ((mi =? 0)%Z || (mj =? 0)%Z)%bool -> ((mi =? 0)%Z && (mj =? 0)%Z)%bool = false ->
  (if two then sqrt 2 else 1) * sqrt (IZR ((ni + 1) * (nj + 1))) * cnorm nj mj / cnorm ni mi
  = IZR ((nj + 1) * (if (mi =? 0)%Z then 2 else 1)).
Proof.
  intros two ni mi nj mj Hi Hj -> Hb.
  assert (Ha : 0 < IZR (ni + 1)) by (apply IZR_lt; lia).
  assert (Hb' : 0 < IZR (nj + 1)) by (apply IZR_lt; lia).
  rewrite mult_IZR, sqrt_mult by lra.
  unfold cnorm, norm2.
  set (a := IZR (ni + 1)) in *. set (b := IZR (nj + 1)) in *.
  assert (Sa : sqrt a * sqrt a = a) by (apply sqrt_sqrt; lra).
  assert (Sb : sqrt b * sqrt b = b) by (apply sqrt_sqrt; lra).
  assert (S2 : sqrt 2 * sqrt 2 = 2) by (apply sqrt_sqrt; lra).
  assert (Pa : 0 < sqrt a) by (apply sqrt_lt_R0; lra).
  assert (Pb : 0 < sqrt b) by (apply sqrt_lt_R0; lra).
  assert (P2 : 0 < sqrt 2) by (apply sqrt_lt_R0; lra).
  destruct (mi =? 0)%Z, (mj =? 0)%Z; try discriminate; cbn [orb];
    rewrite ?mult_IZR; fold a b; rewrite ?sqrt_mult by lra.
  - apply ratio_aux1; assumption.
  - apply ratio_aux2; assumption.
  - apply ratio_aux3; assumption.
Qed.

(* ---- real semantics of the polynomial representation ---- *)
Fixpoint ev1 (a : poly1) (y : R) : R :=
  match a with [] => 0 | c :: a' => Q2R c + y * ev1 a' y end.
Fixpoint pev (p : poly) (x y : R) : R :=
  match p with [] => 0 | a :: p' => ev1 a y + x * pev p' x y end.

Lemma ev1_add1 a : forall b y, ev1 (add1 a b) y = ev1 a y + ev1 b y.
Proof.
  induction a as [|c a IH]; intros [|d b] y; cbn [add1 ev1]; try ring.
  rewrite Q2R_red, Q2R_plus, IH. ring.
Qed.
Lemma ev1_scale1 c a y : ev1 (scale1 c a) y = Q2R c * ev1 a y.
Proof.
  induction a as [|d a IH]; cbn [scale1 map ev1]; [ring|].
  fold (scale1 c a). rewrite Q2R_red, Q2R_mult, IH. ring.
Qed.
Lemma Q2R_0 : Q2R 0 = 0.
Proof. unfold Q2R; cbn. ring. Qed.
Lemma ev1_mul1 a b y : ev1 (mul1 a b) y = ev1 a y * ev1 b y.
Proof.
  induction a as [|c a IH]; cbn [mul1 ev1]; [ring|].
  rewrite ev1_add1, ev1_scale1. cbn [ev1]. rewrite IH, Q2R_0. ring.
Qed.
Lemma pev_padd p : forall q x y, pev (padd p q) x y = pev p x y + pev q x y.
Proof.
  induction p as [|a p IH]; intros [|b q] x y; cbn [padd pev]; try ring.
  rewrite ev1_add1, IH. ring.
Qed.
Lemma pev_pscale c p x y : pev (pscale c p) x y = Q2R c * pev p x y.
Proof.
  induction p as [|a p IH]; cbn [pscale map pev]; [ring|].
  fold (pscale c p). rewrite ev1_scale1, IH. ring.
Qed.
Lemma pev_map_mul1 a q x y : pev (map (mul1 a) q) x y = ev1 a y * pev q x y.
Proof.
  induction q as [|b q IH]; cbn [map pev]; [ring|]. rewrite ev1_mul1, IH. ring.
Qed.
Lemma pev_pmul p q x y : pev (pmul p q) x y = pev p x y * pev q x y.
Proof.
  induction p as [|a p IH]; cbn [pmul pev]; [ring|].
  rewrite pev_padd, pev_map_mul1. cbn [pev ev1]. rewrite IH. ring.
Qed.

Definition rsum (l : list R) : R := fold_right Rplus 0 l.
Lemma pev_psum l x y : pev (psum l) x y = rsum (map (fun p => pev p x y) l).
Proof.
  induction l as [|p l IH]; [reflexivity|].
  change (pev (padd p (psum l)) x y = pev p x y + rsum (map (fun p => pev p x y) l)).
  rewrite pev_padd, IH. reflexivity.
Qed.

(* soundness of the boolean equality *)
Lemma zero1_ev a y : zero1 a = true -> ev1 a y = 0.
Proof.
  induction a as [|c a IH]; cbn [zero1 forallb ev1]; [reflexivity|].
  intros H. apply andb_prop in H as [H1 H2]. apply Qeq_bool_iff, Qeq_eqR in H1.
  rewrite H1, Q2R_0, (IH H2). ring.
Qed.
Lemma eq1_ev a : forall b y, eq1 a b = true -> ev1 a y = ev1 b y.
Proof.
  induction a as [|c a IH]; intros [|d b] y; cbn [eq1]; intros H.
  - reflexivity.
  - rewrite (zero1_ev _ y H). reflexivity.
  - rewrite (zero1_ev _ y H). reflexivity.
  - apply andb_prop in H as [H1 H2]. apply Qeq_bool_iff, Qeq_eqR in H1.
    cbn [ev1]. rewrite H1, (IH _ _ H2). reflexivity.
Qed.
Lemma pzero_ev p x y : pzero p = true -> pev p x y = 0.
Proof.
  induction p as [|a p IH]; cbn [pzero forallb pev]; [reflexivity|].
  intros H. apply andb_prop in H as [H1 H2]. rewrite (zero1_ev _ y H1), (IH H2). ring.
Qed.
Theorem peq_ev p : forall q, peq p q = true -> forall x y, pev p x y = pev q x y.
Proof.
  induction p as [|a p IH]; intros [|b q]; cbn [peq]; intros H x y.
  - reflexivity.
  - rewrite (pzero_ev _ x y H). reflexivity.
  - rewrite (pzero_ev _ x y H). reflexivity.
  - apply andb_prop in H as [H1 H2]. cbn [pev]. rewrite (eq1_ev _ _ y H1), (IH _ H2). reflexivity.
Qed.

(* the formal partial derivatives are the derivatives *)
Lemma ev1_dcoef a : forall k y, ev1 (dcoef k a) y = IZR k * ev1 a y + y * ev1 (d1 a) y.
Proof.
  induction a as [|c a IH]; intros k y; cbn [dcoef d1 ev1]; [ring|].
  rewrite Q2R_red, Q2R_mult, Q2R_inject_Z, (IH (k + 1)%Z), (IH 1%Z), plus_IZR. ring.
Qed.
Lemma pev_dxrows p : forall k x y, pev (dxrows k p) x y = IZR k * pev p x y + x * pev (pdx p) x y.
Proof.
  induction p as [|a p IH]; intros k x y; cbn [dxrows pdx pev]; [ring|].
  rewrite ev1_scale1, Q2R_inject_Z, (IH (k + 1)%Z), (IH 1%Z), plus_IZR. ring.
Qed.

Lemma ev1_deriv a y : derivable_pt_lim (fun y => ev1 a y) y (ev1 (d1 a) y).
Proof.
  induction a as [|c a IH].
  - cbn. apply derivable_pt_lim_const.
  - cbn [ev1 d1]. rewrite ev1_dcoef.
    replace (1 * ev1 a y + y * ev1 (d1 a) y) with (0 + (1 * ev1 a y + id y * ev1 (d1 a) y)) by (unfold id; ring).
    apply (derivable_pt_lim_plus (fun _ => Q2R c) (fun y => y * ev1 a y)).
    + apply derivable_pt_lim_const.
    + apply (derivable_pt_lim_mult id (fun y => ev1 a y)); [apply derivable_pt_lim_id | exact IH].
Qed.

Theorem pev_deriv_y p x y : derivable_pt_lim (fun y => pev p x y) y (pev (pdy p) x y).
Proof.
  induction p as [|a p IH].
  - cbn. apply derivable_pt_lim_const.
  - cbn [pev pdy map]. fold (pdy p).
    apply (derivable_pt_lim_plus (fun y => ev1 a y) (fun y => x * pev p x y)).
    + apply ev1_deriv.
    + apply (derivable_pt_lim_scal (fun y => pev p x y)). exact IH.
Qed.

Theorem pev_deriv_x p x y : derivable_pt_lim (fun x => pev p x y) x (pev (pdx p) x y).
Proof.
  induction p as [|a p IH].
  - cbn. apply derivable_pt_lim_const.
  - cbn [pev pdx]. rewrite pev_dxrows.
    replace (1 * pev p x y + x * pev (pdx p) x y)
      with (0 + (1 * pev p x y + id x * pev (pdx p) x y)) by (unfold id; ring).
    apply (derivable_pt_lim_plus (fun _ => ev1 a y) (fun x => x * pev p x y)).
    + apply derivable_pt_lim_const.
    + apply (derivable_pt_lim_mult id (fun x => pev p x y)); [apply derivable_pt_lim_id | exact IH].
Qed.

(* ---- the gamma identities over the reals ---- *)
(* the Noll-normalised mode Z_j as a function on the plane *)
Definition ZR (j : Z) (x y : R) : R := cnormj j * pev (zpoly j) x y.
(* the matrix entry as the real number the Python code stores (up to rounding) *)
Definition gamR (e : gentry) : R :=
  IZR (g_sign e) * ((if g_two e then sqrt 2 else 1) * sqrt (IZR (g_prod e))).

Lemma noll_n_nonneg i : (0 <= noll_n i)%Z.
Proof. unfold noll_n. apply (zern_index_valid (Z.of_nat (S i))). lia. Qed.

Lemma gamR_ratio e i j : odef (rgam e i j) = true ->
  gamR e * cnormj (Z.of_nat (S j)) = cnormj (Z.of_nat (S i)) * Q2R (oget (rgam e i j)).
Proof.
  unfold rgam, rcoef, gamR.
  change (cnormj (Z.of_nat (S j))) with (cnorm (noll_n j) (noll_m j)).
  change (cnormj (Z.of_nat (S i))) with (cnorm (noll_n i) (noll_m i)).
  pose proof (noll_n_nonneg i) as Hi. pose proof (noll_n_nonneg j) as Hj.
  set (ni := noll_n i) in *. set (nj := noll_n j) in *. set (mi := noll_m i). set (mj := noll_m j).
  destruct (Z.eqb_spec (g_sign e) 0) as [e0|e0].
  - intros _. rewrite e0. cbn [oget]. rewrite Q2R_0. ring.
  - destruct (Z.eqb_spec (g_prod e) ((ni + 1) * (nj + 1))) as [ep|ep]; [|discriminate].
    destruct (Bool.eqb (g_two e) ((mi =? 0)%Z || (mj =? 0)%Z)) eqn:Et; [|discriminate].
    destruct ((mi =? 0)%Z && (mj =? 0)%Z)%bool eqn:Eb; [discriminate|].
    intros _. cbn [oget andb negb]. apply eqb_prop in Et.
    pose proof (gamma_ratio_R (g_two e) ni mi nj mj Hi Hj Et Eb) as G.
    pose proof (cnorm_pos ni mi Hi) as Pi.
    rewrite ep, Q2R_inject_Z, <- (Z.mul_assoc (g_sign e)), (mult_IZR (g_sign e)), <- G. field. lra.
Qed.

Lemma rsum_scal_ext {A} (f g : A -> R) c l :
  (forall a, In a l -> g a = c * f a) -> rsum (map g l) = c * rsum (map f l).
Proof.
  induction l as [|a l IH]; intros H; cbn [map rsum fold_right]; [ring|].
  fold (rsum (map g l)) (rsum (map f l)).
  rewrite IH by (intros b Hb; apply H; right; exact Hb). rewrite (H a) by (left; reflexivity). ring.
Qed.

Lemma row_holds_R entry d K i x y : row_holds entry d K i ->
  cnormj (Z.of_nat (S i)) * pev (d (zpoly (Z.of_nat (S i)))) x y
  = rsum (map (fun j => gamR (entry i j) * ZR (Z.of_nat (S j)) x y) (seq 0 K)).
Proof.
  intros [D E]. rewrite (peq_ev _ _ E x y), pev_psum, map_map. symmetry.
  apply rsum_scal_ext. intros j Hj. apply in_seq in Hj.
  rewrite pev_pscale. unfold ZR.
  rewrite <- Rmult_assoc, (gamR_ratio _ i j) by (apply D; lia). ring.
Qed.

(* dZ_{i+1}/dx = sum_{j<K} gamx[i][j] Z_{j+1}  and  dZ_{i+1}/dy = sum_{j<K} gamy[i][j] Z_{j+1},
   with the true (irrational) normalisations and matrix entries *)
Theorem gamma_x_R_bounded : forall nzrad, (nzrad <= 12)%nat ->
  forall i, (i < length (gam_nm nzrad))%nat -> forall x y,
  derivable_pt_lim (fun x => ZR (Z.of_nat (S i)) x y) x
    (rsum (map (fun j => gamR (gamx_entry (gam_nm nzrad) i j) * ZR (Z.of_nat (S j)) x y)
               (seq 0 (length (gam_nm nzrad))))).
Proof.
  intros nzrad H i Hi x y.
  rewrite <- (row_holds_R _ pdx _ i x y (gamma_x_bounded nzrad H i Hi)).
  unfold ZR. apply (derivable_pt_lim_scal (fun x => pev (zpoly (Z.of_nat (S i))) x y)).
  apply pev_deriv_x.
Qed.

Theorem gamma_y_R_bounded : forall nzrad, (nzrad <= 12)%nat ->
  forall i, (i < length (gam_nm nzrad))%nat -> forall x y,
  derivable_pt_lim (fun y => ZR (Z.of_nat (S i)) x y) y
    (rsum (map (fun j => gamR (gamy_entry (gam_nm nzrad) i j) * ZR (Z.of_nat (S j)) x y)
               (seq 0 (length (gam_nm nzrad))))).
Proof.
  intros nzrad H i Hi x y.
  rewrite <- (row_holds_R _ pdy _ i x y (gamma_y_bounded nzrad H i Hi)).
  unfold ZR. apply (derivable_pt_lim_scal (fun y => pev (zpoly (Z.of_nat (S i))) x y)).
  apply pev_deriv_y.
Qed.

(* ---- what the polynomials P_j evaluate to: the radial polynomial times cos/sin of the
        azimuth, so that ZR j is the textbook Noll mode ---- *)
Fixpoint cisR (k : nat) (x y : R) : R * R :=
  match k with
  | O => (1, 0)
  | S k' => let '(re, im) := cisR k' x y in (re * x - im * y, re * y + im * x)
  end.
Lemma pX_ev x y : pev pX x y = x.
Proof. cbn. rewrite Q2R_1. ring. Qed.
Lemma pY_ev x y : pev pY x y = y.
Proof. cbn. rewrite Q2R_1, Q2R_0. ring. Qed.
Lemma pconst1_ev x y : pev (pconst 1) x y = 1.
Proof. cbn. rewrite Q2R_1. ring. Qed.
Lemma pR2_ev x y : pev pR2 x y = x * x + y * y.
Proof. unfold pR2. rewrite pev_padd, !pev_pmul, pX_ev, pY_ev. reflexivity. Qed.
Lemma ppow_ev p k x y : pev (ppow p k) x y = pev p x y ^ k.
Proof.
  induction k as [|k IH]; cbn [ppow pow]; [apply pconst1_ev|]. rewrite pev_pmul, IH. reflexivity.
Qed.
Lemma cis_ev k x y :
  pev (fst (cis k)) x y = fst (cisR k x y) /\ pev (snd (cis k)) x y = snd (cisR k x y).
Proof.
  induction k as [|k [IH1 IH2]]; cbn [cis cisR].
  - split; [apply pconst1_ev|reflexivity].
  - destruct (cis k) as [re im], (cisR k x y) as [a b]. cbn [fst snd] in *.
    rewrite !pev_padd, pev_pscale, !pev_pmul, pX_ev, pY_ev, IH1, IH2.
    replace (Q2R (-1)) with (-1) by (unfold Q2R; cbn; field). split; ring.
Qed.
Lemma cisR_polar k r t :
  cisR k (r * cos t) (r * sin t) = (r ^ k * cos (INR k * t), r ^ k * sin (INR k * t)).
Proof.
  induction k as [|k IH].
  - cbn. rewrite Rmult_0_l, cos_0, sin_0. f_equal; ring.
  - cbn [cisR]. rewrite IH, S_INR.
    replace ((INR k + 1) * t) with (INR k * t + t) by ring. rewrite cos_plus, sin_plus.
    cbn [pow]. f_equal; ring.
Qed.

Definition angR (m : Z) (x y : R) : R :=
  if (0 <=? m)%Z then fst (cisR (Z.to_nat (Z.abs m)) x y) else snd (cisR (Z.to_nat (Z.abs m)) x y).

Lemma rsum_map_ext {A} (f g : A -> R) l : (forall a, In a l -> f a = g a) -> rsum (map f l) = rsum (map g l).
Proof.
  intros H. rewrite <- (Rmult_1_l (rsum (map g l))). apply rsum_scal_ext.
  intros a Ha. rewrite (H a Ha). ring.
Qed.

Theorem zpoly_nm_ev n m x y :
  pev (zpoly_nm n m) x y =
  rsum (map (fun i => Q2R (rad_coeff n (Z.abs m) (Z.of_nat i))
                      * (x * x + y * y) ^ (Z.to_nat ((n - Z.abs m) / 2) - i))
            (seq 0 (S (Z.to_nat ((n - Z.abs m) / 2)))))
  * angR m x y.
Proof.
  unfold zpoly_nm. cbv zeta. rewrite pev_pmul, pev_psum, map_map. f_equal.
  - apply rsum_map_ext. intros i _. rewrite pev_pscale, ppow_ev, pR2_ev. reflexivity.
  - unfold ang_poly, angR. destruct (cis_ev (Z.to_nat (Z.abs m)) x y) as [A B].
    destruct (cis (Z.to_nat (Z.abs m))) as [re im]. cbn [fst snd] in *.
    destruct (0 <=? m)%Z; assumption.
Qed.

(* in polar coordinates: P_(n,m)(r cos t, r sin t) = R_n^|m|(r) * (cos |m| t  or  sin |m| t),
   with R_n^|m|(r) = sum_i rad_coeff n |m| i r^(n-2i) exactly as in zernikeRadialFunc *)
Theorem zpoly_nm_polar n m r t : valid_nm n m ->
  pev (zpoly_nm n m) (r * cos t) (r * sin t) =
  rsum (map (fun pc => Q2R (snd pc) * r ^ Z.to_nat (fst pc)) (rad_terms n (Z.abs m)))
  * (if (0 <=? m)%Z then cos (IZR (Z.abs m) * t) else sin (IZR (Z.abs m) * t)).
Proof.
  intros (Hn & Hm & He).
  assert (Hpar : ((n - Z.abs m) mod 2 = 0)%Z)
    by (pose proof (Zmod_even (n - Z.abs m)) as E; rewrite He in E; exact E).
  rewrite zpoly_nm_ev. unfold angR. rewrite cisR_polar. cbn [fst snd].
  rewrite INR_IZR_INZ, Z2Nat.id by lia.
  unfold rad_terms. rewrite map_map. cbn [fst snd].
  set (h := Z.to_nat ((n - Z.abs m) / 2)).
  set (tr := if (0 <=? m)%Z then cos (IZR (Z.abs m) * t) else sin (IZR (Z.abs m) * t)).
  transitivity (rsum (map (fun i => Q2R (rad_coeff n (Z.abs m) (Z.of_nat i))
                                    * (r * cos t * (r * cos t) + r * sin t * (r * sin t)) ^ (h - i))
                          (seq 0 (S h))) * (r ^ Z.to_nat (Z.abs m) * tr)).
  { unfold tr. destruct (0 <=? m)%Z; reflexivity. }
  rewrite <- Rmult_assoc. f_equal.
  rewrite Rmult_comm. symmetry. apply rsum_scal_ext. intros i Hi. apply in_seq in Hi.
  replace (r * cos t * (r * cos t) + r * sin t * (r * sin t)) with (r * r * (sin t * sin t + cos t * cos t)) by ring.
  pose proof (sin2_cos2 t) as SC. unfold Rsqr in SC. rewrite SC, Rmult_1_r.
  replace (r * r) with (r ^ 2) by ring. rewrite <- pow_mult.
  replace (Z.to_nat (n - 2 * Z.of_nat i)) with (Z.to_nat (Z.abs m) + 2 * (h - i))%nat.
  - rewrite pow_add. ring.
  - unfold h in *.
    lia.
Qed.
