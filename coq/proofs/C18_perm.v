(* C18 (continued): equivalent_layers treats the profile as a SET of layers -- listing the layers
   (h_k, p_k, w_k) in another order changes nothing.  Over the reals. *)
From Coq Require Import ZArith Reals Bool List Arith Lra Lia Permutation.
Require Import AOV.base.Num AOV.base.NumR AOV.base.RpowTac AOV.base.Cplx AOV.model.Compress
               AOV.proofs.C18_proofs.
Import ListNotations.

(* ---- generic list facts ---- *)
Lemma map_fst_combine_eq {A B} (a : list A) : forall (b : list B),
  length a = length b -> map fst (combine a b) = a.
Proof.
  induction a as [|x a IH]; intros b Hl; [reflexivity|].
  destruct b as [|y b]; [discriminate|]. cbn [combine map fst]. f_equal. apply IH.
  cbn [length] in Hl. lia.
Qed.
Lemma map_snd_combine_eq {A B} (a : list A) : forall (b : list B),
  length a = length b -> map snd (combine a b) = b.
Proof.
  induction a as [|x a IH]; intros b Hl; [destruct b; [reflexivity|discriminate]|].
  destruct b as [|y b]; [discriminate|]. cbn [combine map snd]. f_equal. apply IH.
  cbn [length] in Hl. lia.
Qed.
Lemma combine_app_eq {A B} (a : list A) : forall (b : list B) c d,
  length a = length b -> combine (a ++ c) (b ++ d) = combine a b ++ combine c d.
Proof.
  induction a as [|x a IH]; intros b c d Hl.
  - destruct b; [reflexivity|discriminate].
  - destruct b as [|y b]; [discriminate|]. cbn [app combine]. f_equal. apply IH.
    cbn [length] in Hl. lia.
Qed.
Lemma combine_rev_eq {A B} (a : list A) : forall (b : list B),
  length a = length b -> combine (rev a) (rev b) = rev (combine a b).
Proof.
  induction a as [|x a IH]; intros b Hl.
  - destruct b; [reflexivity|discriminate].
  - destruct b as [|y b]; [discriminate|]. cbn [length] in Hl.
    cbn [rev combine]. rewrite combine_app_eq by (rewrite !rev_length; lia).
    rewrite IH by lia. reflexivity.
Qed.
Lemma filter_perm {A} (f : A -> bool) a b : Permutation a b -> Permutation (filter f a) (filter f b).
Proof.
  induction 1 as [|x a b _ IH|x y a|a b c _ IH1 _ IH2].
  - apply perm_nil.
  - cbn [filter]. destruct (f x); [apply perm_skip|]; exact IH.
  - cbn [filter]. destruct (f x), (f y); try apply Permutation_refl. apply perm_swap.
  - eapply perm_trans; eassumption.
Qed.
Lemma map2_map_map {A B C D} (f : B -> C -> D) (g1 : A -> B) (g2 : A -> C) l :
  map2 f (map g1 l) (map g2 l) = map (fun t => f (g1 t) (g2 t)) l.
Proof. induction l as [|x l IH]; [reflexivity|]. cbn [map map2]. rewrite IH. reflexivity. Qed.
(* selecting from two maps of the same list is a map over a filter of that list *)
Lemma sel_map_map {A B} (d : A -> nat) (g : A -> B) l j :
  sel (map d l) (map g l) j = map g (filter (fun t => Nat.eqb (d t) j) l).
Proof.
  induction l as [|x l IH]; [reflexivity|]. cbn [map filter]. rewrite sel_cons.
  destruct (Nat.eqb (d x) j); cbn [map]; rewrite IH; reflexivity.
Qed.

(* the components of a layer (h_k, (p_k, w_k)) *)
Definition t0 {T} (t : T * (T * T)) : T := fst t.
Definition t1 {T} (t : T * (T * T)) : T := fst (snd t).
Definition t2 {T} (t : T * (T * T)) : T := snd (snd t).

Lemma triples_h {T} (h p w : list T) :
  length h = length p -> length p = length w -> map t0 (combine h (combine p w)) = h.
Proof.
  intros H1 H2. unfold t0. apply map_fst_combine_eq. rewrite combine_length. lia.
Qed.
Lemma triples_p {T} (h p w : list T) :
  length h = length p -> length p = length w -> map t1 (combine h (combine p w)) = p.
Proof.
  intros H1 H2. unfold t1. rewrite <- (map_map snd fst).
  rewrite map_snd_combine_eq by (rewrite combine_length; lia).
  apply map_fst_combine_eq. exact H2.
Qed.
Lemma triples_w {T} (h p w : list T) :
  length h = length p -> length p = length w -> map t2 (combine h (combine p w)) = w.
Proof.
  intros H1 H2. unfold t2. rewrite <- (map_map snd snd).
  rewrite map_snd_combine_eq by (rewrite combine_length; lia).
  apply map_snd_combine_eq. exact H2.
Qed.

Local Open Scope R_scope.

Section ELperm.
Variables (G : R -> R) (K : R -> R -> R).
Local Notation O := (ROps G K).

(* ---- sums ---- *)
Lemma nsum_perm a b : Permutation a b -> nsum O a = nsum O b.
Proof.
  induction 1 as [|x a b _ IH|x y a|a b c _ IH1 _ IH2].
  - reflexivity.
  - rewrite !nsum_R_cons, IH. reflexivity.
  - rewrite !nsum_R_cons. lra.
  - rewrite IH1. exact IH2.
Qed.

(* ---- maximum / minimum ---- *)
Lemma fold_nmax_in l : forall a, fold_left (nmax O) l a = a \/ In (fold_left (nmax O) l a) l.
Proof.
  induction l as [|x l IH]; intros a; cbn [fold_left]; [left; reflexivity|].
  destruct (IH (nmax O a x)) as [E|Hin]; [|right; right; exact Hin].
  rewrite E. unfold nmax. destruct (nltb O a x); [right; left; reflexivity|left; reflexivity].
Qed.
Theorem lmax_in h : h <> [] -> In (lmax O h) h.
Proof.
  destruct h as [|a r]; [congruence|]. intros _. unfold lmax. cbn [hd].
  destruct (fold_nmax_in (a :: r) a) as [E|Hin]; [rewrite E; left; reflexivity|exact Hin].
Qed.

(* lmax is THE maximum, lmin THE minimum: characterisation *)
Lemma lmax_unique h m : In m h -> (forall x, In x h -> x <= m) -> lmax O h = m.
Proof.
  intros Hin Hub. assert (Hne : h <> []) by (intros ->; destruct Hin).
  apply Rle_antisym.
  - apply Hub. apply lmax_in. exact Hne.
  - pose proof (lmax_ge G K h) as HF. rewrite Forall_forall in HF. apply HF. exact Hin.
Qed.
Lemma lmin_unique h m : In m h -> (forall x, In x h -> m <= x) -> lmin O h = m.
Proof.
  intros Hin Hlb. assert (Hne : h <> []) by (intros ->; destruct Hin).
  apply Rle_antisym.
  - pose proof (lmin_le G K h) as HF. rewrite Forall_forall in HF. apply HF. exact Hin.
  - apply Hlb. apply lmin_in. exact Hne.
Qed.

Theorem lmax_perm h h' : Permutation h h' -> lmax O h' = lmax O h.
Proof.
  intros HP. destruct h as [|a r].
  - apply Permutation_nil in HP. subst h'. reflexivity.
  - apply lmax_unique.
    + eapply Permutation_in; [exact HP|]. apply lmax_in. discriminate.
    + intros x Hx. pose proof (lmax_ge G K (a :: r)) as HF. rewrite Forall_forall in HF.
      apply HF. eapply Permutation_in; [apply Permutation_sym; exact HP|exact Hx].
Qed.
Theorem lmin_perm h h' : Permutation h h' -> lmin O h' = lmin O h.
Proof.
  intros HP. destruct h as [|a r].
  - apply Permutation_nil in HP. subst h'. reflexivity.
  - apply lmin_unique.
    + eapply Permutation_in; [exact HP|]. apply lmin_in. discriminate.
    + intros x Hx. pose proof (lmin_le G K (a :: r)) as HF. rewrite Forall_forall in HF.
      apply HF. eapply Permutation_in; [apply Permutation_sym; exact HP|exact Hx].
Qed.

(* hence the same slab edges *)
Theorem el_bins_perm h h' L : Permutation h h' -> el_bins O h' L = el_bins O h L.
Proof.
  intros HP. unfold el_bins. rewrite (lmax_perm h h' HP), (lmin_perm h h' HP). reflexivity.
Qed.

(* ---- one slab as a function of the list of layers ---- *)
Definition slab3 (bins : list R) (tl : list (R * (R * R))) (j : nat) : R * R * R :=
  let fl := filter (fun t => Nat.eqb (digitize O (t0 t) bins) j) tl in
  let cn2 := nsum O (map t1 fl) in
  (pw35 O (ndiv O (nsum O (map (fun t => nmul O (t1 t) (pw53 O (t0 t))) fl)) cn2), cn2,
   pw35 O (ndiv O (nsum O (map (fun t => nmul O (t1 t) (pw53 O (t2 t))) fl)) cn2)).

Lemma el_triples tl L :
  equivalent_layers O (map t0 tl) (map t1 tl) (map t2 tl) L =
  map (fun i => slab3 (el_bins O (map t0 tl) L) tl (S i)) (seq 0 L).
Proof.
  rewrite el_unfold. unfold el_ix. generalize (el_bins O (map t0 tl) L). intros bins.
  apply map_ext. intros i. unfold slab3. rewrite map_map.
  rewrite !(sel_map_map (fun t => digitize O (t0 t) bins)).
  rewrite !map2_map_map. reflexivity.
Qed.

Lemma slab3_perm bins tl tl' j : Permutation tl tl' -> slab3 bins tl' j = slab3 bins tl j.
Proof.
  intros HP. unfold slab3.
  pose proof (filter_perm (fun t => Nat.eqb (digitize O (t0 t) bins) j) tl tl' HP) as HF.
  rewrite (nsum_perm _ _ (Permutation_map t1 HF)).
  rewrite (nsum_perm _ _ (Permutation_map (fun t => nmul O (t1 t) (pw53 O (t0 t))) HF)).
  rewrite (nsum_perm _ _ (Permutation_map (fun t => nmul O (t1 t) (pw53 O (t2 t))) HF)).
  reflexivity.
Qed.

(* the list-of-layers form: no length or non-emptiness hypothesis at all *)
Theorem el_triples_perm tl tl' L : Permutation tl tl' ->
  equivalent_layers O (map t0 tl') (map t1 tl') (map t2 tl') L =
  equivalent_layers O (map t0 tl) (map t1 tl) (map t2 tl) L.
Proof.
  intros HP. rewrite !el_triples. apply map_ext. intros i.
  rewrite (el_bins_perm (map t0 tl) (map t0 tl') L (Permutation_map t0 HP)).
  apply slab3_perm. exact HP.
Qed.

(* stronger than requested: h <> [] is not needed (both sides are computed from [] alike) *)
Theorem equivalent_layers_permutation_gen (h p w h' p' w' : list R) (L : nat) :
  length h = length p -> length p = length w -> length h' = length p' -> length p' = length w' ->
  Permutation (combine h (combine p w)) (combine h' (combine p' w')) ->
  equivalent_layers O h' p' w' L = equivalent_layers O h p w L.
Proof.
  intros H1 H2 H1' H2' HP.
  pose proof (el_triples_perm _ _ L HP) as E.
  rewrite (triples_h h p w H1 H2), (triples_p h p w H1 H2), (triples_w h p w H1 H2) in E.
  rewrite (triples_h h' p' w' H1' H2'), (triples_p h' p' w' H1' H2'), (triples_w h' p' w' H1' H2') in E.
  exact E.
Qed.
End ELperm.

Theorem equivalent_layers_permutation : forall G K (h p w h' p' w' : list R) (L : nat),
  length h = length p -> length p = length w -> length h' = length p' -> length p' = length w' ->
  Permutation (combine h (combine p w)) (combine h' (combine p' w')) ->
  h <> [] ->
  equivalent_layers (ROps G K) h' p' w' L = equivalent_layers (ROps G K) h p w L.
Proof.
  intros G K h p w h' p' w' L H1 H2 H1' H2' HP _.
  apply equivalent_layers_permutation_gen; assumption.
Qed.

Corollary equivalent_layers_reversed : forall G K h p w L,
  length h = length p -> length p = length w -> h <> [] ->
  equivalent_layers (ROps G K) (rev h) (rev p) (rev w) L = equivalent_layers (ROps G K) h p w L.
Proof.
  intros G K h p w L H1 H2 Hne.
  apply equivalent_layers_permutation; try assumption.
  - rewrite !rev_length. exact H1.
  - rewrite !rev_length. exact H2.
  - rewrite (combine_rev_eq p w H2).
    rewrite combine_rev_eq by (rewrite combine_length; lia).
    apply Permutation_rev.
Qed.

Print Assumptions equivalent_layers_reversed.
Print Assumptions equivalent_layers_permutation.
