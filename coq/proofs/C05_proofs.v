(* C05: the add_row / scrn state machine of the infinite phase screen (last part of model/InfScreen.v):
   shape invariants and the exact "shift by one row" law.  Proved for EVERY carrier T and EVERY
   O : NumOps T; only list facts are used, so the statements are bit-identities at the IEEE instance. *)
From Coq Require Import ZArith Bool List Arith Lia.
Require Import AOV.base.Num AOV.base.Cplx AOV.model.Mat AOV.model.InfScreen.
Import ListNotations.

(* ------------------------------------------------------------------------------------------ *)
(* generic list facts                                                                          *)
(* ------------------------------------------------------------------------------------------ *)

Lemma c5_map2_length {A B C} (f : A -> B -> C) l1 l2 :
  length (map2 f l1 l2) = Nat.min (length l1) (length l2).
Proof. revert l2; induction l1 as [|a l1 IH]; intros [|b l2]; simpl; auto. Qed.

Lemma c5_map_firstn_id {A} n (m : list (list A)) :
  Forall (fun r => length r = n) m -> map (firstn n) m = m.
Proof.
  induction 1 as [|r m Hr _ IH]; simpl; auto.
  rewrite IH, firstn_all2; auto; lia.
Qed.

Lemma c5_Forall_firstn {A} (P : A -> Prop) n l : Forall P l -> Forall P (firstn n l).
Proof.
  intros H; revert n; induction H as [|a l Ha _ IH]; intros [|n]; simpl; auto.
Qed.

Lemma c5_Forall_removelast {A} (P : A -> Prop) l : Forall P l -> Forall P (removelast l).
Proof. rewrite removelast_firstn_len. apply c5_Forall_firstn. Qed.

Lemma c5_removelast_map {A B} (f : A -> B) l : removelast (map f l) = map f (removelast l).
Proof.
  induction l as [|a l IH]; simpl; auto.
  destruct l as [|b l]; simpl in *; auto. now rewrite IH.
Qed.

Lemma c5_removelast_firstn_S {A} n (l : list A) :
  S n <= length l -> removelast (firstn (S n) l) = firstn n l.
Proof.
  intros H. rewrite removelast_firstn_len, firstn_length_le by assumption.
  simpl pred. rewrite firstn_firstn. f_equal; lia.
Qed.

Lemma c5_firstn_S_cons_removelast {A} n (x : A) (l : list A) :
  length l = S n -> firstn (S n) (x :: l) = x :: removelast l.
Proof.
  intros H. simpl. f_equal. rewrite removelast_firstn_len, H. reflexivity.
Qed.

Lemma c5_removelast_length {A} (l : list A) : length (removelast l) = pred (length l).
Proof.
  rewrite removelast_firstn_len. apply firstn_length_le. lia.
Qed.

Section C05.
  Context {T : Type} (O : NumOps T).
  Local Notation screen := (@screen T).
  Local Notation mat := (@mat T).

  Definition wf_screen (s : screen) : Prop :=
    length (data s) = sl s /\ Forall (fun r => length r = nxs s) (data s) /\
    (req s <= sl s)%nat /\ (req s <= nxs s)%nat /\ (0 < sl s)%nat.

  (* the geometry never changes *)
  Lemma add_row_sl (s : screen) (row : list T) : sl (add_row_state s row) = sl s.      Proof. reflexivity. Qed.
  Lemma add_row_nxs (s : screen) (row : list T) : nxs (add_row_state s row) = nxs s.   Proof. reflexivity. Qed.
  Lemma add_row_req (s : screen) (row : list T) : req (add_row_state s row) = req s.   Proof. reflexivity. Qed.

  (* R5 *)
  Theorem data_shift : forall (s : screen) (row : list T),
    wf_screen s -> (nxs s <= length row)%nat ->
    data (add_row_state s row) = firstn (nxs s) row :: removelast (data s).
  Proof.
    intros s row (Hlen & Hrows & _ & _ & Hpos) _.
    unfold add_row_state; cbn [data sl nxs req]. cbn [map].
    rewrite (c5_map_firstn_id _ _ Hrows).
    destruct (sl s) as [|n] eqn:E; [lia|].
    now apply c5_firstn_S_cons_removelast.
  Qed.

  (* R1 *)
  Theorem add_row_wf : forall (s : screen) (row : list T),
    wf_screen s -> (nxs s <= length row)%nat ->
    wf_screen (add_row_state s row) /\
    sl (add_row_state s row) = sl s /\ nxs (add_row_state s row) = nxs s /\
    req (add_row_state s row) = req s.
  Proof.
    intros s row Hwf Hrow. split; [|repeat split].
    pose proof (data_shift s row Hwf Hrow) as Hd.
    destruct Hwf as (Hlen & Hrows & Hr1 & Hr2 & Hpos).
    unfold wf_screen. rewrite Hd. cbn [sl nxs req add_row_state].
    repeat split; auto.
    - simpl. rewrite c5_removelast_length. lia.
    - constructor.
      + now apply firstn_length_le.
      + now apply c5_Forall_removelast.
  Qed.

  Corollary add_row_wf' : forall (s : screen) (row : list T),
    wf_screen s -> (nxs s <= length row)%nat -> wf_screen (add_row_state s row).
  Proof. intros; now apply add_row_wf. Qed.

  (* R2 *)
  Lemma run_geom : forall (rows : list (list T)) (s : screen),
    sl (fold_left add_row_state rows s) = sl s /\
    nxs (fold_left add_row_state rows s) = nxs s /\
    req (fold_left add_row_state rows s) = req s.
  Proof.
    induction rows as [|r rows IH]; intros s; simpl; auto.
    destruct (IH (add_row_state s r)) as (H1 & H2 & H3). auto.
  Qed.

  Theorem run_wf : forall (rows : list (list T)) (s : screen),
    wf_screen s -> Forall (fun r => (nxs s <= length r)%nat) rows ->
    wf_screen (fold_left add_row_state rows s).
  Proof.
    induction rows as [|r rows IH]; intros s Hwf HF; simpl; auto.
    inversion HF; subst. apply IH; [now apply add_row_wf'|]. assumption.
  Qed.

  (* R3 *)
  Theorem exposed_shape : forall s : screen, wf_screen s -> wf_mat (req s) (req s) (exposed s).
  Proof.
    intros s (Hlen & Hrows & Hr1 & Hr2 & _). unfold wf_mat, exposed. split.
    - rewrite map_length. apply firstn_length_le. lia.
    - apply Forall_forall. intros x Hx. apply in_map_iff in Hx. destruct Hx as [r [<- Hr]].
      apply firstn_length_le.
      assert (Hin : In r (data s)).
      { rewrite <- (firstn_skipn (req s) (data s)). apply in_or_app; auto. }
      rewrite Forall_forall in Hrows. rewrite (Hrows r Hin). assumption.
  Qed.

  Lemma exposed_length : forall s : screen, wf_screen s -> length (exposed s) = req s.
  Proof. intros s H; apply (exposed_shape s H). Qed.

  (* R4 *)
  Theorem exposed_shift : forall (s : screen) (row : list T),
    wf_screen s -> (nxs s <= length row)%nat -> (0 < req s)%nat ->
    exposed (add_row_state s row) = firstn (req s) row :: removelast (exposed s).
  Proof.
    intros s row Hwf Hrow Hreq.
    unfold exposed at 1. rewrite (data_shift s row Hwf Hrow). cbn [req add_row_state].
    destruct Hwf as (Hlen & Hrows & Hr1 & Hr2 & Hpos).
    unfold exposed. destruct (req s) as [|r] eqn:E; [lia|].
    rewrite firstn_cons, map_cons. f_equal.
    - rewrite firstn_firstn. f_equal; lia.
    - rewrite c5_removelast_map, c5_removelast_firstn_S by lia.
      rewrite firstn_removelast by lia. reflexivity.
  Qed.

  (* without the side condition 0 < req: the exposed screen of a 0 x 0 request is always empty *)
  Lemma exposed_req0 : forall s : screen, req s = 0%nat -> exposed s = [].
  Proof. intros s H; unfold exposed; now rewrite H. Qed.

  (* R6: after adding rows r1 .. rk (k <= req), newest first, then the old top rows *)
  Theorem exposed_after_k : forall (rows : list (list T)) (s : screen),
    wf_screen s -> Forall (fun r => (nxs s <= length r)%nat) rows ->
    (length rows <= req s)%nat ->
    exposed (fold_left add_row_state rows s) =
    map (firstn (req s)) (rev rows) ++ firstn (req s - length rows) (exposed s).
  Proof.
    induction rows as [|r rows IH]; intros s Hwf HF Hk.
    - simpl. rewrite Nat.sub_0_r, firstn_all2; auto.
      rewrite (exposed_length s Hwf); auto.
    - inversion HF as [|r' rows' Hr HF']; subst. cbn [fold_left length] in *.
      assert (Hwf1 : wf_screen (add_row_state s r)) by now apply add_row_wf'.
      rewrite (IH (add_row_state s r) Hwf1 HF') by (cbn [req add_row_state]; lia).
      cbn [req add_row_state rev]. rewrite map_app, <- app_assoc. f_equal.
      rewrite (exposed_shift s r Hwf Hr) by lia.
      replace (req s - length rows)%nat with (S (req s - S (length rows))) by lia.
      cbn [firstn map app]. f_equal.
      apply firstn_removelast. rewrite (exposed_length s Hwf). lia.
  Qed.

  (* the same, row by row *)
  Corollary exposed_after_k_nth : forall (rows : list (list T)) (s : screen) (i : nat),
    wf_screen s -> Forall (fun r => (nxs s <= length r)%nat) rows ->
    (length rows <= req s)%nat -> (i < length rows)%nat ->
    nth i (exposed (fold_left add_row_state rows s)) [] =
    firstn (req s) (nth (length rows - 1 - i) rows []).
  Proof.
    intros rows s i Hwf HF Hk Hi. rewrite exposed_after_k by assumption.
    rewrite app_nth1 by (rewrite map_length, rev_length; assumption).
    rewrite (nth_indep _ [] (firstn (req s) [])) by (rewrite map_length, rev_length; assumption).
    rewrite map_nth. f_equal. rewrite rev_nth by assumption. f_equal; lia.
  Qed.

  Corollary exposed_after_k_old : forall (rows : list (list T)) (s : screen) (i : nat),
    wf_screen s -> Forall (fun r => (nxs s <= length r)%nat) rows ->
    (length rows <= req s)%nat -> (length rows <= i < req s)%nat ->
    nth i (exposed (fold_left add_row_state rows s)) [] = nth (i - length rows) (exposed s) [].
  Proof.
    intros rows s i Hwf HF Hk Hi. rewrite exposed_after_k by assumption.
    rewrite app_nth2 by (rewrite map_length, rev_length; lia).
    rewrite map_length, rev_length.
    rewrite <- (firstn_skipn (req s - length rows) (exposed s)) at 2.
    rewrite app_nth1; auto.
    rewrite firstn_length_le by (rewrite (exposed_length s Hwf); lia). lia.
  Qed.

  (* after req (or more ... here exactly req) rows nothing of the old exposed screen is left *)
  Corollary exposed_after_req : forall (rows : list (list T)) (s : screen),
    wf_screen s -> Forall (fun r => (nxs s <= length r)%nat) rows ->
    length rows = req s ->
    exposed (fold_left add_row_state rows s) = map (firstn (req s)) (rev rows).
  Proof.
    intros rows s Hwf HF Hk. rewrite exposed_after_k by (auto; lia).
    rewrite Hk, Nat.sub_diag. simpl. apply app_nil_r.
  Qed.

  (* R7: the two synthesis steps are add_row_state on a row of the right length *)
  Lemma mvec_length : forall (A : mat) (v : list T), length (mvec O A v) = length A.
  Proof. intros; unfold mvec; apply map_length. Qed.

  Lemma new_row_vk_length : forall (A B : mat) (Z b : list T),
    length (new_row_vk O A B Z b) = Nat.min (length A) (length B).
  Proof. intros; unfold new_row_vk, vadd. now rewrite c5_map2_length, !mvec_length. Qed.

  Lemma new_row_fried_length : forall (A B : mat) (Z : list T) (ref : T) (b : list T),
    length (new_row_fried O A B Z ref b) = Nat.min (length A) (length B).
  Proof.
    intros; unfold new_row_fried, vadd. now rewrite map_length, c5_map2_length, !mvec_length.
  Qed.

  Lemma step_vk_is_add_row : forall A B stencil (s : screen) b,
    step_vk O A B stencil s b = add_row_state s (new_row_vk O A B (stencil_data O (data s) stencil) b).
  Proof. reflexivity. Qed.

  Lemma step_fried_is_add_row : forall A B stencil (s : screen) b,
    step_fried O A B stencil s b =
    add_row_state s (new_row_fried O A B (stencil_data O (data s) stencil)
                                   (nth 1 (nth 1 (data s) []) (nzero O)) b).
  Proof. reflexivity. Qed.

  Theorem step_vk_wf : forall (A B : mat) stencil (s : screen) (b : list T),
    wf_screen s -> length A = nxs s -> length B = nxs s ->
    wf_screen (step_vk O A B stencil s b).
  Proof.
    intros A B stencil s b Hwf HA HB. unfold step_vk. apply add_row_wf'; auto.
    rewrite new_row_vk_length, HA, HB, Nat.min_id. auto.
  Qed.

  Theorem step_fried_wf : forall (A B : mat) stencil (s : screen) (b : list T),
    wf_screen s -> length A = nxs s -> length B = nxs s ->
    wf_screen (step_fried O A B stencil s b).
  Proof.
    intros A B stencil s b Hwf HA HB. unfold step_fried. apply add_row_wf'; auto.
    rewrite new_row_fried_length, HA, HB, Nat.min_id. auto.
  Qed.

  (* the steps shift the exposed screen down by one row and put the new row (cut to req) on top *)
  Theorem step_vk_shift : forall (A B : mat) stencil (s : screen) (b : list T),
    wf_screen s -> length A = nxs s -> length B = nxs s -> (0 < req s)%nat ->
    exposed (step_vk O A B stencil s b) =
    firstn (req s) (new_row_vk O A B (stencil_data O (data s) stencil) b) :: removelast (exposed s).
  Proof.
    intros A B stencil s b Hwf HA HB Hr. unfold step_vk. apply exposed_shift; auto.
    rewrite new_row_vk_length, HA, HB, Nat.min_id. auto.
  Qed.

  Theorem step_fried_shift : forall (A B : mat) stencil (s : screen) (b : list T),
    wf_screen s -> length A = nxs s -> length B = nxs s -> (0 < req s)%nat ->
    exposed (step_fried O A B stencil s b) =
    firstn (req s) (new_row_fried O A B (stencil_data O (data s) stencil)
                                  (nth 1 (nth 1 (data s) []) (nzero O)) b) :: removelast (exposed s).
  Proof.
    intros A B stencil s b Hwf HA HB Hr. unfold step_fried. apply exposed_shift; auto.
    rewrite new_row_fried_length, HA, HB, Nat.min_id. auto.
  Qed.

  (* any run of steps (either kind) keeps the invariant *)
  Inductive step_kind := KVk | KFried.
  Definition step (A B : mat) stencil (s : screen) (kb : step_kind * list T) : screen :=
    match fst kb with
    | KVk => step_vk O A B stencil s (snd kb)
    | KFried => step_fried O A B stencil s (snd kb)
    end.

  Theorem steps_wf : forall (A B : mat) stencil (kbs : list (step_kind * list T)) (s : screen),
    wf_screen s -> length A = nxs s -> length B = nxs s ->
    wf_screen (fold_left (step A B stencil) kbs s).
  Proof.
    intros A B stencil kbs; induction kbs as [|[k b] kbs IH]; intros s Hwf HA HB; simpl; auto.
    apply IH.
    - unfold step; destruct k; cbn [fst snd]; [now apply step_vk_wf | now apply step_fried_wf].
    - unfold step; destruct k; exact HA.
    - unfold step; destruct k; exact HB.
  Qed.
End C05.

Print Assumptions run_wf.
Print Assumptions exposed_shape.
Print Assumptions exposed_shift.
Print Assumptions exposed_after_k.
Print Assumptions steps_wf.
