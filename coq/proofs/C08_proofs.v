(* C08: all closed-form turbulence statistics describe one von Karman model -- lemmas about the
   GENERATED definitions (Gen_turb, Gen_slopecov, Gen_kl), real-number reading; Gamma (G) and the
   modified Bessel function (K) are arbitrary functions, facts about them appear as hypotheses. *)
From Coq Require Import Reals Lra ZArith List Psatz.
From Interval Require Import Tactic.
Require Import AOV.base.Num AOV.base.NumR AOV.base.RpowTac
               AOV.gen.Gen_turb AOV.gen.Gen_slopecov AOV.gen.Gen_kl.
Local Open Scope R_scope.

Section C08.
Variables (G : R -> R) (K : R -> R -> R).
Let O := ROps G K.

Definition Cfun (x : R) : R := Rpower x (5/6) * K (5/6) x.
Definition C0 : R := Rpower 2 (-1/6) * G (5/6).
Definition B1 : R := Rpower 2 (-5/6) * G (11/6) / Rpower PI (8/3).
Definition B2 : R := Rpower (24/5 * G (6/5)) (5/6).
Definition eps40 : R := 1 / 10000000000000000000000000000000000000000.

Ltac unf := unfold structure_function_vk, structure_function_kolmogorov, stf_kolmogorov,
  stf_vonKarman, stf_vonKarman_yao, phase_covariance, O; rops.

Lemma pow56_split r L0 : 0 < r -> 0 < L0 ->
  2 * Rpower PI (5/6) * Rpower (r / L0) (5/6) = Rpower (2 * PI * r / L0) (5/6) / Rpower 2 (-1/6).
Proof. intros. lnify. Qed.

Lemma vk_shape r r0 L0 : 0 < r -> 0 < r0 -> 0 < L0 -> 0 < G (5/6) ->
  structure_function_vk O r r0 L0
  = 17253/100000 * Rpower (L0 / r0) (5/3) * (1 - Cfun (2 * PI * r / L0) / C0).
Proof. intros Hr Hr0 HL HG. unf. rewrite (pow56_split r L0 Hr HL). unfold Cfun, C0.
  field. split; [lra|]. apply Rgt_not_eq, Rpower_pos. Qed.

Lemma cov_shape r r0 L0 :
  phase_covariance O r r0 L0
  = Rpower (L0 / r0) (5/3) * B1 * B2 * Cfun (2 * PI * (r + eps40) / L0).
Proof. unf. unfold B1, B2, Cfun, eps40. reflexivity. Qed.

(* D(r') = c * 2 (sigma^2 - B(r)),  r' = r + 1e-40,  sigma^2 = (L0/r0)^(5/3) B1 B2 C0 *)
Lemma same_shape r r0 L0 : 0 <= r -> 0 < r0 -> 0 < L0 -> 0 < G (5/6) ->
  2 * (Rpower (L0 / r0) (5/3) * B1 * B2 * C0 - phase_covariance O r r0 L0)
  = (2 * B1 * B2 * C0) / (17253/100000) * structure_function_vk O (r + eps40) r0 L0.
Proof. intros Hr Hr0 HL HG. rewrite cov_shape, vk_shape; try assumption.
  - field. unfold C0. apply Rgt_not_eq. apply Rmult_lt_0_compat; [apply Rpower_pos|assumption].
  - unfold eps40; lra.
Qed.

Lemma constant_close :
  112878/100000 <= G (5/6) <= 112879/100000 ->
  94065/100000 <= G (11/6) <= 94066/100000 ->
  91816/100000 <= G (6/5) <= 91817/100000 ->
  Rabs (2 * B1 * B2 * C0 - 17253/100000) <= 11/100000
  /\ 8631/100000 <= B1 * B2 * C0 <= 8632/100000.
Proof. unfold B1, B2, C0. generalize (G (5/6)) (G (11/6)) (G (6/5)). intros g1 g2 g3 H1 H2 H3.
  split; [|split]; interval with (i_prec 50). Qed.

Lemma copies_equal r L0 : stf_vonKarman O r L0 = structure_function_vk O r 1 L0.
Proof. reflexivity. Qed.
Lemma kolmogorov_copies r : 0 < r ->
  stf_kolmogorov O r = (68839/68800) * structure_function_kolmogorov O r 1.
Proof. intros. unf. replace (r / 1) with r by field. field. Qed.

Lemma vk_scales_r0 r r0 L0 s : 0 < r0 -> 0 < L0 -> 0 < s ->
  structure_function_vk O r (s * r0) L0 = Rpower s (-5/3) * structure_function_vk O r r0 L0.
Proof. intros. unf.
  replace (Rpower (L0 / (s * r0)) (5/3)) with (Rpower s (-5/3) * Rpower (L0 / r0) (5/3)) by lnify.
  ring. Qed.
Lemma cov_scales_r0 r r0 L0 s : 0 < r0 -> 0 < L0 -> 0 < s ->
  phase_covariance O r (s * r0) L0 = Rpower s (-5/3) * phase_covariance O r r0 L0.
Proof. intros. unf.
  replace (Rpower (L0 / (s * r0)) (5/3)) with (Rpower s (-5/3) * Rpower (L0 / r0) (5/3)) by lnify.
  ring. Qed.
Lemma kolmogorov_scales_r0 r r0 s : 0 < r -> 0 < r0 -> 0 < s ->
  structure_function_kolmogorov O r (s * r0) = Rpower s (-5/3) * structure_function_kolmogorov O r r0.
Proof. intros. unf. lnify. Qed.

(* shape facts that follow from named facts about x^(5/6) K_{5/6}(x) (not proved here) *)
Lemma vk_nondecreasing_from_C r1 r2 r0 L0 :
  (forall x y, 0 < x <= y -> Cfun y <= Cfun x) -> 0 < G (5/6) ->
  0 < r1 <= r2 -> 0 < r0 -> 0 < L0 ->
  structure_function_vk O r1 r0 L0 <= structure_function_vk O r2 r0 L0.
Proof. intros Hdec HG [H1 H12] Hr0 HL. rewrite !vk_shape; try assumption; try lra.
  assert (HC0 : 0 < C0) by (unfold C0; apply Rmult_lt_0_compat; [apply Rpower_pos|assumption]).
  assert (Hc : Cfun (2 * PI * r2 / L0) <= Cfun (2 * PI * r1 / L0)).
  { apply Hdec. pose proof PI_RGT_0. split.
    - apply Rdiv_lt_0_compat; [|assumption]. apply Rmult_lt_0_compat; lra.
    - apply Rmult_le_compat_r; [left; apply Rinv_0_lt_compat; assumption|].
      apply Rmult_le_compat_l; lra. }
  assert (Hp : 0 < 17253/100000 * Rpower (L0 / r0) (5/3)).
  { apply Rmult_lt_0_compat; [lra|apply Rpower_pos]. }
  apply Rmult_le_compat_l; [lra|].
  apply Rplus_le_compat_l, Ropp_le_contravar.
  apply Rmult_le_compat_r; [left; apply Rinv_0_lt_compat; assumption|assumption]. Qed.

Lemma vk_bounded_from_C r r0 L0 :
  (forall x, 0 < x -> 0 <= Cfun x <= C0) -> 0 < G (5/6) -> 0 < r -> 0 < r0 -> 0 < L0 ->
  0 <= structure_function_vk O r r0 L0 <= 17253/100000 * Rpower (L0 / r0) (5/3).
Proof. intros Hb HG Hr Hr0 HL. rewrite vk_shape; try assumption.
  assert (HC0 : 0 < C0) by (unfold C0; apply Rmult_lt_0_compat; [apply Rpower_pos|assumption]).
  assert (Hx : 0 < 2 * PI * r / L0).
  { pose proof PI_RGT_0. apply Rdiv_lt_0_compat; [|assumption]. apply Rmult_lt_0_compat; lra. }
  destruct (Hb _ Hx) as [Hlo Hhi].
  assert (Hq : 0 <= Cfun (2 * PI * r / L0) / C0 <= 1).
  { split; [apply Rmult_le_pos; [assumption|left; apply Rinv_0_lt_compat; assumption]|].
    apply Rmult_le_reg_r with C0; [assumption|]. unfold Rdiv. rewrite Rmult_assoc, Rinv_l; lra. }
  assert (Hp : 0 < 17253/100000 * Rpower (L0 / r0) (5/3)).
  { apply Rmult_lt_0_compat; [lra|apply Rpower_pos]. }
  split; [apply Rmult_le_pos; lra|].
  rewrite <- (Rmult_1_r (17253/100000 * Rpower (L0 / r0) (5/3))) at 2.
  apply Rmult_le_compat_l; lra. Qed.
End C08.
