(* C18, PART W: binary64 regression witnesses (vm_compute on the PrimFloat instance FOps []) for the model of
   the REPAIRED aotools/turbulence/profile_compression.py::equivalent_layers (slab edges
   h.min() + hstep * arange(L)).  The statements are about the model executed at binary64; the inputs are those
   for which the previous arange(hmin, hmax, hstep) edges dropped the top layer. *)
From Coq Require Import ZArith Bool Uint63 PrimFloat FloatOps List.
Require Import AOV.base.Num AOV.base.FloatFun AOV.base.NumF AOV.model.Compress AOV.proofs.C18_proofs.
Import ListNotations.
Local Open Scope float_scope.

Definition FO : NumOps float := FOps [].

(* numpy.linspace(0, 15000, N): element k is k * step with step = 15000 / (N-1) computed in binary64 *)
Definition lin (N : nat) : list float :=
  map (fun k => fZ (Z.of_nat k) * (15000 / fZ (Z.of_nat (N - 1)))) (seq 0 N).
Definition ones (N : nat) : list float := repeat 1 N.
(* total strength returned by equivalent_layers for N unit layers on lin N, compressed to L slabs *)
Definition el_total_strength (N L : nat) : float :=
  nsum FO (map ent1 (equivalent_layers FO (lin N) (ones N) (ones N) L)).

Lemma lin200_ends : hd 0 (lin 200) = 0 /\ last (lin 200) 0 = 15000 /\ length (lin 200) = 200%nat.
Proof. vm_compute. repeat split. Qed.

(* generic-carrier fact at binary64: whatever the float list h (NaNs, infinities, unsorted, ...), no slab index
   exceeds L, because digitize counts a subset of exactly L edges *)
Theorem el_ix_le_L_float (h : list float) (L : nat) : Forall (fun i => (i <= L)%nat) (el_ix FO h L).
Proof. apply el_ix_le_L. Qed.

(* W1 : 200 unit layers on linspace(0, 15000, 200), L = 7 : all 200 survive (previously 199) *)
Theorem el_keeps_top_layer_200_7 : el_total_strength 200 7 = 200.
Proof. vm_compute. reflexivity. Qed.
Corollary el_keeps_top_layer_200_7_eqb :
  PrimFloat.eqb (el_total_strength 200 7) 200 = true /\ fclose 0x1p-40 1 (el_total_strength 200 7) 200 = true.
Proof. vm_compute. repeat split. Qed.
Theorem el_keeps_top_layer_151_7 : el_total_strength 151 7 = 151.
Proof. vm_compute. reflexivity. Qed.

(* the mechanism: exactly L = 7 edges, the first one 0 = h.min(); the highest layer gets slab index 7 = L and
   every index is within 1..7 *)
Theorem el_top_layer_index_200_7 :
  length (el_bins FO (lin 200) 7) = 7%nat /\
  hd 1 (el_bins FO (lin 200) 7) = 0 /\
  last (el_ix FO (lin 200) 7) 0%nat = 7%nat /\
  filter (fun i => negb (Nat.leb 1 i && Nat.leb i 7)) (el_ix FO (lin 200) 7) = [].
Proof. vm_compute. repeat split. Qed.
Theorem el_top_layer_index_151_7 :
  last (el_ix FO (lin 151) 7) 0%nat = 7%nat /\
  filter (fun i => negb (Nat.leb 1 i && Nat.leb i 7)) (el_ix FO (lin 151) 7) = [].
Proof. vm_compute. repeat split. Qed.

(* the slab strengths themselves *)
Theorem el_strengths_200_7 :
  map ent1 (equivalent_layers FO (lin 200) (ones 200) (ones 200) 7) = [29; 28; 29; 28; 29; 28; 29].
Proof. vm_compute. reflexivity. Qed.

(* the whole (N, L) family conserves the total *)
Theorem el_conserved_cases :
  map (fun NL => el_total_strength (fst NL) (snd NL))
      [(200, 7); (151, 7);
       (200, 9); (200, 11); (200, 13); (100, 7); (100, 9); (100, 11); (100, 13); (151, 9); (151, 11); (151, 13)]%nat
  = [200; 151; 200; 200; 200; 100; 100; 100; 100; 151; 151; 151].
Proof. vm_compute. reflexivity. Qed.

Print Assumptions el_ix_le_L_float.
Print Assumptions el_keeps_top_layer_200_7.
Print Assumptions el_top_layer_index_200_7.
Print Assumptions el_conserved_cases.
