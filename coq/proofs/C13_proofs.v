(* C13: Karhunen-Loeve modes of Kolmogorov turbulence on an annulus (model/KL.v): orthonormality of the
   piston-removing basis, of the azimuthal functions, of the radial eigenvector matrices (eigh contract
   as premise), of the synthesised polar functions; selection / pairing / sorting; Cartesian geometry. *)
From Coq Require Import ZArith Reals Bool List Arith Lra Lia.
Require Import AOV.base.Num AOV.base.NumR AOV.base.RpowTac AOV.base.Cplx AOV.model.Mat
               AOV.gen.Gen_kl AOV.model.KL
               AOV.proofs.Dft_proofs AOV.proofs.Mat_proofs AOV.proofs.C13_lemmas.
Import ListNotations.
Local Open Scope R_scope.

Section C13.
Variables (G : R -> R) (K : R -> R -> R).
Local Notation O := (ROps G K).
Local Notation mat := (list (list R)).

(* ========================================================================================== *)
(* A, B : piston_orth                                                                          *)
(* ========================================================================================== *)

Definition rnm (j : nat) : R := 1 / sqrt (INR (S j * S (S j))).
(* closed form of the entries of piston_orth(nr) *)
Definition pso (nr i j : nat) : R :=
  if (S j =? nr)%nat then 1 / sqrt (INR nr) else piece (rnm j) (- INR (S j) * rnm j) j i.

Lemma wf_piston_orth nr : wf_mat nr nr (piston_orth O nr).
Proof. unfold piston_orth. apply wf_map_seq. intros i _. rewrite map_length, seq_length. reflexivity. Qed.

Lemma ent_piston_orth nr i j : (i < nr)%nat -> (j < nr)%nat -> ent (piston_orth O nr) i j = pso nr i j.
Proof.
  intros Hi Hj. unfold ent, piston_orth. rewrite (nth_map_seq _ nr i []) by exact Hi.
  rewrite nth_map_seq by exact Hj. unfold pso, piece, rnm, kz. rops. rewrite <- !INR_IZR_INZ.
  destruct (S j =? nr)%nat; [reflexivity|].
  destruct (i <=? j)%nat; [reflexivity|]. destruct (i =? S j)%nat; [|reflexivity]. ring.
Qed.

Lemma rnm_sqr j : rnm j * rnm j = 1 / (INR (S j) * INR (S (S j))).
Proof.
  unfold rnm. rewrite <- mult_INR.
  assert (H : 0 < INR (S j * S (S j))) by (apply lt_0_INR; lia).
  assert (Hs : 0 < sqrt (INR (S j * S (S j)))) by (apply sqrt_lt_R0; exact H).
  rewrite <- (sqrt_sqrt (INR (S j * S (S j)))) at 3 by lra. field. lra.
Qed.

Lemma inv_sqrt_sqr n : (0 < n)%nat -> INR n * (1 / sqrt (INR n) * (1 / sqrt (INR n))) = 1.
Proof.
  intros Hn. assert (H : 0 < INR n) by (apply lt_0_INR; lia).
  assert (Hs : 0 < sqrt (INR n)) by (apply sqrt_lt_R0; exact H).
  rewrite <- (sqrt_sqrt (INR n)) at 1 by lra. field. lra.
Qed.

Lemma pso_gram_le nr a b : (a <= b)%nat -> (b < nr)%nat ->
  rsum (fun i => pso nr i a * pso nr i b) nr = if (a =? b)%nat then 1 else 0.
Proof.
  intros Hab Hb. unfold pso.
  destruct (Nat.eqb_spec (S b) nr) as [Eb|Eb].
  - destruct (Nat.eqb_spec (S a) nr) as [Ea|Ea].
    + replace (a =? b)%nat with true by (symmetry; apply Nat.eqb_eq; lia).
      rewrite rsum_const. apply inv_sqrt_sqr. lia.
    + replace (a =? b)%nat with false by (symmetry; apply Nat.eqb_neq; lia).
      rewrite rsum_piece by lia. rewrite rsum_const. ring.
  - destruct (Nat.eqb_spec (S a) nr) as [Ea|Ea]; [lia|].
    rewrite rsum_piece by lia.
    destruct (Nat.eqb_spec a b) as [->|Hne].
    + rewrite (rsum_ext _ (fun _ => rnm b) (S b)).
      2:{ intros i Hi. unfold piece. destruct (Nat.leb_spec i b); [reflexivity|lia]. }
      rewrite rsum_const. unfold piece. destruct (Nat.leb_spec (S b) b); [lia|]. rewrite Nat.eqb_refl.
      transitivity ((INR (S b) + INR (S b) * INR (S b)) * (rnm b * rnm b)); [ring|].
      rewrite rnm_sqr. rewrite (S_INR (S b)).
      assert (0 < INR (S b)) by (apply lt_0_INR; lia). field. lra.
    + rewrite (rsum_ext _ (fun _ => rnm b) (S a)).
      2:{ intros i Hi. unfold piece. destruct (Nat.leb_spec i b); [reflexivity|lia]. }
      rewrite rsum_const. unfold piece. destruct (Nat.leb_spec (S a) b); [|lia]. ring.
Qed.

(* A: the columns of piston_orth(nr) are orthonormal, S^T S = I *)
Theorem piston_orth_orthogonal : forall nr a b, (1 <= nr)%nat -> (a < nr)%nat -> (b < nr)%nat ->
  wf_mat nr nr (piston_orth O nr) /\
  rsum (fun i => ent (piston_orth O nr) i a * ent (piston_orth O nr) i b) nr
  = if (a =? b)%nat then 1 else 0.
Proof.
  intros nr a b Hnr Ha Hb. split; [apply wf_piston_orth|].
  rewrite (rsum_ext _ (fun i => pso nr i a * pso nr i b)).
  2:{ intros i Hi. rewrite !ent_piston_orth by assumption. reflexivity. }
  destruct (Nat.le_ge_cases a b) as [H|H].
  - apply pso_gram_le; assumption.
  - rewrite (rsum_ext _ (fun i => pso nr i b * pso nr i a)) by (intros; ring).
    rewrite Nat.eqb_sym. apply pso_gram_le; assumption.
Qed.

(* B: every column but the last sums to zero; the last column is the constant 1/sqrt(nr) *)
Theorem piston_orth_columns_zero_sum : forall nr j, (S j < nr)%nat ->
  rsum (fun i => ent (piston_orth O nr) i j) nr = 0.
Proof.
  intros nr j Hj.
  rewrite (rsum_ext _ (fun i => piece (rnm j) (- INR (S j) * rnm j) j i * 1)).
  2:{ intros i Hi. rewrite ent_piston_orth by lia. unfold pso.
      destruct (Nat.eqb_spec (S j) nr); [lia|]. ring. }
  rewrite rsum_piece by exact Hj. rewrite rsum_const. ring.
Qed.

Theorem piston_orth_last_column_const : forall nr i, (i < nr)%nat ->
  ent (piston_orth O nr) i (nr - 1) = 1 / sqrt (INR nr).
Proof.
  intros nr i Hi. rewrite ent_piston_orth by lia. unfold pso.
  destruct (Nat.eqb_spec (S (nr - 1)) nr); [reflexivity|lia].
Qed.

(* rows: S S^T = I (direct proof by telescoping) *)
Lemma pso_row_gram_le nr i k : (i <= k)%nat -> (k < nr)%nat ->
  rsum (fun j => pso nr i j * pso nr k j) nr = if (i =? k)%nat then 1 else 0.
Proof.
  intros Hik Hk. destruct nr as [|m]; [lia|].
  assert (Hm : 0 < INR (S m)) by (apply lt_0_INR; lia).
  cbn [rsum]. unfold pso at 3 4. rewrite Nat.eqb_refl.
  set (g1 := fun j => if (k <=? j)%nat then rnm j * rnm j else 0).
  set (g2 := fun j => if (k =? S j)%nat then piece (rnm j) (- INR (S j) * rnm j) j i * (- INR (S j) * rnm j) else 0).
  rewrite (rsum_ext _ (fun j => g1 j + g2 j) m).
  2:{ intros j Hj. unfold pso, g1, g2. destruct (Nat.eqb_spec (S j) (S m)); [lia|].
      unfold piece at 2. destruct (Nat.leb_spec k j).
      - unfold piece. destruct (Nat.leb_spec i j); [|lia]. destruct (Nat.eqb_spec k (S j)); [lia|]. ring.
      - destruct (Nat.eqb_spec k (S j)); ring. }
  rewrite rsum_add. unfold g1. rewrite (rsum_from (fun j => rnm j * rnm j) k m) by lia.
  rewrite (rsum_ext _ (fun j => 1 / (INR (S (k + j)) * INR (S (S (k + j)))))) by (intros; apply rnm_sqr).
  rewrite rsum_telescope. replace (k + (m - k))%nat with m by lia.
  assert (Hk1 : 0 < INR (S k)) by (apply lt_0_INR; lia).
  assert (Hsq : 1 / sqrt (INR (S m)) * (1 / sqrt (INR (S m))) = 1 / INR (S m)).
  { pose proof (inv_sqrt_sqr (S m) ltac:(lia)) as Hq. apply (Rmult_eq_reg_l (INR (S m))); [|lra].
    rewrite Hq. field. lra. }
  rewrite Hsq.
  destruct k as [|k'].
  - rewrite (rsum_zero_ext g2) by (intros j Hj; unfold g2; reflexivity).
    replace i with 0%nat by lia. cbn [Nat.eqb]. change (INR 1) with 1. field. lra.
  - rewrite (rsum_single g2 m k'); [|lia|].
    2:{ intros j Hj Hne. unfold g2. destruct (Nat.eqb_spec (S k') (S j)); [lia|reflexivity]. }
    unfold g2. rewrite Nat.eqb_refl. unfold piece.
    assert (Hk0 : 0 < INR (S k')) by (apply lt_0_INR; lia).
    destruct (Nat.eqb_spec i (S k')) as [->|Hne].
    + destruct (Nat.leb_spec (S k') k'); [lia|].
      transitivity (1 / INR (S (S k')) - 1 / INR (S m) + INR (S k') * INR (S k') * (rnm k' * rnm k') + 1 / INR (S m)); [ring|].
      rewrite rnm_sqr, (S_INR (S k')). field. lra.
    + destruct (Nat.leb_spec i k'); [|lia].
      transitivity (1 / INR (S (S k')) - 1 / INR (S m) - INR (S k') * (rnm k' * rnm k') + 1 / INR (S m)); [ring|].
      rewrite rnm_sqr, (S_INR (S k')). field. lra.
Qed.

Theorem piston_orth_rows_orthogonal : forall nr i k, (1 <= nr)%nat -> (i < nr)%nat -> (k < nr)%nat ->
  rsum (fun j => ent (piston_orth O nr) i j * ent (piston_orth O nr) k j) nr
  = if (i =? k)%nat then 1 else 0.
Proof.
  intros nr i k Hnr Hi Hk.
  rewrite (rsum_ext _ (fun j => pso nr i j * pso nr k j)).
  2:{ intros j Hj. rewrite !ent_piston_orth by assumption. reflexivity. }
  destruct (Nat.le_ge_cases i k) as [H|H].
  - apply pso_row_gram_le; assumption.
  - rewrite (rsum_ext _ (fun j => pso nr k j * pso nr i j)) by (intros; ring).
    rewrite Nat.eqb_sym. apply pso_row_gram_le; assumption.
Qed.

(* ========================================================================================== *)
(* C : azimuthal functions                                                                     *)
(* ========================================================================================== *)

(* azimuthal frequency of row i: rows 2m-1 (cos) and 2m (sin) both have frequency m; row 0 is the constant *)
Definition az_freq (i : nat) : nat := ((i + 1) / 2)%nat.
Definition az_is_cos (i : nat) : bool := (i =? 0)%nat || Nat.odd i.

Lemma wf_azimuthal nord npp : wf_mat (S nord) npp (azimuthal O nord npp).
Proof. unfold azimuthal. apply wf_map_seq. intros i _. rewrite map_length, seq_length. reflexivity. Qed.

Lemma az_class i :
  (i = 0%nat /\ az_is_cos i = true /\ az_freq i = 0%nat) \/
  (exists q, i = (2 * q + 1)%nat /\ az_is_cos i = true /\ az_freq i = S q /\ (i / 2 + 1 = S q)%nat /\ Nat.odd i = true) \/
  (exists q, i = (2 * q + 2)%nat /\ az_is_cos i = false /\ az_freq i = S q /\ (i / 2 = S q)%nat /\ Nat.odd i = false).
Proof.
  destruct (nat_3cases i) as [->|[[q ->]|[q ->]]].
  - left. repeat apply conj; reflexivity.
  - right; left. exists q. unfold az_is_cos, az_freq. rewrite odd_2q1.
    replace (2 * q + 1 + 1)%nat with (2 * (S q) + 0)%nat by lia. rewrite !div2_rem by lia.
    repeat apply conj; try reflexivity; try lia.
  - right; right. exists q.
    assert (H1 : ((2 * q + 2 + 1) / 2 = S q)%nat)
      by (replace (2 * q + 2 + 1)%nat with (2 * (S q) + 1)%nat by lia; apply div2_rem; lia).
    assert (H2 : ((2 * q + 2) / 2 = S q)%nat)
      by (replace (2 * q + 2)%nat with (2 * (S q) + 0)%nat by lia; apply div2_rem; lia).
    unfold az_is_cos, az_freq. rewrite odd_2q2, H1, H2.
    repeat apply conj; try reflexivity.
    destruct (Nat.eqb_spec (2 * q + 2) 0); [lia|reflexivity].
Qed.

Lemma ent_azimuthal nord npp i t : (i < nord)%nat -> (t < npp)%nat ->
  ent (azimuthal O nord npp) i t
  = if az_is_cos i then cos (INR (az_freq i) * theta npp t) else sin (INR (az_freq i) * theta npp t).
Proof.
  intros Hi Ht. unfold ent, azimuthal. rewrite (nth_map_seq _ (S nord) i []) by lia.
  rewrite nth_map_seq by exact Ht. unfold kz, two, theta. rops. rewrite <- !INR_IZR_INZ.
  destruct (Nat.ltb_spec i nord) as [_|Hc]; [|lia].
  destruct (az_class i) as [[-> [Hc Hf]]|[[q [Hq [Hc [Hf [Hd Ho]]]]]|[q [Hq [Hc [Hf [Hd Ho]]]]]]].
  - cbn [Nat.eqb az_is_cos orb]. rewrite Hf. cbn [INR]. rewrite Rmult_0_l, cos_0. reflexivity.
  - rewrite Hc, Hf, Ho, Hd. destruct (Nat.eqb_spec i 0); [lia|]. reflexivity.
  - rewrite Hc, Hf, Ho, Hd. destruct (Nat.eqb_spec i 0); [lia|]. reflexivity.
Qed.

(* discrete orthogonality of the azimuthal rows (frequencies must not alias: f_a + f_b < npp) *)
Theorem azimuthal_orthogonal : forall nord npp a b,
  (1 <= npp)%nat -> (a < nord)%nat -> (b < nord)%nat -> (az_freq a + az_freq b < npp)%nat ->
  / INR npp * rsum (fun t => ent (azimuthal O nord npp) a t * ent (azimuthal O nord npp) b t) npp
  = if (a =? b)%nat then (if (a =? 0)%nat then 1 else 1 / 2) else 0.
Proof.
  intros nord npp a b Hnpp Ha Hb Hal.
  assert (HN : 0 < INR npp) by (apply lt_0_INR; lia).
  rewrite (rsum_ext _ (fun t =>
     (if az_is_cos a then cos (INR (az_freq a) * theta npp t) else sin (INR (az_freq a) * theta npp t)) *
     (if az_is_cos b then cos (INR (az_freq b) * theta npp t) else sin (INR (az_freq b) * theta npp t)))).
  2:{ intros t Ht. rewrite !ent_azimuthal by assumption. reflexivity. }
  destruct (az_class a) as [[Ea [Ca Fa]]|[[qa [Ea [Ca [Fa _]]]]|[qa [Ea [Ca [Fa _]]]]]];
  destruct (az_class b) as [[Eb [Cb Fb]]|[[qb [Eb [Cb [Fb _]]]]|[qb [Eb [Cb [Fb _]]]]]];
  rewrite Ca, Cb;
  [ rewrite (cc_sum G K) by exact Hal | rewrite (cc_sum G K) by exact Hal
  | rewrite (rsum_ext _ (fun t => sin (INR (az_freq b) * theta npp t) * cos (INR (az_freq a) * theta npp t))) by (intros; ring);
    rewrite (sc_sum G K) by lia
  | rewrite (cc_sum G K) by exact Hal | rewrite (cc_sum G K) by exact Hal
  | rewrite (rsum_ext _ (fun t => sin (INR (az_freq b) * theta npp t) * cos (INR (az_freq a) * theta npp t))) by (intros; ring);
    rewrite (sc_sum G K) by lia
  | rewrite (sc_sum G K) by lia | rewrite (sc_sum G K) by lia
  | rewrite (ss_sum G K) by exact Hal ];
  rewrite ?Fa, ?Fb;
  repeat match goal with |- context [(?x =? ?y)%nat] => destruct (Nat.eqb_spec x y); try lia end;
  try (field; lra).
Qed.

(* rows a >= 1 have zero mean over the npp azimuthal samples *)
Theorem azimuthal_zero_mean : forall nord npp a,
  (1 <= a)%nat -> (a < nord)%nat -> (az_freq a < npp)%nat ->
  rsum (fun t => ent (azimuthal O nord npp) a t) npp = 0.
Proof.
  intros nord npp a H1 Ha Hal.
  rewrite (rsum_ext _ (fun t =>
     if az_is_cos a then cos (INR (az_freq a) * theta npp t) else sin (INR (az_freq a) * theta npp t))).
  2:{ intros t Ht. rewrite ent_azimuthal by (try assumption; lia). reflexivity. }
  destruct (az_class a) as [[Ea _]|[[qa [Ea [Ca [Fa _]]]]|[qa [Ea [Ca [Fa _]]]]]]; [lia| |]; rewrite Ca.
  - rewrite (cos_sum G K) by exact Hal. rewrite Fa. reflexivity.
  - apply (sin_sum G K). exact Hal.
Qed.

Theorem azimuthal_row0_const : forall nord npp t, (t < npp)%nat -> ent (azimuthal O nord npp) 0 t = 1.
Proof.
  intros nord npp t Ht. unfold ent, azimuthal. rewrite (nth_map_seq _ (S nord) 0%nat []) by lia.
  rewrite nth_map_seq by exact Ht. reflexivity.
Qed.

(* the no-aliasing bound is tight: with npp = 2 samples the frequency-1 rows (2 * 1 = npp) are not normalised
   to 1/2 (cos row) and vanish identically (sin row) *)
Fact azimuthal_alias_tight :
  / INR 2 * rsum (fun t => ent (azimuthal O 3 2) 1 t * ent (azimuthal O 3 2) 1 t) 2 = 1 /\
  (forall t, (t < 2)%nat -> ent (azimuthal O 3 2) 2 t = 0).
Proof.
  assert (T0 : theta 2 0 = 0) by (unfold theta; cbn [INR]; field).
  assert (T1 : theta 2 1 = PI) by (unfold theta; cbn [INR]; field).
  split.
  - cbn [rsum]. rewrite !ent_azimuthal by lia.
    change (az_is_cos 1) with true. change (az_freq 1) with 1%nat. cbn iota.
    rewrite T0, T1. change (INR 1) with 1. rewrite !Rmult_1_l, cos_0, cos_PI.
    change (INR 2) with 2. field.
  - intros t Ht. rewrite ent_azimuthal by lia.
    change (az_is_cos 2) with false. change (az_freq 2) with 1%nat. cbn iota.
    change (INR 1) with 1. rewrite Rmult_1_l.
    destruct t as [|[|t]]; [rewrite T0; apply sin_0 | rewrite T1; apply sin_PI | lia].
Qed.

(* ========================================================================================== *)
(* F : selection, cos/sin pairing, sorting                                                      *)
(* ========================================================================================== *)
Local Open Scope nat_scope.

(* F1: enough sorted indices => exactly nfunc output indices *)
Theorem oind_length : forall nr nfunc sorted,
  nfunc <= length sorted -> length (oind nr nfunc sorted) = nfunc.
Proof.
  intros nr nfunc sorted Hs. unfold oind.
  destruct (oind_struct nr nfunc sorted) as [m [_ [H2 [_ H4]]]]. rewrite H2, firstn_length.
  specialize (H4 Hs). lia.
Qed.

(* F2: the untruncated list is the first m sorted entries, each order-0 entry once and each entry of order
   t >= 1 twice in CONSECUTIVE positions k, k+1; every consumed entry starts below nfunc (only the second
   member of the last pair can be cut by the truncation); the two members of a pair get the azimuthal rows
   2t-1 (cos, at the odd position) and 2t (sin, at the even position); order-0 entries get row 0. *)
Theorem oind_pairs : forall nr nfunc sorted, 0 < nr ->
  let oi := oind nr nfunc sorted in
  exists m, m <= length sorted /\
    pair_up (S nfunc) nr nfunc sorted [] = expand nr (firstn m sorted) /\
    forall j, j < m ->
      let k := length (expand nr (firstn j sorted)) in
      let x := nth j sorted 0 in
      let t := x / nr in
      k < nfunc /\ nth k oi 0 = x /\ nth k (tord nr oi) 0 = t /\ nth k (pio nr oi) 0 = x mod nr /\
      (x < nr -> t = 0 /\ nth k (oord nr oi) 0 = 0) /\
      (nr <= x -> 1 <= t /\
         nth k (oord nr oi) 0 = (if Nat.odd k then 2 * t - 1 else 2 * t) /\
         (S k < nfunc ->
            nth (S k) oi 0 = x /\ nth (S k) (tord nr oi) 0 = t /\ nth (S k) (pio nr oi) 0 = x mod nr /\
            nth (S k) (oord nr oi) 0 = (if Nat.odd k then 2 * t else 2 * t - 1))).
Proof.
  intros nr nfunc sorted Hnr oi.
  destruct (oind_struct nr nfunc sorted) as [m [H1 [H2 [H3 _]]]].
  exists m. split; [exact H1|]. split; [exact H2|].
  intros j Hj k x t. pose proof (H3 j Hj) as Hk. fold k in Hk.
  destruct (expand_at nr sorted j m Hj H1) as [E1 [E2 E3]]. fold k in E1, E2, E3. fold x in E1, E3.
  assert (Hoi : oi = firstn nfunc (expand nr (firstn m sorted))) by (unfold oi, oind; rewrite H2; reflexivity).
  assert (Hlen : length oi = Nat.min nfunc (length (expand nr (firstn m sorted))))
    by (rewrite Hoi; apply firstn_length).
  assert (Hkx : nth k oi 0 = x) by (rewrite Hoi, nth_firstn' by exact Hk; exact E1).
  assert (Hkl : k < length oi) by lia.
  split; [exact Hk|]. split; [exact Hkx|].
  split; [unfold tord; rewrite (nth_map_lt (fun y => y / nr) oi k 0 0 Hkl), Hkx; reflexivity|].
  split; [unfold pio; rewrite (nth_map_lt (fun y => y mod nr) oi k 0 0 Hkl), Hkx; reflexivity|].
  split.
  - intros Hx. assert (Ht : t = 0) by (apply Nat.div_small; exact Hx). split; [exact Ht|].
    rewrite nth_oord by exact Hkl. rewrite Hkx. fold t. rewrite Ht. reflexivity.
  - intros Hx. assert (Ht : 1 <= t) by (apply Nat.div_le_lower_bound; lia).
    split; [exact Ht|]. split.
    + rewrite nth_oord by exact Hkl. rewrite Hkx. fold t.
      destruct (Nat.leb_spec 1 t); [|lia]. destruct (Nat.odd k); cbn [andb]; lia.
    + intros Hsk. destruct (E3 Hx) as [E4 E5].
      assert (Hkx' : nth (S k) oi 0 = x) by (rewrite Hoi, nth_firstn' by exact Hsk; exact E4).
      assert (Hkl' : S k < length oi) by lia.
      split; [exact Hkx'|].
      split; [unfold tord; rewrite (nth_map_lt (fun y => y / nr) oi (S k) 0 0 Hkl'), Hkx'; reflexivity|].
      split; [unfold pio; rewrite (nth_map_lt (fun y => y mod nr) oi (S k) 0 0 Hkl'), Hkx'; reflexivity|].
      rewrite nth_oord by exact Hkl'. rewrite Hkx'. fold t.
      destruct (Nat.leb_spec 1 t); [|lia]. rewrite Nat.odd_succ, <- Nat.negb_odd.
      destruct (Nat.odd k); cbn [andb negb]; lia.
Qed.

(* the cos row 2t-1 and the sin row 2t have the same azimuthal frequency t *)
Lemma az_freq_pair t : 1 <= t -> az_freq (2 * t - 1) = t /\ az_freq (2 * t) = t /\
  az_is_cos (2 * t - 1) = true /\ az_is_cos (2 * t) = false.
Proof.
  intros Ht. destruct t as [|q]; [lia|].
  destruct (az_class (2 * S q - 1)) as [[E _]|[[q1 [E [C [F _]]]]|[q1 [E [C [F _]]]]]]; [lia| |lia].
  destruct (az_class (2 * S q)) as [[E' _]|[[q2 [E' [C' [F' _]]]]|[q2 [E' [C' [F' _]]]]]]; [lia|lia|].
  rewrite F, F', C, C'. repeat apply conj; try reflexivity; lia.
Qed.

(* link with E: the azimuthal row oord[k] chosen for output k has frequency tord[k] *)
Theorem oord_freq_is_tord : forall nr oi k, k < length oi ->
  az_freq (nth k (oord nr oi) 0) = nth k (tord nr oi) 0.
Proof.
  intros nr oi k Hk. rewrite nth_oord by exact Hk. unfold tord.
  rewrite (nth_map_lt (fun y => y / nr) oi k 0 0 Hk). set (t := nth k oi 0 / nr).
  destruct (Nat.leb_spec 1 t) as [Ht|Ht].
  - destruct (az_freq_pair t Ht) as [F1 [F2 _]]. destruct (Nat.odd k); cbn [andb].
    + exact F1.
    + rewrite Nat.sub_0_r. exact F2.
  - replace t with 0 by lia. reflexivity.
Qed.

(* every output index comes from the sorted list *)
Lemma oind_in_sorted nr nfunc sorted i : i < length (oind nr nfunc sorted) ->
  In (nth i (oind nr nfunc sorted) 0) sorted.
Proof.
  intros Hi. assert (Hin : In (nth i (oind nr nfunc sorted) 0) (oind nr nfunc sorted)) by (apply nth_In; exact Hi).
  unfold oind in Hin at 2. destruct (oind_struct nr nfunc sorted) as [m [_ [H2 _]]]. rewrite H2 in Hin.
  apply in_firstn, in_expand, in_firstn in Hin. exact Hin.
Qed.

(* argsort returns a permutation (no duplicates) => distinct outputs have distinct (azimuthal row, radial
   index) descriptors: the modes are pairwise different functions *)
Theorem oind_descriptors_injective : forall nr nfunc sorted i i', 0 < nr -> NoDup sorted ->
  let oi := oind nr nfunc sorted in
  i < length oi -> i' < length oi ->
  nth i (oord nr oi) 0 = nth i' (oord nr oi) 0 -> nth i (pio nr oi) 0 = nth i' (pio nr oi) 0 -> i = i'.
Proof.
  intros nr nfunc sorted i i' Hnr Hnd oi Hi Hi' Ho Hp.
  assert (main : forall i i', i < i' -> i' < length oi ->
            nth i (oord nr oi) 0 = nth i' (oord nr oi) 0 -> nth i (pio nr oi) 0 = nth i' (pio nr oi) 0 -> False).
  { clear i i' Hi Hi' Ho Hp. intros i i' Hlt Hi' Ho Hp.
    assert (Hi : i < length oi) by lia.
    assert (Ht : nth i (tord nr oi) 0 = nth i' (tord nr oi) 0)
      by (rewrite <- !oord_freq_is_tord by assumption; rewrite Ho; reflexivity).
    unfold tord in Ht. rewrite (nth_map_lt (fun y => y / nr) oi i 0 0 Hi) in Ht.
    rewrite (nth_map_lt (fun y => y / nr) oi i' 0 0 Hi') in Ht.
    unfold pio in Hp. rewrite (nth_map_lt (fun y => y mod nr) oi i 0 0 Hi) in Hp.
    rewrite (nth_map_lt (fun y => y mod nr) oi i' 0 0 Hi') in Hp.
    assert (Hx : nth i oi 0 = nth i' oi 0).
    { rewrite (Nat.div_mod (nth i oi 0) nr) by lia. rewrite (Nat.div_mod (nth i' oi 0) nr) by lia.
      rewrite Ht, Hp. reflexivity. }
    destruct (oind_struct nr nfunc sorted) as [m [_ [H2 _]]].
    assert (Hoi : oi = firstn nfunc (expand nr (firstn m sorted))) by (unfold oi, oind; rewrite H2; reflexivity).
    assert (Hlen : length oi = Nat.min nfunc (length (expand nr (firstn m sorted))))
      by (rewrite Hoi; apply firstn_length).
    pose proof Hx as Hx'. rewrite Hoi in Hx'. rewrite !nth_firstn' in Hx' by lia.
    destruct (expand_NoDup_positions nr (firstn m sorted) (NoDup_firstn' sorted m Hnd) i i' Hlt ltac:(lia) Hx')
      as [E1 E2].
    subst i'. rewrite !nth_oord in Ho by assumption. rewrite <- Hx in Ho.
    assert (E3 : nr <= nth i oi 0) by (rewrite Hoi, nth_firstn' by lia; exact E2).
    assert (Ht1 : 1 <= nth i oi 0 / nr) by (apply Nat.div_le_lower_bound; lia).
    destruct (Nat.leb_spec 1 (nth i oi 0 / nr)); [|lia].
    rewrite Nat.odd_succ, <- Nat.negb_odd in Ho. destruct (Nat.odd i); cbn [andb negb] in Ho; lia. }
  destruct (Nat.lt_trichotomy i i') as [H|[H|H]]; [exfalso|exact H|exfalso].
  - apply (main i i'); assumption.
  - apply (main i' i); try assumption; symmetry; assumption.
Qed.

Local Close Scope nat_scope.

(* F3: argsort contract => output variances non-increasing; the two members of a pair have equal variance *)
Theorem evals_sorted : forall (evs : list R) nr nfunc sorted,
  (forall k, (S k < length sorted)%nat ->
     nth (nth (S k) sorted 0%nat) evs 0 <= nth (nth k sorted 0%nat) evs 0) ->
  forall k, (S k < length (oind nr nfunc sorted))%nat ->
    nth (S k) (evals_out O evs (oind nr nfunc sorted)) 0 <= nth k (evals_out O evs (oind nr nfunc sorted)) 0.
Proof.
  intros evs nr nfunc sorted Hs k Hk.
  set (ev := fun x : nat => nth x evs 0).
  assert (Hd : descf ev (oind nr nfunc sorted)).
  { unfold oind. destruct (oind_struct nr nfunc sorted) as [m [_ [H2 _]]]. rewrite H2.
    apply descf_firstn, descf_expand, descf_firstn, descf_of_nth. exact Hs. }
  unfold evals_out.
  rewrite (nth_map_lt _ (oind nr nfunc sorted) (S k) 0 0%nat) by exact Hk.
  rewrite (nth_map_lt _ (oind nr nfunc sorted) k 0 0%nat) by lia.
  apply (descf_nth ev _ Hd k Hk).
Qed.

Theorem evals_pair_equal : forall (evs : list R) nr nfunc sorted k,
  (S k < length (oind nr nfunc sorted))%nat ->
  nth k (oind nr nfunc sorted) 0%nat = nth (S k) (oind nr nfunc sorted) 0%nat ->
  nth k (evals_out O evs (oind nr nfunc sorted)) 0 = nth (S k) (evals_out O evs (oind nr nfunc sorted)) 0.
Proof.
  intros evs nr nfunc sorted k Hk He. unfold evals_out.
  rewrite (nth_map_lt _ (oind nr nfunc sorted) (S k) 0 0%nat) by exact Hk.
  rewrite (nth_map_lt _ (oind nr nfunc sorted) k 0 0%nat) by lia.
  rewrite He. reflexivity.
Qed.

(* ========================================================================================== *)
(* G : Cartesian geometry and bilinear resampling                                               *)
(* ========================================================================================== *)

Lemma car_coord_eq ncp k :
  car_coord O ncp k = (INR k - 5 / 10 * INR (ncp - 1)) / (5 / 10 * INR ncp).
Proof. unfold car_coord, kz. rops. rewrite <- !INR_IZR_INZ. reflexivity. Qed.

Theorem pupil_is_annulus_indicator : forall ncp ri i j, (i < ncp)%nat -> (j < ncp)%nat ->
  let x := car_coord O ncp j in
  let y := car_coord O ncp i in
  (ri * ri <= x * x + y * y <= 1 -> ent (pupil O ncp ri) i j = 1) /\
  (~ (ri * ri <= x * x + y * y <= 1) -> ent (pupil O ncp ri) i j = 0).
Proof.
  intros ncp ri i j Hi Hj x y. unfold ent, pupil. rewrite (nth_map_seq _ ncp i []) by exact Hi.
  rewrite nth_map_seq by exact Hj. unfold pupil_px. fold x. fold y. rops.
  destruct (Rleb (ri * ri) (x * x + y * y)) eqn:E1; destruct (Rleb (x * x + y * y) 1) eqn:E2; cbn [andb].
  - split; [reflexivity|]. intros Hn. exfalso. apply Hn. apply Rleb_true in E1. apply Rleb_true in E2. lra.
  - split; [|reflexivity]. intros [_ Hc]. apply Rleb_true in Hc. congruence.
  - split; [|reflexivity]. intros [Hc _]. apply Rleb_true in Hc. congruence.
  - split; [|reflexivity]. intros [Hc _]. apply Rleb_true in Hc. congruence.
Qed.

Theorem masked_zero_outside : forall pol ncp ri i j r c, (i < ncp)%nat -> (j < ncp)%nat ->
  let x := car_coord O ncp j in
  let y := car_coord O ncp i in
  ~ (ri * ri <= x * x + y * y <= 1) ->
  bilinear O pol r c * ent (pupil O ncp ri) i j = 0.
Proof.
  intros pol ncp ri i j r c Hi Hj x y Hout.
  destruct (pupil_is_annulus_indicator ncp ri i j Hi Hj) as [_ H0]. rewrite (H0 Hout). ring.
Qed.

Lemma Int_part_IZR z : Int_part (IZR z) = z.
Proof.
  unfold Int_part. assert (H : (z + 1)%Z = up (IZR z)).
  { apply tech_up; rewrite plus_IZR; lra. }
  rewrite <- H. lia.
Qed.

Lemma frac_bounds r : 0 <= r - IZR (Int_part r) < 1.
Proof. destruct (base_Int_part r) as [H1 H2]. lra. Qed.

Lemma convex2 f a b m M : 0 <= f <= 1 -> m <= a <= M -> m <= b <= M -> m <= (1 - f) * a + f * b <= M.
Proof.
  intros Hf Ha Hb.
  assert (0 <= (1 - f) * (a - m)) by (apply Rmult_le_pos; lra).
  assert (0 <= f * (b - m)) by (apply Rmult_le_pos; lra).
  assert (0 <= (1 - f) * (M - a)) by (apply Rmult_le_pos; lra).
  assert (0 <= f * (M - b)) by (apply Rmult_le_pos; lra).
  split; lra.
Qed.

(* the four neighbour samples and the weights of the order-1 map_coordinates with mode='nearest' *)
Definition bl_at (pol : mat) (i j : Z) : R :=
  ent pol (clampi i (length pol)) (clampi j (length (hd [] pol))).

Theorem bilinear_formula : forall pol r c,
  let r0 := Int_part r in let c0 := Int_part c in
  let fr := r - IZR r0 in let fc := c - IZR c0 in
  bilinear O pol r c
  = (1 - fr) * ((1 - fc) * bl_at pol r0 c0 + fc * bl_at pol r0 (c0 + 1))
    + fr * ((1 - fc) * bl_at pol (r0 + 1) c0 + fc * bl_at pol (r0 + 1) (c0 + 1))
  /\ 0 <= fr < 1 /\ 0 <= fc < 1.
Proof.
  intros pol r c r0 c0 fr fc. split; [|split; apply frac_bounds].
  unfold bilinear. rops. unfold Rfloor. rewrite !Int_part_IZR. reflexivity.
Qed.

Theorem bilinear_convex : forall pol r c m M,
  let r0 := Int_part r in let c0 := Int_part c in
  let v00 := bl_at pol r0 c0 in let v01 := bl_at pol r0 (c0 + 1) in
  let v10 := bl_at pol (r0 + 1) c0 in let v11 := bl_at pol (r0 + 1) (c0 + 1) in
  m <= v00 <= M -> m <= v01 <= M -> m <= v10 <= M -> m <= v11 <= M ->
  m <= bilinear O pol r c <= M.
Proof.
  intros pol r c m M r0 c0 v00 v01 v10 v11 H00 H01 H10 H11.
  destruct (bilinear_formula pol r c) as [Hf [Hr Hc]]. rewrite Hf.
  fold r0 c0 in Hr, Hc |- *. fold v00 v01 v10 v11.
  apply convex2; [lra | apply convex2; [lra | assumption | assumption]
                      | apply convex2; [lra | assumption | assumption]].
Qed.

Lemma clampi_lt z n : (0 < n)%nat -> (clampi z n < n)%nat.
Proof. intros Hn. unfold clampi. lia. Qed.

(* all samples of a well-formed polar array within [m, M] => every resampled value within [m, M] *)
Theorem bilinear_in_range : forall nrw ncl pol r c m M,
  wf_mat nrw ncl pol -> (0 < nrw)%nat -> (0 < ncl)%nat ->
  (forall i j, (i < nrw)%nat -> (j < ncl)%nat -> m <= ent pol i j <= M) ->
  m <= bilinear O pol r c <= M.
Proof.
  intros nrw ncl pol r c m M Hwf Hr Hc Hall.
  assert (Hl : length pol = nrw) by (destruct Hwf; assumption).
  assert (Hh : length (hd [] pol) = ncl).
  { destruct pol as [|row pol']; [simpl in Hl; lia|]. cbn [hd].
    apply (wf_nth_length nrw ncl (row :: pol') 0 Hwf Hr). }
  apply bilinear_convex; unfold bl_at; rewrite Hl, Hh; apply Hall; apply clampi_lt; assumption.
Qed.

Theorem bilinear_exact_on_grid : forall pol zi zj,
  bilinear O pol (IZR zi) (IZR zj) = bl_at pol zi zj.
Proof.
  intros pol zi zj. destruct (bilinear_formula pol (IZR zi) (IZR zj)) as [Hf _]. rewrite Hf.
  rewrite !Int_part_IZR. ring.
Qed.

Lemma bl_at_inside pol zi zj : (0 <= zi < Z.of_nat (length pol))%Z -> (0 <= zj < Z.of_nat (length (hd [] pol)))%Z ->
  bl_at pol zi zj = ent pol (Z.to_nat zi) (Z.to_nat zj).
Proof. intros Hi Hj. unfold bl_at, clampi. f_equal; lia. Qed.

(* ========================================================================================== *)
(* D : radial eigenvector matrices (numpy.linalg.eigh contract as premise)                      *)
(* ========================================================================================== *)

Lemma ent_map_map (f : R -> R) (M : mat) i j : f 0 = 0 -> ent (map (map f) M) i j = f (ent M i j).
Proof.
  intros Hf. unfold ent. change (@nil R) with (map f []) at 1. rewrite map_nth.
  rewrite <- Hf at 1. apply map_nth.
Qed.

(* sum_k (sum_j u_j S_kj)(sum_j' w_j' S_kj') = sum_j u_j w_j when the columns of S are orthonormal *)
Lemma gram_transfer n (u w : nat -> R) (S : nat -> nat -> R) :
  (forall j j', (j < n)%nat -> (j' < n)%nat ->
     rsum (fun k => S k j * S k j') n = if (j =? j')%nat then 1 else 0) ->
  rsum (fun k => rsum (fun j => u j * S k j) n * rsum (fun j' => w j' * S k j') n) n
  = rsum (fun j => u j * w j) n.
Proof.
  intros HS.
  rewrite (rsum_ext _ (fun k => rsum (fun j => rsum (fun j' => u j * w j' * (S k j * S k j')) n) n) n).
  2:{ intros k Hk. rewrite <- rsum_scal_r. apply rsum_ext. intros j Hj.
      rewrite <- rsum_scal_l. apply rsum_ext. intros j' Hj'. ring. }
  rewrite rsum_exch. apply rsum_ext. intros j Hj.
  rewrite rsum_exch.
  rewrite (rsum_ext _ (fun j' => u j * w j' * (if (j =? j')%nat then 1 else 0)) n).
  2:{ intros j' Hj'. rewrite rsum_scal_l. rewrite HS by assumption. reflexivity. }
  rewrite (rsum_single _ n j Hj).
  - rewrite Nat.eqb_refl. ring.
  - intros j' Hj' Hne. destruct (Nat.eqb_spec j j'); [congruence|]. ring.
Qed.

(* v1 = blockdiag(v0^T, 1) of gkl_fcom *)
Definition v1mat (nr : nat) (v0 : mat) : mat :=
  map (fun i => map (fun j =>
      if Nat.ltb i (nr - 1) && Nat.ltb j (nr - 1) then nth i (nth j v0 []) (nzero O)
      else if Nat.eqb i (nr - 1) && Nat.eqb j (nr - 1) then none O else nzero O) (seq 0 nr)) (seq 0 nr).

Definition v1e (nr : nat) (v0 : mat) (i j : nat) : R :=
  if Nat.ltb i (nr - 1) && Nat.ltb j (nr - 1) then ent v0 j i
  else if Nat.eqb i (nr - 1) && Nat.eqb j (nr - 1) then 1 else 0.

Lemma radial0_unfold nr v0 :
  radial0 O nr v0
  = map (map (fun v => sqrt (INR nr) * v)) (transpose (mmul O (v1mat nr v0) (transpose (piston_orth O nr)))).
Proof.
  unfold radial0, v1mat. apply map_ext. intros row. apply map_ext. intros v.
  unfold kz. rops. rewrite <- INR_IZR_INZ. reflexivity.
Qed.

Lemma wf_v1mat nr v0 : wf_mat nr nr (v1mat nr v0).
Proof. unfold v1mat. apply wf_map_seq. intros i _. rewrite map_length, seq_length. reflexivity. Qed.

Lemma ent_v1mat nr v0 i j : (i < nr)%nat -> (j < nr)%nat -> ent (v1mat nr v0) i j = v1e nr v0 i j.
Proof.
  intros Hi Hj. unfold ent, v1mat. rewrite (nth_map_seq _ nr i []) by exact Hi.
  rewrite nth_map_seq by exact Hj. reflexivity.
Qed.

Lemma wf_radial0 nr v0 : (1 <= nr)%nat -> wf_mat nr nr (radial0 O nr v0).
Proof.
  intros Hnr. rewrite radial0_unfold. apply wf_map_map. apply wf_transpose; [|lia].
  apply (wf_mmul G K nr nr nr); [apply wf_v1mat | apply wf_transpose; [apply wf_piston_orth | lia] | lia].
Qed.

Lemma ent_radial0 nr v0 k a : (1 <= nr)%nat -> (k < nr)%nat -> (a < nr)%nat ->
  ent (radial0 O nr v0) k a = sqrt (INR nr) * rsum (fun j => v1e nr v0 a j * pso nr k j) nr.
Proof.
  intros Hnr Hk Ha. rewrite radial0_unfold. rewrite ent_map_map by ring. f_equal.
  assert (HSt : wf_mat nr nr (transpose (piston_orth O nr)))
    by (apply wf_transpose; [apply wf_piston_orth | lia]).
  assert (Hvs : wf_mat nr nr (mmul O (v1mat nr v0) (transpose (piston_orth O nr))))
    by (apply (wf_mmul G K nr nr nr); [apply wf_v1mat | exact HSt | lia]).
  rewrite (ent_transpose' nr nr _ a k Hvs Ha Hk).
  rewrite (ent_mmul G K nr nr nr) by (try assumption; try apply wf_v1mat; lia).
  apply rsum_ext. intros j Hj. rewrite ent_v1mat by assumption.
  rewrite (ent_transpose' nr nr _ k j (wf_piston_orth nr) Hk Hj). rewrite ent_piston_orth by assumption.
  reflexivity.
Qed.

(* rows of v1 are orthonormal when the columns of v0 are (eigh contract) *)
Lemma v1e_gram nr v0 a b : (1 <= nr)%nat -> (a < nr)%nat -> (b < nr)%nat ->
  (forall a b, (a < nr - 1)%nat -> (b < nr - 1)%nat ->
     rsum (fun j => ent v0 j a * ent v0 j b) (nr - 1) = if (a =? b)%nat then 1 else 0) ->
  rsum (fun j => v1e nr v0 a j * v1e nr v0 b j) nr = if (a =? b)%nat then 1 else 0.
Proof.
  intros Hnr Ha Hb Hv. destruct nr as [|m]; [lia|]. replace (S m - 1)%nat with m in * by lia.
  cbn [rsum]. unfold v1e at 3 4. replace (S m - 1)%nat with m by lia.
  rewrite Nat.ltb_irrefl, !andb_false_r, Nat.eqb_refl, !andb_true_r.
  rewrite (rsum_ext _ (fun j => (if (a <? m)%nat then ent v0 j a else 0) * (if (b <? m)%nat then ent v0 j b else 0)) m).
  2:{ intros j Hj. unfold v1e. replace (S m - 1)%nat with m by lia.
      destruct (Nat.ltb_spec j m) as [_|Hc]; [|lia]. destruct (Nat.eqb_spec j m) as [Hc|_]; [lia|].
      rewrite !andb_true_r, !andb_false_r. reflexivity. }
  destruct (Nat.ltb_spec a m) as [Ha'|Ha']; destruct (Nat.ltb_spec b m) as [Hb'|Hb'].
  - rewrite Hv by assumption. destruct (Nat.eqb_spec a m); [lia|]. ring.
  - rewrite rsum_zero_ext by (intros; ring). destruct (Nat.eqb_spec a m); [lia|].
    destruct (Nat.eqb_spec a b); [lia|]. ring.
  - rewrite rsum_zero_ext by (intros; ring). destruct (Nat.eqb_spec b m); [lia|].
    destruct (Nat.eqb_spec a b); [lia|]. ring.
  - rewrite rsum_zero_ext by (intros; ring). destruct (Nat.eqb_spec a m); [|lia].
    destruct (Nat.eqb_spec b m); [|lia]. destruct (Nat.eqb_spec a b); [|lia]. ring.
Qed.

Lemma sqrt_INR_sqr n : sqrt (INR n) * sqrt (INR n) = INR n.
Proof. apply sqrt_sqrt. apply pos_INR. Qed.

(* D1: order 0.  Premise = eigh contract on v0 (orthonormal columns, V^T V = I, size nr-1).  The nr columns
   of radial0 (the nr-1 piston-free radial functions and the piston itself) are orthonormal for the
   pupil average (1/nr) sum_k . *)
Theorem radial0_orthonormal : forall nr v0, (1 <= nr)%nat ->
  (forall a b, (a < nr - 1)%nat -> (b < nr - 1)%nat ->
     rsum (fun j => ent v0 j a * ent v0 j b) (nr - 1) = if (a =? b)%nat then 1 else 0) ->
  wf_mat nr nr (radial0 O nr v0) /\
  forall a b, (a < nr)%nat -> (b < nr)%nat ->
    / INR nr * rsum (fun k => ent (radial0 O nr v0) k a * ent (radial0 O nr v0) k b) nr
    = if (a =? b)%nat then 1 else 0.
Proof.
  intros nr v0 Hnr Hv. split; [apply wf_radial0; exact Hnr|]. intros a b Ha Hb.
  assert (HN : 0 < INR nr) by (apply lt_0_INR; lia).
  rewrite (rsum_ext _ (fun k => INR nr * (rsum (fun j => v1e nr v0 a j * pso nr k j) nr
                                         * rsum (fun j => v1e nr v0 b j * pso nr k j) nr)) nr).
  2:{ intros k Hk. rewrite !ent_radial0 by assumption. rewrite <- (sqrt_INR_sqr nr) at 3. ring. }
  rewrite rsum_scal_l. rewrite (gram_transfer nr _ _ (fun k j => pso nr k j)).
  - rewrite v1e_gram by assumption. field. lra.
  - intros j j' Hj Hj'. destruct (piston_orth_orthogonal nr j j' Hnr Hj Hj') as [_ Hq].
    rewrite <- Hq. apply rsum_ext. intros k Hk. rewrite !ent_piston_orth by assumption. reflexivity.
Qed.

(* the order-0 radial functions a < nr-1 are piston-free; the last column is the piston (constant 1) *)
Theorem radial0_zero_sum : forall nr v0 a, (1 <= nr)%nat -> (a < nr - 1)%nat ->
  rsum (fun k => ent (radial0 O nr v0) k a) nr = 0.
Proof.
  intros nr v0 a Hnr Ha.
  rewrite (rsum_ext _ (fun k => sqrt (INR nr) * rsum (fun j => v1e nr v0 a j * pso nr k j) nr) nr).
  2:{ intros k Hk. apply ent_radial0; lia. }
  rewrite rsum_scal_l, rsum_exch. rewrite rsum_zero_ext; [ring|]. intros j Hj.
  rewrite rsum_scal_l. destruct (Nat.eq_dec (S j) nr) as [E|E].
  - unfold v1e. replace (j <? nr - 1)%nat with false by (symmetry; apply Nat.ltb_ge; lia).
    replace (a =? nr - 1)%nat with false by (symmetry; apply Nat.eqb_neq; lia).
    rewrite andb_false_r. cbn [andb]. ring.
  - rewrite (rsum_ext _ (fun k => ent (piston_orth O nr) k j) nr)
      by (intros k Hk; rewrite ent_piston_orth by assumption; reflexivity).
    rewrite piston_orth_columns_zero_sum by lia. ring.
Qed.

Theorem radial0_piston_column : forall nr v0 k, (1 <= nr)%nat -> (k < nr)%nat ->
  ent (radial0 O nr v0) k (nr - 1) = 1.
Proof.
  intros nr v0 k Hnr Hk. rewrite ent_radial0 by lia.
  assert (HN : 0 < INR nr) by (apply lt_0_INR; lia).
  rewrite (rsum_single _ nr (nr - 1)%nat) by
    (try lia; intros j Hj Hne; unfold v1e;
     replace (nr - 1 <? nr - 1)%nat with false by (symmetry; apply Nat.ltb_irrefl);
     replace (j =? nr - 1)%nat with false by (symmetry; apply Nat.eqb_neq; lia);
     rewrite andb_false_r; cbn [andb]; ring).
  unfold v1e. rewrite Nat.ltb_irrefl, Nat.eqb_refl. cbn [andb].
  unfold pso. replace (S (nr - 1) =? nr)%nat with true by (symmetry; apply Nat.eqb_eq; lia).
  assert (Hs : 0 < sqrt (INR nr)) by (apply sqrt_lt_R0; exact HN). field. lra.
Qed.

(* D2: order p >= 1.  Premise = eigh contract on vs (orthonormal columns).  (1/nr) sum_k = 2 delta *)
Theorem radialp_orthonormal : forall nr vs, (1 <= nr)%nat -> wf_mat nr nr vs ->
  (forall a b, (a < nr)%nat -> (b < nr)%nat ->
     rsum (fun k => ent vs k a * ent vs k b) nr = if (a =? b)%nat then 1 else 0) ->
  wf_mat nr nr (radialp O nr vs) /\
  forall a b, (a < nr)%nat -> (b < nr)%nat ->
    / INR nr * rsum (fun k => ent (radialp O nr vs) k a * ent (radialp O nr vs) k b) nr
    = if (a =? b)%nat then 2 else 0.
Proof.
  intros nr vs Hnr Hwf Hv. split; [unfold radialp; apply wf_map_map; exact Hwf|].
  intros a b Ha Hb. assert (HN : 0 < INR nr) by (apply lt_0_INR; lia).
  rewrite (rsum_ext _ (fun k => INR (2 * nr) * (ent vs k a * ent vs k b)) nr).
  2:{ intros k Hk. unfold radialp.
      rewrite !(ent_map_map (fun v => nmul O (nsqrt O (kz O (2 * nr))) v)) by (rops; ring).
      unfold kz. rops. rewrite <- INR_IZR_INZ. rewrite <- (sqrt_INR_sqr (2 * nr)) at 3. ring. }
  rewrite rsum_scal_l, Hv by assumption. rewrite mult_INR. change (INR 2) with 2.
  destruct (a =? b)%nat; field; lra.
Qed.

(* ========================================================================================== *)
(* E : the synthesised polar functions                                                          *)
(* ========================================================================================== *)

(* pupil average of a polar array (equal-area radial grid: plain mean) and of a product *)
Definition pupil_avg (nr npp : nat) (F : mat) : R :=
  / (INR nr * INR npp) * rsum (fun k => rsum (fun t => ent F k t) npp) nr.
Definition pupil_inner (nr npp : nat) (F1 F2 : mat) : R :=
  / (INR nr * INR npp) * rsum (fun k => rsum (fun t => ent F1 k t * ent F2 k t) npp) nr.

Definition mcol (M : mat) (q : nat) : list R := map (fun row => nth q row 0) M.

Lemma nth_mcol M q k : nth k (mcol M q) 0 = ent M k q.
Proof.
  unfold mcol, ent. destruct (lt_dec k (length M)) as [H|H].
  - apply (nth_map_lt (fun row => nth q row 0) M k 0 []). exact H.
  - rewrite (nth_overflow (map _ M)) by (rewrite map_length; lia).
    rewrite (nth_overflow M) by lia. rewrite nth_nil. reflexivity.
Qed.

Lemma ent_sfi rc ar k t : ent (sfi O rc ar) k t = nth k rc 0 * nth t ar 0.
Proof.
  unfold ent, sfi. destruct (lt_dec k (length rc)) as [Hk|Hk].
  - rewrite (nth_map_lt _ rc k [] 0) by exact Hk. destruct (lt_dec t (length ar)) as [Ht|Ht].
    + rewrite (nth_map_lt _ ar t 0 0) by exact Ht. reflexivity.
    + rewrite !(nth_overflow _ _ (n := t)) by (try rewrite map_length; lia). ring.
  - rewrite !(nth_overflow _ _ (n := k)) by (try rewrite map_length; lia). rewrite ?nth_nil. ring.
Qed.

(* the i-th mode as gkl_sfi builds it: radial column pio[i] of kers[tord[i]] times azimuthal row oord[i] *)
Definition kl_fun (kers : list mat) (az : mat) (t q o : nat) : mat :=
  sfi O (mcol (nth t kers []) q) (nth o az []).

Lemma kl_fun_model kers az nr oi i :
  sfi O (rabas_col O kers nr oi i) (nth (nth i (oord nr oi) 0%nat) az [])
  = kl_fun kers az (nth i (tord nr oi) 0%nat) (nth i (pio nr oi) 0%nat) (nth i (oord nr oi) 0%nat).
Proof. reflexivity. Qed.

Lemma pupil_inner_sfi nr npp r1 a1 r2 a2 :
  pupil_inner nr npp (sfi O r1 a1) (sfi O r2 a2)
  = (/ INR nr * rsum (fun k => nth k r1 0 * nth k r2 0) nr)
    * (/ INR npp * rsum (fun t => nth t a1 0 * nth t a2 0) npp).
Proof.
  unfold pupil_inner.
  rewrite (rsum_ext _ (fun k => (nth k r1 0 * nth k r2 0) * rsum (fun t => nth t a1 0 * nth t a2 0) npp) nr).
  2:{ intros k Hk. rewrite <- rsum_scal_l. apply rsum_ext. intros t Ht. rewrite !ent_sfi. ring. }
  rewrite rsum_scal_r.
  destruct (Req_dec (INR nr) 0) as [E0|E0].
  - assert (nr = 0%nat) as -> by (apply INR_eq; exact E0). cbn [rsum]. ring.
  - destruct (Req_dec (INR npp) 0) as [E1|E1].
    + assert (npp = 0%nat) as -> by (apply INR_eq; exact E1). cbn [rsum]. ring.
    + field. split; assumption.
Qed.

Lemma pupil_avg_sfi nr npp r1 a1 :
  pupil_avg nr npp (sfi O r1 a1)
  = (/ INR nr * rsum (fun k => nth k r1 0) nr) * (/ INR npp * rsum (fun t => nth t a1 0) npp).
Proof.
  unfold pupil_avg.
  rewrite (rsum_ext _ (fun k => nth k r1 0 * rsum (fun t => nth t a1 0) npp) nr).
  2:{ intros k Hk. rewrite <- rsum_scal_l. apply rsum_ext. intros t Ht. rewrite !ent_sfi. ring. }
  rewrite rsum_scal_r.
  destruct (Req_dec (INR nr) 0) as [E0|E0].
  - assert (nr = 0%nat) as -> by (apply INR_eq; exact E0). cbn [rsum]. ring.
  - destruct (Req_dec (INR npp) 0) as [E1|E1].
    + assert (npp = 0%nat) as -> by (apply INR_eq; exact E1). cbn [rsum]. ring.
    + field. split; assumption.
Qed.

Lemma az_freq_pos o : (1 <= o)%nat -> (1 <= az_freq o)%nat.
Proof.
  intros Ho. destruct (az_class o) as [[E _]|[[q [_ [_ [F _]]]]|[q [_ [_ [F _]]]]]]; [lia| |]; rewrite F; lia.
Qed.

(* E1: the synthesised functions (order t = az_freq o, radial index q, azimuthal row o) are orthonormal for
   the pupil average.  Premises: eigh contract for order 0 (v0) and for every order 1..pmax (vsp p);
   no aliasing of the azimuthal frequencies on the npp samples. *)
Theorem kl_polar_orthonormal : forall nr npp nord (kers : list mat) (v0 : mat) (vsp : nat -> mat) pmax,
  (1 <= nr)%nat -> (1 <= npp)%nat ->
  (forall a b, (a < nr - 1)%nat -> (b < nr - 1)%nat ->
     rsum (fun j => ent v0 j a * ent v0 j b) (nr - 1) = if (a =? b)%nat then 1 else 0) ->
  nth 0 kers [] = radial0 O nr v0 ->
  (forall p, (1 <= p <= pmax)%nat ->
     wf_mat nr nr (vsp p) /\
     (forall a b, (a < nr)%nat -> (b < nr)%nat ->
        rsum (fun k => ent (vsp p) k a * ent (vsp p) k b) nr = if (a =? b)%nat then 1 else 0) /\
     nth p kers [] = radialp O nr (vsp p)) ->
  forall o1 q1 o2 q2, (o1 < nord)%nat -> (o2 < nord)%nat -> (q1 < nr)%nat -> (q2 < nr)%nat ->
    (az_freq o1 <= pmax)%nat -> (az_freq o2 <= pmax)%nat -> (az_freq o1 + az_freq o2 < npp)%nat ->
    pupil_inner nr npp (kl_fun kers (azimuthal O nord npp) (az_freq o1) q1 o1)
                       (kl_fun kers (azimuthal O nord npp) (az_freq o2) q2 o2)
    = if (o1 =? o2)%nat && (q1 =? q2)%nat then 1 else 0.
Proof.
  intros nr npp nord kers v0 vsp pmax Hnr Hnpp Hv0 Hk0 Hkp o1 q1 o2 q2 Ho1 Ho2 Hq1 Hq2 Hp1 Hp2 Hal.
  unfold kl_fun. rewrite pupil_inner_sfi.
  pose proof (azimuthal_orthogonal nord npp o1 o2 Hnpp Ho1 Ho2 Hal) as Haz. unfold ent in Haz.
  rewrite Haz.
  destruct (Nat.eqb_spec o1 o2) as [<-|Hne]; [|cbn [andb]; ring]. cbn [andb].
  rewrite (rsum_ext _ (fun k => ent (nth (az_freq o1) kers []) k q1 * ent (nth (az_freq o1) kers []) k q2) nr)
    by (intros; rewrite !nth_mcol; reflexivity).
  destruct (Nat.eqb_spec o1 0) as [->|Hn0].
  - change (az_freq 0) with 0%nat. rewrite Hk0.
    destruct (radial0_orthonormal nr v0 Hnr Hv0) as [_ Hr]. rewrite (Hr q1 q2 Hq1 Hq2).
    destruct (q1 =? q2)%nat; ring.
  - assert (Hf : (1 <= az_freq o1 <= pmax)%nat) by (split; [apply az_freq_pos; lia | exact Hp1]).
    destruct (Hkp _ Hf) as [Hwf [Hv Hk]]. rewrite Hk.
    destruct (radialp_orthonormal nr (vsp (az_freq o1)) Hnr Hwf Hv) as [_ Hr]. rewrite (Hr q1 q2 Hq1 Hq2).
    destruct (q1 =? q2)%nat; field.
Qed.

(* E2: every mode except the piston has zero pupil average: order 0 by the piston-removing basis (B),
   order >= 1 by the zero mean of cos / sin over the npp samples (C) *)
Theorem kl_polar_zero_mean : forall nr npp nord (kers : list mat) (v0 : mat) o q,
  (1 <= nr)%nat -> (1 <= npp)%nat -> (o < nord)%nat -> (az_freq o < npp)%nat ->
  (o = 0%nat -> nth 0 kers [] = radial0 O nr v0 /\ (q < nr - 1)%nat) ->
  pupil_avg nr npp (kl_fun kers (azimuthal O nord npp) (az_freq o) q o) = 0.
Proof.
  intros nr npp nord kers v0 o q Hnr Hnpp Ho Hal H0. unfold kl_fun. rewrite pupil_avg_sfi.
  destruct (Nat.eq_dec o 0) as [->|Hn0].
  - destruct (H0 eq_refl) as [Hk Hq]. change (az_freq 0) with 0%nat. rewrite Hk.
    rewrite (rsum_ext _ (fun k => ent (radial0 O nr v0) k q) nr) by (intros; apply nth_mcol).
    rewrite radial0_zero_sum by assumption. ring.
  - pose proof (azimuthal_zero_mean nord npp o ltac:(lia) Ho Hal) as Hz. unfold ent in Hz.
    rewrite Hz. ring.
Qed.

(* E3 (end to end): the modes produced by the model from the LAPACK / NumPy results.  mode i is the polar
   array gkl_sfi builds: outer(rabas[:, i], azbas[oord[i], :]).  Premises: argsort returns distinct flat
   indices below nr * (pmax + 1); eigh contract for orders 0 .. pmax; enough azimuthal rows and no aliasing. *)
Definition kl_mode (kers : list mat) (nr nord npp : nat) (oi : list nat) (i : nat) : mat :=
  sfi O (rabas_col O kers nr oi i) (nth (nth i (oord nr oi) 0%nat) (azimuthal O nord npp) []).

Theorem kl_modes_orthonormal : forall nr npp nord nfunc (sorted : list nat) (kers : list mat) (v0 : mat)
                                      (vsp : nat -> mat) pmax,
  (1 <= nr)%nat -> (1 <= npp)%nat -> NoDup sorted ->
  (forall x, In x sorted -> (x < nr * S pmax)%nat) ->
  (2 * pmax < nord)%nat -> (2 * pmax < npp)%nat ->
  (forall a b, (a < nr - 1)%nat -> (b < nr - 1)%nat ->
     rsum (fun j => ent v0 j a * ent v0 j b) (nr - 1) = if (a =? b)%nat then 1 else 0) ->
  nth 0 kers [] = radial0 O nr v0 ->
  (forall p, (1 <= p <= pmax)%nat ->
     wf_mat nr nr (vsp p) /\
     (forall a b, (a < nr)%nat -> (b < nr)%nat ->
        rsum (fun k => ent (vsp p) k a * ent (vsp p) k b) nr = if (a =? b)%nat then 1 else 0) /\
     nth p kers [] = radialp O nr (vsp p)) ->
  let oi := oind nr nfunc sorted in
  forall i i', (i < length oi)%nat -> (i' < length oi)%nat ->
    pupil_inner nr npp (kl_mode kers nr nord npp oi i) (kl_mode kers nr nord npp oi i')
    = if (i =? i')%nat then 1 else 0.
Proof.
  intros nr npp nord nfunc sorted kers v0 vsp pmax Hnr Hnpp Hnd Hrange Hnord Hal Hv0 Hk0 Hkp oi i i' Hi Hi'.
  assert (Hdesc : forall i, (i < length oi)%nat ->
            (nth i (tord nr oi) 0 <= pmax)%nat /\ (nth i (pio nr oi) 0 < nr)%nat /\
            (nth i (oord nr oi) 0 <= 2 * pmax)%nat /\
            az_freq (nth i (oord nr oi) 0%nat) = nth i (tord nr oi) 0%nat).
  { intros n Hn. pose proof (Hrange _ (oind_in_sorted nr nfunc sorted n Hn)) as Hx. fold oi in Hx.
    assert (Ht : (nth n (tord nr oi) 0 <= pmax)%nat).
    { unfold tord. rewrite (nth_map_lt (fun y => (y / nr)%nat) oi n 0%nat 0%nat Hn).
      apply Nat.lt_succ_r. apply Nat.div_lt_upper_bound; lia. }
    split; [exact Ht|]. split.
    - unfold pio. rewrite (nth_map_lt (fun y => (y mod nr)%nat) oi n 0%nat 0%nat Hn).
      apply Nat.mod_upper_bound. lia.
    - split; [|apply oord_freq_is_tord; exact Hn].
      rewrite nth_oord by exact Hn. unfold tord in Ht.
      rewrite (nth_map_lt (fun y => (y / nr)%nat) oi n 0%nat 0%nat Hn) in Ht. lia. }
  destruct (Hdesc i Hi) as [T1 [P1 [O1 F1]]]. destruct (Hdesc i' Hi') as [T2 [P2 [O2 F2]]].
  unfold kl_mode. rewrite !kl_fun_model. rewrite <- F1, <- F2.
  rewrite (kl_polar_orthonormal nr npp nord kers v0 vsp pmax Hnr Hnpp Hv0 Hk0 Hkp) by (try assumption; lia).
  destruct (Nat.eqb_spec i i') as [->|Hne].
  - rewrite !Nat.eqb_refl. reflexivity.
  - destruct (Nat.eqb_spec (nth i (oord nr oi) 0%nat) (nth i' (oord nr oi) 0%nat)) as [Eo|_]; [|reflexivity].
    destruct (Nat.eqb_spec (nth i (pio nr oi) 0%nat) (nth i' (pio nr oi) 0%nat)) as [Ep|_]; [|reflexivity].
    exfalso. apply Hne. apply (oind_descriptors_injective nr nfunc sorted i i'); try assumption; lia.
Qed.

(* every selected mode other than the piston (flat index nr-1: order 0, appended eigenvalue 0) has zero
   pupil average *)
Theorem kl_modes_zero_mean : forall nr npp nord nfunc (sorted : list nat) (kers : list mat) (v0 : mat) pmax,
  (1 <= nr)%nat -> (1 <= npp)%nat ->
  (forall x, In x sorted -> (x < nr * S pmax)%nat) ->
  (2 * pmax < nord)%nat -> (pmax < npp)%nat ->
  nth 0 kers [] = radial0 O nr v0 ->
  let oi := oind nr nfunc sorted in
  forall i, (i < length oi)%nat -> nth i oi 0%nat <> (nr - 1)%nat ->
    pupil_avg nr npp (kl_mode kers nr nord npp oi i) = 0.
Proof.
  intros nr npp nord nfunc sorted kers v0 pmax Hnr Hnpp Hrange Hnord Hal Hk0 oi i Hi Hnp.
  pose proof (Hrange _ (oind_in_sorted nr nfunc sorted i Hi)) as Hx. fold oi in Hx.
  assert (Ht : (nth i oi 0%nat / nr <= pmax)%nat)
    by (apply Nat.lt_succ_r; apply Nat.div_lt_upper_bound; lia).
  pose proof (oord_freq_is_tord nr oi i Hi) as Hf.
  assert (Htd : nth i (tord nr oi) 0%nat = (nth i oi 0%nat / nr)%nat)
    by (unfold tord; apply (nth_map_lt (fun y => (y / nr)%nat) oi i 0%nat 0%nat Hi)).
  assert (Hpd : nth i (pio nr oi) 0%nat = (nth i oi 0%nat mod nr)%nat)
    by (unfold pio; apply (nth_map_lt (fun y => (y mod nr)%nat) oi i 0%nat 0%nat Hi)).
  assert (Hoo : (nth i (oord nr oi) 0 <= 2 * pmax)%nat) by (rewrite nth_oord by exact Hi; lia).
  unfold kl_mode. rewrite kl_fun_model. rewrite <- Hf.
  apply (kl_polar_zero_mean nr npp nord kers v0); try assumption; try lia.
  intros Ho0.
  split; [exact Hk0|]. rewrite Ho0 in Hf. change (az_freq 0) with 0%nat in Hf.
    rewrite Htd in Hf. rewrite Hpd.
    assert (Hsmall : (nth i oi 0 < nr)%nat).
    { destruct (Nat.lt_ge_cases (nth i oi 0%nat) nr) as [H|H]; [exact H|].
      assert (1 <= nth i oi 0 / nr)%nat by (apply Nat.div_le_lower_bound; lia). lia. }
    rewrite Nat.mod_small by exact Hsmall. lia.
Qed.

(* ========================================================================================== *)
(* H : the kernel is the DFT of a real even sequence; eigh diagonalises order p                  *)
(* ========================================================================================== *)

Lemma rsum_opp f n : rsum (fun i => - f i) n = - rsum f n.
Proof. induction n as [|n IH]; cbn [rsum]; [lra|]. rewrite IH. lra. Qed.

Lemma rsum_odd_zero g N : g 0%nat = 0 ->
  (forall n, (0 < n < N)%nat -> g (N - n)%nat = - g n) -> rsum g N = 0.
Proof.
  intros H0 Hodd. destruct N as [|M]; [reflexivity|].
  rewrite rsum_S_l, H0, Rplus_0_l.
  set (h := fun i => g (S i)).
  assert (Hr : rsum h M = - rsum h M).
  { rewrite (rsum_rev h M) at 1. rewrite <- rsum_opp. apply rsum_ext. intros i Hi. unfold h.
    replace (S (M - 1 - i)) with (S M - S i)%nat by lia. apply Hodd. lia. }
  lra.
Qed.

Lemma W_reflect N n k : (0 < N)%nat -> (n <= N)%nat -> W N ((N - n) * k) = cconj O (W N (n * k)).
Proof.
  intros HN Hn. assert (HN' : 0 < INR N) by (apply lt_0_INR; lia).
  unfold W. rewrite <- (E_neg G K).
  rewrite <- (E_shift_nat (- - (2 * PI * INR (n * k) / INR N)) k). f_equal.
  rewrite !mult_INR, minus_INR by exact Hn. field. lra.
Qed.

(* the DFT of a real, even (x_{N-t} = x_t) sequence is real *)
Lemma dft_real_even_im (x : list R) N : length x = N ->
  (forall t, (0 < t < N)%nat -> nth (N - t) x 0 = nth t x 0) ->
  forall k, (k < N)%nat -> snd (nth k (dft O (map (cofR O) x)) (czero O)) = 0.
Proof.
  intros Hl He k Hk. assert (HN' : 0 < INR N) by (apply lt_0_INR; lia).
  rewrite dft_ktr. ncx.
  rewrite nth_ktr by (rewrite map_length, Hl; exact Hk). rewrite map_length, Hl.
  rewrite snd_bigsum. apply rsum_odd_zero.
  - unfold Kdft, W. cbn [Nat.mul INR].
    replace (- (2 * PI * 0 / INR N)) with 0 by (field; lra).
    rewrite E_0. change (czero O) with (cofR O 0). rewrite map_nth. cunf. ring.
  - intros n Hn. change (czero O) with (cofR O 0). rewrite !map_nth. rewrite (He n Hn).
    unfold Kdft. rewrite W_reflect by lia. generalize (W N (n * k)). intros [c s]. cunf. ring.
Qed.

(* the sampled structure function of kernel_pair *)
Definition kl_sf (nr : nat) (rad : list R) (i j : nat) : list R :=
  let a := nth i rad 0 in let b := nth j rad 0 in
  map (fun t => stf_kolmogorov O (nofQ O 5 10 * nsqrt O (nmax O ((nsqr O a + nsqr O b)
                  - ((two O * a) * b) * ncos O (((kz O t * two O) * npi O) / kz O (5 * nr))) (nzero O))))
      (seq 0 (5 * nr)).

Theorem kernel_real_even : forall ri nr rad i j,
  let sf := kl_sf nr rad i j in
  let N := (5 * nr)%nat in
  kernel_pair O ri nr rad i j
    = map (fun z => ((1 / 2 * - (1)) / ((2 * PI) * (1 - ri * ri)) * ((2 * PI) / INR N)) * fst z)
          (dft O (map (cofR O) sf)) /\
  length sf = N /\
  (forall t, (0 < t < N)%nat -> nth (N - t) sf 0 = nth t sf 0) /\
  (forall k, (k < N)%nat -> snd (nth k (dft O (map (cofR O) sf)) (czero O)) = 0).
Proof.
  intros ri nr rad i j sf N.
  assert (Hlen : length sf = N) by (unfold sf, kl_sf; rewrite map_length, seq_length; reflexivity).
  assert (Hev : forall t, (0 < t < N)%nat -> nth (N - t) sf 0 = nth t sf 0).
  { intros t Ht. assert (HN' : 0 < INR N) by (apply lt_0_INR; lia).
    unfold sf, kl_sf. fold N. rewrite !nth_map_seq by lia. f_equal. f_equal. f_equal. f_equal. f_equal. f_equal.
    unfold kz, two. rops. rewrite <- !INR_IZR_INZ. rewrite minus_INR by lia.
    replace ((INR N - INR t) * 2 * PI / INR N) with (- (INR t * 2 * PI / INR N) + 2 * INR 1 * PI)
      by (cbn [INR]; field; lra).
    rewrite cos_period, cos_neg. reflexivity. }
  split; [|split; [exact Hlen | split; [exact Hev|]]].
  - unfold kernel_pair. apply map_ext. intros z. unfold kz, two, N. rops. rewrite <- INR_IZR_INZ. reflexivity.
  - apply dft_real_even_im; assumption.
Qed.

(* kernel[:, :, p] is symmetric by construction *)
Theorem kernel_order_symmetric : forall ri nr rad p i j, (i < nr)%nat -> (j < nr)%nat ->
  ent (kernel_order O ri nr rad p) i j = ent (kernel_order O ri nr rad p) j i.
Proof.
  intros ri nr rad p i j Hi Hj. unfold ent, kernel_order.
  rewrite (nth_map_seq _ nr i []) by exact Hi. rewrite (nth_map_seq _ nr j []) by exact Hj.
  rewrite !nth_map_seq by assumption. rewrite Nat.max_comm, Nat.min_comm. reflexivity.
Qed.

Lemma ent_orderp_matrix ri nr kp i j :
  ent (orderp_matrix O ri nr kp) i j = (1 - ri * ri) / INR nr * ent kp i j.
Proof.
  unfold orderp_matrix. rewrite (ent_map_map (fun v => nmul O (fktom O ri nr) v)) by (rops; ring).
  unfold fktom, kz. rops. rewrite <- INR_IZR_INZ. reflexivity.
Qed.

Lemma mcol_length (M : mat) q : length (mcol M q) = length M.
Proof. apply map_length. Qed.

(* eigh contract for order p (M v_b = lambda_b v_b, orthonormal columns) => V^T M V = diag(lambda) *)
Theorem order_p_diagonalises : forall ri nr kp (vs : mat) (lam : list R),
  wf_mat nr nr vs ->
  (forall b, (b < nr)%nat ->
     mvec O (orderp_matrix O ri nr kp) (mcol vs b) = vscale O (nth b lam 0) (mcol vs b)) ->
  (forall a b, (a < nr)%nat -> (b < nr)%nat ->
     rsum (fun k => ent vs k a * ent vs k b) nr = if (a =? b)%nat then 1 else 0) ->
  forall a b, (a < nr)%nat -> (b < nr)%nat ->
    ndot O (mcol vs a) (mvec O (orderp_matrix O ri nr kp) (mcol vs b))
    = if (a =? b)%nat then nth a lam 0 else 0.
Proof.
  intros ri nr kp vs lam Hwf Heig Hon a b Ha Hb.
  assert (Hl : length vs = nr) by (destruct Hwf; assumption).
  rewrite (Heig b Hb). rewrite (ndot_vscale_r G K).
  rewrite (ndot_rsum G K nr) by (rewrite mcol_length; exact Hl).
  rewrite (rsum_ext _ (fun k => ent vs k a * ent vs k b) nr) by (intros; rewrite !nth_mcol; reflexivity).
  rewrite Hon by assumption. destruct (Nat.eqb_spec a b) as [->|_]; ring.
Qed.

(* ========================================================================================== *)
(* non-vacuity of the LAPACK / NumPy contracts used as premises                                 *)
(* ========================================================================================== *)

Definition I2 : mat := [[1; 0]; [0; 1]].

(* eigh contract of order 0 (radial0_orthonormal), nr = 2 and nr = 3 *)
Example eigh0_contract_satisfiable_2 : exists v0 : mat, wf_mat (2 - 1) (2 - 1) v0 /\
  forall a b, (a < 2 - 1)%nat -> (b < 2 - 1)%nat ->
    rsum (fun j => ent v0 j a * ent v0 j b) (2 - 1) = if (a =? b)%nat then 1 else 0.
Proof.
  exists [[1]]. split; [split; [reflexivity | repeat constructor]|].
  intros a b Ha Hb. destruct a; [|lia]. destruct b; [|lia]. unfold ent. cbn [Nat.sub rsum nth Nat.eqb]. lra.
Qed.

Lemma I2_orthonormal : wf_mat 2 2 I2 /\
  forall a b, (a < 2)%nat -> (b < 2)%nat ->
    rsum (fun k => ent I2 k a * ent I2 k b) 2 = if (a =? b)%nat then 1 else 0.
Proof.
  split; [split; [reflexivity | repeat constructor]|].
  intros a b Ha Hb. destruct a as [|[|a]]; destruct b as [|[|b]]; try lia;
    unfold ent, I2; cbn [rsum nth Nat.eqb]; lra.
Qed.

Example eigh0_contract_satisfiable_3 : exists v0 : mat, wf_mat (3 - 1) (3 - 1) v0 /\
  forall a b, (a < 3 - 1)%nat -> (b < 3 - 1)%nat ->
    rsum (fun j => ent v0 j a * ent v0 j b) (3 - 1) = if (a =? b)%nat then 1 else 0.
Proof. exists I2. exact I2_orthonormal. Qed.

(* eigh contract of order p >= 1 (radialp_orthonormal) *)
Example eighp_contract_satisfiable : exists vs : mat, wf_mat 2 2 vs /\
  forall a b, (a < 2)%nat -> (b < 2)%nat ->
    rsum (fun k => ent vs k a * ent vs k b) 2 = if (a =? b)%nat then 1 else 0.
Proof. exists I2. exact I2_orthonormal. Qed.

(* all premises of kl_polar_orthonormal together: nr = 2, orders 0 and 1 *)
Example kl_polar_premises_satisfiable : exists (kers : list mat) (v0 : mat) (vsp : nat -> mat) (pmax : nat),
  (forall a b, (a < 2 - 1)%nat -> (b < 2 - 1)%nat ->
     rsum (fun j => ent v0 j a * ent v0 j b) (2 - 1) = if (a =? b)%nat then 1 else 0) /\
  nth 0 kers [] = radial0 O 2 v0 /\
  (1 <= pmax)%nat /\
  (forall p, (1 <= p <= pmax)%nat ->
     wf_mat 2 2 (vsp p) /\
     (forall a b, (a < 2)%nat -> (b < 2)%nat ->
        rsum (fun k => ent (vsp p) k a * ent (vsp p) k b) 2 = if (a =? b)%nat then 1 else 0) /\
     nth p kers [] = radialp O 2 (vsp p)).
Proof.
  exists [radial0 O 2 [[1]]; radialp O 2 I2], [[1]], (fun _ => I2), 1%nat.
  split; [|split; [reflexivity | split; [lia|]]].
  - intros a b Ha Hb. destruct a; [|lia]. destruct b; [|lia]. unfold ent. cbn [Nat.sub rsum nth Nat.eqb]. lra.
  - intros p Hp. assert (p = 1%nat) as -> by lia.
    destruct I2_orthonormal as [Hw Ho]. split; [exact Hw|]. split; [exact Ho | reflexivity].
Qed.

(* argsort contract of evals_sorted: evs = [3; 1; 2], argsort(-evs) = [0; 2; 1] *)
Example argsort_contract_satisfiable : exists (evs : list R) (sorted : list nat),
  length sorted = 3%nat /\
  forall k, (S k < length sorted)%nat ->
    nth (nth (S k) sorted 0%nat) evs 0 <= nth (nth k sorted 0%nat) evs 0.
Proof.
  exists [3; 1; 2], [0%nat; 2%nat; 1%nat]. split; [reflexivity|].
  intros k Hk. cbn [length] in Hk. destruct k as [|[|k]]; [| |lia]; cbn [nth]; lra.
Qed.

(* eigh contract of order_p_diagonalises: ri = 0, nr = 2, kp = diag(2, 4): M = diag(1, 2), V = I, lambda = (1, 2) *)
Example eigp_contract_satisfiable : exists (ri : R) (kp vs : mat) (lam : list R),
  wf_mat 2 2 vs /\
  (forall b, (b < 2)%nat ->
     mvec O (orderp_matrix O ri 2 kp) (mcol vs b) = vscale O (nth b lam 0) (mcol vs b)) /\
  (forall a b, (a < 2)%nat -> (b < 2)%nat ->
     rsum (fun k => ent vs k a * ent vs k b) 2 = if (a =? b)%nat then 1 else 0).
Proof.
  exists 0, [[2; 0]; [0; 4]], I2, [1; 2].
  destruct I2_orthonormal as [Hw Ho]. split; [exact Hw|]. split; [|exact Ho].
  intros b Hb. destruct b as [|[|b]]; [| |lia];
    unfold mvec, orderp_matrix, vscale, mcol, I2, fktom, kz; cbn [map nth];
    rewrite !(ndot_cons G K), !(ndot_nil_l G K); rops; cbn [Z.of_nat Pos.of_succ_nat Pos.succ];
    repeat (f_equal; try lra).
Qed.

(* all premises of kl_modes_orthonormal together: nr = 2, orders 0 and 1, argsort = [2; 0; 3; 1] *)
Example kl_modes_premises_satisfiable :
  exists (sorted : list nat) (kers : list mat) (v0 : mat) (vsp : nat -> mat) (pmax nord npp : nat),
  NoDup sorted /\ (forall x, In x sorted -> (x < 2 * S pmax)%nat) /\
  (2 * pmax < nord)%nat /\ (2 * pmax < npp)%nat /\
  (forall a b, (a < 2 - 1)%nat -> (b < 2 - 1)%nat ->
     rsum (fun j => ent v0 j a * ent v0 j b) (2 - 1) = if (a =? b)%nat then 1 else 0) /\
  nth 0 kers [] = radial0 O 2 v0 /\
  (forall p, (1 <= p <= pmax)%nat ->
     wf_mat 2 2 (vsp p) /\
     (forall a b, (a < 2)%nat -> (b < 2)%nat ->
        rsum (fun k => ent (vsp p) k a * ent (vsp p) k b) 2 = if (a =? b)%nat then 1 else 0) /\
     nth p kers [] = radialp O 2 (vsp p)) /\
  oind 2 4 sorted = [2; 2; 0; 3]%nat /\ oord 2 (oind 2 4 sorted) = [2; 1; 0; 1]%nat.
Proof.
  exists [2; 0; 3; 1]%nat, [radial0 O 2 [[1]]; radialp O 2 I2], [[1]], (fun _ => I2), 1%nat, 3%nat, 3%nat.
  split; [repeat constructor; cbn [In]; intuition lia|].
  split; [intros x Hx; cbn [In] in Hx; intuition lia|].
  split; [lia|]. split; [lia|].
  split; [|split; [reflexivity | split; [|split; reflexivity]]].
  - intros a b Ha Hb. destruct a; [|lia]. destruct b; [|lia]. unfold ent. cbn [Nat.sub rsum nth Nat.eqb]. lra.
  - intros p Hp. assert (p = 1%nat) as -> by lia.
    destruct I2_orthonormal as [Hw Ho]. split; [exact Hw|]. split; [exact Ho | reflexivity].
Qed.

End C13.

(* NOT PROVED: nothing -- groups A, B, C, D, E, F, G and the stretch group H are all proved (Qed). *)

Print Assumptions piston_orth_orthogonal.
Print Assumptions piston_orth_rows_orthogonal.
Print Assumptions piston_orth_columns_zero_sum.
Print Assumptions azimuthal_orthogonal.
Print Assumptions azimuthal_zero_mean.
Print Assumptions radial0_orthonormal.
Print Assumptions radialp_orthonormal.
Print Assumptions kl_polar_orthonormal.
Print Assumptions kl_polar_zero_mean.
Print Assumptions kl_modes_orthonormal.
Print Assumptions kl_modes_zero_mean.
Print Assumptions oind_length.
Print Assumptions oind_pairs.
Print Assumptions oind_descriptors_injective.
Print Assumptions evals_sorted.
Print Assumptions evals_pair_equal.
Print Assumptions pupil_is_annulus_indicator.
Print Assumptions masked_zero_outside.
Print Assumptions bilinear_convex.
Print Assumptions bilinear_in_range.
Print Assumptions bilinear_exact_on_grid.
Print Assumptions kernel_real_even.
Print Assumptions order_p_diagonalises.
