(* C10: the propagators of model/Optics.v conserve power (and are linear) -- complex-number reading. *)
From Coq Require Import Reals Lra Lia ZArith List Arith Psatz.
Require Import AOV.base.Num AOV.base.NumR AOV.base.RpowTac AOV.base.Cplx AOV.model.Fourier AOV.model.Optics
               AOV.proofs.Dft_proofs AOV.proofs.C09_proofs.
Import ListNotations.
Local Open Scope R_scope.

Section C10.
Variables (G : R -> R) (K : R -> R -> R).
Local Notation O := (ROps G K).
Local Notation RC := (R * R)%type.

Lemma energy2_nil : energy2 O (@nil (list RC)) = 0.
Proof. reflexivity. Qed.
Lemma energy2_cons' (row : list RC) m : energy2 O (row :: m) = energy O row + energy2 O m.
Proof. unfold energy2. cbn [map]. apply nsum_R_cons. Qed.
Lemma energy2_app (a b : list (list RC)) : energy2 O (a ++ b) = energy2 O a + energy2 O b.
Proof. unfold energy2. rewrite map_app. apply nsum_R_app. Qed.
Lemma energy_ifftshift (l : list RC) : energy O (ifftshift l) = energy O l.
Proof. unfold ifftshift. rewrite energy_app, Rplus_comm, <- energy_app, firstn_skipn. reflexivity. Qed.
Lemma energy2_map_ext (f : list RC -> list RC) m :
  (forall row, energy O (f row) = energy O row) -> energy2 O (map f m) = energy2 O m.
Proof. intros H. induction m as [|row m IH]; [reflexivity|]. cbn [map]. rewrite !energy2_cons', H, IH. reflexivity. Qed.
Lemma energy2_fftshift2 (m : list (list RC)) : energy2 O (fftshift2 m) = energy2 O m.
Proof. unfold fftshift2, fftshift at 1.
  rewrite energy2_app, Rplus_comm, <- energy2_app, firstn_skipn.
  apply energy2_map_ext. apply energy_fftshift. Qed.
Lemma energy2_ifftshift2 (m : list (list RC)) : energy2 O (ifftshift2 m) = energy2 O m.
Proof. unfold ifftshift2, ifftshift at 1.
  rewrite energy2_app, Rplus_comm, <- energy2_app, firstn_skipn.
  apply energy2_map_ext. apply energy_ifftshift. Qed.
Lemma energy2_scale s (m : list (list RC)) : energy2 O (cscale_m O s m) = s * s * energy2 O m.
Proof. induction m as [|row m IH]; [unfold cscale_m, energy2, nsum; cbn [map fold_left]; rops; ring|].
  unfold cscale_m in *. cbn [map]. rewrite !energy2_cons', IH, energy_scale. ring. Qed.

(* multiplication by a complex constant and by a unit-modulus grid *)
Lemma cabs2_cmul (a b : RC) : cabs2 O (cmul O a b) = cabs2 O a * cabs2 O b.
Proof. destruct a, b. cbv [cabs2 cmul]; rops; cbn [fst snd]. ring. Qed.
Lemma cabs2_cis t : cabs2 O (cis O t) = 1.
Proof. cbv [cabs2 cis]; rops; cbn [fst snd]. pose proof (sin2_cos2 t) as H. unfold Rsqr in H. lra. Qed.
Lemma energy_cons (z : RC) l : energy O (z :: l) = cabs2 O z + energy O l.
Proof. unfold energy. cbn [map]. apply nsum_R_cons. Qed.
Lemma energy_nil : energy O (@nil RC) = 0.
Proof. reflexivity. Qed.
Lemma energy_mulc a (l : list RC) : energy O (map (cmul O a) l) = cabs2 O a * energy O l.
Proof. induction l as [|z l IH]; cbn [map]; [unfold energy, nsum; cbn [map fold_left]; rops; ring|].
  rewrite !energy_cons, IH, cabs2_cmul. ring. Qed.
Lemma energy2_mulc a (m : list (list RC)) : energy2 O (cmulc_m O a m) = cabs2 O a * energy2 O m.
Proof. unfold cmulc_m. induction m as [|row m IH]; cbn [map]; [unfold energy2, nsum; cbn [map fold_left]; rops; ring|].
  rewrite !energy2_cons', IH, energy_mulc. ring. Qed.

Definition unit_row (q : list RC) : Prop := Forall (fun z => cabs2 O z = 1) q.
Lemma energy_unit_l : forall (q l : list RC), unit_row q -> length q = length l ->
  energy O (map2 (cmul O) q l) = energy O l.
Proof. induction q as [|a q IH]; intros [|z l] Hu Hl; try discriminate Hl; [reflexivity|].
  cbn [map2]. rewrite !energy_cons, cabs2_cmul. inversion Hu as [|? ? H1 H2]; subst.
  rewrite H1, IH; [ring|assumption|simpl in Hl; congruence]. Qed.
Lemma energy_unit_r : forall (l q : list RC), unit_row q -> length q = length l ->
  energy O (map2 (cmul O) l q) = energy O l.
Proof. induction l as [|z l IH]; intros [|a q] Hu Hl; try discriminate Hl; [reflexivity|].
  cbn [map2]. rewrite !energy_cons, cabs2_cmul. inversion Hu as [|? ? H1 H2]; subst.
  rewrite H1, IH; [ring|assumption|simpl in Hl; congruence]. Qed.
Lemma energy2_unit_l : forall (Q m : list (list RC)) c, Forall unit_row Q ->
  length Q = length m -> Forall (fun r => length r = c) Q -> Forall (fun r => length r = c) m ->
  energy2 O (cmul_m O Q m) = energy2 O m.
Proof. unfold cmul_m. induction Q as [|q Q IH]; intros [|r m] c Hu Hl HQ Hm; try discriminate Hl; [reflexivity|].
  cbn [map2]. rewrite !energy2_cons'.
  pose proof (Forall_inv Hu) as Hu1. pose proof (Forall_inv_tail Hu) as Hu2.
  pose proof (Forall_inv HQ) as HQ1. pose proof (Forall_inv_tail HQ) as HQ2.
  pose proof (Forall_inv Hm) as Hm1. pose proof (Forall_inv_tail Hm) as Hm2. cbv beta in *.
  rewrite energy_unit_l by (try assumption; congruence).
  rewrite (IH m c); try assumption; try reflexivity. simpl in Hl; congruence. Qed.
Lemma energy2_unit_r : forall (m Q : list (list RC)) c, Forall unit_row Q ->
  length Q = length m -> Forall (fun r => length r = c) Q -> Forall (fun r => length r = c) m ->
  energy2 O (cmul_m O m Q) = energy2 O m.
Proof. unfold cmul_m. induction m as [|r m IH]; intros [|q Q] c Hu Hl HQ Hm; try discriminate Hl; [reflexivity|].
  cbn [map2]. rewrite !energy2_cons'.
  pose proof (Forall_inv Hu) as Hu1. pose proof (Forall_inv_tail Hu) as Hu2.
  pose proof (Forall_inv HQ) as HQ1. pose proof (Forall_inv_tail HQ) as HQ2.
  pose proof (Forall_inv Hm) as Hm1. pose proof (Forall_inv_tail Hm) as Hm2. cbv beta in *.
  rewrite energy_unit_r by (try assumption; congruence).
  rewrite (IH Q c); try assumption; try reflexivity. simpl in Hl; congruence. Qed.

Lemma phase_grid_unit (c : list R) a off : Forall unit_row (phase_grid O c a off).
Proof. unfold phase_grid. apply Forall_forall. intros row Hin. apply in_map_iff in Hin.
  destruct Hin as [y [<- _]]. apply Forall_forall. intros z Hz. apply in_map_iff in Hz.
  destruct Hz as [x [<- _]]. apply cabs2_cis. Qed.
Lemma phase_grid_wf (c : list R) a off : wf_mat (length c) (length c) (phase_grid O c a off).
Proof. unfold phase_grid. split; [apply map_length|]. apply Forall_forall. intros row Hin.
  apply in_map_iff in Hin. destruct Hin as [y [<- _]]. apply map_length. Qed.
Lemma coordsN_length N d : length (coordsN O N d) = N.
Proof. unfold coordsN. rewrite map_length, seq_length. reflexivity. Qed.

(* transforms *)
Lemma energy2_idft2 r c (m : list (list RC)) : wf_mat r c m -> (0 < r)%nat -> (0 < c)%nat ->
  INR r * INR c * energy2 O (idft2 O m) = energy2 O m.
Proof. intros Hwf Hr Hc. rewrite <- (parseval2 G K r c) by (try apply wf_idft2; assumption).
  rewrite (dft2_idft2 G K r c) by assumption. reflexivity. Qed.
Lemma energy2_ft2 r c (m : list (list RC)) delta : wf_mat r c m -> (0 < r)%nat -> (0 < c)%nat ->
  energy2 O (ft2 O m delta) = (delta * delta) * (delta * delta) * (INR r * INR c) * energy2 O m.
Proof. intros Hwf Hr Hc. unfold ft2. rewrite energy2_scale, energy2_fftshift2.
  rewrite (parseval2 G K r c) by (try apply wf_ifftshift2; assumption).
  rewrite energy2_ifftshift2. unfold nsqr; rops. ring. Qed.
Lemma energy2_ift2 r c (m : list (list RC)) delta_f : wf_mat r c m -> (0 < r)%nat -> (0 < c)%nat ->
  INR r * INR c * energy2 O (ift2 O m delta_f)
  = (INR c * delta_f) * (INR c * delta_f) * ((INR c * delta_f) * (INR c * delta_f)) * energy2 O m.
Proof. intros Hwf Hr Hc. unfold ift2. ncx. rewrite (ncols_wf r c _ Hwf Hr).
  rewrite energy2_scale, energy2_fftshift2.
  rewrite <- (energy2_ifftshift2 m).
  rewrite <- (energy2_idft2 r c (ifftshift2 m)) by (try apply wf_ifftshift2; assumption).
  unfold nsqr; rops. rewrite <- INR_IZR_INZ. ring. Qed.

(* ---- shapes ---- *)
Lemma wf_cmul_m r c (a b : list (list RC)) : wf_mat r c a -> wf_mat r c b -> wf_mat r c (cmul_m O a b).
Proof. unfold cmul_m. revert r b. induction a as [|x a IH]; intros r [|y b] [Hla Hfa] [Hlb Hfb].
  - split; [exact Hla|constructor].
  - simpl in *; congruence.
  - simpl in *; congruence.
  - cbn [map2]. destruct r as [|r]; [simpl in Hla; discriminate|].
    destruct (IH r b) as [Hl Hf].
    + split; [simpl in Hla; congruence|exact (Forall_inv_tail Hfa)].
    + split; [simpl in Hlb; congruence|exact (Forall_inv_tail Hfb)].
    + split; [simpl; congruence|]. constructor; [|exact Hf].
      pose proof (Forall_inv Hfa) as Ha. pose proof (Forall_inv Hfb) as Hb. cbv beta in Ha, Hb.
      rewrite map2_length_eq; [exact Ha|transitivity c; [exact Ha|symmetry; exact Hb]]. Qed.
Lemma wf_map_map' {A B} (g : A -> B) r c (m : list (list A)) : wf_mat r c m -> wf_mat r c (map (map g) m).
Proof. intros [Hl Hf]. split; [rewrite map_length; exact Hl|]. apply Forall_forall. intros row Hin.
  apply in_map_iff in Hin. destruct Hin as [x [<- Hx]]. rewrite map_length. rewrite Forall_forall in Hf. auto. Qed.
Lemma wf_ft2 r c (m : list (list RC)) d : wf_mat r c m -> (0 < r)%nat -> (0 < c)%nat -> wf_mat r c (ft2 O m d).
Proof. intros. unfold ft2. apply wf_cscale_m, wf_fftshift2, wf_dft2; try assumption. apply wf_ifftshift2; assumption. Qed.
Lemma wf_ift2 r c (m : list (list RC)) d : wf_mat r c m -> (0 < r)%nat -> (0 < c)%nat -> wf_mat r c (ift2 O m d).
Proof. intros. unfold ift2. apply wf_cscale_m, wf_fftshift2, wf_idft2; try assumption. apply wf_ifftshift2; assumption. Qed.
Lemma wf_phase N d a off : wf_mat N N (phase_grid O (coordsN O N d) a off).
Proof. pose proof (phase_grid_wf (coordsN O N d) a off) as H. rewrite coordsN_length in H. exact H. Qed.

Lemma cdivr_scale (m : list (list RC)) r : cdivr_m O m r = cscale_m O (/ r) m.
Proof. unfold cdivr_m, cscale_m, cscale_l. apply map_ext. intros row. apply map_ext. intros [u v].
  cbv [cscale]; rops; cbn [fst snd]. unfold Rdiv. f_equal; ring. Qed.

Lemma wf_rows {A} r c (m : list (list A)) : wf_mat r c m -> Forall (fun row => length row = c) m.
Proof. intros [_ H]. exact H. Qed.
Lemma wf_len {A} r c (m : list (list A)) : wf_mat r c m -> length m = r.
Proof. intros [H _]. exact H. Qed.

(* energy of  Q .* m  and  m .* Q  for a phase grid Q *)
Lemma energy2_phase_l N d a off (m : list (list RC)) : wf_mat N N m ->
  energy2 O (cmul_m O (phase_grid O (coordsN O N d) a off) m) = energy2 O m.
Proof. intros Hwf. apply (energy2_unit_l _ _ N).
  - apply phase_grid_unit.
  - transitivity N; [exact (wf_len _ _ _ (wf_phase N d a off))|symmetry; exact (wf_len _ _ _ Hwf)].
  - exact (wf_rows _ _ _ (wf_phase N d a off)).
  - exact (wf_rows _ _ _ Hwf). Qed.
Lemma energy2_phase_r N d a off (m : list (list RC)) : wf_mat N N m ->
  energy2 O (cmul_m O m (phase_grid O (coordsN O N d) a off)) = energy2 O m.
Proof. intros Hwf. apply (energy2_unit_r _ _ N).
  - apply phase_grid_unit.
  - transitivity N; [exact (wf_len _ _ _ (wf_phase N d a off))|symmetry; exact (wf_len _ _ _ Hwf)].
  - exact (wf_rows _ _ _ (wf_phase N d a off)).
  - exact (wf_rows _ _ _ Hwf). Qed.

(* ---- angular spectrum ---- *)
Lemma AS_power N (U : list (list RC)) wvl d1 d2 z : wf_mat N N U -> (0 < N)%nat ->
  z <> 0 -> d1 <> 0 -> d2 <> 0 ->
  energy2 O (angularSpectrum O U wvl d1 d2 z) * (d2 * d2) = energy2 O U * (d1 * d1).
Proof.
  intros Hwf HN Hz Hd1 Hd2. unfold angularSpectrum.
  replace (neqb O z (nzero O)) with false
    by (symmetry; cbv [neqb nzero nofZ ROps Reqb]; destruct (Req_EM_T z 0); [contradiction|reflexivity]).
  ncx. rewrite (wf_len _ _ _ Hwf).
  set (k := kwave O wvl). set (df1 := ndiv O (none O) (nmul O (ofnat O N) d1)). set (mag := ndiv O d2 d1).
  match goal with |- energy2 O (cmul_m O (phase_grid O _ ?a3 ?o3) (ift2 O (cmul_m O (phase_grid O _ ?a2 ?o2)
       (ft2 O (cdivr_m O (cmul_m O (phase_grid O _ ?a1 ?o1) U) mag) d1)) df1)) * _ = _ =>
    set (A1 := a1); set (A2 := a2); set (A3 := a3); set (O1 := o1) end.
  assert (W1 : wf_mat N N (cdivr_m O (cmul_m O (phase_grid O (coordsN O N d1) A1 O1) U) mag)).
  { unfold cdivr_m. apply wf_map_map', wf_cmul_m; [apply wf_phase|exact Hwf]. }
  assert (W2 : wf_mat N N (ft2 O (cdivr_m O (cmul_m O (phase_grid O (coordsN O N d1) A1 O1) U) mag) d1))
    by (apply wf_ft2; assumption).
  assert (W3 : wf_mat N N (cmul_m O (phase_grid O (coordsN O N df1) A2 (nzero O))
               (ft2 O (cdivr_m O (cmul_m O (phase_grid O (coordsN O N d1) A1 O1) U) mag) d1)))
    by (apply wf_cmul_m; [apply wf_phase|exact W2]).
  rewrite energy2_phase_l by (apply wf_ift2; assumption).
  assert (HN' : 0 < INR N) by (apply lt_0_INR; exact HN).
  apply Rmult_eq_reg_l with (INR N * INR N); [|apply Rgt_not_eq; nra].
  rewrite <- !Rmult_assoc. rewrite (energy2_ift2 N N _ df1 W3 HN HN).
  rewrite energy2_phase_l by exact W2.
  rewrite (energy2_ft2 N N _ d1 W1 HN HN).
  rewrite cdivr_scale, energy2_scale, energy2_phase_l by exact Hwf.
  unfold df1, mag, ofnat; rops. rewrite <- INR_IZR_INZ. field. repeat split; lra.
Qed.

(* ---- one-step Fresnel, lens, two-step ---- *)
Lemma cmul_m_assoc_c a : forall (B C : list (list RC)),
  cmul_m O (cmulc_m O a B) C = cmulc_m O a (cmul_m O B C).
Proof. unfold cmul_m, cmulc_m. induction B as [|rb B IH]; intros [|rc C]; try reflexivity.
  cbn [map map2]. f_equal; [|apply IH].
  revert rc. induction rb as [|p rb IHr]; intros [|q rc]; try reflexivity.
  cbn [map map2]. f_equal; [cring|apply IHr]. Qed.
Lemma cabs2_inv_i b : b <> 0 -> cabs2 O (inv_i O b) = / (b * b).
Proof. intros Hb. cbv [inv_i cdiv cinv cabs2 cmul cone nzero none]; rops; cbn [fst snd]. field. exact Hb. Qed.
Lemma Rabs_sq x : Rabs x * Rabs x = x * x.
Proof. rewrite <- Rabs_mult. apply Rabs_pos_eq. nra. Qed.

(* the common core  A .* B .* ft2(U .* P, d) :  |A|^2 d^4 N^2 E(U) *)
Lemma fresnel_core_energy N (U : list (list RC)) a dB aB dP aP d : wf_mat N N U -> (0 < N)%nat ->
  energy2 O (cmul_m O (cmulc_m O a (phase_grid O (coordsN O N dB) aB (nzero O)))
                      (ft2 O (cmul_m O U (phase_grid O (coordsN O N dP) aP (nzero O))) d))
  = cabs2 O a * ((d * d) * (d * d) * (INR N * INR N) * energy2 O U).
Proof. intros Hwf HN.
  assert (W1 : wf_mat N N (cmul_m O U (phase_grid O (coordsN O N dP) aP (nzero O))))
    by (apply wf_cmul_m; [exact Hwf|apply wf_phase]).
  rewrite cmul_m_assoc_c, energy2_mulc.
  rewrite energy2_phase_l by (apply wf_ft2; assumption).
  rewrite (energy2_ft2 N N _ d W1 HN HN), energy2_phase_r by exact Hwf. reflexivity. Qed.

Lemma oneStep_power N (U : list (list RC)) wvl d1 z : wf_mat N N U -> (0 < N)%nat ->
  wvl <> 0 -> z <> 0 -> d1 <> 0 ->
  let d2 := wvl * z / (INR N * d1) in
  energy2 O (oneStepFresnel O U wvl d1 z) * (d2 * d2) = energy2 O U * (d1 * d1).
Proof. intros Hwf HN Hw Hz Hd1 d2. unfold oneStepFresnel. ncx. rewrite (wf_len _ _ _ Hwf).
  rewrite fresnel_core_energy by assumption.
  rewrite cabs2_inv_i by (rops; apply Rmult_integral_contrapositive_currified; assumption).
  assert (HN' : 0 < INR N) by (apply lt_0_INR; exact HN).
  unfold d2; rops. field. repeat split; lra. Qed.

Lemma twoStep_power N (U : list (list RC)) wvl d1 d2 z : wf_mat N N U -> (0 < N)%nat ->
  wvl <> 0 -> z <> 0 -> d1 <> 0 -> d2 <> 0 ->
  energy2 O (twoStepFresnel O U wvl d1 d2 z) * (d2 * d2) = energy2 O U * (d1 * d1).
Proof. intros Hwf HN Hw Hz Hd1 Hd2. unfold twoStepFresnel. ncx. rewrite (wf_len _ _ _ Hwf).
  assert (HN' : 0 < INR N) by (apply lt_0_INR; exact HN).
  set (m := ndiv O d2 d1).
  set (Dz1 := if neqb O (nsub O (none O) m) (nzero O) then ndiv O z (nadd O (none O) m) else ndiv O z (nsub O (none O) m)).
  assert (Hm : m <> 0) by (unfold m; rops; unfold Rdiv; apply Rmult_integral_contrapositive_currified; [|apply Rinv_neq_0_compat]; assumption).
  assert (HD : Dz1 <> 0 /\ z - Dz1 <> 0 /\ Dz1 * Dz1 * (d2 * d2) = (z - Dz1) * (z - Dz1) * (d1 * d1)).
  { unfold Dz1. cbv [neqb nzero none nofZ nsub nadd ndiv ROps Reqb].
    destruct (Req_EM_T (1 - m) 0) as [E|E].
    - assert (m = 1) by lra. assert (d2 = d1) by (unfold m in *; revert H; rops; intros H; apply (Rmult_eq_compat_r d1) in H; unfold Rdiv in H; rewrite Rmult_assoc, Rinv_l, Rmult_1_r, Rmult_1_l in H; assumption).
      subst d2. rewrite H. repeat split; try (intro Hc; apply Hz; lra). field.
    - assert (E2 : 1 - m <> 0) by exact E. repeat split.
      + unfold Rdiv. apply Rmult_integral_contrapositive_currified; [assumption|apply Rinv_neq_0_compat; assumption].
      + replace (z - z / (1 - m)) with (- z * m / (1 - m)) by (field; assumption).
        unfold Rdiv. apply Rmult_integral_contrapositive_currified; [|apply Rinv_neq_0_compat; assumption].
        apply Rmult_integral_contrapositive_currified; [lra|assumption].
      + unfold m in *. revert E2. rops. intros E2. field. split; [lra|].
        replace (d1 - d2) with ((1 - d2 / d1) * d1) by (field; assumption). 
        apply Rmult_integral_contrapositive_currified; assumption. }
  destruct HD as (HD1 & HD2 & HD3). clearbody Dz1.
  set (d1a := ndiv O (nmul O wvl (nabs O Dz1)) (nmul O (ofnat O N) d1)).
  match goal with |- energy2 O (cmul_m O _ (ft2 O (cmul_m O ?Uitm _) _)) * _ = _ => set (Ui := Uitm) end.
  assert (WU : wf_mat N N Ui).
  { unfold Ui. apply wf_cmul_m; [unfold cmulc_m; apply wf_map_map', wf_phase|].
    apply wf_ft2; try assumption. apply wf_cmul_m; [exact Hwf|apply wf_phase]. }
  rewrite (fresnel_core_energy N Ui) by assumption.
  unfold Ui. rewrite (fresnel_core_energy N U) by assumption.
  rewrite !cabs2_inv_i by (rops; apply Rmult_integral_contrapositive_currified; assumption).
  set (EU := energy2 O U). clearbody EU.
  unfold d1a, ofnat; rops. rewrite <- INR_IZR_INZ.
  assert (Hq : Rabs Dz1 * Rabs Dz1 = Dz1 * Dz1) by apply Rabs_sq.
  transitivity (EU * (Dz1 * Dz1 * (d2 * d2)) / ((z - Dz1) * (z - Dz1))).
  - set (aD := Rabs Dz1) in *.
    replace (wvl * aD / (INR N * d1) * (wvl * aD / (INR N * d1)) * (wvl * aD / (INR N * d1) * (wvl * aD / (INR N * d1))))
      with ((wvl * wvl * wvl * wvl) * ((aD * aD) * (aD * aD)) / ((INR N * d1) * (INR N * d1) * ((INR N * d1) * (INR N * d1))))
      by (field; split; lra).
    rewrite Hq. field. repeat split; try assumption; lra.
  - rewrite HD3. field. assumption.
Qed.

Lemma cdiv_comm (z c0 : RC) : cdiv O z c0 = cmul O (cinv O c0) z.
Proof. unfold cdiv. cring. Qed.
Lemma lens_power N (U : list (list RC)) wvl d1 f : wf_mat N N U -> (0 < N)%nat ->
  wvl <> 0 -> f <> 0 -> d1 <> 0 ->
  let d2 := wvl * f / (INR N * d1) in
  energy2 O (lensAgainst O U wvl d1 f) * (d2 * d2) = energy2 O U * (d1 * d1).
Proof. intros Hwf HN Hw Hf Hd1 d2. unfold lensAgainst. ncx. rewrite (wf_len _ _ _ Hwf).
  match goal with |- energy2 O (cmul_m O (map (map _) (phase_grid O ?c ?a ?o)) _) * _ = _ =>
    set (cc := c); set (aa := a) end.
  assert (Hlen : length cc = N) by (unfold cc; rewrite map_length, seq_length; reflexivity).
  rewrite (map_ext _ (map (cmul O (cinv O (nzero O, nmul O wvl f))))) by (intros row; apply map_ext; intros z; apply cdiv_comm).
  fold (cmulc_m O (cinv O (nzero O, nmul O wvl f)) (phase_grid O cc aa (nzero O))).
  rewrite cmul_m_assoc_c, energy2_mulc.
  pose proof (phase_grid_wf cc aa (nzero O)) as Wp. rewrite Hlen in Wp.
  rewrite (energy2_unit_l _ _ N); [|apply phase_grid_unit
    |transitivity N; [exact (wf_len _ _ _ Wp)|symmetry; exact (wf_len _ _ _ (wf_ft2 N N U d1 Hwf HN HN))]
    |exact (wf_rows _ _ _ Wp)|exact (wf_rows _ _ _ (wf_ft2 N N U d1 Hwf HN HN))].
  rewrite (energy2_ft2 N N _ d1 Hwf HN HN).
  assert (HN' : 0 < INR N) by (apply lt_0_INR; exact HN).
  assert (Hwf0 : wvl * f <> 0) by (apply Rmult_integral_contrapositive_currified; assumption).
  cbv [cinv cabs2 nzero]; rops; cbn [fst snd]. unfold d2. field. repeat split; lra.
Qed.
End C10.
