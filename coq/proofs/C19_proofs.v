(* C19: the structure-function estimator and the temporal power spectrum implement their definitions *)
From Coq Require Import Reals Lra Lia ZArith List Arith Psatz.
Require Import AOV.base.Num AOV.base.NumR AOV.base.RpowTac AOV.base.Cplx AOV.model.Estim
               AOV.proofs.Dft_proofs AOV.proofs.C09_proofs.
Import ListNotations.
Local Open Scope R_scope.

Section C19.
Variables (G : R -> R) (K : R -> R -> R).
Local Notation O := (ROps G K).

Lemma nmean_const (l : list R) v : l <> [] -> Forall (fun x => x = v) l -> nmean O l = v.
Proof. intros Hne Hf. unfold nmean.
  assert (E : l = repeat v (length l)).
  { clear Hne. induction l as [|x l IH]; [reflexivity|]. inversion Hf; subst. cbn [length repeat]. f_equal. apply IH. assumption. }
  rewrite E at 1. rewrite nsum_R_repeat. rops. rewrite <- INR_IZR_INZ.
  assert (0 < INR (length l)). { apply lt_0_INR. destruct l; [contradiction|simpl; lia]. }
  field. lra. Qed.
Lemma nmean_scale (l : list R) s : nmean O (map (fun x => s * x) l) = s * nmean O l.
Proof. unfold nmean. rewrite nsum_R_scal, map_length. rops. unfold Rdiv. ring. Qed.

(* lag 0 is 0; positive lags are the mean squared lag difference (by definition of the model) *)
Lemma sf_lag0 phase nb step : (0 < sf_xm O phase nb step)%nat -> nth 0 (calc_sf O phase nb step) 1 = 0.
Proof. intros H. unfold calc_sf. destruct (sf_xm O phase nb step); [lia|]. reflexivity. Qed.
Lemma sf_lagj phase nb step j : (0 < j < sf_xm O phase nb step)%nat ->
  nth j (calc_sf O phase nb step) 0 = sf_lag O phase (j * step).
Proof. intros [H0 Hj]. unfold calc_sf. rewrite nth_map_seq by exact Hj. destruct j; [lia|reflexivity]. Qed.

(* quadratic in amplitude *)
Lemma concat_map2_scale s : forall (A B : list (list R)),
  concat (map2 (map2 (sqdiff O)) (map (map (fun x => s * x)) A) (map (map (fun x => s * x)) B))
  = map (fun x => (s * s) * x) (concat (map2 (map2 (sqdiff O)) A B)).
Proof. induction A as [|a A IH]; intros [|b B]; try reflexivity. cbn [map map2 concat].
  rewrite map_app, IH. f_equal. clear IH.
  revert b. induction a as [|p a IHa]; intros [|q b]; try reflexivity. cbn [map map2]. f_equal; [|apply IHa].
  unfold sqdiff, nsqr; rops. ring. Qed.
Lemma sf_lag_quadratic (phase : list (list R)) s i :
  sf_lag O (map (map (fun x => s * x)) phase) i = s * s * sf_lag O phase i.
Proof. unfold sf_lag. rewrite map_length, <- nmean_scale, firstn_map, skipn_map. f_equal.
  apply concat_map2_scale. Qed.

(* exact on a ramp of slope a along the first axis (arbitrary per-column offsets b_c):
   sf = a^2 (j step)^2 *)
Definition ramp (a : R) (offs : list R) (nrows : nat) : list (list R) :=
  map (fun k => map (fun b => a * INR k + b) offs) (seq 0 nrows).
Lemma sf_ramp a offs n i : offs <> [] -> (0 < i < n)%nat ->
  sf_lag O (ramp a offs n) i = a * a * (INR i * INR i).
Proof. intros Ho [Hi Hn]. unfold sf_lag, ramp. rewrite map_length, seq_length.
  rewrite firstn_map, skipn_map.
  assert (E1 : firstn (n - i) (seq 0 n) = seq 0 (n - i)).
  { replace n with ((n - i) + i)%nat at 2 by lia. rewrite seq_app, firstn_app, seq_length, Nat.sub_diag.
    rewrite firstn_all2 by (rewrite seq_length; lia). cbn [firstn]. apply app_nil_r. }
  assert (E2 : skipn i (seq 0 n) = seq i (n - i)).
  { replace n with (i + (n - i))%nat at 1 by lia. rewrite seq_app, skipn_app, seq_length, Nat.sub_diag.
    rewrite skipn_all2 by (rewrite seq_length; lia). reflexivity. }
  rewrite E1, E2.
  apply nmean_const.
  - (* non-empty *)
    destruct (n - i)%nat eqn:En; [lia|]. cbn [seq map map2 concat]. destruct offs as [|b offs]; [contradiction|].
    cbn [map map2]. discriminate.
  - apply Forall_forall. intros x Hx. apply in_concat in Hx. destruct Hx as [row [Hrow Hx]].
    assert (Hgen : forall m s1 s2, In row (map2 (map2 (sqdiff O)) (map (fun k => map (fun b => a * INR k + b) offs) (seq s1 m))
                                       (map (fun k => map (fun b => a * INR k + b) offs) (seq s2 m))) ->
                    exists k1 k2, (k2 = k1 + (s2 - s1))%nat /\ (s1 <= s2)%nat -> True).
    { intros; exists 0%nat, 0%nat; trivial. }
    clear Hgen.
    assert (Hrows : forall m s1, In row (map2 (map2 (sqdiff O)) (map (fun k => map (fun b => a * INR k + b) offs) (seq s1 m))
                                       (map (fun k => map (fun b => a * INR k + b) offs) (seq (s1 + i) m))) ->
                    Forall (fun v => v = a * a * (INR i * INR i)) row).
    { induction m as [|m IHm]; intros s1 Hin; [destruct Hin|]. cbn [seq map map2] in Hin. destruct Hin as [<-|Hin].
      - clear. induction offs as [|b offs IHo]; [constructor|]. cbn [map map2]. constructor; [|exact IHo].
        unfold sqdiff, nsqr; rops. rewrite plus_INR. ring.
      - apply (IHm (S s1)). exact Hin. }
    specialize (Hrows (n - i)%nat 0%nat Hrow). rewrite Forall_forall in Hrows. apply Hrows. exact Hx.
Qed.

(* ---- temporal power spectrum ---- *)
Lemma cabs2_scale s (z : R * R) : cabs2 O (cscale O s z) = s * s * cabs2 O z.
Proof. destruct z. cbv [cabs2 cscale]; rops; cbn [fst snd]. ring. Qed.
(* quadratic in amplitude, per centroid time series *)
Lemma spectrum_quadratic s (x : list (R * R)) :
  map (cabs2 O) (dft O (cscale_l O s x)) = map (fun v => s * s * v) (map (cabs2 O) (dft O x)).
Proof. rewrite dft_scale. unfold cscale_l. rewrite !map_map. apply map_ext. intros z. apply cabs2_scale. Qed.
(* Parseval over the full set of bins, per centroid *)
Lemma spectrum_parseval (x : list (R * R)) :
  nsum O (map (cabs2 O) (dft O x)) = INR (length x) * nsum O (map (cabs2 O) x).
Proof. exact (parseval G K x). Qed.
(* frequency axis k * rate / n *)
Lemma tps_axis_spec rate n k : rate <> 0 -> (0 < n)%nat -> (k < n / 2)%nat ->
  nth k (tps_axis O rate n) 0 = INR k * rate / INR n.
Proof. intros Hr Hn Hk. unfold tps_axis. rewrite nth_map_seq by exact Hk. unfold onat; rops.
  rewrite <- !INR_IZR_INZ. assert (0 < INR n) by (apply lt_0_INR; exact Hn). field. split; lra. Qed.
Lemma tps_axis_length rate n : length (tps_axis O rate n) = (n / 2)%nat.
Proof. unfold tps_axis. rewrite map_length, seq_length. reflexivity. Qed.
End C19.
