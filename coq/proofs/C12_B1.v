(* C12, part B1: the exact radial inner product and its bounded orthogonality check. *)
From Coq Require Import ZArith QArith Qreduction Bool List Arith Lia.
Require Import AOV.model.Zernike AOV.proofs.C12_A.
Import ListNotations.
Local Open Scope Z_scope.

(* ---- sums in Q ---- *)
Definition qsum (l : list Q) : Q := fold_right Qplus 0%Q l.
Definition qsum_red (l : list Q) : Q := fold_right (fun x a => Qred (x + a)) 0%Q l.

Lemma qsum_red_ok l : (qsum_red l == qsum l)%Q.
Proof.
  induction l as [|x l IH]; [reflexivity|].
  change (Qred (x + qsum_red l) == x + qsum l)%Q. rewrite Qred_correct, IH. reflexivity.
Qed.

Lemma qsum_app l1 l2 : (qsum (l1 ++ l2) == qsum l1 + qsum l2)%Q.
Proof.
  induction l1 as [|x l IH]; [cbn [app]; unfold qsum at 2; cbn [fold_right]; ring|].
  change (x + qsum (l ++ l2) == (x + qsum l) + qsum l2)%Q. rewrite IH. ring.
Qed.

Lemma qsum_flat_map {A} (f : A -> list Q) l :
  (qsum (flat_map f l) == qsum (map (fun x => qsum (f x)) l))%Q.
Proof.
  induction l as [|x l IH]; [reflexivity|].
  change (qsum (f x ++ flat_map f l) == qsum (f x) + qsum (map (fun x => qsum (f x)) l))%Q.
  rewrite qsum_app, IH. reflexivity.
Qed.

Lemma qsum_map_ext {A} (f g : A -> Q) l :
  (forall x, (f x == g x)%Q) -> (qsum (map f l) == qsum (map g l))%Q.
Proof.
  intros H. induction l as [|x l IH]; [reflexivity|].
  change (f x + qsum (map f l) == g x + qsum (map g l))%Q. rewrite IH, H. reflexivity.
Qed.

(* ---- the exact radial inner product  int_0^1 R_n1^m(r) R_n2^m(r) r dr ---- *)
Definition ip_term (pc1 pc2 : Z * Q) : Q :=
  (snd pc1 * snd pc2 / inject_Z (fst pc1 + fst pc2 + 2))%Q.
Definition ip_list (t1 t2 : list (Z * Q)) : Q :=
  qsum (flat_map (fun pc1 => map (fun pc2 => ip_term pc1 pc2) t2) t1).
Definition rad_ip (n1 n2 m : Z) : Q := ip_list (rad_terms n1 m) (rad_terms n2 m).

(* the same sum, with reduced coefficients and intermediate reduction, for computation *)
Definition red_term (pc : Z * Q) : Z * Q := (fst pc, Qred (snd pc)).
Definition ip_fast (t1 t2 : list (Z * Q)) : Q :=
  qsum_red (map (fun pc1 => qsum_red (map (fun pc2 => ip_term pc1 pc2) t2)) t1).
Definition rad_ip_fast (n1 n2 m : Z) : Q :=
  ip_fast (map red_term (rad_terms n1 m)) (map red_term (rad_terms n2 m)).

Lemma ip_fast_ok t1 t2 : (ip_fast t1 t2 == ip_list t1 t2)%Q.
Proof.
  unfold ip_fast, ip_list. rewrite qsum_red_ok, qsum_flat_map.
  apply qsum_map_ext. intros x. apply qsum_red_ok.
Qed.

Lemma ip_term_red a b : (ip_term (red_term a) (red_term b) == ip_term a b)%Q.
Proof. unfold ip_term, red_term; cbn [fst snd]. rewrite !Qred_correct. reflexivity. Qed.

Lemma ip_list_red t1 t2 : (ip_list (map red_term t1) (map red_term t2) == ip_list t1 t2)%Q.
Proof.
  unfold ip_list. rewrite !qsum_flat_map, map_map.
  apply qsum_map_ext. intros a. rewrite map_map.
  apply qsum_map_ext. intros b. apply ip_term_red.
Qed.

Lemma rad_ip_fast_ok n1 n2 m : (rad_ip_fast n1 n2 m == rad_ip n1 n2 m)%Q.
Proof. unfold rad_ip_fast, rad_ip. rewrite ip_fast_ok. apply ip_list_red. Qed.

Definition rad_expected (n1 n2 : Z) : Q := if n1 =? n2 then 1 # Z.to_pos (2 * (n1 + 1)) else 0%Q.

Definition rad_check (B : Z) : bool :=
  forallb (fun m =>
    forallb (fun n1 =>
      if Z.even (n1 - m) then
        let t1 := map red_term (rad_terms n1 m) in
        forallb (fun n2 =>
          if Z.even (n2 - m)
          then Qeq_bool (ip_fast t1 (map red_term (rad_terms n2 m))) (rad_expected n1 n2) else true)
          (zrange m B)
      else true) (zrange m B)) (zrange 0 B).

Lemma rad_check_sound B : rad_check B = true ->
  forall n1 n2 m, 0 <= m <= n1 -> n1 <= B -> m <= n2 <= B ->
  Z.even (n1 - m) = true -> Z.even (n2 - m) = true ->
  (rad_ip n1 n2 m == rad_expected n1 n2)%Q.
Proof.
  unfold rad_check. intros C n1 n2 m Hm H1 H2 E1 E2.
  assert (R0 : 0 <= m <= B) by lia. assert (R1 : m <= n1 <= B) by lia.
  apply forallb_zrange with (x := m) in C; [|exact R0].
  apply forallb_zrange with (x := n1) in C; [|exact R1].
  rewrite E1 in C. cbv zeta in C.
  apply forallb_zrange with (x := n2) in C; [|exact H2].
  rewrite E2 in C. apply Qeq_bool_iff in C.
  rewrite <- rad_ip_fast_ok. exact C.
Qed.

Definition RADB : Z := 40.
Lemma rad_check_ok : rad_check RADB = true.
Proof. vm_cast_no_check (eq_refl true). Qed.

